package pki

// Validation of the generator and of the facts against the real library. All
// recipes live in scenarios.go; this file runs them through
// passiveauth.PassiveAuth / cms.CreateCertPoolFromSignedData and through
// ComputeFacts. Where the library contradicts a scenario's class the scenario
// must name the known deviation, otherwise the test fails.

import (
	"bytes"
	"fmt"
	"io"
	"log/slog"
	"os"
	"sort"
	"strings"
	"sync"
	"testing"
	"time"

	"github.com/gmrtd/gmrtd/cms"
	"github.com/gmrtd/gmrtd/document"
	"github.com/gmrtd/gmrtd/passiveauth"
)

func TestMain(m *testing.M) {
	slog.SetDefault(slog.New(slog.NewTextHandler(io.Discard, nil)))
	os.Exit(m.Run())
}

var signingTime = ScenarioSigningTime

var (
	devMu   sync.Mutex
	devSeen = map[string][]string{} // known deviation -> scenarios where it was observed
)

// world is the genuine CSCA / DS / data groups of a scenario context.
type world struct {
	csca *Authority
	ds   *Signer
	dgs  map[int][]byte
}

func newWorld(t *testing.T, seed int64, ks KeySpec) *world {
	t.Helper()
	c, err := newScen(seed, ks)
	if err != nil {
		t.Fatal(err)
	}
	return &world{csca: c.csca, ds: c.ds, dgs: c.dgs}
}

// runPA runs the real passive authentication.
func runPA(sod []byte, dgs map[int][]byte, cardSec []byte, trust [][]byte) (res *document.PassiveAuthResult, err error) {
	defer func() {
		if r := recover(); r != nil {
			err = fmt.Errorf("PANIC: %v", r)
		}
	}()
	doc := &document.Document{}
	if doc.Mf.Lds1.Sod, err = document.NewSOD(sod); err != nil {
		return nil, fmt.Errorf("NewSOD: %w", err)
	}
	for n, b := range dgs {
		switch n {
		case 1:
			if doc.Mf.Lds1.Dg1, err = document.NewDG1(b); err != nil {
				return nil, fmt.Errorf("NewDG1: %w", err)
			}
		case 2:
			doc.Mf.Lds1.Dg2 = &document.DG2{RawData: b}
		case 14:
			doc.Mf.Lds1.Dg14 = &document.DG14{RawData: b}
		default:
			return nil, fmt.Errorf("test helper: DG%d not wired", n)
		}
	}
	if cardSec != nil {
		if doc.Mf.CardSecurity, err = document.NewCardSecurity(cardSec); err != nil {
			return nil, fmt.Errorf("NewCardSecurity: %w", err)
		}
	}
	pool := &cms.GenericCertPool{}
	for _, c := range trust {
		if err := pool.Add(c); err != nil {
			return nil, fmt.Errorf("pool.Add: %w", err)
		}
	}
	res, err = passiveauth.PassiveAuth(doc, pool)
	if err == nil && (res == nil || !res.Success) {
		err = fmt.Errorf("no error but Success=false")
	}
	if err != nil && res != nil && res.Success {
		err = fmt.Errorf("error AND Success=true: %w", err)
	}
	return res, err
}

// runLibrary gives the library's verdict on a scenario (nil error = accepted).
func runLibrary(sc Scenario) (err error) {
	if sc.MasterList != nil {
		defer func() {
			if r := recover(); r != nil {
				err = fmt.Errorf("PANIC: %v", r)
			}
		}()
		pool, err := cms.CreateCertPoolFromSignedData(sc.MasterList, bytes.Join(sc.Trust, nil))
		if err != nil {
			return err
		}
		var got, want []string
		for _, c := range pool.All() {
			got = append(got, string(c.Raw))
		}
		for _, c := range sc.MLExpectCerts {
			want = append(want, string(c))
		}
		sort.Strings(got)
		sort.Strings(want)
		if strings.Join(got, "|") != strings.Join(want, "|") {
			return fmt.Errorf("TEST: pool does not hold exactly the master list certificates (%d vs %d)", len(got), len(want))
		}
		return nil
	}
	res, err := runPA(sc.SOD, sc.DGs, sc.CardSec, sc.Trust)
	if err == nil {
		if len(res.Sod.CertChain) < 2 {
			return fmt.Errorf("TEST: accepted with a chain of %d certificates", len(res.Sod.CertChain))
		}
		if sc.CardSec != nil && (res.CardSec == nil || len(res.CardSec.CertChain) < 2) {
			return fmt.Errorf("TEST: CardSecurity chain missing")
		}
	}
	return err
}

func short(err error) string {
	if err == nil {
		return "accept"
	}
	s := "reject: " + err.Error()
	if len(s) > 260 {
		s = s[:260] + "..."
	}
	return s
}

// judge compares the library's verdict with the scenario's class.
func judge(t *testing.T, sc Scenario, err error) {
	t.Helper()
	note := func() {
		devMu.Lock()
		devSeen[sc.KnownDeviation] = append(devSeen[sc.KnownDeviation], sc.KeySpec.String()+":"+sc.Name)
		devMu.Unlock()
		t.Logf("GMRTD-DEVIATION[%s] %s %s: %s", sc.KnownDeviation, sc.KeySpec, sc.Name, short(err))
	}
	bad := func(what string) {
		if sc.KnownDeviation != "" {
			if _, ok := KnownDeviations[sc.KnownDeviation]; !ok {
				t.Errorf("%s: KnownDeviation %q is not described", sc.Name, sc.KnownDeviation)
			}
			note()
			return
		}
		t.Errorf("GMRTD-DEVIATION (NEW) %s %s: %s: %s", sc.KeySpec, sc.Name, what, short(err))
	}
	t.Logf("VERDICT %-8s %-70s library=%s", sc.Class, sc.Name, short(err))
	switch {
	case err != nil && strings.HasPrefix(err.Error(), "TEST:"):
		t.Errorf("%s: %v", sc.Name, err)
	case err != nil && strings.Contains(err.Error(), "PANIC"):
		bad("library panicked")
	case sc.Class == "genuine" && err != nil:
		bad("correctly issued object rejected")
	case sc.Class == "forgery" && err == nil:
		bad("forged object accepted")
	case sc.Class == "probe":
	default:
		if sc.KnownDeviation != "" {
			t.Logf("known deviation %s NOT observed for %s %s", sc.KnownDeviation, sc.KeySpec, sc.Name)
		}
	}
}

func ints(v ...int) []int { return v }

func eqInts(a, b []int) bool {
	if len(a) != len(b) {
		return false
	}
	for i := range a {
		if a[i] != b[i] {
			return false
		}
	}
	return true
}

func subset(a, b []int) bool {
	for _, x := range a {
		found := false
		for _, y := range b {
			if x == y {
				found = true
			}
		}
		if !found {
			return false
		}
	}
	return true
}

// checkGenuineFacts asserts what ComputeFacts must say about any correctly issued document.
func checkGenuineFacts(t *testing.T, sc Scenario, f *Facts, anchors []AnchorFacts) {
	t.Helper()
	if !f.Parseable || !f.LDSParseable || len(f.Signers) < 1 || len(f.Certs) < 1 {
		t.Fatalf("%s: structure facts wrong: %+v", sc.Name, f)
	}
	for n := range sc.DGs {
		if !f.DGHashOK[n] {
			t.Errorf("%s: DGHashOK[%d] false", sc.Name, n)
		}
	}
	for k, s := range f.Signers {
		if !s.Parseable || !s.SignedAttrsPresent || !s.ContentTypeOK || !s.MessageDigestOK || !s.SignedAttrsDER {
			t.Errorf("%s: signer %d facts wrong: %+v", sc.Name, k, s)
		}
		if len(s.MatchedEmbeddedCerts) != 1 || !eqInts(s.SigVerifiesUnder, s.MatchedEmbeddedCerts) || !eqInts(s.SigVerifiesUnderDigestAlg, s.MatchedEmbeddedCerts) {
			t.Errorf("%s: signer %d SID/signature facts wrong: matched %v verifies %v / %v", sc.Name, k, s.MatchedEmbeddedCerts, s.SigVerifiesUnder, s.SigVerifiesUnderDigestAlg)
			continue
		}
		c := f.Certs[s.MatchedEmbeddedCerts[0]]
		if !c.Parseable || c.Country != "NL" || !c.HasKeyUsage || !c.KUDigitalSignature || c.IsCA || c.UnknownCriticalExt || !c.KeyValid {
			t.Errorf("%s: DS facts wrong: %+v", sc.Name, c)
		}
		if len(c.ChainsTo) == 0 || !subset(c.ChainsTo, c.AKIMatches) || !subset(c.ChainsTo, c.IssuerMatches) {
			t.Errorf("%s: DS chain facts wrong: ChainsTo %v AKIMatches %v IssuerMatches %v", sc.Name, c.ChainsTo, c.AKIMatches, c.IssuerMatches)
		}
		for _, j := range c.ChainsTo {
			a := anchors[j]
			if !a.Parseable || !a.IsCA || !a.KUKeyCertSign || a.UnknownCriticalExt || a.Country != "NL" {
				t.Errorf("%s: anchor %d facts wrong: %+v", sc.Name, j, a)
			}
			if s.SigningTime != nil && (s.SigningTime.Before(a.NotBefore) || s.SigningTime.After(a.NotAfter) || s.SigningTime.Before(c.NotBefore) || s.SigningTime.After(c.NotAfter)) {
				t.Errorf("%s: signing time outside validity", sc.Name)
			}
		}
	}
}

type factCheck func(t *testing.T, sc Scenario, f *Facts, a []AnchorFacts)

// factChecks: the fact that must hold (or flip) per scenario, by name.
var factChecks = map[string]factCheck{
	"genuine/base": func(t *testing.T, sc Scenario, f *Facts, a []AnchorFacts) {
		if f.SigningTime == nil || !f.SigningTime.Equal(signingTime) {
			t.Errorf("SigningTime fact %v", f.SigningTime)
		}
		if !a[0].SelfSigned || !eqInts(a[0].ChainsTo, ints(0)) {
			t.Errorf("anchor facts wrong: %+v", a[0])
		}
	},
	"forgery/csca-absent-same-name-other-key": func(t *testing.T, sc Scenario, f *Facts, a []AnchorFacts) {
		if len(f.Certs[0].ChainsTo) != 0 || !eqInts(f.Certs[0].IssuerMatches, ints(0)) {
			t.Errorf("chain facts: %+v", f.Certs[0])
		}
	},
	"forgery/dg1-altered": func(t *testing.T, sc Scenario, f *Facts, a []AnchorFacts) {
		if f.DGHashOK[1] || !f.DGHashOK[2] {
			t.Errorf("DGHashOK %v", f.DGHashOK)
		}
	},
	"forgery/dg2-altered": func(t *testing.T, sc Scenario, f *Facts, a []AnchorFacts) {
		if f.DGHashOK[2] || !f.DGHashOK[1] {
			t.Errorf("DGHashOK %v", f.DGHashOK)
		}
	},
	"forgery/signature-bit-flipped": func(t *testing.T, sc Scenario, f *Facts, a []AnchorFacts) {
		if len(f.Signers[0].SigVerifiesUnder) != 0 || !f.MessageDigestOK {
			t.Errorf("facts: %+v", f.Signers[0])
		}
	},
	"forgery/signed-attribute-byte-flipped": func(t *testing.T, sc Scenario, f *Facts, a []AnchorFacts) {
		if len(f.Signers[0].SigVerifiesUnder) != 0 {
			t.Errorf("facts: %+v", f.Signers[0])
		}
	},
	"genuine/variant/indefinite": func(t *testing.T, sc Scenario, f *Facts, a []AnchorFacts) {
		if !f.Indefinite {
			t.Error("Indefinite fact false")
		}
	},
	"genuine/variant/sid-ski": func(t *testing.T, sc Scenario, f *Facts, a []AnchorFacts) {
		if f.Signers[0].SIDForm != "ski" || f.Signers[0].Version != 3 {
			t.Errorf("SID facts: %+v", f.Signers[0])
		}
	},
	"genuine/variant/lds-v1": func(t *testing.T, sc Scenario, f *Facts, a []AnchorFacts) {
		if f.LDSVersion != 1 || f.LDSVersionInfo == nil || f.LDSVersionInfo[0] != "0108" {
			t.Errorf("LDS v1 facts: %v %v", f.LDSVersion, f.LDSVersionInfo)
		}
	},
	"genuine/variant/no-signing-time": func(t *testing.T, sc Scenario, f *Facts, a []AnchorFacts) {
		if f.SigningTime != nil || f.Signers[0].SigningTimePresent {
			t.Error("SigningTime fact should be absent")
		}
	},
	"genuine/variant/extra-cert-before": func(t *testing.T, sc Scenario, f *Facts, a []AnchorFacts) {
		if !eqInts(f.Signers[0].MatchedEmbeddedCerts, ints(1)) {
			t.Errorf("matched %v", f.Signers[0].MatchedEmbeddedCerts)
		}
	},
	"genuine/variant/lds-hash-differs-from-signer-digest": func(t *testing.T, sc Scenario, f *Facts, a []AnchorFacts) {
		if f.DigestAlg != secondHash(sc.KeySpec.Hash) || f.Signers[0].DigestAlg != sc.KeySpec.Hash {
			t.Errorf("digest facts %s %s", f.DigestAlg, f.Signers[0].DigestAlg)
		}
	},
	"genuine/variant/validity-generalized-time-2055": func(t *testing.T, sc Scenario, f *Facts, a []AnchorFacts) {
		if f.Certs[0].NotAfter.Year() != 2055 {
			t.Errorf("NotAfter %v", f.Certs[0].NotAfter)
		}
	},
	"genuine/variant/csca-path-len-absent": func(t *testing.T, sc Scenario, f *Facts, a []AnchorFacts) {
		if a[0].PathLen != -1 || !a[0].IsCA {
			t.Errorf("facts: %+v", a[0])
		}
	},
	"genuine/two-signer-infos": func(t *testing.T, sc Scenario, f *Facts, a []AnchorFacts) {
		if len(f.Signers) != 2 || !eqInts(f.Signers[1].SigVerifiesUnder, ints(1)) || f.Signers[0].SigningTime == nil || f.Signers[1].SigningTime == nil ||
			!f.Signers[0].SigningTime.Equal(signingTime) || !f.Signers[1].SigningTime.Equal(signingTime.Add(time.Hour)) {
			t.Errorf("facts: %+v", f.Signers)
		}
	},
	"forgery/two-signer-infos-second-certificate-not-valid-at-its-own-signing-time": func(t *testing.T, sc Scenario, f *Facts, a []AnchorFacts) {
		if len(f.Signers) != 2 || !eqInts(f.Signers[0].SigVerifiesUnder, ints(0)) || !eqInts(f.Signers[1].SigVerifiesUnder, ints(1)) || !eqInts(f.Signers[1].MatchedEmbeddedCerts, ints(1)) ||
			f.Signers[0].SigningTime == nil || f.Signers[1].SigningTime == nil || f.Signers[0].SigningTime.Equal(*f.Signers[1].SigningTime) ||
			!f.Signers[1].SigningTime.After(f.Certs[1].NotAfter) || f.Signers[0].SigningTime.After(f.Certs[0].NotAfter) || f.Signers[0].SigningTime.After(f.Certs[1].NotAfter) ||
			!eqInts(f.Certs[1].ChainsTo, ints(0)) {
			t.Errorf("facts: %+v", f.Signers)
		}
	},
	"forgery/two-signer-infos-first-without-signing-time-second-certificate-not-valid-at-its-signing-time": func(t *testing.T, sc Scenario, f *Facts, a []AnchorFacts) {
		if len(f.Signers) != 2 || f.Signers[0].SigningTime != nil || f.Signers[0].SigningTimePresent || f.Signers[1].SigningTime == nil ||
			!f.Signers[1].SigningTime.After(f.Certs[1].NotAfter) || !eqInts(f.Signers[1].SigVerifiesUnder, ints(1)) {
			t.Errorf("facts: %+v", f.Signers)
		}
	},
	"forgery/two-signer-infos-second-signature-corrupted": func(t *testing.T, sc Scenario, f *Facts, a []AnchorFacts) {
		if len(f.Signers) != 2 || !eqInts(f.Signers[0].SigVerifiesUnder, ints(0)) || len(f.Signers[1].SigVerifiesUnder) != 0 {
			t.Errorf("facts: %+v", f.Signers)
		}
	},
	"genuine/cardsecurity": func(t *testing.T, sc Scenario, _ *Facts, _ []AnchorFacts) {
		f, _ := ComputeFacts(sc.CardSec, nil, sc.Trust)
		if !f.Parseable || f.EContentType != OIDSecurityObject || f.Wrapped77 || !f.MessageDigestOK || !f.ContentTypeOK ||
			!eqInts(f.Signers[0].SigVerifiesUnder, ints(0)) || !eqInts(f.Certs[0].ChainsTo, ints(0)) || !bytes.Equal(f.EContent, TestSecurityInfos()) {
			t.Errorf("CardSecurity facts wrong: %+v", f)
		}
	},
	"forgery/cardsecurity-signed-by-foreign-key": func(t *testing.T, sc Scenario, _ *Facts, _ []AnchorFacts) {
		f, _ := ComputeFacts(sc.CardSec, nil, sc.Trust)
		if len(f.Signers[0].SigVerifiesUnder) != 0 || !eqInts(f.Signers[0].MatchedEmbeddedCerts, ints(0)) {
			t.Errorf("forged CardSecurity facts wrong")
		}
	},
	"genuine/cardsecurity-indefinite": func(t *testing.T, sc Scenario, _ *Facts, _ []AnchorFacts) {
		f, _ := ComputeFacts(sc.CardSec, nil, sc.Trust)
		if !f.Parseable || !f.Indefinite || !eqInts(f.Signers[0].SigVerifiesUnder, ints(0)) {
			t.Errorf("indefinite CardSecurity facts wrong")
		}
	},
	"genuine/master-list": func(t *testing.T, sc Scenario, f *Facts, a []AnchorFacts) {
		if !f.Parseable || !f.MasterListParseable || len(f.MasterListCerts) != 4 || f.EContentType != OIDCscaMasterList ||
			!eqInts(f.Signers[0].SigVerifiesUnder, ints(0)) || !eqInts(f.Certs[0].ChainsTo, ints(0)) || !f.MessageDigestOK ||
			!f.Certs[0].EKUCritical || len(f.Certs[0].EKU) != 1 || f.Certs[0].EKU[0] != OIDCscaMLSigningKey {
			t.Errorf("master list facts wrong: %+v", f)
		}
	},
	"forgery/master-list-foreign-root": func(t *testing.T, sc Scenario, f *Facts, a []AnchorFacts) {
		if len(f.Certs[0].ChainsTo) != 0 {
			t.Errorf("ChainsTo %v", f.Certs[0].ChainsTo)
		}
	},
	"forgery/master-list-signature-bit-flipped": func(t *testing.T, sc Scenario, f *Facts, a []AnchorFacts) {
		if len(f.Signers[0].SigVerifiesUnder) != 0 {
			t.Errorf("forged master list facts wrong")
		}
	},
	"probe/master-list-signed-by-plain-ds": func(t *testing.T, sc Scenario, f *Facts, a []AnchorFacts) {
		if f.Certs[0].HasEKU || !eqInts(f.Signers[0].SigVerifiesUnder, ints(0)) {
			t.Errorf("facts: %+v", f.Certs[0])
		}
	},

	// forgeries
	"forgery/message-digest-mismatch": func(t *testing.T, sc Scenario, f *Facts, _ []AnchorFacts) {
		if f.MessageDigestOK || !eqInts(f.Signers[0].SigVerifiesUnder, ints(0)) {
			t.Errorf("want MessageDigestOK=false with a verifying signature: %+v", f.Signers[0])
		}
	},
	"forgery/econtent-swapped-after-signing": func(t *testing.T, sc Scenario, f *Facts, _ []AnchorFacts) {
		if f.MessageDigestOK || !f.DGHashOK[2] {
			t.Errorf("want MessageDigestOK=false, DGHashOK[2]=true: %v %v", f.MessageDigestOK, f.DGHashOK)
		}
	},
	"forgery/content-type-mismatch": func(t *testing.T, sc Scenario, f *Facts, _ []AnchorFacts) {
		if f.ContentTypeOK || !f.MessageDigestOK {
			t.Errorf("want ContentTypeOK=false")
		}
	},
	"forgery/no-content-type-attr": func(t *testing.T, sc Scenario, f *Facts, _ []AnchorFacts) {
		if f.ContentTypeOK || f.Signers[0].ContentTypePresent {
			t.Errorf("want ContentTypePresent=false")
		}
	},
	"forgery/no-message-digest-attr": func(t *testing.T, sc Scenario, f *Facts, _ []AnchorFacts) {
		if f.MessageDigestOK || f.Signers[0].MessageDigestPresent {
			t.Errorf("want MessageDigestPresent=false")
		}
	},
	"forgery/signed-by-other-key": func(t *testing.T, sc Scenario, f *Facts, _ []AnchorFacts) {
		if len(f.Signers[0].SigVerifiesUnder) != 0 || !eqInts(f.Signers[0].MatchedEmbeddedCerts, ints(0)) {
			t.Errorf("want SigVerifiesUnder empty")
		}
	},
	"forgery/adversary-ds-same-names": func(t *testing.T, sc Scenario, f *Facts, _ []AnchorFacts) {
		if !eqInts(f.Signers[0].SigVerifiesUnder, ints(0)) || len(f.Certs[0].ChainsTo) != 0 || !eqInts(f.Certs[0].AKIMatches, ints(0)) || !eqInts(f.Certs[0].IssuerMatches, ints(0)) {
			t.Errorf("want a verifying signature, AKI and issuer name matching the anchor, but ChainsTo empty: %+v", f.Certs[0])
		}
	},
	"forgery/both-ds-embedded-adversary-signs-with-genuine-sid": func(t *testing.T, sc Scenario, f *Facts, _ []AnchorFacts) {
		if !eqInts(f.Signers[0].SigVerifiesUnder, ints(0)) || !eqInts(f.Signers[0].MatchedEmbeddedCerts, ints(0, 1)) || len(f.Certs[0].ChainsTo) != 0 || !eqInts(f.Certs[1].ChainsTo, ints(0)) {
			t.Errorf("facts: %+v", f.Signers[0])
		}
	},
	"forgery/adversary-ca-in-store-other-country": func(t *testing.T, sc Scenario, f *Facts, a []AnchorFacts) {
		if f.Certs[0].Country != "DE" || !eqInts(f.Certs[0].ChainsTo, ints(1)) || a[1].Country != "DE" {
			t.Errorf("facts: %+v", f.Certs[0])
		}
	},
	"forgery/ds-expired-at-signing-time": func(t *testing.T, sc Scenario, f *Facts, _ []AnchorFacts) {
		if f.SigningTime == nil || !f.SigningTime.After(f.Certs[0].NotAfter) {
			t.Errorf("want SigningTime after NotAfter")
		}
	},
	"forgery/ds-not-yet-valid-at-signing-time": func(t *testing.T, sc Scenario, f *Facts, _ []AnchorFacts) {
		if f.SigningTime == nil || !f.SigningTime.Before(f.Certs[0].NotBefore) {
			t.Errorf("want SigningTime before NotBefore")
		}
	},
	"forgery/csca-expired-at-signing-time": func(t *testing.T, sc Scenario, f *Facts, a []AnchorFacts) {
		if !eqInts(f.Certs[0].ChainsTo, ints(0)) || !f.SigningTime.After(a[0].NotAfter) {
			t.Errorf("want chain to an anchor that expired before the signing time")
		}
	},
	"forgery/ds-validity-utctime-1998-1999": func(t *testing.T, sc Scenario, f *Facts, _ []AnchorFacts) {
		if f.Certs[0].NotAfter.Year() != 1999 || f.Certs[0].NotBefore.Year() != 1998 {
			t.Errorf("validity %v %v", f.Certs[0].NotBefore, f.Certs[0].NotAfter)
		}
	},
	"forgery/ds-without-digital-signature": func(t *testing.T, sc Scenario, f *Facts, _ []AnchorFacts) {
		if !f.Certs[0].HasKeyUsage || f.Certs[0].KUDigitalSignature || !eqInts(f.Certs[0].KeyUsageBits, ints(KUKeyEncipherment)) {
			t.Errorf("key usage facts: %+v", f.Certs[0])
		}
	},
	"forgery/ds-unknown-critical-extension": func(t *testing.T, sc Scenario, f *Facts, _ []AnchorFacts) {
		if !f.Certs[0].UnknownCriticalExt {
			t.Errorf("UnknownCriticalExt should be true")
		}
	},
	"forgery/ca-without-key-cert-sign": func(t *testing.T, sc Scenario, f *Facts, a []AnchorFacts) {
		if a[0].KUKeyCertSign || !a[0].IsCA || !eqInts(f.Certs[0].ChainsTo, ints(0)) {
			t.Errorf("anchor facts: %+v", a[0])
		}
	},
	"forgery/ca-false": func(t *testing.T, sc Scenario, f *Facts, a []AnchorFacts) {
		if a[0].IsCA || !a[0].HasBasicConstraints || !eqInts(f.Certs[0].ChainsTo, ints(0)) {
			t.Errorf("anchor facts: %+v", a[0])
		}
	},
	"forgery/ca-no-basic-constraints": func(t *testing.T, sc Scenario, f *Facts, a []AnchorFacts) {
		if a[0].IsCA || a[0].HasBasicConstraints {
			t.Errorf("anchor facts: %+v", a[0])
		}
	},
	"forgery/ca-unknown-critical-extension": func(t *testing.T, sc Scenario, f *Facts, a []AnchorFacts) {
		if !a[0].UnknownCriticalExt {
			t.Errorf("anchor facts: %+v", a[0])
		}
	},
	"forgery/dg-injected-not-in-sod": func(t *testing.T, sc Scenario, f *Facts, _ []AnchorFacts) {
		if f.DGHashOK[14] || !f.DGHashOK[1] {
			t.Errorf("DGHashOK: %v", f.DGHashOK)
		}
	},
	"forgery/dg1-country-differs-from-certificates": func(t *testing.T, sc Scenario, f *Facts, _ []AnchorFacts) {
		if f.Certs[0].Country != "NL" || !f.DGHashOK[1] {
			t.Errorf("facts: %v", f.Certs[0].Country)
		}
	},
	"forgery/cert-signature-corrupted": func(t *testing.T, sc Scenario, f *Facts, _ []AnchorFacts) {
		if len(f.Certs[0].ChainsTo) != 0 || !eqInts(f.Signers[0].SigVerifiesUnder, ints(0)) {
			t.Errorf("facts: %+v", f.Certs[0])
		}
	},
	"forgery/ds-issuer-name-differs-from-csca-subject-aki-matches": func(t *testing.T, sc Scenario, f *Facts, _ []AnchorFacts) {
		if !eqInts(f.Certs[0].ChainsTo, ints(0)) || len(f.Certs[0].IssuerMatches) != 0 || !eqInts(f.Certs[0].AKIMatches, ints(0)) {
			t.Errorf("facts: %+v", f.Certs[0])
		}
	},
	"forgery/sod-signed-by-master-list-signer": func(t *testing.T, sc Scenario, f *Facts, _ []AnchorFacts) {
		if !f.Certs[0].EKUCritical || len(f.Certs[0].EKU) != 1 || f.Certs[0].EKU[0] != OIDCscaMLSigningKey || !eqInts(f.Certs[0].ChainsTo, ints(0)) {
			t.Errorf("facts: %+v", f.Certs[0])
		}
	},
	"forgery/ecdsa-r-between-curve-orders": func(t *testing.T, sc Scenario, f *Facts, _ []AnchorFacts) {
		if len(f.Signers[0].SigVerifiesUnder) != 0 {
			t.Errorf("facts: %+v", f.Signers[0])
		}
	},

	// probes
	"probe/pss-sha1-explicit-default-params":                 sigOK,
	"probe/pss-sha1-der-default-params-in-certificates-only": sigOK,
	"probe/pss-declared-salt-length-wrong-signerinfo": func(t *testing.T, sc Scenario, f *Facts, _ []AnchorFacts) {
		if len(f.Signers[0].SigVerifiesUnder) != 0 || !eqInts(f.Signers[0].SigVerifiesUnderDigestAlg, ints(0)) {
			t.Errorf("facts: %+v", f.Signers[0])
		}
	},
	"probe/pss-declared-hash-differs-from-digest-algorithm": func(t *testing.T, sc Scenario, f *Facts, _ []AnchorFacts) {
		if !eqInts(f.Signers[0].SigVerifiesUnder, ints(0)) || len(f.Signers[0].SigVerifiesUnderDigestAlg) != 0 || !f.MessageDigestOK {
			t.Errorf("facts: %+v", f.Signers[0])
		}
	},
	"probe/pss-key-with-id-RSASSA-PSS-spki": sigOK,
	"probe/rsa-sigalg-without-null":         sigOK,
	"probe/ecdsa-oid-hash-differs-from-digest-algorithm": func(t *testing.T, sc Scenario, f *Facts, _ []AnchorFacts) {
		if len(f.Signers[0].SigVerifiesUnder) != 0 || !eqInts(f.Signers[0].SigVerifiesUnderDigestAlg, ints(0)) {
			t.Errorf("facts: %+v", f.Signers[0])
		}
	},
	"probe/ec-explicit-params-without-cofactor": func(t *testing.T, sc Scenario, f *Facts, _ []AnchorFacts) {
		if !f.Certs[0].KeyExplicit || f.Certs[0].KeyCurve != sc.KeySpec.Curve || !eqInts(f.Signers[0].SigVerifiesUnder, ints(0)) || !eqInts(f.Certs[0].ChainsTo, ints(0)) {
			t.Errorf("facts: %+v", f.Certs[0])
		}
	},
	"probe/ec-compressed-public-key": func(t *testing.T, sc Scenario, f *Facts, _ []AnchorFacts) {
		if !f.Certs[0].KeyValid || !eqInts(f.Signers[0].SigVerifiesUnder, ints(0)) {
			t.Errorf("facts: %+v", f.Certs[0])
		}
	},
	"probe/ec-point-on-other-curve-than-declared": func(t *testing.T, sc Scenario, f *Facts, _ []AnchorFacts) {
		if f.Certs[0].KeyValid || len(f.Signers[0].SigVerifiesUnder) != 0 || !eqInts(f.Certs[0].ChainsTo, ints(0)) {
			t.Errorf("facts: %+v", f.Certs[0])
		}
	},
	"probe/sid-points-nowhere-single-embedded-cert": func(t *testing.T, sc Scenario, f *Facts, _ []AnchorFacts) {
		if len(f.Signers[0].MatchedEmbeddedCerts) != 0 || !eqInts(f.Signers[0].SigVerifiesUnder, ints(0)) {
			t.Errorf("facts: %+v", f.Signers[0])
		}
	},
	"probe/signer-cert-embedded-twice": func(t *testing.T, sc Scenario, f *Facts, _ []AnchorFacts) {
		if !eqInts(f.Signers[0].MatchedEmbeddedCerts, ints(0, 1)) {
			t.Errorf("facts: %+v", f.Signers[0])
		}
	},
	"probe/sid-issuer-other-string-type-and-case": func(t *testing.T, sc Scenario, f *Facts, _ []AnchorFacts) {
		if !eqInts(f.Signers[0].MatchedEmbeddedCerts, ints(0)) {
			t.Errorf("facts: %+v", f.Signers[0])
		}
	},
	"probe/sid-issuer-rdn-order-permuted": func(t *testing.T, sc Scenario, f *Facts, _ []AnchorFacts) {
		if len(f.Signers[0].MatchedEmbeddedCerts) != 0 || !eqInts(f.Signers[0].MatchedUnordered, ints(0)) {
			t.Errorf("facts: %+v", f.Signers[0])
		}
	},
	"probe/no-embedded-certificates": func(t *testing.T, sc Scenario, f *Facts, _ []AnchorFacts) {
		if len(f.Certs) != 0 || !f.Parseable {
			t.Errorf("facts: %+v", f)
		}
	},
	"probe/duplicate-signed-attrs-second-copy-differs": func(t *testing.T, sc Scenario, f *Facts, _ []AnchorFacts) {
		if !f.Signers[0].DuplicateSignedAttrs || !f.MessageDigestOK {
			t.Errorf("facts: %+v", f.Signers[0])
		}
	},
	"probe/signed-attrs-not-in-der-order": func(t *testing.T, sc Scenario, f *Facts, _ []AnchorFacts) {
		if f.Signers[0].SignedAttrsDER || !eqInts(f.Signers[0].SigVerifiesUnder, ints(0)) {
			t.Errorf("facts: %+v", f.Signers[0])
		}
	},
	"probe/no-signed-attrs": func(t *testing.T, sc Scenario, f *Facts, _ []AnchorFacts) {
		if f.SignedAttrsPresent || !eqInts(f.Signers[0].SigVerifiesUnder, ints(0)) {
			t.Errorf("facts: %+v", f.Signers[0])
		}
	},
	"probe/trailing-bytes-after-sod": func(t *testing.T, sc Scenario, f *Facts, _ []AnchorFacts) {
		if f.TrailingBytes != 3 {
			t.Errorf("TrailingBytes %d", f.TrailingBytes)
		}
	},
	"probe/empty-digest-algorithms-set": sigOK,
	"probe/duplicate-dg-number-second-entry-wrong": func(t *testing.T, sc Scenario, f *Facts, _ []AnchorFacts) {
		if !f.DuplicateDGNumbers || !f.DGHashOK[2] {
			t.Errorf("facts: %v %v", f.DuplicateDGNumbers, f.DGHashOK)
		}
	},
	"probe/duplicate-dg-number-first-entry-wrong": func(t *testing.T, sc Scenario, f *Facts, _ []AnchorFacts) {
		if !f.DuplicateDGNumbers || f.DGHashOK[2] {
			t.Errorf("facts: %v %v", f.DuplicateDGNumbers, f.DGHashOK)
		}
	},
	"probe/ds-without-key-usage": func(t *testing.T, sc Scenario, f *Facts, _ []AnchorFacts) {
		if f.Certs[0].HasKeyUsage {
			t.Errorf("HasKeyUsage should be false")
		}
	},
	"probe/ds-without-aki": func(t *testing.T, sc Scenario, f *Facts, _ []AnchorFacts) {
		if f.Certs[0].AKI != nil || !eqInts(f.Certs[0].ChainsTo, ints(0)) || !eqInts(f.Certs[0].IssuerMatches, ints(0)) {
			t.Errorf("facts: %+v", f.Certs[0])
		}
	},
	"probe/csca-without-ski": func(t *testing.T, sc Scenario, f *Facts, a []AnchorFacts) {
		if a[0].SKI != nil || !eqInts(f.Certs[0].ChainsTo, ints(0)) || len(f.Certs[0].AKIMatches) != 0 {
			t.Errorf("facts: %+v", f.Certs[0])
		}
	},
	"probe/csca-v1-no-extensions": func(t *testing.T, sc Scenario, f *Facts, a []AnchorFacts) {
		if a[0].Version != 1 || a[0].HasExtensions || a[0].IsCA || !eqInts(f.Certs[0].ChainsTo, ints(0)) {
			t.Errorf("facts: %+v", a[0])
		}
	},
	"probe/ds-unknown-extension-critical-false-explicit": func(t *testing.T, sc Scenario, f *Facts, _ []AnchorFacts) {
		if f.Certs[0].UnknownCriticalExt || !eqInts(f.Certs[0].ChainsTo, ints(0)) {
			t.Errorf("facts: %+v", f.Certs[0])
		}
	},
	"probe/country-lower-case-in-certificates": func(t *testing.T, sc Scenario, f *Facts, _ []AnchorFacts) {
		if f.Certs[0].Country != "nl" {
			t.Errorf("Country %q", f.Certs[0].Country)
		}
	},
	"probe/ds-with-critical-eku-unrelated": func(t *testing.T, sc Scenario, f *Facts, _ []AnchorFacts) {
		if !f.Certs[0].HasEKU || !f.Certs[0].EKUCritical || len(f.Certs[0].EKU) != 1 {
			t.Errorf("facts: %+v", f.Certs[0])
		}
	},
}

func sigOK(t *testing.T, sc Scenario, f *Facts, _ []AnchorFacts) {
	if !eqInts(f.Signers[0].SigVerifiesUnder, ints(0)) {
		t.Errorf("SigVerifiesUnder = %v", f.Signers[0].SigVerifiesUnder)
	}
}

var checksUsed sync.Map

// evaluate runs one scenario through the facts and through the library.
func evaluate(t *testing.T, sc Scenario) {
	t.Helper()
	obj := sc.SOD
	if sc.MasterList != nil {
		obj = sc.MasterList
	}
	f, a := ComputeFacts(obj, sc.DGs, sc.Trust)
	if f.InternalPanic != "" {
		t.Fatalf("%s: internal panic %s", sc.Name, f.InternalPanic)
	}
	if !f.Parseable || len(f.Signers) == 0 {
		t.Fatalf("%s: facts unusable: %+v", sc.Name, f)
	}
	if sc.Class == "genuine" && sc.MasterList == nil {
		checkGenuineFacts(t, sc, f, a)
	}
	if strings.HasPrefix(sc.Name, "genuine/cross-signed/") || strings.HasPrefix(sc.Name, "forgery/cross-signed/") {
		want := strings.Count(sc.Name, "self") + strings.Count(sc.Name, "cross") - 1 // "cross-signed/" itself
		if len(f.Certs[0].ChainsTo) != want {
			t.Errorf("%s: ChainsTo %v, want %d entries", sc.Name, f.Certs[0].ChainsTo, want)
		}
		for j, c := range a {
			if !c.SelfIssued && (c.SelfSigned || !c.IsCA) {
				t.Errorf("%s: cross certificate %d facts wrong", sc.Name, j)
			}
		}
	}
	if chk, ok := factChecks[sc.Name]; ok {
		checksUsed.Store(sc.Name, true)
		chk(t, sc, f, a)
	}
	judge(t, sc, runLibrary(sc))
}

func TestPassiveAuthMatrix(t *testing.T) {
	specs := CoveringKeySpecs()
	if os.Getenv("PKI_FULL_MATRIX") != "" {
		specs = AllKeySpecs()
	}
	for i, ks := range specs {
		ks := ks
		t.Run(ks.String(), func(t *testing.T) {
			scs, err := BaseScenarios(int64(100+i), ks)
			if err != nil {
				t.Fatal(err)
			}
			if len(scs) != 7 {
				t.Fatalf("%d base scenarios", len(scs))
			}
			for _, sc := range scs {
				evaluate(t, sc)
			}
		})
	}
}

// scenarioSpecs are the key specs for which the complete scenario set is run.
func scenarioSpecs() []KeySpec {
	return []KeySpec{
		{Kind: "rsa", Bits: 2048, Hash: "sha256"},
		{Kind: "ecdsa", Curve: "brainpoolP256r1", ExplicitParams: true, Hash: "sha256"},
		{Kind: "rsa-pss", Bits: 2048, Hash: "sha256"},
		{Kind: "rsa-pss", Bits: 2048, Hash: "sha1"},
		{Kind: "ecdsa", Curve: "P-256", Hash: "sha256"},
		{Kind: "ecdsa", Curve: "brainpoolP192r1", ExplicitParams: true, Hash: "sha1"},
		{Kind: "ecdsa", Curve: "brainpoolP224r1", ExplicitParams: true, Hash: "sha224"},
		{Kind: "ecdsa", Curve: "brainpoolP384r1", Hash: "sha384"},
	}
}

func variantSpecs() []KeySpec { return scenarioSpecs()[:2] }

func TestScenarios(t *testing.T) {
	names := map[string]map[string]bool{"genuine": {}, "forgery": {}, "probe": {}}
	for i, ks := range scenarioSpecs() {
		ks := ks
		scs, err := Scenarios(int64(200+i), ks)
		if err != nil {
			t.Fatal(err)
		}
		// same seed, same bytes
		if i < 3 {
			again, err := Scenarios(int64(200+i), ks)
			if err != nil || len(again) != len(scs) {
				t.Fatalf("second generation: %v", err)
			}
			for k := range scs {
				if !bytes.Equal(scs[k].SOD, again[k].SOD) || !bytes.Equal(scs[k].MasterList, again[k].MasterList) || !bytes.Equal(scs[k].CardSec, again[k].CardSec) {
					t.Errorf("%s %s: not reproducible from the seed", ks, scs[k].Name)
				}
			}
		}
		for _, sc := range scs {
			sc := sc
			names[sc.Class][sc.Name] = true
			t.Run(ks.String()+"/"+sc.Name, func(t *testing.T) { evaluate(t, sc) })
		}
	}
	for name := range factChecks {
		if _, ok := checksUsed.Load(name); !ok {
			t.Errorf("fact check for %q was never used (scenario renamed?)", name)
		}
	}
	for _, class := range []string{"genuine", "forgery", "probe"} {
		var l []string
		for n := range names[class] {
			l = append(l, n)
		}
		sort.Strings(l)
		t.Logf("%d %s scenarios:\n  %s", len(l), class, strings.Join(l, "\n  "))
	}
}

func TestGenuineScenarioVariants(t *testing.T) {
	vs := []Variant{
		{},
		{SIDSKI: true},
		{LDSv1: true},
		{Indefinite: true},
		{NoSigningTime: true},
		{ExtraCertsBefore: 1},
		{ExtraCertsAfter: 1},
		{ExtraCertsBefore: 2, ExtraCertsAfter: 2},
		{CrossSignedFirst: true},
		{CrossSignedSecond: true},
		{RDNOrderPermuted: true},
		{NameStringType: "printable"},
		{NameStringType: "utf8"},
		{SigningTimeAtNotBefore: true},
		{SigningTimeAtNotAfter: true},
		{WithCardSecurity: true},
		{SIDSKI: true, LDSv1: true, Indefinite: true, ExtraCertsBefore: 1, ExtraCertsAfter: 1, CrossSignedFirst: true, CrossSignedSecond: true, RDNOrderPermuted: true, NameStringType: "printable", SigningTimeAtNotAfter: true, WithCardSecurity: true},
		{SIDSKI: true, NoSigningTime: true, ExtraCertsBefore: 3, CrossSignedSecond: true, RDNOrderPermuted: true, WithCardSecurity: true},
	}
	for i, ks := range variantSpecs() {
		for _, v := range vs {
			v := v
			t.Run(ks.String()+"/"+v.String(), func(t *testing.T) {
				sc, err := GenuineScenario(int64(300+i), ks, v)
				if err != nil {
					t.Fatal(err)
				}
				if (sc.CardSec != nil) != v.WithCardSecurity {
					t.Errorf("CardSec presence")
				}
				evaluate(t, sc)
				f, _ := ComputeFacts(sc.SOD, sc.DGs, sc.Trust)
				if (f.Signers[0].SIDForm == "ski") != v.SIDSKI || (f.LDSVersion == 1) != v.LDSv1 || f.Indefinite != v.Indefinite ||
					(f.SigningTime == nil) != v.NoSigningTime || len(f.Certs) != 1+v.ExtraCertsBefore+v.ExtraCertsAfter ||
					!eqInts(f.Signers[0].MatchedEmbeddedCerts, ints(v.ExtraCertsBefore)) {
					t.Errorf("variant not reflected in the facts: %+v", f.Signers[0])
				}
				want := 1
				if v.CrossSignedFirst {
					want++
				}
				if v.CrossSignedSecond {
					want++
				}
				ds := f.Certs[v.ExtraCertsBefore]
				if len(ds.ChainsTo) != want || len(sc.Trust) != want {
					t.Errorf("ChainsTo %v with %d anchors", ds.ChainsTo, len(sc.Trust))
				}
				if v.RDNOrderPermuted != strings.HasPrefix(ds.Issuer, "CN=") {
					t.Errorf("issuer %q", ds.Issuer)
				}
				if v.SigningTimeAtNotBefore && !f.SigningTime.Equal(ds.NotBefore) || v.SigningTimeAtNotAfter && !f.SigningTime.Equal(ds.NotAfter) {
					t.Errorf("signing time %v vs %v..%v", f.SigningTime, ds.NotBefore, ds.NotAfter)
				}
			})
		}
	}
}

func TestFactsNeverPanic(t *testing.T) {
	for i, ks := range variantSpecs() {
		w := newWorld(t, int64(700+i), ks)
		trust := [][]byte{w.csca.Cert}
		for _, indef := range []bool{false, true} {
			spec := NewSODSpec(w.ds, w.dgs, signingTime)
			spec.SD.Indefinite = indef
			spec.SD.IndefiniteSets = indef
			if indef {
				spec.SD.EContentChunk = 40
			}
			sod, err := BuildSOD(spec)
			if err != nil {
				t.Fatal(err)
			}
			rnd := detRand(int64(710 + i))
			n := 1500
			if testing.Short() {
				n = 300
			}
			unparseable, stillValid := 0, 0
			try := func(kind string, b []byte) {
				defer func() {
					if r := recover(); r != nil {
						t.Errorf("%s: ComputeFacts panicked: %v (input %x)", kind, r, b)
					}
				}()
				f, _ := ComputeFacts(b, w.dgs, trust)
				if f.InternalPanic != "" {
					t.Errorf("%s: internal panic %s (input %x)", kind, f.InternalPanic, b)
				}
				if !f.Parseable {
					unparseable++
				} else if len(f.Signers) == 1 && len(f.Signers[0].SigVerifiesUnder) == 1 && f.MessageDigestOK {
					stillValid++
				}
				// trust store entries get the same treatment
				ComputeFacts(sod, w.dgs, [][]byte{b[:len(b)/2], b})
			}
			for k := 0; k < n; k++ {
				b := append([]byte{}, sod...)
				switch k % 4 {
				case 0:
					b[rnd.Intn(len(b))] ^= byte(1 << uint(rnd.Intn(8)))
				case 1:
					b[rnd.Intn(len(b))] = byte(rnd.Intn(256))
				case 2:
					b = b[:rnd.Intn(len(b))]
				case 3:
					p := rnd.Intn(len(b))
					q := minInt(len(b), p+1+rnd.Intn(8))
					b = append(b[:p], b[q:]...)
				}
				try(fmt.Sprintf("mutation %d", k), b)
			}
			for k := 0; k < n/5; k++ {
				c := append([]byte{}, w.csca.Cert...)
				c[rnd.Intn(len(c))] ^= byte(1 << uint(rnd.Intn(8)))
				CertificateFacts(c, [][]byte{c, w.csca.Cert})
			}
			t.Logf("%s indef=%v: %d mutants, %d unparseable, %d with all signature facts intact", ks, indef, n, unparseable, stillValid)
		}
	}
}

func minInt(a, b int) int {
	if a < b {
		return a
	}
	return b
}
