package pki

// Validation of the generator against the real library: genuine objects must be
// accepted, forged ones rejected. Where the library disagrees with an object this
// package is confident about, the case is listed in knownDeviations (and
// reported, not bent around).

import (
	"bytes"
	"fmt"
	"io"
	"log/slog"
	"os"
	"regexp"
	"sort"
	"strings"
	"sync"
	"testing"
	"time"

	"github.com/gmrtd/gmrtd/cms"
	"github.com/gmrtd/gmrtd/document"
	"github.com/gmrtd/gmrtd/passiveauth"
)

func TestMain(m *testing.M) {
	slog.SetDefault(slog.New(slog.NewTextHandler(io.Discard, nil)))
	os.Exit(m.Run())
}

// knownDeviations: pattern of deviation ids -> what the library does differently
// from the standards. A deviation observed in a test that matches no pattern
// fails the test; a known one is logged (see the package's final report).
var knownDeviations = []struct{ pattern, what string }{
	{`^reject-genuine/rsa-pss-\d+-sha1$`, "RFC 4055 3.1: RSASSA-PSS-params with the DER encoding of SHA-1 (hashAlgorithm/maskGenAlgorithm omitted as DEFAULT) is not parsed; certificates signed with PSS/SHA-1 in DER form are rejected"},
	{`^reject-probe/pss-sha1-der-default-params`, "same root cause"},
	{`^reject-variant/(indefinite|definite)-chunked-econtent/`, "X.690 8.7: eContent as constructed OCTET STRING (BER) is rejected"},
	{`^reject-variant/wrap77-indefinite/`, "EF.SOD whose 0x77 wrapper itself uses the indefinite-length form is rejected although the inner ContentInfo may use it"},
	{`^reject-cardsecurity-indefinite/`, "EF.CardSecurity in BER indefinite-length form is rejected (EF.SOD in the same form is accepted)"},
	{`^panic/brainpoolP192r1-r-between-curve-orders$`, "ECDSA curve fallback passes a brainpoolP192r1 point to generic P-192 arithmetic: panic 'attempted operation on invalid point' on attacker-controlled input"},
	{`^accept-probe/ds-issuer-name-differs-from-csca-subject`, "RFC 5280 6.1.3 (a)(4): issuer name of the DS certificate is not compared with the subject name of the CSCA certificate (chain built on AKI/SKI + signature only)"},
	{`^accept-probe/sod-signed-by-master-list-signer$`, "a certificate with critical extendedKeyUsage id-icao-cscaMasterListSigningKey is accepted as document signer"},
}

var (
	devMu   sync.Mutex
	devSeen = map[string]string{}
)

func deviation(t *testing.T, id, format string, a ...any) {
	t.Helper()
	msg := fmt.Sprintf(format, a...)
	devMu.Lock()
	devSeen[id] = msg
	devMu.Unlock()
	for _, k := range knownDeviations {
		if regexp.MustCompile(k.pattern).MatchString(id) {
			t.Logf("GMRTD-DEVIATION[%s] (known: %s): %s", id, k.what, msg)
			return
		}
	}
	t.Errorf("GMRTD-DEVIATION[%s] (NEW): %s", id, msg)
}

var signingTime = time.Date(2024, 6, 1, 12, 0, 0, 0, time.UTC)

type world struct {
	csca *Authority
	ds   *Signer
	dgs  map[int][]byte
}

func newWorld(t *testing.T, seed int64, ks KeySpec) *world {
	t.Helper()
	rnd := detRand(seed)
	csca, err := NewCA(CertSpec{Rand: rnd, Subject: DN("NL", "State of the Netherlands", "CSCA NL"), KeySpec: ks})
	if err != nil {
		t.Fatal(err)
	}
	ds, err := csca.IssueDS(CertSpec{Subject: DN("NL", "State of the Netherlands", "DS 1"), KeySlot: 1})
	if err != nil {
		t.Fatal(err)
	}
	dg2 := make([]byte, 300)
	rnd.Read(dg2)
	dg2[0] = 0x75
	return &world{csca: csca, ds: ds, dgs: map[int][]byte{1: MakeDG1(MakeTD3MRZ("NLD", "L898902C3")), 2: dg2}}
}

func cloneDGs(m map[int][]byte) map[int][]byte {
	out := map[int][]byte{}
	for k, v := range m {
		out[k] = append([]byte{}, v...)
	}
	return out
}

// runPA runs the real passive authentication.
func runPA(sod []byte, dgs map[int][]byte, cardSec []byte, trust [][]byte) (res *document.PassiveAuthResult, err error) {
	defer func() {
		if r := recover(); r != nil {
			err = fmt.Errorf("PANIC: %v", r)
		}
	}()
	doc := &document.Document{}
	if doc.Mf.Lds1.Sod, err = document.NewSOD(sod); err != nil {
		return nil, fmt.Errorf("NewSOD: %w", err)
	}
	for n, b := range dgs {
		switch n {
		case 1:
			if doc.Mf.Lds1.Dg1, err = document.NewDG1(b); err != nil {
				return nil, fmt.Errorf("NewDG1: %w", err)
			}
		case 2:
			doc.Mf.Lds1.Dg2 = &document.DG2{RawData: b}
		case 14:
			doc.Mf.Lds1.Dg14 = &document.DG14{RawData: b}
		default:
			return nil, fmt.Errorf("test helper: DG%d not wired", n)
		}
	}
	if cardSec != nil {
		if doc.Mf.CardSecurity, err = document.NewCardSecurity(cardSec); err != nil {
			return nil, fmt.Errorf("NewCardSecurity: %w", err)
		}
	}
	pool := &cms.GenericCertPool{}
	for _, c := range trust {
		if err := pool.Add(c); err != nil {
			return nil, fmt.Errorf("pool.Add: %w", err)
		}
	}
	res, err = passiveauth.PassiveAuth(doc, pool)
	if err == nil && (res == nil || !res.Success) {
		err = fmt.Errorf("no error but Success=false")
	}
	if err != nil && res != nil && res.Success {
		err = fmt.Errorf("error AND Success=true: %w", err)
	}
	return res, err
}

func ints(v ...int) []int { return v }

func eqInts(a, b []int) bool {
	if len(a) != len(b) {
		return false
	}
	for i := range a {
		if a[i] != b[i] {
			return false
		}
	}
	return true
}

// checkGenuineFacts asserts what ComputeFacts must say about a genuine single-signer SOD.
func checkGenuineFacts(t *testing.T, name string, f *Facts, anchors []AnchorFacts, dgs map[int][]byte) {
	t.Helper()
	if f.InternalPanic != "" {
		t.Fatalf("%s: internal panic %s", name, f.InternalPanic)
	}
	if !f.Parseable || !f.LDSParseable || len(f.Signers) != 1 || len(f.Certs) < 1 {
		t.Fatalf("%s: structure facts wrong: %+v", name, f)
	}
	for n := range dgs {
		if !f.DGHashOK[n] {
			t.Errorf("%s: DGHashOK[%d] false", name, n)
		}
	}
	s := f.Signers[0]
	if !s.Parseable || !s.SignedAttrsPresent || !s.ContentTypeOK || !s.MessageDigestOK || !s.SignedAttrsDER {
		t.Errorf("%s: signer facts wrong: %+v", name, s)
	}
	if len(s.MatchedEmbeddedCerts) != 1 || !eqInts(s.SigVerifiesUnder, s.MatchedEmbeddedCerts) || !eqInts(s.SigVerifiesUnderDigestAlg, s.MatchedEmbeddedCerts) {
		t.Errorf("%s: SID/signature facts wrong: matched %v verifies %v / %v", name, s.MatchedEmbeddedCerts, s.SigVerifiesUnder, s.SigVerifiesUnderDigestAlg)
		return
	}
	c := f.Certs[s.MatchedEmbeddedCerts[0]]
	if !c.Parseable || c.Country != "NL" || !c.HasKeyUsage || !c.KUDigitalSignature || c.IsCA || c.UnknownCriticalExt || !c.KeyValid {
		t.Errorf("%s: DS facts wrong: %+v", name, c)
	}
	if len(anchors) > 0 {
		if len(c.ChainsTo) == 0 || !eqInts(c.ChainsTo, c.AKIMatches) {
			t.Errorf("%s: DS chain facts wrong: ChainsTo %v AKIMatches %v", name, c.ChainsTo, c.AKIMatches)
		}
	}
}

func TestPassiveAuthMatrix(t *testing.T) {
	specs := CoveringKeySpecs()
	if os.Getenv("PKI_FULL_MATRIX") != "" {
		specs = AllKeySpecs()
	}
	for i, ks := range specs {
		ks := ks
		t.Run(ks.String(), func(t *testing.T) {
			w := newWorld(t, int64(100+i), ks)
			sod, err := BuildSOD(NewSODSpec(w.ds, w.dgs, signingTime))
			if err != nil {
				t.Fatal(err)
			}
			trust := [][]byte{w.csca.Cert}

			// independent facts
			f, anchors := ComputeFacts(sod, w.dgs, trust)
			checkGenuineFacts(t, "genuine", f, anchors, w.dgs)
			if f.SigningTime == nil || !f.SigningTime.Equal(signingTime) {
				t.Errorf("SigningTime fact %v", f.SigningTime)
			}
			a := anchors[0]
			if !a.Parseable || !a.SelfSigned || !a.IsCA || !a.KUKeyCertSign || a.Country != "NL" || a.UnknownCriticalExt || !eqInts(a.ChainsTo, ints(0)) {
				t.Errorf("anchor facts wrong: %+v", a)
			}

			// the real library
			res, err := runPA(sod, w.dgs, nil, trust)
			if err != nil {
				deviation(t, "reject-genuine/"+ks.String(), "genuine SOD rejected: %v", err)
			} else if len(res.Sod.CertChain) != 2 || !bytes.Equal(res.Sod.CertChain[0], w.ds.Cert) || !bytes.Equal(res.Sod.CertChain[1], w.csca.Cert) {
				t.Errorf("unexpected cert chain")
			}

			// CSCA absent (another CSCA of the same country and name with another key is present)
			other2, err := NewCA(CertSpec{Rand: detRand(int64(950 + i)), Subject: DN("NL", "State of the Netherlands", "CSCA NL"), KeySpec: ks, KeySlot: 2})
			if err != nil {
				t.Fatal(err)
			}
			if _, err := runPA(sod, w.dgs, nil, [][]byte{other2.Cert}); err == nil {
				deviation(t, "accept-without-csca/"+ks.String(), "SOD accepted although its CSCA is not in the trust store")
			}
			f2, _ := ComputeFacts(sod, w.dgs, [][]byte{other2.Cert})
			if len(f2.Certs[0].ChainsTo) != 0 {
				t.Errorf("ChainsTo must be empty with a foreign CSCA")
			}
			if _, err := runPA(sod, w.dgs, nil, nil); err == nil {
				deviation(t, "accept-empty-store/"+ks.String(), "SOD accepted with an empty trust store")
			}

			// DG byte flipped
			for _, n := range []int{1, 2} {
				dgs := cloneDGs(w.dgs)
				if n == 1 {
					// keep the MRZ check digits valid: change a letter of the name field
					dgs[1][bytes.Index(dgs[1], []byte("ANNA"))] = 'B'
				} else {
					dgs[2][len(dgs[2])/2] ^= 0x01
				}
				if _, err := runPA(sod, dgs, nil, trust); err == nil {
					deviation(t, fmt.Sprintf("accept-dg%d-flip/%s", n, ks), "altered DG%d accepted", n)
				}
				ff, _ := ComputeFacts(sod, dgs, trust)
				if ff.DGHashOK[n] || !ff.DGHashOK[3-n] {
					t.Errorf("DGHashOK after DG%d flip: %v", n, ff.DGHashOK)
				}
			}

			// signature bit flipped
			spec := NewSODSpec(w.ds, w.dgs, signingTime)
			spec.SD.Signers[0].CorruptSignature = true
			bad, err := BuildSOD(spec)
			if err != nil {
				t.Fatal(err)
			}
			if _, err := runPA(bad, w.dgs, nil, trust); err == nil {
				deviation(t, "accept-bad-signature/"+ks.String(), "SOD with corrupted signature accepted")
			}
			ff, _ := ComputeFacts(bad, w.dgs, trust)
			if len(ff.Signers) != 1 || len(ff.Signers[0].SigVerifiesUnder) != 0 || !ff.MessageDigestOK {
				t.Errorf("facts after signature flip wrong: %+v", ff.Signers)
			}

			// a byte of the signed attributes flipped in the raw object (signing time)
			raw := append([]byte{}, sod...)
			idx := bytes.Index(raw, []byte(signingTime.Format("060102150405Z")))
			if idx < 0 {
				t.Fatal("signing time not found")
			}
			raw[idx+1] ^= 0x01
			if _, err := runPA(raw, w.dgs, nil, trust); err == nil {
				deviation(t, "accept-attr-flip/"+ks.String(), "SOD with altered signed attribute accepted")
			}
			ff, _ = ComputeFacts(raw, w.dgs, trust)
			if len(ff.Signers) != 1 || len(ff.Signers[0].SigVerifiesUnder) != 0 {
				t.Errorf("facts after attribute flip wrong")
			}
		})
	}
}

// variantSpecs are the key specs used for the structural variants.
func variantSpecs() []KeySpec {
	return []KeySpec{
		{Kind: "rsa", Bits: 2048, Hash: "sha256"},
		{Kind: "ecdsa", Curve: "brainpoolP256r1", ExplicitParams: true, Hash: "sha256"},
	}
}

func TestSODVariants(t *testing.T) {
	for i, ks := range variantSpecs() {
		w := newWorld(t, int64(200+i), ks)
		trust := [][]byte{w.csca.Cert}
		type variant struct {
			name string
			mod  func(s *SODSpec)
			chk  func(t *testing.T, f *Facts)
		}
		variants := []variant{
			{"indefinite", func(s *SODSpec) { s.SD.Indefinite = true }, func(t *testing.T, f *Facts) {
				if !f.Indefinite {
					t.Error("Indefinite fact false")
				}
			}},
			{"indefinite-sets", func(s *SODSpec) { s.SD.Indefinite = true; s.SD.IndefiniteSets = true }, nil},
			{"indefinite-chunked-econtent", func(s *SODSpec) { s.SD.Indefinite = true; s.SD.EContentChunk = 32 }, nil},
			{"definite-chunked-econtent", func(s *SODSpec) { s.SD.EContentChunk = 50 }, nil},
			{"wrap77-indefinite", func(s *SODSpec) { s.SD.Indefinite = true; s.SD.Wrap77Indefinite = true }, nil},
			{"sid-ski", func(s *SODSpec) { s.SD.Signers[0].SID = SIDSubjectKeyID }, func(t *testing.T, f *Facts) {
				if f.Signers[0].SIDForm != "ski" || f.Signers[0].Version != 3 {
					t.Errorf("SID facts: %+v", f.Signers[0])
				}
			}},
			{"lds-v1", func(s *SODSpec) { s.LDSVersion = 1 }, func(t *testing.T, f *Facts) {
				if f.LDSVersion != 1 || f.LDSVersionInfo == nil || f.LDSVersionInfo[0] != "0108" {
					t.Errorf("LDS v1 facts: %v %v", f.LDSVersion, f.LDSVersionInfo)
				}
			}},
			{"no-signing-time", func(s *SODSpec) { s.SD.Signers[0].SigningTime = nil }, func(t *testing.T, f *Facts) {
				if f.SigningTime != nil || f.Signers[0].SigningTimePresent {
					t.Error("SigningTime fact should be absent")
				}
			}},
			{"generalized-signing-time", func(s *SODSpec) { s.SD.Signers[0].SigningTimeForm = TimeGeneralized }, nil},
			{"extra-cert-after", func(s *SODSpec) { s.SD.Certs = [][]byte{w.ds.Cert, w.csca.Cert} }, nil},
			{"extra-cert-before", func(s *SODSpec) { s.SD.Certs = [][]byte{w.csca.Cert, w.ds.Cert} }, func(t *testing.T, f *Facts) {
				if !eqInts(f.Signers[0].MatchedEmbeddedCerts, ints(1)) {
					t.Errorf("matched %v", f.Signers[0].MatchedEmbeddedCerts)
				}
			}},
			{"digest-null-params", func(s *SODSpec) {
				s.HashAlgNull = true
				s.SD.DigestAlgNull = true
				s.SD.Signers[0].DigestAlgNull = true
			}, nil},
			{"rsa-encryption-oid", func(s *SODSpec) {
				if ks.Kind == "rsa" {
					s.SD.Signers[0].SigAlg = &SigAlg{Kind: "rsa", Hash: ks.Hash, PlainRSAOID: true}
				}
			}, nil},
			{"lds-hash-differs-from-signer-digest", func(s *SODSpec) { s.DigestAlg = "sha512" }, func(t *testing.T, f *Facts) {
				if f.DigestAlg != "sha512" || f.Signers[0].DigestAlg != "sha256" {
					t.Errorf("digest facts %s %s", f.DigestAlg, f.Signers[0].DigestAlg)
				}
			}},
			{"dg-order-descending", func(s *SODSpec) { s.DGOrder = []int{2, 1} }, nil},
		}
		for _, v := range variants {
			v := v
			t.Run(ks.String()+"/"+v.name, func(t *testing.T) {
				spec := NewSODSpec(w.ds, w.dgs, signingTime)
				v.mod(&spec)
				sod, err := BuildSOD(spec)
				if err != nil {
					t.Fatal(err)
				}
				f, anchors := ComputeFacts(sod, w.dgs, trust)
				checkGenuineFacts(t, v.name, f, anchors, w.dgs)
				if v.chk != nil {
					v.chk(t, f)
				}
				if _, err := runPA(sod, w.dgs, nil, trust); err != nil {
					deviation(t, "reject-variant/"+v.name+"/"+ks.Kind, "genuine SOD variant rejected: %v", err)
				}
			})
		}
	}
}

func TestCrossSignedCSCA(t *testing.T) {
	for i, ks := range variantSpecs() {
		t.Run(ks.String(), func(t *testing.T) {
			rnd := detRand(int64(300 + i))
			old, err := NewCA(CertSpec{Rand: rnd, Subject: DN("NL", "State", "CSCA NL G1"), KeySpec: ks, KeySlot: 2})
			if err != nil {
				t.Fatal(err)
			}
			w := newWorld(t, int64(310+i), ks) // w.csca = new generation, self-signed
			cross, err := old.CrossSign(w.csca, CertSpec{})
			if err != nil {
				t.Fatal(err)
			}
			if !bytes.Equal(cross.SKI, w.csca.SKI) || bytes.Equal(cross.IssuerDER, w.csca.IssuerDER) || !bytes.Equal(cross.Key.SPKI(), w.csca.Key.SPKI()) {
				t.Fatal("cross certificate is not (same key, same SKI, other issuer)")
			}
			// same SKI, other key: must be skipped by the verifier, not be fatal
			decoy, err := NewCA(CertSpec{Rand: rnd, Subject: DN("NL", "State", "CSCA NL decoy"), KeySpec: ks, KeySlot: 3, SKI: &KeyID{Value: w.csca.SKI}})
			if err != nil {
				t.Fatal(err)
			}
			sod, err := BuildSOD(NewSODSpec(w.ds, w.dgs, signingTime))
			if err != nil {
				t.Fatal(err)
			}
			stores := map[string][][]byte{
				"self,cross":       {w.csca.Cert, cross.Cert},
				"cross,self":       {cross.Cert, w.csca.Cert},
				"cross-only":       {cross.Cert},
				"decoy,self":       {decoy.Cert, w.csca.Cert},
				"self,decoy":       {w.csca.Cert, decoy.Cert},
				"old,decoy,cross":  {old.Cert, decoy.Cert, cross.Cert},
				"cross,old,decoy,": {cross.Cert, old.Cert, decoy.Cert},
			}
			for name, store := range stores {
				f, anchors := ComputeFacts(sod, w.dgs, store)
				var want []int
				for j, c := range store {
					if bytes.Equal(c, w.csca.Cert) || bytes.Equal(c, cross.Cert) {
						want = append(want, j)
					}
				}
				if !eqInts(f.Certs[0].ChainsTo, want) {
					t.Errorf("%s: ChainsTo %v want %v", name, f.Certs[0].ChainsTo, want)
				}
				if len(f.Certs[0].AKIMatches) < len(want) {
					t.Errorf("%s: AKIMatches %v", name, f.Certs[0].AKIMatches)
				}
				for j, c := range store {
					if bytes.Equal(c, cross.Cert) && (anchors[j].SelfSigned || anchors[j].SelfIssued || !anchors[j].IsCA) {
						t.Errorf("%s: cross certificate facts wrong", name)
					}
				}
				res, err := runPA(sod, w.dgs, nil, store)
				if err != nil {
					deviation(t, "reject-cross-signed/"+name+"/"+ks.Kind, "store %s: genuine SOD rejected: %v", name, err)
					continue
				}
				used := res.Sod.CertChain[len(res.Sod.CertChain)-1]
				if !bytes.Equal(used, w.csca.Cert) && !bytes.Equal(used, cross.Cert) {
					t.Errorf("%s: chain ends in a certificate that does not carry the CSCA key", name)
				}
			}
			// only the decoy / only the old CSCA: must fail
			for name, store := range map[string][][]byte{"decoy-only": {decoy.Cert}, "old-only": {old.Cert}, "old,decoy": {old.Cert, decoy.Cert}} {
				if _, err := runPA(sod, w.dgs, nil, store); err == nil {
					deviation(t, "accept-wrong-anchor/"+name+"/"+ks.Kind, "store %s: accepted", name)
				}
				f, _ := ComputeFacts(sod, w.dgs, store)
				if len(f.Certs[0].ChainsTo) != 0 {
					t.Errorf("%s: ChainsTo %v", name, f.Certs[0].ChainsTo)
				}
			}
		})
	}
}

// a minimal SecurityInfos: SET { PACEInfo { id-PACE-ECDH-GM-AES-CBC-CMAC-128, version 2, parameterId 13 } }
func testSecurityInfos() []byte {
	return SetOf(Seq(OID("0.4.0.127.0.7.2.2.4.2.2"), IntN(2), IntN(13)))
}

func TestCardSecurity(t *testing.T) {
	for i, ks := range variantSpecs() {
		t.Run(ks.String(), func(t *testing.T) {
			w := newWorld(t, int64(400+i), ks)
			trust := [][]byte{w.csca.Cert}
			sod, err := BuildSOD(NewSODSpec(w.ds, w.dgs, signingTime))
			if err != nil {
				t.Fatal(err)
			}
			cs, err := BuildCardSecurity(NewCardSecuritySpec(w.ds, testSecurityInfos(), signingTime))
			if err != nil {
				t.Fatal(err)
			}
			f, _ := ComputeFacts(cs, nil, trust)
			if !f.Parseable || f.EContentType != OIDSecurityObject || f.Wrapped77 || !f.MessageDigestOK || !f.ContentTypeOK ||
				!eqInts(f.Signers[0].SigVerifiesUnder, ints(0)) || !eqInts(f.Certs[0].ChainsTo, ints(0)) || !bytes.Equal(f.EContent, testSecurityInfos()) {
				t.Errorf("CardSecurity facts wrong: %+v", f)
			}
			res, err := runPA(sod, w.dgs, cs, trust)
			if err != nil {
				deviation(t, "reject-cardsecurity/"+ks.Kind, "genuine CardSecurity rejected: %v", err)
			} else if res.CardSec == nil || len(res.CardSec.CertChain) != 2 {
				t.Errorf("CardSec chain missing")
			}
			// forged: signed by an adversary key but carrying the DS certificate
			adv, err := GenerateKeySlot(detRand(int64(450+i)), ks, 4)
			if err != nil {
				t.Fatal(err)
			}
			spec := NewCardSecuritySpec(w.ds, testSecurityInfos(), signingTime)
			spec.SD.Signers[0].Key = adv
			forged, err := BuildCardSecurity(spec)
			if err != nil {
				t.Fatal(err)
			}
			if _, err := runPA(sod, w.dgs, forged, trust); err == nil {
				deviation(t, "accept-forged-cardsecurity/"+ks.Kind, "CardSecurity signed by a foreign key accepted")
			}
			ff, _ := ComputeFacts(forged, nil, trust)
			if len(ff.Signers[0].SigVerifiesUnder) != 0 || !eqInts(ff.Signers[0].MatchedEmbeddedCerts, ints(0)) {
				t.Errorf("forged CardSecurity facts wrong")
			}
			// indefinite-length CardSecurity
			spec = NewCardSecuritySpec(w.ds, testSecurityInfos(), signingTime)
			spec.SD.Indefinite = true
			ind, err := BuildCardSecurity(spec)
			if err != nil {
				t.Fatal(err)
			}
			fi, _ := ComputeFacts(ind, nil, trust)
			if !fi.Parseable || !fi.Indefinite || !eqInts(fi.Signers[0].SigVerifiesUnder, ints(0)) {
				t.Errorf("indefinite CardSecurity facts wrong")
			}
			if _, err := runPA(sod, w.dgs, ind, trust); err != nil {
				deviation(t, "reject-cardsecurity-indefinite/"+ks.Kind, "genuine CardSecurity in BER indefinite-length form rejected: %v", err)
			}
		})
	}
}

func TestMasterList(t *testing.T) {
	for i, ks := range variantSpecs() {
		t.Run(ks.String(), func(t *testing.T) {
			rnd := detRand(int64(500 + i))
			root, err := NewCA(CertSpec{Rand: rnd, Subject: DN("NL", "State", "CSCA NL"), KeySpec: ks})
			if err != nil {
				t.Fatal(err)
			}
			mls, err := root.IssueMLSigner(CertSpec{Subject: DN("NL", "State", "Master List Signer"), KeySlot: 1})
			if err != nil {
				t.Fatal(err)
			}
			de, err := NewCA(CertSpec{Rand: rnd, Subject: DN("DE", "Bund", "CSCA DE"), KeySpec: KeySpec{Kind: "ecdsa", Curve: "brainpoolP384r1", ExplicitParams: true, Hash: "sha384"}})
			if err != nil {
				t.Fatal(err)
			}
			fr, err := NewCA(CertSpec{Rand: rnd, Subject: DN("FR", "Gouv", "CSCA FR"), KeySpec: KeySpec{Kind: "rsa-pss", Bits: 2048, Hash: "sha256"}, KeySlot: 2})
			if err != nil {
				t.Fatal(err)
			}
			frLink, err := fr.IssueCA(CertSpec{Subject: DN("FR", "Gouv", "CSCA FR G2"), KeySpec: KeySpec{Kind: "ecdsa", Curve: "P-256", Hash: "sha256"}})
			if err != nil {
				t.Fatal(err)
			}
			certs := [][]byte{root.Cert, de.Cert, fr.Cert, frLink.Cert}
			st := signingTime
			ml, err := BuildMasterList(mls, certs, MasterListSpec{SigningTime: &st, ExtraCerts: [][]byte{root.Cert}})
			if err != nil {
				t.Fatal(err)
			}
			f, _ := ComputeFacts(ml, nil, [][]byte{root.Cert})
			if !f.Parseable || !f.MasterListParseable || len(f.MasterListCerts) != 4 || f.EContentType != OIDCscaMasterList ||
				!eqInts(f.Signers[0].SigVerifiesUnder, ints(0)) || !eqInts(f.Certs[0].ChainsTo, ints(0)) || !f.MessageDigestOK {
				t.Errorf("master list facts wrong: %+v", f)
			}
			pool, err := func() (p *cms.SignedDataCertPool, err error) {
				defer func() {
					if r := recover(); r != nil {
						err = fmt.Errorf("PANIC: %v", r)
					}
				}()
				return cms.CreateCertPoolFromSignedData(ml, root.Cert)
			}()
			if err != nil {
				deviation(t, "reject-masterlist/"+ks.Kind, "genuine master list rejected: %v", err)
			} else {
				var got, want []string
				for _, c := range pool.All() {
					got = append(got, string(c.Raw))
				}
				for _, c := range certs {
					want = append(want, string(c))
				}
				sort.Strings(got)
				sort.Strings(want)
				if strings.Join(got, "|") != strings.Join(want, "|") {
					t.Errorf("pool does not contain exactly the master list certificates (%d vs %d)", len(got), len(want))
				}
				if n := len(pool.ByIssuerCountry("FR")); n != 2 {
					t.Errorf("ByIssuerCountry(FR) = %d", n)
				}
			}
			// master list signed by a plain document signer (no extendedKeyUsage): logged, ICAO 9303-12 requires the EKU
			plainDS, err := root.IssueDS(CertSpec{Subject: DN("NL", "State", "DS"), KeySlot: 1})
			if err != nil {
				t.Fatal(err)
			}
			mlByDS, _ := BuildMasterList(plainDS, certs, MasterListSpec{SigningTime: &st})
			_, dsErr := cms.CreateCertPoolFromSignedData(mlByDS, root.Cert)
			t.Logf("PROBE master-list-signed-by-plain-ds: library accepts=%v", dsErr == nil)
			// forged master list: corrupted signature / signed under another root
			bad, _ := BuildMasterList(mls, certs, MasterListSpec{SigningTime: &st, SD: SignedDataSpec{Signers: []SignerSpec{{ID: &mls.Entity, SigningTime: &st, CorruptSignature: true}}}})
			if _, err := cms.CreateCertPoolFromSignedData(bad, root.Cert); err == nil {
				deviation(t, "accept-forged-masterlist/"+ks.Kind, "master list with corrupted signature accepted")
			}
			if _, err := cms.CreateCertPoolFromSignedData(ml, de.Cert); err == nil {
				deviation(t, "accept-masterlist-foreign-root/"+ks.Kind, "master list accepted under a foreign root")
			}
			fb, _ := ComputeFacts(bad, nil, [][]byte{root.Cert})
			if len(fb.Signers[0].SigVerifiesUnder) != 0 {
				t.Errorf("forged master list facts wrong")
			}
		})
	}
}

// forgery is one deliberately wrong object together with the fact that must flip.
type forgery struct {
	name string
	// build returns the SOD, the DGs and the trust store for the forgery.
	build func(t *testing.T, w *world, adv *world) ([]byte, map[int][]byte, [][]byte)
	check func(t *testing.T, f *Facts, anchors []AnchorFacts)
	// libraryMayAccept: the library accepting is not by itself against the standards
	libraryMayAccept bool
}

func mustSOD(t *testing.T, s SODSpec) []byte {
	t.Helper()
	b, err := BuildSOD(s)
	if err != nil {
		t.Fatal(err)
	}
	return b
}

func TestForgeries(t *testing.T) {
	after := time.Date(2036, 1, 1, 0, 0, 0, 0, time.UTC)
	before := time.Date(2019, 1, 1, 0, 0, 0, 0, time.UTC)
	forgeries := []forgery{
		{name: "message-digest-mismatch",
			build: func(t *testing.T, w, adv *world) ([]byte, map[int][]byte, [][]byte) {
				s := NewSODSpec(w.ds, w.dgs, signingTime)
				s.SD.Signers[0].MessageDigest = Digest("sha256", []byte("other"))
				return mustSOD(t, s), w.dgs, [][]byte{w.csca.Cert}
			},
			check: func(t *testing.T, f *Facts, _ []AnchorFacts) {
				if f.MessageDigestOK || !eqInts(f.Signers[0].SigVerifiesUnder, ints(0)) {
					t.Errorf("want MessageDigestOK=false with a verifying signature: %+v", f.Signers[0])
				}
			}},
		{name: "econtent-swapped-after-signing",
			build: func(t *testing.T, w, adv *world) ([]byte, map[int][]byte, [][]byte) {
				// hash list re-computed for altered DG2 but signed attributes (messageDigest) and signature kept from the genuine object
				dgs := cloneDGs(w.dgs)
				dgs[2][10] ^= 0xff
				genuine := NewSODSpec(w.ds, w.dgs, signingTime)
				lso, _ := genuine.LDSSecurityObject()
				s := NewSODSpec(w.ds, dgs, signingTime)
				s.SD.Signers[0].MessageDigest = Digest(w.ds.Key.Spec.Hash, lso)
				return mustSOD(t, s), dgs, [][]byte{w.csca.Cert}
			},
			check: func(t *testing.T, f *Facts, _ []AnchorFacts) {
				if f.MessageDigestOK || !f.DGHashOK[2] {
					t.Errorf("want MessageDigestOK=false, DGHashOK[2]=true: %v %v", f.MessageDigestOK, f.DGHashOK)
				}
			}},
		{name: "content-type-mismatch",
			build: func(t *testing.T, w, adv *world) ([]byte, map[int][]byte, [][]byte) {
				s := NewSODSpec(w.ds, w.dgs, signingTime)
				s.SD.Signers[0].ContentType = OIDData
				return mustSOD(t, s), w.dgs, [][]byte{w.csca.Cert}
			},
			check: func(t *testing.T, f *Facts, _ []AnchorFacts) {
				if f.ContentTypeOK || !f.MessageDigestOK {
					t.Errorf("want ContentTypeOK=false")
				}
			}},
		{name: "no-content-type-attr",
			build: func(t *testing.T, w, adv *world) ([]byte, map[int][]byte, [][]byte) {
				s := NewSODSpec(w.ds, w.dgs, signingTime)
				s.SD.Signers[0].OmitContentType = true
				return mustSOD(t, s), w.dgs, [][]byte{w.csca.Cert}
			},
			check: func(t *testing.T, f *Facts, _ []AnchorFacts) {
				if f.ContentTypeOK || f.Signers[0].ContentTypePresent {
					t.Errorf("want ContentTypePresent=false")
				}
			}},
		{name: "no-message-digest-attr",
			build: func(t *testing.T, w, adv *world) ([]byte, map[int][]byte, [][]byte) {
				s := NewSODSpec(w.ds, w.dgs, signingTime)
				s.SD.Signers[0].OmitMessageDigest = true
				return mustSOD(t, s), w.dgs, [][]byte{w.csca.Cert}
			},
			check: func(t *testing.T, f *Facts, _ []AnchorFacts) {
				if f.MessageDigestOK || f.Signers[0].MessageDigestPresent {
					t.Errorf("want MessageDigestPresent=false")
				}
			}},
		{name: "signed-by-other-key",
			build: func(t *testing.T, w, adv *world) ([]byte, map[int][]byte, [][]byte) {
				s := NewSODSpec(w.ds, w.dgs, signingTime)
				s.SD.Signers[0].Key = adv.ds.Key
				return mustSOD(t, s), w.dgs, [][]byte{w.csca.Cert}
			},
			check: func(t *testing.T, f *Facts, _ []AnchorFacts) {
				if len(f.Signers[0].SigVerifiesUnder) != 0 || !eqInts(f.Signers[0].MatchedEmbeddedCerts, ints(0)) {
					t.Errorf("want SigVerifiesUnder empty")
				}
			}},
		{name: "adversary-ds-same-names",
			build: func(t *testing.T, w, adv *world) ([]byte, map[int][]byte, [][]byte) {
				// adversary CA and DS with the genuine names, SKI/AKI values and serial; genuine CSCA in the store
				return mustSOD(t, NewSODSpec(adv.ds, w.dgs, signingTime)), w.dgs, [][]byte{w.csca.Cert}
			},
			check: func(t *testing.T, f *Facts, _ []AnchorFacts) {
				if !eqInts(f.Signers[0].SigVerifiesUnder, ints(0)) || len(f.Certs[0].ChainsTo) != 0 || !eqInts(f.Certs[0].AKIMatches, ints(0)) || !eqInts(f.Certs[0].IssuerMatches, ints(0)) {
					t.Errorf("want a verifying signature, AKI and issuer name matching the anchor, but ChainsTo empty: %+v", f.Certs[0])
				}
			}},
		{name: "both-ds-embedded-adversary-signs-with-genuine-sid",
			build: func(t *testing.T, w, adv *world) ([]byte, map[int][]byte, [][]byte) {
				s := NewSODSpec(w.ds, w.dgs, signingTime) // SID -> genuine DS
				s.SD.Signers[0].Key = adv.ds.Key
				s.SD.Certs = [][]byte{adv.ds.Cert, w.ds.Cert}
				return mustSOD(t, s), w.dgs, [][]byte{w.csca.Cert}
			},
			check: func(t *testing.T, f *Facts, _ []AnchorFacts) {
				// same issuer name and serial: SID matches both; signature verifies only under the adversary certificate, which does not chain
				if !eqInts(f.Signers[0].SigVerifiesUnder, ints(0)) || len(f.Certs[0].ChainsTo) != 0 || !eqInts(f.Certs[1].ChainsTo, ints(0)) {
					t.Errorf("facts: %+v", f.Signers[0])
				}
			}},
		{name: "adversary-ca-in-store-other-country",
			build: func(t *testing.T, w, adv *world) ([]byte, map[int][]byte, [][]byte) {
				ca, _ := NewCA(CertSpec{Rand: detRand(77), Subject: DN("DE", "Evil", "CSCA"), KeySpec: w.csca.Key.Spec, KeySlot: 5})
				ds, _ := ca.IssueDS(CertSpec{Subject: DN("DE", "Evil", "DS"), KeySlot: 6})
				return mustSOD(t, NewSODSpec(ds, w.dgs, signingTime)), w.dgs, [][]byte{w.csca.Cert, ca.Cert}
			},
			check: func(t *testing.T, f *Facts, a []AnchorFacts) {
				if f.Certs[0].Country != "DE" || !eqInts(f.Certs[0].ChainsTo, ints(1)) || a[1].Country != "DE" {
					t.Errorf("facts: %+v", f.Certs[0])
				}
			}},
		{name: "ds-expired-at-signing-time",
			build: func(t *testing.T, w, adv *world) ([]byte, map[int][]byte, [][]byte) {
				return mustSOD(t, NewSODSpec(w.ds, w.dgs, after)), w.dgs, [][]byte{w.csca.Cert}
			},
			check: func(t *testing.T, f *Facts, _ []AnchorFacts) {
				if f.SigningTime == nil || !f.SigningTime.After(f.Certs[0].NotAfter) {
					t.Errorf("want SigningTime after NotAfter")
				}
			}},
		{name: "ds-not-yet-valid-at-signing-time",
			build: func(t *testing.T, w, adv *world) ([]byte, map[int][]byte, [][]byte) {
				return mustSOD(t, NewSODSpec(w.ds, w.dgs, before)), w.dgs, [][]byte{w.csca.Cert}
			},
			check: func(t *testing.T, f *Facts, _ []AnchorFacts) {
				if f.SigningTime == nil || !f.SigningTime.Before(f.Certs[0].NotBefore) {
					t.Errorf("want SigningTime before NotBefore")
				}
			}},
		{name: "csca-expired-at-signing-time",
			build: func(t *testing.T, w, adv *world) ([]byte, map[int][]byte, [][]byte) {
				ca, _ := NewCA(CertSpec{Rand: detRand(78), Subject: DN("NL", "State", "CSCA short"), Key: w.csca.Key,
					NotBefore: time.Date(2020, 1, 1, 0, 0, 0, 0, time.UTC), NotAfter: time.Date(2023, 1, 1, 0, 0, 0, 0, time.UTC)})
				ds, _ := ca.IssueDS(CertSpec{Subject: DN("NL", "State", "DS"), Key: w.ds.Key})
				return mustSOD(t, NewSODSpec(ds, w.dgs, signingTime)), w.dgs, [][]byte{ca.Cert}
			},
			check: func(t *testing.T, f *Facts, a []AnchorFacts) {
				if !eqInts(f.Certs[0].ChainsTo, ints(0)) || !f.SigningTime.After(a[0].NotAfter) {
					t.Errorf("want chain to an anchor that expired before the signing time")
				}
			}},
		{name: "ds-without-digital-signature",
			build: func(t *testing.T, w, adv *world) ([]byte, map[int][]byte, [][]byte) {
				ds, _ := w.csca.IssueDS(CertSpec{Subject: DN("NL", "State", "DS"), Key: w.ds.Key, KeyUsage: &KeyUsage{Bits: []int{KUKeyEncipherment}, Critical: true}})
				return mustSOD(t, NewSODSpec(ds, w.dgs, signingTime)), w.dgs, [][]byte{w.csca.Cert}
			},
			check: func(t *testing.T, f *Facts, _ []AnchorFacts) {
				if !f.Certs[0].HasKeyUsage || f.Certs[0].KUDigitalSignature || !eqInts(f.Certs[0].KeyUsageBits, ints(KUKeyEncipherment)) {
					t.Errorf("key usage facts: %+v", f.Certs[0])
				}
			}},
		{name: "ds-without-key-usage", libraryMayAccept: true,
			build: func(t *testing.T, w, adv *world) ([]byte, map[int][]byte, [][]byte) {
				ds, _ := w.csca.IssueDS(CertSpec{Subject: DN("NL", "State", "DS"), Key: w.ds.Key, KeyUsage: &KeyUsage{Absent: true}})
				return mustSOD(t, NewSODSpec(ds, w.dgs, signingTime)), w.dgs, [][]byte{w.csca.Cert}
			},
			check: func(t *testing.T, f *Facts, _ []AnchorFacts) {
				if f.Certs[0].HasKeyUsage {
					t.Errorf("HasKeyUsage should be false")
				}
			}},
		{name: "ds-unknown-critical-extension",
			build: func(t *testing.T, w, adv *world) ([]byte, map[int][]byte, [][]byte) {
				ds, _ := w.csca.IssueDS(CertSpec{Subject: DN("NL", "State", "DS"), Key: w.ds.Key, ExtraExtensions: []Extension{{OID: "1.2.3.4.5", Critical: true, Value: Null()}}})
				return mustSOD(t, NewSODSpec(ds, w.dgs, signingTime)), w.dgs, [][]byte{w.csca.Cert}
			},
			check: func(t *testing.T, f *Facts, _ []AnchorFacts) {
				if !f.Certs[0].UnknownCriticalExt {
					t.Errorf("UnknownCriticalExt should be true")
				}
			}},
		{name: "ca-without-key-cert-sign",
			build: func(t *testing.T, w, adv *world) ([]byte, map[int][]byte, [][]byte) {
				ca, _ := NewCA(CertSpec{Rand: detRand(79), Subject: DN("NL", "State", "CSCA"), Key: w.csca.Key, KeyUsage: &KeyUsage{Bits: []int{KUCRLSign}, Critical: true}})
				ds, _ := ca.IssueDS(CertSpec{Subject: DN("NL", "State", "DS"), Key: w.ds.Key})
				return mustSOD(t, NewSODSpec(ds, w.dgs, signingTime)), w.dgs, [][]byte{ca.Cert}
			},
			check: func(t *testing.T, f *Facts, a []AnchorFacts) {
				if a[0].KUKeyCertSign || !a[0].IsCA || !eqInts(f.Certs[0].ChainsTo, ints(0)) {
					t.Errorf("anchor facts: %+v", a[0])
				}
			}},
		{name: "ca-false",
			build: func(t *testing.T, w, adv *world) ([]byte, map[int][]byte, [][]byte) {
				ca, _ := NewCA(CertSpec{Rand: detRand(80), Subject: DN("NL", "State", "CSCA"), Key: w.csca.Key, BasicConstraints: &BasicConstraints{CA: false, Critical: true}})
				ds, _ := ca.IssueDS(CertSpec{Subject: DN("NL", "State", "DS"), Key: w.ds.Key})
				return mustSOD(t, NewSODSpec(ds, w.dgs, signingTime)), w.dgs, [][]byte{ca.Cert}
			},
			check: func(t *testing.T, f *Facts, a []AnchorFacts) {
				if a[0].IsCA || !a[0].HasBasicConstraints || !eqInts(f.Certs[0].ChainsTo, ints(0)) {
					t.Errorf("anchor facts: %+v", a[0])
				}
			}},
		{name: "ca-no-basic-constraints",
			build: func(t *testing.T, w, adv *world) ([]byte, map[int][]byte, [][]byte) {
				ca, _ := NewCA(CertSpec{Rand: detRand(81), Subject: DN("NL", "State", "CSCA"), Key: w.csca.Key, BasicConstraints: &BasicConstraints{Absent: true}})
				ds, _ := ca.IssueDS(CertSpec{Subject: DN("NL", "State", "DS"), Key: w.ds.Key})
				return mustSOD(t, NewSODSpec(ds, w.dgs, signingTime)), w.dgs, [][]byte{ca.Cert}
			},
			check: func(t *testing.T, f *Facts, a []AnchorFacts) {
				if a[0].IsCA || a[0].HasBasicConstraints {
					t.Errorf("anchor facts: %+v", a[0])
				}
			}},
		{name: "ca-unknown-critical-extension",
			build: func(t *testing.T, w, adv *world) ([]byte, map[int][]byte, [][]byte) {
				ca, _ := NewCA(CertSpec{Rand: detRand(82), Subject: DN("NL", "State", "CSCA"), Key: w.csca.Key, ExtraExtensions: []Extension{{OID: "1.2.3.4.5", Critical: true, Value: Null()}}})
				ds, _ := ca.IssueDS(CertSpec{Subject: DN("NL", "State", "DS"), Key: w.ds.Key})
				return mustSOD(t, NewSODSpec(ds, w.dgs, signingTime)), w.dgs, [][]byte{ca.Cert}
			},
			check: func(t *testing.T, f *Facts, a []AnchorFacts) {
				if !a[0].UnknownCriticalExt {
					t.Errorf("anchor facts: %+v", a[0])
				}
			}},
		{name: "dg-injected-not-in-sod",
			build: func(t *testing.T, w, adv *world) ([]byte, map[int][]byte, [][]byte) {
				dgs := cloneDGs(w.dgs)
				dgs[14] = []byte{0x6e, 0x02, 0x31, 0x00}
				return mustSOD(t, NewSODSpec(w.ds, w.dgs, signingTime)), dgs, [][]byte{w.csca.Cert}
			},
			check: func(t *testing.T, f *Facts, _ []AnchorFacts) {
				if f.DGHashOK[14] || !f.DGHashOK[1] {
					t.Errorf("DGHashOK: %v", f.DGHashOK)
				}
			}},
		{name: "dg1-country-differs-from-certificates",
			build: func(t *testing.T, w, adv *world) ([]byte, map[int][]byte, [][]byte) {
				dgs := cloneDGs(w.dgs)
				dgs[1] = MakeDG1(MakeTD3MRZ("DEU", "L898902C3"))
				return mustSOD(t, NewSODSpec(w.ds, dgs, signingTime)), dgs, [][]byte{w.csca.Cert}
			},
			check: func(t *testing.T, f *Facts, _ []AnchorFacts) {
				if f.Certs[0].Country != "NL" || !f.DGHashOK[1] {
					t.Errorf("facts: %v", f.Certs[0].Country)
				}
			}},
		{name: "cert-signature-corrupted",
			build: func(t *testing.T, w, adv *world) ([]byte, map[int][]byte, [][]byte) {
				ds, _ := w.csca.IssueDS(CertSpec{Subject: DN("NL", "State", "DS"), Key: w.ds.Key, CorruptSignature: true})
				return mustSOD(t, NewSODSpec(ds, w.dgs, signingTime)), w.dgs, [][]byte{w.csca.Cert}
			},
			check: func(t *testing.T, f *Facts, _ []AnchorFacts) {
				if len(f.Certs[0].ChainsTo) != 0 || !eqInts(f.Signers[0].SigVerifiesUnder, ints(0)) {
					t.Errorf("facts: %+v", f.Certs[0])
				}
			}},
		{name: "no-signed-attrs", libraryMayAccept: true,
			build: func(t *testing.T, w, adv *world) ([]byte, map[int][]byte, [][]byte) {
				s := NewSODSpec(w.ds, w.dgs, signingTime)
				s.SD.Signers[0].NoSignedAttrs = true
				return mustSOD(t, s), w.dgs, [][]byte{w.csca.Cert}
			},
			check: func(t *testing.T, f *Facts, _ []AnchorFacts) {
				if f.SignedAttrsPresent || !eqInts(f.Signers[0].SigVerifiesUnder, ints(0)) {
					t.Errorf("facts: %+v", f.Signers[0])
				}
			}},
	}
	for i, ks := range variantSpecs() {
		w := newWorld(t, int64(600+i), ks)
		// adversary: own CA and DS with the same names, key identifiers and serial numbers as the genuine ones
		rnd := detRand(int64(650 + i))
		advCA, err := NewCA(CertSpec{Rand: rnd, SubjectRaw: w.csca.SubjectDER, KeySpec: ks, KeySlot: 7, SKI: &KeyID{Value: w.csca.SKI}, Serial: w.csca.Serial})
		if err != nil {
			t.Fatal(err)
		}
		advDS, err := advCA.IssueDS(CertSpec{SubjectRaw: w.ds.SubjectDER, KeySlot: 8, SKI: &KeyID{Value: w.ds.SKI}, Serial: w.ds.Serial})
		if err != nil {
			t.Fatal(err)
		}
		adv := &world{csca: advCA, ds: advDS, dgs: w.dgs}
		for _, fg := range forgeries {
			fg := fg
			t.Run(ks.String()+"/"+fg.name, func(t *testing.T) {
				sod, dgs, store := fg.build(t, w, adv)
				f, anchors := ComputeFacts(sod, dgs, store)
				if f.InternalPanic != "" || !f.Parseable || len(f.Signers) != 1 {
					t.Fatalf("facts unusable: %+v", f)
				}
				fg.check(t, f, anchors)
				_, err := runPA(sod, dgs, nil, store)
				if err == nil {
					if fg.libraryMayAccept {
						t.Logf("library accepts %s (permitted)", fg.name)
					} else {
						deviation(t, "accept-forgery/"+fg.name+"/"+ks.Kind, "forged object accepted")
					}
				} else if strings.Contains(err.Error(), "PANIC") {
					deviation(t, "panic/"+fg.name+"/"+ks.Kind, "%v", err)
				}
			})
		}
	}
}

func TestFactsNeverPanic(t *testing.T) {
	for i, ks := range variantSpecs() {
		w := newWorld(t, int64(700+i), ks)
		trust := [][]byte{w.csca.Cert}
		for _, indef := range []bool{false, true} {
			spec := NewSODSpec(w.ds, w.dgs, signingTime)
			spec.SD.Indefinite = indef
			spec.SD.IndefiniteSets = indef
			if indef {
				spec.SD.EContentChunk = 40
			}
			sod, err := BuildSOD(spec)
			if err != nil {
				t.Fatal(err)
			}
			rnd := detRand(int64(710 + i))
			n := 1500
			if testing.Short() {
				n = 300
			}
			unparseable, stillValid := 0, 0
			try := func(kind string, b []byte) {
				defer func() {
					if r := recover(); r != nil {
						t.Errorf("%s: ComputeFacts panicked: %v (input %x)", kind, r, b)
					}
				}()
				f, _ := ComputeFacts(b, w.dgs, trust)
				if f.InternalPanic != "" {
					t.Errorf("%s: internal panic %s (input %x)", kind, f.InternalPanic, b)
				}
				if !f.Parseable {
					unparseable++
				} else if len(f.Signers) == 1 && len(f.Signers[0].SigVerifiesUnder) == 1 && f.MessageDigestOK {
					stillValid++
				}
				// trust store entries get the same treatment
				_, a := ComputeFacts(sod, w.dgs, [][]byte{b[:len(b)/2], b})
				_ = a
			}
			for k := 0; k < n; k++ {
				b := append([]byte{}, sod...)
				switch k % 4 {
				case 0:
					b[rnd.Intn(len(b))] ^= byte(1 << uint(rnd.Intn(8)))
				case 1:
					b[rnd.Intn(len(b))] = byte(rnd.Intn(256))
				case 2:
					b = b[:rnd.Intn(len(b))]
				case 3:
					p := rnd.Intn(len(b))
					q := minInt(len(b), p+1+rnd.Intn(8))
					b = append(b[:p], b[q:]...)
				}
				try(fmt.Sprintf("mutation %d", k), b)
			}
			// certificate mutants in the trust store and as embedded certificate
			for k := 0; k < n/5; k++ {
				c := append([]byte{}, w.csca.Cert...)
				c[rnd.Intn(len(c))] ^= byte(1 << uint(rnd.Intn(8)))
				f := CertificateFacts(c, [][]byte{c, w.csca.Cert})
				_ = f
			}
			t.Logf("%s indef=%v: %d mutants, %d unparseable, %d with all signature facts intact", ks, indef, n, unparseable, stillValid)
		}
	}
}

func minInt(a, b int) int {
	if a < b {
		return a
	}
	return b
}
