package pki

import (
	"bytes"
	"fmt"
	"io"
	"math/big"
	mrand "math/rand"
	"time"
)

// Scenario is one concrete document (or master list) together with the trust
// store it is to be checked against and what the standards say about it.
type Scenario struct {
	Name  string // stable id, e.g. "forgery/message-digest-mismatch"
	Class string // "genuine": correctly issued, MUST verify; "forgery": MUST NOT verify; "probe": verdict not fixed by the standards (informational)
	Note  string // one line: what was changed relative to a genuine document
	// KnownDeviation names the known behaviour of gmrtd that contradicts Class for
	// this scenario (a genuine object it rejects, a forgery it accepts, a panic);
	// empty if none is known. See KnownDeviations for the descriptions.
	KnownDeviation string

	SOD     []byte
	DGs     map[int][]byte // data groups of the document (DG1 is a real DG1 for NLD / C=NL unless the Note says otherwise)
	CardSec []byte         // nil if none
	Trust   [][]byte       // trust store (DER certificates), order significant; for master lists: the root certificate(s)
	KeySpec KeySpec

	MasterList    []byte   // nil unless this is a master-list scenario; then SOD is nil
	MLExpectCerts [][]byte // certificates that must be returned when the list is accepted
}

// KnownDeviations describes the values of Scenario.KnownDeviation.
var KnownDeviations = map[string]string{
	"pss-sha1-der-params":         "RFC 4055 3.1: RSASSA-PSS-params in DER for SHA-1 (hashAlgorithm / maskGenAlgorithm omitted as DEFAULT) are not parsed; certificates signed with PSS/SHA-1 are rejected",
	"chunked-econtent":            "X.690 8.7: eContent as constructed OCTET STRING (BER) is rejected",
	"wrap77-indefinite":           "EF.SOD whose 0x77 wrapper itself uses the indefinite-length form is rejected although the inner ContentInfo may use it",
	"cardsecurity-indefinite":     "EF.CardSecurity in BER indefinite-length form is rejected (EF.SOD in the same form is accepted)",
	"ecdsa-fallback-panic-p192":   "ECDSA curve fallback hands a brainpoolP192r1 point to generic P-192 arithmetic: panic 'attempted operation on invalid point' on attacker-controlled input",
	"no-name-chaining":            "RFC 5280 6.1.3 (a)(4): the issuer name of the DS certificate is not compared with the subject name of the CSCA certificate (chain built on AKI/SKI + signature only)",
	"eku-not-enforced":            "a certificate with critical extendedKeyUsage id-icao-cscaMasterListSigningKey is accepted as document signer",
	"reference-time-first-signer": "the signing time of the first SignerInfo is kept as reference time for the validity checks of all later SignerInfos (their own signingTime is ignored)",
}

// ScenarioSigningTime is the signing time of all scenarios unless stated otherwise.
var ScenarioSigningTime = time.Date(2024, 6, 1, 12, 0, 0, 0, time.UTC)

// RSA pool slots used by the scenarios (one RSA key per size and slot per process).
const (
	slotCSCA    = 0
	slotDS      = 1
	slotOtherCA = 2 // old generation / absent / adversary CSCA
	slotDecoyCA = 3
	slotOtherDS = 4 // adversary document signer
	slotDS2     = 5 // second genuine document signer, master list signer
)

func seeded(seed int64) io.Reader { return mrand.New(mrand.NewSource(seed)) }

// scen carries the genuine world of one (seed, key spec) and collects scenarios.
type scen struct {
	seed int64
	ks   KeySpec
	rnd  io.Reader
	csca *Authority
	ds   *Signer
	dgs  map[int][]byte
	out  []Scenario
	err  error
}

func (c *scen) fail(err error) {
	if c.err == nil && err != nil {
		c.err = err
	}
}

func (c *scen) sub(k int64) io.Reader { return seeded(c.seed*1000003 + k) }

func newScen(seed int64, ks KeySpec) (*scen, error) {
	c := &scen{seed: seed, ks: ks, rnd: seeded(seed)}
	var err error
	c.csca, err = NewCA(CertSpec{Rand: c.rnd, Subject: DN("NL", "State of the Netherlands", "CSCA NL"), KeySpec: ks, KeySlot: slotCSCA})
	if err != nil {
		return nil, err
	}
	c.ds, err = c.csca.IssueDS(CertSpec{Subject: DN("NL", "State of the Netherlands", "DS 1"), KeySlot: slotDS})
	if err != nil {
		return nil, err
	}
	dg2 := make([]byte, 300)
	if _, err := io.ReadFull(c.rnd, dg2); err != nil {
		return nil, err
	}
	dg2[0] = 0x75
	c.dgs = map[int][]byte{1: MakeDG1(MakeTD3MRZ("NLD", "L898902C3")), 2: dg2}
	return c, nil
}

func copyDGs(m map[int][]byte) map[int][]byte {
	out := map[int][]byte{}
	for k, v := range m {
		out[k] = append([]byte{}, v...)
	}
	return out
}

func (c *scen) base() SODSpec { return NewSODSpec(c.ds, c.dgs, ScenarioSigningTime) }

func (c *scen) sod(s SODSpec) []byte {
	b, err := BuildSOD(s)
	c.fail(err)
	return b
}

func (c *scen) store() [][]byte { return [][]byte{c.csca.Cert} }

// add appends a document scenario; dgs nil = the genuine data groups, trust nil = the genuine CSCA.
func (c *scen) add(class, name, note string, sod []byte, dgs map[int][]byte, trust [][]byte) *Scenario {
	if dgs == nil {
		dgs = c.dgs
	}
	if trust == nil {
		trust = c.store()
	}
	c.out = append(c.out, Scenario{Name: class + "/" + name, Class: class, Note: note, SOD: sod, DGs: dgs, Trust: trust, KeySpec: c.ks})
	sc := &c.out[len(c.out)-1]
	if class == "genuine" && c.ks.Kind == "rsa-pss" && c.ks.Hash == "sha1" {
		sc.KnownDeviation = "pss-sha1-der-params"
		sc.Note += " [certificates carry the DER form of the PSS/SHA-1 parameters]"
	}
	return sc
}

// reissue issues a CSCA and a DS with the genuine keys and names, modified by caMod / dsMod.
func (c *scen) reissue(caMod, dsMod func(*CertSpec)) (*Authority, *Signer) {
	cs := CertSpec{Rand: c.sub(4242), Subject: DN("NL", "State of the Netherlands", "CSCA NL"), Key: c.csca.Key}
	if caMod != nil {
		caMod(&cs)
	}
	ca, err := NewCA(cs)
	if err != nil {
		c.fail(err)
		return c.csca, c.ds
	}
	dss := CertSpec{Subject: DN("NL", "State of the Netherlands", "DS 1"), Key: c.ds.Key}
	if dsMod != nil {
		dsMod(&dss)
	}
	ds, err := ca.IssueDS(dss)
	if err != nil {
		c.fail(err)
		return ca, c.ds
	}
	return ca, ds
}

func otherHash(h string) string {
	if h == "sha1" {
		return "sha256"
	}
	return "sha1"
}

func secondHash(h string) string {
	if h == "sha512" {
		return "sha384"
	}
	return "sha512"
}

// TestSecurityInfos is a minimal SecurityInfos for EF.CardSecurity:
// SET { PACEInfo { id-PACE-ECDH-GM-AES-CBC-CMAC-128, version 2, parameterId 13 } }.
func TestSecurityInfos() []byte {
	return SetOf(Seq(OID("0.4.0.127.0.7.2.2.4.2.2"), IntN(2), IntN(13)))
}

// ---------------------------------------------------------------------------
// base: the genuine document and the elementary forgeries
// ---------------------------------------------------------------------------

// BaseScenarios returns the genuine document for (seed, ks) and the elementary
// forgeries (trust anchor absent, data group altered, signature or signed
// attribute altered). It is the first part of Scenarios.
func BaseScenarios(seed int64, ks KeySpec) ([]Scenario, error) {
	c, err := newScen(seed, ks)
	if err != nil {
		return nil, err
	}
	c.baseScenarios()
	return c.out, c.err
}

func (c *scen) baseScenarios() {
	sod := c.sod(c.base())
	c.add("genuine", "base", "CSCA -> DS -> EF.SOD over DG1, DG2; LDS v0, issuerAndSerialNumber, definite lengths", sod, nil, nil)

	other, err := NewCA(CertSpec{Rand: c.sub(1), Subject: DN("NL", "State of the Netherlands", "CSCA NL"), KeySpec: c.ks, KeySlot: slotOtherCA})
	c.fail(err)
	if other != nil {
		c.add("forgery", "csca-absent-same-name-other-key", "trust store holds only another CSCA with the same name and another key", sod, nil, [][]byte{other.Cert})
	}
	c.add("forgery", "empty-trust-store", "trust store is empty", sod, nil, [][]byte{})

	d1 := copyDGs(c.dgs)
	d1[1][bytes.Index(d1[1], []byte("ANNA"))] = 'B' // MRZ check digits do not cover the name
	c.add("forgery", "dg1-altered", "one letter of the holder name in DG1 changed", sod, d1, nil)
	d2 := copyDGs(c.dgs)
	d2[2][len(d2[2])/2] ^= 0x01
	c.add("forgery", "dg2-altered", "one bit of DG2 flipped", sod, d2, nil)

	s := c.base()
	s.SD.Signers[0].CorruptSignature = true
	c.add("forgery", "signature-bit-flipped", "one bit of the SignerInfo signature flipped", c.sod(s), nil, nil)

	raw := append([]byte{}, sod...)
	if idx := bytes.Index(raw, []byte(ScenarioSigningTime.Format("060102150405Z"))); idx >= 0 {
		raw[idx+1] ^= 0x01
		c.add("forgery", "signed-attribute-byte-flipped", "one bit of the signed signingTime attribute flipped after signing", raw, nil, nil)
	} else {
		c.fail(fmt.Errorf("pki: signing time not found in SOD"))
	}
}

// ---------------------------------------------------------------------------
// variants: validity-irrelevant encodings of a genuine document
// ---------------------------------------------------------------------------

func (c *scen) variantScenarios() {
	type variant struct {
		name, note, dev string
		mod             func(s *SODSpec)
	}
	vs := []variant{
		{"indefinite", "ContentInfo .. eContent wrapper in BER indefinite-length form", "", func(s *SODSpec) { s.SD.Indefinite = true }},
		{"indefinite-sets", "additionally digestAlgorithms, certificates, signerInfos indefinite", "", func(s *SODSpec) { s.SD.Indefinite = true; s.SD.IndefiniteSets = true }},
		{"indefinite-chunked-econtent", "indefinite form with eContent as constructed OCTET STRING of 32-octet segments", "chunked-econtent", func(s *SODSpec) { s.SD.Indefinite = true; s.SD.EContentChunk = 32 }},
		{"definite-chunked-econtent", "definite lengths, eContent as constructed OCTET STRING of 50-octet segments", "chunked-econtent", func(s *SODSpec) { s.SD.EContentChunk = 50 }},
		{"wrap77-indefinite", "indefinite form including the 0x77 wrapper", "wrap77-indefinite", func(s *SODSpec) { s.SD.Indefinite = true; s.SD.Wrap77Indefinite = true }},
		{"sid-ski", "SignerIdentifier is subjectKeyIdentifier (SignerInfo version 3)", "", func(s *SODSpec) { s.SD.Signers[0].SID = SIDSubjectKeyID }},
		{"lds-v1", "LDSSecurityObject version 1 with ldsVersionInfo", "", func(s *SODSpec) { s.LDSVersion = 1 }},
		{"no-signing-time", "no signingTime attribute", "", func(s *SODSpec) { s.SD.Signers[0].SigningTime = nil }},
		{"generalized-signing-time", "signingTime as GeneralizedTime", "", func(s *SODSpec) { s.SD.Signers[0].SigningTimeForm = TimeGeneralized }},
		{"extra-cert-after", "CSCA certificate embedded after the DS certificate", "", func(s *SODSpec) { s.SD.Certs = [][]byte{c.ds.Cert, c.csca.Cert} }},
		{"extra-cert-before", "CSCA certificate embedded before the DS certificate", "", func(s *SODSpec) { s.SD.Certs = [][]byte{c.csca.Cert, c.ds.Cert} }},
		{"digest-null-params", "NULL parameters in all digest AlgorithmIdentifiers", "", func(s *SODSpec) {
			s.HashAlgNull, s.SD.DigestAlgNull, s.SD.Signers[0].DigestAlgNull = true, true, true
		}},
		{"lds-hash-differs-from-signer-digest", "data group hashes with " + secondHash(c.ks.Hash) + ", SignerInfo digest " + c.ks.Hash, "", func(s *SODSpec) { s.DigestAlg = secondHash(c.ks.Hash) }},
		{"dg-order-descending", "DataGroupHash entries in descending order", "", func(s *SODSpec) { s.DGOrder = []int{2, 1} }},
	}
	if c.ks.Kind == "rsa" {
		vs = append(vs, variant{"rsa-encryption-oid", "signatureAlgorithm rsaEncryption (hash from digestAlgorithm)", "", func(s *SODSpec) {
			s.SD.Signers[0].SigAlg = &SigAlg{Kind: "rsa", Hash: c.ks.Hash, PlainRSAOID: true}
		}})
	}
	for _, v := range vs {
		s := c.base()
		v.mod(&s)
		sc := c.add("genuine", "variant/"+v.name, v.note, c.sod(s), nil, nil)
		if v.dev != "" {
			sc.KnownDeviation = v.dev
			sc.Note += " [exercises known deviation " + v.dev + "]"
		}
	}

	// certificate-level variants
	na := time.Date(2055, 1, 1, 0, 0, 0, 0, time.UTC)
	ca, ds := c.reissue(func(s *CertSpec) { s.NotAfter = na }, func(s *CertSpec) { s.NotAfter = na })
	c.add("genuine", "variant/validity-generalized-time-2055", "certificates valid until 2055 (notAfter as GeneralizedTime)", c.sod(NewSODSpec(ds, c.dgs, ScenarioSigningTime)), nil, [][]byte{ca.Cert})
	ca, ds = c.reissue(func(s *CertSpec) { s.BasicConstraints = &BasicConstraints{CA: true, Critical: true} }, nil)
	c.add("genuine", "variant/csca-path-len-absent", "CSCA basicConstraints without pathLenConstraint", c.sod(NewSODSpec(ds, c.dgs, ScenarioSigningTime)), nil, [][]byte{ca.Cert})
	if c.ks.Kind == "ecdsa" {
		flip := c.ks
		flip.ExplicitParams = !flip.ExplicitParams
		ca, ds = c.reissue(func(s *CertSpec) { s.Key = c.csca.Key.WithSpec(flip) }, nil)
		c.add("genuine", "variant/ec-params-form-differs-between-csca-and-ds", "CSCA key with the other EC parameter form (named/explicit) than the DS key", c.sod(NewSODSpec(ds, c.dgs, ScenarioSigningTime)), nil, [][]byte{ca.Cert})
	}
}

// ---------------------------------------------------------------------------
// two SignerInfos
// ---------------------------------------------------------------------------

func (c *scen) twoSignerScenarios() {
	ds2End := time.Date(2025, 1, 1, 0, 0, 0, 0, time.UTC)
	ds2, err := c.csca.IssueDS(CertSpec{Rand: c.sub(20), Subject: DN("NL", "State of the Netherlands", "DS 2"), KeySlot: slotDS2, NotAfter: ds2End})
	if err != nil {
		c.fail(err)
		return
	}
	t1 := ScenarioSigningTime
	t1b := t1.Add(time.Hour)
	t2 := time.Date(2026, 1, 1, 0, 0, 0, 0, time.UTC) // DS 2 expired, DS 1 and CSCA valid
	build := func(st1, st2 *time.Time, corrupt2 bool) []byte {
		s := c.base()
		s.SD.Signers[0].SigningTime = st1
		s.SD.Signers = append(s.SD.Signers, SignerSpec{ID: &ds2.Entity, SigningTime: st2, CorruptSignature: corrupt2})
		return c.sod(s)
	}
	c.add("genuine", "two-signer-infos", "two SignerInfos by two DS certificates of the same CSCA, both signing times inside both validity periods", build(&t1, &t1b, false), nil, nil)
	sc := c.add("forgery", "two-signer-infos-second-certificate-not-valid-at-its-own-signing-time",
		"two valid signatures; SignerInfo 1 (DS 1) signed at 2024-06-01, SignerInfo 2 (DS 2, valid until 2025-01-01) states signing time 2026-01-01", build(&t1, &t2, false), nil, nil)
	sc.KnownDeviation = "reference-time-first-signer"
	c.add("forgery", "two-signer-infos-first-without-signing-time-second-certificate-not-valid-at-its-signing-time",
		"as before but SignerInfo 1 carries no signingTime", build(nil, &t2, false), nil, nil)
	{
		// second DS valid 2025..2030 only: not valid at t1, valid at its own signing time t2
		ds3, err := c.csca.IssueDS(CertSpec{Rand: c.sub(21), Subject: DN("NL", "State of the Netherlands", "DS 3"), KeySlot: slotDS2,
			NotBefore: ds2End, NotAfter: time.Date(2030, 1, 1, 0, 0, 0, 0, time.UTC)})
		if err != nil {
			c.fail(err)
			return
		}
		s := c.base()
		s.SD.Signers = append(s.SD.Signers, SignerSpec{ID: &ds3.Entity, SigningTime: &t2})
		sc := c.add("genuine", "two-signer-infos-second-certificate-valid-only-at-its-own-signing-time",
			"SignerInfo 1 (DS 1) signed 2024-06-01; SignerInfo 2 by a DS valid 2025..2030 signed 2026-01-01: each certificate is valid at its own signing time [exercises known deviation reference-time-first-signer]", c.sod(s), nil, nil)
		if sc.KnownDeviation == "" {
			sc.KnownDeviation = "reference-time-first-signer"
		}
	}
	c.add("forgery", "two-signer-infos-second-signature-corrupted", "second SignerInfo's signature has one bit flipped", build(&t1, &t1b, true), nil, nil)
}

// ---------------------------------------------------------------------------
// cross-signed CSCA pairs
// ---------------------------------------------------------------------------

func (c *scen) crossSigned() (old, cross, decoy *Authority) {
	var err error
	old, err = NewCA(CertSpec{Rand: c.sub(30), Subject: DN("NL", "State of the Netherlands", "CSCA NL G1"), KeySpec: c.ks, KeySlot: slotOtherCA})
	if err != nil {
		c.fail(err)
		return nil, nil, nil
	}
	cross, err = old.CrossSign(c.csca, CertSpec{})
	if err != nil {
		c.fail(err)
		return nil, nil, nil
	}
	decoy, err = NewCA(CertSpec{Rand: c.sub(31), Subject: DN("NL", "State of the Netherlands", "CSCA NL decoy"), KeySpec: c.ks, KeySlot: slotDecoyCA, SKI: &KeyID{Value: c.csca.SKI}})
	if err != nil {
		c.fail(err)
		return nil, nil, nil
	}
	return old, cross, decoy
}

func (c *scen) crossSignedScenarios() {
	old, cross, decoy := c.crossSigned()
	if old == nil {
		return
	}
	sod := c.sod(c.base())
	self := c.csca.Cert
	good := []struct {
		name  string
		store [][]byte
	}{
		{"self,cross", [][]byte{self, cross.Cert}},
		{"cross,self", [][]byte{cross.Cert, self}},
		{"cross-only", [][]byte{cross.Cert}},
		{"decoy,self", [][]byte{decoy.Cert, self}},
		{"self,decoy", [][]byte{self, decoy.Cert}},
		{"old,decoy,cross", [][]byte{old.Cert, decoy.Cert, cross.Cert}},
		{"cross,old,decoy", [][]byte{cross.Cert, old.Cert, decoy.Cert}},
	}
	for _, g := range good {
		c.add("genuine", "cross-signed/"+g.name, "trust store: "+g.name+" (cross = CSCA key and SKI certified by the previous CSCA; decoy = other key with the same SKI)", sod, nil, g.store)
	}
	bad := []struct {
		name  string
		store [][]byte
	}{
		{"decoy-only", [][]byte{decoy.Cert}},
		{"old-only", [][]byte{old.Cert}},
		{"old,decoy", [][]byte{old.Cert, decoy.Cert}},
	}
	for _, b := range bad {
		c.add("forgery", "cross-signed/"+b.name, "trust store: "+b.name+" (no certificate carrying the CSCA key)", sod, nil, b.store)
	}
}

// ---------------------------------------------------------------------------
// EF.CardSecurity
// ---------------------------------------------------------------------------

func (c *scen) cardSecurityScenarios() {
	sod := c.sod(c.base())
	cs, err := BuildCardSecurity(NewCardSecuritySpec(c.ds, TestSecurityInfos(), ScenarioSigningTime))
	c.fail(err)
	c.add("genuine", "cardsecurity", "EF.SOD plus EF.CardSecurity signed by the same DS", sod, nil, nil).CardSec = cs

	adv, err := GenerateKeySlot(c.sub(40), c.ks, slotOtherDS)
	c.fail(err)
	spec := NewCardSecuritySpec(c.ds, TestSecurityInfos(), ScenarioSigningTime)
	spec.SD.Signers[0].Key = adv
	forged, err := BuildCardSecurity(spec)
	c.fail(err)
	c.add("forgery", "cardsecurity-signed-by-foreign-key", "EF.CardSecurity carries the DS certificate but is signed with another key", sod, nil, nil).CardSec = forged

	// a second document signer, valid 2020-01-01 .. 2025-06-30: inside at the signing time of EF.SOD, outside at
	// the signing time the card security object states for itself (each object is judged at ITS OWN signing time)
	if ds2, err := c.csca.IssueDS(CertSpec{Rand: c.sub(41), Subject: DN("NL", "State of the Netherlands", "DS CardSecurity"), KeySlot: slotDS2,
		NotBefore: time.Date(2020, 1, 1, 0, 0, 0, 0, time.UTC), NotAfter: time.Date(2025, 6, 30, 0, 0, 0, 0, time.UTC)}); err != nil {
		c.fail(err)
	} else {
		late, err := BuildCardSecurity(NewCardSecuritySpec(ds2, TestSecurityInfos(), time.Date(2027, 1, 15, 0, 0, 0, 0, time.UTC)))
		c.fail(err)
		c.add("forgery", "cardsecurity-signer-expired-at-its-own-signing-time", "EF.CardSecurity states signing time 2027-01-15, its DS certificate expired 2025-06-30 (and is valid at the signing time of EF.SOD)", sod, nil, nil).CardSec = late
		early, err := BuildCardSecurity(NewCardSecuritySpec(ds2, TestSecurityInfos(), time.Date(2019, 6, 1, 0, 0, 0, 0, time.UTC)))
		c.fail(err)
		c.add("forgery", "cardsecurity-signer-not-yet-valid-at-its-own-signing-time", "EF.CardSecurity states signing time 2019-06-01, before its DS certificate's notBefore (valid at the signing time of EF.SOD)", sod, nil, nil).CardSec = early
		// the other way round: a signer certificate that is valid at the card security object's own signing time but
		// NOT at the signing time of EF.SOD (chip production and personalisation use different signers)
		if ds3, err := c.csca.IssueDS(CertSpec{Rand: c.sub(42), Subject: DN("NL", "State of the Netherlands", "DS CardSecurity 2"), KeySlot: slotDS2,
			NotBefore: time.Date(2026, 1, 1, 0, 0, 0, 0, time.UTC), NotAfter: time.Date(2030, 1, 1, 0, 0, 0, 0, time.UTC)}); err != nil {
			c.fail(err)
		} else {
			own, err := BuildCardSecurity(NewCardSecuritySpec(ds3, TestSecurityInfos(), time.Date(2027, 1, 15, 0, 0, 0, 0, time.UTC)))
			c.fail(err)
			c.add("genuine", "cardsecurity-ds-valid-only-at-its-own-signing-time", "EF.CardSecurity signed 2027 by a DS valid 2026..2030 (not yet valid at the signing time of EF.SOD)", sod, nil, nil).CardSec = own
		}
		ok2, err := BuildCardSecurity(NewCardSecuritySpec(ds2, TestSecurityInfos(), time.Date(2025, 6, 1, 0, 0, 0, 0, time.UTC)))
		c.fail(err)
		c.add("genuine", "cardsecurity-second-ds-own-signing-time", "EF.CardSecurity signed by a second DS at another signing time than EF.SOD, both inside their certificates' validity", sod, nil, nil).CardSec = ok2
	}

	spec = NewCardSecuritySpec(c.ds, TestSecurityInfos(), ScenarioSigningTime)
	spec.SD.Indefinite = true
	ind, err := BuildCardSecurity(spec)
	c.fail(err)
	sc := c.add("genuine", "cardsecurity-indefinite", "EF.CardSecurity in BER indefinite-length form [exercises known deviation cardsecurity-indefinite]", sod, nil, nil)
	sc.CardSec = ind
	sc.KnownDeviation = "cardsecurity-indefinite"
}

// ---------------------------------------------------------------------------
// master lists
// ---------------------------------------------------------------------------

func (c *scen) masterListScenarios() {
	rnd := c.sub(50)
	mls, err := c.csca.IssueMLSigner(CertSpec{Rand: rnd, Subject: DN("NL", "State of the Netherlands", "Master List Signer"), KeySlot: slotDS2})
	if err != nil {
		c.fail(err)
		return
	}
	de, err1 := NewCA(CertSpec{Rand: rnd, Subject: DN("DE", "Bund", "CSCA DE"), KeySpec: KeySpec{Kind: "ecdsa", Curve: "brainpoolP384r1", ExplicitParams: true, Hash: "sha384"}})
	fr, err2 := NewCA(CertSpec{Rand: rnd, Subject: DN("FR", "Gouv", "CSCA FR"), KeySpec: KeySpec{Kind: "ecdsa", Curve: "P-384", Hash: "sha384"}})
	if err1 != nil || err2 != nil {
		c.fail(err1)
		c.fail(err2)
		return
	}
	frLink, err := fr.IssueCA(CertSpec{Subject: DN("FR", "Gouv", "CSCA FR G2"), KeySpec: KeySpec{Kind: "ecdsa", Curve: "P-256", Hash: "sha256"}})
	if err != nil {
		c.fail(err)
		return
	}
	certs := [][]byte{c.csca.Cert, de.Cert, fr.Cert, frLink.Cert}
	st := ScenarioSigningTime
	addML := func(class, name, note string, ml []byte, root []byte) *Scenario {
		c.out = append(c.out, Scenario{Name: class + "/" + name, Class: class, Note: note, KeySpec: c.ks, Trust: [][]byte{root}, MasterList: ml, MLExpectCerts: certs})
		sc := &c.out[len(c.out)-1]
		if class == "genuine" && c.ks.Kind == "rsa-pss" && c.ks.Hash == "sha1" {
			sc.KnownDeviation = "pss-sha1-der-params"
		}
		return sc
	}
	ml, err := BuildMasterList(mls, certs, MasterListSpec{SigningTime: &st, ExtraCerts: [][]byte{c.csca.Cert}})
	c.fail(err)
	addML("genuine", "master-list", "CscaMasterList with 4 CSCA certificates (NL, DE, FR, FR link) signed by a master list signer of the NL CSCA", ml, c.csca.Cert)
	if evil, err := NewCA(CertSpec{Rand: c.sub(51), Subject: DN("NL", "State of the Netherlands", "CSCA NL"), KeySpec: c.ks, KeySlot: slotOtherCA}); err != nil {
		c.fail(err)
	} else {
		// SignedData.certificates is not covered by the signature: whatever travels there must not enter the trust store
		ml2, err := BuildMasterList(mls, certs, MasterListSpec{SigningTime: &st, ExtraCerts: [][]byte{c.csca.Cert, evil.Cert}})
		c.fail(err)
		addML("genuine", "master-list-with-unsigned-foreign-certificate-embedded", "genuine master list with an additional self-signed CA certificate in SignedData.certificates (outside the signed certList)", ml2, c.csca.Cert)
	}
	if advCA, _ := c.adversary(); advCA != nil {
		// a forged list signed under a self-signed CA that copies the trusted root's NAME, key identifier and serial
		// number (its own key), embedded in SignedData.certificates next to its list signer: names prove nothing
		if advMLS, err := advCA.IssueMLSigner(CertSpec{Rand: c.sub(52), Subject: DN("NL", "State of the Netherlands", "Master List Signer"), KeySlot: slotOtherDS}); err != nil {
			c.fail(err)
		} else {
			forged, err := BuildMasterList(advMLS, append(append([][]byte{}, certs...), advCA.Cert), MasterListSpec{SigningTime: &st, ExtraCerts: [][]byte{advCA.Cert}})
			c.fail(err)
			addML("forgery", "master-list-signed-under-embedded-ca-with-the-roots-name", "forged master list whose signer chains to an embedded self-signed CA with the trusted root's subject name, key identifier and serial number but another key", forged, c.csca.Cert)
		}
	}
	addML("forgery", "master-list-foreign-root", "the same master list checked against the DE CSCA as root", ml, de.Cert)
	bad, err := BuildMasterList(mls, certs, MasterListSpec{SigningTime: &st, SD: SignedDataSpec{Signers: []SignerSpec{{ID: &mls.Entity, SigningTime: &st, CorruptSignature: true}}}})
	c.fail(err)
	addML("forgery", "master-list-signature-bit-flipped", "one bit of the master list signature flipped", bad, c.csca.Cert)
	mlByDS, err := BuildMasterList(c.ds, certs, MasterListSpec{SigningTime: &st})
	c.fail(err)
	addML("probe", "master-list-signed-by-plain-ds", "master list signed by a document signer certificate without extendedKeyUsage (ICAO 9303-12 requires id-icao-cscaMasterListSigningKey)", mlByDS, c.csca.Cert)
}

// ---------------------------------------------------------------------------
// forgeries
// ---------------------------------------------------------------------------

// adversary returns a CA and DS that copy the genuine names, key identifiers and serial numbers.
func (c *scen) adversary() (*Authority, *Signer) {
	advCA, err := NewCA(CertSpec{Rand: c.sub(60), SubjectRaw: c.csca.SubjectDER, KeySpec: c.ks, KeySlot: slotOtherCA, SKI: &KeyID{Value: c.csca.SKI}, Serial: c.csca.Serial})
	if err != nil {
		c.fail(err)
		return nil, nil
	}
	advDS, err := advCA.IssueDS(CertSpec{SubjectRaw: c.ds.SubjectDER, KeySlot: slotOtherDS, SKI: &KeyID{Value: c.ds.SKI}, Serial: c.ds.Serial})
	if err != nil {
		c.fail(err)
		return nil, nil
	}
	return advCA, advDS
}

func (c *scen) forgeryScenarios() {
	_, advDS := c.adversary()
	if advDS == nil {
		return
	}
	st := ScenarioSigningTime
	h := c.ks.Hash
	f := func(name, note string, sod []byte, dgs map[int][]byte, trust [][]byte) *Scenario {
		return c.add("forgery", name, note, sod, dgs, trust)
	}

	s := c.base()
	s.SD.Signers[0].MessageDigest = Digest(h, []byte("other"))
	f("message-digest-mismatch", "messageDigest attribute is the digest of other content (signature over the attributes is valid)", c.sod(s), nil, nil)

	{
		dgs := copyDGs(c.dgs)
		dgs[2][10] ^= 0xff
		genuine := c.base()
		lso, err := genuine.LDSSecurityObject()
		c.fail(err)
		s := NewSODSpec(c.ds, dgs, st)
		s.SD.Signers[0].MessageDigest = Digest(h, lso)
		f("econtent-swapped-after-signing", "hash list recomputed for an altered DG2, signed attributes still those of the genuine hash list", c.sod(s), dgs, nil)
	}

	s = c.base()
	s.SD.Signers[0].ContentType = OIDData
	f("content-type-mismatch", "contentType attribute id-data instead of the eContentType", c.sod(s), nil, nil)
	s = c.base()
	s.SD.Signers[0].OmitContentType = true
	f("no-content-type-attr", "signed attributes without contentType", c.sod(s), nil, nil)
	s = c.base()
	s.SD.Signers[0].OmitMessageDigest = true
	f("no-message-digest-attr", "signed attributes without messageDigest", c.sod(s), nil, nil)

	s = c.base()
	s.SD.Signers[0].Key = advDS.Key
	f("signed-by-other-key", "signed with a foreign key, genuine DS certificate embedded", c.sod(s), nil, nil)

	f("adversary-ds-same-names", "adversary CSCA and DS with the genuine names, key identifiers and serial numbers; genuine CSCA in the store", c.sod(NewSODSpec(advDS, c.dgs, st)), nil, nil)

	s = c.base()
	s.SD.Signers[0].Key = advDS.Key
	s.SD.Certs = [][]byte{advDS.Cert, c.ds.Cert}
	f("both-ds-embedded-adversary-signs-with-genuine-sid", "adversary and genuine DS certificate embedded (same issuer and serial), signed with the adversary key", c.sod(s), nil, nil)

	{
		ca, err := NewCA(CertSpec{Rand: c.sub(61), Subject: DN("DE", "Evil", "CSCA"), KeySpec: c.ks, KeySlot: slotOtherCA})
		c.fail(err)
		if ca != nil {
			ds, err := ca.IssueDS(CertSpec{Subject: DN("DE", "Evil", "DS"), KeySlot: slotOtherDS})
			c.fail(err)
			if ds != nil {
				f("adversary-ca-in-store-other-country", "document of NLD signed under a C=DE CSCA that is in the trust store", c.sod(NewSODSpec(ds, c.dgs, st)), nil, [][]byte{c.csca.Cert, ca.Cert})
			}
		}
	}

	// two trust-store certificates with the SAME subject and subject key identifier but DIFFERENT keys: the sibling is not
	// a usable CA (no CA flag / expired before the signing time) and the signer certificate is signed with ITS key.
	// Eligibility and signature must be established for one and the same candidate, in either store order.
	for vi, variant := range []string{"not-a-ca", "expired"} {
		cs := CertSpec{Rand: c.sub(71 + int64(vi)), Subject: DN("NL", "State of the Netherlands", "CSCA NL"), KeySpec: c.ks, KeySlot: slotOtherCA, SKI: &KeyID{Value: c.csca.SKI}}
		if variant == "not-a-ca" {
			cs.BasicConstraints = &BasicConstraints{CA: false, Critical: true}
			cs.KeyUsage = &KeyUsage{Bits: []int{KUDigitalSignature}, Critical: true}
		} else {
			cs.NotBefore, cs.NotAfter = time.Date(2010, 1, 1, 0, 0, 0, 0, time.UTC), time.Date(2019, 1, 1, 0, 0, 0, 0, time.UTC)
		}
		sib, err := NewCA(cs)
		c.fail(err)
		if sib == nil {
			continue
		}
		ds, err := sib.IssueDS(CertSpec{Subject: DN("NL", "State of the Netherlands", "DS 1"), KeySlot: slotOtherDS})
		c.fail(err)
		if ds == nil {
			continue
		}
		f("same-ski-sibling-"+variant+"-signs-sibling-first", "trust store: a "+variant+" certificate with the CSCA's subject and key identifier but another key, then the CSCA; signer certificate signed with the sibling's key", c.sod(NewSODSpec(ds, c.dgs, st)), nil, [][]byte{sib.Cert, c.csca.Cert})
		f("same-ski-sibling-"+variant+"-signs-csca-first", "as before, CSCA first", c.sod(NewSODSpec(ds, c.dgs, st)), nil, [][]byte{c.csca.Cert, sib.Cert})
	}
	{
		// a CA certificate for a key of its own, subject C=NL, ISSUED by the CSCA of another country that is in the trust
		// store too: it is a certificate of that other country's PKI (the trust store is scoped by the issuing country)
		fr, err := NewCA(CertSpec{Rand: c.sub(81), Subject: DN("FR", "Other State", "CSCA FR"), KeySpec: c.ks, KeySlot: slotOtherCA})
		c.fail(err)
		if fr != nil {
			sub, err := fr.IssueCA(CertSpec{Subject: DN("NL", "State of the Netherlands", "CSCA NL"), KeySlot: slotOtherDS})
			c.fail(err)
			if sub != nil {
				ds, err := sub.IssueDS(CertSpec{Subject: DN("NL", "State of the Netherlands", "DS 1"), KeySlot: slotOtherDS + 1})
				c.fail(err)
				if ds != nil {
					f("ca-with-document-country-subject-issued-by-foreign-csca", "trust store: CSCA NL, CSCA FR, and a CA certificate with subject C=NL issued by CSCA FR; signer certificate under that CA", c.sod(NewSODSpec(ds, c.dgs, st)), nil, [][]byte{c.csca.Cert, fr.Cert, sub.Cert})
				}
			}
		}
	}
	{
		// a genuine signature LIFTED from the genuine hash list onto another one: the signed attributes carry two
		// messageDigest attributes - first the digest of the new hash list (what a "first of its type" lookup compares with
		// the content), last the genuine one (what the lifted signature covers once duplicates are collapsed or re-sorted)
		dgs := copyDGs(c.dgs)
		dgs[2] = append(append([]byte{}, dgs[2]...), 0x00)
		s := NewSODSpec(c.ds, dgs, st)
		b0 := c.base()
		if lso, err := b0.LDSSecurityObject(); err == nil {
			dig := s.SD.Signers[0].DigestAlg
			if dig == "" {
				dig = c.ks.Hash
			}
			s.SD.Signers[0].SignOverMessageDigest = Digest(dig, lso)
			f("signature-lifted-second-message-digest-attribute", "altered DG2 and hash list; signedAttrs = contentType, signingTime, messageDigest(new), messageDigest(genuine); signature valid over the genuine attribute set", c.sod(s), dgs, nil)
		}
	}
	f("ds-expired-at-signing-time", "signing time 2036-01-01, after the DS certificate's notAfter", c.sod(NewSODSpec(c.ds, c.dgs, time.Date(2036, 1, 1, 0, 0, 0, 0, time.UTC))), nil, nil)
	f("ds-not-yet-valid-at-signing-time", "signing time 2019-01-01, before the DS certificate's notBefore", c.sod(NewSODSpec(c.ds, c.dgs, time.Date(2019, 1, 1, 0, 0, 0, 0, time.UTC))), nil, nil)
	{
		ca, ds := c.reissue(func(s *CertSpec) {
			s.NotBefore, s.NotAfter = time.Date(2020, 1, 1, 0, 0, 0, 0, time.UTC), time.Date(2023, 1, 1, 0, 0, 0, 0, time.UTC)
		}, nil)
		f("csca-expired-at-signing-time", "CSCA certificate valid 2020..2023, signing time 2024", c.sod(NewSODSpec(ds, c.dgs, st)), nil, [][]byte{ca.Cert})
	}
	{
		nb, na := time.Date(1998, 1, 1, 0, 0, 0, 0, time.UTC), time.Date(1999, 1, 1, 0, 0, 0, 0, time.UTC)
		ca, ds := c.reissue(nil, func(s *CertSpec) { s.NotBefore, s.NotAfter = nb, na })
		f("ds-validity-utctime-1998-1999", "DS certificate valid 1998..1999 (UTCTime years 98/99), signing time 2024", c.sod(NewSODSpec(ds, c.dgs, st)), nil, [][]byte{ca.Cert})
	}
	{
		ca, ds := c.reissue(nil, func(s *CertSpec) { s.KeyUsage = &KeyUsage{Bits: []int{KUKeyEncipherment}, Critical: true} })
		f("ds-without-digital-signature", "DS keyUsage keyEncipherment only", c.sod(NewSODSpec(ds, c.dgs, st)), nil, [][]byte{ca.Cert})
	}
	{
		ca, ds := c.reissue(nil, func(s *CertSpec) {
			s.ExtraExtensions = []Extension{{OID: "1.2.3.4.5", Critical: true, Value: Null()}}
		})
		f("ds-unknown-critical-extension", "DS certificate with an unknown critical extension", c.sod(NewSODSpec(ds, c.dgs, st)), nil, [][]byte{ca.Cert})
	}
	{
		ca, ds := c.reissue(func(s *CertSpec) { s.KeyUsage = &KeyUsage{Bits: []int{KUCRLSign}, Critical: true} }, nil)
		f("ca-without-key-cert-sign", "CSCA keyUsage cRLSign only", c.sod(NewSODSpec(ds, c.dgs, st)), nil, [][]byte{ca.Cert})
	}
	{
		ca, ds := c.reissue(func(s *CertSpec) { s.BasicConstraints = &BasicConstraints{CA: false, Critical: true} }, nil)
		f("ca-false", "trust anchor with basicConstraints cA FALSE", c.sod(NewSODSpec(ds, c.dgs, st)), nil, [][]byte{ca.Cert})
	}
	{
		ca, ds := c.reissue(func(s *CertSpec) { s.BasicConstraints = &BasicConstraints{Absent: true} }, nil)
		f("ca-no-basic-constraints", "trust anchor without basicConstraints", c.sod(NewSODSpec(ds, c.dgs, st)), nil, [][]byte{ca.Cert})
	}
	{
		ca, ds := c.reissue(func(s *CertSpec) {
			s.ExtraExtensions = []Extension{{OID: "1.2.3.4.5", Critical: true, Value: Null()}}
		}, nil)
		f("ca-unknown-critical-extension", "trust anchor with an unknown critical extension", c.sod(NewSODSpec(ds, c.dgs, st)), nil, [][]byte{ca.Cert})
	}
	{
		dgs := copyDGs(c.dgs)
		dgs[14] = []byte{0x6e, 0x02, 0x31, 0x00}
		f("dg-injected-not-in-sod", "document carries a DG14 that the hash list does not mention", c.sod(c.base()), dgs, nil)
	}
	{
		dgs := copyDGs(c.dgs)
		dgs[1] = MakeDG1(MakeTD3MRZ("DEU", "L898902C3"))
		f("dg1-country-differs-from-certificates", "DG1 issuing state DEU (hash list matches), certificates C=NL", c.sod(NewSODSpec(c.ds, dgs, st)), dgs, nil)
	}
	for _, org := range []string{"UNO", "XOM", "EUE", "UTO", "XXA", "UNK"} {
		// issuing "state" without an ISO 3166 country (an organisation / a code reserved for other uses), holder's
		// nationality = the signer's country: there is no country the certificates could be "the same" as
		dgs := copyDGs(c.dgs)
		dgs[1] = MakeDG1(MakeTD3MRZNat(org, "NLD", "L898902C3"))
		f("dg1-issuer-"+org+"-no-country-nationality-matches-certificates", "DG1 issuing state "+org+" (no ISO 3166 country), nationality NLD, certificates C=NL", c.sod(NewSODSpec(c.ds, dgs, st)), dgs, nil)
	}
	{
		ca, ds := c.reissue(nil, func(s *CertSpec) { s.CorruptSignature = true })
		f("cert-signature-corrupted", "one bit of the DS certificate's signature flipped", c.sod(NewSODSpec(ds, c.dgs, st)), nil, [][]byte{ca.Cert})
	}
	{
		ca, ds := c.reissue(nil, func(s *CertSpec) { s.Issuer = DN("NL", "Someone else", "Other CA") })
		sc := f("ds-issuer-name-differs-from-csca-subject-aki-matches", "DS certificate names another issuer; AKI and signature are those of the CSCA in the store (RFC 5280 6.1.3 (a)(4))", c.sod(NewSODSpec(ds, c.dgs, st)), nil, [][]byte{ca.Cert})
		sc.KnownDeviation = "no-name-chaining"
	}
	{
		mls, err := c.csca.IssueMLSigner(CertSpec{Rand: c.sub(62), Subject: DN("NL", "State of the Netherlands", "MLS"), KeySlot: slotDS2})
		c.fail(err)
		if mls != nil {
			sc := f("sod-signed-by-master-list-signer", "EF.SOD signed with a master list signer certificate (critical extendedKeyUsage id-icao-cscaMasterListSigningKey, ICAO 9303-12 7.1.2)", c.sod(NewSODSpec(mls, c.dgs, st)), nil, nil)
			sc.KnownDeviation = "eku-not-enforced"
		}
	}
	if c.ks.Kind == "ecdsa" {
		for _, sz := range []string{"192", "224", "256", "384"} {
			if c.ks.Curve != "brainpoolP"+sz+"r1" {
				continue
			}
			r := new(big.Int).Add(CurveByName(c.ks.Curve).N, big.NewInt(5))
			if r.Cmp(CurveByName("P-"+sz).N) >= 0 {
				continue
			}
			s := c.base()
			s.SD.Signers[0].SignatureOverride = Seq(Int(r), Int(big.NewInt(7)))
			sc := f("ecdsa-r-between-curve-orders", "signature (r, s) with n("+c.ks.Curve+") <= r < n(P-"+sz+"): out of range for the key's curve, in range for the same-size NIST curve", c.sod(s), nil, nil)
			if sz == "192" {
				sc.KnownDeviation = "ecdsa-fallback-panic-p192"
			}
		}
	}
}

// ---------------------------------------------------------------------------
// probes
// ---------------------------------------------------------------------------

func (c *scen) probeScenarios() {
	st := ScenarioSigningTime
	h := c.ks.Hash
	p := func(name, note string, sod []byte, trust [][]byte) *Scenario {
		return c.add("probe", name, note, sod, nil, trust)
	}

	// --- signature algorithm encodings -------------------------------------------------
	if c.ks.Kind == "rsa-pss" {
		if h == "sha1" {
			a := SigAlg{Kind: "rsa-pss", Hash: "sha1", PSSExplicitDefaults: true}
			ca, ds := c.reissue(func(s *CertSpec) { s.SigAlg = &a }, func(s *CertSpec) { s.SigAlg = &a })
			s := NewSODSpec(ds, c.dgs, st)
			s.SD.Signers[0].SigAlg = &a
			p("pss-sha1-explicit-default-params", "PSS/SHA-1 parameters written out although equal to the DEFAULTs (not DER) in certificates and SignerInfo", c.sod(s), [][]byte{ca.Cert})
			s = c.base()
			s.SD.Signers[0].SigAlg = &a
			p("pss-sha1-der-default-params-in-certificates-only", "SignerInfo with explicit PSS/SHA-1 parameters, certificates with the DER form", c.sod(s), nil)
		}
		s := c.base()
		s.SD.Signers[0].SigAlg = &SigAlg{Kind: "rsa-pss", Hash: h, AlgIDOverride: SigAlg{Kind: "rsa-pss", Hash: h, SaltLen: 10}.AlgorithmIdentifier()}
		p("pss-declared-salt-length-wrong-signerinfo", "SignerInfo declares saltLength 10, the signature uses the hash length", c.sod(s), nil)
		s = c.base()
		s.SD.Signers[0].DigestAlg = otherHash(h)
		s.SD.Signers[0].SigAlg = &SigAlg{Kind: "rsa-pss", Hash: h}
		p("pss-declared-hash-differs-from-digest-algorithm", "signature made and declared with "+h+", SignerInfo.digestAlgorithm (and messageDigest) "+otherHash(h), c.sod(s), nil)
		k := c.ks
		k.PSSKeyOID = true
		ca, ds := c.reissue(nil, func(s *CertSpec) { s.Key = c.ds.Key.WithSpec(k) })
		p("pss-key-with-id-RSASSA-PSS-spki", "DS SubjectPublicKeyInfo algorithm id-RSASSA-PSS (RFC 4055) instead of rsaEncryption", c.sod(NewSODSpec(ds, c.dgs, st)), [][]byte{ca.Cert})
	}
	if c.ks.Kind == "rsa" {
		a := SigAlg{Kind: "rsa", Hash: h, OmitNull: true}
		ca, ds := c.reissue(func(s *CertSpec) { s.SigAlg = &a }, func(s *CertSpec) { s.SigAlg = &a })
		s := NewSODSpec(ds, c.dgs, st)
		s.SD.Signers[0].SigAlg = &a
		p("rsa-sigalg-without-null", "sha*WithRSAEncryption without the NULL parameters", c.sod(s), [][]byte{ca.Cert})
	}
	if c.ks.Kind == "ecdsa" {
		oh := otherHash(h)
		s := c.base()
		s.SD.Signers[0].DigestAlg = oh
		s.SD.Signers[0].SigAlg = &SigAlg{Kind: "ecdsa", Hash: oh, AlgIDOverride: SigAlg{Kind: "ecdsa", Hash: h}.AlgorithmIdentifier()}
		p("ecdsa-oid-hash-differs-from-digest-algorithm", "signed over the "+oh+" digest, labelled ecdsa-with-"+h+", digestAlgorithm "+oh, c.sod(s), nil)

		noCof := c.ks
		noCof.ExplicitParams, noCof.OmitCofactor = true, true
		ca, ds := c.reissue(func(s *CertSpec) { s.Key = c.csca.Key.WithSpec(noCof) }, func(s *CertSpec) { s.Key = c.ds.Key.WithSpec(noCof) })
		p("ec-explicit-params-without-cofactor", "explicit EC parameters without the OPTIONAL cofactor (ICAO 9303-12 requires it)", c.sod(NewSODSpec(ds, c.dgs, st)), [][]byte{ca.Cert})

		k := c.ds.Key
		pt := append([]byte{2 + byte(k.Y.Bit(0))}, fixedBytes(k.X, k.Curve.FieldLen())...)
		spki := Seq(AlgID(OIDECPublicKey, OID(k.Curve.OID)), BitString(pt, 0))
		ca, ds = c.reissue(nil, func(s *CertSpec) { s.SPKIOverride = spki })
		p("ec-compressed-public-key", "DS public key as compressed point (ICAO 9303-12 requires uncompressed)", c.sod(NewSODSpec(ds, c.dgs, st)), [][]byte{ca.Cert})

		twin := map[string]string{"P-192": "brainpoolP192r1", "P-224": "brainpoolP224r1", "P-256": "brainpoolP256r1", "P-384": "brainpoolP384r1",
			"brainpoolP192r1": "P-192", "brainpoolP224r1": "P-224", "brainpoolP256r1": "P-256", "brainpoolP384r1": "P-384"}
		if other, ok := twin[c.ks.Curve]; ok {
			ok2, err := GenerateKey(c.sub(70), KeySpec{Kind: "ecdsa", Curve: other, Hash: h})
			c.fail(err)
			if ok2 != nil {
				spki := Seq(AlgID(OIDECPublicKey, OID(CurveByName(c.ks.Curve).OID)), BitString(ok2.PublicKeyBits(), 0))
				ca, ds := c.reissue(nil, func(s *CertSpec) { s.Key = ok2; s.SPKIOverride = spki })
				p("ec-point-on-other-curve-than-declared", "DS key lives on "+other+" but the certificate declares "+c.ks.Curve, c.sod(NewSODSpec(ds, c.dgs, st)), [][]byte{ca.Cert})
			}
		}
	}

	// --- SignerIdentifier / embedded certificates -------------------------------------
	s := c.base()
	s.SD.Signers[0].SIDSerial = big.NewInt(12345)
	p("sid-points-nowhere-single-embedded-cert", "SID serial number matches no certificate; one certificate embedded", c.sod(s), nil)
	s = c.base()
	s.SD.Signers[0].SIDSerial = big.NewInt(12345)
	s.SD.Certs = [][]byte{c.ds.Cert, c.csca.Cert}
	p("sid-points-nowhere-two-embedded-certs", "SID serial number matches no certificate; DS and CSCA certificate embedded", c.sod(s), nil)
	s = c.base()
	s.SD.Certs = [][]byte{c.ds.Cert, c.ds.Cert}
	p("signer-cert-embedded-twice", "the DS certificate is embedded twice", c.sod(s), nil)
	s = c.base()
	s.SD.Signers[0].SIDIssuerRaw = Name{
		{OID: OIDCountry, Value: "NL", Type: Printable},
		{OID: OIDOrganization, Value: "STATE  of the netherlands", Type: Printable},
		{OID: OIDCommonName, Value: "csca nl", Type: Printable},
	}.DER()
	s.SD.Certs = [][]byte{c.ds.Cert, c.csca.Cert}
	p("sid-issuer-other-string-type-and-case", "SID issuer equals the certificate issuer under RFC 5280 7.1 only (PrintableString, other case and spacing)", c.sod(s), nil)
	s = c.base()
	s.SD.Signers[0].SIDIssuerRaw = Name{
		{OID: OIDCommonName, Value: "CSCA NL", Type: UTF8},
		{OID: OIDOrganization, Value: "State of the Netherlands", Type: UTF8},
		{OID: OIDCountry, Value: "NL", Type: Printable},
	}.DER()
	s.SD.Certs = [][]byte{c.ds.Cert, c.csca.Cert}
	p("sid-issuer-rdn-order-permuted", "SID issuer has the certificate issuer's RDNs in reverse order", c.sod(s), nil)
	s = c.base()
	s.SD.OmitCerts = true
	p("no-embedded-certificates", "SignedData without certificates field", c.sod(s), nil)

	// --- signed attributes / SignedData fields -----------------------------------------
	s = c.base()
	s.SD.Signers[0].KeepAttrOrder = true
	s.SD.Signers[0].ExtraSignedAttrs = []Attr{{OIDMsgDigest, [][]byte{OctetString(Digest(h, []byte("x")))}}}
	p("duplicate-signed-attrs-second-copy-differs", "second messageDigest attribute with another value after the correct one", c.sod(s), nil)
	s = c.base()
	s.SD.Signers[0].KeepAttrOrder = true
	s.SD.Signers[0].ExtraSignedAttrs = []Attr{{"1.2.3", [][]byte{Null()}}}
	p("signed-attrs-not-in-der-order", "signedAttrs not in DER SET OF order (signed as encoded)", c.sod(s), nil)
	s = c.base()
	s.SD.Signers[0].NoSignedAttrs = true
	p("no-signed-attrs", "no signedAttrs; signature directly over eContent (RFC 5652 requires signedAttrs for content types other than id-data)", c.sod(s), nil)
	s = c.base()
	s.SD.Trailing = []byte{0, 0, 0}
	p("trailing-bytes-after-sod", "three zero octets after the 0x77 element", c.sod(s), nil)
	s = c.base()
	s.SD.EmptyDigestAlgorithms = true
	p("empty-digest-algorithms-set", "SignedData.digestAlgorithms is empty", c.sod(s), nil)
	{
		hv := func(n int, v []byte) []byte { return Seq(IntN(int64(n)), OctetString(v)) }
		s = c.base()
		s.EContentOverride = Seq(IntN(0), AlgID(hashOIDs[h], nil), Seq(hv(1, Digest(h, c.dgs[1])), hv(2, Digest(h, c.dgs[2])), hv(2, Digest(h, []byte("other")))))
		p("duplicate-dg-number-second-entry-wrong", "hash list has two entries for DG2: the correct one, then a wrong one", c.sod(s), nil)
		s = c.base()
		s.EContentOverride = Seq(IntN(0), AlgID(hashOIDs[h], nil), Seq(hv(1, Digest(h, c.dgs[1])), hv(2, Digest(h, []byte("other"))), hv(2, Digest(h, c.dgs[2]))))
		p("duplicate-dg-number-first-entry-wrong", "hash list has two entries for DG2: a wrong one, then the correct one", c.sod(s), nil)
	}

	// --- certificate profile -------------------------------------------------------------
	ca, ds := c.reissue(nil, func(s *CertSpec) { s.KeyUsage = &KeyUsage{Absent: true} })
	p("ds-without-key-usage", "DS certificate without keyUsage (mandatory in ICAO 9303-12, optional in RFC 5280)", c.sod(NewSODSpec(ds, c.dgs, st)), [][]byte{ca.Cert})
	ca, ds = c.reissue(nil, func(s *CertSpec) { s.AKI = &KeyID{Absent: true} })
	p("ds-without-aki", "DS certificate without authorityKeyIdentifier", c.sod(NewSODSpec(ds, c.dgs, st)), [][]byte{ca.Cert})
	ca, ds = c.reissue(func(s *CertSpec) { s.SKI = &KeyID{Absent: true} }, nil)
	p("csca-without-ski", "CSCA certificate without subjectKeyIdentifier", c.sod(NewSODSpec(ds, c.dgs, st)), [][]byte{ca.Cert})
	ca, ds = c.reissue(func(s *CertSpec) { s.Version = 1 }, nil)
	p("csca-v1-no-extensions", "trust anchor is an X.509 v1 certificate", c.sod(NewSODSpec(ds, c.dgs, st)), [][]byte{ca.Cert})
	ca, ds = c.reissue(nil, func(s *CertSpec) {
		s.ExtraExtensions = []Extension{{OID: "1.2.3.4.5", Value: Null(), ExplicitFalse: true}}
	})
	p("ds-unknown-extension-critical-false-explicit", "DS certificate with an unknown extension whose critical FALSE is written out (BER, not DER)", c.sod(NewSODSpec(ds, c.dgs, st)), [][]byte{ca.Cert})
	ca, ds = c.reissue(func(s *CertSpec) { s.Subject = DN("nl", "State", "CSCA") }, func(s *CertSpec) { s.Subject = DN("nl", "State", "DS") })
	p("country-lower-case-in-certificates", "countryName \"nl\" in all certificates", c.sod(NewSODSpec(ds, c.dgs, st)), [][]byte{ca.Cert})
	ca, ds = c.reissue(nil, func(s *CertSpec) { s.EKU = []string{"1.3.6.1.5.5.7.3.1"}; s.EKUCritical = true })
	p("ds-with-critical-eku-unrelated", "DS certificate with critical extendedKeyUsage serverAuth", c.sod(NewSODSpec(ds, c.dgs, st)), [][]byte{ca.Cert})
	ca, ds = c.reissue(func(s *CertSpec) { s.EKU = []string{"1.3.6.1.5.5.7.3.1"}; s.EKUCritical = true }, nil)
	p("csca-critical-eku-without-any", "CSCA certificate with critical extendedKeyUsage serverAuth", c.sod(NewSODSpec(ds, c.dgs, st)), [][]byte{ca.Cert})
}

// ---------------------------------------------------------------------------
// entry points
// ---------------------------------------------------------------------------

// Scenarios returns every recipe for one key spec: the genuine base document and
// the elementary forgeries (BaseScenarios), every validity-irrelevant variant,
// documents with two SignerInfos, cross-signed CSCA pairs in both store orders,
// EF.CardSecurity genuine / forged, master lists genuine / forged, every
// forgery and every probe that applies to the key kind. All randomness derives
// from seed (RSA keys come from the package pool, see GenerateKeySlot).
func Scenarios(seed int64, ks KeySpec) ([]Scenario, error) {
	c, err := newScen(seed, ks)
	if err != nil {
		return nil, err
	}
	c.baseScenarios()
	c.variantScenarios()
	c.twoSignerScenarios()
	c.crossSignedScenarios()
	c.cardSecurityScenarios()
	c.masterListScenarios()
	c.forgeryScenarios()
	c.probeScenarios()
	if c.err != nil {
		return nil, c.err
	}
	seen := map[string]bool{}
	for _, s := range c.out {
		if seen[s.Name] {
			return nil, fmt.Errorf("pki: duplicate scenario name %s", s.Name)
		}
		seen[s.Name] = true
	}
	return c.out, nil
}

// Variant selects the validity-irrelevant dimensions of a genuine document.
type Variant struct {
	SIDSKI        bool // SignerIdentifier is subjectKeyIdentifier
	LDSv1         bool // LDSSecurityObject version 1 with ldsVersionInfo
	Indefinite    bool // BER indefinite-length form of ContentInfo .. eContent wrapper
	NoSigningTime bool // no signingTime attribute
	// Number of additional certificates embedded before / after the DS certificate:
	// the first is the CSCA certificate, further ones are other DS certificates of the same CSCA.
	ExtraCertsBefore, ExtraCertsAfter int
	// The trust store additionally holds a certificate for the CSCA key (same
	// subject, key and SKI) issued by the previous-generation CSCA, before / after
	// the self-signed CSCA certificate.
	CrossSignedFirst, CrossSignedSecond bool
	// All names (CSCA subject, DS issuer and subject, SID) are written CN, O, C instead
	// of C, O, CN. The order is the same everywhere: issuer fields are byte copies of
	// the issuer's subject as RFC 5280 wants it.
	RDNOrderPermuted bool
	// The SignerIdentifier (issuerAndSerialNumber) writes the issuer's attributes in the reverse order of the
	// DS certificate's issuer field ("attribute order inside names" does not affect validity).
	SIDIssuerReordered bool
	// Names repeat an attribute type: C, O, OU=Passports, OU=eMRTD, CN.
	RepeatedAttrType bool
	// The trust store additionally holds an earlier self-signed certificate of the SAME CSCA key and key identifier
	// that expired before the signing time (a re-issued root), before / after the valid one.
	ExpiredSameKeyAnchorFirst, ExpiredSameKeyAnchorSecond bool
	NameStringType   string // "printable" or "utf8" ("" = utf8) for O and CN; countryName is always PrintableString
	// Signing time exactly at the DS certificate's notBefore / notAfter (both are inside the validity period).
	SigningTimeAtNotBefore, SigningTimeAtNotAfter bool
	WithCardSecurity                              bool // add EF.CardSecurity by the same DS (always definite lengths)
}

func (v Variant) String() string {
	s := fmt.Sprintf("ski=%v,ldsv1=%v,indef=%v,nost=%v,before=%d,after=%d,x1=%v,x2=%v,perm=%v,str=%s,nb=%v,na=%v,cs=%v",
		v.SIDSKI, v.LDSv1, v.Indefinite, v.NoSigningTime, v.ExtraCertsBefore, v.ExtraCertsAfter, v.CrossSignedFirst, v.CrossSignedSecond,
		v.RDNOrderPermuted, v.NameStringType, v.SigningTimeAtNotBefore, v.SigningTimeAtNotAfter, v.WithCardSecurity)
	if v.SIDIssuerReordered || v.RepeatedAttrType || v.ExpiredSameKeyAnchorFirst || v.ExpiredSameKeyAnchorSecond {
		s += fmt.Sprintf(",sidreorder=%v,repeat=%v,old1=%v,old2=%v", v.SIDIssuerReordered, v.RepeatedAttrType, v.ExpiredSameKeyAnchorFirst, v.ExpiredSameKeyAnchorSecond)
	}
	return s
}

// GenuineScenario builds one correctly issued document. The CSCA is valid
// 2020-01-01 .. 2035-01-01, the DS 2021-01-01 .. 2031-01-01.
func GenuineScenario(seed int64, ks KeySpec, v Variant) (Scenario, error) {
	rnd := seeded(seed)
	st := Printable
	switch v.NameStringType {
	case "", "utf8":
		st = UTF8
	case "printable":
	default:
		return Scenario{}, fmt.Errorf("pki: NameStringType %q", v.NameStringType)
	}
	name := func(cn string) Name {
		n := Name{{OID: OIDCountry, Value: "NL", Type: Printable}, {OID: OIDOrganization, Value: "State of the Netherlands", Type: st}, {OID: OIDCommonName, Value: cn, Type: st}}
		if v.RepeatedAttrType {
			n = Name{n[0], n[1], {OID: OIDOrgUnit, Value: "Passports", Type: st}, {OID: OIDOrgUnit, Value: "eMRTD", Type: st}, n[2]}
		}
		if v.RDNOrderPermuted {
			n[0], n[len(n)-1] = n[len(n)-1], n[0]
		}
		return n
	}
	csca, err := NewCA(CertSpec{Rand: rnd, Subject: name("CSCA NL"), KeySpec: ks, KeySlot: slotCSCA})
	if err != nil {
		return Scenario{}, err
	}
	dsNB, dsNA := time.Date(2021, 1, 1, 0, 0, 0, 0, time.UTC), time.Date(2031, 1, 1, 0, 0, 0, 0, time.UTC)
	ds, err := csca.IssueDS(CertSpec{Subject: name("DS 1"), KeySlot: slotDS, NotBefore: dsNB, NotAfter: dsNA})
	if err != nil {
		return Scenario{}, err
	}
	dg2 := make([]byte, 300)
	if _, err := io.ReadFull(rnd, dg2); err != nil {
		return Scenario{}, err
	}
	dg2[0] = 0x75
	dgs := map[int][]byte{1: MakeDG1(MakeTD3MRZ("NLD", "L898902C3")), 2: dg2}

	t := ScenarioSigningTime
	if v.SigningTimeAtNotBefore {
		t = dsNB
	}
	if v.SigningTimeAtNotAfter {
		t = dsNA
	}
	spec := NewSODSpec(ds, dgs, t)
	sg := &spec.SD.Signers[0]
	if v.SIDSKI {
		sg.SID = SIDSubjectKeyID
	}
	if v.SIDIssuerReordered {
		rev := name("CSCA NL")
		for i, j := 0, len(rev)-1; i < j; i, j = i+1, j-1 {
			rev[i], rev[j] = rev[j], rev[i]
		}
		sg.SIDIssuerRaw = rev.DER()
	}
	if v.LDSv1 {
		spec.LDSVersion = 1
	}
	spec.SD.Indefinite = v.Indefinite
	if v.NoSigningTime {
		sg.SigningTime = nil
	}
	if v.ExtraCertsBefore > 0 || v.ExtraCertsAfter > 0 {
		extras := [][]byte{}
		for i := 0; i < v.ExtraCertsBefore+v.ExtraCertsAfter; i++ {
			if i == 0 {
				extras = append(extras, csca.Cert)
				continue
			}
			x, err := csca.IssueDS(CertSpec{Subject: name(fmt.Sprintf("DS extra %d", i)), KeySpec: KeySpec{Kind: "ecdsa", Curve: "P-256", Hash: "sha256"}})
			if err != nil {
				return Scenario{}, err
			}
			extras = append(extras, x.Cert)
		}
		certs := append([][]byte{}, extras[:v.ExtraCertsBefore]...)
		certs = append(certs, ds.Cert)
		certs = append(certs, extras[v.ExtraCertsBefore:]...)
		spec.SD.Certs = certs
	}
	sod, err := BuildSOD(spec)
	if err != nil {
		return Scenario{}, err
	}
	trust := [][]byte{csca.Cert}
	if v.CrossSignedFirst || v.CrossSignedSecond {
		old, err := NewCA(CertSpec{Rand: rnd, Subject: name("CSCA NL G1"), KeySpec: ks, KeySlot: slotOtherCA})
		if err != nil {
			return Scenario{}, err
		}
		cross, err := old.CrossSign(csca, CertSpec{})
		if err != nil {
			return Scenario{}, err
		}
		if v.CrossSignedFirst {
			trust = append([][]byte{cross.Cert}, trust...)
		}
		if v.CrossSignedSecond {
			trust = append(trust, cross.Cert)
		}
	}
	if v.ExpiredSameKeyAnchorFirst || v.ExpiredSameKeyAnchorSecond {
		old, err := NewCA(CertSpec{Rand: rnd, Subject: name("CSCA NL"), Key: csca.Key, SKI: &KeyID{Value: csca.SKI},
			NotBefore: time.Date(2010, 1, 1, 0, 0, 0, 0, time.UTC), NotAfter: time.Date(2020, 6, 1, 0, 0, 0, 0, time.UTC)})
		if err != nil {
			return Scenario{}, err
		}
		if v.ExpiredSameKeyAnchorFirst {
			trust = append([][]byte{old.Cert}, trust...)
		}
		if v.ExpiredSameKeyAnchorSecond {
			trust = append(trust, old.Cert)
		}
	}
	sc := Scenario{Name: "genuine/" + v.String(), Class: "genuine", Note: "correctly issued document, variant " + v.String(),
		SOD: sod, DGs: dgs, Trust: trust, KeySpec: ks}
	if v.WithCardSecurity {
		cst := t
		cs := NewCardSecuritySpec(ds, TestSecurityInfos(), cst)
		if v.NoSigningTime {
			cs.SD.Signers[0].SigningTime = nil
		}
		if v.SIDSKI {
			cs.SD.Signers[0].SID = SIDSubjectKeyID
		}
		if sc.CardSec, err = BuildCardSecurity(cs); err != nil {
			return Scenario{}, err
		}
	}
	if ks.Kind == "rsa-pss" && ks.Hash == "sha1" {
		sc.KnownDeviation = "pss-sha1-der-params"
	}
	return sc, nil
}
