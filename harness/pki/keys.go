package pki

import (
	"crypto/sha1"
	"fmt"
	"io"
	"math/big"
	mrand "math/rand"
	"sync"
)

// KeySpec describes a key pair and the signature scheme it is used with.
type KeySpec struct {
	Kind           string // "rsa" (PKCS#1 v1.5), "rsa-pss", "ecdsa"
	Bits           int    // RSA modulus size
	Curve          string // P-192 .. P-521, brainpoolP192r1 .. brainpoolP512r1
	ExplicitParams bool   // EC: encode the domain parameters explicitly (TR-03111) instead of a named-curve OID
	Hash           string // sha1, sha224, sha256, sha384, sha512

	// Rarely used knobs.
	OmitCofactor bool // EC explicit parameters without the OPTIONAL cofactor
	PSSKeyOID    bool // RSA-PSS: put id-RSASSA-PSS (RFC 4055) instead of rsaEncryption in SubjectPublicKeyInfo
}

func (s KeySpec) String() string {
	switch s.Kind {
	case "ecdsa":
		p := "named"
		if s.ExplicitParams {
			p = "explicit"
		}
		return fmt.Sprintf("ecdsa-%s-%s-%s", s.Curve, p, s.Hash)
	default:
		return fmt.Sprintf("%s-%d-%s", s.Kind, s.Bits, s.Hash)
	}
}

// RSAKey is an RSA private key (two primes).
type RSAKey struct {
	N, E, D, P, Q *big.Int
}

// KeyPair is a generated (or injected) key together with the spec that says how it is encoded and used.
type KeyPair struct {
	Spec  KeySpec
	RSA   *RSAKey  // Kind rsa / rsa-pss
	Curve *Curve   // Kind ecdsa
	D     *big.Int // EC private scalar
	X, Y  *big.Int // EC public point
}

// WithSpec returns a copy of the key pair that uses a different spec (e.g. the same
// RSA key once with PKCS#1 v1.5 and once with PSS, or an EC key re-encoded with
// explicit parameters). The key material is shared.
func (k *KeyPair) WithSpec(s KeySpec) *KeyPair {
	c := *k
	if s.Kind == "ecdsa" {
		s.Curve = k.Spec.Curve
	} else {
		s.Bits = k.Spec.Bits
	}
	c.Spec = s
	return &c
}

// ---------------------------------------------------------------------------
// generation
// ---------------------------------------------------------------------------

var (
	rsaPoolMu sync.Mutex
	rsaPool   = map[[2]int]*RSAKey{} // (bits, slot) -> key
)

// InjectRSAKey registers a pre-generated RSA key in the package pool under the
// given slot; later GenerateKeySlot calls for this modulus size and slot return it.
func InjectRSAKey(k *RSAKey, slot int) {
	rsaPoolMu.Lock()
	defer rsaPoolMu.Unlock()
	rsaPool[[2]int{k.N.BitLen(), slot}] = k
}

// NewRSAKeyFromPrimes builds an RSAKey from two primes and a public exponent.
func NewRSAKeyFromPrimes(p, q *big.Int, e int64) (*RSAKey, error) {
	one := big.NewInt(1)
	n := new(big.Int).Mul(p, q)
	phi := new(big.Int).Mul(new(big.Int).Sub(p, one), new(big.Int).Sub(q, one))
	E := big.NewInt(e)
	d := new(big.Int).ModInverse(E, phi)
	if d == nil {
		return nil, fmt.Errorf("pki: e not invertible")
	}
	return &RSAKey{N: n, E: E, D: d, P: p, Q: q}, nil
}

func genPrime(rnd io.Reader, bits int) (*big.Int, error) {
	buf := make([]byte, (bits+7)/8)
	for {
		if _, err := io.ReadFull(rnd, buf); err != nil {
			return nil, err
		}
		if ex := len(buf)*8 - bits; ex > 0 {
			buf[0] &= 0xff >> uint(ex)
		}
		p := new(big.Int).SetBytes(buf)
		p.SetBit(p, bits-1, 1)
		p.SetBit(p, bits-2, 1) // product of two such primes has exactly 2*bits bits
		p.SetBit(p, 0, 1)
		// walk forward a little before drawing again (keeps reader consumption low)
		for i := 0; i < 4096; i++ {
			if p.BitLen() != bits {
				break
			}
			if p.ProbablyPrime(20) {
				// e = 65537 must be invertible mod p-1
				m := new(big.Int).Mod(new(big.Int).Sub(p, big.NewInt(1)), big.NewInt(65537))
				if m.Sign() != 0 {
					return p, nil
				}
			}
			p.Add(p, big.NewInt(2))
		}
	}
}

// GenerateRSAKey generates a fresh RSA key of the given size from rnd (e = 65537).
// The result is a deterministic function of the bytes read from rnd.
func GenerateRSAKey(rnd io.Reader, bits int) (*RSAKey, error) {
	if bits < 512 || bits%2 != 0 {
		return nil, fmt.Errorf("pki: unsupported RSA size %d", bits)
	}
	for {
		p, err := genPrime(rnd, bits/2)
		if err != nil {
			return nil, err
		}
		q, err := genPrime(rnd, bits/2)
		if err != nil {
			return nil, err
		}
		if p.Cmp(q) == 0 {
			continue
		}
		k, err := NewRSAKeyFromPrimes(p, q, 65537)
		if err != nil {
			continue
		}
		if k.N.BitLen() != bits {
			continue
		}
		return k, nil
	}
}

// PooledRSAKey returns the pool's RSA key of the given size and slot, generating it on first use.
// Pool keys are the same in every process and for every seed (they depend on bits and slot only).
func PooledRSAKey(rnd io.Reader, bits, slot int) (*RSAKey, error) {
	rsaPoolMu.Lock()
	defer rsaPoolMu.Unlock()
	id := [2]int{bits, slot}
	if k, ok := rsaPool[id]; ok {
		return k, nil
	}
	// The pool key is generated from a fixed stream that depends only on (bits,
	// slot), not from rnd: whether the key already exists must not change how
	// many bytes the caller's stream has been advanced, otherwise objects built
	// from one seed would differ between the first and later uses of a slot.
	_ = rnd
	k, err := GenerateRSAKey(mrand.New(mrand.NewSource(int64(bits)*1000+int64(slot)+0x5ca1ab1e)), bits)
	if err != nil {
		return nil, err
	}
	rsaPool[id] = k
	return k, nil
}

// GenerateKey creates a key pair for spec. EC keys are always fresh (derived from
// rnd). RSA keys come from slot 0 of the package pool (one key per modulus size
// and slot, generated on first use) because RSA key generation is slow.
func GenerateKey(rnd io.Reader, spec KeySpec) (*KeyPair, error) {
	return generateKey(rnd, spec, 0)
}

// GenerateKeySlot is GenerateKey with an RSA pool slot: different slots give
// different RSA keys of the same size (e.g. slot 0 for the CSCA, 1 for the DS,
// 2 for an adversary), each generated once per process. EC keys are always fresh.
func GenerateKeySlot(rnd io.Reader, spec KeySpec, slot int) (*KeyPair, error) {
	return generateKey(rnd, spec, slot)
}

// GenerateFreshKey never uses the RSA pool.
func GenerateFreshKey(rnd io.Reader, spec KeySpec) (*KeyPair, error) {
	return generateKey(rnd, spec, -1)
}

func generateKey(rnd io.Reader, spec KeySpec, slot int) (*KeyPair, error) {
	if HashSize(spec.Hash) == 0 {
		return nil, fmt.Errorf("pki: unknown hash %q", spec.Hash)
	}
	switch spec.Kind {
	case "rsa", "rsa-pss":
		var k *RSAKey
		var err error
		if slot >= 0 {
			k, err = PooledRSAKey(rnd, spec.Bits, slot)
		} else {
			k, err = GenerateRSAKey(rnd, spec.Bits)
		}
		if err != nil {
			return nil, err
		}
		return &KeyPair{Spec: spec, RSA: k}, nil
	case "ecdsa":
		c := CurveByName(spec.Curve)
		if c == nil {
			return nil, fmt.Errorf("pki: unknown curve %q", spec.Curve)
		}
		d, err := c.randScalar(rnd)
		if err != nil {
			return nil, err
		}
		x, y, ok := c.ScalarBaseMult(d)
		if !ok {
			return nil, fmt.Errorf("pki: EC key generation failed")
		}
		return &KeyPair{Spec: spec, Curve: c, D: d, X: x, Y: y}, nil
	}
	return nil, fmt.Errorf("pki: unknown key kind %q", spec.Kind)
}

// ---------------------------------------------------------------------------
// SubjectPublicKeyInfo (RFC 5280 4.1.2.7, RFC 3279 2.3, RFC 5480 2)
// ---------------------------------------------------------------------------

// PublicKeyBits returns the content of the subjectPublicKey BIT STRING
// (RSAPublicKey DER, or the uncompressed EC point).
func (k *KeyPair) PublicKeyBits() []byte {
	if k.RSA != nil {
		return Seq(Int(k.RSA.N), Int(k.RSA.E))
	}
	return k.Curve.EncodePoint(k.X, k.Y)
}

// SPKI returns the DER SubjectPublicKeyInfo.
func (k *KeyPair) SPKI() []byte {
	if k.RSA != nil {
		alg := AlgID(OIDRSAEncryption, Null())
		if k.Spec.Kind == "rsa-pss" && k.Spec.PSSKeyOID {
			alg = AlgID(OIDRSASSAPSS, nil)
		}
		return Seq(alg, BitString(k.PublicKeyBits(), 0))
	}
	var params []byte
	if k.Spec.ExplicitParams {
		params = k.Curve.ExplicitParameters(ECParametersOpts{OmitCofactor: k.Spec.OmitCofactor})
	} else {
		params = OID(k.Curve.OID)
	}
	return Seq(AlgID(OIDECPublicKey, params), BitString(k.PublicKeyBits(), 0))
}

// KeyIdentifier is method (1) of RFC 5280 4.2.1.2: SHA-1 of the subjectPublicKey bits.
func (k *KeyPair) KeyIdentifier() []byte {
	h := sha1.Sum(k.PublicKeyBits())
	return h[:]
}

// ---------------------------------------------------------------------------
// profile matrix
// ---------------------------------------------------------------------------

// RSASizes are the RSA modulus sizes of the matrix (1024 only for speed).
var RSASizes = []int{1024, 2048, 3072, 4096}

// AllKeySpecs lists every key/scheme/hash combination the library under test
// claims to support: RSA PKCS#1 v1.5 and RSASSA-PSS over RSASizes, ECDSA over
// the NIST and brainpool curves with named and with explicit parameters, each
// with every hash (RSASSA-PSS uses MGF1 with the same hash, salt length = hash
// length, trailer 1; 1024-bit PSS with SHA-512 does not exist and is left out).
func AllKeySpecs() []KeySpec {
	var out []KeySpec
	for _, kind := range []string{"rsa", "rsa-pss"} {
		for _, bits := range RSASizes {
			for _, h := range Hashes {
				if kind == "rsa-pss" && bits == 1024 && h == "sha512" {
					continue // emLen 128 < hLen + sLen + 2 = 130: not encodable (RFC 8017 9.1.1)
				}
				out = append(out, KeySpec{Kind: kind, Bits: bits, Hash: h})
			}
		}
	}
	for _, c := range CurveNames {
		for _, explicit := range []bool{false, true} {
			for _, h := range Hashes {
				out = append(out, KeySpec{Kind: "ecdsa", Curve: c, ExplicitParams: explicit, Hash: h})
			}
		}
	}
	return out
}

// CoveringKeySpecs is a small subset of AllKeySpecs that touches every scheme,
// every curve family, both parameter encodings and every hash at least once.
func CoveringKeySpecs() []KeySpec {
	return []KeySpec{
		{Kind: "rsa", Bits: 2048, Hash: "sha256"},
		{Kind: "rsa", Bits: 1024, Hash: "sha1"},
		{Kind: "rsa-pss", Bits: 2048, Hash: "sha256"},
		{Kind: "rsa-pss", Bits: 1024, Hash: "sha384"},
		{Kind: "ecdsa", Curve: "P-256", Hash: "sha256"},
		{Kind: "ecdsa", Curve: "brainpoolP256r1", ExplicitParams: true, Hash: "sha256"},
		{Kind: "ecdsa", Curve: "P-521", Hash: "sha512"},
		{Kind: "ecdsa", Curve: "brainpoolP192r1", ExplicitParams: true, Hash: "sha1"},
		{Kind: "ecdsa", Curve: "brainpoolP192r1", ExplicitParams: true, Hash: "sha224"},
		{Kind: "ecdsa", Curve: "P-192", Hash: "sha256"},
		{Kind: "ecdsa", Curve: "P-224", ExplicitParams: true, Hash: "sha224"},
		{Kind: "ecdsa", Curve: "P-384", Hash: "sha384"},
		{Kind: "ecdsa", Curve: "brainpoolP384r1", Hash: "sha384"},
		{Kind: "ecdsa", Curve: "brainpoolP512r1", ExplicitParams: true, Hash: "sha512"},
	}
}
