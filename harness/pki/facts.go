package pki

import (
	"bytes"
	"crypto/sha256"
	"encoding/binary"
	"fmt"
	"math/big"
	"strings"
	"sync"
	"sync/atomic"
	"time"
)

// ---------------------------------------------------------------------------
// Atomic facts about a CMS object (EF.SOD, EF.CardSecurity, master list), its
// embedded certificates and a trust store, computed without the library under
// test. No fact is a verdict: combining them is the specification's job.
// ---------------------------------------------------------------------------

// Facts are the atomic facts about one CMS SignedData object.
type Facts struct {
	Parseable        bool     // ContentInfo / SignedData structure could be read
	InternalPanic    string   // non-empty if this package itself failed (a harness bug, never a fact about the input)
	Wrapped77        bool     // outermost element was the EF.SOD application tag 0x77
	Indefinite       bool     // some element on the ContentInfo .. eContent path uses the indefinite-length form
	TrailingBytes    int      // bytes after the outermost element
	Version          int      // SignedData.version
	DigestAlgorithms []string // SignedData.digestAlgorithms (names; OID for unknown ones)

	EContentType    string // dotted OID
	EContentPresent bool
	EContent        []byte

	// LDSSecurityObject (if eContent parses as one)
	LDSParseable       bool
	LDSVersion         int
	LDSVersionInfo     *[2]string
	DigestAlg          string         // LDSSecurityObject.hashAlgorithm (name, or dotted OID if unknown)
	HashList           map[int][]byte // data group number -> recorded hash (first entry if a number repeats)
	DuplicateDGNumbers bool
	DGHashOK           map[int]bool // for each supplied DG: hash of the supplied bytes equals the recorded value (missing entry => false)

	// CscaMasterList (if eContent parses as one)
	MasterListParseable bool
	MasterListVersion   int
	MasterListCerts     [][]byte

	Certs   []CertFacts   // embedded certificates, by position in SignedData.certificates
	Signers []SignerFacts // per SignerInfo

	// Copies of Signers[0] for the common single-signer case.
	SignedAttrsPresent bool
	ContentTypeOK      bool
	MessageDigestOK    bool
	SigningTime        *time.Time
}

// SignerFacts are the atomic facts about one SignerInfo.
type SignerFacts struct {
	Parseable        bool
	Version          int
	SIDForm          string // "issuerAndSerial", "ski", "" (unknown)
	SIDSerial        *big.Int
	SIDIssuerCountry string
	SIDSKI           []byte

	DigestAlg  string // SignerInfo.digestAlgorithm
	SigAlgOID  string
	SigAlgKind string // "rsa", "rsa-pss", "ecdsa", ""
	SigAlgHash string // hash named by signatureAlgorithm ("" if it names none, e.g. rsaEncryption)

	SignedAttrsPresent   bool
	SignedAttrsDER       bool     // signedAttrs as received are in DER (definite minimal lengths, SET OF order)
	SignedAttrOIDs       []string // attribute types in order of appearance
	DuplicateSignedAttrs bool
	ContentTypePresent   bool
	ContentType          string
	ContentTypeOK        bool // contentType attribute == eContentType
	MessageDigestPresent bool
	MessageDigest        []byte
	MessageDigestOK      bool // messageDigest attribute == DigestAlg(eContent actually present)
	SigningTimePresent   bool
	SigningTime          *time.Time // nil if absent or not decodable

	// MatchedEmbeddedCerts: indices of embedded certificates identified by the SID
	// (issuer per RFC 5280 7.1 name comparison + serial, or subjectKeyIdentifier).
	MatchedEmbeddedCerts []int
	// MatchedUnordered: as above but comparing the issuer as an unordered bag of attributes.
	MatchedUnordered []int
	// SigVerifiesUnder: indices of embedded certificates whose public key verifies the
	// signature, per signatureAlgorithm (hash from it, or from digestAlgorithm when it
	// names none), over the DER re-encoding of signedAttrs with tag 0x31, or over
	// eContent if there are no signedAttrs.
	SigVerifiesUnder []int
	// SigVerifiesUnderDigestAlg: the same, but the message hash is always taken from
	// SignerInfo.digestAlgorithm (RSASSA-PSS: MGF1 hash likewise, any salt length).
	SigVerifiesUnderDigestAlg []int
}

// CertFacts are the atomic facts about one certificate (embedded or trust store).
type CertFacts struct {
	Parseable             bool // TBSCertificate, SubjectPublicKeyInfo and signature value could be located
	NamesParseable        bool // issuer and subject are well-formed RDNSequences
	Raw                   []byte
	Version               int // 1..3
	Serial                *big.Int
	Issuer                string // readable form of the issuer, RDN order as encoded
	Subject               string
	IssuerRaw, SubjectRaw []byte
	Country               string // first countryName of the issuer
	SubjectCountry        string
	NotBefore, NotAfter   time.Time
	ValidityParseable     bool

	SPKI           []byte
	KeyKind        string // "rsa", "ec", ""
	KeyBits        int    // modulus / field size
	KeyCurve       string // known curve name, "custom" for unknown explicit parameters
	KeyExplicit    bool   // EC domain parameters given explicitly
	KeyParamsExact bool   // false: explicit parameters whose prime is that of KeyCurve but whose other components differ or are unreadable (the standard parameters are then used for verification)
	KeyValid       bool   // key decodes (EC: point on the declared curve)

	SigAlgOID      string
	SigAlgHash     string
	SigAlgMismatch bool // tbsCertificate.signature differs from signatureAlgorithm

	HasExtensions             bool
	DuplicateExtensions       bool
	HasBasicConstraints       bool
	BasicConstraintsCritical  bool
	BasicConstraintsMalformed bool
	IsCA                      bool
	PathLen                   int // -1 if absent
	HasKeyUsage               bool
	KeyUsageCritical          bool
	KeyUsageMalformed         bool
	KUDigitalSignature        bool
	KUKeyCertSign             bool
	KUCRLSign                 bool
	KeyUsageBits              []int
	HasEKU                    bool
	EKUCritical               bool
	EKU                       []string
	CriticalExtOIDs           []string
	UnknownCriticalExt        bool   // a critical extension outside KnownExtensionOIDs
	SKI                       []byte // nil if absent
	AKI                       []byte // authorityKeyIdentifier.keyIdentifier, nil if absent

	SelfIssued bool // issuer == subject (RFC 5280 7.1 comparison)
	SelfSigned bool // SelfIssued and the signature verifies under the certificate's own key

	// Relative to the trust store passed to ComputeFacts:
	ChainsTo []int // trust store certificates whose key verifies this certificate's signature (per signatureAlgorithm incl. all RSASSA-PSS parameters)
	// ChainsToLenient: as ChainsTo, but for RSASSA-PSS only the hashAlgorithm parameter is
	// honoured (MGF1 with the same hash, any salt length, trailer not looked at). Superset of ChainsTo.
	ChainsToLenient []int
	AKIMatches      []int // trust store certificates whose SKI equals this certificate's AKI
	IssuerMatches   []int // trust store certificates whose subject equals this certificate's issuer
	InTrustStore    []int // trust store certificates byte-identical to this one
}

// AnchorFacts are the facts about a trust store entry.
type AnchorFacts = CertFacts

// KnownExtensionOIDs is the set of extensions of the ICAO 9303-12 certificate
// profiles (RFC 5280 extensions plus the two ICAO private ones). A critical
// extension outside this set sets CertFacts.UnknownCriticalExt.
var KnownExtensionOIDs = map[string]bool{
	OIDExtAKI: true, OIDExtSKI: true, OIDExtKeyUsage: true, OIDExtPrivKeyUsage: true,
	OIDExtCertPolicies: true, OIDExtSubjectAltName: true, OIDExtIssuerAltName: true,
	OIDExtBasicConstraints: true, OIDExtCRLDP: true, OIDExtEKU: true,
}

// ComputeFacts computes the facts about a CMS object. dgs maps data group
// numbers to file contents; trustStore is a list of certificate DER encodings.
func ComputeFacts(sodOrCms []byte, dgs map[int][]byte, trustStore [][]byte) (f *Facts, anchors []AnchorFacts) {
	f = &Facts{HashList: map[int][]byte{}, DGHashOK: map[int]bool{}}
	defer func() {
		if r := recover(); r != nil {
			f.InternalPanic = fmt.Sprint(r)
			f.Parseable = false
		}
	}()
	anchorInfo := make([]*certInfo, len(trustStore))
	anchors = make([]AnchorFacts, len(trustStore))
	for i, der := range trustStore {
		anchorInfo[i] = parseCertificate(der)
		anchors[i] = anchorInfo[i].facts(anchorInfo)
	}
	for n := range dgs {
		f.DGHashOK[n] = false
	}
	computeFacts(f, sodOrCms, dgs, anchorInfo)
	return f, anchors
}

// CertificateFacts computes the facts about a single certificate relative to a trust store.
func CertificateFacts(cert []byte, trustStore [][]byte) CertFacts {
	anchorInfo := make([]*certInfo, len(trustStore))
	for i, der := range trustStore {
		anchorInfo[i] = parseCertificate(der)
	}
	return parseCertificate(cert).facts(anchorInfo)
}

func algName(oid string) string {
	if n, ok := hashByOID[oid]; ok {
		return n
	}
	return oid
}

// algID splits an AlgorithmIdentifier element.
func algIDParts(n *node) (oid string, params *node, ok bool) {
	if !n.isU(0x10) || !n.cons {
		return "", nil, false
	}
	ks, _ := n.kids(0)
	if len(ks) < 1 {
		return "", nil, false
	}
	oid = ks[0].oid()
	if oid == "" {
		return "", nil, false
	}
	if len(ks) > 1 {
		params = ks[1]
	}
	return oid, params, true
}

func computeFacts(f *Facts, data []byte, dgs map[int][]byte, anchors []*certInfo) {
	top, trailing, err := parseAll(data)
	if err != nil {
		return
	}
	f.TrailingBytes = trailing
	indef := top.indef
	if top.class == 1 && top.tag == 23 && top.cons {
		f.Wrapped77 = true
		ks, _ := top.kids(0)
		if len(ks) < 1 {
			return
		}
		top = ks[0]
		indef = indef || top.indef
	}
	if !top.isU(0x10) || !top.cons {
		return
	}
	ci, _ := top.kids(0)
	if len(ci) < 2 || ci[0].oid() != OIDSignedData || !ci[1].isC(0) || !ci[1].cons {
		return
	}
	indef = indef || ci[1].indef
	c0, _ := ci[1].kids(0)
	if len(c0) < 1 || !c0[0].isU(0x10) || !c0[0].cons {
		return
	}
	indef = indef || c0[0].indef
	sd, _ := c0[0].kids(0)
	// version, digestAlgorithms, encapContentInfo, [0] certs, [1] crls, signerInfos
	if len(sd) < 4 {
		return
	}
	v, ok := sd[0].smallInt()
	if !ok || !sd[0].isU(tagInteger) {
		return
	}
	f.Version = v
	if !sd[1].isU(0x11) || !sd[1].cons {
		return
	}
	das, _ := sd[1].kids(0)
	for _, d := range das {
		if o, _, ok := algIDParts(d); ok {
			f.DigestAlgorithms = append(f.DigestAlgorithms, algName(o))
		}
	}
	if !sd[2].isU(0x10) || !sd[2].cons {
		return
	}
	indef = indef || sd[2].indef
	eci, _ := sd[2].kidsExplicit(0, func(idx, tag int) bool { return idx == 1 && tag == 0 })
	if len(eci) < 1 || eci[0].oid() == "" {
		return
	}
	f.EContentType = eci[0].oid()
	if len(eci) > 1 && eci[1].isC(0) && eci[1].cons {
		indef = indef || eci[1].indef
		ec, _ := eci[1].kids(0)
		if len(ec) >= 1 && ec[0].isU(tagOctetString) {
			if b, ok := ec[0].octets(0); ok {
				indef = indef || ec[0].indef
				f.EContentPresent = true
				f.EContent = b
			}
		}
	}
	f.Indefinite = indef

	var certsNode, sisNode *node
	for _, n := range sd[3:] {
		switch {
		case n.isC(0) && certsNode == nil && sisNode == nil:
			certsNode = n
		case n.isC(1) && sisNode == nil:
			// crls: ignored
		case n.isU(0x11) && n.cons && sisNode == nil:
			sisNode = n
		}
	}
	if sisNode == nil {
		return
	}
	f.Parseable = true

	// embedded certificates
	var embedded []*certInfo
	if certsNode != nil {
		cs, _ := certsNode.kidsAny(0)
		for _, c := range cs {
			embedded = append(embedded, parseCertificateNode(c))
		}
	}
	for _, c := range embedded {
		f.Certs = append(f.Certs, c.facts(anchors))
	}

	// eContent interpretations
	if f.EContentPresent {
		parseLDS(f, dgs)
		parseMasterList(f)
	}

	// signer infos
	sis, _ := sisNode.kids(0)
	for _, si := range sis {
		f.Signers = append(f.Signers, signerFacts(f, si, embedded))
	}
	if len(f.Signers) > 0 {
		s := f.Signers[0]
		f.SignedAttrsPresent = s.SignedAttrsPresent
		f.ContentTypeOK = s.ContentTypeOK
		f.MessageDigestOK = s.MessageDigestOK
		f.SigningTime = s.SigningTime
	}
}

func parseLDS(f *Facts, dgs map[int][]byte) {
	n, trailing, err := parseAll(f.EContent)
	if err != nil || trailing != 0 || !n.isU(0x10) || !n.cons {
		return
	}
	ks, err := n.kids(0)
	if err != nil || len(ks) < 3 || len(ks) > 4 {
		return
	}
	v, ok := ks[0].smallInt()
	if !ok || !ks[0].isU(tagInteger) {
		return
	}
	o, _, ok := algIDParts(ks[1])
	if !ok {
		return
	}
	if !ks[2].isU(0x10) || !ks[2].cons {
		return
	}
	hs, err := ks[2].kids(0)
	if err != nil {
		return
	}
	list := map[int][]byte{}
	dup := false
	for _, h := range hs {
		if !h.isU(0x10) || !h.cons {
			return
		}
		p, err := h.kids(0)
		if err != nil || len(p) != 2 || !p[0].isU(tagInteger) || !p[1].isU(tagOctetString) {
			return
		}
		num, ok := p[0].smallInt()
		if !ok {
			return
		}
		val, ok := p[1].octets(0)
		if !ok {
			return
		}
		if _, seen := list[num]; seen {
			dup = true
			continue
		}
		list[num] = val
	}
	if len(ks) == 4 {
		if !ks[3].isU(0x10) || !ks[3].cons {
			return
		}
		vi, err := ks[3].kids(0)
		if err != nil || len(vi) != 2 || vi[0].cons || vi[1].cons {
			return
		}
		f.LDSVersionInfo = &[2]string{string(vi[0].body), string(vi[1].body)}
	}
	f.LDSParseable = true
	f.LDSVersion = v
	f.DigestAlg = algName(o)
	f.HashList = list
	f.DuplicateDGNumbers = dup
	for num, data := range dgs {
		rec, ok := list[num]
		d := Digest(f.DigestAlg, data)
		f.DGHashOK[num] = ok && d != nil && bytes.Equal(rec, d)
	}
}

func parseMasterList(f *Facts) {
	n, trailing, err := parseAll(f.EContent)
	if err != nil || trailing != 0 || !n.isU(0x10) || !n.cons {
		return
	}
	ks, err := n.kids(0)
	if err != nil || len(ks) != 2 || !ks[0].isU(tagInteger) || !ks[1].isU(0x11) || !ks[1].cons {
		return
	}
	v, ok := ks[0].smallInt()
	if !ok {
		return
	}
	cs, err := ks[1].kids(0)
	if err != nil {
		return
	}
	var certs [][]byte
	for _, c := range cs {
		if !c.isU(0x10) || !c.cons {
			return
		}
		certs = append(certs, c.full)
	}
	f.MasterListParseable = true
	f.MasterListVersion = v
	f.MasterListCerts = certs
}

func signerFacts(f *Facts, si *node, embedded []*certInfo) (s SignerFacts) {
	if !si.isU(0x10) || !si.cons {
		return
	}
	ks, _ := si.kids(0)
	if len(ks) < 5 {
		return
	}
	v, ok := ks[0].smallInt()
	if !ok || !ks[0].isU(tagInteger) {
		return
	}
	s.Version = v

	// sid
	sid := ks[1]
	var sidIssuer *nameInfo
	switch {
	case sid.isU(0x10) && sid.cons:
		p, _ := sid.kids(0)
		if len(p) == 2 && p[0].isU(0x10) && p[1].isU(tagInteger) {
			if ser, ok := p[1].integer(); ok {
				s.SIDForm = "issuerAndSerial"
				s.SIDSerial = ser
				sidIssuer = parseName(p[0])
				s.SIDIssuerCountry = sidIssuer.country()
			}
		}
	case sid.isC(0):
		if b, ok := sid.octets(0); ok {
			s.SIDForm = "ski"
			s.SIDSKI = b
		}
	}

	o, _, ok := algIDParts(ks[2])
	if !ok {
		return
	}
	s.DigestAlg = algName(o)

	idx := 3
	var signedAttrs *node
	if ks[idx].isC(0) && ks[idx].cons {
		signedAttrs = ks[idx]
		idx++
	}
	if len(ks) < idx+2 {
		return
	}
	sigAlg := ks[idx]
	so, _, ok := algIDParts(sigAlg)
	if !ok {
		return
	}
	s.SigAlgOID = so
	if info, ok := sigOIDInfo[so]; ok {
		s.SigAlgKind, s.SigAlgHash = info[0], info[1]
		if s.SigAlgKind == "rsa-pss" {
			if p, ok := parsePSSParams(sigAlg); ok {
				s.SigAlgHash = p.hash
			}
		}
	}
	if !ks[idx+1].isU(tagOctetString) {
		return
	}
	sig, ok := ks[idx+1].octets(0)
	if !ok {
		return
	}
	s.Parseable = true

	// signed attributes
	var signed []byte
	if signedAttrs != nil {
		s.SignedAttrsPresent = true
		attrs, aerr := signedAttrs.kids(0)
		seen := map[string]bool{}
		for _, a := range attrs {
			if !a.isU(0x10) || !a.cons {
				continue
			}
			p, _ := a.kids(0)
			if len(p) < 2 || p[0].oid() == "" || !p[1].isU(0x11) || !p[1].cons {
				continue
			}
			t := p[0].oid()
			s.SignedAttrOIDs = append(s.SignedAttrOIDs, t)
			if seen[t] {
				s.DuplicateSignedAttrs = true
				continue // first instance wins
			}
			seen[t] = true
			vals, _ := p[1].kids(0)
			if len(vals) < 1 {
				continue
			}
			switch t {
			case OIDContentType:
				s.ContentTypePresent = true
				s.ContentType = vals[0].oid()
				s.ContentTypeOK = s.ContentType != "" && s.ContentType == f.EContentType && len(vals) == 1
			case OIDMsgDigest:
				s.MessageDigestPresent = true
				if b, ok := vals[0].octets(0); ok && vals[0].isU(tagOctetString) {
					s.MessageDigest = b
					if f.EContentPresent && len(vals) == 1 {
						d := Digest(s.DigestAlg, f.EContent)
						s.MessageDigestOK = d != nil && bytes.Equal(d, b)
					}
				}
			case OIDSigningTime:
				s.SigningTimePresent = true
				if t, ok := vals[0].timeValue(); ok && len(vals) == 1 {
					tt := t
					s.SigningTime = &tt
				}
			}
		}
		// DER re-encoding with the SET OF tag
		var content []byte
		if aerr != nil {
			content = signedAttrs.body
		} else {
			for _, a := range attrs {
				content = append(content, a.toDER(0)...)
			}
		}
		signed = TLV(tagSet, content)
		// received form already DER?
		asRecv := append([]byte{tagSet}, signedAttrs.full[len(signedAttrs.id):]...)
		sorted := true
		for i := 1; i < len(attrs); i++ {
			if bytes.Compare(attrs[i-1].full, attrs[i].full) > 0 {
				sorted = false
			}
		}
		s.SignedAttrsDER = aerr == nil && sorted && bytes.Equal(asRecv, signed)
	} else if f.EContentPresent {
		signed = f.EContent
	}

	// SID matches and signature checks
	for i, c := range embedded {
		if c == nil || !c.ok {
			continue
		}
		switch s.SIDForm {
		case "issuerAndSerial":
			if c.serial != nil && c.serial.Cmp(s.SIDSerial) == 0 {
				if bytes.Equal(c.issuerRaw, sidIssuer.raw) || namesEqual(c.issuer, sidIssuer, true) {
					s.MatchedEmbeddedCerts = append(s.MatchedEmbeddedCerts, i)
				}
				if bytes.Equal(c.issuerRaw, sidIssuer.raw) || namesEqual(c.issuer, sidIssuer, false) {
					s.MatchedUnordered = append(s.MatchedUnordered, i)
				}
			}
		case "ski":
			if c.ski != nil && bytes.Equal(c.ski, s.SIDSKI) {
				s.MatchedEmbeddedCerts = append(s.MatchedEmbeddedCerts, i)
				s.MatchedUnordered = append(s.MatchedUnordered, i)
			}
		}
		if signed != nil {
			if verifySig(c.spki, sigAlg.full, s.DigestAlg, false, signed, sig) {
				s.SigVerifiesUnder = append(s.SigVerifiesUnder, i)
			}
			if verifySig(c.spki, sigAlg.full, s.DigestAlg, true, signed, sig) {
				s.SigVerifiesUnderDigestAlg = append(s.SigVerifiesUnderDigestAlg, i)
			}
		}
	}
	return s
}

// ---------------------------------------------------------------------------
// names
// ---------------------------------------------------------------------------

type atvInfo struct {
	oid   string
	tag   int
	class int
	value []byte // contents octets
	full  []byte
}

type nameInfo struct {
	ok   bool
	raw  []byte
	rdns [][]atvInfo
}

func parseName(n *node) *nameInfo {
	out := &nameInfo{}
	if n == nil {
		return out
	}
	out.raw = n.full
	if !n.cons { // the outer tag is not looked at (raw value in lenient decoders)
		return out
	}
	rdns, err := n.kids(0)
	if err != nil {
		return out
	}
	for _, r := range rdns {
		if !r.isU(0x11) || !r.cons {
			return out
		}
		atvs, err := r.kids(0)
		if err != nil {
			return out
		}
		var set []atvInfo
		for _, a := range atvs {
			if !a.isU(0x10) || !a.cons {
				return out
			}
			p, err := a.kids(0)
			if err != nil || len(p) != 2 || p[0].oid() == "" {
				return out
			}
			set = append(set, atvInfo{oid: p[0].oid(), tag: p[1].tag, class: p[1].class, value: p[1].body, full: p[1].full})
		}
		out.rdns = append(out.rdns, set)
	}
	out.ok = true
	return out
}

func (n *nameInfo) country() string {
	if n == nil {
		return ""
	}
	for _, r := range n.rdns {
		for _, a := range r {
			if a.oid == OIDCountry {
				return string(a.value)
			}
		}
	}
	return ""
}

func (n *nameInfo) String() string {
	if n == nil || !n.ok {
		return ""
	}
	short := map[string]string{}
	for k, v := range shortNames {
		short[v] = k
	}
	var parts []string
	for _, r := range n.rdns {
		var ps []string
		for _, a := range r {
			k, ok := short[a.oid]
			if !ok {
				k = a.oid
			}
			ps = append(ps, k+"="+a.text())
		}
		parts = append(parts, strings.Join(ps, "+"))
	}
	return strings.Join(parts, ",")
}

func (a atvInfo) text() string {
	if a.class == 0 && a.tag == tagBMPString && len(a.value)%2 == 0 {
		var rs []rune
		for i := 0; i+1 < len(a.value); i += 2 {
			rs = append(rs, rune(a.value[i])<<8|rune(a.value[i+1]))
		}
		return string(rs)
	}
	return string(a.value)
}

func (a atvInfo) isString() bool {
	if a.class != 0 {
		return false
	}
	switch a.tag {
	case tagUTF8String, tagPrintableString, tagIA5String, tagT61String, tagBMPString, 0x1b /* GeneralString */, 0x1a /* VisibleString */ :
		return true
	}
	return false
}

// atvEqual compares attribute values per RFC 5280 7.1: string types are compared
// case-insensitively with insignificant white space compressed; other values bitwise.
func atvEqual(a, b atvInfo) bool {
	if a.oid != b.oid {
		return false
	}
	if bytes.Equal(a.full, b.full) {
		return true
	}
	if a.isString() && b.isString() {
		na := strings.ToLower(strings.Join(strings.Fields(a.text()), " "))
		nb := strings.ToLower(strings.Join(strings.Fields(b.text()), " "))
		return na == nb
	}
	return false
}

func bagEqual(a, b []atvInfo) bool {
	if len(a) != len(b) {
		return false
	}
	used := make([]bool, len(b))
	for _, x := range a {
		found := false
		for j, y := range b {
			if !used[j] && atvEqual(x, y) {
				used[j] = true
				found = true
				break
			}
		}
		if !found {
			return false
		}
	}
	return true
}

// namesEqual compares two names. ordered: RDN by RDN in sequence (RFC 5280
// 7.1); otherwise all attributes as one unordered bag.
func namesEqual(a, b *nameInfo, ordered bool) bool {
	if a == nil || b == nil || !a.ok || !b.ok {
		return false
	}
	if ordered {
		if len(a.rdns) != len(b.rdns) {
			return false
		}
		for i := range a.rdns {
			if !bagEqual(a.rdns[i], b.rdns[i]) {
				return false
			}
		}
		return true
	}
	var fa, fb []atvInfo
	for _, r := range a.rdns {
		fa = append(fa, r...)
	}
	for _, r := range b.rdns {
		fb = append(fb, r...)
	}
	return bagEqual(fa, fb)
}

// ---------------------------------------------------------------------------
// certificates
// ---------------------------------------------------------------------------

type extInfo struct {
	oid      string
	critical bool
	value    []byte
}

type certInfo struct {
	ok                    bool
	raw                   []byte
	tbs                   []byte // TBSCertificate as received (what is signed)
	version               int
	serial                *big.Int
	innerAlg              []byte
	outerAlg              []byte
	sig                   []byte
	issuerRaw, subjectRaw []byte
	issuer, subject       *nameInfo
	nb, na                time.Time
	timeOK                bool
	spki                  []byte
	hasExts               bool
	exts                  []extInfo
	ski                   []byte
}

func parseCertificate(der []byte) *certInfo {
	n, trailing, err := parseAll(der)
	if err != nil || trailing != 0 {
		return &certInfo{raw: der}
	}
	return parseCertificateNode(n)
}

// parseCertificateNode reads a certificate leniently. The certificate counts as
// parseable as soon as the three parts every fact rests on can be located: the
// TBSCertificate, the SubjectPublicKeyInfo element and the signature value. Any
// other field that is odd (version out of range, serial not an INTEGER, a name
// with an unexpected tag, undecodable times, a malformed extension) only
// degrades the corresponding facts to their neutral values, because decoders
// built on Go's encoding/asn1 read those fields as raw values and go on.
func parseCertificateNode(n *node) *certInfo {
	c := &certInfo{raw: n.full, version: 1, issuer: &nameInfo{}, subject: &nameInfo{}}
	if !n.cons {
		return c
	}
	ks, _ := n.kids(0)
	if len(ks) < 3 || !ks[0].cons || !ks[2].isU(tagBitString) {
		return c
	}
	c.tbs = ks[0].full
	c.outerAlg = ks[1].full
	// (a non-zero unused-bits count with zero padding is tolerated: the octets are what is verified)
	sig, _, ok := ks[2].bitString()
	if !ok {
		return c
	}
	c.sig = sig
	t, _ := ks[0].kidsExplicit(0, func(idx, tag int) bool { return (idx == 0 && tag == 0) || tag == 3 })
	i := 0
	if len(t) > 0 && t[0].isC(0) && t[0].cons {
		if v, _ := t[0].kids(0); len(v) >= 1 {
			if ver, ok := v[0].smallInt(); ok {
				c.version = ver + 1
			}
		}
		i = 1
	}
	if len(t) < i+6 {
		return c
	}
	if ser, ok := t[i].integer(); ok && t[i].isU(tagInteger) {
		c.serial = ser
	}
	c.innerAlg = t[i+1].full
	c.issuerRaw = t[i+2].full
	c.issuer = parseName(t[i+2])
	if t[i+3].cons {
		if val, _ := t[i+3].kids(0); len(val) >= 2 {
			nb, ok1 := val[0].timeValue()
			na, ok2 := val[1].timeValue()
			if ok1 && ok2 {
				c.nb, c.na, c.timeOK = nb, na, true
			}
		}
	}
	c.subjectRaw = t[i+4].full
	c.subject = parseName(t[i+4])
	c.spki = t[i+5].full
	c.ok = true
	for _, e := range t[i+6:] {
		if !e.isC(3) || !e.cons || c.hasExts {
			continue
		}
		w, _ := e.kids(0)
		if len(w) < 1 || !w[0].cons {
			continue
		}
		es, _ := w[0].kids(0)
		c.hasExts = true
		for _, x := range es {
			if !x.cons {
				continue
			}
			p, _ := x.kids(0)
			if len(p) < 2 || p[0].oid() == "" {
				continue
			}
			ei := extInfo{oid: p[0].oid()}
			vi := 1
			if len(p) >= 3 && p[1].isU(tagBoolean) {
				for _, b := range p[1].body {
					if b != 0 {
						ei.critical = true
					}
				}
				vi = 2
			}
			// extnValue: the contents octets whatever the tag says
			v, ok := p[vi].octets(0)
			if !ok {
				v = p[vi].body
			}
			ei.value = v
			c.exts = append(c.exts, ei)
		}
	}
	if e := c.ext(OIDExtSKI); e != nil {
		if n, tr, err := parseAll(e.value); err == nil && tr == 0 && n.isU(tagOctetString) {
			if b, ok := n.octets(0); ok {
				c.ski = b
				if c.ski == nil {
					c.ski = []byte{}
				}
			}
		}
	}
	return c
}

func (c *certInfo) ext(oid string) *extInfo {
	for i := range c.exts {
		if c.exts[i].oid == oid {
			return &c.exts[i]
		}
	}
	return nil
}

func (c *certInfo) facts(anchors []*certInfo) CertFacts {
	f := CertFacts{Raw: c.raw, PathLen: -1}
	if !c.ok {
		return f
	}
	f.Parseable = true
	f.NamesParseable = c.issuer.ok && c.subject.ok
	f.Version = c.version
	f.Serial = c.serial
	f.Issuer, f.Subject = c.issuer.String(), c.subject.String()
	f.IssuerRaw, f.SubjectRaw = c.issuerRaw, c.subjectRaw
	f.Country, f.SubjectCountry = c.issuer.country(), c.subject.country()
	f.NotBefore, f.NotAfter, f.ValidityParseable = c.nb, c.na, c.timeOK
	f.SPKI = c.spki
	if pk := parseSPKI(c.spki); pk != nil {
		f.KeyKind, f.KeyBits, f.KeyCurve, f.KeyExplicit, f.KeyValid = pk.kind, pk.bits, pk.curveName, pk.explicit, pk.valid
		f.KeyParamsExact = pk.kind != "ec" || pk.paramsExact
	}
	if n, _, err := parseAll(c.outerAlg); err == nil {
		if o, _, ok := algIDParts(n); ok {
			f.SigAlgOID = o
			if info, ok := sigOIDInfo[o]; ok {
				f.SigAlgHash = info[1]
				if info[0] == "rsa-pss" {
					if p, ok := parsePSSParams(n); ok {
						f.SigAlgHash = p.hash
					}
				}
			}
		}
	}
	f.SigAlgMismatch = !bytes.Equal(c.innerAlg, c.outerAlg)

	f.HasExtensions = c.hasExts
	seen := map[string]bool{}
	for _, e := range c.exts {
		if seen[e.oid] {
			f.DuplicateExtensions = true
		}
		seen[e.oid] = true
		if e.critical {
			f.CriticalExtOIDs = append(f.CriticalExtOIDs, e.oid)
			if !KnownExtensionOIDs[e.oid] {
				f.UnknownCriticalExt = true
			}
		}
	}
	if e := c.ext(OIDExtBasicConstraints); e != nil {
		f.HasBasicConstraints = true
		f.BasicConstraintsCritical = e.critical
		f.BasicConstraintsMalformed = true
		// cA comes from a leading BOOLEAN, pathLen from an INTEGER after it; anything
		// else in the SEQUENCE (or after it) sets Malformed but does not erase cA.
		if n, tr, err := parseAll(e.value); err == nil && n.isU(0x10) && n.cons {
			p, perr := n.kids(0)
			okAll := perr == nil && tr == 0
			i := 0
			if i < len(p) && p[i].isU(tagBoolean) {
				for _, b := range p[i].body {
					if b != 0 {
						f.IsCA = true
					}
				}
				if len(p[i].body) != 1 {
					okAll = false
				}
				i++
			}
			if i < len(p) && p[i].isU(tagInteger) {
				if v, ok := p[i].smallInt(); ok {
					f.PathLen = v
				} else {
					okAll = false
				}
				i++
			}
			if i != len(p) {
				okAll = false
			}
			f.BasicConstraintsMalformed = !okAll
		}
	}
	if e := c.ext(OIDExtKeyUsage); e != nil {
		f.HasKeyUsage = true
		f.KeyUsageCritical = e.critical
		f.KeyUsageMalformed = true
		if n, tr, err := parseAll(e.value); err == nil && tr == 0 && n.isU(tagBitString) {
			if b, unused, ok := n.bitString(); ok {
				f.KeyUsageMalformed = false
				total := len(b)*8 - unused
				for i := 0; i < total; i++ {
					if b[i/8]&(0x80>>uint(i%8)) != 0 {
						f.KeyUsageBits = append(f.KeyUsageBits, i)
						switch i {
						case KUDigitalSignature:
							f.KUDigitalSignature = true
						case KUKeyCertSign:
							f.KUKeyCertSign = true
						case KUCRLSign:
							f.KUCRLSign = true
						}
					}
				}
			}
		}
	}
	if e := c.ext(OIDExtEKU); e != nil {
		f.HasEKU = true
		f.EKUCritical = e.critical
		if n, tr, err := parseAll(e.value); err == nil && tr == 0 && n.isU(0x10) && n.cons {
			p, _ := n.kids(0)
			for _, o := range p {
				if s := o.oid(); s != "" {
					f.EKU = append(f.EKU, s)
				}
			}
		}
	}
	f.SKI = c.ski
	if e := c.ext(OIDExtAKI); e != nil {
		if n, tr, err := parseAll(e.value); err == nil && tr == 0 && n.isU(0x10) && n.cons {
			p, _ := n.kids(0)
			for _, x := range p {
				if x.isC(0) {
					if b, ok := x.octets(0); ok {
						f.AKI = b
						if f.AKI == nil {
							f.AKI = []byte{}
						}
					}
					break
				}
			}
		}
	}

	f.SelfIssued = bytes.Equal(c.issuerRaw, c.subjectRaw) || namesEqual(c.issuer, c.subject, true)
	if f.SelfIssued {
		f.SelfSigned = verifySig(c.spki, c.outerAlg, "", false, c.tbs, c.sig)
	}
	for i, a := range anchors {
		if a == nil || !a.ok {
			continue
		}
		if verifySig(a.spki, c.outerAlg, "", false, c.tbs, c.sig) {
			f.ChainsTo = append(f.ChainsTo, i)
			f.ChainsToLenient = append(f.ChainsToLenient, i)
		} else if h := pssHashOnly(c.outerAlg); h != "" && verifySig(a.spki, c.outerAlg, h, true, c.tbs, c.sig) {
			f.ChainsToLenient = append(f.ChainsToLenient, i)
		}
		if f.AKI != nil && a.ski != nil && bytes.Equal(f.AKI, a.ski) {
			f.AKIMatches = append(f.AKIMatches, i)
		}
		if bytes.Equal(a.subjectRaw, c.issuerRaw) || namesEqual(a.subject, c.issuer, true) {
			f.IssuerMatches = append(f.IssuerMatches, i)
		}
		if bytes.Equal(a.raw, c.raw) {
			f.InTrustStore = append(f.InTrustStore, i)
		}
	}
	return f
}

// ---------------------------------------------------------------------------
// public keys and signature verification
// ---------------------------------------------------------------------------

type pubKey struct {
	kind        string // "rsa", "ec"
	bits        int
	valid       bool
	n, e        *big.Int
	curve       *Curve
	curveName   string
	explicit    bool
	paramsExact bool
	x, y        *big.Int
}

const (
	maxRSABits = 16384
	maxECBits  = 1024
)

func parseSPKI(spki []byte) *pubKey {
	n, _, err := parseAll(spki)
	if err != nil || !n.isU(0x10) || !n.cons {
		return nil
	}
	ks, err := n.kids(0)
	if err != nil || len(ks) != 2 {
		return nil
	}
	oid, params, ok := algIDParts(ks[0])
	if !ok {
		return nil
	}
	bits, _, ok := ks[1].bitString()
	if !ok || !ks[1].isU(tagBitString) {
		return nil
	}
	switch oid {
	case OIDRSAEncryption, OIDRSASSAPSS:
		pk := &pubKey{kind: "rsa"}
		k, tr, err := parseAll(bits)
		if err != nil || tr != 0 || !k.isU(0x10) || !k.cons {
			return pk
		}
		p, err := k.kids(0)
		if err != nil || len(p) != 2 || !p[0].isU(tagInteger) || !p[1].isU(tagInteger) {
			return pk
		}
		N, ok1 := p[0].integer()
		E, ok2 := p[1].integer()
		if !ok1 || !ok2 {
			return pk
		}
		pk.bits = N.BitLen()
		if N.Sign() <= 0 || N.BitLen() < 256 || N.BitLen() > maxRSABits || N.Bit(0) == 0 ||
			E.Sign() <= 0 || E.BitLen() > 256 || E.Bit(0) == 0 || E.Cmp(big.NewInt(1)) == 0 {
			return pk
		}
		pk.n, pk.e, pk.valid = N, E, true
		return pk
	case OIDECPublicKey:
		pk := &pubKey{kind: "ec"}
		if params == nil {
			return pk
		}
		switch {
		case params.isU(tagOID):
			pk.curve = CurveByOID(params.oid())
			if pk.curve == nil {
				return pk
			}
			pk.curveName, pk.paramsExact = pk.curve.Name, true
		case params.isU(0x10) && params.cons:
			pk.explicit = true
			c := parseECParameters(params)
			switch {
			case c != nil && matchKnownCurve(c) != nil:
				c = matchKnownCurve(c)
				pk.curveName, pk.paramsExact = c.Name, true
			case knownCurveByPrime(ecParametersPrime(params)) != nil:
				// The field prime is that of a standard curve but the other parameters are
				// not (or cannot be read). Verifiers that identify the curve by its prime use
				// the standard parameters; do the same and say so (KeyParamsExact false).
				c = knownCurveByPrime(ecParametersPrime(params))
				pk.curveName = c.Name
			case c != nil:
				pk.curveName, pk.paramsExact = "custom", true
			default:
				return pk
			}
			pk.curve = c
		default:
			return pk
		}
		pk.bits = pk.curve.P.BitLen()
		fl := pk.curve.FieldLen()
		switch {
		case len(bits) == 1+2*fl && bits[0] == 4:
			pk.x = new(big.Int).SetBytes(bits[1 : 1+fl])
			pk.y = new(big.Int).SetBytes(bits[1+fl:])
		case len(bits) == 1+fl && (bits[0] == 2 || bits[0] == 3) && pk.curveName != "custom":
			// compressed form, only on known (prime-field) curves
			c := pk.curve
			x := new(big.Int).SetBytes(bits[1:])
			if x.Cmp(c.P) >= 0 {
				return pk
			}
			rhs := new(big.Int).Mul(x, x)
			rhs.Add(rhs, c.A)
			rhs.Mul(rhs, x)
			rhs.Add(rhs, c.B)
			rhs.Mod(rhs, c.P)
			y := new(big.Int).ModSqrt(rhs, c.P)
			if y == nil {
				return pk
			}
			if y.Bit(0) != uint(bits[0]&1) {
				y.Sub(c.P, y)
			}
			pk.x, pk.y = x, y
		default:
			return pk
		}
		pk.valid = pk.curve.IsOnCurve(pk.x, pk.y)
		return pk
	}
	return nil
}

// ecParametersPrime extracts just the field prime of explicit ECParameters (nil if not found).
func ecParametersPrime(n *node) *big.Int {
	ks, _ := n.kids(0)
	if len(ks) < 2 || !ks[1].cons {
		return nil
	}
	fid, _ := ks[1].kids(0)
	// the contents octets are taken as the prime whatever the tag says (raw value in lenient decoders)
	if len(fid) < 2 || len(fid[1].body) == 0 || len(fid[1].body) > 256 {
		return nil
	}
	return new(big.Int).SetBytes(fid[1].body)
}

func knownCurveByPrime(p *big.Int) *Curve {
	if p == nil {
		return nil
	}
	for _, name := range CurveNames {
		if c := CurveByName(name); c.P.Cmp(p) == 0 {
			return c
		}
	}
	return nil
}

// parseECParameters reads explicit ECParameters over a prime field. Only sanity
// limits are applied (sizes, oddness, base point on curve); the parameters are
// not required to be those of a known curve.
func parseECParameters(n *node) *Curve {
	ks, err := n.kids(0)
	if err != nil || len(ks) < 5 || len(ks) > 7 {
		return nil
	}
	if v, ok := ks[0].smallInt(); !ok || v < 1 || v > 3 {
		return nil
	}
	if !ks[1].isU(0x10) || !ks[1].cons || !ks[2].isU(0x10) || !ks[2].cons {
		return nil
	}
	fid, err := ks[1].kids(0)
	if err != nil || len(fid) != 2 || fid[0].oid() != OIDPrimeField || !fid[1].isU(tagInteger) {
		return nil
	}
	p, ok := fid[1].integer()
	if !ok || p.Sign() <= 0 || p.BitLen() < 64 || p.BitLen() > maxECBits || p.Bit(0) == 0 {
		return nil
	}
	cv, err := ks[2].kids(0)
	if err != nil || len(cv) < 2 || !cv[0].isU(tagOctetString) || !cv[1].isU(tagOctetString) {
		return nil
	}
	ab, ok1 := cv[0].octets(0)
	bb, ok2 := cv[1].octets(0)
	if !ok1 || !ok2 || len(ab) > 256 || len(bb) > 256 {
		return nil
	}
	a, b := new(big.Int).SetBytes(ab), new(big.Int).SetBytes(bb)
	if a.Cmp(p) >= 0 || b.Cmp(p) >= 0 {
		return nil
	}
	if !ks[3].isU(tagOctetString) || !ks[4].isU(tagInteger) {
		return nil
	}
	g, ok := ks[3].octets(0)
	fl := (p.BitLen() + 7) / 8
	if !ok || len(g) != 1+2*fl || g[0] != 4 {
		return nil
	}
	order, ok := ks[4].integer()
	if !ok || order.Sign() <= 0 || order.BitLen() < 64 || order.BitLen() > maxECBits || order.Bit(0) == 0 {
		return nil
	}
	h := int64(1)
	if len(ks) > 5 && ks[5].isU(tagInteger) {
		if v, ok := ks[5].smallInt(); ok {
			h = int64(v)
		}
	}
	c := &Curve{P: p, A: a, B: b, Gx: new(big.Int).SetBytes(g[1 : 1+fl]), Gy: new(big.Int).SetBytes(g[1+fl:]), N: order, H: h}
	if !c.IsOnCurve(c.Gx, c.Gy) {
		return nil
	}
	return c
}

type pssParams struct {
	hash, mgfHash string
	saltLen       int
	trailer       int
}

// parsePSSParams reads RSASSA-PSS-params from a signature AlgorithmIdentifier
// (absent components take the DEFAULTs sha1 / mgf1SHA1 / 20 / 1).
func parsePSSParams(alg *node) (pssParams, bool) {
	p := pssParams{hash: "sha1", mgfHash: "sha1", saltLen: 20, trailer: 1}
	_, params, ok := algIDParts(alg)
	if !ok {
		return p, false
	}
	if params == nil {
		return p, true
	}
	if !params.isU(0x10) || !params.cons {
		return p, false
	}
	ks, err := params.kidsExplicit(0, func(idx, tag int) bool { return true })
	if err != nil {
		return p, false
	}
	for _, k := range ks {
		if k.class != 2 || !k.cons {
			return p, false
		}
		in, err := k.kids(0)
		if err != nil || len(in) != 1 {
			return p, false
		}
		switch k.tag {
		case 0:
			o, _, ok := algIDParts(in[0])
			if !ok || hashByOID[o] == "" {
				return p, false
			}
			p.hash = hashByOID[o]
		case 1:
			o, mp, ok := algIDParts(in[0])
			if !ok || o != OIDMGF1 || mp == nil {
				return p, false
			}
			ho, _, ok := algIDParts(mp)
			if !ok || hashByOID[ho] == "" {
				return p, false
			}
			p.mgfHash = hashByOID[ho]
		case 2:
			v, ok := in[0].smallInt()
			if !ok || v < 0 {
				return p, false
			}
			p.saltLen = v
		case 3:
			v, ok := in[0].smallInt()
			if !ok {
				return p, false
			}
			p.trailer = v
		default:
			return p, false
		}
	}
	return p, true
}

// pssHashOnly returns the hash named by the hashAlgorithm parameter of an RSASSA-PSS
// AlgorithmIdentifier ("sha1" if absent), "" if the algorithm is not RSASSA-PSS.
func pssHashOnly(algDER []byte) string {
	alg, _, err := parseAll(algDER)
	if err != nil {
		return ""
	}
	oid, params, ok := algIDParts(alg)
	if !ok || oid != OIDRSASSAPSS {
		return ""
	}
	if params == nil || !params.cons {
		return "sha1"
	}
	ks, _ := params.kidsExplicit(0, func(idx, tag int) bool { return true })
	for _, k := range ks {
		if k.isC(0) && k.cons {
			in, _ := k.kids(0)
			if len(in) >= 1 {
				if o, _, ok := algIDParts(in[0]); ok {
					return hashByOID[o]
				}
			}
			return ""
		}
	}
	return "sha1"
}

// VerifySig verifies sig over signed under the public key pubSPKI according to
// the AlgorithmIdentifier sigAlgDER: RSA PKCS#1 v1.5 (sha*WithRSAEncryption),
// RSASSA-PSS with its parameters, ECDSA (DER ECDSA-Sig-Value) on named or
// explicitly parameterised prime curves. It never panics.
func VerifySig(pubSPKI []byte, sigAlgDER []byte, signed []byte, sig []byte) bool {
	return verifySig(pubSPKI, sigAlgDER, "", false, signed, sig)
}

// VerifySigWithDigest is VerifySig for CMS SignerInfos: digestAlg (a hash name)
// is used when the signature algorithm itself names no hash (rsaEncryption).
func VerifySigWithDigest(pubSPKI []byte, sigAlgDER []byte, digestAlg string, signed []byte, sig []byte) bool {
	return verifySig(pubSPKI, sigAlgDER, digestAlg, false, signed, sig)
}

// Signature checks are pure functions of their inputs and the same check is
// repeated many times in a mutation sweep (anchors, untouched certificates), so
// results are memoised in a bounded table.
var (
	sigCacheMu sync.Mutex
	sigCache   = map[[32]byte]bool{}
)

const sigCacheMax = 1 << 14

var sigPanics atomic.Int64

// InternalPanics reports how many times a signature check of this package
// panicked and was turned into "does not verify". It must stay 0; anything else
// is a bug of this package, not a fact about an input.
func InternalPanics() int64 { return sigPanics.Load() }

// verifySig: if force is set, digestAlg replaces whatever hash the algorithm names.
func verifySig(spki, sigAlgDER []byte, digestAlg string, force bool, signed, sig []byte) bool {
	h := sha256.New()
	for _, p := range [][]byte{spki, sigAlgDER, []byte(digestAlg), signed, sig} {
		var l [8]byte
		binary.BigEndian.PutUint64(l[:], uint64(len(p)))
		h.Write(l[:])
		h.Write(p)
	}
	if force {
		h.Write([]byte{1})
	}
	var key [32]byte
	copy(key[:], h.Sum(nil))
	sigCacheMu.Lock()
	v, hit := sigCache[key]
	sigCacheMu.Unlock()
	if hit {
		return v
	}
	v = verifySigUncached(spki, sigAlgDER, digestAlg, force, signed, sig)
	sigCacheMu.Lock()
	if len(sigCache) >= sigCacheMax {
		sigCache = map[[32]byte]bool{}
	}
	sigCache[key] = v
	sigCacheMu.Unlock()
	return v
}

func verifySigUncached(spki, sigAlgDER []byte, digestAlg string, force bool, signed, sig []byte) (ok bool) {
	defer func() {
		if recover() != nil {
			sigPanics.Add(1)
			ok = false
		}
	}()
	alg, _, err := parseAll(sigAlgDER)
	if err != nil {
		return false
	}
	oid, _, aok := algIDParts(alg)
	if !aok {
		return false
	}
	info, known := sigOIDInfo[oid]
	if !known {
		return false
	}
	pk := parseSPKI(spki)
	if pk == nil || !pk.valid {
		return false
	}
	hash := info[1]
	if force || (hash == "" && info[0] != "rsa-pss") {
		hash = digestAlg
	}
	switch info[0] {
	case "rsa":
		if pk.kind != "rsa" || HashSize(hash) == 0 {
			return false
		}
		em := rsaPublic(pk, sig)
		if em == nil {
			return false
		}
		want, err := emsaPKCS1v15(hash, Digest(hash, signed), len(em))
		return err == nil && bytes.Equal(em, want)
	case "rsa-pss":
		if pk.kind != "rsa" {
			return false
		}
		p, pok := parsePSSParams(alg)
		if force {
			if HashSize(digestAlg) == 0 {
				return false
			}
			p = pssParams{hash: digestAlg, mgfHash: digestAlg, saltLen: -1, trailer: 1}
		} else if !pok || p.trailer != 1 {
			return false
		}
		em := rsaPublic(pk, sig)
		if em == nil {
			return false
		}
		emBits := pk.n.BitLen() - 1
		emLen := (emBits + 7) / 8
		if len(em) > emLen {
			// leading octet must be zero when emLen < k
			for _, b := range em[:len(em)-emLen] {
				if b != 0 {
					return false
				}
			}
			em = em[len(em)-emLen:]
		}
		return emsaPSSVerify(p.hash, p.mgfHash, Digest(p.hash, signed), em, emBits, p.saltLen)
	case "ecdsa":
		if pk.kind != "ec" || HashSize(hash) == 0 {
			return false
		}
		s, tr, err := parseAll(sig)
		if err != nil || tr != 0 || !s.isU(0x10) || !s.cons {
			return false
		}
		rs, err := s.kids(0)
		if err != nil || len(rs) != 2 || !rs[0].isU(tagInteger) || !rs[1].isU(tagInteger) {
			return false
		}
		r, ok1 := rs[0].integer()
		sv, ok2 := rs[1].integer()
		if !ok1 || !ok2 {
			return false
		}
		return pk.curve.ECDSAVerify(pk.x, pk.y, Digest(hash, signed), r, sv)
	}
	return false
}

// rsaPublic computes sig^e mod n as a k-octet string, nil if sig is out of range.
func rsaPublic(pk *pubKey, sig []byte) []byte {
	k := (pk.n.BitLen() + 7) / 8
	if len(sig) != k {
		return nil
	}
	s := new(big.Int).SetBytes(sig)
	if s.Cmp(pk.n) >= 0 {
		return nil
	}
	m := new(big.Int).Exp(s, pk.e, pk.n)
	return fixedBytes(m, k)
}
