package pki

import (
	"bytes"
	"crypto/rand"
	"fmt"
	"io"
	"math/big"
	"sort"
	"time"
)

// SIDForm selects the SignerIdentifier CHOICE (RFC 5652 5.3).
type SIDForm int

const (
	SIDIssuerAndSerial SIDForm = iota // issuerAndSerialNumber, SignerInfo version 1
	SIDSubjectKeyID                   // subjectKeyIdentifier [0], SignerInfo version 3
)

// Attr is a CMS attribute; every element of Values is a complete DER value.
type Attr struct {
	OID    string
	Values [][]byte
}

func (a Attr) der() []byte { return Seq(OID(a.OID), Set(a.Values...)) }

// SignerSpec describes one SignerInfo.
type SignerSpec struct {
	Rand io.Reader // nil = SignedDataSpec.Rand

	ID  *Entity  // certificate the SignerIdentifier points to
	Key *KeyPair // signing key; nil = ID.Key. Set to another key to forge.

	Version int     // 0 = per RFC 5652 (1 for issuerAndSerialNumber, 3 for subjectKeyIdentifier)
	SID     SIDForm // form of the SignerIdentifier
	// Overrides for the SignerIdentifier components.
	SIDIssuerRaw []byte   // Name DER
	SIDSerial    *big.Int //
	SIDSKI       []byte   // key identifier octets
	SIDRaw       []byte   // complete SignerIdentifier element

	DigestAlg     string // SignerInfo.digestAlgorithm; "" = the key spec's hash
	DigestAlgNull bool   // encode NULL parameters in digestAlgorithm

	NoSignedAttrs     bool       // no signedAttrs: the signature is over the eContent octets
	OmitContentType   bool       //
	OmitMessageDigest bool       //
	ContentType       string     // override of the contentType attribute value (default: eContentType)
	MessageDigest     []byte     // override of the messageDigest attribute value (default: digest of eContent)
	SigningTime       *time.Time // nil = no signingTime attribute
	SigningTimeForm   TimeForm
	ExtraSignedAttrs  []Attr
	KeepAttrOrder     bool // keep contentType, signingTime, messageDigest, extras in that order instead of the DER SET OF order
	DuplicateAttrs    bool // emit contentType and messageDigest twice (second copies first)
	// SignOverMessageDigest: the signature is a valid one by the signing key over the DER-sorted attribute set
	// {contentType, signingTime, messageDigest = this value} (a signature lifted from ANOTHER content), while the emitted
	// attributes are contentType, signingTime, messageDigest(of the emitted content), messageDigest(this value), in that order.
	SignOverMessageDigest []byte

	SigAlg            *SigAlg // default: scheme of the key spec with hash DigestAlg
	SignatureOverride []byte
	CorruptSignature  bool // flip one bit of the signature value

	UnsignedAttrs []Attr
}

// SignedDataSpec describes a CMS ContentInfo/SignedData (RFC 5652 5).
type SignedDataSpec struct {
	Rand io.Reader // nil = crypto/rand

	Version               int      // 0 = 3 (ICAO 9303-10 4.6.2.2)
	DigestAlgorithms      []string // nil = the signers' digest algorithms
	EmptyDigestAlgorithms bool     // encode an empty SET
	DigestAlgNull         bool     // NULL parameters in the digestAlgorithms members

	EContentType string
	EContent     []byte
	Detached     bool // leave out eContent (signature still over EContent)

	Certs     [][]byte // embedded certificates, in this order; nil = the signers' ID certificates
	NoCerts   bool     // encode an empty certificates field
	OmitCerts bool     // leave the certificates field out
	CRLs      [][]byte

	Signers []SignerSpec

	// Encoding.
	Indefinite       bool // BER indefinite-length form for ContentInfo, its [0], SignedData, EncapsulatedContentInfo and its [0]
	IndefiniteSets   bool // additionally digestAlgorithms, certificates and signerInfos in indefinite form
	EContentChunk    int  // >0: eContent as a constructed OCTET STRING of primitive segments of this size
	Wrap77           bool // wrap in the EF.SOD application tag 0x77
	Wrap77Indefinite bool // ... in indefinite-length form
	Trailing         []byte
}

func wrapEl(tag byte, indef bool, content ...[]byte) []byte {
	if indef {
		return TLVIndef(tag, content...)
	}
	return TLV(tag, content...)
}

// IssuerAndSerial encodes IssuerAndSerialNumber.
func IssuerAndSerial(issuerDER []byte, serial *big.Int) []byte {
	return Seq(issuerDER, Int(serial))
}

func hashAlgID(name string, null bool) []byte {
	if null {
		return AlgID(hashOIDs[name], Null())
	}
	return AlgID(hashOIDs[name], nil)
}

// SignedAttrsDER returns the DER SET OF encoding (tag 0x31) that is signed.
func signedAttrsSet(attrs [][]byte, keepOrder bool) []byte {
	if keepOrder {
		return Set(attrs...)
	}
	return SetOf(attrs...)
}

func buildSignerInfo(sd *SignedDataSpec, s *SignerSpec) ([]byte, string, error) {
	rnd := s.Rand
	if rnd == nil {
		rnd = sd.Rand
	}
	if rnd == nil {
		rnd = rand.Reader
	}
	key := s.Key
	if key == nil {
		if s.ID == nil {
			return nil, "", fmt.Errorf("pki: SignerSpec needs ID or Key")
		}
		key = s.ID.Key
	}
	dig := s.DigestAlg
	if dig == "" {
		dig = key.Spec.Hash
	}
	if HashSize(dig) == 0 {
		return nil, "", fmt.Errorf("pki: unknown digest %q", dig)
	}

	// SignerIdentifier
	var sid []byte
	version := s.Version
	switch {
	case s.SIDRaw != nil:
		sid = s.SIDRaw
		if version == 0 {
			version = 1
		}
	case s.SID == SIDSubjectKeyID:
		ski := s.SIDSKI
		if ski == nil && s.ID != nil {
			ski = s.ID.SKI
			if ski == nil {
				ski = s.ID.Key.KeyIdentifier()
			}
		}
		sid = ImplicitPrim(0, ski)
		if version == 0 {
			version = 3
		}
	default:
		iss, ser := s.SIDIssuerRaw, s.SIDSerial
		if iss == nil && s.ID != nil {
			iss = s.ID.IssuerDER
		}
		if ser == nil && s.ID != nil {
			ser = s.ID.Serial
		}
		if iss == nil || ser == nil {
			return nil, "", fmt.Errorf("pki: SignerSpec needs ID or SID overrides")
		}
		sid = IssuerAndSerial(iss, ser)
		if version == 0 {
			version = 1
		}
	}

	// signed attributes
	var toSign []byte
	var signedAttrs []byte
	if s.NoSignedAttrs {
		toSign = sd.EContent
	} else {
		var attrs [][]byte
		var ct, md []byte
		if !s.OmitContentType {
			o := s.ContentType
			if o == "" {
				o = sd.EContentType
			}
			ct = Attr{OIDContentType, [][]byte{OID(o)}}.der()
			attrs = append(attrs, ct)
		}
		if s.SigningTime != nil {
			attrs = append(attrs, Attr{OIDSigningTime, [][]byte{Time(*s.SigningTime, s.SigningTimeForm)}}.der())
		}
		if !s.OmitMessageDigest {
			v := s.MessageDigest
			if v == nil {
				v = Digest(dig, sd.EContent)
			}
			md = Attr{OIDMsgDigest, [][]byte{OctetString(v)}}.der()
			attrs = append(attrs, md)
		}
		for _, a := range s.ExtraSignedAttrs {
			attrs = append(attrs, a.der())
		}
		if s.DuplicateAttrs {
			if ct != nil {
				attrs = append(attrs, ct)
			}
			if md != nil {
				attrs = append(attrs, md)
			}
		}
		set := signedAttrsSet(attrs, s.KeepAttrOrder)
		toSign = set
		if s.SignOverMessageDigest != nil {
			lifted := Attr{OIDMsgDigest, [][]byte{OctetString(s.SignOverMessageDigest)}}.der()
			var other [][]byte
			for _, a := range attrs {
				if !bytes.Equal(a, md) {
					other = append(other, a)
				}
			}
			toSign = signedAttrsSet(append(append([][]byte{}, other...), lifted), false)
			set = signedAttrsSet(append(append([][]byte{}, attrs...), lifted), true)
		}
		signedAttrs = Retag(0xa0, set)
	}

	// signature
	var alg SigAlg
	if s.SigAlg != nil {
		alg = *s.SigAlg
	} else {
		alg = SigAlg{Kind: key.Spec.Kind, Hash: dig}
	}
	sig := s.SignatureOverride
	if sig == nil {
		var err error
		sig, err = Sign(rnd, key, alg, toSign)
		if err != nil {
			return nil, "", err
		}
	}
	if s.CorruptSignature {
		sig = append([]byte{}, sig...)
		sig[len(sig)-1] ^= 0x01
	}

	items := [][]byte{IntN(int64(version)), sid, hashAlgID(dig, s.DigestAlgNull)}
	if signedAttrs != nil {
		items = append(items, signedAttrs)
	}
	items = append(items, alg.AlgorithmIdentifier(), OctetString(sig))
	if len(s.UnsignedAttrs) > 0 {
		var ua [][]byte
		for _, a := range s.UnsignedAttrs {
			ua = append(ua, a.der())
		}
		items = append(items, Retag(0xa1, SetOf(ua...)))
	}
	return Seq(items...), dig, nil
}

// BuildSignedData assembles ContentInfo { id-signedData, SignedData } as described by spec.
func BuildSignedData(spec SignedDataSpec) ([]byte, error) {
	if spec.EContentType == "" {
		return nil, fmt.Errorf("pki: EContentType missing")
	}
	var sis [][]byte
	var digs []string
	seen := map[string]bool{}
	for i := range spec.Signers {
		si, d, err := buildSignerInfo(&spec, &spec.Signers[i])
		if err != nil {
			return nil, err
		}
		sis = append(sis, si)
		if !seen[d] {
			seen[d] = true
			digs = append(digs, d)
		}
	}
	if spec.DigestAlgorithms != nil {
		digs = spec.DigestAlgorithms
	}
	if spec.EmptyDigestAlgorithms {
		digs = nil
	}
	var das [][]byte
	for _, d := range digs {
		if HashSize(d) == 0 {
			return nil, fmt.Errorf("pki: unknown digest %q", d)
		}
		das = append(das, hashAlgID(d, spec.DigestAlgNull))
	}

	ind := spec.Indefinite
	// EncapsulatedContentInfo
	eci := [][]byte{OID(spec.EContentType)}
	if !spec.Detached {
		var os []byte
		if spec.EContentChunk > 0 {
			var segs [][]byte
			for off := 0; off < len(spec.EContent); off += spec.EContentChunk {
				end := off + spec.EContentChunk
				if end > len(spec.EContent) {
					end = len(spec.EContent)
				}
				segs = append(segs, OctetString(spec.EContent[off:end]))
			}
			os = wrapEl(0x24, ind, segs...)
		} else {
			os = OctetString(spec.EContent)
		}
		eci = append(eci, wrapEl(0xa0, ind, os))
	}

	version := spec.Version
	if version == 0 {
		version = 3
	}
	sd := [][]byte{IntN(int64(version)), wrapEl(tagSet, spec.IndefiniteSets, das...), wrapEl(tagSequence, ind, eci...)}

	certs := spec.Certs
	if certs == nil && !spec.NoCerts {
		for i := range spec.Signers {
			if spec.Signers[i].ID != nil {
				certs = append(certs, spec.Signers[i].ID.Cert)
			}
		}
	}
	if !spec.OmitCerts && (len(certs) > 0 || spec.NoCerts) {
		sd = append(sd, wrapEl(0xa0, spec.IndefiniteSets, certs...))
	}
	if len(spec.CRLs) > 0 {
		sd = append(sd, TLV(0xa1, spec.CRLs...))
	}
	sd = append(sd, wrapEl(tagSet, spec.IndefiniteSets, sis...))

	ci := wrapEl(tagSequence, ind, OID(OIDSignedData), wrapEl(0xa0, ind, wrapEl(tagSequence, ind, sd...)))
	if spec.Wrap77 || spec.Wrap77Indefinite {
		ci = wrapEl(0x77, spec.Wrap77Indefinite, ci)
	}
	return append(ci, spec.Trailing...), nil
}

// ---------------------------------------------------------------------------
// EF.SOD (ICAO 9303-10 4.6.2)
// ---------------------------------------------------------------------------

// SODSpec describes a Document Security Object.
type SODSpec struct {
	LDSVersion     int        // LDSSecurityObject.version: 0 or 1 (any value is encoded as given)
	LDSVersionInfo *[2]string // {ldsVersion, unicodeVersion}; nil with LDSVersion 1 = {"0108","040000"}; never encoded for version 0 unless set

	DigestAlg   string         // hash of the data group hash values; "" = first signer's digest
	HashAlgNull bool           // NULL parameters in LDSSecurityObject.hashAlgorithm
	DGs         map[int][]byte // data group contents: hashed with DigestAlg
	DGHashes    map[int][]byte // explicit hash values (override / add to those computed from DGs)
	DGOrder     []int          // order of the DataGroupHash entries; nil = ascending

	EContentOverride []byte // use these bytes as eContent instead of the LDSSecurityObject built from the above

	SD SignedDataSpec // CMS envelope; EContent is filled in by BuildSOD. EContentType defaults to id-icao-mrtd-security-ldsSecurityObject, Wrap77 is up to the caller (NewSODSpec sets it).
}

// LDSSecurityObject encodes
//
//	SEQUENCE { version, hashAlgorithm, SEQUENCE OF DataGroupHash { number, hash } [, LDSVersionInfo { ldsVersion, unicodeVersion }] }
func (s *SODSpec) LDSSecurityObject() ([]byte, error) {
	dig := s.DigestAlg
	if dig == "" && len(s.SD.Signers) > 0 {
		sg := &s.SD.Signers[0]
		dig = sg.DigestAlg
		if dig == "" {
			switch {
			case sg.Key != nil:
				dig = sg.Key.Spec.Hash
			case sg.ID != nil:
				dig = sg.ID.Key.Spec.Hash
			}
		}
	}
	if HashSize(dig) == 0 {
		return nil, fmt.Errorf("pki: SODSpec: unknown digest %q", dig)
	}
	hashes := map[int][]byte{}
	for n, d := range s.DGs {
		hashes[n] = Digest(dig, d)
	}
	for n, h := range s.DGHashes {
		hashes[n] = h
	}
	order := s.DGOrder
	if order == nil {
		for n := range hashes {
			order = append(order, n)
		}
		sort.Ints(order)
	}
	var dgh [][]byte
	for _, n := range order {
		dgh = append(dgh, Seq(IntN(int64(n)), OctetString(hashes[n])))
	}
	items := [][]byte{IntN(int64(s.LDSVersion)), hashAlgID(dig, s.HashAlgNull), Seq(dgh...)}
	vi := s.LDSVersionInfo
	if vi == nil && s.LDSVersion == 1 {
		vi = &[2]string{"0108", "040000"}
	}
	if vi != nil {
		items = append(items, Seq(Str(Printable, vi[0]), Str(Printable, vi[1])))
	}
	return Seq(items...), nil
}

// NewSODSpec returns the spec of a genuine EF.SOD signed by ds over the given
// data groups: LDS v0, DG hashes and signature with the DS key spec's hash,
// issuerAndSerialNumber SID, contentType + signingTime + messageDigest signed
// attributes, the DS certificate embedded, definite lengths, 0x77 wrapper.
// Callers modify the result to obtain variants and forgeries.
func NewSODSpec(ds *Signer, dgs map[int][]byte, signingTime time.Time) SODSpec {
	t := signingTime
	return SODSpec{
		DGs: dgs,
		SD: SignedDataSpec{
			Rand:         ds.rnd,
			EContentType: OIDLDSSecurityObject,
			Wrap77:       true,
			Signers:      []SignerSpec{{ID: &ds.Entity, SigningTime: &t}},
		},
	}
}

// BuildSOD builds EF.SOD.
func BuildSOD(spec SODSpec) ([]byte, error) {
	sd := spec.SD
	if sd.EContentType == "" {
		sd.EContentType = OIDLDSSecurityObject
	}
	if spec.EContentOverride != nil {
		sd.EContent = spec.EContentOverride
	} else {
		lso, err := spec.LDSSecurityObject()
		if err != nil {
			return nil, err
		}
		sd.EContent = lso
	}
	return BuildSignedData(sd)
}

// ---------------------------------------------------------------------------
// EF.CardSecurity (BSI TR-03110-3 A.1.2 / ICAO 9303-11 9.2.10)
// ---------------------------------------------------------------------------

// CardSecuritySpec describes EF.CardSecurity: SignedData with eContentType
// id-SecurityObject over the DER SecurityInfos, no 0x77 wrapper.
type CardSecuritySpec struct {
	SecurityInfos []byte // DER SET OF SecurityInfo (supplied by the caller)
	SD            SignedDataSpec
}

// NewCardSecuritySpec is the CardSecurity counterpart of NewSODSpec.
func NewCardSecuritySpec(ds *Signer, securityInfos []byte, signingTime time.Time) CardSecuritySpec {
	t := signingTime
	return CardSecuritySpec{
		SecurityInfos: securityInfos,
		SD: SignedDataSpec{
			Rand:         ds.rnd,
			EContentType: OIDSecurityObject,
			Signers:      []SignerSpec{{ID: &ds.Entity, SigningTime: &t}},
		},
	}
}

// BuildCardSecurity builds EF.CardSecurity.
func BuildCardSecurity(spec CardSecuritySpec) ([]byte, error) {
	sd := spec.SD
	if sd.EContentType == "" {
		sd.EContentType = OIDSecurityObject
	}
	sd.EContent = spec.SecurityInfos
	return BuildSignedData(sd)
}

// ---------------------------------------------------------------------------
// CSCA master list (ICAO 9303-12 9)
// ---------------------------------------------------------------------------

// MasterListSpec describes a CscaMasterList.
type MasterListSpec struct {
	Version     int  // CscaMasterList.version (0)
	KeepOrder   bool // keep certList in the given order instead of the DER SET OF order
	SD          SignedDataSpec
	SigningTime *time.Time // convenience for the default signer
	ExtraCerts  [][]byte   // embedded in SignedData.certificates after the signer certificate (usually the CSCA certificate)
}

// CscaMasterList encodes SEQUENCE { version, SET OF Certificate }.
func CscaMasterList(version int, certs [][]byte, keepOrder bool) []byte {
	if keepOrder {
		return Seq(IntN(int64(version)), Set(certs...))
	}
	return Seq(IntN(int64(version)), SetOf(certs...))
}

// BuildMasterList builds a master list over certs signed by signer. If
// spec.SD.Signers is empty a default signer (issuerAndSerialNumber SID,
// contentType/signingTime/messageDigest) is used and the signer certificate plus
// spec.ExtraCerts are embedded.
func BuildMasterList(signer *Signer, certs [][]byte, spec MasterListSpec) ([]byte, error) {
	sd := spec.SD
	if sd.EContentType == "" {
		sd.EContentType = OIDCscaMasterList
	}
	if sd.Rand == nil {
		sd.Rand = signer.rnd
	}
	if len(sd.Signers) == 0 {
		sd.Signers = []SignerSpec{{ID: &signer.Entity, SigningTime: spec.SigningTime}}
	}
	if sd.Certs == nil && !sd.NoCerts {
		sd.Certs = append([][]byte{signer.Cert}, spec.ExtraCerts...)
	}
	sd.EContent = CscaMasterList(spec.Version, certs, spec.KeepOrder)
	return BuildSignedData(sd)
}
