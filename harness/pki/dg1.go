package pki

import "strings"

// MRZCheckDigit computes the ICAO 9303-3 check digit (weights 7,3,1; '<' = 0, A..Z = 10..35).
func MRZCheckDigit(s string) byte {
	w := [3]int{7, 3, 1}
	sum := 0
	for i := 0; i < len(s); i++ {
		c := s[i]
		v := 0
		switch {
		case c >= '0' && c <= '9':
			v = int(c - '0')
		case c >= 'A' && c <= 'Z':
			v = int(c-'A') + 10
		}
		sum += v * w[i%3]
	}
	return byte('0' + sum%10)
}

// MakeTD3MRZ builds an 88 character TD3 (passport) MRZ for the given issuing
// state (alpha-3) with fixed holder data and correct check digits.
func MakeTD3MRZ(issuingState, docNumber string) string {
	return MakeTD3MRZNat(issuingState, issuingState, docNumber)
}

// MakeTD3MRZNat: as MakeTD3MRZ with a nationality that may differ from the issuing state (travel documents of
// organisations: UNO, XOM, EUE ... have no country of their own).
func MakeTD3MRZNat(issuingState, nationality, docNumber string) string {
	pad := func(s string, n int) string {
		if len(s) >= n {
			return s[:n]
		}
		return s + strings.Repeat("<", n-len(s))
	}
	line1 := pad("P<"+pad(issuingState, 3)+"ERIKSSON<<ANNA<MARIA", 44)
	doc := pad(docNumber, 9)
	dob, exp := "740812", "120415"
	personal := pad("ZE184226B", 14)
	l2 := doc + string(MRZCheckDigit(doc)) + pad(nationality, 3) + dob + string(MRZCheckDigit(dob)) + "F" + exp + string(MRZCheckDigit(exp)) + personal + string(MRZCheckDigit(personal))
	composite := l2[0:10] + l2[13:20] + l2[21:43]
	l2 += string(MRZCheckDigit(composite))
	return line1 + l2
}

// MakeDG1 wraps an MRZ into EF.DG1: 61 L { 5F1F L mrz }.
func MakeDG1(mrz string) []byte {
	return TLV(0x61, append([]byte{0x5f, 0x1f}, append(derLen(len(mrz)), mrz...)...))
}
