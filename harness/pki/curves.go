package pki

import (
	"crypto/elliptic"
	"fmt"
	"io"
	"math/big"
	"sync"

	"github.com/osanderson/brainpool"
)

// Curve is a short Weierstrass curve y^2 = x^3 + A x + B over GF(P) with base
// point (Gx,Gy) of prime order N and cofactor H. All arithmetic on it is done
// here with math/big (Jacobian coordinates, general A), so that NIST P-192 and
// the brainpool curves, named or with explicit parameters, are handled alike.
type Curve struct {
	Name               string // e.g. "P-256", "brainpoolP256r1", "" for unknown explicit parameters
	OID                string // named-curve OID, "" if none
	P, A, B, Gx, Gy, N *big.Int
	H                  int64
}

// FieldLen is the length in octets of a field element.
func (c *Curve) FieldLen() int { return (c.P.BitLen() + 7) / 8 }

// Named-curve OIDs (RFC 5480, RFC 5639).
var curveOIDs = map[string]string{
	"P-192":           "1.2.840.10045.3.1.1",
	"P-224":           "1.3.132.0.33",
	"P-256":           "1.2.840.10045.3.1.7",
	"P-384":           "1.3.132.0.34",
	"P-521":           "1.3.132.0.35",
	"brainpoolP192r1": "1.3.36.3.3.2.8.1.1.3",
	"brainpoolP224r1": "1.3.36.3.3.2.8.1.1.5",
	"brainpoolP256r1": "1.3.36.3.3.2.8.1.1.7",
	"brainpoolP320r1": "1.3.36.3.3.2.8.1.1.9",
	"brainpoolP384r1": "1.3.36.3.3.2.8.1.1.11",
	"brainpoolP512r1": "1.3.36.3.3.2.8.1.1.13",
}

// CurveNames lists the supported curves in canonical order.
var CurveNames = []string{
	"P-192", "P-224", "P-256", "P-384", "P-521",
	"brainpoolP192r1", "brainpoolP224r1", "brainpoolP256r1", "brainpoolP320r1", "brainpoolP384r1", "brainpoolP512r1",
}

var (
	curvesOnce sync.Once
	curves     map[string]*Curve
)

func hexInt(s string) *big.Int {
	v, ok := new(big.Int).SetString(s, 16)
	if !ok {
		panic("pki: bad hex constant")
	}
	return v
}

func initCurves() {
	curves = map[string]*Curve{}
	three := big.NewInt(3)

	// NIST P-192 (FIPS 186-4 D.1.2.1); crypto/elliptic does not provide it.
	p192 := &Curve{
		Name: "P-192",
		P:    hexInt("FFFFFFFFFFFFFFFFFFFFFFFFFFFFFFFEFFFFFFFFFFFFFFFF"),
		B:    hexInt("64210519E59C80E70FA7E9AB72243049FEB8DEECC146B9B1"),
		Gx:   hexInt("188DA80EB03090F67CBF20EB43A18800F4FF0AFD82FF1012"),
		Gy:   hexInt("07192B95FFC8DA78631011ED6B24CDD573F977A11E794811"),
		N:    hexInt("FFFFFFFFFFFFFFFFFFFFFFFF99DEF836146BC9B1B4D22831"),
		H:    1,
	}
	p192.A = new(big.Int).Sub(p192.P, three)
	curves["P-192"] = p192

	for name, ec := range map[string]elliptic.Curve{
		"P-224": elliptic.P224(), "P-256": elliptic.P256(), "P-384": elliptic.P384(), "P-521": elliptic.P521(),
	} {
		pr := ec.Params()
		curves[name] = &Curve{Name: name, P: pr.P, A: new(big.Int).Sub(pr.P, three), B: pr.B, Gx: pr.Gx, Gy: pr.Gy, N: pr.N, H: 1}
	}

	// Brainpool (RFC 5639). The module only exposes P, N, G of the r1 curves and
	// the full parameters of the isomorphic twisted curves t1 (A = -3). With
	// x' = x z^2, y' = y z^3: z^2 = Gx_t/Gx, z^3 = Gy_t/Gy, A = -3 z^-4, B = B_t z^-6.
	bp := []struct {
		name string
		r, t elliptic.Curve
	}{
		{"brainpoolP192r1", brainpool.P192r1(), brainpool.P192t1()},
		{"brainpoolP224r1", brainpool.P224r1(), brainpool.P224t1()},
		{"brainpoolP256r1", brainpool.P256r1(), brainpool.P256t1()},
		{"brainpoolP320r1", brainpool.P320r1(), brainpool.P320t1()},
		{"brainpoolP384r1", brainpool.P384r1(), brainpool.P384t1()},
		{"brainpoolP512r1", brainpool.P512r1(), brainpool.P512t1()},
	}
	for _, e := range bp {
		r, t := e.r.Params(), e.t.Params()
		p := r.P
		inv := func(v *big.Int) *big.Int { return new(big.Int).ModInverse(v, p) }
		mul := func(a, b *big.Int) *big.Int { return new(big.Int).Mod(new(big.Int).Mul(a, b), p) }
		z2 := mul(t.Gx, inv(r.Gx))
		z3 := mul(t.Gy, inv(r.Gy))
		z4 := mul(z2, z2)
		z6 := mul(z3, z3)
		a := mul(new(big.Int).Sub(p, three), inv(z4))
		b := mul(t.B, inv(z6))
		curves[e.name] = &Curve{Name: e.name, P: p, A: a, B: b, Gx: r.Gx, Gy: r.Gy, N: r.N, H: 1}
	}

	for name, c := range curves {
		c.OID = curveOIDs[name]
		if !c.IsOnCurve(c.Gx, c.Gy) {
			panic("pki: base point of " + name + " is not on the curve")
		}
	}
}

// CurveByName returns the named curve or nil.
func CurveByName(name string) *Curve {
	curvesOnce.Do(initCurves)
	return curves[name]
}

// CurveByOID returns the curve with the given named-curve OID or nil.
func CurveByOID(oid string) *Curve {
	curvesOnce.Do(initCurves)
	for _, c := range curves {
		if c.OID == oid {
			return c
		}
	}
	return nil
}

// matchKnownCurve returns the known curve whose parameters all equal those of c, or nil.
func matchKnownCurve(c *Curve) *Curve {
	curvesOnce.Do(initCurves)
	for _, name := range CurveNames {
		k := curves[name]
		if k.P.Cmp(c.P) == 0 && k.A.Cmp(c.A) == 0 && k.B.Cmp(c.B) == 0 &&
			k.Gx.Cmp(c.Gx) == 0 && k.Gy.Cmp(c.Gy) == 0 && k.N.Cmp(c.N) == 0 {
			return k
		}
	}
	return nil
}

// ---------------------------------------------------------------------------
// arithmetic
// ---------------------------------------------------------------------------

// IsOnCurve reports whether (x,y) satisfies the curve equation with 0 <= x,y < P.
func (c *Curve) IsOnCurve(x, y *big.Int) bool {
	if x == nil || y == nil || x.Sign() < 0 || y.Sign() < 0 || x.Cmp(c.P) >= 0 || y.Cmp(c.P) >= 0 {
		return false
	}
	l := new(big.Int).Mul(y, y)
	l.Mod(l, c.P)
	r := new(big.Int).Mul(x, x)
	r.Add(r, c.A)
	r.Mul(r, x)
	r.Add(r, c.B)
	r.Mod(r, c.P)
	return l.Cmp(r) == 0
}

type jac struct{ x, y, z *big.Int } // z == 0: point at infinity

func (c *Curve) jInf() *jac { return &jac{big.NewInt(1), big.NewInt(1), new(big.Int)} }

func (c *Curve) mod(v *big.Int) *big.Int { return v.Mod(v, c.P) }

func (c *Curve) jDouble(p *jac) *jac {
	if p.z.Sign() == 0 || p.y.Sign() == 0 {
		return c.jInf()
	}
	P := c.P
	xx := new(big.Int).Mul(p.x, p.x)
	xx.Mod(xx, P)
	yy := new(big.Int).Mul(p.y, p.y)
	yy.Mod(yy, P)
	yyyy := new(big.Int).Mul(yy, yy)
	yyyy.Mod(yyyy, P)
	zz := new(big.Int).Mul(p.z, p.z)
	zz.Mod(zz, P)
	// S = 4*X*YY
	s := new(big.Int).Mul(p.x, yy)
	s.Lsh(s, 2)
	s.Mod(s, P)
	// M = 3*XX + A*ZZ^2
	m := new(big.Int).Mul(zz, zz)
	m.Mod(m, P)
	m.Mul(m, c.A)
	m.Add(m, new(big.Int).Mul(xx, big.NewInt(3)))
	m.Mod(m, P)
	// X3 = M^2 - 2S
	x3 := new(big.Int).Mul(m, m)
	x3.Sub(x3, new(big.Int).Lsh(s, 1))
	x3.Mod(x3, P)
	// Y3 = M*(S - X3) - 8*YYYY
	y3 := new(big.Int).Sub(s, x3)
	y3.Mul(y3, m)
	y3.Sub(y3, new(big.Int).Lsh(yyyy, 3))
	y3.Mod(y3, P)
	// Z3 = 2*Y*Z
	z3 := new(big.Int).Mul(p.y, p.z)
	z3.Lsh(z3, 1)
	z3.Mod(z3, P)
	return &jac{x3, y3, z3}
}

func (c *Curve) jAdd(p, q *jac) *jac {
	if p.z.Sign() == 0 {
		return q
	}
	if q.z.Sign() == 0 {
		return p
	}
	P := c.P
	z1z1 := c.mod(new(big.Int).Mul(p.z, p.z))
	z2z2 := c.mod(new(big.Int).Mul(q.z, q.z))
	u1 := c.mod(new(big.Int).Mul(p.x, z2z2))
	u2 := c.mod(new(big.Int).Mul(q.x, z1z1))
	s1 := c.mod(new(big.Int).Mul(p.y, c.mod(new(big.Int).Mul(q.z, z2z2))))
	s2 := c.mod(new(big.Int).Mul(q.y, c.mod(new(big.Int).Mul(p.z, z1z1))))
	h := new(big.Int).Sub(u2, u1)
	h.Mod(h, P)
	r := new(big.Int).Sub(s2, s1)
	r.Mod(r, P)
	if h.Sign() == 0 {
		if r.Sign() == 0 {
			return c.jDouble(p)
		}
		return c.jInf()
	}
	hh := c.mod(new(big.Int).Mul(h, h))
	hhh := c.mod(new(big.Int).Mul(hh, h))
	v := c.mod(new(big.Int).Mul(u1, hh))
	// X3 = r^2 - H^3 - 2V
	x3 := new(big.Int).Mul(r, r)
	x3.Sub(x3, hhh)
	x3.Sub(x3, new(big.Int).Lsh(v, 1))
	x3.Mod(x3, P)
	// Y3 = r*(V - X3) - S1*H^3
	y3 := new(big.Int).Sub(v, x3)
	y3.Mul(y3, r)
	y3.Sub(y3, new(big.Int).Mul(s1, hhh))
	y3.Mod(y3, P)
	// Z3 = Z1*Z2*H
	z3 := new(big.Int).Mul(p.z, q.z)
	z3.Mod(z3, P)
	z3.Mul(z3, h)
	z3.Mod(z3, P)
	return &jac{x3, y3, z3}
}

func (c *Curve) jMul(p *jac, k *big.Int) *jac {
	acc := c.jInf()
	for i := k.BitLen() - 1; i >= 0; i-- {
		acc = c.jDouble(acc)
		if k.Bit(i) == 1 {
			acc = c.jAdd(acc, p)
		}
	}
	return acc
}

// affine converts to affine coordinates; ok is false for the point at infinity
// (or when P is not prime and the inverse does not exist).
func (c *Curve) affine(p *jac) (x, y *big.Int, ok bool) {
	if p.z.Sign() == 0 {
		return nil, nil, false
	}
	zi := new(big.Int).ModInverse(p.z, c.P)
	if zi == nil {
		return nil, nil, false
	}
	zi2 := c.mod(new(big.Int).Mul(zi, zi))
	x = c.mod(new(big.Int).Mul(p.x, zi2))
	y = c.mod(new(big.Int).Mul(p.y, c.mod(new(big.Int).Mul(zi2, zi))))
	return x, y, true
}

// ScalarMult returns k*(x,y); ok is false if the result is the point at infinity.
func (c *Curve) ScalarMult(x, y, k *big.Int) (rx, ry *big.Int, ok bool) {
	return c.affine(c.jMul(&jac{new(big.Int).Set(x), new(big.Int).Set(y), big.NewInt(1)}, k))
}

// ScalarBaseMult returns k*G.
func (c *Curve) ScalarBaseMult(k *big.Int) (rx, ry *big.Int, ok bool) {
	return c.ScalarMult(c.Gx, c.Gy, k)
}

// ---------------------------------------------------------------------------
// ECDSA (BSI TR-03111 4.2.1 / FIPS 186-4 6)
// ---------------------------------------------------------------------------

// hashToInt takes the leftmost min(bitlen(N), 8*len(h)) bits of h.
func (c *Curve) hashToInt(h []byte) *big.Int {
	nbits := c.N.BitLen()
	nbytes := (nbits + 7) / 8
	if len(h) > nbytes {
		h = h[:nbytes]
	}
	z := new(big.Int).SetBytes(h)
	if excess := len(h)*8 - nbits; excess > 0 {
		z.Rsh(z, uint(excess))
	}
	return z
}

// randScalar draws a uniform-enough scalar in [1, N-1] from rnd.
func (c *Curve) randScalar(rnd io.Reader) (*big.Int, error) {
	buf := make([]byte, (c.N.BitLen()+7)/8+8)
	if _, err := io.ReadFull(rnd, buf); err != nil {
		return nil, err
	}
	k := new(big.Int).SetBytes(buf)
	nm1 := new(big.Int).Sub(c.N, big.NewInt(1))
	k.Mod(k, nm1)
	k.Add(k, big.NewInt(1))
	return k, nil
}

// ECDSASign signs the hash value h with private key d; the nonce comes from rnd.
func (c *Curve) ECDSASign(rnd io.Reader, d *big.Int, h []byte) (r, s *big.Int, err error) {
	z := c.hashToInt(h)
	for tries := 0; tries < 64; tries++ {
		k, err := c.randScalar(rnd)
		if err != nil {
			return nil, nil, err
		}
		x, _, ok := c.ScalarBaseMult(k)
		if !ok {
			continue
		}
		r = new(big.Int).Mod(x, c.N)
		if r.Sign() == 0 {
			continue
		}
		ki := new(big.Int).ModInverse(k, c.N)
		if ki == nil {
			continue
		}
		s = new(big.Int).Mul(r, d)
		s.Add(s, z)
		s.Mul(s, ki)
		s.Mod(s, c.N)
		if s.Sign() == 0 {
			continue
		}
		return r, s, nil
	}
	return nil, nil, fmt.Errorf("pki: ECDSA signing failed")
}

// ECDSAVerify verifies (r,s) over hash value h under public key (qx,qy).
func (c *Curve) ECDSAVerify(qx, qy *big.Int, h []byte, r, s *big.Int) bool {
	if r == nil || s == nil || r.Sign() <= 0 || s.Sign() <= 0 || r.Cmp(c.N) >= 0 || s.Cmp(c.N) >= 0 {
		return false
	}
	if !c.IsOnCurve(qx, qy) {
		return false
	}
	w := new(big.Int).ModInverse(s, c.N)
	if w == nil {
		return false
	}
	z := c.hashToInt(h)
	u1 := new(big.Int).Mul(z, w)
	u1.Mod(u1, c.N)
	u2 := new(big.Int).Mul(r, w)
	u2.Mod(u2, c.N)
	g := &jac{c.Gx, c.Gy, big.NewInt(1)}
	q := &jac{qx, qy, big.NewInt(1)}
	x, _, ok := c.affine(c.jAdd(c.jMul(g, u1), c.jMul(q, u2)))
	if !ok {
		return false
	}
	x.Mod(x, c.N)
	return x.Cmp(r) == 0
}

// ---------------------------------------------------------------------------
// encodings
// ---------------------------------------------------------------------------

func fixedBytes(v *big.Int, n int) []byte {
	b := v.Bytes()
	if len(b) >= n {
		return b
	}
	out := make([]byte, n)
	copy(out[n-len(b):], b)
	return out
}

// EncodePoint returns the uncompressed X9.62 encoding 04 || X || Y.
func (c *Curve) EncodePoint(x, y *big.Int) []byte {
	n := c.FieldLen()
	out := []byte{4}
	out = append(out, fixedBytes(x, n)...)
	return append(out, fixedBytes(y, n)...)
}

// ECParametersOpts tunes the explicit-parameter encoding.
type ECParametersOpts struct {
	OmitCofactor bool   // cofactor is OPTIONAL in X9.62
	Seed         []byte // optional curve seed BIT STRING
}

// ExplicitParameters encodes X9.62 / TR-03111 ECParameters (specifiedCurve):
//
//	SEQUENCE { version 1, FieldID{prime-field, p}, Curve{a, b [,seed]}, base, order [,cofactor] }
func (c *Curve) ExplicitParameters(o ECParametersOpts) []byte {
	n := c.FieldLen()
	curve := [][]byte{OctetString(fixedBytes(c.A, n)), OctetString(fixedBytes(c.B, n))}
	if o.Seed != nil {
		curve = append(curve, BitString(o.Seed, 0))
	}
	items := [][]byte{
		IntN(1),
		Seq(OID(OIDPrimeField), Int(c.P)),
		Seq(curve...),
		OctetString(c.EncodePoint(c.Gx, c.Gy)),
		Int(c.N),
	}
	if !o.OmitCofactor {
		items = append(items, IntN(c.H))
	}
	return Seq(items...)
}
