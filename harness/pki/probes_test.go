package pki

// Probes: objects that are unusual or non-conforming without being forgeries of
// the protected data. The library's verdict is logged next to the independent
// facts; only where the standards leave no doubt (want "accept"/"reject") is a
// disagreement treated as a deviation.

import (
	"math/big"
	"strings"
	"testing"
	"time"
)

type probe struct {
	name  string
	ks    KeySpec
	want  string // "accept", "reject", "any"
	build func(t *testing.T, w *world) (sod []byte, store [][]byte)
	check func(t *testing.T, f *Facts, a []AnchorFacts)
}

func reissue(t *testing.T, w *world, caMod func(*CertSpec), dsMod func(*CertSpec)) (*Authority, *Signer) {
	t.Helper()
	cs := CertSpec{Rand: detRand(4242), Subject: DN("NL", "State of the Netherlands", "CSCA NL"), Key: w.csca.Key}
	if caMod != nil {
		caMod(&cs)
	}
	ca, err := NewCA(cs)
	if err != nil {
		t.Fatal(err)
	}
	dss := CertSpec{Subject: DN("NL", "State of the Netherlands", "DS 1"), Key: w.ds.Key}
	if dsMod != nil {
		dsMod(&dss)
	}
	ds, err := ca.IssueDS(dss)
	if err != nil {
		t.Fatal(err)
	}
	return ca, ds
}

func TestProbes(t *testing.T) {
	rsa := KeySpec{Kind: "rsa", Bits: 2048, Hash: "sha256"}
	pss := KeySpec{Kind: "rsa-pss", Bits: 2048, Hash: "sha256"}
	pss1 := KeySpec{Kind: "rsa-pss", Bits: 2048, Hash: "sha1"}
	ec := KeySpec{Kind: "ecdsa", Curve: "P-256", Hash: "sha256"}
	bp := KeySpec{Kind: "ecdsa", Curve: "brainpoolP256r1", ExplicitParams: true, Hash: "sha256"}
	bp192 := KeySpec{Kind: "ecdsa", Curve: "brainpoolP192r1", ExplicitParams: true, Hash: "sha1"}

	genuineStore := func(w *world) [][]byte { return [][]byte{w.csca.Cert} }
	sigOK := func(t *testing.T, f *Facts, _ []AnchorFacts) {
		if !eqInts(f.Signers[0].SigVerifiesUnder, ints(0)) {
			t.Errorf("SigVerifiesUnder = %v", f.Signers[0].SigVerifiesUnder)
		}
	}

	probes := []probe{
		{name: "pss-sha1-explicit-default-params", ks: pss1, want: "accept",
			build: func(t *testing.T, w *world) ([]byte, [][]byte) {
				a := SigAlg{Kind: "rsa-pss", Hash: "sha1", PSSExplicitDefaults: true}
				ca, ds := reissue(t, w, func(c *CertSpec) { c.SigAlg = &a }, func(c *CertSpec) { c.SigAlg = &a })
				s := NewSODSpec(ds, w.dgs, signingTime)
				s.SD.Signers[0].SigAlg = &a
				return mustSOD(t, s), [][]byte{ca.Cert}
			}, check: sigOK},
		{name: "pss-sha1-der-default-params-in-certificates-only", ks: pss1, want: "accept",
			build: func(t *testing.T, w *world) ([]byte, [][]byte) {
				// SignerInfo with explicit parameters, certificates with the DER encoding (defaults omitted)
				a := SigAlg{Kind: "rsa-pss", Hash: "sha1", PSSExplicitDefaults: true}
				s := NewSODSpec(w.ds, w.dgs, signingTime)
				s.SD.Signers[0].SigAlg = &a
				return mustSOD(t, s), genuineStore(w)
			}, check: sigOK},
		{name: "pss-declared-salt-length-wrong-signerinfo", ks: pss, want: "any",
			build: func(t *testing.T, w *world) ([]byte, [][]byte) {
				s := NewSODSpec(w.ds, w.dgs, signingTime)
				s.SD.Signers[0].SigAlg = &SigAlg{Kind: "rsa-pss", Hash: "sha256", AlgIDOverride: SigAlg{Kind: "rsa-pss", Hash: "sha256", SaltLen: 10}.AlgorithmIdentifier()}
				return mustSOD(t, s), genuineStore(w)
			}, check: func(t *testing.T, f *Facts, _ []AnchorFacts) {
				if len(f.Signers[0].SigVerifiesUnder) != 0 || !eqInts(f.Signers[0].SigVerifiesUnderDigestAlg, ints(0)) {
					t.Errorf("facts: %+v", f.Signers[0])
				}
			}},
		{name: "pss-declared-hash-differs-from-digest-algorithm", ks: pss, want: "any",
			build: func(t *testing.T, w *world) ([]byte, [][]byte) {
				// signature made with SHA-256 and declared so, SignerInfo.digestAlgorithm says SHA-1 (messageDigest is SHA-1)
				s := NewSODSpec(w.ds, w.dgs, signingTime)
				s.SD.Signers[0].DigestAlg = "sha1"
				s.SD.Signers[0].SigAlg = &SigAlg{Kind: "rsa-pss", Hash: "sha256"}
				return mustSOD(t, s), genuineStore(w)
			}, check: func(t *testing.T, f *Facts, _ []AnchorFacts) {
				if !eqInts(f.Signers[0].SigVerifiesUnder, ints(0)) || len(f.Signers[0].SigVerifiesUnderDigestAlg) != 0 || !f.MessageDigestOK {
					t.Errorf("facts: %+v", f.Signers[0])
				}
			}},
		{name: "ecdsa-oid-hash-differs-from-digest-algorithm", ks: ec, want: "any",
			build: func(t *testing.T, w *world) ([]byte, [][]byte) {
				// signed over the SHA-1 digest, labelled ecdsa-with-SHA256, digestAlgorithm SHA-1
				s := NewSODSpec(w.ds, w.dgs, signingTime)
				s.SD.Signers[0].DigestAlg = "sha1"
				s.SD.Signers[0].SigAlg = &SigAlg{Kind: "ecdsa", Hash: "sha1", AlgIDOverride: SigAlg{Kind: "ecdsa", Hash: "sha256"}.AlgorithmIdentifier()}
				return mustSOD(t, s), genuineStore(w)
			}, check: func(t *testing.T, f *Facts, _ []AnchorFacts) {
				if len(f.Signers[0].SigVerifiesUnder) != 0 || !eqInts(f.Signers[0].SigVerifiesUnderDigestAlg, ints(0)) {
					t.Errorf("facts: %+v", f.Signers[0])
				}
			}},
		{name: "sid-points-nowhere-single-embedded-cert", ks: rsa, want: "any",
			build: func(t *testing.T, w *world) ([]byte, [][]byte) {
				s := NewSODSpec(w.ds, w.dgs, signingTime)
				s.SD.Signers[0].SIDSerial = big.NewInt(12345)
				return mustSOD(t, s), genuineStore(w)
			}, check: func(t *testing.T, f *Facts, _ []AnchorFacts) {
				if len(f.Signers[0].MatchedEmbeddedCerts) != 0 || !eqInts(f.Signers[0].SigVerifiesUnder, ints(0)) {
					t.Errorf("facts: %+v", f.Signers[0])
				}
			}},
		{name: "sid-points-nowhere-two-embedded-certs", ks: rsa, want: "any",
			build: func(t *testing.T, w *world) ([]byte, [][]byte) {
				s := NewSODSpec(w.ds, w.dgs, signingTime)
				s.SD.Signers[0].SIDSerial = big.NewInt(12345)
				s.SD.Certs = [][]byte{w.ds.Cert, w.csca.Cert}
				return mustSOD(t, s), genuineStore(w)
			}, check: nil},
		{name: "signer-cert-embedded-twice", ks: rsa, want: "any",
			build: func(t *testing.T, w *world) ([]byte, [][]byte) {
				s := NewSODSpec(w.ds, w.dgs, signingTime)
				s.SD.Certs = [][]byte{w.ds.Cert, w.ds.Cert}
				return mustSOD(t, s), genuineStore(w)
			}, check: func(t *testing.T, f *Facts, _ []AnchorFacts) {
				if !eqInts(f.Signers[0].MatchedEmbeddedCerts, ints(0, 1)) {
					t.Errorf("facts: %+v", f.Signers[0])
				}
			}},
		{name: "duplicate-signed-attrs-second-copy-differs", ks: rsa, want: "any",
			build: func(t *testing.T, w *world) ([]byte, [][]byte) {
				s := NewSODSpec(w.ds, w.dgs, signingTime)
				s.SD.Signers[0].KeepAttrOrder = true
				s.SD.Signers[0].ExtraSignedAttrs = []Attr{{OIDMsgDigest, [][]byte{OctetString(Digest("sha256", []byte("x")))}}}
				return mustSOD(t, s), genuineStore(w)
			}, check: func(t *testing.T, f *Facts, _ []AnchorFacts) {
				if !f.Signers[0].DuplicateSignedAttrs || !f.MessageDigestOK {
					t.Errorf("facts: %+v", f.Signers[0])
				}
			}},
		{name: "signed-attrs-not-in-der-order", ks: rsa, want: "any",
			build: func(t *testing.T, w *world) ([]byte, [][]byte) {
				s := NewSODSpec(w.ds, w.dgs, signingTime)
				s.SD.Signers[0].KeepAttrOrder = true
				s.SD.Signers[0].ExtraSignedAttrs = []Attr{{"1.2.3", [][]byte{Null()}}} // shortest encoding, placed last
				return mustSOD(t, s), genuineStore(w)
			}, check: func(t *testing.T, f *Facts, _ []AnchorFacts) {
				if f.Signers[0].SignedAttrsDER || !eqInts(f.Signers[0].SigVerifiesUnder, ints(0)) {
					t.Errorf("facts: %+v", f.Signers[0])
				}
			}},
		{name: "trailing-bytes-after-sod", ks: rsa, want: "any",
			build: func(t *testing.T, w *world) ([]byte, [][]byte) {
				s := NewSODSpec(w.ds, w.dgs, signingTime)
				s.SD.Trailing = []byte{0, 0, 0}
				return mustSOD(t, s), genuineStore(w)
			}, check: func(t *testing.T, f *Facts, _ []AnchorFacts) {
				if f.TrailingBytes != 3 {
					t.Errorf("TrailingBytes %d", f.TrailingBytes)
				}
			}},
		{name: "ds-without-aki", ks: rsa, want: "any",
			build: func(t *testing.T, w *world) ([]byte, [][]byte) {
				ca, ds := reissue(t, w, nil, func(c *CertSpec) { c.AKI = &KeyID{Absent: true} })
				return mustSOD(t, NewSODSpec(ds, w.dgs, signingTime)), [][]byte{ca.Cert}
			}, check: func(t *testing.T, f *Facts, _ []AnchorFacts) {
				if f.Certs[0].AKI != nil || !eqInts(f.Certs[0].ChainsTo, ints(0)) || !eqInts(f.Certs[0].IssuerMatches, ints(0)) {
					t.Errorf("facts: %+v", f.Certs[0])
				}
			}},
		{name: "csca-without-ski", ks: rsa, want: "any",
			build: func(t *testing.T, w *world) ([]byte, [][]byte) {
				ca, ds := reissue(t, w, func(c *CertSpec) { c.SKI = &KeyID{Absent: true} }, nil)
				return mustSOD(t, NewSODSpec(ds, w.dgs, signingTime)), [][]byte{ca.Cert}
			}, check: func(t *testing.T, f *Facts, a []AnchorFacts) {
				if a[0].SKI != nil || !eqInts(f.Certs[0].ChainsTo, ints(0)) || len(f.Certs[0].AKIMatches) != 0 {
					t.Errorf("facts: %+v", f.Certs[0])
				}
			}},
		{name: "csca-v1-no-extensions", ks: rsa, want: "any",
			build: func(t *testing.T, w *world) ([]byte, [][]byte) {
				ca, ds := reissue(t, w, func(c *CertSpec) { c.Version = 1 }, nil)
				return mustSOD(t, NewSODSpec(ds, w.dgs, signingTime)), [][]byte{ca.Cert}
			}, check: func(t *testing.T, f *Facts, a []AnchorFacts) {
				if a[0].Version != 1 || a[0].HasExtensions || a[0].IsCA || !eqInts(f.Certs[0].ChainsTo, ints(0)) {
					t.Errorf("facts: %+v", a[0])
				}
			}},
		{name: "ec-explicit-params-without-cofactor", ks: bp, want: "any",
			build: func(t *testing.T, w *world) ([]byte, [][]byte) {
				noCof := bp
				noCof.OmitCofactor = true
				ca, ds := reissue(t, w, func(c *CertSpec) { c.Key = w.csca.Key.WithSpec(noCof) }, func(c *CertSpec) { c.Key = w.ds.Key.WithSpec(noCof) })
				return mustSOD(t, NewSODSpec(ds, w.dgs, signingTime)), [][]byte{ca.Cert}
			}, check: func(t *testing.T, f *Facts, _ []AnchorFacts) {
				if !f.Certs[0].KeyExplicit || f.Certs[0].KeyCurve != "brainpoolP256r1" || !eqInts(f.Signers[0].SigVerifiesUnder, ints(0)) || !eqInts(f.Certs[0].ChainsTo, ints(0)) {
					t.Errorf("facts: %+v", f.Certs[0])
				}
			}},
		{name: "ec-compressed-public-key", ks: ec, want: "any",
			build: func(t *testing.T, w *world) ([]byte, [][]byte) {
				k := w.ds.Key
				pt := append([]byte{2 + byte(k.Y.Bit(0))}, fixedBytes(k.X, k.Curve.FieldLen())...)
				spki := Seq(AlgID(OIDECPublicKey, OID(k.Curve.OID)), BitString(pt, 0))
				ca, ds := reissue(t, w, nil, func(c *CertSpec) { c.SPKIOverride = spki })
				return mustSOD(t, NewSODSpec(ds, w.dgs, signingTime)), [][]byte{ca.Cert}
			}, check: func(t *testing.T, f *Facts, _ []AnchorFacts) {
				if !f.Certs[0].KeyValid || !eqInts(f.Signers[0].SigVerifiesUnder, ints(0)) {
					t.Errorf("facts: %+v", f.Certs[0])
				}
			}},
		{name: "mixed-named-csca-explicit-ds", ks: bp, want: "accept",
			build: func(t *testing.T, w *world) ([]byte, [][]byte) {
				named := bp
				named.ExplicitParams = false
				ca, ds := reissue(t, w, func(c *CertSpec) { c.Key = w.csca.Key.WithSpec(named) }, nil)
				return mustSOD(t, NewSODSpec(ds, w.dgs, signingTime)), [][]byte{ca.Cert}
			}, check: sigOK},
		{name: "brainpoolP192r1-r-between-curve-orders", ks: bp192, want: "reject",
			build: func(t *testing.T, w *world) ([]byte, [][]byte) {
				// r' with n(brainpoolP192r1) <= r' < n(P-192): out of range for the key's curve, in range for the
				// same-size NIST curve the library falls back to
				nbp := CurveByName("brainpoolP192r1").N
				r := new(big.Int).Add(nbp, big.NewInt(5))
				if r.Cmp(CurveByName("P-192").N) >= 0 {
					t.Fatal("orders not as assumed")
				}
				s := NewSODSpec(w.ds, w.dgs, signingTime)
				s.SD.Signers[0].SignatureOverride = Seq(Int(r), Int(big.NewInt(7)))
				return mustSOD(t, s), genuineStore(w)
			}, check: func(t *testing.T, f *Facts, _ []AnchorFacts) {
				if len(f.Signers[0].SigVerifiesUnder) != 0 {
					t.Errorf("facts: %+v", f.Signers[0])
				}
			}},
		{name: "ec-point-on-other-curve-than-declared", ks: ec, want: "any",
			build: func(t *testing.T, w *world) ([]byte, [][]byte) {
				// DS key lives on brainpoolP256r1 but the certificate declares prime256v1
				k, err := GenerateKey(detRand(31337), KeySpec{Kind: "ecdsa", Curve: "brainpoolP256r1", Hash: "sha256"})
				if err != nil {
					t.Fatal(err)
				}
				spki := Seq(AlgID(OIDECPublicKey, OID(CurveByName("P-256").OID)), BitString(k.PublicKeyBits(), 0))
				ca, ds := reissue(t, w, nil, func(c *CertSpec) { c.Key = k; c.SPKIOverride = spki })
				return mustSOD(t, NewSODSpec(ds, w.dgs, signingTime)), [][]byte{ca.Cert}
			}, check: func(t *testing.T, f *Facts, _ []AnchorFacts) {
				if f.Certs[0].KeyValid || len(f.Signers[0].SigVerifiesUnder) != 0 || !eqInts(f.Certs[0].ChainsTo, ints(0)) {
					t.Errorf("facts: %+v", f.Certs[0])
				}
			}},
		{name: "ds-unknown-extension-critical-false-explicit", ks: rsa, want: "any",
			build: func(t *testing.T, w *world) ([]byte, [][]byte) {
				// BER (not DER): critical FALSE written out. The extension is not critical.
				ca, ds := reissue(t, w, nil, func(c *CertSpec) {
					c.ExtraExtensions = []Extension{{OID: "1.2.3.4.5", Value: Null(), ExplicitFalse: true}}
				})
				return mustSOD(t, NewSODSpec(ds, w.dgs, signingTime)), [][]byte{ca.Cert}
			}, check: func(t *testing.T, f *Facts, _ []AnchorFacts) {
				if f.Certs[0].UnknownCriticalExt || !eqInts(f.Certs[0].ChainsTo, ints(0)) {
					t.Errorf("facts: %+v", f.Certs[0])
				}
			}},
		{name: "validity-generalized-time-2055", ks: rsa, want: "accept",
			build: func(t *testing.T, w *world) ([]byte, [][]byte) {
				na := time.Date(2055, 1, 1, 0, 0, 0, 0, time.UTC)
				ca, ds := reissue(t, w, func(c *CertSpec) { c.NotAfter = na }, func(c *CertSpec) { c.NotAfter = na })
				return mustSOD(t, NewSODSpec(ds, w.dgs, signingTime)), [][]byte{ca.Cert}
			}, check: func(t *testing.T, f *Facts, _ []AnchorFacts) {
				if f.Certs[0].NotAfter.Year() != 2055 {
					t.Errorf("NotAfter %v", f.Certs[0].NotAfter)
				}
			}},
		{name: "validity-utctime-1999", ks: rsa, want: "reject",
			build: func(t *testing.T, w *world) ([]byte, [][]byte) {
				// DS valid 1998..1999 (UTCTime 98/99 = 19xx), signing time 2024
				nb, na := time.Date(1998, 1, 1, 0, 0, 0, 0, time.UTC), time.Date(1999, 1, 1, 0, 0, 0, 0, time.UTC)
				ca, ds := reissue(t, w, nil, func(c *CertSpec) { c.NotBefore, c.NotAfter = nb, na })
				return mustSOD(t, NewSODSpec(ds, w.dgs, signingTime)), [][]byte{ca.Cert}
			}, check: func(t *testing.T, f *Facts, _ []AnchorFacts) {
				if f.Certs[0].NotAfter.Year() != 1999 {
					t.Errorf("NotAfter %v", f.Certs[0].NotAfter)
				}
			}},
		{name: "country-lower-case-in-certificates", ks: rsa, want: "any",
			build: func(t *testing.T, w *world) ([]byte, [][]byte) {
				ca, ds := reissue(t, w, func(c *CertSpec) { c.Subject = DN("nl", "State", "CSCA") }, func(c *CertSpec) { c.Subject = DN("nl", "State", "DS") })
				return mustSOD(t, NewSODSpec(ds, w.dgs, signingTime)), [][]byte{ca.Cert}
			}, check: func(t *testing.T, f *Facts, _ []AnchorFacts) {
				if f.Certs[0].Country != "nl" {
					t.Errorf("Country %q", f.Certs[0].Country)
				}
			}},
		{name: "sid-issuer-utf8-vs-certificate-printable", ks: rsa, want: "accept",
			build: func(t *testing.T, w *world) ([]byte, [][]byte) {
				// same name, other string types and letter case in the SID: RFC 5280 7.1 says equal
				s := NewSODSpec(w.ds, w.dgs, signingTime)
				s.SD.Signers[0].SIDIssuerRaw = Name{
					{OID: OIDCountry, Value: "NL", Type: Printable},
					{OID: OIDOrganization, Value: "STATE  of the netherlands", Type: Printable},
					{OID: OIDCommonName, Value: "csca nl", Type: Printable},
				}.DER()
				s.SD.Certs = [][]byte{w.ds.Cert, w.csca.Cert}
				return mustSOD(t, s), genuineStore(w)
			}, check: func(t *testing.T, f *Facts, _ []AnchorFacts) {
				if !eqInts(f.Signers[0].MatchedEmbeddedCerts, ints(0)) {
					t.Errorf("facts: %+v", f.Signers[0])
				}
			}},
		{name: "two-signer-infos", ks: rsa, want: "accept",
			build: func(t *testing.T, w *world) ([]byte, [][]byte) {
				ds2, err := w.csca.IssueDS(CertSpec{Subject: DN("NL", "State of the Netherlands", "DS 2"), KeySlot: 9})
				if err != nil {
					t.Fatal(err)
				}
				s := NewSODSpec(w.ds, w.dgs, signingTime)
				st := signingTime
				s.SD.Signers = append(s.SD.Signers, SignerSpec{ID: &ds2.Entity, SigningTime: &st})
				return mustSOD(t, s), genuineStore(w)
			}, check: func(t *testing.T, f *Facts, _ []AnchorFacts) {
				if len(f.Signers) != 2 || !eqInts(f.Signers[1].SigVerifiesUnder, ints(1)) || !eqInts(f.Signers[1].MatchedEmbeddedCerts, ints(1)) {
					t.Errorf("facts: %+v", f.Signers)
				}
			}},
		{name: "second-signer-info-forged", ks: rsa, want: "reject",
			build: func(t *testing.T, w *world) ([]byte, [][]byte) {
				ds2, err := w.csca.IssueDS(CertSpec{Subject: DN("NL", "State of the Netherlands", "DS 2"), KeySlot: 9})
				if err != nil {
					t.Fatal(err)
				}
				s := NewSODSpec(w.ds, w.dgs, signingTime)
				st := signingTime
				s.SD.Signers = append(s.SD.Signers, SignerSpec{ID: &ds2.Entity, SigningTime: &st, CorruptSignature: true})
				return mustSOD(t, s), genuineStore(w)
			}, check: nil},
		{name: "empty-digest-algorithms-set", ks: rsa, want: "any",
			build: func(t *testing.T, w *world) ([]byte, [][]byte) {
				s := NewSODSpec(w.ds, w.dgs, signingTime)
				s.SD.EmptyDigestAlgorithms = true
				return mustSOD(t, s), genuineStore(w)
			}, check: sigOK},
		{name: "rsa-sigalg-without-null", ks: rsa, want: "any",
			build: func(t *testing.T, w *world) ([]byte, [][]byte) {
				a := SigAlg{Kind: "rsa", Hash: "sha256", OmitNull: true}
				ca, ds := reissue(t, w, func(c *CertSpec) { c.SigAlg = &a }, func(c *CertSpec) { c.SigAlg = &a })
				s := NewSODSpec(ds, w.dgs, signingTime)
				s.SD.Signers[0].SigAlg = &a
				return mustSOD(t, s), [][]byte{ca.Cert}
			}, check: sigOK},
		{name: "pss-key-with-id-RSASSA-PSS-spki", ks: pss, want: "any",
			build: func(t *testing.T, w *world) ([]byte, [][]byte) {
				k := pss
				k.PSSKeyOID = true
				ca, ds := reissue(t, w, nil, func(c *CertSpec) { c.Key = w.ds.Key.WithSpec(k) })
				return mustSOD(t, NewSODSpec(ds, w.dgs, signingTime)), [][]byte{ca.Cert}
			}, check: sigOK},
		{name: "no-embedded-certificates", ks: rsa, want: "any",
			build: func(t *testing.T, w *world) ([]byte, [][]byte) {
				s := NewSODSpec(w.ds, w.dgs, signingTime)
				s.SD.OmitCerts = true
				return mustSOD(t, s), genuineStore(w)
			}, check: func(t *testing.T, f *Facts, _ []AnchorFacts) {
				if len(f.Certs) != 0 || !f.Parseable {
					t.Errorf("facts: %+v", f)
				}
			}},
		{name: "ds-with-critical-eku-unrelated", ks: rsa, want: "any",
			build: func(t *testing.T, w *world) ([]byte, [][]byte) {
				ca, ds := reissue(t, w, nil, func(c *CertSpec) { c.EKU = []string{"1.3.6.1.5.5.7.3.1"}; c.EKUCritical = true })
				return mustSOD(t, NewSODSpec(ds, w.dgs, signingTime)), [][]byte{ca.Cert}
			}, check: func(t *testing.T, f *Facts, _ []AnchorFacts) {
				if !f.Certs[0].HasEKU || !f.Certs[0].EKUCritical || len(f.Certs[0].EKU) != 1 {
					t.Errorf("facts: %+v", f.Certs[0])
				}
			}},
		{name: "csca-critical-eku-without-any", ks: rsa, want: "any",
			build: func(t *testing.T, w *world) ([]byte, [][]byte) {
				ca, ds := reissue(t, w, func(c *CertSpec) { c.EKU = []string{"1.3.6.1.5.5.7.3.1"}; c.EKUCritical = true }, nil)
				return mustSOD(t, NewSODSpec(ds, w.dgs, signingTime)), [][]byte{ca.Cert}
			}, check: nil},
		{name: "ds-issuer-name-differs-from-csca-subject-aki-matches", ks: rsa, want: "reject",
			build: func(t *testing.T, w *world) ([]byte, [][]byte) {
				// RFC 5280 6.1: the issuer name of a certificate must be the subject name of its issuer
				ca, ds := reissue(t, w, nil, func(c *CertSpec) { c.Issuer = DN("NL", "Someone else", "Other CA") })
				return mustSOD(t, NewSODSpec(ds, w.dgs, signingTime)), [][]byte{ca.Cert}
			}, check: func(t *testing.T, f *Facts, _ []AnchorFacts) {
				if !eqInts(f.Certs[0].ChainsTo, ints(0)) || len(f.Certs[0].IssuerMatches) != 0 || !eqInts(f.Certs[0].AKIMatches, ints(0)) {
					t.Errorf("facts: %+v", f.Certs[0])
				}
			}},
		{name: "csca-path-len-absent", ks: rsa, want: "accept",
			build: func(t *testing.T, w *world) ([]byte, [][]byte) {
				ca, ds := reissue(t, w, func(c *CertSpec) { c.BasicConstraints = &BasicConstraints{CA: true, Critical: true} }, nil)
				return mustSOD(t, NewSODSpec(ds, w.dgs, signingTime)), [][]byte{ca.Cert}
			}, check: func(t *testing.T, f *Facts, a []AnchorFacts) {
				if a[0].PathLen != -1 || !a[0].IsCA {
					t.Errorf("facts: %+v", a[0])
				}
			}},
		{name: "sod-signed-by-master-list-signer", ks: rsa, want: "reject",
			build: func(t *testing.T, w *world) ([]byte, [][]byte) {
				// ICAO 9303-12 7.1.2: the master list signer certificate carries a critical extendedKeyUsage
				// id-icao-cscaMasterListSigningKey precisely so that it cannot be used as a document signer
				mls, err := w.csca.IssueMLSigner(CertSpec{Subject: DN("NL", "State of the Netherlands", "MLS"), KeySlot: 9})
				if err != nil {
					t.Fatal(err)
				}
				return mustSOD(t, NewSODSpec(mls, w.dgs, signingTime)), genuineStore(w)
			}, check: func(t *testing.T, f *Facts, _ []AnchorFacts) {
				if !f.Certs[0].EKUCritical || len(f.Certs[0].EKU) != 1 || f.Certs[0].EKU[0] != OIDCscaMLSigningKey || !eqInts(f.Certs[0].ChainsTo, ints(0)) {
					t.Errorf("facts: %+v", f.Certs[0])
				}
			}},
		{name: "duplicate-dg-number-second-entry-wrong", ks: rsa, want: "any",
			build: func(t *testing.T, w *world) ([]byte, [][]byte) {
				s := NewSODSpec(w.ds, w.dgs, signingTime)
				h := func(n int, v []byte) []byte { return Seq(IntN(int64(n)), OctetString(v)) }
				s.EContentOverride = Seq(IntN(0), AlgID(OIDSHA256, nil), Seq(
					h(1, Digest("sha256", w.dgs[1])), h(2, Digest("sha256", w.dgs[2])), h(2, Digest("sha256", []byte("other")))))
				return mustSOD(t, s), genuineStore(w)
			}, check: func(t *testing.T, f *Facts, _ []AnchorFacts) {
				if !f.DuplicateDGNumbers || !f.DGHashOK[2] {
					t.Errorf("facts: %v %v", f.DuplicateDGNumbers, f.DGHashOK)
				}
			}},
		{name: "duplicate-dg-number-first-entry-wrong", ks: rsa, want: "any",
			build: func(t *testing.T, w *world) ([]byte, [][]byte) {
				s := NewSODSpec(w.ds, w.dgs, signingTime)
				h := func(n int, v []byte) []byte { return Seq(IntN(int64(n)), OctetString(v)) }
				s.EContentOverride = Seq(IntN(0), AlgID(OIDSHA256, nil), Seq(
					h(1, Digest("sha256", w.dgs[1])), h(2, Digest("sha256", []byte("other"))), h(2, Digest("sha256", w.dgs[2]))))
				return mustSOD(t, s), genuineStore(w)
			}, check: func(t *testing.T, f *Facts, _ []AnchorFacts) {
				if !f.DuplicateDGNumbers || f.DGHashOK[2] {
					t.Errorf("facts: %v %v", f.DuplicateDGNumbers, f.DGHashOK)
				}
			}},
		{name: "lds-hash-sha1-signature-sha256", ks: rsa, want: "accept",
			build: func(t *testing.T, w *world) ([]byte, [][]byte) {
				s := NewSODSpec(w.ds, w.dgs, signingTime)
				s.DigestAlg = "sha1"
				return mustSOD(t, s), genuineStore(w)
			}, check: sigOK},
	}

	for _, sz := range []string{"224", "256", "384"} {
		sz := sz
		probes = append(probes, probe{name: "brainpoolP" + sz + "r1-r-between-curve-orders", want: "reject",
			ks: KeySpec{Kind: "ecdsa", Curve: "brainpoolP" + sz + "r1", ExplicitParams: true, Hash: "sha256"},
			build: func(t *testing.T, w *world) ([]byte, [][]byte) {
				r := new(big.Int).Add(CurveByName("brainpoolP"+sz+"r1").N, big.NewInt(5))
				if r.Cmp(CurveByName("P-"+sz).N) >= 0 {
					t.Fatal("orders not as assumed")
				}
				s := NewSODSpec(w.ds, w.dgs, signingTime)
				s.SD.Signers[0].SignatureOverride = Seq(Int(r), Int(big.NewInt(7)))
				return mustSOD(t, s), genuineStore(w)
			}})
	}

	worlds := map[string]*world{}
	for i, p := range probes {
		p := p
		w, ok := worlds[p.ks.String()]
		if !ok {
			w = newWorld(t, int64(800+i), p.ks)
			worlds[p.ks.String()] = w
		}
		t.Run(p.name, func(t *testing.T) {
			sod, store := p.build(t, w)
			f, a := ComputeFacts(sod, w.dgs, store)
			if f.InternalPanic != "" {
				t.Fatalf("internal panic: %s", f.InternalPanic)
			}
			if p.check != nil && f.Parseable && len(f.Signers) > 0 {
				p.check(t, f, a)
			}
			_, err := runPA(sod, w.dgs, nil, store)
			verdict := "accept"
			if err != nil {
				verdict = "reject: " + err.Error()
				if len(verdict) > 300 {
					verdict = verdict[:300] + "..."
				}
			}
			t.Logf("PROBE %-55s want=%-6s library=%s", p.name, p.want, verdict)
			switch {
			case err != nil && strings.Contains(err.Error(), "PANIC"):
				deviation(t, "panic/"+p.name, "%v", err)
			case p.want == "accept" && err != nil:
				deviation(t, "reject-probe/"+p.name, "%v", err)
			case p.want == "reject" && err == nil:
				deviation(t, "accept-probe/"+p.name, "accepted")
			}
		})
	}
}
