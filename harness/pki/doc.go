// Package pki is an independent e-passport issuing PKI and an independent
// verifier of atomic facts, used to bind the passive-authentication
// specification to the real code of github.com/gmrtd/gmrtd.
//
// The non-test files of this package do not import or copy the library under
// test. They are written from RFC 5652 (CMS), RFC 5280 (X.509), RFC 3279 / 4055
// / 5480 / 5758 (algorithm identifiers), RFC 8017 (RSA), ICAO Doc 9303 parts 10,
// 11 and 12 (LDS security object, CSCA / DS profiles, master list), BSI TR-03110
// (EF.CardSecurity) and BSI TR-03111 / X9.62 (ECDSA, explicit EC parameters) on
// top of math/big and the standard hash functions. github.com/osanderson/brainpool
// is used only as a source of the brainpool curve constants. The test files do
// import the library: they check that genuine objects are accepted and forged
// ones rejected, and they document where the library deviates.
//
// # Generator
//
// Keys
//
//	KeySpec{Kind "rsa"|"rsa-pss"|"ecdsa", Bits, Curve, ExplicitParams, Hash}
//	GenerateKey(rnd, spec) / GenerateKeySlot(rnd, spec, slot) / GenerateFreshKey(rnd, spec) -> *KeyPair
//	InjectRSAKey(key, slot), NewRSAKeyFromPrimes(p, q, e), GenerateRSAKey(rnd, bits)
//	(*KeyPair).SPKI(), .KeyIdentifier(), .WithSpec(spec)
//	AllKeySpecs(), CoveringKeySpecs(), CurveNames, Hashes, RSASizes
//
// Key generation is a deterministic function of the bytes read from rnd. RSA
// keys are pooled per (modulus size, slot) because generation is slow; EC keys
// are always fresh. Curves: P-192, P-224, P-256, P-384, P-521,
// brainpoolP{192,224,256,320,384,512}r1, as named curve or with explicit
// parameters. All EC arithmetic and ECDSA are implemented here (type Curve).
//
// Signatures
//
//	SigAlg{Kind, Hash, PlainRSAOID, OmitNull, MGFHash, SaltLen, NoSalt, PSSExplicitDefaults, PSSOmitParams, ECDSANullParams, AlgIDOverride}
//	Sign(rnd, key, alg, data), SignDigest(rnd, key, alg, digest), (SigAlg).AlgorithmIdentifier()
//
// RSASSA-PSS defaults to MGF1 with the same hash, salt length = hash length,
// trailer 1; the parameters are DER encoded (components equal to their DEFAULT
// are omitted) unless PSSExplicitDefaults is set.
//
// Certificates
//
//	CertSpec{Rand, Version, Serial, Subject/SubjectRaw, Issuer/IssuerRaw, NotBefore, NotAfter, TimeForm,
//	         Key/KeySpec/KeySlot/SPKIOverride, BasicConstraints, KeyUsage, SKI, AKI, EKU, EKUCritical,
//	         ExtraExtensions, NoExtensions, SigAlg, SignKey, InnerSigAlgDER, OuterSigAlgDER,
//	         SignatureOverride, CorruptSignature}
//	NewCA(spec) -> *Authority                       self-signed CSCA
//	(*Authority).IssueCA(spec) -> *Authority        link certificate / cross certificate
//	(*Authority).CrossSign(other, spec) -> *Authority   same subject, key and SKI as other, issued by the receiver
//	(*Authority).IssueDS(spec) -> *Signer           document signer
//	(*Authority).IssueMLSigner(spec) -> *Signer     master list signer (critical EKU id-icao-cscaMasterListSigningKey)
//	Name / ATV / DN(c, o, cn) / ParseDN("C=NL,O=..,CN=..")
//
// Zero-valued fields take the ICAO 9303-12 profile of the issuing function;
// every attribute the passive-authentication procedure can look at has a knob
// (validity window, basicConstraints present/absent/cA/pathLen, keyUsage bits /
// absent / critical, unknown critical extensions, EKU, SKI / AKI absent or
// overridden, issuer and subject names with string types and RDN structure,
// signature algorithm and its encoding, a foreign signing key, a corrupted
// signature).
//
// CMS objects
//
//	SignedDataSpec{Version, DigestAlgorithms, EContentType, EContent, Detached, Certs, NoCerts, OmitCerts, CRLs,
//	               Signers []SignerSpec, Indefinite, IndefiniteSets, EContentChunk, Wrap77, Wrap77Indefinite, Trailing}
//	SignerSpec{ID, Key, Version, SID, SIDIssuerRaw, SIDSerial, SIDSKI, SIDRaw, DigestAlg, NoSignedAttrs,
//	           OmitContentType, OmitMessageDigest, ContentType, MessageDigest, SigningTime, ExtraSignedAttrs,
//	           KeepAttrOrder, DuplicateAttrs, SigAlg, SignatureOverride, CorruptSignature, UnsignedAttrs}
//	BuildSignedData(spec)
//	SODSpec{LDSVersion, LDSVersionInfo, DigestAlg, HashAlgNull, DGs, DGHashes, DGOrder, EContentOverride, SD}
//	NewSODSpec(ds, dgs, signingTime) -> genuine spec to be modified;  BuildSOD(spec)
//	CardSecuritySpec{SecurityInfos, SD};  NewCardSecuritySpec(ds, secInfos, t);  BuildCardSecurity(spec)
//	MasterListSpec{Version, KeepOrder, SD, SigningTime, ExtraCerts};  BuildMasterList(signer, certs, spec)
//	MakeTD3MRZ(state, docNo), MakeDG1(mrz), MRZCheckDigit(s)
//
// Indefinite produces a valid BER indefinite-length encoding of ContentInfo,
// its [0], SignedData, EncapsulatedContentInfo and its [0] (the signed
// attributes and certificates stay DER as RFC 5652 requires); EContentChunk
// additionally splits eContent into a constructed OCTET STRING.
//
// # Scenarios
//
//	Scenario{Name, Class "genuine"|"forgery"|"probe", Note, KnownDeviation, SOD, DGs, CardSec, Trust, KeySpec, MasterList, MLExpectCerts}
//	Scenarios(seed, ks) -> every recipe for one key spec;  BaseScenarios(seed, ks) -> genuine base + elementary forgeries
//	GenuineScenario(seed, ks, Variant{SIDSKI, LDSv1, Indefinite, NoSigningTime, ExtraCertsBefore, ExtraCertsAfter,
//	    CrossSignedFirst, CrossSignedSecond, RDNOrderPermuted, NameStringType, SigningTimeAtNotBefore, SigningTimeAtNotAfter, WithCardSecurity})
//	KnownDeviations (descriptions of Scenario.KnownDeviation), ScenarioSigningTime, TestSecurityInfos()
//
// Scenarios are deterministic functions of (seed, key spec). Pooled RSA keys
// depend only on (modulus size, slot) and are the same for every seed.
//
// # Facts
//
//	ComputeFacts(sodOrCms, dgs, trustStore) -> (*Facts, []AnchorFacts)
//	CertificateFacts(cert, trustStore) -> CertFacts
//	VerifySig(spki, sigAlgDER, signed, sig), VerifySigWithDigest(spki, sigAlgDER, digestAlg, signed, sig)
//	KnownExtensionOIDs, InternalPanics()
//
// ComputeFacts reads EF.SOD (with or without the 0x77 wrapper), EF.CardSecurity
// or a master list with its own lenient BER reader (indefinite lengths,
// constructed OCTET STRINGs, non-minimal lengths; arbitrary bytes never make it
// panic: Facts.Parseable is false instead) and reports atomic facts only: the
// recorded data group hashes and whether each supplied data group matches,
// per SignerInfo whether contentType and messageDigest match the content
// actually present, the signing time, which embedded certificates the SID
// identifies and under which embedded keys the signature verifies, and per
// embedded or trust-store certificate its countries, validity, extensions and
// which trust-store keys verify its signature. Whether a document is valid is
// deliberately not computed here.
package pki
