package pki

import (
	"bytes"
	"crypto"
	"crypto/ecdsa"
	"crypto/elliptic"
	"crypto/rand"
	"crypto/rsa"
	"crypto/x509"
	"encoding/asn1"
	"math/big"
	mrand "math/rand"
	"testing"
)

// detRand is a deterministic byte stream for tests.
func detRand(seed int64) *mrand.Rand { return mrand.New(mrand.NewSource(seed)) }

func TestCurveParameters(t *testing.T) {
	for _, name := range CurveNames {
		c := CurveByName(name)
		if c == nil {
			t.Fatalf("%s missing", name)
		}
		if !c.IsOnCurve(c.Gx, c.Gy) {
			t.Errorf("%s: G not on curve", name)
		}
		if !c.P.ProbablyPrime(20) || !c.N.ProbablyPrime(20) {
			t.Errorf("%s: p or n not prime", name)
		}
		if _, _, ok := c.ScalarBaseMult(c.N); ok {
			t.Errorf("%s: n*G is not the point at infinity", name)
		}
		nm1 := new(big.Int).Sub(c.N, big.NewInt(1))
		x, y, ok := c.ScalarBaseMult(nm1)
		if !ok || x.Cmp(c.Gx) != 0 || new(big.Int).Add(y, c.Gy).Cmp(c.P) != 0 {
			t.Errorf("%s: (n-1)*G != -G", name)
		}
	}
	// RFC 5639 3.4: brainpoolP256r1 A and B
	c := CurveByName("brainpoolP256r1")
	if c.A.Cmp(hexInt("7D5A0975FC2C3057EEF67530417AFFE7FB8055C126DC5C6CE94A4B44F330B5D9")) != 0 ||
		c.B.Cmp(hexInt("26DC5C6CE94A4B44F330B5D9BBD77CBF958416295CF7E1CE6BCCDC18FF8C07B6")) != 0 {
		t.Errorf("brainpoolP256r1 A/B differ from RFC 5639: %x %x", c.A, c.B)
	}
}

func TestScalarMultAgainstStdlib(t *testing.T) {
	rnd := detRand(1)
	for name, ec := range map[string]elliptic.Curve{"P-224": elliptic.P224(), "P-256": elliptic.P256(), "P-384": elliptic.P384(), "P-521": elliptic.P521()} {
		c := CurveByName(name)
		for i := 0; i < 5; i++ {
			k, _ := c.randScalar(rnd)
			x, y, ok := c.ScalarBaseMult(k)
			sx, sy := ec.ScalarBaseMult(k.Bytes()) //nolint:staticcheck
			if !ok || x.Cmp(sx) != 0 || y.Cmp(sy) != 0 {
				t.Fatalf("%s: scalar mult differs from crypto/elliptic", name)
			}
		}
	}
}

func TestECDSAAgainstStdlib(t *testing.T) {
	rnd := detRand(2)
	for name, ec := range map[string]elliptic.Curve{"P-224": elliptic.P224(), "P-256": elliptic.P256(), "P-384": elliptic.P384(), "P-521": elliptic.P521()} {
		for _, h := range Hashes {
			kp, err := GenerateKey(rnd, KeySpec{Kind: "ecdsa", Curve: name, Hash: h})
			if err != nil {
				t.Fatal(err)
			}
			msg := []byte("message " + name + h)
			sig, err := Sign(rnd, kp, DefaultSigAlg(kp), msg)
			if err != nil {
				t.Fatal(err)
			}
			pub := &ecdsa.PublicKey{Curve: ec, X: kp.X, Y: kp.Y}
			if !ecdsa.VerifyASN1(pub, Digest(h, msg), sig) {
				t.Errorf("%s/%s: crypto/ecdsa rejects own signature", name, h)
			}
			// named-curve SPKI must be what crypto/x509 understands
			if _, err := x509.ParsePKIXPublicKey(kp.SPKI()); err != nil {
				t.Errorf("%s: x509 cannot parse SPKI: %v", name, err)
			}
			// stdlib signs, own verifier checks
			priv := &ecdsa.PrivateKey{PublicKey: *pub, D: kp.D}
			sig2, err := ecdsa.SignASN1(rand.Reader, priv, Digest(h, msg))
			if err != nil {
				t.Fatal(err)
			}
			alg := DefaultSigAlg(kp).AlgorithmIdentifier()
			if !VerifySig(kp.SPKI(), alg, msg, sig2) {
				t.Errorf("%s/%s: own verifier rejects crypto/ecdsa signature", name, h)
			}
			sig2[len(sig2)-1] ^= 1
			if VerifySig(kp.SPKI(), alg, msg, sig2) {
				t.Errorf("%s/%s: own verifier accepts corrupted signature", name, h)
			}
		}
	}
}

func TestECDSAAllCurvesRoundTrip(t *testing.T) {
	rnd := detRand(3)
	for _, name := range CurveNames {
		for _, explicit := range []bool{false, true} {
			kp, err := GenerateKey(rnd, KeySpec{Kind: "ecdsa", Curve: name, ExplicitParams: explicit, Hash: "sha256"})
			if err != nil {
				t.Fatal(err)
			}
			msg := []byte("m" + name)
			sig, err := Sign(rnd, kp, DefaultSigAlg(kp), msg)
			if err != nil {
				t.Fatal(err)
			}
			alg := DefaultSigAlg(kp).AlgorithmIdentifier()
			if !VerifySig(kp.SPKI(), alg, msg, sig) {
				t.Errorf("%s explicit=%v: round trip fails", name, explicit)
			}
			if VerifySig(kp.SPKI(), alg, append(msg, 1), sig) {
				t.Errorf("%s explicit=%v: accepts other message", name, explicit)
			}
			pk := parseSPKI(kp.SPKI())
			if pk == nil || !pk.valid || pk.curveName != name || pk.explicit != explicit {
				t.Errorf("%s explicit=%v: SPKI facts wrong: %+v", name, explicit, pk)
			}
		}
	}
}

func stdHash(h string) crypto.Hash {
	return map[string]crypto.Hash{"sha1": crypto.SHA1, "sha224": crypto.SHA224, "sha256": crypto.SHA256, "sha384": crypto.SHA384, "sha512": crypto.SHA512}[h]
}

func TestRSAAgainstStdlib(t *testing.T) {
	rnd := detRand(4)
	for _, bits := range []int{1024, 2048} {
		kp, err := GenerateKey(rnd, KeySpec{Kind: "rsa", Bits: bits, Hash: "sha256"})
		if err != nil {
			t.Fatal(err)
		}
		if kp.RSA.N.BitLen() != bits {
			t.Fatalf("modulus has %d bits", kp.RSA.N.BitLen())
		}
		pubAny, err := x509.ParsePKIXPublicKey(kp.SPKI())
		if err != nil {
			t.Fatal(err)
		}
		pub := pubAny.(*rsa.PublicKey)
		priv := &rsa.PrivateKey{PublicKey: *pub, D: kp.RSA.D, Primes: []*big.Int{kp.RSA.P, kp.RSA.Q}}
		if err := priv.Validate(); err != nil {
			t.Fatalf("stdlib rejects generated key: %v", err)
		}
		priv.Precompute()
		for _, h := range Hashes {
			msg := []byte("rsa message " + h)
			d := Digest(h, msg)
			// PKCS#1 v1.5
			a := SigAlg{Kind: "rsa", Hash: h}
			sig, err := Sign(rnd, kp, a, msg)
			if err != nil {
				t.Fatal(err)
			}
			if err := rsa.VerifyPKCS1v15(pub, stdHash(h), d, sig); err != nil {
				t.Errorf("rsa/%d/%s: stdlib rejects own PKCS1 signature: %v", bits, h, err)
			}
			sig2, err := rsa.SignPKCS1v15(nil, priv, stdHash(h), d)
			if err != nil {
				t.Fatal(err)
			}
			if !bytes.Equal(sig, sig2) {
				t.Errorf("rsa/%d/%s: PKCS1 signature differs from stdlib", bits, h)
			}
			if !VerifySig(kp.SPKI(), a.AlgorithmIdentifier(), msg, sig2) {
				t.Errorf("rsa/%d/%s: own verifier rejects stdlib PKCS1 signature", bits, h)
			}
			// rsaEncryption OID + digest hint
			plain := SigAlg{Kind: "rsa", Hash: h, PlainRSAOID: true}
			if VerifySig(kp.SPKI(), plain.AlgorithmIdentifier(), msg, sig2) {
				t.Errorf("rsaEncryption without digest hint must not verify")
			}
			if !VerifySigWithDigest(kp.SPKI(), plain.AlgorithmIdentifier(), h, msg, sig2) {
				t.Errorf("rsaEncryption with digest hint must verify")
			}
			// PSS
			if bits == 1024 && h == "sha512" {
				continue // salt length = hash length does not fit
			}
			p := SigAlg{Kind: "rsa-pss", Hash: h}
			sig, err = Sign(rnd, kp, p, msg)
			if err != nil {
				t.Fatal(err)
			}
			if err := rsa.VerifyPSS(pub, stdHash(h), d, sig, &rsa.PSSOptions{SaltLength: rsa.PSSSaltLengthEqualsHash, Hash: stdHash(h)}); err != nil {
				t.Errorf("pss/%d/%s: stdlib rejects own PSS signature: %v", bits, h, err)
			}
			sig2, err = rsa.SignPSS(rand.Reader, priv, stdHash(h), d, &rsa.PSSOptions{SaltLength: rsa.PSSSaltLengthEqualsHash, Hash: stdHash(h)})
			if err != nil {
				t.Fatal(err)
			}
			if !VerifySig(kp.SPKI(), p.AlgorithmIdentifier(), msg, sig2) {
				t.Errorf("pss/%d/%s: own verifier rejects stdlib PSS signature", bits, h)
			}
			// declared salt length is enforced
			wrong := SigAlg{Kind: "rsa-pss", Hash: h, SaltLen: HashSize(h) - 1}
			if VerifySig(kp.SPKI(), wrong.AlgorithmIdentifier(), msg, sig2) {
				t.Errorf("pss/%d/%s: salt length not enforced", bits, h)
			}
			sig2[5] ^= 0x10
			if VerifySig(kp.SPKI(), p.AlgorithmIdentifier(), msg, sig2) {
				t.Errorf("pss/%d/%s: corrupted signature accepted", bits, h)
			}
		}
	}
}

func TestDERAgainstEncodingASN1(t *testing.T) {
	for _, v := range []int64{0, 1, 127, 128, 255, 256, -1, -128, -129, 65535, -65536, 1 << 40} {
		want, _ := asn1.Marshal(big.NewInt(v))
		if got := IntN(v); !bytes.Equal(got, want) {
			t.Errorf("Int(%d) = %x want %x", v, got, want)
		}
	}
	for _, o := range []string{OIDSignedData, OIDLDSSecurityObject, OIDSecurityObject, "1.2.528.1.1006.1.20.1", "2.999.3", curveOIDs["brainpoolP512r1"]} {
		var parsed asn1.ObjectIdentifier
		if _, err := asn1.Unmarshal(OID(o), &parsed); err != nil || parsed.String() != o {
			t.Errorf("OID %s: %v %v", o, parsed, err)
		}
		n, _, _ := parseAll(OID(o))
		if n.oid() != o {
			t.Errorf("own OID decoder: %s != %s", n.oid(), o)
		}
	}
	want, _ := asn1.Marshal(asn1.BitString{Bytes: []byte{0x06}, BitLength: 7})
	if got := NamedBits([]int{KUKeyCertSign, KUCRLSign}); !bytes.Equal(got, want) {
		t.Errorf("NamedBits = %x want %x", got, want)
	}
	if got := NamedBits([]int{KUDigitalSignature}); !bytes.Equal(got, []byte{3, 2, 7, 0x80}) {
		t.Errorf("NamedBits(digitalSignature) = %x", got)
	}
	if l := TLV(0x30, make([]byte, 300)); l[1] != 0x82 || l[2] != 0x01 || l[3] != 0x2c {
		t.Errorf("long length wrong: %x", l[:4])
	}
}

func TestKeyGenDeterministic(t *testing.T) {
	a, _ := GenerateFreshKey(detRand(7), KeySpec{Kind: "rsa", Bits: 1024, Hash: "sha256"})
	b, _ := GenerateFreshKey(detRand(7), KeySpec{Kind: "rsa", Bits: 1024, Hash: "sha256"})
	if a.RSA.N.Cmp(b.RSA.N) != 0 {
		t.Error("RSA key generation is not a function of the seed")
	}
	c, _ := GenerateKey(detRand(7), KeySpec{Kind: "ecdsa", Curve: "brainpoolP256r1", Hash: "sha256"})
	d, _ := GenerateKey(detRand(7), KeySpec{Kind: "ecdsa", Curve: "brainpoolP256r1", Hash: "sha256"})
	if c.D.Cmp(d.D) != 0 {
		t.Error("EC key generation is not a function of the seed")
	}
	if n := len(AllKeySpecs()); n != 2*4*5-1+11*2*5 {
		t.Errorf("AllKeySpecs has %d entries", n)
	}
}

func TestBERReader(t *testing.T) {
	in := TLVIndef(0x30, IntN(5), TLVIndef(0x31, Null(), TLVIndef(0x24, OctetString([]byte("ab")), OctetString([]byte("cd")))))
	n, trailing, err := parseAll(append(in, 0xff))
	if err != nil || trailing != 1 || !n.indef {
		t.Fatalf("parse: %v %d", err, trailing)
	}
	want := Seq(IntN(5), Set(Null(), TLV(0x24, OctetString([]byte("ab")), OctetString([]byte("cd")))))
	if got := n.toDER(0); !bytes.Equal(got, want) {
		t.Errorf("toDER = %x want %x", got, want)
	}
	ks, _ := n.kids(0)
	ks2, _ := ks[1].kids(0)
	if b, ok := ks2[1].octets(0); !ok || string(b) != "abcd" {
		t.Errorf("constructed OCTET STRING = %q", b)
	}
	// non-minimal length octets are accepted and normalised
	nm := []byte{0x30, 0x82, 0x00, 0x04, 0x02, 0x81, 0x01, 0x05}
	n, _, err = parseAll(nm)
	if err != nil {
		t.Fatal(err)
	}
	if got := n.toDER(0); !bytes.Equal(got, Seq(IntN(5))) {
		t.Errorf("toDER(non-minimal) = %x", got)
	}
	// garbage
	for _, g := range [][]byte{nil, {0x30}, {0x30, 0x80}, {0x30, 0x80, 0x00}, {0x04, 0x80, 0, 0}, {0x30, 0x89, 1, 1, 1, 1, 1, 1, 1, 1, 1}, {0x1f, 0xff, 0xff, 0xff, 0xff, 0xff}, {0x30, 0x84, 0xff, 0xff, 0xff, 0xff}} {
		if _, _, err := parseAll(g); err == nil {
			t.Errorf("%x accepted", g)
		}
	}
	// UTCTime pivot (RFC 5280): 49 -> 2049, 50 -> 1950
	for s, y := range map[string]int{"490101000000Z": 2049, "500101000000Z": 1950, "990101000000Z": 1999, "000101000000Z": 2000} {
		n, _, _ := parseAll(TLV(tagUTCTime, []byte(s)))
		if tm, ok := n.timeValue(); !ok || tm.Year() != y {
			t.Errorf("UTCTime %s -> %v", s, tm)
		}
	}
}
