package pki

import (
	"errors"
	"math/big"
	"time"
)

// A lenient BER reader (X.690): definite lengths in any (also non-minimal)
// form, indefinite lengths on constructed elements, multi-octet tag numbers.
// It never panics; malformed input gives an error.

const berMaxDepth = 48

var errBER = errors.New("pki: malformed BER")

type node struct {
	class int // 0 universal, 1 application, 2 context-specific, 3 private
	tag   int // tag number
	cons  bool
	indef bool
	id    []byte // identifier octets as received
	full  []byte // the complete element as received (for indefinite: including the end-of-contents octets)
	body  []byte // contents octets (for indefinite: without the end-of-contents octets)
}

// parseNode reads one element from b and returns it with the remaining bytes.
func parseNode(b []byte, depth int) (*node, []byte, error) {
	if depth > berMaxDepth || len(b) < 2 {
		return nil, nil, errBER
	}
	n := &node{class: int(b[0] >> 6), cons: b[0]&0x20 != 0, tag: int(b[0] & 0x1f)}
	i := 1
	if n.tag == 0x1f {
		n.tag = 0
		for cnt := 0; ; cnt++ {
			if i >= len(b) || cnt >= 4 {
				return nil, nil, errBER
			}
			c := b[i]
			i++
			n.tag = n.tag<<7 | int(c&0x7f)
			if c&0x80 == 0 {
				break
			}
		}
	}
	n.id = b[:i]
	if i >= len(b) {
		return nil, nil, errBER
	}
	l := b[i]
	i++
	switch {
	case l < 0x80:
		if int(l) > len(b)-i {
			return nil, nil, errBER
		}
		n.body = b[i : i+int(l)]
		n.full = b[:i+int(l)]
		return n, b[i+int(l):], nil
	case l == 0x80:
		if !n.cons {
			return nil, nil, errBER
		}
		n.indef = true
		rest := b[i:]
		for {
			if len(rest) < 2 {
				return nil, nil, errBER
			}
			if rest[0] == 0 && rest[1] == 0 {
				used := len(b) - len(rest)
				n.body = b[i:used]
				n.full = b[:used+2]
				return n, rest[2:], nil
			}
			_, r, err := parseNode(rest, depth+1)
			if err != nil {
				return nil, nil, err
			}
			rest = r
		}
	default:
		k := int(l & 0x7f)
		if k > 8 || k > len(b)-i {
			return nil, nil, errBER
		}
		var ln uint64
		for j := 0; j < k; j++ {
			ln = ln<<8 | uint64(b[i+j])
		}
		i += k
		if ln > uint64(len(b)-i) {
			return nil, nil, errBER
		}
		n.body = b[i : i+int(ln)]
		n.full = b[:i+int(ln)]
		return n, b[i+int(ln):], nil
	}
}

// kids parses the contents of a constructed element. On error the elements
// parsed so far are returned together with the error.
func (n *node) kids(depth int) ([]*node, error) {
	if n == nil || !n.cons {
		return nil, errBER
	}
	var out []*node
	rest := n.body
	for len(rest) > 0 {
		c, r, err := parseNode(rest, depth+1)
		if err != nil {
			return out, err
		}
		out = append(out, c)
		rest = r
		if len(out) > 100000 {
			return out, errBER
		}
	}
	return out, nil
}

func (n *node) isU(tag int) bool { return n != nil && n.class == 0 && n.tag == tag }
func (n *node) isC(tag int) bool { return n != nil && n.class == 2 && n.tag == tag }

// toDER re-encodes the element with minimal definite lengths throughout
// (contents and order of members are not changed). If a constructed element
// cannot be parsed it is returned as received.
func (n *node) toDER(depth int) []byte {
	var content []byte
	if n.cons && depth < berMaxDepth {
		ks, err := n.kids(depth)
		if err != nil {
			if n.indef {
				content = n.body
			} else {
				return n.full
			}
		} else {
			for _, k := range ks {
				content = append(content, k.toDER(depth+1)...)
			}
		}
	} else {
		content = n.body
	}
	out := append([]byte{}, n.id...)
	out = append(out, derLen(len(content))...)
	return append(out, content...)
}

// octets returns the value of an OCTET STRING (or implicitly tagged one),
// concatenating the segments of the constructed form.
func (n *node) octets(depth int) ([]byte, bool) {
	if n == nil {
		return nil, false
	}
	if !n.cons {
		return n.body, true
	}
	if depth > berMaxDepth {
		return nil, false
	}
	ks, err := n.kids(depth)
	if err != nil {
		return nil, false
	}
	var out []byte
	for _, k := range ks {
		if !k.isU(tagOctetString) {
			return nil, false
		}
		b, ok := k.octets(depth + 1)
		if !ok {
			return nil, false
		}
		out = append(out, b...)
	}
	return out, true
}

// integer decodes a two's complement INTEGER.
func (n *node) integer() (*big.Int, bool) {
	if n == nil || n.cons || len(n.body) == 0 || len(n.body) > 4096 {
		return nil, false
	}
	v := new(big.Int).SetBytes(n.body)
	if n.body[0]&0x80 != 0 {
		v.Sub(v, new(big.Int).Lsh(big.NewInt(1), uint(8*len(n.body))))
	}
	return v, true
}

func (n *node) smallInt() (int, bool) {
	v, ok := n.integer()
	if !ok || !v.IsInt64() || v.Int64() > 1<<30 || v.Int64() < -(1<<30) {
		return 0, false
	}
	return int(v.Int64()), true
}

func (n *node) oid() string {
	if !n.isU(tagOID) || n.cons {
		return ""
	}
	return oidString(n.body)
}

// bitString returns the octets of a primitive BIT STRING and its unused-bit count.
func (n *node) bitString() ([]byte, int, bool) {
	if n == nil || n.cons || len(n.body) < 1 || n.body[0] > 7 {
		return nil, 0, false
	}
	if len(n.body) == 1 && n.body[0] != 0 {
		return nil, 0, false
	}
	return n.body[1:], int(n.body[0]), true
}

// timeValue decodes UTCTime / GeneralizedTime leniently.
func (n *node) timeValue() (time.Time, bool) {
	if n == nil || n.cons || n.class != 0 {
		return time.Time{}, false
	}
	s := string(n.body)
	var layouts []string
	switch n.tag {
	case tagUTCTime:
		layouts = []string{"060102150405Z", "0601021504Z", "060102150405-0700", "0601021504-0700"}
	case tagGeneralizedTime:
		layouts = []string{"20060102150405Z", "20060102150405.999999999Z", "200601021504Z", "20060102150405-0700", "20060102150405.999999999-0700"}
	default:
		return time.Time{}, false
	}
	for _, l := range layouts {
		t, err := time.Parse(l, s)
		if err != nil {
			continue
		}
		if n.tag == tagUTCTime {
			// RFC 5280 4.1.2.5.1: YY >= 50 is 19YY, YY < 50 is 20YY (Go uses 69 as the pivot)
			if t.Year() >= 2050 {
				t = t.AddDate(-100, 0, 0)
			}
		}
		return t.UTC(), true
	}
	return time.Time{}, false
}

// parseAll parses b as exactly one element and reports the number of trailing bytes.
func parseAll(b []byte) (*node, int, error) {
	n, rest, err := parseNode(b, 0)
	if err != nil {
		return nil, 0, err
	}
	return n, len(rest), nil
}
