package pki

import (
	"errors"
	"math/big"
	"time"
)

// A lenient BER reader (X.690): definite lengths in any (also non-minimal)
// form, indefinite lengths on constructed elements, multi-octet tag numbers.
// It never panics; malformed input gives an error.

const berMaxDepth = 48

var errBER = errors.New("pki: malformed BER")

type node struct {
	class int // 0 universal, 1 application, 2 context-specific, 3 private
	tag   int // tag number
	cons  bool
	indef bool
	id    []byte // identifier octets as received
	full  []byte // the complete element as received (for indefinite: including the end-of-contents octets)
	body  []byte // contents octets (for indefinite: without the end-of-contents octets)
}

// header is a decoded identifier + length prefix.
type header struct {
	class, tag int
	cons       bool
	idLen      int    // identifier octets
	hdrLen     int    // identifier + length octets
	indef      bool   // indefinite-length form
	length     uint64 // declared definite length
}

func parseHeader(b []byte) (h header, err error) {
	if len(b) < 2 {
		return h, errBER
	}
	h.class, h.cons, h.tag = int(b[0]>>6), b[0]&0x20 != 0, int(b[0]&0x1f)
	i := 1
	if h.tag == 0x1f {
		h.tag = 0
		for cnt := 0; ; cnt++ {
			if i >= len(b) || cnt >= 4 {
				return h, errBER
			}
			c := b[i]
			i++
			h.tag = h.tag<<7 | int(c&0x7f)
			if c&0x80 == 0 {
				break
			}
		}
	}
	h.idLen = i
	if i >= len(b) {
		return h, errBER
	}
	l := b[i]
	i++
	switch {
	case l < 0x80:
		h.length = uint64(l)
	case l == 0x80:
		if !h.cons {
			return h, errBER
		}
		h.indef = true
	default:
		k := int(l & 0x7f)
		if k > 8 || k > len(b)-i {
			return h, errBER
		}
		for j := 0; j < k; j++ {
			h.length = h.length<<8 | uint64(b[i+j])
		}
		i += k
	}
	h.hdrLen = i
	return h, nil
}

// parseNode reads one element from b and returns it with the remaining bytes.
func parseNode(b []byte, depth int) (*node, []byte, error) {
	if depth > berMaxDepth {
		return nil, nil, errBER
	}
	h, err := parseHeader(b)
	if err != nil {
		return nil, nil, err
	}
	n := &node{class: h.class, tag: h.tag, cons: h.cons, indef: h.indef, id: b[:h.idLen]}
	i := h.hdrLen
	if !h.indef {
		if h.length > uint64(len(b)-i) {
			return nil, nil, errBER
		}
		end := i + int(h.length)
		n.body = b[i:end]
		n.full = b[:end]
		return n, b[end:], nil
	}
	rest := b[i:]
	for {
		if len(rest) < 2 {
			return nil, nil, errBER
		}
		if rest[0] == 0 && rest[1] == 0 {
			used := len(b) - len(rest)
			n.body = b[i:used]
			n.full = b[:used+2]
			return n, rest[2:], nil
		}
		_, r, err := parseNode(rest, depth+1)
		if err != nil {
			return nil, nil, err
		}
		rest = r
	}
}

// kidsExplicit is kids for parents that contain EXPLICIT context-specific
// wrappers (isExplicit tells which, by member index and tag number). The length
// of such a wrapper is redundant (its content is exactly one element) and
// decoders built on Go's encoding/asn1 never look at it, so a wrapper whose
// declared definite length disagrees with its content is read as "header + one
// element" here as well instead of making the whole object unreadable.
func (n *node) kidsExplicit(depth int, isExplicit func(idx, tag int) bool) ([]*node, error) {
	if n == nil || !n.cons {
		return nil, errBER
	}
	var out []*node
	rest := n.body
	for len(rest) > 0 {
		if h, err := parseHeader(rest); err == nil && h.class == 2 && h.cons && !h.indef && isExplicit(len(out), h.tag) {
			if inner, r, err := parseNode(rest[h.hdrLen:], depth+2); err == nil {
				out = append(out, &node{class: 2, tag: h.tag, cons: true, id: rest[:h.idLen],
					full: rest[:h.hdrLen+len(inner.full)], body: inner.full})
				rest = r
				continue
			}
		}
		c, r, err := parseNode(rest, depth+1)
		if err != nil {
			return out, err
		}
		out = append(out, c)
		rest = r
	}
	return out, nil
}

// kids parses the contents of a constructed element. On error the elements
// parsed so far are returned together with the error.
func (n *node) kids(depth int) ([]*node, error) {
	if n == nil || !n.cons {
		return nil, errBER
	}
	return n.kidsAny(depth)
}

// kidsAny parses the contents as a series of elements even if the element is
// flagged primitive (some decoders do not look at the constructed bit of
// implicitly tagged fields).
func (n *node) kidsAny(depth int) ([]*node, error) {
	if n == nil {
		return nil, errBER
	}
	var out []*node
	rest := n.body
	for len(rest) > 0 {
		c, r, err := parseNode(rest, depth+1)
		if err != nil {
			return out, err
		}
		out = append(out, c)
		rest = r
		if len(out) > 100000 {
			return out, errBER
		}
	}
	return out, nil
}

func (n *node) isU(tag int) bool { return n != nil && n.class == 0 && n.tag == tag }
func (n *node) isC(tag int) bool { return n != nil && n.class == 2 && n.tag == tag }

// toDER re-encodes the element with minimal definite lengths throughout
// (contents and order of members are not changed). If a constructed element
// cannot be parsed it is returned as received.
func (n *node) toDER(depth int) []byte {
	var content []byte
	if n.cons && depth < berMaxDepth {
		ks, err := n.kids(depth)
		if err != nil {
			if n.indef {
				content = n.body
			} else {
				return n.full
			}
		} else {
			for _, k := range ks {
				content = append(content, k.toDER(depth+1)...)
			}
		}
	} else {
		content = n.body
	}
	out := append([]byte{}, n.id...)
	out = append(out, derLen(len(content))...)
	return append(out, content...)
}

// octets returns the value of an OCTET STRING (or implicitly tagged one),
// concatenating the segments of the constructed form.
func (n *node) octets(depth int) ([]byte, bool) {
	if n == nil {
		return nil, false
	}
	if !n.cons {
		return n.body, true
	}
	if depth > berMaxDepth {
		return nil, false
	}
	ks, err := n.kids(depth)
	if err != nil {
		return nil, false
	}
	var out []byte
	for _, k := range ks {
		if !k.isU(tagOctetString) {
			return nil, false
		}
		b, ok := k.octets(depth + 1)
		if !ok {
			return nil, false
		}
		out = append(out, b...)
	}
	return out, true
}

// integer decodes a two's complement INTEGER.
func (n *node) integer() (*big.Int, bool) {
	if n == nil || n.cons || len(n.body) == 0 || len(n.body) > 4096 {
		return nil, false
	}
	v := new(big.Int).SetBytes(n.body)
	if n.body[0]&0x80 != 0 {
		v.Sub(v, new(big.Int).Lsh(big.NewInt(1), uint(8*len(n.body))))
	}
	return v, true
}

func (n *node) smallInt() (int, bool) {
	v, ok := n.integer()
	if !ok || !v.IsInt64() || v.Int64() > 1<<30 || v.Int64() < -(1<<30) {
		return 0, false
	}
	return int(v.Int64()), true
}

func (n *node) oid() string {
	if !n.isU(tagOID) || n.cons {
		return ""
	}
	return oidString(n.body)
}

// bitString returns the octets of a primitive BIT STRING and its unused-bit count.
func (n *node) bitString() ([]byte, int, bool) {
	if n == nil || n.cons || len(n.body) < 1 || n.body[0] > 7 {
		return nil, 0, false
	}
	if len(n.body) == 1 && n.body[0] != 0 {
		return nil, 0, false
	}
	if u := n.body[0]; u > 0 && n.body[len(n.body)-1]&(1<<u-1) != 0 {
		return nil, 0, false // padding bits must be zero
	}
	return n.body[1:], int(n.body[0]), true
}

// timeValue decodes UTCTime / GeneralizedTime leniently.
func (n *node) timeValue() (time.Time, bool) {
	if n == nil || n.cons || n.class != 0 {
		return time.Time{}, false
	}
	s := string(n.body)
	var layouts []string
	switch n.tag {
	case tagUTCTime:
		layouts = []string{"060102150405Z", "0601021504Z", "060102150405-0700", "0601021504-0700"}
	case tagGeneralizedTime:
		layouts = []string{"20060102150405Z", "20060102150405.999999999Z", "200601021504Z", "20060102150405-0700", "20060102150405.999999999-0700"}
	default:
		return time.Time{}, false
	}
	for _, l := range layouts {
		t, err := time.Parse(l, s)
		if err != nil {
			continue
		}
		if n.tag == tagUTCTime {
			// RFC 5280 4.1.2.5.1: YY >= 50 is 19YY, YY < 50 is 20YY (Go uses 69 as the pivot)
			if t.Year() >= 2050 {
				t = t.AddDate(-100, 0, 0)
			}
		}
		return t.UTC(), true
	}
	return time.Time{}, false
}

// parseAll parses b as exactly one element and reports the number of trailing bytes.
func parseAll(b []byte) (*node, int, error) {
	n, rest, err := parseNode(b, 0)
	if err != nil {
		return nil, 0, err
	}
	return n, len(rest), nil
}
