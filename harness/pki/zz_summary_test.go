package pki

import (
	"sort"
	"testing"
)

// These run last (file order): they summarise what the other tests observed.

func TestZYNoInternalPanics(t *testing.T) {
	if n := InternalPanics(); n != 0 {
		t.Errorf("%d signature checks panicked internally", n)
	}
}

func TestZZDeviationSummary(t *testing.T) {
	devMu.Lock()
	defer devMu.Unlock()
	var ids []string
	for id := range KnownDeviations {
		ids = append(ids, id)
	}
	sort.Strings(ids)
	for _, id := range ids {
		if n := len(devSeen[id]); n > 0 {
			t.Logf("known deviation %-28s observed in %3d scenario runs, e.g. %s", id, n, devSeen[id][0])
		} else {
			t.Logf("known deviation %-28s not observed in this run", id)
		}
	}
}
