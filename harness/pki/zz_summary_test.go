package pki

import (
	"regexp"
	"sort"
	"testing"
)

// These run last (file order): they summarise what the other tests observed.

func TestZYNoInternalPanics(t *testing.T) {
	if n := InternalPanics(); n != 0 {
		t.Errorf("%d signature checks panicked internally", n)
	}
}

func TestZZDeviationSummary(t *testing.T) {
	devMu.Lock()
	defer devMu.Unlock()
	var ids []string
	for id := range devSeen {
		ids = append(ids, id)
	}
	sort.Strings(ids)
	for _, id := range ids {
		t.Logf("observed deviation %s: %s", id, devSeen[id])
	}
	for _, k := range knownDeviations {
		hit := false
		for _, id := range ids {
			if regexp.MustCompile(k.pattern).MatchString(id) {
				hit = true
			}
		}
		if !hit {
			t.Logf("known deviation %s was not observed in this run", k.pattern)
		}
	}
}
