package pki

import (
	"fmt"
	"io"
	"math/big"
)

// SigAlg says how a signature is produced and how its AlgorithmIdentifier is encoded.
type SigAlg struct {
	Kind string // "rsa" (PKCS#1 v1.5), "rsa-pss", "ecdsa"
	Hash string

	// RSA PKCS#1 v1.5
	PlainRSAOID bool // identify the algorithm as rsaEncryption (seen in CMS SignerInfos; the hash then comes from digestAlgorithm)
	OmitNull    bool // leave out the NULL parameters (RFC 3279 says they MUST be present)

	// RSASSA-PSS (RFC 4055)
	MGFHash             string // hash inside MGF1; "" = Hash
	SaltLen             int    // 0 = length of Hash (use NoSalt for a real zero)
	NoSalt              bool
	PSSExplicitDefaults bool // encode hashAlgorithm/maskGenAlgorithm/saltLength even when they equal the DER DEFAULT (sha1, mgf1SHA1, 20)
	PSSOmitParams       bool // no parameters at all (means all defaults: sha1/mgf1sha1/20)

	// ECDSA
	ECDSANullParams bool // add NULL parameters (RFC 5758 says they MUST be absent)

	// AlgIDOverride, if set, is used verbatim as the AlgorithmIdentifier DER
	// (the signature is still produced according to Kind/Hash).
	AlgIDOverride []byte
}

// DefaultSigAlg is the scheme the key pair's spec names.
func DefaultSigAlg(k *KeyPair) SigAlg { return SigAlg{Kind: k.Spec.Kind, Hash: k.Spec.Hash} }

func (a SigAlg) mgfHash() string {
	if a.MGFHash != "" {
		return a.MGFHash
	}
	return a.Hash
}

func (a SigAlg) saltLen() int {
	if a.NoSalt {
		return 0
	}
	if a.SaltLen > 0 {
		return a.SaltLen
	}
	return HashSize(a.Hash)
}

// AlgorithmIdentifier returns the DER AlgorithmIdentifier for this signature algorithm.
func (a SigAlg) AlgorithmIdentifier() []byte {
	if a.AlgIDOverride != nil {
		return a.AlgIDOverride
	}
	switch a.Kind {
	case "rsa":
		oid := rsaSigOIDs[a.Hash]
		if a.PlainRSAOID {
			oid = OIDRSAEncryption
		}
		if a.OmitNull {
			return AlgID(oid, nil)
		}
		return AlgID(oid, Null())
	case "rsa-pss":
		if a.PSSOmitParams {
			return AlgID(OIDRSASSAPSS, nil)
		}
		return AlgID(OIDRSASSAPSS, a.pssParams())
	case "ecdsa":
		if a.ECDSANullParams {
			return AlgID(ecdsaSigOIDs[a.Hash], Null())
		}
		return AlgID(ecdsaSigOIDs[a.Hash], nil)
	}
	return AlgID("0.0", nil)
}

// pssParams encodes RSASSA-PSS-params (RFC 4055 3.1). Per DER, components equal
// to their DEFAULT are omitted unless PSSExplicitDefaults is set.
func (a SigAlg) pssParams() []byte {
	var items [][]byte
	if a.Hash != "sha1" || a.PSSExplicitDefaults {
		items = append(items, Explicit(0, AlgID(hashOIDs[a.Hash], Null())))
	}
	if a.mgfHash() != "sha1" || a.PSSExplicitDefaults {
		items = append(items, Explicit(1, Seq(OID(OIDMGF1), AlgID(hashOIDs[a.mgfHash()], Null()))))
	}
	if a.saltLen() != 20 || a.PSSExplicitDefaults {
		items = append(items, Explicit(2, IntN(int64(a.saltLen()))))
	}
	// trailerField is always 1 (the DEFAULT) and therefore never encoded.
	return Seq(items...)
}

// Sign hashes data with a.Hash and signs the digest with k according to a.
// The returned bytes are the signature value (RSA: k octets; ECDSA: DER
// ECDSA-Sig-Value SEQUENCE { r, s }).
func Sign(rnd io.Reader, k *KeyPair, a SigAlg, data []byte) ([]byte, error) {
	h := Digest(a.Hash, data)
	if h == nil {
		return nil, fmt.Errorf("pki: unknown hash %q", a.Hash)
	}
	return SignDigest(rnd, k, a, h)
}

// SignDigest signs an already computed digest.
func SignDigest(rnd io.Reader, k *KeyPair, a SigAlg, h []byte) ([]byte, error) {
	switch a.Kind {
	case "rsa":
		if k.RSA == nil {
			return nil, fmt.Errorf("pki: RSA signature requested with a non-RSA key")
		}
		em, err := emsaPKCS1v15(a.Hash, h, k.RSA.size())
		if err != nil {
			return nil, err
		}
		return k.RSA.private(em), nil
	case "rsa-pss":
		if k.RSA == nil {
			return nil, fmt.Errorf("pki: RSA signature requested with a non-RSA key")
		}
		salt := make([]byte, a.saltLen())
		if _, err := io.ReadFull(rnd, salt); err != nil {
			return nil, err
		}
		em, err := emsaPSSEncode(a.Hash, a.mgfHash(), h, salt, k.RSA.N.BitLen()-1)
		if err != nil {
			return nil, err
		}
		return k.RSA.private(em), nil
	case "ecdsa":
		if k.Curve == nil {
			return nil, fmt.Errorf("pki: ECDSA signature requested with a non-EC key")
		}
		r, s, err := k.Curve.ECDSASign(rnd, k.D, h)
		if err != nil {
			return nil, err
		}
		return Seq(Int(r), Int(s)), nil
	}
	return nil, fmt.Errorf("pki: unknown signature kind %q", a.Kind)
}

// ---------------------------------------------------------------------------
// RSA (RFC 8017)
// ---------------------------------------------------------------------------

func (k *RSAKey) size() int { return (k.N.BitLen() + 7) / 8 }

// private computes em^d mod n as a k-octet string (RSASP1 + I2OSP).
func (k *RSAKey) private(em []byte) []byte {
	m := new(big.Int).SetBytes(em)
	s := new(big.Int).Exp(m, k.D, k.N)
	return fixedBytes(s, k.size())
}

// digestInfo encodes DigestInfo { AlgorithmIdentifier{hash, NULL}, OCTET STRING }.
func digestInfo(hash string, h []byte) []byte {
	return Seq(AlgID(hashOIDs[hash], Null()), OctetString(h))
}

func emsaPKCS1v15(hash string, h []byte, emLen int) ([]byte, error) {
	t := digestInfo(hash, h)
	if emLen < len(t)+11 {
		return nil, fmt.Errorf("pki: intended encoded message length too short")
	}
	em := make([]byte, emLen)
	em[1] = 1
	for i := 2; i < emLen-len(t)-1; i++ {
		em[i] = 0xff
	}
	copy(em[emLen-len(t):], t)
	return em, nil
}

func mgf1(hash string, seed []byte, n int) []byte {
	var out []byte
	for c := uint32(0); len(out) < n; c++ {
		out = append(out, Digest(hash, append(append([]byte{}, seed...), byte(c>>24), byte(c>>16), byte(c>>8), byte(c)))...)
	}
	return out[:n]
}

func emsaPSSEncode(hash, mgfHash string, mHash, salt []byte, emBits int) ([]byte, error) {
	hLen := HashSize(hash)
	emLen := (emBits + 7) / 8
	if emLen < hLen+len(salt)+2 {
		return nil, fmt.Errorf("pki: PSS encoding error (key too short)")
	}
	mp := make([]byte, 8, 8+hLen+len(salt))
	mp = append(mp, mHash...)
	mp = append(mp, salt...)
	H := Digest(hash, mp)
	db := make([]byte, emLen-hLen-1)
	db[len(db)-len(salt)-1] = 1
	copy(db[len(db)-len(salt):], salt)
	mask := mgf1(mgfHash, H, len(db))
	for i := range db {
		db[i] ^= mask[i]
	}
	db[0] &= 0xff >> uint(8*emLen-emBits)
	em := append(db, H...)
	return append(em, 0xbc), nil
}

// emsaPSSVerify implements RFC 8017 9.1.2. sLen < 0 means "any salt length".
func emsaPSSVerify(hash, mgfHash string, mHash, em []byte, emBits, sLen int) bool {
	hLen := HashSize(hash)
	emLen := (emBits + 7) / 8
	if hLen == 0 || HashSize(mgfHash) == 0 || len(em) != emLen || len(mHash) != hLen {
		return false
	}
	if emLen < hLen+2 || (sLen >= 0 && emLen < hLen+sLen+2) {
		return false
	}
	if em[emLen-1] != 0xbc {
		return false
	}
	db := append([]byte{}, em[:emLen-hLen-1]...)
	H := em[emLen-hLen-1 : emLen-1]
	if db[0]&^(0xff>>uint(8*emLen-emBits)) != 0 {
		return false
	}
	mask := mgf1(mgfHash, H, len(db))
	for i := range db {
		db[i] ^= mask[i]
	}
	db[0] &= 0xff >> uint(8*emLen-emBits)
	i := 0
	for i < len(db) && db[i] == 0 {
		i++
	}
	if i == len(db) || db[i] != 1 {
		return false
	}
	salt := db[i+1:]
	if sLen >= 0 && len(salt) != sLen {
		return false
	}
	mp := make([]byte, 8, 8+hLen+len(salt))
	mp = append(mp, mHash...)
	mp = append(mp, salt...)
	h2 := Digest(hash, mp)
	return string(h2) == string(H)
}
