package pki

import (
	"crypto/rand"
	"fmt"
	"io"
	"math/big"
	"strings"
	"time"
)

// ---------------------------------------------------------------------------
// Names (RFC 5280 4.1.2.4)
// ---------------------------------------------------------------------------

// ATV is one AttributeTypeAndValue.
type ATV struct {
	OID     string  // attribute type, dotted
	Value   string  // string value
	Type    StrType // string type of the value (Printable by default)
	Raw     []byte  // if set: complete value TLV, used instead of Value/Type
	SameRDN bool    // put this ATV into the same RelativeDistinguishedName SET as the previous one (multi-valued RDN)
}

// Name is an ordered RDNSequence; each ATV is its own RDN unless SameRDN is set.
type Name []ATV

// DER encodes the Name.
func (n Name) DER() []byte {
	var rdns [][]byte
	var cur [][]byte
	flush := func() {
		if cur != nil {
			rdns = append(rdns, SetOf(cur...))
			cur = nil
		}
	}
	for _, a := range n {
		if !a.SameRDN {
			flush()
		}
		v := a.Raw
		if v == nil {
			v = Str(a.Type, a.Value)
		}
		cur = append(cur, Seq(OID(a.OID), v))
	}
	flush()
	return Seq(rdns...)
}

// DN builds the usual C=, O=, CN= name (country as PrintableString, the rest UTF8String).
// Empty components are left out.
func DN(country, org, cn string) Name {
	var n Name
	if country != "" {
		n = append(n, ATV{OID: OIDCountry, Value: country, Type: Printable})
	}
	if org != "" {
		n = append(n, ATV{OID: OIDOrganization, Value: org, Type: UTF8})
	}
	if cn != "" {
		n = append(n, ATV{OID: OIDCommonName, Value: cn, Type: UTF8})
	}
	return n
}

var shortNames = map[string]string{
	"C": OIDCountry, "O": OIDOrganization, "OU": OIDOrgUnit, "CN": OIDCommonName,
	"L": OIDLocality, "ST": OIDState, "SERIALNUMBER": OIDSerialNumber,
}

// ParseDN turns "C=NL,O=State of the Netherlands,CN=CSCA NL" into a Name (in the
// written order; PrintableString values). Unknown keys are taken as dotted OIDs.
func ParseDN(s string) Name {
	var n Name
	for _, part := range strings.Split(s, ",") {
		kv := strings.SplitN(strings.TrimSpace(part), "=", 2)
		if len(kv) != 2 {
			continue
		}
		oid, ok := shortNames[strings.ToUpper(kv[0])]
		if !ok {
			oid = kv[0]
		}
		n = append(n, ATV{OID: oid, Value: kv[1], Type: Printable})
	}
	return n
}

// ---------------------------------------------------------------------------
// Certificate specification
// ---------------------------------------------------------------------------

// KeyUsage bit numbers (RFC 5280 4.2.1.3).
const (
	KUDigitalSignature = 0
	KUNonRepudiation   = 1
	KUKeyEncipherment  = 2
	KUDataEncipherment = 3
	KUKeyAgreement     = 4
	KUKeyCertSign      = 5
	KUCRLSign          = 6
)

// BasicConstraints controls the basicConstraints extension.
type BasicConstraints struct {
	Absent      bool // do not include the extension
	CA          bool
	PathLen     int // used only if HasPathLen
	HasPathLen  bool
	Critical    bool
	EncodeFalse bool // encode cA FALSE explicitly (not DER, but seen in the wild)
}

// KeyUsage controls the keyUsage extension.
type KeyUsage struct {
	Absent   bool
	Bits     []int // bit numbers, e.g. {KUKeyCertSign, KUCRLSign}
	Critical bool
}

// KeyID controls subjectKeyIdentifier / authorityKeyIdentifier.
type KeyID struct {
	Absent bool
	Value  []byte // override; nil = automatic (SHA-1 of the key bits / the issuer's SKI)
}

// Extension is an arbitrary extension; Value is the DER that goes inside the extnValue OCTET STRING.
type Extension struct {
	OID           string
	Critical      bool
	Value         []byte
	ExplicitFalse bool // with Critical false: encode "critical FALSE" explicitly (BER; DER omits the DEFAULT)
}

// CertSpec lists every attribute of a certificate. Zero values mean "what the
// profile of the issuing function says" (see NewCA, IssueCA, IssueDS).
type CertSpec struct {
	Rand io.Reader // randomness for key generation, serial and signature; nil = the issuer's, else crypto/rand

	Version int // 0 or 3: v3; 1: v1 (field omitted, no extensions); 2: v2
	Serial  *big.Int

	Subject    Name
	SubjectRaw []byte // complete Name DER; overrides Subject
	Issuer     Name   // default: the issuing authority's subject, byte for byte
	IssuerRaw  []byte

	NotBefore, NotAfter time.Time // default: 2020-01-01 .. 2035-01-01
	TimeForm            TimeForm

	Key          *KeyPair // subject key; nil = generate from KeySpec
	KeySpec      KeySpec  // zero = same as the issuer's key spec
	KeySlot      int      // RSA pool slot for generated RSA keys (see GenerateKeySlot)
	SPKIOverride []byte   // complete SubjectPublicKeyInfo DER placed in the certificate instead of Key's

	BasicConstraints *BasicConstraints
	KeyUsage         *KeyUsage
	SKI              *KeyID
	AKI              *KeyID
	EKU              []string // extendedKeyUsage OIDs (extension absent if empty)
	EKUCritical      bool
	ExtraExtensions  []Extension // e.g. an unknown critical extension
	NoExtensions     bool        // omit the extensions field altogether

	SigAlg            *SigAlg  // how the issuer signs; default: the issuer key's scheme
	SignKey           *KeyPair // sign with this key instead of the issuer's (forgery)
	InnerSigAlgDER    []byte   // override tbsCertificate.signature only
	OuterSigAlgDER    []byte   // override Certificate.signatureAlgorithm only
	SignatureOverride []byte
	CorruptSignature  bool // flip one bit in the signature value
}

// Entity is an issued certificate with its key.
type Entity struct {
	Cert       []byte   // Certificate DER
	TBS        []byte   // TBSCertificate DER
	Key        *KeyPair // subject key pair
	SubjectDER []byte
	IssuerDER  []byte
	Serial     *big.Int
	SKI        []byte // subjectKeyIdentifier value in the certificate (nil if absent)
	AKI        []byte // authorityKeyIdentifier.keyIdentifier in the certificate (nil if absent)
	NotBefore  time.Time
	NotAfter   time.Time
	Spec       CertSpec
	rnd        io.Reader
}

// Authority is a CSCA (or link / cross-signed CSCA) certificate with its key.
type Authority struct{ Entity }

// Signer is a document signer (or master list signer) certificate with its key.
type Signer struct{ Entity }

type profile int

const (
	profileCA profile = iota
	profileDS
	profileMLS
)

var (
	defaultNotBefore = time.Date(2020, 1, 1, 0, 0, 0, 0, time.UTC)
	defaultNotAfter  = time.Date(2035, 1, 1, 0, 0, 0, 0, time.UTC)
)

// NewCA creates a self-signed CSCA certificate. Profile defaults (ICAO 9303-12
// 7.1): v3, basicConstraints critical cA TRUE pathLen 0, keyUsage critical
// keyCertSign+cRLSign, SKI = SHA-1 of key, AKI = SKI.
func NewCA(spec CertSpec) (*Authority, error) {
	e, err := buildCert(spec, nil, profileCA)
	if err != nil {
		return nil, err
	}
	return &Authority{*e}, nil
}

// IssueCA issues a CA certificate under a: a link certificate (new key, new
// subject) or a cross-signed certificate (set spec.Key / spec.Subject to an
// existing authority's, see CrossSign). Profile defaults as NewCA.
func (a *Authority) IssueCA(spec CertSpec) (*Authority, error) {
	e, err := buildCert(spec, &a.Entity, profileCA)
	if err != nil {
		return nil, err
	}
	return &Authority{*e}, nil
}

// CrossSign issues a certificate for other's subject name, key and SKI, signed
// by a. The result has the same subject key and SKI as other but a different issuer.
func (a *Authority) CrossSign(other *Authority, spec CertSpec) (*Authority, error) {
	if spec.Key == nil {
		spec.Key = other.Key
	}
	if spec.Subject == nil && spec.SubjectRaw == nil {
		spec.SubjectRaw = other.SubjectDER
	}
	if spec.SKI == nil && other.SKI != nil {
		spec.SKI = &KeyID{Value: other.SKI}
	}
	return a.IssueCA(spec)
}

// IssueDS issues a document signer certificate. Profile defaults (ICAO 9303-12
// 7.1): v3, no basicConstraints, keyUsage critical digitalSignature, SKI,
// AKI = issuer's SKI.
func (a *Authority) IssueDS(spec CertSpec) (*Signer, error) {
	e, err := buildCert(spec, &a.Entity, profileDS)
	if err != nil {
		return nil, err
	}
	return &Signer{*e}, nil
}

// IssueMLSigner issues a master list signer certificate: as IssueDS plus
// extendedKeyUsage id-icao-cscaMasterListSigningKey (critical).
func (a *Authority) IssueMLSigner(spec CertSpec) (*Signer, error) {
	e, err := buildCert(spec, &a.Entity, profileMLS)
	if err != nil {
		return nil, err
	}
	return &Signer{*e}, nil
}

func pickRand(r io.Reader, issuer *Entity) io.Reader {
	if r != nil {
		return r
	}
	if issuer != nil && issuer.rnd != nil {
		return issuer.rnd
	}
	return rand.Reader
}

func buildCert(spec CertSpec, issuer *Entity, prof profile) (*Entity, error) {
	rnd := pickRand(spec.Rand, issuer)

	// subject key
	key := spec.Key
	if key == nil {
		ks := spec.KeySpec
		if ks.Kind == "" {
			if issuer == nil {
				return nil, fmt.Errorf("pki: CertSpec needs Key or KeySpec")
			}
			ks = issuer.Key.Spec
		}
		var err error
		key, err = GenerateKeySlot(rnd, ks, spec.KeySlot)
		if err != nil {
			return nil, err
		}
	}

	// names
	subject := spec.SubjectRaw
	if subject == nil {
		if spec.Subject == nil {
			return nil, fmt.Errorf("pki: CertSpec needs Subject")
		}
		subject = spec.Subject.DER()
	}
	issuerName := spec.IssuerRaw
	if issuerName == nil {
		switch {
		case spec.Issuer != nil:
			issuerName = spec.Issuer.DER()
		case issuer != nil:
			issuerName = issuer.SubjectDER
		default:
			issuerName = subject
		}
	}

	serial := spec.Serial
	if serial == nil {
		b := make([]byte, 8)
		if _, err := io.ReadFull(rnd, b); err != nil {
			return nil, err
		}
		b[0] = b[0]&0x7f | 0x40
		serial = new(big.Int).SetBytes(b)
	}

	nb, na := spec.NotBefore, spec.NotAfter
	if nb.IsZero() {
		nb = defaultNotBefore
	}
	if na.IsZero() {
		na = defaultNotAfter
	}

	// signing key and algorithm
	signKey := spec.SignKey
	if signKey == nil {
		if issuer != nil {
			signKey = issuer.Key
		} else {
			signKey = key
		}
	}
	var alg SigAlg
	if spec.SigAlg != nil {
		alg = *spec.SigAlg
	} else {
		alg = DefaultSigAlg(signKey)
	}
	algDER := alg.AlgorithmIdentifier()
	inner, outer := algDER, algDER
	if spec.InnerSigAlgDER != nil {
		inner = spec.InnerSigAlgDER
	}
	if spec.OuterSigAlgDER != nil {
		outer = spec.OuterSigAlgDER
	}

	// extensions
	out := &Entity{Key: key, SubjectDER: subject, IssuerDER: issuerName, Serial: serial, NotBefore: nb, NotAfter: na, Spec: spec, rnd: rnd}
	var exts [][]byte
	ext := func(oid string, critical bool, value []byte) {
		if critical {
			exts = append(exts, Seq(OID(oid), Bool(true), OctetString(value)))
		} else {
			exts = append(exts, Seq(OID(oid), OctetString(value)))
		}
	}

	// authorityKeyIdentifier
	aki := spec.AKI
	if aki == nil {
		aki = &KeyID{}
	}
	if !aki.Absent {
		v := aki.Value
		if v == nil {
			if issuer != nil {
				v = issuer.SKI
				if v == nil {
					v = issuer.Key.KeyIdentifier()
				}
			} else if spec.SKI != nil && spec.SKI.Value != nil {
				v = spec.SKI.Value
			} else {
				v = key.KeyIdentifier()
			}
		}
		out.AKI = v
		ext(OIDExtAKI, false, Seq(ImplicitPrim(0, v)))
	}
	// subjectKeyIdentifier
	ski := spec.SKI
	if ski == nil {
		ski = &KeyID{}
	}
	if !ski.Absent {
		v := ski.Value
		if v == nil {
			v = key.KeyIdentifier()
		}
		out.SKI = v
		ext(OIDExtSKI, false, OctetString(v))
	}
	// keyUsage
	ku := spec.KeyUsage
	if ku == nil {
		if prof == profileCA {
			ku = &KeyUsage{Bits: []int{KUKeyCertSign, KUCRLSign}, Critical: true}
		} else {
			ku = &KeyUsage{Bits: []int{KUDigitalSignature}, Critical: true}
		}
	}
	if !ku.Absent {
		ext(OIDExtKeyUsage, ku.Critical, NamedBits(ku.Bits))
	}
	// basicConstraints
	bc := spec.BasicConstraints
	if bc == nil {
		if prof == profileCA {
			bc = &BasicConstraints{CA: true, HasPathLen: true, PathLen: 0, Critical: true}
		} else {
			bc = &BasicConstraints{Absent: true}
		}
	}
	if !bc.Absent {
		var items [][]byte
		if bc.CA || bc.EncodeFalse {
			items = append(items, Bool(bc.CA))
		}
		if bc.HasPathLen {
			items = append(items, IntN(int64(bc.PathLen)))
		}
		ext(OIDExtBasicConstraints, bc.Critical, Seq(items...))
	}
	// extendedKeyUsage
	eku, ekuCrit := spec.EKU, spec.EKUCritical
	if eku == nil && prof == profileMLS {
		eku, ekuCrit = []string{OIDCscaMLSigningKey}, true
	}
	if len(eku) > 0 {
		var o [][]byte
		for _, e := range eku {
			o = append(o, OID(e))
		}
		ext(OIDExtEKU, ekuCrit, Seq(o...))
	}
	for _, e := range spec.ExtraExtensions {
		if !e.Critical && e.ExplicitFalse {
			exts = append(exts, Seq(OID(e.OID), Bool(false), OctetString(e.Value)))
			continue
		}
		ext(e.OID, e.Critical, e.Value)
	}

	version := spec.Version
	if version == 0 {
		version = 3
	}

	spki := spec.SPKIOverride
	if spki == nil {
		spki = key.SPKI()
	}

	var tbs [][]byte
	if version != 1 {
		tbs = append(tbs, Explicit(0, IntN(int64(version-1))))
	}
	tbs = append(tbs, Int(serial), inner, issuerName,
		Seq(Time(nb, spec.TimeForm), Time(na, spec.TimeForm)), subject, spki)
	if !spec.NoExtensions && version == 3 && len(exts) > 0 {
		tbs = append(tbs, Explicit(3, Seq(exts...)))
	} else {
		out.SKI, out.AKI = nil, nil
	}
	out.TBS = Seq(tbs...)

	sig := spec.SignatureOverride
	if sig == nil {
		var err error
		sig, err = Sign(rnd, signKey, alg, out.TBS)
		if err != nil {
			return nil, err
		}
	}
	if spec.CorruptSignature {
		sig = append([]byte{}, sig...)
		sig[len(sig)-1] ^= 0x01
	}
	out.Cert = Seq(out.TBS, outer, BitString(sig, 0))
	return out, nil
}
