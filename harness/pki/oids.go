package pki

import (
	"crypto/sha1"
	"crypto/sha256"
	"crypto/sha512"
)

// Object identifiers, from the cited standards (not from the library under test).
const (
	// RFC 5652 (CMS)
	OIDData        = "1.2.840.113549.1.7.1"
	OIDSignedData  = "1.2.840.113549.1.7.2"
	OIDContentType = "1.2.840.113549.1.9.3"
	OIDMsgDigest   = "1.2.840.113549.1.9.4"
	OIDSigningTime = "1.2.840.113549.1.9.5"

	// ICAO 9303-10 / -12
	OIDLDSSecurityObject = "2.23.136.1.1.1" // id-icao-mrtd-security-ldsSecurityObject
	OIDCscaMasterList    = "2.23.136.1.1.2" // id-icao-cscaMasterList
	OIDCscaMLSigningKey  = "2.23.136.1.1.3" // id-icao-cscaMasterListSigningKey (EKU)
	OIDDocumentTypeList  = "2.23.136.1.1.6.2"

	// BSI TR-03110-3
	OIDSecurityObject = "0.4.0.127.0.7.3.2.1" // id-SecurityObject (EF.CardSecurity eContentType)

	// RFC 3279 / 4055 / 5480 / 5758
	OIDRSAEncryption = "1.2.840.113549.1.1.1"
	OIDSHA1WithRSA   = "1.2.840.113549.1.1.5"
	OIDMGF1          = "1.2.840.113549.1.1.8"
	OIDRSASSAPSS     = "1.2.840.113549.1.1.10"
	OIDSHA256WithRSA = "1.2.840.113549.1.1.11"
	OIDSHA384WithRSA = "1.2.840.113549.1.1.12"
	OIDSHA512WithRSA = "1.2.840.113549.1.1.13"
	OIDSHA224WithRSA = "1.2.840.113549.1.1.14"

	OIDECPublicKey     = "1.2.840.10045.2.1"
	OIDPrimeField      = "1.2.840.10045.1.1"
	OIDECDSAWithSHA1   = "1.2.840.10045.4.1"
	OIDECDSAWithSHA224 = "1.2.840.10045.4.3.1"
	OIDECDSAWithSHA256 = "1.2.840.10045.4.3.2"
	OIDECDSAWithSHA384 = "1.2.840.10045.4.3.3"
	OIDECDSAWithSHA512 = "1.2.840.10045.4.3.4"

	OIDSHA1   = "1.3.14.3.2.26"
	OIDSHA256 = "2.16.840.1.101.3.4.2.1"
	OIDSHA384 = "2.16.840.1.101.3.4.2.2"
	OIDSHA512 = "2.16.840.1.101.3.4.2.3"
	OIDSHA224 = "2.16.840.1.101.3.4.2.4"

	// X.520 attribute types
	OIDCommonName   = "2.5.4.3"
	OIDSerialNumber = "2.5.4.5"
	OIDCountry      = "2.5.4.6"
	OIDLocality     = "2.5.4.7"
	OIDState        = "2.5.4.8"
	OIDOrganization = "2.5.4.10"
	OIDOrgUnit      = "2.5.4.11"

	// RFC 5280 extensions
	OIDExtSKI              = "2.5.29.14"
	OIDExtKeyUsage         = "2.5.29.15"
	OIDExtPrivKeyUsage     = "2.5.29.16"
	OIDExtSubjectAltName   = "2.5.29.17"
	OIDExtIssuerAltName    = "2.5.29.18"
	OIDExtBasicConstraints = "2.5.29.19"
	OIDExtNameConstraints  = "2.5.29.30"
	OIDExtCRLDP            = "2.5.29.31"
	OIDExtCertPolicies     = "2.5.29.32"
	OIDExtAKI              = "2.5.29.35"
	OIDExtEKU              = "2.5.29.37"
	OIDAnyEKU              = "2.5.29.37.0"
	OIDExtDocumentTypeList = "2.23.136.1.1.6.2"
)

// Hashes lists the supported hash names in canonical order.
var Hashes = []string{"sha1", "sha224", "sha256", "sha384", "sha512"}

var hashOIDs = map[string]string{
	"sha1": OIDSHA1, "sha224": OIDSHA224, "sha256": OIDSHA256, "sha384": OIDSHA384, "sha512": OIDSHA512,
}

var hashByOID = map[string]string{
	OIDSHA1: "sha1", OIDSHA224: "sha224", OIDSHA256: "sha256", OIDSHA384: "sha384", OIDSHA512: "sha512",
}

var rsaSigOIDs = map[string]string{
	"sha1": OIDSHA1WithRSA, "sha224": OIDSHA224WithRSA, "sha256": OIDSHA256WithRSA, "sha384": OIDSHA384WithRSA, "sha512": OIDSHA512WithRSA,
}

var ecdsaSigOIDs = map[string]string{
	"sha1": OIDECDSAWithSHA1, "sha224": OIDECDSAWithSHA224, "sha256": OIDECDSAWithSHA256, "sha384": OIDECDSAWithSHA384, "sha512": OIDECDSAWithSHA512,
}

// sigOIDInfo maps a signature algorithm OID to (kind, implied hash).
var sigOIDInfo = map[string][2]string{
	OIDRSAEncryption:   {"rsa", ""},
	OIDSHA1WithRSA:     {"rsa", "sha1"},
	OIDSHA224WithRSA:   {"rsa", "sha224"},
	OIDSHA256WithRSA:   {"rsa", "sha256"},
	OIDSHA384WithRSA:   {"rsa", "sha384"},
	OIDSHA512WithRSA:   {"rsa", "sha512"},
	OIDRSASSAPSS:       {"rsa-pss", ""},
	OIDECDSAWithSHA1:   {"ecdsa", "sha1"},
	OIDECDSAWithSHA224: {"ecdsa", "sha224"},
	OIDECDSAWithSHA256: {"ecdsa", "sha256"},
	OIDECDSAWithSHA384: {"ecdsa", "sha384"},
	OIDECDSAWithSHA512: {"ecdsa", "sha512"},
}

// HashSize returns the output length in octets of the named hash (0 if unknown).
func HashSize(name string) int {
	switch name {
	case "sha1":
		return 20
	case "sha224":
		return 28
	case "sha256":
		return 32
	case "sha384":
		return 48
	case "sha512":
		return 64
	}
	return 0
}

// Digest computes the named hash; it returns nil for an unknown name.
func Digest(name string, data []byte) []byte {
	switch name {
	case "sha1":
		h := sha1.Sum(data)
		return h[:]
	case "sha224":
		h := sha256.Sum224(data)
		return h[:]
	case "sha256":
		h := sha256.Sum256(data)
		return h[:]
	case "sha384":
		h := sha512.Sum384(data)
		return h[:]
	case "sha512":
		h := sha512.Sum512(data)
		return h[:]
	}
	return nil
}

// HashOID returns the OID of the named hash ("" if unknown).
func HashOID(name string) string { return hashOIDs[name] }
