package pki

import (
	"bytes"
	"fmt"
	"math/big"
	"sort"
	"strconv"
	"strings"
	"time"
)

// ---------------------------------------------------------------------------
// A small DER/BER builder. Everything in this package that produces bytes goes
// through these few functions (X.690).
// ---------------------------------------------------------------------------

// derLen returns the definite-form length octets for n (X.690 8.1.3).
func derLen(n int) []byte {
	if n < 0x80 {
		return []byte{byte(n)}
	}
	var b []byte
	for v := n; v > 0; v >>= 8 {
		b = append([]byte{byte(v)}, b...)
	}
	return append([]byte{0x80 | byte(len(b))}, b...)
}

// TLV builds one definite-length element with a single-octet identifier.
func TLV(tag byte, content ...[]byte) []byte {
	n := 0
	for _, c := range content {
		n += len(c)
	}
	out := make([]byte, 0, n+6)
	out = append(out, tag)
	out = append(out, derLen(n)...)
	for _, c := range content {
		out = append(out, c...)
	}
	return out
}

// TLVIndef builds a constructed element in the BER indefinite-length form
// (X.690 8.1.3.6): identifier, 0x80, contents, end-of-contents 00 00.
func TLVIndef(tag byte, content ...[]byte) []byte {
	out := []byte{tag | 0x20, 0x80}
	for _, c := range content {
		out = append(out, c...)
	}
	return append(out, 0x00, 0x00)
}

// Universal tags used here.
const (
	tagBoolean         = 0x01
	tagInteger         = 0x02
	tagBitString       = 0x03
	tagOctetString     = 0x04
	tagNull            = 0x05
	tagOID             = 0x06
	tagUTF8String      = 0x0c
	tagPrintableString = 0x13
	tagT61String       = 0x14
	tagIA5String       = 0x16
	tagUTCTime         = 0x17
	tagGeneralizedTime = 0x18
	tagBMPString       = 0x1e
	tagSequence        = 0x30
	tagSet             = 0x31
)

// Seq builds a SEQUENCE.
func Seq(items ...[]byte) []byte { return TLV(tagSequence, items...) }

// Set builds a SET with the members in the given order (no sorting).
func Set(items ...[]byte) []byte { return TLV(tagSet, items...) }

// SetOf builds a DER SET OF: members sorted by their encodings (X.690 11.6).
func SetOf(items ...[]byte) []byte {
	s := make([][]byte, len(items))
	copy(s, items)
	sort.SliceStable(s, func(i, j int) bool { return bytes.Compare(s[i], s[j]) < 0 })
	return TLV(tagSet, s...)
}

// Explicit wraps content in a context-specific constructed tag [n].
func Explicit(n int, content ...[]byte) []byte { return TLV(0xa0|byte(n), content...) }

// ImplicitPrim builds a context-specific primitive element [n] with raw content octets.
func ImplicitPrim(n int, content []byte) []byte { return TLV(0x80|byte(n), content) }

// Retag replaces the identifier octet of a complete single-octet-tag TLV.
func Retag(tag byte, el []byte) []byte {
	out := append([]byte{}, el...)
	if len(out) > 0 {
		out[0] = tag
	}
	return out
}

// Int encodes an INTEGER (two's complement, minimal).
func Int(v *big.Int) []byte {
	if v == nil {
		v = new(big.Int)
	}
	if v.Sign() >= 0 {
		b := v.Bytes()
		if len(b) == 0 || b[0]&0x80 != 0 {
			b = append([]byte{0}, b...)
		}
		return TLV(tagInteger, b)
	}
	// negative: two's complement of |v|
	n := (v.BitLen() + 8) / 8
	mod := new(big.Int).Lsh(big.NewInt(1), uint(8*n))
	b := new(big.Int).Add(mod, v).Bytes()
	for len(b) < n {
		b = append([]byte{0xff}, b...)
	}
	for len(b) > 1 && b[0] == 0xff && b[1]&0x80 != 0 {
		b = b[1:]
	}
	return TLV(tagInteger, b)
}

// IntN encodes a small INTEGER.
func IntN(v int64) []byte { return Int(big.NewInt(v)) }

// Bool encodes a BOOLEAN (DER: TRUE is 0xff).
func Bool(v bool) []byte {
	if v {
		return []byte{tagBoolean, 1, 0xff}
	}
	return []byte{tagBoolean, 1, 0x00}
}

// Null encodes NULL.
func Null() []byte { return []byte{tagNull, 0} }

// OctetString encodes a primitive OCTET STRING.
func OctetString(b []byte) []byte { return TLV(tagOctetString, b) }

// BitString encodes a BIT STRING with the given number of unused bits in the last octet.
func BitString(b []byte, unused int) []byte {
	return TLV(tagBitString, []byte{byte(unused)}, b)
}

// NamedBits encodes a named-bit-list BIT STRING per DER (trailing zero bits
// removed). Bit 0 is the most significant bit of the first octet.
func NamedBits(bits []int) []byte {
	max := -1
	for _, b := range bits {
		if b > max {
			max = b
		}
	}
	if max < 0 {
		return TLV(tagBitString, []byte{0})
	}
	buf := make([]byte, max/8+1)
	for _, b := range bits {
		buf[b/8] |= 0x80 >> uint(b%8)
	}
	unused := 7 - max%8
	return BitString(buf, unused)
}

// OID encodes an OBJECT IDENTIFIER given in dotted notation. It panics on
// syntactically invalid input (programming error in the caller).
func OID(dotted string) []byte {
	c, err := oidContent(dotted)
	if err != nil {
		panic(err)
	}
	return TLV(tagOID, c)
}

func oidContent(dotted string) ([]byte, error) {
	parts := strings.Split(dotted, ".")
	if len(parts) < 2 {
		return nil, fmt.Errorf("pki: bad OID %q", dotted)
	}
	arcs := make([]*big.Int, len(parts))
	for i, p := range parts {
		v, ok := new(big.Int).SetString(p, 10)
		if !ok || v.Sign() < 0 {
			return nil, fmt.Errorf("pki: bad OID %q", dotted)
		}
		arcs[i] = v
	}
	first := new(big.Int).Add(new(big.Int).Mul(arcs[0], big.NewInt(40)), arcs[1])
	out := base128(first)
	for _, a := range arcs[2:] {
		out = append(out, base128(a)...)
	}
	return out, nil
}

func base128(v *big.Int) []byte {
	if v.Sign() == 0 {
		return []byte{0}
	}
	var out []byte
	t := new(big.Int).Set(v)
	m := big.NewInt(0x7f)
	for t.Sign() > 0 {
		b := byte(new(big.Int).And(t, m).Int64())
		if len(out) > 0 {
			b |= 0x80
		}
		out = append([]byte{b}, out...)
		t.Rsh(t, 7)
	}
	return out
}

// oidString decodes OID content octets to dotted notation ("" when malformed).
func oidString(c []byte) string {
	if len(c) == 0 || c[len(c)-1]&0x80 != 0 {
		return ""
	}
	var arcs []*big.Int
	cur := new(big.Int)
	for _, b := range c {
		cur.Lsh(cur, 7)
		cur.Or(cur, big.NewInt(int64(b&0x7f)))
		if b&0x80 == 0 {
			arcs = append(arcs, cur)
			cur = new(big.Int)
		}
		if cur.BitLen() > 256 {
			return ""
		}
	}
	var sb strings.Builder
	f := arcs[0]
	switch {
	case f.Cmp(big.NewInt(40)) < 0:
		sb.WriteString("0." + f.String())
	case f.Cmp(big.NewInt(80)) < 0:
		sb.WriteString("1." + new(big.Int).Sub(f, big.NewInt(40)).String())
	default:
		sb.WriteString("2." + new(big.Int).Sub(f, big.NewInt(80)).String())
	}
	for _, a := range arcs[1:] {
		sb.WriteString("." + a.String())
	}
	return sb.String()
}

// StrType selects the ASN.1 string type of a directory string / text value.
type StrType int

const (
	Printable StrType = iota
	UTF8
	IA5
	T61
	BMP
)

// Str encodes s with the given string type.
func Str(t StrType, s string) []byte {
	switch t {
	case UTF8:
		return TLV(tagUTF8String, []byte(s))
	case IA5:
		return TLV(tagIA5String, []byte(s))
	case T61:
		return TLV(tagT61String, []byte(s))
	case BMP:
		var b []byte
		for _, r := range s {
			if r > 0xffff {
				r = '?'
			}
			b = append(b, byte(r>>8), byte(r))
		}
		return TLV(tagBMPString, b)
	default:
		return TLV(tagPrintableString, []byte(s))
	}
}

// TimeForm selects how a Time CHOICE is encoded.
type TimeForm int

const (
	TimeAuto        TimeForm = iota // RFC 5280 4.1.2.5: UTCTime through 2049, GeneralizedTime from 2050
	TimeUTC                         // force UTCTime
	TimeGeneralized                 // force GeneralizedTime
)

// UTCTime encodes YYMMDDHHMMSSZ.
func UTCTime(t time.Time) []byte {
	return TLV(tagUTCTime, []byte(t.UTC().Format("060102150405Z")))
}

// GeneralizedTime encodes YYYYMMDDHHMMSSZ.
func GeneralizedTime(t time.Time) []byte {
	return TLV(tagGeneralizedTime, []byte(t.UTC().Format("20060102150405Z")))
}

// Time encodes the X.509/CMS Time CHOICE.
func Time(t time.Time, f TimeForm) []byte {
	switch f {
	case TimeUTC:
		return UTCTime(t)
	case TimeGeneralized:
		return GeneralizedTime(t)
	}
	if y := t.UTC().Year(); y >= 1950 && y < 2050 {
		return UTCTime(t)
	}
	return GeneralizedTime(t)
}

// AlgID encodes AlgorithmIdentifier { algorithm, parameters }. params may be
// nil (absent) or a complete DER element.
func AlgID(oid string, params []byte) []byte {
	if params == nil {
		return Seq(OID(oid))
	}
	return Seq(OID(oid), params)
}

func itoa(i int) string { return strconv.Itoa(i) }
