package pki

import (
	"fmt"
	"os"
	"testing"
)

// simpleValid is a deliberately plain reading of "the facts describe a sound
// document" used only to sanity-check the facts against the library on a
// mutation sweep; the real predicate lives in the TLA+ specification.
func simpleValid(f *Facts, a []AnchorFacts, dgs map[int][]byte) (bool, string) {
	if !f.Parseable || !f.LDSParseable {
		return false, "unparseable"
	}
	for n := range dgs {
		if !f.DGHashOK[n] {
			return false, fmt.Sprintf("DG%d hash", n)
		}
	}
	if len(f.Signers) == 0 {
		return false, "no signer"
	}
	for _, s := range f.Signers {
		if !s.SignedAttrsPresent || !s.ContentTypeOK || !s.MessageDigestOK {
			return false, "signed attributes"
		}
		ok := false
		for _, i := range s.SigVerifiesUnderDigestAlg {
			c := f.Certs[i]
			for _, j := range c.ChainsTo {
				if a[j].IsCA && a[j].KUKeyCertSign && !a[j].UnknownCriticalExt && c.KUDigitalSignature && !c.UnknownCriticalExt {
					ok = true
				}
			}
		}
		if !ok {
			return false, "no verifying, chaining certificate"
		}
	}
	return true, ""
}

// TestMutationSweepAgreement flips every byte of a genuine SOD in three ways and
// requires: whenever the library accepts, the independent facts still describe a
// sound document.
func TestMutationSweepAgreement(t *testing.T) {
	if testing.Short() {
		t.Skip("short")
	}
	masks := []byte{0x01, 0x80, 0xff}
	if os.Getenv("PKI_SWEEP_FULL") != "" {
		masks = []byte{0x01, 0x02, 0x04, 0x08, 0x10, 0x20, 0x40, 0x80, 0xff, 0x03, 0x7f}
	}
	for i, ks := range []KeySpec{{Kind: "ecdsa", Curve: "P-256", Hash: "sha256"}, {Kind: "rsa", Bits: 1024, Hash: "sha256"}} {
		w := newWorld(t, int64(1000+i), ks)
		trust := [][]byte{w.csca.Cert}
		sod, err := BuildSOD(NewSODSpec(w.ds, w.dgs, signingTime))
		if err != nil {
			t.Fatal(err)
		}
		accepted, disagreements := 0, 0
		for pos := 0; pos < len(sod); pos++ {
			for _, x := range masks {
				m := append([]byte{}, sod...)
				m[pos] ^= x
				_, err := runPA(m, w.dgs, nil, trust)
				if err != nil {
					if len(err.Error()) >= 5 && err.Error()[:5] == "PANIC" {
						t.Errorf("GMRTD-DEVIATION (NEW) sweep-panic/%s/%d/%02x: %v", ks.Kind, pos, x, err)
					}
					continue
				}
				accepted++
				f, a := ComputeFacts(m, w.dgs, trust)
				if ok, why := simpleValid(f, a, w.dgs); !ok {
					disagreements++
					if disagreements <= 10 {
						t.Errorf("%s: mutant pos=%d xor=%02x accepted by the library but facts say: %s", ks, pos, x, why)
					}
				}
			}
		}
		t.Logf("%s: %d bytes, %d mutants accepted by the library, %d disagreements", ks, len(sod), accepted, disagreements)
	}
}
