package pki

import (
	"bytes"
	"fmt"
	"os"
	"strings"
	"testing"
)

// simpleValid is a deliberately plain reading of "the facts describe a sound
// document" used only to sanity-check the facts against the library on a
// mutation sweep; the real predicate lives in the TLA+ specification.
func simpleValid(f *Facts, a []AnchorFacts, dgs map[int][]byte) (bool, string) {
	if !f.Parseable || !f.LDSParseable {
		return false, "unparseable"
	}
	for n := range dgs {
		if !f.DGHashOK[n] {
			return false, fmt.Sprintf("DG%d hash", n)
		}
	}
	if len(f.Signers) == 0 {
		return false, "no signer"
	}
	for _, s := range f.Signers {
		if !s.SignedAttrsPresent || !s.ContentTypeOK || !s.MessageDigestOK {
			return false, "signed attributes"
		}
		ok := false
		for _, i := range s.SigVerifiesUnderDigestAlg {
			c := f.Certs[i]
			for _, j := range c.ChainsToLenient {
				if a[j].IsCA && a[j].KUKeyCertSign && !a[j].UnknownCriticalExt && c.KUDigitalSignature && !c.UnknownCriticalExt {
					ok = true
				}
			}
		}
		if !ok {
			return false, "no verifying, chaining certificate"
		}
	}
	return true, ""
}

// TestMutationSweepAgreement flips every byte of a genuine SOD in three ways and
// requires: whenever the library accepts, the independent facts still describe a
// sound document.
func TestMutationSweepAgreement(t *testing.T) {
	if testing.Short() {
		t.Skip("short")
	}
	masks := []byte{0x01, 0x80, 0xff}
	if os.Getenv("PKI_SWEEP_FULL") != "" {
		masks = []byte{0x01, 0x02, 0x04, 0x08, 0x10, 0x20, 0x40, 0x80, 0xff, 0x03, 0x7f}
	}
	for i, ks := range []KeySpec{{Kind: "ecdsa", Curve: "P-256", Hash: "sha256"}, {Kind: "rsa", Bits: 1024, Hash: "sha256"}} {
		w := newWorld(t, int64(1000+i), ks)
		trust := [][]byte{w.csca.Cert}
		sod, err := BuildSOD(NewSODSpec(w.ds, w.dgs, signingTime))
		if err != nil {
			t.Fatal(err)
		}
		accepted, disagreements := 0, 0
		for pos := 0; pos < len(sod); pos++ {
			for _, x := range masks {
				m := append([]byte{}, sod...)
				m[pos] ^= x
				_, err := runPA(m, w.dgs, nil, trust)
				if err != nil {
					if len(err.Error()) >= 5 && err.Error()[:5] == "PANIC" {
						t.Errorf("GMRTD-DEVIATION (NEW) sweep-panic/%s/%d/%02x: %v", ks.Kind, pos, x, err)
					}
					continue
				}
				accepted++
				f, a := ComputeFacts(m, w.dgs, trust)
				if ok, why := simpleValid(f, a, w.dgs); !ok {
					disagreements++
					if disagreements <= 10 {
						t.Errorf("%s: mutant pos=%d xor=%02x accepted by the library but facts say: %s", ks, pos, x, why)
					}
				}
			}
		}
		t.Logf("%s: %d bytes, %d mutants accepted by the library, %d disagreements", ks, len(sod), accepted, disagreements)
	}
}

// TestCertificateSweepAgreement flips every byte of the trust anchor and of the
// embedded DS certificate and requires: whenever the library accepts the
// document, the facts have a parseable anchor that the DS certificate chains to
// (no disagreement in the direction "library accepts, facts say unusable").
func TestCertificateSweepAgreement(t *testing.T) {
	if testing.Short() {
		t.Skip("short")
	}
	// default: two masks, three key specs (about 30 s); PKI_SWEEP_FULL=1: 11 masks, RSA-2048 in addition
	masks := []byte{0x01, 0xff}
	specs := []KeySpec{
		{Kind: "ecdsa", Curve: "P-256", Hash: "sha256"},
		{Kind: "ecdsa", Curve: "brainpoolP256r1", ExplicitParams: true, Hash: "sha256"},
		{Kind: "rsa-pss", Bits: 1024, Hash: "sha256"},
	}
	if os.Getenv("PKI_SWEEP_FULL") != "" {
		masks = []byte{0x01, 0x02, 0x04, 0x08, 0x10, 0x20, 0x40, 0x80, 0xff, 0x03, 0x7f}
		specs = append(specs, KeySpec{Kind: "rsa", Bits: 2048, Hash: "sha256"})
	}
	for i, ks := range specs {
		w := newWorld(t, int64(1100+i), ks)
		sod, err := BuildSOD(NewSODSpec(w.ds, w.dgs, signingTime))
		if err != nil {
			t.Fatal(err)
		}
		dsOff := bytes.Index(sod, w.ds.Cert)
		if dsOff < 0 {
			t.Fatal("DS certificate not found in SOD")
		}
		for _, target := range []string{"anchor", "ds"} {
			n := len(w.csca.Cert)
			if target == "ds" {
				n = len(w.ds.Cert)
			}
			accepted, disagreements := 0, 0
			for pos := 0; pos < n; pos++ {
				for _, x := range masks {
					m, trust := sod, [][]byte{w.csca.Cert}
					if target == "anchor" {
						a := append([]byte{}, w.csca.Cert...)
						a[pos] ^= x
						trust = [][]byte{a}
					} else {
						m = append([]byte{}, sod...)
						m[dsOff+pos] ^= x
					}
					_, err := runPA(m, w.dgs, nil, trust)
					if err != nil {
						if strings.HasPrefix(err.Error(), "PANIC") {
							t.Errorf("GMRTD-DEVIATION (NEW) cert-sweep-panic/%s/%s/%d/%02x: %v", ks, target, pos, x, err)
						}
						continue
					}
					accepted++
					f, a := ComputeFacts(m, w.dgs, trust)
					why := ""
					switch {
					case !a[0].Parseable:
						why = "anchor unparseable"
					case !f.Parseable || len(f.Certs) != 1 || !f.Certs[0].Parseable:
						why = "DS certificate unparseable"
					case len(f.Certs[0].ChainsToLenient) == 0:
						why = "ChainsToLenient empty"
					default:
						if ok, w2 := simpleValid(f, a, w.dgs); !ok {
							why = w2
						}
					}
					if why != "" {
						disagreements++
						if disagreements <= 15 {
							t.Errorf("%s: %s byte %d xor %02x accepted by the library but facts say: %s", ks, target, pos, x, why)
						}
					}
				}
			}
			t.Logf("%s: %s certificate %d bytes, %d mutants accepted by the library, %d disagreements", ks, target, n, accepted, disagreements)
		}
	}
}
