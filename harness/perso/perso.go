// Package perso personalises complete simulated passports: it combines the independent chip
// simulator (chipsim) and issuing PKI (pki) into one chip configuration + ground truth, for the
// drivers of C02, C04, C06, C07, C08, C11, C14.
package perso

import (
	"fmt"
	"math/big"
	"math/rand"
	"sort"
	"sync"
	"time"

	"github.com/gmrtd/gmrtd/document"

	"verif/harness/chipsim"
	"verif/harness/pki"
)

// CASpec describes one Chip Authentication key of the passport.
type CASpec struct {
	OID     string // chipsim.OIDCaEcdh*; "" = key without ChipAuthenticationInfo (suite inferred by the reader)
	ParamID int    // curve, standardized domain parameter id 8..18
	KeyID   *int
	// InfoNoKeyID: the keyId is carried by the ChipAuthenticationPublicKeyInfo only (a single key: the info needs none)
	InfoNoKeyID bool
	Params      string // "explicit" (default) | "named"
	// ForeignDG14: DG14 publishes ANOTHER public key than the one the chip holds (a clone that
	// kept the genuine DG14 but has its own key pair, seen from the chip: "substituted keys")
	ForeignDG14 bool
}

// AASpec describes the Active Authentication key.
type AASpec struct {
	Type      string // "rsa" | "ecdsa"
	Bits      int    // rsa modulus bits
	ParamID   int    // ecdsa curve
	Hash      string
	SigFormat string // ecdsa: "plain" | "der"
	Named     bool   // ecdsa: named curve in DG15 instead of explicit parameters
}

type Options struct {
	Seed      int64
	DocNumber string // default L898902C3
	CAN       string // "" = none
	// access control
	BAC      bool
	Pace     []chipsim.PaceSpec // advertised (and supported) PACE protocols; empty = no PACE
	ExtraPaceInfos []chipsim.PaceInfoSpec // advertised in EF.CardAccess only (unsupported entries for selection tests)
	PaceInfoOrder  int64                  // != 0: seeds a permutation of the PACEInfo entries of EF.CardAccess (a SET: order carries no meaning)
	OpenChip bool               // no access control required (files readable without BAC/PACE)
	CA       []CASpec
	AA       *AASpec
	// data groups besides DG1 (always) / DG14 / DG15 (when keys exist): any of 2,7,11,12,13,16
	DGs      []int
	DG13Size int // DG13 is opaque content: total file size to generate (0 = sample)
	// DG13LongLength (with DG13Size > 0): the outer length of DG13 is written in a longer form than the shortest
	// (81 xx below 128, 82 00 xx below 256; unchanged from 256 on, where a longer form no longer fits a 4-octet header): legal BER, and the stored file is what is hashed
	DG13LongLength bool
	// PKI
	KeySpec       pki.KeySpec
	IssuerTrusted bool // CSCA in the trust store handed to the reader
	SodVariant    func(*pki.SODSpec)
	// deviations of the document itself (hostile personalisations)
	StripFromChip   []int // data groups listed in the SOD but not stored on the chip
	CardAccessExtra [][]byte // SecurityInfos present in EF.CardAccess but NOT in DG14 (downgrade)
	CardAccessExtraFirst bool // the foreign infos are written in front of the genuine ones
	NoDG14PaceInfos bool
	// CloneOwnKeys: the chip is a clone that generated its OWN chip-authentication / active-authentication
	// key pairs: it stores DG14 / DG15 with those keys (so they differ from what the issuer signed)
	// and holds the matching private keys.
	CloneOwnKeys bool
	Transport   chipsim.Transport
	Personality chipsim.Personality
	ChooseScalar chipsim.ChooseScalarFunc
}

// Passport is a personalised chip plus everything the harness knows about it.
type Passport struct {
	SODOrder []int // data group numbers in the order of the security object's hash list
	Opt      Options
	Cfg      chipsim.Config
	MRZ      string            // TD3 zone
	MRZInfo  string            // MRZ information
	AppFiles map[uint16][]byte // files stored in the LDS1 application
	MfFiles  map[uint16][]byte
	DGBytes  map[int][]byte    // every data group the issuer signed (also those stripped from the chip)
	Trust    [][]byte          // trust store for the reader (CSCA certificate if IssuerTrusted, else a foreign one)
	CSCA     *pki.Authority
	DS       *pki.Signer
	CAKeys   []chipsim.CAKey
	AAKey    *chipsim.AAKey
	SignTime time.Time
}

var (
	sampleOnce sync.Once
	sampleDGs  map[int][]byte
)

// sampleDG returns well-formed content for the data groups whose parsers need real structure
// (taken from the library's own sample document: these are INPUTS, not oracles).
func sampleDG(n int) []byte {
	sampleOnce.Do(func() {
		sampleDGs = map[int][]byte{}
		doc, err := document.SampleDocument()
		if err != nil {
			panic(err)
		}
		l := doc.Mf.Lds1
		if l.Dg2 != nil {
			sampleDGs[2] = l.Dg2.RawData
		}
		if l.Dg7 != nil {
			sampleDGs[7] = l.Dg7.RawData
		}
		if l.Dg11 != nil {
			sampleDGs[11] = l.Dg11.RawData
		}
		if l.Dg12 != nil {
			sampleDGs[12] = l.Dg12.RawData
		}
		if l.Dg13 != nil {
			sampleDGs[13] = l.Dg13.RawData
		}
		if l.Dg16 != nil {
			sampleDGs[16] = l.Dg16.RawData
		}
	})
	return append([]byte{}, sampleDGs[n]...)
}

func dgFid(n int) uint16 { return 0x0100 + uint16(n) }

var dgTags = map[int]byte{1: 0x61, 2: 0x75, 7: 0x67, 11: 0x6B, 12: 0x6C, 13: 0x6D, 14: 0x6E, 15: 0x6F, 16: 0x70}

func berLen(n int) []byte {
	switch {
	case n <= 127:
		return []byte{byte(n)}
	case n <= 255:
		return []byte{0x81, byte(n)}
	default:
		return []byte{0x82, byte(n >> 8), byte(n)}
	}
}

// opaqueDG13 builds a DG13 (tag 6D, opaque content) whose total size is exactly `total` octets.
func opaqueDG13(total int, rnd *rand.Rand) []byte {
	if total < 2 {
		total = 2
	}
	// find v with 1 + len(berLen(v)) + v == total
	for v := total - 2; v >= 0 && v >= total-4; v-- {
		if 1+len(berLen(v))+v == total {
			val := make([]byte, v)
			rnd.Read(val)
			return append(append([]byte{0x6D}, berLen(v)...), val...)
		}
	}
	// sizes 130 / 258 cannot be hit exactly with minimal lengths; use the nearest below
	return opaqueDG13(total-1, rnd)
}

func randScalar(curve *chipsim.Curve, rnd *rand.Rand) []byte {
	n := curve.Params().N
	for {
		b := make([]byte, (n.BitLen()+7)/8)
		rnd.Read(b)
		k := new(big.Int).SetBytes(b)
		k.Mod(k, n)
		if k.Sign() > 0 {
			out := make([]byte, (n.BitLen()+7)/8)
			k.FillBytes(out)
			return out
		}
	}
}

type detReader struct{ r *rand.Rand }

func (d detReader) Read(p []byte) (int, error) { return d.r.Read(p) }

// rsa keys for AA are slow to make: pool by (bits, slot)
var (
	aaPoolMu sync.Mutex
	aaPool   = map[[2]int]*chipsim.AAKey{}
)

func aaRSA(bits, slot int, hash string) (*chipsim.AAKey, error) {
	aaPoolMu.Lock()
	defer aaPoolMu.Unlock()
	k, ok := aaPool[[2]int{bits, slot}]
	if !ok {
		n, d, e, err := chipsim.GenerateRSAKey(detReader{rand.New(rand.NewSource(int64(bits*131 + slot)))}, bits)
		if err != nil {
			return nil, err
		}
		k = &chipsim.AAKey{Type: "rsa", N: n.Bytes(), E: e.Bytes(), D: d.Bytes()}
		aaPool[[2]int{bits, slot}] = k
	}
	c := *k
	c.Hash = hash
	return &c, nil
}

// New personalises a passport.
func New(o Options) (*Passport, error) {
	rnd := rand.New(rand.NewSource(o.Seed))
	p := &Passport{Opt: o, AppFiles: map[uint16][]byte{}, MfFiles: map[uint16][]byte{}, DGBytes: map[int][]byte{}}
	if o.DocNumber == "" {
		o.DocNumber = "L898902C3"
	}
	p.SignTime = time.Date(2024, 6, 1, 12, 0, 0, 0, time.UTC)
	p.MRZ = pki.MakeTD3MRZ("NLD", o.DocNumber)
	l2 := p.MRZ[44:]
	p.MRZInfo = l2[0:10] + l2[13:20] + l2[21:28]
	p.DGBytes[1] = pki.MakeDG1(p.MRZ)

	// ---- keys --------------------------------------------------------------------------------
	var caSpecs []chipsim.CAKeySpec
	for _, c := range o.CA {
		curve, err := chipsim.CurveByParamID(c.ParamID)
		if err != nil {
			return nil, err
		}
		priv := randScalar(curve, rnd)
		p.CAKeys = append(p.CAKeys, chipsim.CAKey{OID: c.OID, KeyID: c.KeyID, ParamID: c.ParamID, Priv: priv})
		params := c.Params
		if params == "" {
			params = "explicit"
		}
		pubPriv := priv
		if c.ForeignDG14 {
			pubPriv = randScalar(curve, rnd)
		}
		caSpecs = append(caSpecs, chipsim.CAKeySpec{OID: c.OID, KeyID: c.KeyID, InfoNoKeyID: c.InfoNoKeyID, ParamID: c.ParamID, Priv: pubPriv, Params: params, Cofactor: true})
	}
	// CA key OID "" : the chip still needs a protocol to run; it answers MSE:Set KAT / 3DES
	chipCAKeys := append([]chipsim.CAKey{}, p.CAKeys...)
	for i := range chipCAKeys {
		if chipCAKeys[i].OID == "" {
			chipCAKeys[i].OID = chipsim.OIDCaEcdh3Des
		}
	}
	if o.AA != nil {
		switch o.AA.Type {
		case "rsa":
			k, err := aaRSA(o.AA.Bits, int(o.Seed%3), o.AA.Hash)
			if err != nil {
				return nil, err
			}
			p.AAKey = k
		case "ecdsa":
			curve, err := chipsim.CurveByParamID(o.AA.ParamID)
			if err != nil {
				return nil, err
			}
			p.AAKey = &chipsim.AAKey{Type: "ecdsa", Hash: o.AA.Hash, ParamID: o.AA.ParamID, Priv: randScalar(curve, rnd), SigFormat: o.AA.SigFormat}
		default:
			return nil, fmt.Errorf("perso: AA type %q", o.AA.Type)
		}
	}

	// ---- security infos ------------------------------------------------------------------------
	var paceInfos []chipsim.PaceInfoSpec
	for _, ps := range o.Pace {
		paceInfos = append(paceInfos, chipsim.PaceInfoSpec{OID: ps.OID, ParamID: ps.ParamID})
	}
	paceInfos = append(paceInfos, o.ExtraPaceInfos...)
	if o.PaceInfoOrder == 1 { // unsupported / extra entries first
		paceInfos = append(append([]chipsim.PaceInfoSpec{}, o.ExtraPaceInfos...), paceInfos[:len(paceInfos)-len(o.ExtraPaceInfos)]...)
	} else if o.PaceInfoOrder != 0 {
		rand.New(rand.NewSource(o.PaceInfoOrder)).Shuffle(len(paceInfos), func(i, j int) { paceInfos[i], paceInfos[j] = paceInfos[j], paceInfos[i] })
	}
	camUsed := false
	for _, ps := range o.Pace {
		if isCam(ps.OID) {
			camUsed = true
		}
	}
	if len(paceInfos) > 0 || len(o.CardAccessExtra) > 0 {
		if o.CardAccessExtraFirst {
			p.MfFiles[chipsim.FidCardAccess] = chipsim.BuildCardAccessExtraFirst(paceInfos, o.CardAccessExtra...)
		} else {
			p.MfFiles[chipsim.FidCardAccess] = chipsim.BuildCardAccess(paceInfos, o.CardAccessExtra...)
		}
	}
	needDG14 := len(caSpecs) > 0 || len(paceInfos) > 0 || (o.AA != nil && o.AA.Type == "ecdsa")
	if needDG14 {
		var extra [][]byte
		if !o.NoDG14PaceInfos {
			for _, pi := range paceInfos {
				extra = append(extra, chipsim.PaceInfo(pi))
			}
		}
		if o.AA != nil && o.AA.Type == "ecdsa" {
			extra = append(extra, chipsim.ActiveAuthenticationInfo(ecdsaPlainOID(o.AA.Hash)))
		}
		dg14, err := chipsim.BuildDG14(caSpecs, extra...)
		if err != nil {
			return nil, err
		}
		p.DGBytes[14] = dg14
	}
	if p.AAKey != nil {
		spki, err := chipsim.AASubjectPublicKeyInfo(p.AAKey, o.AA.Named)
		if err != nil {
			return nil, err
		}
		p.DGBytes[15] = chipsim.BuildDG15(spki)
	}
	for _, n := range o.DGs {
		switch n {
		case 13:
			if o.DG13Size > 0 {
				p.DGBytes[13] = opaqueDG13(o.DG13Size, rnd)
				if o.DG13LongLength {
					hdr := 2
					if p.DGBytes[13][1] >= 0x80 {
						hdr = 2 + int(p.DGBytes[13][1]&0x7f)
					}
					v := p.DGBytes[13][hdr:]
					var l []byte
					switch n := len(v); {
					case n < 128:
						l = []byte{0x81, byte(n)}
					case n < 256:
						l = []byte{0x82, 0x00, byte(n)}
					}
					if l != nil { // longer forms would not fit the 4-octet header read (premise of C08, see DESIGN.md)
						p.DGBytes[13] = append(append([]byte{0x6D}, l...), v...)
					}
				}
			} else {
				p.DGBytes[13] = sampleDG(13)
			}
		case 2, 7, 11, 12, 16:
			p.DGBytes[n] = sampleDG(n)
		default:
			return nil, fmt.Errorf("perso: data group %d not supported", n)
		}
	}

	// ---- PKI -------------------------------------------------------------------------------------
	ks := o.KeySpec
	if ks.Kind == "" {
		ks = pki.KeySpec{Kind: "ecdsa", Curve: "P-256", Hash: "sha256"}
	}
	prnd := detReader{rand.New(rand.NewSource(o.Seed ^ 0x5eed))}
	csca, err := pki.NewCA(pki.CertSpec{Rand: prnd, Subject: pki.DN("NL", "State of the Netherlands", "CSCA NL"), KeySpec: ks})
	if err != nil {
		return nil, err
	}
	ds, err := csca.IssueDS(pki.CertSpec{Subject: pki.DN("NL", "State of the Netherlands", "DS 1"), KeySlot: 1})
	if err != nil {
		return nil, err
	}
	p.CSCA, p.DS = csca, ds
	sodSpec := pki.NewSODSpec(ds, p.DGBytes, p.SignTime)
	if o.SodVariant != nil {
		o.SodVariant(&sodSpec)
	}
	sod, err := pki.BuildSOD(sodSpec)
	if err != nil {
		return nil, err
	}
	if sodSpec.DGOrder != nil {
		p.SODOrder = append([]int{}, sodSpec.DGOrder...)
	} else {
		for n := range sodSpec.DGs {
			p.SODOrder = append(p.SODOrder, n)
		}
		sort.Ints(p.SODOrder)
	}
	if o.IssuerTrusted {
		p.Trust = [][]byte{csca.Cert}
	} else {
		other, err := pki.NewCA(pki.CertSpec{Rand: detReader{rand.New(rand.NewSource(o.Seed ^ 0xbad))}, Subject: pki.DN("NL", "Somebody Else", "CSCA NL 2"), KeySpec: ks, KeySlot: 7})
		if err != nil {
			return nil, err
		}
		p.Trust = [][]byte{other.Cert}
	}
	if camUsed {
		// EF.CardSecurity: PACEInfos + the static key of the chip authentication mapping (standardized parameters)
		var infos [][]byte
		for _, pi := range paceInfos {
			infos = append(infos, chipsim.PaceInfo(pi))
		}
		var camKeys []chipsim.CAKeySpec
		for _, c := range caSpecs {
			k := c
			k.Params = "standardized"
			camKeys = append(camKeys, k)
		}
		ci, err := chipsim.CASecurityInfos(camKeys)
		if err != nil {
			return nil, err
		}
		infos = append(infos, ci...)
		cs, err := pki.BuildCardSecurity(pki.NewCardSecuritySpec(ds, chipsim.BuildSecurityInfos(infos...), p.SignTime))
		if err != nil {
			return nil, err
		}
		p.MfFiles[chipsim.FidCardSecurity] = cs
	}

	// ---- files -------------------------------------------------------------------------------------
	var tags []byte
	var nums []int
	for n := range p.DGBytes {
		nums = append(nums, n)
	}
	sort.Ints(nums)
	strip := map[int]bool{}
	for _, n := range o.StripFromChip {
		strip[n] = true
	}
	for _, n := range nums {
		tags = append(tags, dgTags[n])
		if !strip[n] {
			p.AppFiles[dgFid(n)] = p.DGBytes[n]
		}
	}
	p.AppFiles[chipsim.FidCOM] = chipsim.BuildCOM("0107", "040000", tags)
	p.AppFiles[chipsim.FidSOD] = sod

	var camKey *chipsim.ECKey
	if o.CloneOwnKeys {
		crnd := rand.New(rand.NewSource(o.Seed ^ 0xc10e))
		var cloneSpecs []chipsim.CAKeySpec
		for i := range chipCAKeys {
			curve, _ := chipsim.CurveByParamID(chipCAKeys[i].ParamID)
			chipCAKeys[i].Priv = randScalar(curve, crnd)
			sp := caSpecs[i]
			sp.Priv = chipCAKeys[i].Priv
			sp.X, sp.Y = nil, nil
			cloneSpecs = append(cloneSpecs, sp)
		}
		if len(cloneSpecs) > 0 {
			var extra [][]byte
			for _, pi := range paceInfos {
				extra = append(extra, chipsim.PaceInfo(pi))
			}
			if o.AA != nil && o.AA.Type == "ecdsa" {
				extra = append(extra, chipsim.ActiveAuthenticationInfo(ecdsaPlainOID(o.AA.Hash)))
			}
			dg14, err := chipsim.BuildDG14(cloneSpecs, extra...)
			if err != nil {
				return nil, err
			}
			if _, ok := p.AppFiles[dgFid(14)]; ok {
				p.AppFiles[dgFid(14)] = dg14
			}
			camKey = &chipsim.ECKey{ParamID: chipCAKeys[0].ParamID, Priv: chipCAKeys[0].Priv}
		}
		if p.AAKey != nil {
			var k2 *chipsim.AAKey
			if o.AA.Type == "rsa" {
				k2, err = aaRSA(o.AA.Bits, int(o.Seed%3)+3, o.AA.Hash)
				if err != nil {
					return nil, err
				}
			} else {
				curve, _ := chipsim.CurveByParamID(o.AA.ParamID)
				k2 = &chipsim.AAKey{Type: "ecdsa", Hash: o.AA.Hash, ParamID: o.AA.ParamID, Priv: randScalar(curve, crnd), SigFormat: o.AA.SigFormat}
			}
			spki, err := chipsim.AASubjectPublicKeyInfo(k2, o.AA.Named)
			if err != nil {
				return nil, err
			}
			if _, ok := p.AppFiles[dgFid(15)]; ok {
				p.AppFiles[dgFid(15)] = chipsim.BuildDG15(spki)
			}
			p.AAKey = k2
		}
	}

	p.Cfg = chipsim.Config{
		MfFiles: p.MfFiles, AppFiles: p.AppFiles, MRZInfo: p.MRZInfo, CAN: o.CAN,
		EnableBAC: o.BAC, EnablePACE: len(o.Pace) > 0, RequireAccessControl: !o.OpenChip,
		Pace: o.Pace, CAKeys: chipCAKeys, AA: p.AAKey, CamKey: camKey,
		Transport: o.Transport, Personality: o.Personality, Rand: detReader{rand.New(rand.NewSource(o.Seed ^ 0xc41b))},
		ChooseScalar: o.ChooseScalar,
	}
	return p, nil
}

func isCam(oid string) bool {
	return oid == chipsim.OIDPaceEcdhCamAes128 || oid == chipsim.OIDPaceEcdhCamAes192 || oid == chipsim.OIDPaceEcdhCamAes256
}

func ecdsaPlainOID(hash string) string {
	switch hash {
	case "sha1":
		return chipsim.OIDEcdsaPlainSHA1
	case "sha224":
		return chipsim.OIDEcdsaPlainSHA224
	case "sha384":
		return chipsim.OIDEcdsaPlainSHA384
	case "sha512":
		return chipsim.OIDEcdsaPlainSHA512
	}
	return chipsim.OIDEcdsaPlainSHA256
}

// Chip powers up a fresh chip for this passport.
func (p *Passport) Chip() (*chipsim.Chip, error) { return chipsim.New(p.Cfg) }
