package chipsim_test

// The REAL gmrtd reader code driven against the simulator. These tests may import gmrtd; the
// simulator itself does not.

import (
	"bytes"
	"crypto/elliptic"
	"crypto/rand"
	"fmt"
	"math/big"
	mrand "math/rand"
	"testing"

	"github.com/gmrtd/gmrtd/activeauth"
	"github.com/gmrtd/gmrtd/bac"
	"github.com/gmrtd/gmrtd/chipauth"
	"github.com/gmrtd/gmrtd/cms"
	"github.com/gmrtd/gmrtd/document"
	"github.com/gmrtd/gmrtd/iso7816"
	"github.com/gmrtd/gmrtd/pace"
	"github.com/gmrtd/gmrtd/password"
	"github.com/gmrtd/gmrtd/reader"

	"verif/harness/chipsim"
)

const (
	docNo = "L898902C<"
	dob   = "690806"
	doe   = "940623"
	can   = "123456"
)

var aid = []byte{0xA0, 0x00, 0x00, 0x02, 0x47, 0x10, 0x01}

func mrzPass(t *testing.T) *password.Password {
	t.Helper()
	p, err := password.NewPasswordMrzi(docNo, dob, doe)
	if err != nil {
		t.Fatal(err)
	}
	return p
}

// bigFile makes a file of n content octets under the given tag.
func bigFile(tag uint32, n int, seed int64) []byte {
	v := make([]byte, n)
	mrand.New(mrand.NewSource(seed)).Read(v)
	return chipsim.EncodeTLV(tag, v)
}

func baseFiles() map[uint16][]byte {
	return map[uint16][]byte{
		chipsim.FidCOM: chipsim.BuildCOM("0107", "040000", []byte{0x61, 0x75, 0x6E, 0x6F}),
		chipsim.FidDG1: chipsim.BuildDG1("P<UTOERIKSSON<<ANNA<MARIA<<<<<<<<<<<<<<<<<<<L898902C<3UTO6908061F9406236ZE184226B<<<<<14"),
		0x0102:         bigFile(0x75, 20000, 1),
		0x010B:         bigFile(0x6B, 300, 2),
		0x010C:         bigFile(0x6C, 231, 3),
		0x010D:         bigFile(0x6D, 5, 4),
	}
}

func readAll(t *testing.T, nfc *iso7816.NfcSession, files map[uint16][]byte) {
	t.Helper()
	for fid, want := range files {
		got, err := nfc.ReadFile(fid)
		if err != nil {
			t.Fatalf("ReadFile(%04X): %v", fid, err)
		}
		if !bytes.Equal(got, want) {
			t.Fatalf("ReadFile(%04X): %d octets read, %d expected, contents differ", fid, len(got), len(want))
		}
	}
}

func doBAC(t *testing.T, chip *chipsim.Chip) *iso7816.NfcSession {
	t.Helper()
	nfc := iso7816.NewNfcSession(chip)
	if ok, err := nfc.SelectAid(aid); err != nil || !ok {
		t.Fatalf("SelectAid: %v %v", ok, err)
	}
	var doc document.Document
	res, err := bac.NewBAC(nfc, &doc, mrzPass(t)).DoBAC()
	if err != nil || res == nil || !res.Success {
		t.Fatalf("DoBAC: %+v %v", res, err)
	}
	return nfc
}

// robustRead reads a file the way a careful reader would: it asks for what is left and takes
// whatever the chip returns, until the length announced by the header TLV is reached.
func robustRead(t *testing.T, nfc *iso7816.NfcSession, fid uint16, maxLe int) []byte {
	t.Helper()
	ok, err := nfc.SelectEF(fid)
	if err != nil || !ok {
		t.Fatalf("SelectEF(%04X): %v %v", fid, ok, err)
	}
	var buf []byte
	total := -1
	for total < 0 || len(buf) < total {
		want := maxLe
		if total < 0 {
			want = 4 - len(buf)
		} else if total-len(buf) < want {
			want = total - len(buf)
		}
		chunk, err := nfc.ReadBinaryFromOffset(len(buf), want)
		if err != nil || len(chunk) == 0 || len(chunk) > want {
			t.Fatalf("ReadBinary(%04X, offset %d, le %d): %d octets, %v", fid, len(buf), want, len(chunk), err)
		}
		buf = append(buf, chunk...)
		if total < 0 && len(buf) >= 4 {
			dos := buf[1:]
			switch {
			case dos[0] < 0x80:
				total = 2 + int(dos[0])
			case dos[0] == 0x81:
				total = 3 + int(dos[1])
			case dos[0] == 0x82:
				total = 4 + int(dos[1])<<8 + int(dos[2])
			default:
				t.Fatalf("length form %02X", dos[0])
			}
		}
	}
	return buf
}

// (a) BAC and reading under secure messaging, over a range of transport behaviours.
func TestIntegrationBACAndReadFile(t *testing.T) {
	type tc struct {
		tr chipsim.Transport
		// gmrtdReadFile: gmrtd's ReadFile is expected to cope. It does not loop on the 4-octet
		// header read and assumes that read returned 4 octets, so chips that answer short are
		// read with the careful reader above instead (and gmrtd's outcome is only logged).
		gmrtdReadFile bool
	}
	transports := map[string]tc{
		"default":        {chipsim.Transport{}, true},
		"maxread-100":    {chipsim.Transport{MaxRead: 100}, true},
		"maxread-4":      {chipsim.Transport{MaxRead: 4}, true},
		"reject-le>200":  {chipsim.Transport{RejectLeOver: 200}, true},
		"reject-le>128":  {chipsim.Transport{RejectLeOver: 128}, true},
		"warn-eof-off":   {chipsim.Transport{MaxRead: 223}, true},
		"extended":       {chipsim.Transport{ExtendedLength: true}, true},
		"select-guarded": {chipsim.Transport{SelectRequiresAuth: true}, true},
		"maxread-1":      {chipsim.Transport{MaxRead: 1}, false},
		"half":           {chipsim.Transport{ShortReturn: "half"}, false},
		"one":            {chipsim.Transport{ShortReturn: "one"}, false},
		"random":         {chipsim.Transport{ShortReturn: "random", ShortReturnSeed: 7}, false},
		"header-short-2": {chipsim.Transport{HeaderReadShort: 2}, false},
	}
	for name, c := range transports {
		t.Run(name, func(t *testing.T) {
			files := baseFiles()
			if c.tr.MaxRead > 0 && c.tr.MaxRead < 20 || c.tr.ShortReturn == "one" {
				delete(files, 0x0102) // thousands of tiny reads: beyond gmrtd's 1000-chunk limit by design
			}
			chip, err := chipsim.New(chipsim.Config{
				AppFiles: files, MRZInfo: chipsim.MRZInformation(docNo, dob, doe),
				EnableBAC: true, RequireAccessControl: true, Transport: c.tr,
			})
			if err != nil {
				t.Fatal(err)
			}
			nfc := doBAC(t, chip)
			if c.gmrtdReadFile {
				readAll(t, nfc, files)
			} else {
				for fid, want := range files {
					if got := robustRead(t, nfc, fid, 256); !bytes.Equal(got, want) {
						t.Fatalf("careful read of %04X differs", fid)
					}
				}
				for fid, want := range files {
					got, err := nfc.ReadFile(fid)
					switch {
					case err != nil:
						t.Logf("gmrtd ReadFile(%04X) against a short-returning chip: %v", fid, err)
					case !bytes.Equal(got, want):
						t.Logf("gmrtd ReadFile(%04X) against a short-returning chip: NO ERROR but %d octets instead of %d", fid, len(got), len(want))
					}
				}
			}
			truth := chip.Truth()
			if !truth.BacCompleted || !truth.SM.Alive || truth.SMFailures != 0 {
				t.Errorf("truth: bac %v sm %+v failures %d", truth.BacCompleted, truth.SM, truth.SMFailures)
			}
			if !bytes.Equal(truth.SM.SSC, nfc.SM().SSC()) || !bytes.Equal(truth.SM.KSenc, nfc.SM().KsEnc()) {
				t.Errorf("reader and chip disagree on the session: chip SSC %X reader SSC %X", truth.SM.SSC, nfc.SM().SSC())
			}
			for _, r := range truth.Reads {
				if !r.Secured {
					t.Errorf("unsecured read %+v", r)
				}
				if c.tr.MaxRead > 0 && r.Returned > c.tr.MaxRead {
					t.Errorf("read returned %d > MaxRead", r.Returned)
				}
			}
			// a missing file is reported as such, under SM
			if got, err := nfc.ReadFile(0x0103); err != nil || got != nil {
				t.Errorf("missing file: %v %v", got, err)
			}
		})
	}
}

func TestIntegrationExtendedLengthReads(t *testing.T) {
	files := baseFiles()
	chip, err := chipsim.New(chipsim.Config{
		AppFiles: files, MRZInfo: chipsim.MRZInformation(docNo, dob, doe),
		EnableBAC: true, RequireAccessControl: true, Transport: chipsim.Transport{ExtendedLength: true},
	})
	if err != nil {
		t.Fatal(err)
	}
	nfc := doBAC(t, chip)
	nfc.SetMaxLe(65536)
	readAll(t, nfc, files)
	big := 0
	for _, r := range chip.Truth().Reads {
		if r.Returned > 256 {
			big++
		}
	}
	if big == 0 {
		t.Error("no extended-length read was answered with more than 256 octets")
	}
}

// noLeadingZero picks PACE key agreement scalars whose shared secret does not start with a
// zero octet: gmrtd drops leading zero octets of the shared secret (pace.go:416) and then
// derives other keys than the chip. That defect is for the harness to report; these tests
// validate the simulator and stay clear of it.
func noLeadingZero(phase string, curve elliptic.Curve, px, py *big.Int) *big.Int {
	if phase != "pace-ka" {
		return nil
	}
	c := curve.(*chipsim.Curve)
	for {
		k, _ := c.RandomScalar(rand.Reader)
		if x, _ := c.Mul(px, py, k); c.FE2OS(x)[0] != 0 {
			return k
		}
	}
}

func paceDoc(t *testing.T, chip *chipsim.Chip, cardAccess []byte) (*iso7816.NfcSession, *document.Document) {
	t.Helper()
	nfc := iso7816.NewNfcSession(chip)
	if err := nfc.SelectMF(); err != nil {
		t.Fatal(err)
	}
	raw, err := nfc.ReadFile(chipsim.FidCardAccess)
	if err != nil || !bytes.Equal(raw, cardAccess) {
		t.Fatalf("EF.CardAccess: %v", err)
	}
	var doc document.Document
	if doc.Mf.CardAccess, err = document.NewCardAccess(raw); err != nil {
		t.Fatalf("gmrtd does not parse the EF.CardAccess built by the helper: %v", err)
	}
	return nfc, &doc
}

// (b) PACE generic mapping and chip authentication mapping.
func TestIntegrationPACE(t *testing.T) {
	type tc struct {
		oid     string
		param   int
		useCAN  bool
		wantCAM bool
	}
	var cases []tc
	for _, param := range []int{12, 13} {
		for _, oid := range []string{chipsim.OIDPaceEcdhGmAes128, chipsim.OIDPaceEcdhGm3Des, chipsim.OIDPaceEcdhCamAes128} {
			for _, useCAN := range []bool{false, true} {
				cases = append(cases, tc{oid, param, useCAN, oid == chipsim.OIDPaceEcdhCamAes128})
			}
		}
	}
	// the remaining ciphers and curves, once each
	cases = append(cases,
		tc{chipsim.OIDPaceEcdhGmAes192, 13, false, false}, tc{chipsim.OIDPaceEcdhGmAes256, 12, true, false},
		tc{chipsim.OIDPaceEcdhCamAes192, 16, false, true}, tc{chipsim.OIDPaceEcdhCamAes256, 17, true, true},
	)
	for _, id := range []int{8, 9, 10, 11, 14, 15, 16, 17, 18} {
		cases = append(cases, tc{chipsim.OIDPaceEcdhGmAes128, id, false, false})
	}
	for _, c := range cases {
		t.Run(fmt.Sprintf("%s/param%d/can=%v", c.oid, c.param, c.useCAN), func(t *testing.T) {
			curve, err := chipsim.CurveByParamID(c.param)
			if err != nil {
				t.Fatal(err)
			}
			sk, _ := curve.RandomScalar(rand.Reader)
			keyID := c.param
			cardAccess := chipsim.BuildCardAccess([]chipsim.PaceInfoSpec{{OID: c.oid, ParamID: c.param}})
			files := baseFiles()
			chip, err := chipsim.New(chipsim.Config{
				MfFiles:  map[uint16][]byte{chipsim.FidCardAccess: cardAccess},
				AppFiles: files, MRZInfo: chipsim.MRZInformation(docNo, dob, doe), CAN: can,
				EnablePACE: true, RequireAccessControl: true,
				Pace:         []chipsim.PaceSpec{{OID: c.oid, ParamID: c.param}},
				CamKey:       &chipsim.ECKey{ParamID: c.param, Priv: sk.Bytes()},
				ChooseScalar: noLeadingZero,
			})
			if err != nil {
				t.Fatal(err)
			}
			nfc, doc := paceDoc(t, chip, cardAccess)
			if c.wantCAM {
				// EF.CardSecurity is a CMS object made elsewhere; give the reader its SecurityInfos directly
				infos, err := chipsim.CASecurityInfos([]chipsim.CAKeySpec{{ParamID: c.param, Priv: sk.Bytes(), Params: "standardized", KeyID: &keyID}})
				if err != nil {
					t.Fatal(err)
				}
				si, err := document.DecodeSecurityInfos(chipsim.BuildSecurityInfos(infos...))
				if err != nil || len(si.ChipAuthPubKeyInfos) != 1 {
					t.Fatalf("gmrtd does not parse the CardSecurity SecurityInfos: %v", err)
				}
				doc.Mf.CardSecurity = &document.CardSecurity{SecurityInfos: si}
			}
			pass := mrzPass(t)
			if c.useCAN {
				pass = password.NewPasswordCan(can)
			}
			res, cam, err := pace.NewPace(nfc, doc, pass).DoPACE()
			if err != nil || res == nil || !res.Success {
				t.Fatalf("DoPACE: %+v %v", res, err)
			}
			if c.wantCAM != (cam != nil && cam.Success) {
				t.Fatalf("CAM result %+v", cam)
			}
			truth := chip.Truth()
			wantRef := 1
			if c.useCAN {
				wantRef = 2
			}
			if !truth.PaceCompleted || truth.PaceOID != c.oid || truth.PaceParamID != c.param || truth.PacePasswordRef != wantRef || truth.PaceCamCompleted != c.wantCAM {
				t.Errorf("truth: %+v", truth)
			}
			if res.Oid.String() != c.oid || res.ParameterId != c.param {
				t.Errorf("reader reports %s/%d", res.Oid, res.ParameterId)
			}
			if ok, err := nfc.SelectAid(aid); err != nil || !ok {
				t.Fatalf("SelectAid under SM: %v %v", ok, err)
			}
			delete(files, 0x0102)
			readAll(t, nfc, files)
			if truth = chip.Truth(); truth.SMFailures != 0 || !bytes.Equal(truth.SM.SSC, nfc.SM().SSC()) {
				t.Errorf("SM failures %d, chip SSC %X, reader SSC %X", truth.SMFailures, truth.SM.SSC, nfc.SM().SSC())
			}
		})
	}
}

func TestIntegrationPACEWrongPassword(t *testing.T) {
	cardAccess := chipsim.BuildCardAccess([]chipsim.PaceInfoSpec{{OID: chipsim.OIDPaceEcdhGmAes128, ParamID: 13}})
	chip, err := chipsim.New(chipsim.Config{
		MfFiles:  map[uint16][]byte{chipsim.FidCardAccess: cardAccess},
		AppFiles: baseFiles(), MRZInfo: chipsim.MRZInformation(docNo, dob, doe), CAN: can,
		EnablePACE: true, RequireAccessControl: true,
		Pace: []chipsim.PaceSpec{{OID: chipsim.OIDPaceEcdhGmAes128, ParamID: 13}},
	})
	if err != nil {
		t.Fatal(err)
	}
	nfc, doc := paceDoc(t, chip, cardAccess)
	res, _, err := pace.NewPace(nfc, doc, password.NewPasswordCan("654321")).DoPACE()
	if err == nil || (res != nil && res.Success) {
		t.Fatalf("PACE with a wrong CAN succeeded: %+v", res)
	}
	truth := chip.Truth()
	if truth.PaceCompleted || truth.SM.Alive || truth.PaceFailures != 1 {
		t.Errorf("truth: %+v", truth)
	}
	if last := truth.Accepted[len(truth.Accepted)-1]; last.SW != 0x6300 {
		t.Errorf("last status %04X", last.SW)
	}
}

// (c) Chip Authentication: MSE:Set KAT (3DES, protocol inferred from the key) and
// MSE:Set AT + GENERAL AUTHENTICATE (AES and 3DES), named and explicit parameters.
func TestIntegrationChipAuth(t *testing.T) {
	type tc struct {
		name    string
		oid     string // protocol of the chip's key
		info    bool   // ChipAuthenticationInfo present in DG14
		param   int
		params  string
		keyID   *int
		wantINS string
	}
	seven := 7
	cases := []tc{
		{"3des-setkat-p256", chipsim.OIDCaEcdh3Des, false, 12, "explicit", nil, "22"},
		{"3des-setkat-bp256", chipsim.OIDCaEcdh3Des, false, 13, "explicit", nil, "22"},
		{"3des-setat-p256", chipsim.OIDCaEcdh3Des, true, 12, "explicit", nil, "86"},
		{"aes128-p256", chipsim.OIDCaEcdhAes128, true, 12, "explicit", nil, "86"},
		{"aes128-bp256", chipsim.OIDCaEcdhAes128, true, 13, "explicit", nil, "86"},
		{"aes128-bp256-named", chipsim.OIDCaEcdhAes128, true, 13, "named", nil, "86"},
		{"aes192-p384-keyid", chipsim.OIDCaEcdhAes192, true, 15, "explicit", &seven, "86"},
		{"aes256-bp512", chipsim.OIDCaEcdhAes256, true, 17, "explicit", nil, "86"},
		{"aes256-p521-named", chipsim.OIDCaEcdhAes256, true, 18, "named", nil, "86"},
		{"aes128-p224", chipsim.OIDCaEcdhAes128, true, 10, "explicit", nil, "86"},
		{"aes128-bp320", chipsim.OIDCaEcdhAes128, true, 14, "explicit", nil, "86"},
	}
	for _, c := range cases {
		t.Run(c.name, func(t *testing.T) {
		retry:
			curve, _ := chipsim.CurveByParamID(c.param)
			sk, _ := curve.RandomScalar(rand.Reader)
			spec := chipsim.CAKeySpec{ParamID: c.param, Priv: sk.Bytes(), Params: c.params, KeyID: c.keyID}
			if c.info {
				spec.OID = c.oid
			}
			dg14, err := chipsim.BuildDG14([]chipsim.CAKeySpec{spec})
			if err != nil {
				t.Fatal(err)
			}
			files := baseFiles()
			files[chipsim.FidDG14] = dg14
			chip, err := chipsim.New(chipsim.Config{
				AppFiles: files, MRZInfo: chipsim.MRZInformation(docNo, dob, doe),
				EnableBAC: true, RequireAccessControl: true,
				CAKeys: []chipsim.CAKey{{OID: c.oid, KeyID: c.keyID, ParamID: c.param, Priv: sk.Bytes()}},
			})
			if err != nil {
				t.Fatal(err)
			}
			nfc := doBAC(t, chip)
			raw, err := nfc.ReadFile(chipsim.FidDG14)
			if err != nil || !bytes.Equal(raw, dg14) {
				t.Fatalf("DG14: %v", err)
			}
			var doc document.Document
			if doc.Mf.Lds1.Dg14, err = document.NewDG14(raw); err != nil {
				t.Fatalf("gmrtd does not parse the DG14 built by the helper: %v", err)
			}
			before := chip.Truth()
			res, err := chipauth.NewChipAuth(nfc, &doc).DoChipAuth()
			truth := chip.Truth()
			if (err != nil || res == nil || !res.Success) && len(truth.CaSharedSecret) > 0 && truth.CaSharedSecret[0] == 0 {
				// gmrtd drops leading zero octets of the shared secret (chip_auth.go:399); with P-521
				// that happens every other run. Not the simulator's business: try again.
				t.Logf("gmrtd failed on a shared secret with a leading zero octet (%v); retrying", err)
				goto retry
			}
			if err != nil || res == nil || !res.Success {
				t.Fatalf("DoChipAuth: %+v %v", res, err)
			}
			if !truth.CaCompleted || truth.CaAnswered != 1 || truth.CaOID != c.oid || truth.SM.Origin != "CA" || truth.SMFailures != 0 {
				t.Errorf("truth: %+v", truth)
			}
			if bytes.Equal(before.SM.KSenc, truth.SM.KSenc) {
				t.Error("session keys did not change")
			}
			// which command completed the key agreement, and was its response under the old keys?
			var ka chipsim.PlainCmd
			for _, a := range truth.Accepted[len(before.Accepted):] {
				if a.INS == 0x86 || (a.INS == 0x22 && a.P2 == 0xA6) {
					ka = a
				}
			}
			if fmt.Sprintf("%02X", ka.INS) != c.wantINS || !ka.Secured || len(ka.CSSC) != 8 {
				t.Errorf("key agreement command: %+v", ka)
			}
			// the reader's confirmation SELECT ran under the new session with SSC 1,2
			wantSSC := make([]byte, len(truth.SM.SSC))
			wantSSC[len(wantSSC)-1] = 2
			if !bytes.Equal(truth.SM.SSC, wantSSC) || !bytes.Equal(nfc.SM().SSC(), wantSSC) {
				t.Errorf("SSC after CA: chip %X reader %X", truth.SM.SSC, nfc.SM().SSC())
			}
			delete(files, 0x0102)
			readAll(t, nfc, files)
		})
	}
}

// (d) Active Authentication.
func TestIntegrationActiveAuth(t *testing.T) {
	type tc struct {
		name string
		key  func(t *testing.T) *chipsim.AAKey
		sm   bool
		ext  bool
	}
	rsaKey := func(bits int, hash string) func(t *testing.T) *chipsim.AAKey {
		return func(t *testing.T) *chipsim.AAKey {
			n, d, e, err := chipsim.GenerateRSAKey(rand.Reader, bits)
			if err != nil {
				t.Fatal(err)
			}
			return &chipsim.AAKey{Type: "rsa", Hash: hash, N: n.Bytes(), E: e.Bytes(), D: d.Bytes()}
		}
	}
	ecKey := func(param int, hash, format string) func(t *testing.T) *chipsim.AAKey {
		return func(t *testing.T) *chipsim.AAKey {
			curve, _ := chipsim.CurveByParamID(param)
			sk, _ := curve.RandomScalar(rand.Reader)
			return &chipsim.AAKey{Type: "ecdsa", Hash: hash, ParamID: param, Priv: sk.Bytes(), SigFormat: format}
		}
	}
	cases := []tc{
		{"rsa1024-sha1-plain", rsaKey(1024, "sha1"), false, false},
		{"rsa1024-sha1-sm", rsaKey(1024, "sha1"), true, false},
		{"rsa1024-sha224-sm", rsaKey(1024, "sha224"), true, false},
		{"rsa1280-sha512-sm", rsaKey(1280, "sha512"), true, false},
		{"rsa1536-sha384-sm", rsaKey(1536, "sha384"), true, false},
		{"rsa2048-sha256-plain", rsaKey(2048, "sha256"), false, false},
		{"rsa2048-sha256-sm-extended", rsaKey(2048, "sha256"), true, true},
		{"rsa1029-sha1-sm", rsaKey(1029, "sha1"), true, false},
		{"rsa1031-sha256-sm", rsaKey(1031, "sha256"), true, false},
		{"rsa1028-sha256-sm", rsaKey(1028, "sha256"), true, false},
		{"ecdsa-p256-sha256-sm", ecKey(12, "sha256", ""), true, false},
		{"ecdsa-bp256-sha256-sm", ecKey(13, "sha256", ""), true, false},
		{"ecdsa-p384-sha384-sm", ecKey(15, "sha384", ""), true, false},
		{"ecdsa-p521-sha512-sm", ecKey(18, "sha512", ""), true, false},
		{"ecdsa-p224-sha224-plain", ecKey(10, "sha224", ""), false, false},
		{"ecdsa-p256-sha256-der-sm", ecKey(12, "sha256", "der"), true, false},
	}
	for _, c := range cases {
		t.Run(c.name, func(t *testing.T) {
			key := c.key(t)
			spki, err := chipsim.AASubjectPublicKeyInfo(key, false)
			if err != nil {
				t.Fatal(err)
			}
			files := baseFiles()
			files[chipsim.FidDG15] = chipsim.BuildDG15(spki)
			cfg := chipsim.Config{
				AppFiles: files, MRZInfo: chipsim.MRZInformation(docNo, dob, doe), AA: key,
				Transport: chipsim.Transport{ExtendedLength: c.ext},
			}
			if c.sm {
				cfg.EnableBAC, cfg.RequireAccessControl = true, true
			}
			chip, err := chipsim.New(cfg)
			if err != nil {
				t.Fatal(err)
			}
			var nfc *iso7816.NfcSession
			if c.sm {
				nfc = doBAC(t, chip)
			} else {
				nfc = iso7816.NewNfcSession(chip)
				if ok, err := nfc.SelectAid(aid); err != nil || !ok {
					t.Fatal(err)
				}
			}
			if c.ext {
				nfc.SetMaxLe(65536)
			}
			raw, err := nfc.ReadFile(chipsim.FidDG15)
			if err != nil {
				t.Fatal(err)
			}
			var doc document.Document
			if doc.Mf.Lds1.Dg15, err = document.NewDG15(raw); err != nil {
				t.Fatal(err)
			}
			challenge := []byte{1, 2, 3, 4, 5, 6, 7, 8}
			aa, err := activeauth.NewActiveAuth(nfc, &doc).WithChallenge(challenge)
			if err != nil {
				t.Fatal(err)
			}
			res, err := aa.DoActiveAuth()
			if err != nil || res == nil || !res.Success {
				t.Fatalf("DoActiveAuth: %+v %v", res, err)
			}
			truth := chip.Truth()
			if truth.AaSigned != 1 || !truth.AaGenuine || !bytes.Equal(truth.AaChallenges[0], challenge) {
				t.Errorf("truth: signed %d genuine %v challenges %X", truth.AaSigned, truth.AaGenuine, truth.AaChallenges)
			}
		})
	}
}

// RSA-2048 under secure messaging does not fit a short-length response: a chip that keeps to
// ISO/IEC 7816-4 has to refuse, and the reader (which never asks for extended length on its
// own) fails. Recorded here as the behaviour the harness should expect.
func TestIntegrationActiveAuthRSA2048ShortLengthUnderSM(t *testing.T) {
	n, d, e, err := chipsim.GenerateRSAKey(rand.Reader, 2048)
	if err != nil {
		t.Fatal(err)
	}
	key := &chipsim.AAKey{Type: "rsa", Hash: "sha256", N: n.Bytes(), E: e.Bytes(), D: d.Bytes()}
	spki, _ := chipsim.AASubjectPublicKeyInfo(key, false)
	files := baseFiles()
	files[chipsim.FidDG15] = chipsim.BuildDG15(spki)
	chip, err := chipsim.New(chipsim.Config{AppFiles: files, MRZInfo: chipsim.MRZInformation(docNo, dob, doe), AA: key, EnableBAC: true, RequireAccessControl: true})
	if err != nil {
		t.Fatal(err)
	}
	nfc := doBAC(t, chip)
	var doc document.Document
	raw, _ := nfc.ReadFile(chipsim.FidDG15)
	doc.Mf.Lds1.Dg15, _ = document.NewDG15(raw)
	res, err := activeauth.NewActiveAuth(nfc, &doc).DoActiveAuth()
	if err == nil {
		t.Fatalf("unexpected success: %+v", res)
	}
	truth := chip.Truth()
	if last := truth.Accepted[len(truth.Accepted)-1]; last.INS != 0x88 || last.SW != 0x6700 || !truth.SM.Alive {
		t.Errorf("last %+v, sm alive %v", last, truth.SM.Alive)
	}
}

// Adversarial personalities: what the chip's ground truth says and what the reader reports.
func TestIntegrationPersonalities(t *testing.T) {
	curve, _ := chipsim.CurveByParamID(13)
	sk, _ := curve.RandomScalar(rand.Reader)
	for _, pname := range []string{"ca-no-key", "ca-no-key-old-session", "ca-no-key-no-session"} {
		t.Run(pname, func(t *testing.T) {
			dg14, _ := chipsim.BuildDG14([]chipsim.CAKeySpec{{OID: chipsim.OIDCaEcdhAes128, ParamID: 13, Priv: sk.Bytes()}})
			files := baseFiles()
			files[chipsim.FidDG14] = dg14
			chip, err := chipsim.New(chipsim.Config{
				AppFiles: files, MRZInfo: chipsim.MRZInformation(docNo, dob, doe), EnableBAC: true, RequireAccessControl: true,
				CAKeys:      []chipsim.CAKey{{OID: chipsim.OIDCaEcdhAes128, ParamID: 13, Priv: sk.Bytes()}},
				Personality: chipsim.PersonalityByName(pname),
			})
			if err != nil {
				t.Fatal(err)
			}
			nfc := doBAC(t, chip)
			var doc document.Document
			doc.Mf.Lds1.Dg14, _ = document.NewDG14(dg14)
			res, err := chipauth.NewChipAuth(nfc, &doc).DoChipAuth()
			truth := chip.Truth()
			if truth.CaCompleted || truth.CaAnswered != 1 {
				t.Errorf("truth: %+v", truth)
			}
			if err == nil || (res != nil && res.Success) {
				t.Errorf("reader reports CA success against a chip without the key: %+v", res)
			}
		})
	}
	t.Run("aa-no-key", func(t *testing.T) {
		aaSk, _ := curve.RandomScalar(rand.Reader)
		key := &chipsim.AAKey{Type: "ecdsa", Hash: "sha256", ParamID: 13, Priv: aaSk.Bytes()}
		spki, _ := chipsim.AASubjectPublicKeyInfo(key, false)
		files := baseFiles()
		files[chipsim.FidDG15] = chipsim.BuildDG15(spki)
		chip, err := chipsim.New(chipsim.Config{AppFiles: files, MRZInfo: chipsim.MRZInformation(docNo, dob, doe), EnableBAC: true, RequireAccessControl: true,
			AA: key, Personality: chipsim.PersonalityByName("aa-no-key")})
		if err != nil {
			t.Fatal(err)
		}
		nfc := doBAC(t, chip)
		var doc document.Document
		doc.Mf.Lds1.Dg15, _ = document.NewDG15(files[chipsim.FidDG15])
		res, err := activeauth.NewActiveAuth(nfc, &doc).DoActiveAuth()
		truth := chip.Truth()
		if truth.AaSigned != 1 || truth.AaGenuine {
			t.Errorf("truth: %+v", truth)
		}
		if err == nil || (res != nil && res.Success) {
			t.Errorf("reader accepts an AA signature made with another key: %+v", res)
		}
	})
	t.Run("cam-no-key", func(t *testing.T) {
		cardAccess := chipsim.BuildCardAccess([]chipsim.PaceInfoSpec{{OID: chipsim.OIDPaceEcdhCamAes128, ParamID: 13}})
		chip, err := chipsim.New(chipsim.Config{
			MfFiles: map[uint16][]byte{chipsim.FidCardAccess: cardAccess}, AppFiles: baseFiles(),
			MRZInfo: chipsim.MRZInformation(docNo, dob, doe), EnablePACE: true, RequireAccessControl: true,
			Pace:   []chipsim.PaceSpec{{OID: chipsim.OIDPaceEcdhCamAes128, ParamID: 13}},
			CamKey: &chipsim.ECKey{ParamID: 13, Priv: sk.Bytes()}, Personality: chipsim.PersonalityByName("cam-no-key"),
		})
		if err != nil {
			t.Fatal(err)
		}
		nfc, doc := paceDoc(t, chip, cardAccess)
		infos, _ := chipsim.CASecurityInfos([]chipsim.CAKeySpec{{ParamID: 13, Priv: sk.Bytes(), Params: "standardized"}})
		si, _ := document.DecodeSecurityInfos(chipsim.BuildSecurityInfos(infos...))
		doc.Mf.CardSecurity = &document.CardSecurity{SecurityInfos: si}
		res, cam, err := pace.NewPace(nfc, doc, mrzPass(t)).DoPACE()
		truth := chip.Truth()
		if !truth.PaceCompleted || truth.PaceCamCompleted {
			t.Errorf("truth: %+v", truth)
		}
		if cam != nil && cam.Success {
			t.Errorf("reader reports CAM success against a chip without the key (res %+v err %v)", res, err)
		}
	})
}

// Forcing a shared secret whose x-coordinate starts with a zero octet (the chip picks its
// ephemeral scalar after seeing the terminal's public key). A conforming reader keeps the
// leading zero (TR-03111 FE2OS) and succeeds.
func TestIntegrationPACELeadingZeroSharedSecret(t *testing.T) {
	cardAccess := chipsim.BuildCardAccess([]chipsim.PaceInfoSpec{{OID: chipsim.OIDPaceEcdhGmAes128, ParamID: 13}})
	var forced *big.Int
	chip, err := chipsim.New(chipsim.Config{
		MfFiles: map[uint16][]byte{chipsim.FidCardAccess: cardAccess}, AppFiles: baseFiles(),
		MRZInfo: chipsim.MRZInformation(docNo, dob, doe), EnablePACE: true, RequireAccessControl: true,
		Pace: []chipsim.PaceSpec{{OID: chipsim.OIDPaceEcdhGmAes128, ParamID: 13}},
		ChooseScalar: func(phase string, curve elliptic.Curve, px, py *big.Int) *big.Int {
			if phase != "pace-ka" {
				return nil
			}
			forced = chipsim.FindScalarWithLeadingZeroX(curve, px, py, rand.Reader)
			return forced
		},
	})
	if err != nil {
		t.Fatal(err)
	}
	nfc, doc := paceDoc(t, chip, cardAccess)
	res, _, err := pace.NewPace(nfc, doc, mrzPass(t)).DoPACE()
	if forced == nil {
		t.Fatal("scalar hook not used")
	}
	// Ground truth: the chip behaved per the standard. Whether the reader copes is the
	// harness's finding, not this test's; it is logged so that the deviation is visible.
	t.Logf("reader result with a leading-zero shared secret: res=%+v err=%v", res, err)
}

// Negative: the real reader with a wrong MRZ.
func TestIntegrationBACWrongMRZ(t *testing.T) {
	chip, err := chipsim.New(chipsim.Config{AppFiles: baseFiles(), MRZInfo: chipsim.MRZInformation(docNo, dob, doe), EnableBAC: true, RequireAccessControl: true})
	if err != nil {
		t.Fatal(err)
	}
	nfc := iso7816.NewNfcSession(chip)
	nfc.SelectAid(aid)
	wrong, _ := password.NewPasswordMrzi(docNo, dob, "940624")
	var doc document.Document
	res, err := bac.NewBAC(nfc, &doc, wrong).DoBAC()
	if err == nil || (res != nil && res.Success) {
		t.Fatalf("BAC with a wrong MRZ succeeded: %+v", res)
	}
	truth := chip.Truth()
	if truth.BacCompleted || truth.BacFailures != 1 || truth.SM.Alive {
		t.Errorf("truth: %+v", truth)
	}
	if last := truth.Accepted[len(truth.Accepted)-1]; last.INS != 0x82 || last.SW != 0x6300 {
		t.Errorf("last command %+v", last)
	}
	if got, err := nfc.ReadFile(chipsim.FidDG1); err == nil {
		t.Errorf("file readable without BAC: %d octets", len(got))
	}
}

// tamperLink flips one bit of the n-th command on its way to the chip.
type tamperLink struct {
	chip  *chipsim.Chip
	count int
	at    int
	plain []byte // if set, sent instead of the at-th command
}

func (l *tamperLink) Transceive(cla, ins, p1, p2 int, data []byte, le int, encoded []byte) []byte {
	l.count++
	if l.count == l.at {
		if l.plain != nil {
			return l.chip.Process(l.plain)
		}
		b := bytes.Clone(encoded)
		b[len(b)-3] ^= 0x80 // inside DO'8E'
		return l.chip.Process(b)
	}
	return l.chip.Process(encoded)
}

// Negative: a command damaged in transit, and a plain command injected into the session.
func TestIntegrationSMAbort(t *testing.T) {
	for name, plain := range map[string][]byte{"tampered-mac": nil, "plain-injected": {0x00, 0xB0, 0x00, 0x00, 0x04}} {
		t.Run(name, func(t *testing.T) {
			chip, err := chipsim.New(chipsim.Config{AppFiles: baseFiles(), MRZInfo: chipsim.MRZInformation(docNo, dob, doe), EnableBAC: true, RequireAccessControl: true})
			if err != nil {
				t.Fatal(err)
			}
			link := &tamperLink{chip: chip, at: 6, plain: plain} // 1 select, 2-3 BAC, 4 select EF, 5 header read, 6 body read
			nfc := iso7816.NewNfcSession(link)
			nfc.SelectAid(aid)
			var doc document.Document
			if res, err := bac.NewBAC(nfc, &doc, mrzPass(t)).DoBAC(); err != nil || !res.Success {
				t.Fatal(err)
			}
			if _, err := nfc.ReadFile(chipsim.FidDG1); err == nil {
				t.Fatal("read succeeded although the session was aborted")
			}
			truth := chip.Truth()
			// the reader keeps sending protected commands (its Le fallbacks) to a chip that has no
			// session any more; each of those is one more failure in the log
			if truth.SM.Alive || truth.SMFailures < 1 || truth.AccessGranted {
				t.Errorf("truth: sm %+v failures %d", truth.SM, truth.SMFailures)
			}
			wantSW := uint16(0x6988)
			if plain != nil {
				wantSW = 0 // processed in plain (and refused with 6982) after the session was dropped
			}
			if truth.SMFailureLog[0].SW != wantSW {
				t.Errorf("failure log %+v", truth.SMFailureLog)
			}
			// whatever the reader does next, the chip has no session any more
			if got, err := nfc.ReadFile(chipsim.FidCOM); err == nil {
				t.Errorf("reader read EF.COM (%d octets) after the chip deleted the session", len(got))
			}
		})
	}
}

// sampleSOD is a syntactically valid EF.SOD from gmrtd's exported sample document; its hashes
// and signer have nothing to do with our files, which only makes passive authentication fail.
func sampleSOD(t *testing.T) (sod []byte, dgs []int) {
	doc, err := document.SampleDocument()
	if err != nil || doc.Mf.Lds1.Sod == nil {
		t.Skipf("no SOD sample: %v", err)
	}
	for _, h := range doc.Mf.Lds1.Sod.LdsSecurityObject.DataGroupHashValues {
		dgs = append(dgs, h.DataGroupNumber)
	}
	return doc.Mf.Lds1.Sod.GetRawData(), dgs
}

type nullStatus struct{}

func (nullStatus) Status(reader.Status) {}

// A full reader.ReadDocument run: PACE-CAM or BAC, all files, AA is skipped by the reader
// because the sample SOD has no DG15 hash, CA runs from DG14.
func TestIntegrationReadDocument(t *testing.T) {
	sod, sodDGs := sampleSOD(t)
	t.Logf("sample SOD lists data groups %v", sodDGs)
	curve, _ := chipsim.CurveByParamID(13)
	for _, mode := range []string{"bac", "pace-gm", "pace-gm-can"} {
		t.Run(mode, func(t *testing.T) {
		retry:
			sk, _ := curve.RandomScalar(rand.Reader)
			dg14, err := chipsim.BuildDG14([]chipsim.CAKeySpec{{OID: chipsim.OIDCaEcdhAes128, ParamID: 13, Priv: sk.Bytes()}})
			if err != nil {
				t.Fatal(err)
			}
			files := baseFiles()
			for _, fid := range []uint16{0x0102, 0x010B, 0x010C, 0x010D} {
				delete(files, fid) // random bytes do not parse as DG2/DG11/DG12/DG13
			}
			files[chipsim.FidSOD] = sod
			files[chipsim.FidDG14] = dg14
			cfg := chipsim.Config{
				MfFiles:  map[uint16][]byte{chipsim.FidDIR: chipsim.BuildDIR(chipsim.AIDLDS1)},
				AppFiles: files, MRZInfo: chipsim.MRZInformation(docNo, dob, doe), CAN: can,
				RequireAccessControl: true,
				CAKeys:               []chipsim.CAKey{{OID: chipsim.OIDCaEcdhAes128, ParamID: 13, Priv: sk.Bytes()}},
				ChooseScalar:         noLeadingZero,
			}
			pass := mrzPass(t)
			if mode == "bac" {
				cfg.EnableBAC = true
			} else {
				cfg.EnablePACE = true
				cfg.Pace = []chipsim.PaceSpec{{OID: chipsim.OIDPaceEcdhGmAes256, ParamID: 13}, {OID: chipsim.OIDPaceEcdhGm3Des, ParamID: 13}}
				cfg.MfFiles[chipsim.FidCardAccess] = chipsim.BuildCardAccess([]chipsim.PaceInfoSpec{{OID: chipsim.OIDPaceEcdhGm3Des, ParamID: 13}, {OID: chipsim.OIDPaceEcdhGmAes256, ParamID: 13}})
				if mode == "pace-gm-can" {
					pass = password.NewPasswordCan(can)
				}
			}
			chip, err := chipsim.New(cfg)
			if err != nil {
				t.Fatal(err)
			}
			nfc := iso7816.NewNfcSession(chip)
			rd := reader.NewReader(nullStatus{}, nfc, &cms.GenericCertPool{})
			docEx, _, err := rd.ReadDocument(pass, nil, nil)
			truth := chip.Truth()
			if docEx != nil && docEx.Session.ChipAuthErr != nil && len(truth.CaSharedSecret) > 0 && truth.CaSharedSecret[0] == 0 {
				t.Log("gmrtd failed CA on a shared secret with a leading zero octet; retrying")
				goto retry
			}
			if err != nil {
				t.Fatalf("ReadDocument: %v", err)
			}
			s := docEx.Session
			if mode == "bac" {
				if s.BacResult == nil || !s.BacResult.Success || !truth.BacCompleted || truth.PaceCompleted {
					t.Errorf("BAC: reader %+v err %v, chip %v", s.BacResult, s.BacErr, truth.BacCompleted)
				}
			} else {
				if s.PaceResult == nil || !s.PaceResult.Success || !truth.PaceCompleted || truth.BacCompleted || truth.PaceOID != chipsim.OIDPaceEcdhGmAes256 {
					t.Errorf("PACE: reader %+v err %v, chip %v %s", s.PaceResult, s.PaceErr, truth.PaceCompleted, truth.PaceOID)
				}
			}
			if s.ChipAuthResult == nil || !s.ChipAuthResult.Success || !truth.CaCompleted {
				t.Errorf("CA: reader %+v err %v, chip %v", s.ChipAuthResult, s.ChipAuthErr, truth.CaCompleted)
			}
			if truth.SMFailures != 0 || !truth.SM.Alive || truth.SM.Origin != "CA" {
				t.Errorf("SM: %+v failures %d", truth.SM, truth.SMFailures)
			}
			l := docEx.Document.Mf.Lds1
			if l.Sod == nil || l.Com == nil || l.Dg1 == nil || l.Dg14 == nil ||
				!bytes.Equal(l.Dg1.GetRawData(), files[chipsim.FidDG1]) || !bytes.Equal(l.Dg14.GetRawData(), dg14) || !bytes.Equal(l.Com.GetRawData(), files[chipsim.FidCOM]) {
				t.Errorf("files: sod %v com %v dg1 %v dg14 %v", l.Sod != nil, l.Com != nil, l.Dg1 != nil, l.Dg14 != nil)
			}
			// EF.DIR lives under the MF; the reader looks for it inside the application
			if docEx.Document.Mf.Dir != nil {
				t.Errorf("EF.DIR read although it was selected under the application DF")
			}
			if s.PassiveAuthErr == nil {
				t.Errorf("passive authentication succeeded with a foreign SOD")
			}
		})
	}
}

// gmrtd reads with even INS only and puts offset/256 into P1; from offset 32768 on that sets
// P1 b8, which ISO/IEC 7816-4 defines as "P1 carries a short EF identifier". What happens
// then is logged for the record (nfc_session.go:275).
func TestIntegrationLargeFile(t *testing.T) {
	files := baseFiles()
	files[0x0102] = bigFile(0x75, 40000, 9)
	chip, err := chipsim.New(chipsim.Config{AppFiles: files, MRZInfo: chipsim.MRZInformation(docNo, dob, doe), EnableBAC: true, RequireAccessControl: true})
	if err != nil {
		t.Fatal(err)
	}
	nfc := doBAC(t, chip)
	got, err := nfc.ReadFile(0x0102)
	switch {
	case err != nil:
		t.Logf("gmrtd ReadFile of a 40 kB file: %v", err)
	case bytes.Equal(got, files[0x0102]):
		t.Logf("gmrtd ReadFile of a 40 kB file: correct")
	default:
		first := 0
		for first < len(got) && first < len(files[0x0102]) && got[first] == files[0x0102][first] {
			first++
		}
		t.Logf("gmrtd ReadFile of a 40 kB file: NO ERROR, %d octets returned, content wrong from offset %d on", len(got), first)
	}
	truth := chip.Truth()
	for _, r := range truth.Reads {
		if r.P1&0x80 != 0 {
			t.Logf("first read with P1 b8 set: %+v", r)
			break
		}
	}
}
