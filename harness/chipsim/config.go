package chipsim

import (
	"crypto/elliptic"
	"io"
	"math/big"
)

// File identifiers (9303-10).
const (
	FidCardAccess   uint16 = 0x011C // MF
	FidCardSecurity uint16 = 0x011D // MF
	FidDIR          uint16 = 0x2F00 // MF
	FidATRInfo      uint16 = 0x2F01 // MF
	FidCOM          uint16 = 0x011E // LDS1 application
	FidSOD          uint16 = 0x011D // LDS1 application
	FidDG1          uint16 = 0x0101 // DGn = 0x0100 + n
	FidDG14         uint16 = 0x010E
	FidDG15         uint16 = 0x010F
)

// AIDLDS1 is the application identifier of the LDS1 eMRTD application.
var AIDLDS1 = []byte{0xA0, 0x00, 0x00, 0x02, 0x47, 0x10, 0x01}

// Object identifiers (dotted) of the protocols the chip implements.
const (
	OIDPaceEcdhGm3Des         = "0.4.0.127.0.7.2.2.4.2.1"
	OIDPaceEcdhGmAes128       = "0.4.0.127.0.7.2.2.4.2.2"
	OIDPaceEcdhGmAes192       = "0.4.0.127.0.7.2.2.4.2.3"
	OIDPaceEcdhGmAes256       = "0.4.0.127.0.7.2.2.4.2.4"
	OIDPaceEcdhCamAes128      = "0.4.0.127.0.7.2.2.4.6.2"
	OIDPaceEcdhCamAes192      = "0.4.0.127.0.7.2.2.4.6.3"
	OIDPaceEcdhCamAes256      = "0.4.0.127.0.7.2.2.4.6.4"
	OIDCaEcdh3Des             = "0.4.0.127.0.7.2.2.3.2.1"
	OIDCaEcdhAes128           = "0.4.0.127.0.7.2.2.3.2.2"
	OIDCaEcdhAes192           = "0.4.0.127.0.7.2.2.3.2.3"
	OIDCaEcdhAes256           = "0.4.0.127.0.7.2.2.3.2.4"
	OIDPkEcdh                 = "0.4.0.127.0.7.2.2.1.2"
	OIDStdDomainParams        = "0.4.0.127.0.7.1.2"
	OIDEcPublicKey            = "1.2.840.10045.2.1"
	OIDPrimeField             = "1.2.840.10045.1.1"
	OIDRsaEncryption          = "1.2.840.113549.1.1.1"
	OIDAaProtocolObject       = "2.23.136.1.1.5"
	OIDEcdsaPlainSHA1         = "0.4.0.127.0.7.1.1.4.1.1"
	OIDEcdsaPlainSHA224       = "0.4.0.127.0.7.1.1.4.1.2"
	OIDEcdsaPlainSHA256       = "0.4.0.127.0.7.1.1.4.1.3"
	OIDEcdsaPlainSHA384       = "0.4.0.127.0.7.1.1.4.1.4"
	OIDEcdsaPlainSHA512       = "0.4.0.127.0.7.1.1.4.1.5"
	OIDTerminalAuth           = "0.4.0.127.0.7.2.2.2"
	oidPaceEcdhGmPrefix       = "0.4.0.127.0.7.2.2.4.2"
	oidPaceEcdhCamPrefix      = "0.4.0.127.0.7.2.2.4.6"
	oidCaEcdhPrefix           = "0.4.0.127.0.7.2.2.3.2"
	passwordRefMRZ       byte = 1
	passwordRefCAN       byte = 2
)

// PaceSpec is one (protocol, standardized domain parameter) pair the chip supports.
type PaceSpec struct {
	OID     string // one of the OIDPaceEcdhGm*/OIDPaceEcdhCam* constants
	ParamID int    // 8..18
}

// ECKey is a static elliptic-curve private key on a standardized curve.
type ECKey struct {
	ParamID int    // curve (8..18)
	Priv    []byte // big-endian scalar
}

// CAKey is one Chip Authentication key pair.
type CAKey struct {
	OID     string // id-CA-ECDH-* protocol this key is used with (selects the session cipher)
	KeyID   *int   // optional key identifier (DO'84' of MSE:Set AT / MSE:Set KAT)
	ParamID int    // curve (8..18)
	Priv    []byte // big-endian scalar
}

// AAKey is the Active Authentication private key.
type AAKey struct {
	Type string // "rsa" or "ecdsa"
	Hash string // "sha1" (RSA only), "sha224", "sha256", "sha384", "sha512"
	// RSA: modulus, public and private exponent (big-endian)
	N, E, D []byte
	// ECDSA: curve and private scalar
	ParamID int
	Priv    []byte
	// ECDSA signature format: "" or "plain" = r||s (9303-11 §6.1.2.3), "der" = SEQUENCE{r,s}
	SigFormat string
}

// Transport describes how the chip answers at the transport level.
type Transport struct {
	MaxRead                    int    // never return more than this many octets per READ BINARY; 0 = unlimited
	RejectLeOver               int    // READ BINARY with Ne greater than this gets 6700; 0 = never
	ShortReturn                string // "", "full", "half", "one", "random"
	ShortReturnSeed            int64  // seed of the "random" policy
	ExtendedLength             bool   // false: extended length commands get 6700
	LengthErrorKeepsSession    bool   // an extended-length command sent to a chip without extended length support is refused (6700, unprotected) by the transport layer BEFORE secure messaging is processed: the session and its counter are untouched (what the Le fall-back of readers is written for). false: the refusal counts as a secure messaging error and deletes the session
	HeaderReadShort            int    // at most this many octets for a read at offset 0 with Ne = 4; 0 = no limit
	WarnEOF                    bool   // answer 6282 instead of 9000 when fewer than Ne octets were available
	AllowOversizeShortResponse bool   // answer with more than 256 response octets to a short-length command instead of 6700
	PlainInSMStatus            uint16 // status for a plain command received while SM is active (session is deleted in any case); 0 = process the command in plain
	DO85PaddingIndicator       bool   // odd-INS commands/responses carry the padding-content indicator 01 inside DO'85' too (the form gmrtd and property C10 use), instead of the ISO 7816-4 form without it
	SelectRequiresAuth         bool   // SELECT EF inside the application answers 6982 before access control (instead of READ BINARY only)
}

// Personality selects protocol-level (mis)behaviour of the chip. The caller supplies the files.
type Personality struct {
	// Name is informational ("genuine", "ca-no-key", "aa-no-key", "cam-no-key", ...); the
	// switches below are what the chip acts on. PersonalityByName fills them in.
	Name string
	// CANoKey: the chip does not hold the CA private key. It answers the CA commands with
	// 9000 and derives the new session keys from a random secret.
	CANoKey bool
	// CAKeepOldSession (with CANoKey): after answering 9000 the chip keeps using the secure
	// messaging session it had before CA.
	CAKeepOldSession bool
	// CADropSession (with CANoKey): after answering 9000 the chip has no session at all and
	// answers in plain.
	CADropSession bool
	// AANoKey: the chip signs with a freshly generated key of the same type and size.
	AANoKey bool
	// CAMNoKey: PACE-CAM chip authentication data is computed from a random static key.
	CAMNoKey bool
	// CAMPadding: malformed ISO 9797-1 method 2 padding of the chip authentication data before encryption (the
	// data itself is genuine): "marker-junk" = 80 followed by non-zero octets, "marker-tail" = 80 00.. 01.
	CAMPadding string
	// FixedWidthLengths: GENERAL AUTHENTICATE responses carry two-octet length fields (82 hi lo) in every data object
	// (a conforming chip: BER does not demand the shortest form).
	FixedWidthLengths bool
}

// PersonalityByName returns the named personality: "genuine", "ca-no-key",
// "ca-no-key-old-session", "ca-no-key-no-session", "aa-no-key", "cam-no-key".
func PersonalityByName(name string) Personality {
	p := Personality{Name: name}
	switch name {
	case "ca-no-key":
		p.CANoKey = true
	case "ca-no-key-old-session":
		p.CANoKey, p.CAKeepOldSession = true, true
	case "ca-no-key-no-session":
		p.CANoKey, p.CADropSession = true, true
	case "aa-no-key":
		p.AANoKey = true
	case "cam-no-key":
		p.CAMNoKey = true
	}
	return p
}

// ChooseScalarFunc lets the caller pick a chip scalar after the terminal's public key is
// known. phase is "pace-map" (mapping key pair), "pace-ka" (key agreement on the mapped
// generator; curve carries the mapped generator) or "aa-ecdsa-k". Returning nil leaves the
// choice to the chip's random source.
type ChooseScalarFunc func(phase string, curve elliptic.Curve, peerX, peerY *big.Int) *big.Int

// Config personalises a chip. All fields except Rand and ChooseScalar are plain data.
type Config struct {
	MfFiles  map[uint16][]byte // EF.CardAccess 011C, EF.CardSecurity 011D, EF.DIR 2F00, EF.ATR/INFO 2F01
	AppFiles map[uint16][]byte // EF.COM 011E, EF.SOD 011D, DG1..DG16 0101..0110

	MRZInfo string // MRZ_information: document number + cd + date of birth + cd + date of expiry + cd
	CAN     string // card access number, "" if none

	EnableBAC            bool
	EnablePACE           bool
	RequireAccessControl bool // application files need BAC or PACE; EF.CardSecurity needs PACE

	Pace         []PaceSpec
	PaceNonceLen int    // octets of the PACE nonce; 0 = 16 for 3DES/AES-128, 32 for AES-192/256
	CamKey       *ECKey // static key for PACE-CAM; nil = first CA key on the PACE curve

	CAKeys []CAKey
	AA     *AAKey

	Transport   Transport
	Personality Personality

	// Handler, when set, is asked first for every command the chip executes (after secure messaging
	// was verified and removed): if it returns handled = true the chip answers (data, sw) instead of
	// running its own command logic. Used by the harness to script arbitrary command/response shapes.
	Handler func(cmd PlainCmd) (data []byte, sw uint16, handled bool) `json:"-"`

	Rand         io.Reader        `json:"-"` // all chip randomness; nil = crypto/rand
	ChooseScalar ChooseScalarFunc `json:"-"`
}
