package chipsim

// Elliptic curves over prime fields in short Weierstrass form y² = x³ + a·x + b with a general
// coefficient a, written from SEC 1 / BSI TR-03111. The Go standard library's generic
// elliptic.CurveParams arithmetic hard-wires a = -3 and therefore cannot be used for the
// brainpool "r1" curves (RFC 5639); this file has its own Jacobian-coordinate arithmetic that
// is used for all eleven standardized domain parameters of 9303-11 §9.5.1 (ids 8..18).
//
// Curve constants: the NIST curves come from crypto/elliptic (P-224..P-521) and FIPS 186-4
// (P-192, not in the standard library). The brainpool r1 constants p, n, Gx, Gy come from the
// parameter tables of github.com/osanderson/brainpool; that module does not export a and b of
// the r1 curves, so they are recovered from the published twisted curves (RFC 5639 §2.2: the
// r1 and t1 curves are isomorphic via (x,y) -> (x·Z², y·Z³), the t1 curve has a' = -3 and
// its generator is the image of the r1 generator): Z = (Gy'·Gx)/(Gy·Gx'), a = -3/Z⁴,
// b = b'/Z⁶. Every curve is self-checked at start-up (generator on curve, n·G = O) with the
// arithmetic of this file, so a wrong constant cannot go unnoticed. Only the module's
// parameter tables are used, none of its arithmetic.

import (
	"crypto/elliptic"
	"errors"
	"fmt"
	"io"
	"math/big"
	"sync"

	"github.com/osanderson/brainpool"
)

// Curve is a prime-field short Weierstrass curve with explicit coefficient A. It implements
// elliptic.Curve (with its own arithmetic) so that it can be handed to code that expects one.
type Curve struct {
	Name    string // e.g. "P-256", "brainpoolP256r1"
	ParamID int    // standardized domain parameter id of 9303-11 §9.5.1 (8..18), 0 if none
	P       *big.Int
	A       *big.Int
	B       *big.Int
	Gx, Gy  *big.Int
	N       *big.Int
	H       int // cofactor
	BitSize int
	OID     string // named-curve object identifier (dotted)

	params *elliptic.CurveParams
}

var _ elliptic.Curve = (*Curve)(nil)

// Params returns the curve constants in the standard library's form. NOTE: the generic
// methods of *elliptic.CurveParams assume a = -3 and MUST NOT be used for brainpool curves;
// use the methods of *Curve instead.
func (c *Curve) Params() *elliptic.CurveParams {
	if c.params == nil {
		c.params = &elliptic.CurveParams{P: c.P, N: c.N, B: c.B, Gx: c.Gx, Gy: c.Gy, BitSize: c.BitSize, Name: c.Name}
	}
	return c.params
}

// ByteLen is the length in octets of a field element (⌈log256 p⌉).
func (c *Curve) ByteLen() int { return (c.P.BitLen() + 7) / 8 }

// OrderLen is the length in octets of the group order.
func (c *Curve) OrderLen() int { return (c.N.BitLen() + 7) / 8 }

// WithGenerator returns a copy of the curve whose generator is (gx, gy): the ephemeral domain
// parameters produced by the PACE mapping.
func (c *Curve) WithGenerator(gx, gy *big.Int) *Curve {
	d := *c
	d.Gx, d.Gy = new(big.Int).Set(gx), new(big.Int).Set(gy)
	d.params = nil
	return &d
}

func (c *Curve) IsOnCurve(x, y *big.Int) bool {
	if x == nil || y == nil || x.Sign() < 0 || y.Sign() < 0 || x.Cmp(c.P) >= 0 || y.Cmp(c.P) >= 0 {
		return false
	}
	if x.Sign() == 0 && y.Sign() == 0 {
		return false // conventional encoding of the point at infinity
	}
	l := new(big.Int).Mul(y, y)
	l.Mod(l, c.P)
	r := new(big.Int).Mul(x, x)
	r.Add(r, c.A)
	r.Mul(r, x)
	r.Add(r, c.B)
	r.Mod(r, c.P)
	return l.Cmp(r) == 0
}

// jacobian point; Z == 0 is the point at infinity.
type jpoint struct{ x, y, z *big.Int }

func (c *Curve) toJ(x, y *big.Int) jpoint {
	if x.Sign() == 0 && y.Sign() == 0 {
		return jpoint{new(big.Int), big.NewInt(1), new(big.Int)}
	}
	return jpoint{new(big.Int).Set(x), new(big.Int).Set(y), big.NewInt(1)}
}

func (c *Curve) fromJ(p jpoint) (*big.Int, *big.Int) {
	if p.z.Sign() == 0 {
		return new(big.Int), new(big.Int)
	}
	zi := new(big.Int).ModInverse(p.z, c.P)
	zi2 := new(big.Int).Mul(zi, zi)
	zi2.Mod(zi2, c.P)
	x := new(big.Int).Mul(p.x, zi2)
	x.Mod(x, c.P)
	zi2.Mul(zi2, zi)
	zi2.Mod(zi2, c.P)
	y := new(big.Int).Mul(p.y, zi2)
	y.Mod(y, c.P)
	return x, y
}

func (c *Curve) mod(v *big.Int) *big.Int { return v.Mod(v, c.P) }

// jdouble: dbl-2007-bl (general a).
func (c *Curve) jdouble(p jpoint) jpoint {
	if p.z.Sign() == 0 || p.y.Sign() == 0 {
		return jpoint{new(big.Int), big.NewInt(1), new(big.Int)}
	}
	xx := c.mod(new(big.Int).Mul(p.x, p.x))
	yy := c.mod(new(big.Int).Mul(p.y, p.y))
	yyyy := c.mod(new(big.Int).Mul(yy, yy))
	zz := c.mod(new(big.Int).Mul(p.z, p.z))
	s := new(big.Int).Add(p.x, yy)
	s.Mul(s, s)
	s.Sub(s, xx)
	s.Sub(s, yyyy)
	s.Lsh(s, 1)
	c.mod(s)
	m := new(big.Int).Mul(zz, zz)
	m.Mul(m, c.A)
	m.Add(m, new(big.Int).Mul(big.NewInt(3), xx))
	c.mod(m)
	t := new(big.Int).Mul(m, m)
	t.Sub(t, new(big.Int).Lsh(s, 1))
	c.mod(t)
	y3 := new(big.Int).Sub(s, t)
	y3.Mul(y3, m)
	y3.Sub(y3, new(big.Int).Lsh(yyyy, 3))
	c.mod(y3)
	z3 := new(big.Int).Add(p.y, p.z)
	z3.Mul(z3, z3)
	z3.Sub(z3, yy)
	z3.Sub(z3, zz)
	c.mod(z3)
	return jpoint{t, y3, z3}
}

// jadd: add-2007-bl with the exceptional cases handled.
func (c *Curve) jadd(p, q jpoint) jpoint {
	if p.z.Sign() == 0 {
		return q
	}
	if q.z.Sign() == 0 {
		return p
	}
	z1z1 := c.mod(new(big.Int).Mul(p.z, p.z))
	z2z2 := c.mod(new(big.Int).Mul(q.z, q.z))
	u1 := c.mod(new(big.Int).Mul(p.x, z2z2))
	u2 := c.mod(new(big.Int).Mul(q.x, z1z1))
	s1 := new(big.Int).Mul(p.y, q.z)
	s1.Mul(s1, z2z2)
	c.mod(s1)
	s2 := new(big.Int).Mul(q.y, p.z)
	s2.Mul(s2, z1z1)
	c.mod(s2)
	h := c.mod(new(big.Int).Sub(u2, u1))
	r := c.mod(new(big.Int).Sub(s2, s1))
	if h.Sign() == 0 {
		if r.Sign() == 0 {
			return c.jdouble(p)
		}
		return jpoint{new(big.Int), big.NewInt(1), new(big.Int)}
	}
	r.Lsh(r, 1)
	i := new(big.Int).Lsh(h, 1)
	i.Mul(i, i)
	c.mod(i)
	j := c.mod(new(big.Int).Mul(h, i))
	v := c.mod(new(big.Int).Mul(u1, i))
	x3 := new(big.Int).Mul(r, r)
	x3.Sub(x3, j)
	x3.Sub(x3, new(big.Int).Lsh(v, 1))
	c.mod(x3)
	y3 := new(big.Int).Sub(v, x3)
	y3.Mul(y3, r)
	t := new(big.Int).Mul(s1, j)
	t.Lsh(t, 1)
	y3.Sub(y3, t)
	c.mod(y3)
	z3 := new(big.Int).Add(p.z, q.z)
	z3.Mul(z3, z3)
	z3.Sub(z3, z1z1)
	z3.Sub(z3, z2z2)
	z3.Mul(z3, h)
	c.mod(z3)
	return jpoint{x3, y3, z3}
}

func (c *Curve) jmul(p jpoint, k *big.Int) jpoint {
	acc := jpoint{new(big.Int), big.NewInt(1), new(big.Int)}
	for i := k.BitLen() - 1; i >= 0; i-- {
		acc = c.jdouble(acc)
		if k.Bit(i) == 1 {
			acc = c.jadd(acc, p)
		}
	}
	return acc
}

// Add returns the sum of two affine points; (0,0) denotes the point at infinity.
func (c *Curve) Add(x1, y1, x2, y2 *big.Int) (*big.Int, *big.Int) {
	return c.fromJ(c.jadd(c.toJ(x1, y1), c.toJ(x2, y2)))
}

func (c *Curve) Double(x1, y1 *big.Int) (*big.Int, *big.Int) {
	return c.fromJ(c.jdouble(c.toJ(x1, y1)))
}

// ScalarMult returns k·(x1,y1) for the big-endian scalar k.
func (c *Curve) ScalarMult(x1, y1 *big.Int, k []byte) (*big.Int, *big.Int) {
	return c.Mul(x1, y1, new(big.Int).SetBytes(k))
}

func (c *Curve) ScalarBaseMult(k []byte) (*big.Int, *big.Int) {
	return c.Mul(c.Gx, c.Gy, new(big.Int).SetBytes(k))
}

// Mul returns k·(x,y) for a non-negative integer k.
func (c *Curve) Mul(x, y, k *big.Int) (*big.Int, *big.Int) {
	return c.fromJ(c.jmul(c.toJ(x, y), k))
}

// MulBase returns k·G.
func (c *Curve) MulBase(k *big.Int) (*big.Int, *big.Int) { return c.Mul(c.Gx, c.Gy, k) }

// EncodePoint is the uncompressed X9.62 / TR-03111 point encoding 04 || X || Y with both
// coordinates left-padded to the field length.
func (c *Curve) EncodePoint(x, y *big.Int) []byte {
	l := c.ByteLen()
	out := make([]byte, 1+2*l)
	out[0] = 0x04
	x.FillBytes(out[1 : 1+l])
	y.FillBytes(out[1+l:])
	return out
}

// DecodePoint parses an uncompressed point and checks that it lies on the curve.
func (c *Curve) DecodePoint(b []byte) (x, y *big.Int, err error) {
	l := c.ByteLen()
	if len(b) != 1+2*l || b[0] != 0x04 {
		return nil, nil, errors.New("chipsim: not an uncompressed point of the right length")
	}
	x = new(big.Int).SetBytes(b[1 : 1+l])
	y = new(big.Int).SetBytes(b[1+l:])
	if !c.IsOnCurve(x, y) {
		return nil, nil, errors.New("chipsim: point not on curve")
	}
	return x, y, nil
}

// FE2OS converts a field element to an octet string of the field length (TR-03111 §3.1.3).
// The shared secret of ECKA is the x-coordinate in this fixed-length form (TR-03111 §4.3.1,
// 9303-11 §9.6/§9.7: "K ... the x-coordinate"): leading zero octets are kept.
func (c *Curve) FE2OS(v *big.Int) []byte {
	out := make([]byte, c.ByteLen())
	v.FillBytes(out)
	return out
}

// RandomScalar draws a uniform scalar in [1, n-1] from r.
func (c *Curve) RandomScalar(r io.Reader) (*big.Int, error) {
	buf := make([]byte, c.OrderLen()+8)
	if _, err := io.ReadFull(r, buf); err != nil {
		return nil, err
	}
	k := new(big.Int).SetBytes(buf)
	nm1 := new(big.Int).Sub(c.N, big.NewInt(1))
	k.Mod(k, nm1)
	k.Add(k, big.NewInt(1))
	return k, nil
}

// ---------------------------------------------------------------------------------------------
// Registry of standardized domain parameters

var (
	curvesOnce sync.Once
	curvesByID map[int]*Curve
	curvesErr  error
)

func hexInt(s string) *big.Int {
	v, ok := new(big.Int).SetString(s, 16)
	if !ok {
		panic("chipsim: bad hex constant " + s)
	}
	return v
}

func nistCurve(name string, id int, oid string, p *elliptic.CurveParams) *Curve {
	a := new(big.Int).Sub(p.P, big.NewInt(3))
	return &Curve{Name: name, ParamID: id, OID: oid, P: p.P, A: a, B: p.B, Gx: p.Gx, Gy: p.Gy, N: p.N, H: 1, BitSize: p.BitSize}
}

// brainpoolR1 reconstructs the full r1 parameter set from the r1 table (p, n, G) and the t1
// table (b', G') as described at the top of this file.
func brainpoolR1(name string, id int, oid string, r, t *elliptic.CurveParams) (*Curve, error) {
	p := r.P
	inv := func(v *big.Int) *big.Int { return new(big.Int).ModInverse(v, p) }
	mul := func(a, b *big.Int) *big.Int { v := new(big.Int).Mul(a, b); return v.Mod(v, p) }
	// Z² = Gx'/Gx, Z³ = Gy'/Gy  =>  Z = Z³/Z²
	z2 := mul(t.Gx, inv(r.Gx))
	z3 := mul(t.Gy, inv(r.Gy))
	z := mul(z3, inv(z2))
	if mul(z, z).Cmp(z2) != 0 {
		return nil, fmt.Errorf("chipsim: %s: twisted generator is not the image of the r1 generator", name)
	}
	z4 := mul(z2, z2)
	z6 := mul(z4, z2)
	a := mul(new(big.Int).Sub(p, big.NewInt(3)), inv(z4))
	b := mul(t.B, inv(z6))
	return &Curve{Name: name, ParamID: id, OID: oid, P: p, A: a, B: b, Gx: r.Gx, Gy: r.Gy, N: r.N, H: 1, BitSize: r.BitSize}, nil
}

func initCurves() {
	curvesByID = map[int]*Curve{}
	add := func(c *Curve, err error) {
		if err != nil {
			if curvesErr == nil {
				curvesErr = err
			}
			return
		}
		if !c.IsOnCurve(c.Gx, c.Gy) {
			curvesErr = fmt.Errorf("chipsim: %s: generator not on curve", c.Name)
			return
		}
		if x, y := c.MulBase(c.N); x.Sign() != 0 || y.Sign() != 0 {
			curvesErr = fmt.Errorf("chipsim: %s: n·G is not the point at infinity", c.Name)
			return
		}
		curvesByID[c.ParamID] = c
	}
	// FIPS 186-4 D.1.2.1 (P-192 is not in crypto/elliptic)
	p192 := &elliptic.CurveParams{
		P:       hexInt("FFFFFFFFFFFFFFFFFFFFFFFFFFFFFFFEFFFFFFFFFFFFFFFF"),
		N:       hexInt("FFFFFFFFFFFFFFFFFFFFFFFF99DEF836146BC9B1B4D22831"),
		B:       hexInt("64210519E59C80E70FA7E9AB72243049FEB8DEECC146B9B1"),
		Gx:      hexInt("188DA80EB03090F67CBF20EB43A18800F4FF0AFD82FF1012"),
		Gy:      hexInt("07192B95FFC8DA78631011ED6B24CDD573F977A11E794811"),
		BitSize: 192, Name: "P-192",
	}
	add(nistCurve("P-192", 8, "1.2.840.10045.3.1.1", p192), nil)
	add(nistCurve("P-224", 10, "1.3.132.0.33", elliptic.P224().Params()), nil)
	add(nistCurve("P-256", 12, "1.2.840.10045.3.1.7", elliptic.P256().Params()), nil)
	add(nistCurve("P-384", 15, "1.3.132.0.34", elliptic.P384().Params()), nil)
	add(nistCurve("P-521", 18, "1.3.132.0.35", elliptic.P521().Params()), nil)
	add(brainpoolR1("brainpoolP192r1", 9, "1.3.36.3.3.2.8.1.1.3", brainpool.P192r1().Params(), brainpool.P192t1().Params()))
	add(brainpoolR1("brainpoolP224r1", 11, "1.3.36.3.3.2.8.1.1.5", brainpool.P224r1().Params(), brainpool.P224t1().Params()))
	add(brainpoolR1("brainpoolP256r1", 13, "1.3.36.3.3.2.8.1.1.7", brainpool.P256r1().Params(), brainpool.P256t1().Params()))
	add(brainpoolR1("brainpoolP320r1", 14, "1.3.36.3.3.2.8.1.1.9", brainpool.P320r1().Params(), brainpool.P320t1().Params()))
	add(brainpoolR1("brainpoolP384r1", 16, "1.3.36.3.3.2.8.1.1.11", brainpool.P384r1().Params(), brainpool.P384t1().Params()))
	add(brainpoolR1("brainpoolP512r1", 17, "1.3.36.3.3.2.8.1.1.13", brainpool.P512r1().Params(), brainpool.P512t1().Params()))
}

// CurveByParamID returns the standardized elliptic-curve domain parameters with the given id
// (9303-11 §9.5.1: 8 P-192, 9 brainpoolP192r1, 10 P-224, 11 brainpoolP224r1, 12 P-256,
// 13 brainpoolP256r1, 14 brainpoolP320r1, 15 P-384, 16 brainpoolP384r1, 17 brainpoolP512r1,
// 18 P-521).
func CurveByParamID(id int) (*Curve, error) {
	curvesOnce.Do(initCurves)
	if curvesErr != nil {
		return nil, curvesErr
	}
	c, ok := curvesByID[id]
	if !ok {
		return nil, fmt.Errorf("chipsim: no elliptic-curve domain parameters with id %d", id)
	}
	return c, nil
}

// CurveByName looks a curve up by its name ("P-256", "brainpoolP256r1", ...).
func CurveByName(name string) (*Curve, error) {
	curvesOnce.Do(initCurves)
	if curvesErr != nil {
		return nil, curvesErr
	}
	for _, c := range curvesByID {
		if c.Name == name {
			return c, nil
		}
	}
	return nil, fmt.Errorf("chipsim: unknown curve %q", name)
}

// AllParamIDs lists the supported standardized domain parameter ids in ascending order.
func AllParamIDs() []int { return []int{8, 9, 10, 11, 12, 13, 14, 15, 16, 17, 18} }

// ---------------------------------------------------------------------------------------------
// Leading-zero search

// FindScalarWithLeadingZeroX searches for a scalar k in [1, n-1] such that the x-coordinate
// of k·(peerX, peerY) has a zero most significant octet when written with the field length
// (so that an implementation that strips leading zeros derives different keys). It starts at a
// random scalar drawn from rnd and walks k, k+1, k+2, ... adding the peer point each step;
// about 256·p/2^(8·len) steps are expected (2 for P-521). Works with any elliptic.Curve whose
// Add/ScalarMult are correct for it. Returns nil if rnd fails or nothing is found in 2^20
// steps.
func FindScalarWithLeadingZeroX(curve elliptic.Curve, peerX, peerY *big.Int, rnd io.Reader) *big.Int {
	p := curve.Params()
	flen := (p.P.BitLen() + 7) / 8
	olen := (p.N.BitLen() + 7) / 8
	buf := make([]byte, olen+8)
	if _, err := io.ReadFull(rnd, buf); err != nil {
		return nil
	}
	nm1 := new(big.Int).Sub(p.N, big.NewInt(1))
	k := new(big.Int).SetBytes(buf)
	k.Mod(k, nm1)
	k.Add(k, big.NewInt(1))
	limit := new(big.Int).Lsh(big.NewInt(1), uint(8*(flen-1)))
	kb := make([]byte, olen)
	x, y := curve.ScalarMult(peerX, peerY, k.FillBytes(kb))
	for i := 0; i < 1<<20; i++ {
		if (x.Sign() != 0 || y.Sign() != 0) && x.Cmp(limit) < 0 {
			return k
		}
		k.Add(k, big.NewInt(1))
		if k.Cmp(p.N) >= 0 {
			k.SetInt64(1)
			x, y = new(big.Int).Set(peerX), new(big.Int).Set(peerY)
			continue
		}
		x, y = curve.Add(x, y, peerX, peerY)
	}
	return nil
}
