package chipsim

// Chip Authentication version 1 with ECDH, chip side (9303-11 §6.2, BSI TR-03110-3 §B.3):
//   3DES:  MSE:Set KAT (00 22 41 A6, DO'91' ephemeral public key, DO'84' key id)
//   AES (and optionally 3DES): MSE:Set AT (00 22 41 A4, DO'80' protocol, DO'84' key id)
//          followed by GENERAL AUTHENTICATE (7C { 80 ephemeral public key }) -> 7C {}
// The response to the command that completes the key agreement is still protected with the
// old session keys; the new keys (SSC = 0) apply from the next command on.

import (
	"fmt"
	"math/big"
	"strings"
)

type caKey struct {
	oid     string
	keyID   *int
	curve   *Curve
	priv    *big.Int
	alg     CipherAlg
	keyBits int
}

type caSelection struct {
	key     *caKey
	oid     string
	alg     CipherAlg
	keyBits int
}

func caProtocol(oid string) (CipherAlg, int, error) {
	if !strings.HasPrefix(oid, oidCaEcdhPrefix+".") {
		return "", 0, fmt.Errorf("chipsim: CA protocol %s not implemented (only id-CA-ECDH-*)", oid)
	}
	switch oid[len(oidCaEcdhPrefix)+1:] {
	case "1":
		return Cipher3DES, 112, nil
	case "2":
		return CipherAES, 128, nil
	case "3":
		return CipherAES, 192, nil
	case "4":
		return CipherAES, 256, nil
	}
	return "", 0, fmt.Errorf("chipsim: unknown CA protocol %s", oid)
}

func newCAKey(oid string, keyID *int, paramID int, priv []byte) (*caKey, error) {
	curve, err := CurveByParamID(paramID)
	if err != nil {
		return nil, err
	}
	d := new(big.Int).SetBytes(priv)
	if d.Sign() == 0 || d.Cmp(curve.N) >= 0 {
		return nil, fmt.Errorf("chipsim: private key out of range for %s", curve.Name)
	}
	k := &caKey{oid: oid, curve: curve, priv: d}
	if keyID != nil {
		v := *keyID
		k.keyID = &v
	}
	if oid != "" {
		if k.alg, k.keyBits, err = caProtocol(oid); err != nil {
			return nil, err
		}
	}
	return k, nil
}

// PublicKey returns the public point of a static key given as (parameter id, private scalar).
func PublicKey(paramID int, priv []byte) (x, y *big.Int, err error) {
	curve, err := CurveByParamID(paramID)
	if err != nil {
		return nil, nil, err
	}
	x, y = curve.MulBase(new(big.Int).SetBytes(priv))
	return x, y, nil
}

// findCAKey resolves the key reference of DO'84'. The value is the key identifier as an
// unsigned big-endian integer with at least one octet. Without DO'84' the chip must have
// exactly one candidate key.
func (c *Chip) findCAKey(d84 *TLV, oid string) (*caKey, uint16) {
	var cands []*caKey
	for _, k := range c.caKeys {
		if oid == "" || k.oid == oid || k.oid == "" {
			cands = append(cands, k)
		}
	}
	if len(cands) == 0 {
		return nil, SWWrongData
	}
	if d84 == nil {
		if len(cands) == 1 {
			return cands[0], SWOK
		}
		// several keys: the terminal has to say which one (9303-11 §6.2.4)
		var noID []*caKey
		for _, k := range cands {
			if k.keyID == nil {
				noID = append(noID, k)
			}
		}
		if len(noID) == 1 {
			return noID[0], SWOK
		}
		return nil, SWRefDataNotFound
	}
	if len(d84.Value) == 0 {
		return nil, SWWrongData
	}
	id := new(big.Int).SetBytes(d84.Value)
	for _, k := range cands {
		if k.keyID != nil && id.IsInt64() && id.Int64() == int64(*k.keyID) {
			return k, SWOK
		}
	}
	return nil, SWRefDataNotFound
}

func (c *Chip) caAllowed() bool {
	if len(c.caKeys) == 0 {
		return false
	}
	if c.cfg.RequireAccessControl && !(c.access && c.sm != nil) {
		return false
	}
	return true
}

// mseSetKAT: key agreement happens in this command (3DES variant).
func (c *Chip) mseSetKAT(cmd *Command) result {
	c.caPending = nil
	if len(c.caKeys) == 0 {
		return status(SWFuncNotSupported)
	}
	if !c.caAllowed() {
		return status(SWSecurityStatus)
	}
	dos, err := ParseTLVs(cmd.Data)
	if err != nil {
		return status(SWWrongData)
	}
	d91 := findTLV(dos, 0x91)
	if d91 == nil {
		return status(SWWrongData)
	}
	// MSE:Set KAT exists for 3DES only: candidates are the keys personalised for
	// id-CA-ECDH-3DES-CBC-CBC
	key, swv := c.findCAKey(findTLV(dos, 0x84), OIDCaEcdh3Des)
	if key == nil {
		c.truth.CaFailures++
		return status(swv)
	}
	return c.caAgree(&caSelection{key: key, oid: OIDCaEcdh3Des, alg: Cipher3DES, keyBits: 112}, d91.Value, nil)
}

func (c *Chip) mseSetATCA(cmd *Command) result {
	c.caPending = nil
	c.pace = nil
	if len(c.caKeys) == 0 {
		return status(SWFuncNotSupported)
	}
	if !c.caAllowed() {
		return status(SWSecurityStatus)
	}
	dos, err := ParseTLVs(cmd.Data)
	if err != nil {
		return status(SWWrongData)
	}
	d80 := findTLV(dos, 0x80)
	if d80 == nil {
		return status(SWWrongData)
	}
	oid, err := OIDString(d80.Value)
	if err != nil {
		return status(SWWrongData)
	}
	alg, bits, err := caProtocol(oid)
	if err != nil {
		return status(SWWrongData)
	}
	key, swv := c.findCAKey(findTLV(dos, 0x84), oid)
	if key == nil {
		c.truth.CaFailures++
		return status(swv)
	}
	c.caPending = &caSelection{key: key, oid: oid, alg: alg, keyBits: bits}
	return status(SWOK)
}

func (c *Chip) caGeneralAuthenticate(cmd *Command) result {
	sel := c.caPending
	c.caPending = nil
	dos, err := ParseTLVs(cmd.Data)
	if err != nil || len(dos) != 1 || dos[0].Tag != 0x7C {
		c.truth.CaFailures++
		return status(SWWrongData)
	}
	inner, err := ParseTLVs(dos[0].Value)
	if err != nil || len(inner) != 1 || inner[0].Tag != 0x80 {
		c.truth.CaFailures++
		return status(SWWrongData)
	}
	return c.caAgree(sel, inner[0].Value, EncodeTLV(0x7C))
}

// caAgree performs the key agreement and schedules the session change.
func (c *Chip) caAgree(sel *caSelection, pkIFD []byte, respData []byte) result {
	x, y, err := sel.key.curve.DecodePoint(pkIFD)
	if err != nil {
		c.truth.CaFailures++
		return status(SWWrongData)
	}
	pers := c.cfg.Personality
	var secret []byte
	genuine := !pers.CANoKey
	if genuine {
		kx, ky := sel.key.curve.Mul(x, y, sel.key.priv)
		if kx.Sign() == 0 && ky.Sign() == 0 {
			c.truth.CaFailures++
			return status(SWWrongData)
		}
		secret = sel.key.curve.FE2OS(kx)
		c.truth.CaSharedSecret = clone(secret)
	} else {
		secret = c.randBytes(sel.key.curve.ByteLen())
	}
	ksEnc, err1 := KDF(secret, kdfEnc, sel.alg, sel.keyBits)
	ksMac, err2 := KDF(secret, kdfMac, sel.alg, sel.keyBits)
	if err1 != nil || err2 != nil {
		return status(SWUnknown)
	}
	oid, keyID, alg := sel.oid, sel.key.keyID, sel.alg
	return result{data: respData, sw: SWOK, after: func() {
		c.truth.CaAnswered++
		c.truth.CaOID = oid
		c.truth.CaKeyID = nil
		if keyID != nil {
			v := *keyID
			c.truth.CaKeyID = &v
		}
		switch {
		case !genuine && pers.CAKeepOldSession:
			// keeps the session it had
		case !genuine && pers.CADropSession:
			c.sm = nil
		default:
			sess, err := newSMSession(alg, ksEnc, ksMac, nil, "CA")
			if err != nil {
				panic(err)
			}
			c.setSM(sess)
		}
		if genuine {
			c.truth.CaCompleted = true
		}
	}}
}
