package chipsim

// The chip replayed against the worked examples of ICAO Doc 9303-11 (appendix D: BAC and
// secure messaging; appendix G.1: PACE generic mapping, ECDH, brainpoolP256r1, AES-128).
// The chip's random choices are forced to the values of the examples; every response must
// match the published bytes.

import (
	"bytes"
	"crypto/elliptic"
	"math/big"
	"testing"
)

type fixedRand struct{ buf []byte }

func (f *fixedRand) Read(p []byte) (int, error) {
	if len(f.buf) < len(p) {
		panic("fixedRand exhausted")
	}
	n := copy(p, f.buf)
	f.buf = f.buf[n:]
	return n, nil
}

func expectResp(t *testing.T, c *Chip, cmd, want string) {
	t.Helper()
	got := c.Process(hx(cmd))
	if !bytes.Equal(got, hx(want)) {
		t.Fatalf("command %s\n got  %X\n want %s", cmd, got, want)
	}
}

func TestAppendixD_BAC_and_SM(t *testing.T) {
	efCOM := hx("60145F0104303130365F36063034303030305C026175")
	c, err := New(Config{
		AppFiles:             map[uint16][]byte{FidCOM: efCOM},
		MRZInfo:              "L898902C<369080619406236",
		EnableBAC:            true,
		RequireAccessControl: true,
		Rand:                 &fixedRand{buf: hx("4608F91988702212 0B4F80323EB3191CB04970CB4052790B")},
	})
	if err != nil {
		t.Fatal(err)
	}
	expectResp(t, c, "00A4040C07A0000002471001", "9000")
	// not readable before BAC
	expectResp(t, c, "00A4020C02011E", "9000")
	expectResp(t, c, "00B0000004", "6982")
	// D.3
	expectResp(t, c, "0084000008", "4608F919887022129000")
	expectResp(t, c, "0082000028 72C29C2371CC9BDB65B779B8E8D37B29ECC154AA56A8799FAE2F498F76ED92F2 5F1448EEA8AD90A7 28",
		"46B9342A41396CD7386BF5803104D7CEDC122B9132139BAF2EEDC94EE178534F 2F2D235D074D7449 9000")
	tr := c.Truth()
	if !tr.BacCompleted || !tr.SM.Alive || tr.SM.Cipher != "3DES" ||
		!bytes.Equal(tr.SM.KSenc, hx("979EC13B1CBFE9DCD01AB0FED307EAE5")) ||
		!bytes.Equal(tr.SM.KSmac, hx("F1CB1F1FB5ADF208806B89DC579DC1F8")) ||
		!bytes.Equal(tr.SM.SSC, hx("887022120C06C226")) {
		t.Fatalf("session after BAC: %+v", tr.SM)
	}
	// D.4
	expectResp(t, c, "0CA4020C158709016375432908C044F68E08BF8B92D635FF24F800", "990290008E08FA855A5D4C50A8ED9000")
	expectResp(t, c, "0CB000000D9701048E08ED6705417E96BA5500", "8709019FF0EC34F9922651990290008E08AD55CC17140B2DED9000")
	expectResp(t, c, "0CB000040D9701128E082EA28A70F3C7B53500", "871901FB9235F4E4037F2327DCC8964F1F9B8C30F42C8E2FFF224A990290008E08C8B2787EAEA07D749000")
	tr = c.Truth()
	if !bytes.Equal(tr.SM.SSC, hx("887022120C06C22C")) {
		t.Errorf("SSC after three exchanges = %X", tr.SM.SSC)
	}
	n := len(tr.Accepted)
	last := tr.Accepted[n-1]
	if !last.Secured || last.INS != 0xB0 || last.P2 != 4 || last.Ne != 0x12 || last.SW != 0x9000 || last.RespLen != 18 {
		t.Errorf("last accepted command: %+v", last)
	}
	if len(tr.Reads) != 3 || tr.Reads[2].FileID != FidCOM || tr.Reads[2].Returned != 18 || tr.Reads[0].SW != 0x6982 {
		t.Errorf("reads: %+v", tr.Reads)
	}
}

func TestAppendixG1_PACE_GM(t *testing.T) {
	skMap := hexInt("498FF49756F2DC1587840041839A85982BE7761D14715FB091EFA7BCE9058560")
	skKA := hexInt("107CF58696EF6155053340FD633392BA81909DF7B9706F226F32086C7AFF974A")
	c, err := New(Config{
		MfFiles:              map[uint16][]byte{FidCardAccess: BuildCardAccess([]PaceInfoSpec{{OID: OIDPaceEcdhGmAes128, ParamID: 13}})},
		AppFiles:             map[uint16][]byte{},
		MRZInfo:              "T22000129364081251010318",
		EnablePACE:           true,
		RequireAccessControl: true,
		Pace:                 []PaceSpec{{OID: OIDPaceEcdhGmAes128, ParamID: 13}},
		Rand:                 &fixedRand{buf: hx("3F00C4D39D153F2B2A214A078D899B22")},
		ChooseScalar: func(phase string, _ elliptic.Curve, _, _ *big.Int) *big.Int {
			switch phase {
			case "pace-map":
				return skMap
			case "pace-ka":
				return skKA
			}
			return nil
		},
	})
	if err != nil {
		t.Fatal(err)
	}
	// EF.CardAccess of the example
	if got := c.cfg.MfFiles[FidCardAccess]; !bytes.Equal(got, hx("31143012060A04007F0007020204020202010202010D")) {
		t.Fatalf("EF.CardAccess = %X", got)
	}
	expectResp(t, c, "0022C1A40F800A04007F00070202040202830101", "9000")
	expectResp(t, c, "10860000027C0000", "7C12801095A3A016522EE98D01E76CB6B98B42C39000")
	expectResp(t, c, "10860000457C438141047ACF3EFC982EC45565A4B155129EFBC74650DCBFA6362D896FC70262E0C2CC5E544552DCB6725218799115B55C9BAA6D9F6BC3A9618E70C25AF71777A9C4922D00",
		"7C43824104824FBA91C9CBE26BEF53A0EBE7342A3BF178CEA9F45DE0B70AA601651FBA3F5730D8C879AAA9C9F73991E61B58F4D52EB87A0A0C709A49DC63719363CCD13C549000")
	expectResp(t, c, "10860000457C438341042DB7A64C0355044EC9DF190514C625CBA2CEA48754887122F3A5EF0D5EDD301C3556F3B3B186DF10B857B58F6A7EB80F20BA5DC7BE1D43D9BF850149FBB3646200",
		"7C438441049E880F842905B8B3181F7AF7CAA9F0EFB743847F44A306D2D28C1D9EC65DF6DB7764B22277A2EDDC3C265A9F018F9CB852E111B768B326904B59A0193776F0949000")
	expectResp(t, c, "008600000C7C0A8508C2B0BD78D94BA86600", "7C0A86083ABB9674BCE93C089000")
	tr := c.Truth()
	if !tr.PaceCompleted || tr.PaceOID != OIDPaceEcdhGmAes128 || tr.PaceParamID != 13 || tr.PacePasswordRef != 1 || tr.PaceCamCompleted {
		t.Errorf("truth: %+v", tr)
	}
	if !tr.SM.Alive || tr.SM.Cipher != "AES" ||
		!bytes.Equal(tr.SM.KSenc, hx("F5F0E35C0D7161EE6724EE513A0D9A7F")) ||
		!bytes.Equal(tr.SM.KSmac, hx("FE251C7858B356B24514B3BD5F4297D1")) ||
		!bytes.Equal(tr.SM.SSC, make([]byte, 16)) {
		t.Errorf("session after PACE: %+v", tr.SM)
	}
}

// A wrong token must end with 6300 and no session.
func TestPACEWrongToken(t *testing.T) {
	c, err := New(Config{
		MfFiles:    map[uint16][]byte{},
		MRZInfo:    "T22000129364081251010318",
		EnablePACE: true,
		Pace:       []PaceSpec{{OID: OIDPaceEcdhGmAes128, ParamID: 13}},
	})
	if err != nil {
		t.Fatal(err)
	}
	expectResp(t, c, "0022C1A40F800A04007F00070202040202830101", "9000")
	if r := c.Process(hx("10860000027C0000")); len(r) != 22 {
		t.Fatalf("nonce response %X", r)
	}
	c.Process(hx("10860000457C438141047ACF3EFC982EC45565A4B155129EFBC74650DCBFA6362D896FC70262E0C2CC5E544552DCB6725218799115B55C9BAA6D9F6BC3A9618E70C25AF71777A9C4922D00"))
	c.Process(hx("10860000457C438341042DB7A64C0355044EC9DF190514C625CBA2CEA48754887122F3A5EF0D5EDD301C3556F3B3B186DF10B857B58F6A7EB80F20BA5DC7BE1D43D9BF850149FBB3646200"))
	expectResp(t, c, "008600000C7C0A8508C2B0BD78D94BA86600", "6300")
	tr := c.Truth()
	if tr.PaceCompleted || tr.SM.Alive || tr.PaceFailures != 1 {
		t.Errorf("truth: %+v", tr)
	}
	// the sequence is dead
	expectResp(t, c, "008600000C7C0A8508C2B0BD78D94BA86600", "6985")
}
