package chipsim

// Symmetric primitives written from the standards:
//   - ISO/IEC 9797-1 padding method 2, MAC algorithm 3 ("retail MAC") with DES
//   - NIST SP 800-38B / RFC 4493 AES-CMAC
//   - ICAO Doc 9303-11 §9.7.1 key derivation function
//   - two-key 3DES / AES in CBC mode without padding
//
// Nothing in this file comes from gmrtd.

import (
	"crypto/aes"
	"crypto/cipher"
	"crypto/des"
	"crypto/sha1"
	"crypto/sha256"
	"crypto/subtle"
	"encoding/binary"
	"errors"
	"fmt"
)

// CipherAlg names the block cipher of a secure messaging session.
type CipherAlg string

const (
	Cipher3DES CipherAlg = "3DES"
	CipherAES  CipherAlg = "AES"
)

// Pad2 applies ISO/IEC 9797-1 padding method 2 (append 0x80, then 0x00 up to a multiple of
// blockSize). A block-aligned input still receives a full block of padding.
func Pad2(data []byte, blockSize int) []byte {
	n := len(data) + 1
	if r := n % blockSize; r != 0 {
		n += blockSize - r
	}
	out := make([]byte, n)
	copy(out, data)
	out[len(data)] = 0x80
	return out
}

// Unpad2 removes ISO/IEC 9797-1 padding method 2.
func Unpad2(data []byte) ([]byte, error) {
	for i := len(data) - 1; i >= 0; i-- {
		switch data[i] {
		case 0x00:
			continue
		case 0x80:
			return data[:i], nil
		default:
			return nil, errors.New("chipsim: bad ISO 9797-1 method 2 padding")
		}
	}
	return nil, errors.New("chipsim: bad ISO 9797-1 method 2 padding (no 0x80 marker)")
}

// AdjustParity sets the least significant bit of every byte so that each byte has odd parity
// (DES key parity, 9303-11 §9.7.1.2 "adjust the parity bits").
func AdjustParity(key []byte) []byte {
	out := make([]byte, len(key))
	for i, b := range key {
		ones := 0
		for j := 1; j < 8; j++ {
			if b&(1<<uint(j)) != 0 {
				ones++
			}
		}
		b &= 0xFE
		if ones%2 == 0 {
			b |= 1
		}
		out[i] = b
	}
	return out
}

// KDF counter values of 9303-11 §9.7.1.
const (
	kdfEnc  = 1
	kdfMac  = 2
	kdfPace = 3
)

// KDF implements 9303-11 §9.7.1: keydata = H(K || c), c a 32-bit big-endian counter.
// 3DES (112 bit) and AES-128 use SHA-1 and take the first 16 octets (3DES with parity
// adjusted), AES-192 takes the first 24 octets of SHA-256, AES-256 all 32.
func KDF(secret []byte, counter uint32, alg CipherAlg, keyBits int) ([]byte, error) {
	in := make([]byte, len(secret)+4)
	copy(in, secret)
	binary.BigEndian.PutUint32(in[len(secret):], counter)
	switch {
	case alg == Cipher3DES && (keyBits == 112 || keyBits == 128 || keyBits == 0):
		h := sha1.Sum(in)
		return AdjustParity(h[:16]), nil
	case alg == CipherAES && keyBits == 128:
		h := sha1.Sum(in)
		return append([]byte(nil), h[:16]...), nil
	case alg == CipherAES && keyBits == 192:
		h := sha256.Sum256(in)
		return append([]byte(nil), h[:24]...), nil
	case alg == CipherAES && keyBits == 256:
		h := sha256.Sum256(in)
		return append([]byte(nil), h[:32]...), nil
	}
	return nil, fmt.Errorf("chipsim: KDF: unsupported cipher %s/%d", alg, keyBits)
}

// newBlock returns the block cipher for a session key: two-key 3DES (16 octets K1||K2, used
// as K1,K2,K1) or AES-128/192/256.
func newBlock(alg CipherAlg, key []byte) (cipher.Block, error) {
	switch alg {
	case Cipher3DES:
		if len(key) != 16 {
			return nil, fmt.Errorf("chipsim: 3DES key must be 16 octets, got %d", len(key))
		}
		k := make([]byte, 24)
		copy(k, key)
		copy(k[16:], key[:8])
		return des.NewTripleDESCipher(k)
	case CipherAES:
		return aes.NewCipher(key)
	}
	return nil, fmt.Errorf("chipsim: unknown cipher %q", alg)
}

func blockSizeOf(alg CipherAlg) int {
	if alg == CipherAES {
		return 16
	}
	return 8
}

func cbcEncrypt(b cipher.Block, iv, data []byte) ([]byte, error) {
	if len(data)%b.BlockSize() != 0 {
		return nil, errors.New("chipsim: CBC input not block aligned")
	}
	out := make([]byte, len(data))
	cipher.NewCBCEncrypter(b, iv).CryptBlocks(out, data)
	return out, nil
}

func cbcDecrypt(b cipher.Block, iv, data []byte) ([]byte, error) {
	if len(data) == 0 || len(data)%b.BlockSize() != 0 {
		return nil, errors.New("chipsim: CBC input not block aligned")
	}
	out := make([]byte, len(data))
	cipher.NewCBCDecrypter(b, iv).CryptBlocks(out, data)
	return out, nil
}

// RetailMAC computes ISO/IEC 9797-1 MAC algorithm 3 with DES and padding method 2 over data
// (the padding is applied here). key = K1 || K2 (16 octets). Output 8 octets.
func RetailMAC(key, data []byte) ([]byte, error) {
	if len(key) != 16 {
		return nil, fmt.Errorf("chipsim: retail MAC key must be 16 octets, got %d", len(key))
	}
	k1, err := des.NewCipher(key[:8])
	if err != nil {
		return nil, err
	}
	k2, err := des.NewCipher(key[8:16])
	if err != nil {
		return nil, err
	}
	p := Pad2(data, 8)
	h := make([]byte, 8)
	for i := 0; i < len(p); i += 8 {
		for j := 0; j < 8; j++ {
			h[j] ^= p[i+j]
		}
		k1.Encrypt(h, h)
	}
	k2.Decrypt(h, h)
	k1.Encrypt(h, h)
	return h, nil
}

// AESCMAC computes the full 16-octet AES-CMAC (SP 800-38B, RFC 4493) of data.
func AESCMAC(key, data []byte) ([]byte, error) {
	b, err := aes.NewCipher(key)
	if err != nil {
		return nil, err
	}
	const bs = 16
	dbl := func(in []byte) []byte {
		out := make([]byte, bs)
		var carry byte
		for i := bs - 1; i >= 0; i-- {
			out[i] = in[i]<<1 | carry
			carry = in[i] >> 7
		}
		if carry != 0 {
			out[bs-1] ^= 0x87
		}
		return out
	}
	l := make([]byte, bs)
	b.Encrypt(l, l)
	k1 := dbl(l)
	k2 := dbl(k1)

	n := (len(data) + bs - 1) / bs
	complete := n > 0 && len(data)%bs == 0
	if n == 0 {
		n = 1
	}
	last := make([]byte, bs)
	if complete {
		copy(last, data[(n-1)*bs:])
		for i := range last {
			last[i] ^= k1[i]
		}
	} else {
		rem := data[(n-1)*bs:]
		copy(last, rem)
		last[len(rem)] = 0x80
		for i := range last {
			last[i] ^= k2[i]
		}
	}
	x := make([]byte, bs)
	for i := 0; i < n-1; i++ {
		for j := 0; j < bs; j++ {
			x[j] ^= data[i*bs+j]
		}
		b.Encrypt(x, x)
	}
	for j := 0; j < bs; j++ {
		x[j] ^= last[j]
	}
	b.Encrypt(x, x)
	return x, nil
}

// authMAC is the 8-octet message authentication code used for PACE/CA authentication tokens
// (9303-11 §4.4.3.4): retail MAC for 3DES, AES-CMAC truncated to 8 octets for AES. Padding is
// internal to the MAC (method 2 for the retail MAC, CMAC's own for AES).
func authMAC(alg CipherAlg, key, data []byte) ([]byte, error) {
	switch alg {
	case Cipher3DES:
		return RetailMAC(key, data)
	case CipherAES:
		m, err := AESCMAC(key, data)
		if err != nil {
			return nil, err
		}
		return m[:8], nil
	}
	return nil, fmt.Errorf("chipsim: unknown cipher %q", alg)
}

// smMAC is the secure messaging MAC (9303-11 §9.8): the input is first padded with method 2
// to the cipher's block size; 3DES uses the retail MAC, AES uses CMAC truncated to 8 octets
// over the padded string.
func smMAC(alg CipherAlg, key, data []byte) ([]byte, error) {
	switch alg {
	case Cipher3DES:
		return RetailMAC(key, data) // pads internally with method 2
	case CipherAES:
		m, err := AESCMAC(key, Pad2(data, 16))
		if err != nil {
			return nil, err
		}
		return m[:8], nil
	}
	return nil, fmt.Errorf("chipsim: unknown cipher %q", alg)
}

func ctEqual(a, b []byte) bool { return subtle.ConstantTimeCompare(a, b) == 1 }

func xorBytes(a, b []byte) []byte {
	out := make([]byte, len(a))
	for i := range a {
		out[i] = a[i] ^ b[i]
	}
	return out
}

func clone(b []byte) []byte {
	if b == nil {
		return nil
	}
	return append([]byte{}, b...)
}
