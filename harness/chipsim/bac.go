package chipsim

// Basic Access Control, chip side (9303-11 §4.3).

import "crypto/sha1"

// BACKeys derives the document basic access keys K_enc and K_mac from MRZ_information
// (9303-11 §4.3.2 / §9.7.2): K_seed = first 16 octets of SHA-1(MRZ_information).
func BACKeys(mrzInfo string) (kEnc, kMac []byte) {
	h := sha1.Sum([]byte(mrzInfo))
	kEnc, _ = KDF(h[:16], kdfEnc, Cipher3DES, 112)
	kMac, _ = KDF(h[:16], kdfMac, Cipher3DES, 112)
	return
}

func (c *Chip) doGetChallenge(cmd *Command) result {
	if cmd.P1 != 0 || cmd.P2 != 0 {
		return status(SWIncorrectP1P2)
	}
	if len(cmd.Data) != 0 {
		return status(SWWrongLength)
	}
	if !c.cfg.EnableBAC {
		return status(SWINSNotSupported)
	}
	if c.df != dfLDS1 {
		// the basic access keys belong to the LDS1 application
		return status(SWConditionsOfUse)
	}
	if !cmd.HasLe || cmd.Ne != 8 {
		return status(SWWrongLength)
	}
	c.bacRndIC = c.randBytes(8)
	return result{data: clone(c.bacRndIC), sw: SWOK}
}

func (c *Chip) doExternalAuthenticate(cmd *Command) result {
	rndIC := c.bacRndIC
	c.bacRndIC = nil
	if cmd.P1 != 0 || cmd.P2 != 0 {
		return status(SWIncorrectP1P2)
	}
	if !c.cfg.EnableBAC {
		return status(SWINSNotSupported)
	}
	if c.df != dfLDS1 || rndIC == nil {
		return status(SWConditionsOfUse)
	}
	if len(cmd.Data) != 40 {
		return status(SWWrongLength)
	}
	if cmd.HasLe && cmd.Ne < 40 {
		return status(SWWrongLength)
	}
	c.truth.BacAttempts++
	kEnc, kMac := BACKeys(c.cfg.MRZInfo)
	eIFD, mIFD := cmd.Data[:32], cmd.Data[32:]
	mac, err := RetailMAC(kMac, eIFD)
	if err != nil || !ctEqual(mac, mIFD) {
		c.truth.BacFailures++
		return status(SWAuthFailed)
	}
	enc, _ := newBlock(Cipher3DES, kEnc)
	s, err := cbcDecrypt(enc, make([]byte, 8), eIFD)
	if err != nil {
		c.truth.BacFailures++
		return status(SWAuthFailed)
	}
	rndIFD, gotRndIC, kIFD := s[:8], s[8:16], s[16:32]
	if !ctEqual(gotRndIC, rndIC) {
		c.truth.BacFailures++
		return status(SWAuthFailed)
	}
	kIC := c.randBytes(16)
	r := append(append(append([]byte{}, rndIC...), rndIFD...), kIC...)
	eIC, _ := cbcEncrypt(enc, make([]byte, 8), r)
	mIC, _ := RetailMAC(kMac, eIC)
	seed := xorBytes(kIFD, kIC)
	ksEnc, _ := KDF(seed, kdfEnc, Cipher3DES, 112)
	ksMac, _ := KDF(seed, kdfMac, Cipher3DES, 112)
	ssc := append(append([]byte{}, rndIC[4:8]...), rndIFD[4:8]...)
	return result{data: append(eIC, mIC...), sw: SWOK, after: func() {
		sess, err := newSMSession(Cipher3DES, ksEnc, ksMac, ssc, "BAC")
		if err != nil {
			panic(err)
		}
		c.setSM(sess)
		c.access = true
		c.truth.BacCompleted = true
	}}
}
