package chipsim

import (
	"crypto/rand"
	"errors"
	"fmt"
	"io"
	"math/big"
	mrand "math/rand"
	"sync"
)

// PlainCmd is a command as the chip understood it after secure messaging was verified and
// removed (or as received, when it arrived in plain).
type PlainCmd struct {
	CLA, INS, P1, P2 byte
	Data             []byte
	Ne               int
	HasLe            bool
	Secured          bool   // arrived under secure messaging and passed verification
	SW               uint16 // status the chip answered (inside DO'99' when Secured)
	RespLen          int    // octets of plain response data
	CSSC             []byte // chip SSC after the response was produced (nil when not Secured)
	Index            int    // 0-based index of the command among all commands the chip received
}

// ReadRec is one READ BINARY the chip executed.
type ReadRec struct {
	FileID   uint16 // 0 if no EF could be resolved
	DF       string // "MF" or "LDS1"
	INS      byte
	P1, P2   byte
	Offset   int
	Le       int // Ne requested
	Returned int
	SW       uint16
	Secured  bool
}

// SelectRec is one SELECT the chip executed.
type SelectRec struct {
	P1, P2 byte
	Data   []byte
	SW     uint16
	DF     string // current DF after the command
	EF     uint16 // current EF after the command (0 = none)
}

// SMState is the chip's secure messaging session.
type SMState struct {
	Alive  bool
	Cipher string // "3DES" or "AES"
	KSenc  []byte
	KSmac  []byte
	SSC    []byte
	Origin string // "BAC", "PACE", "CA"
}

// SMFailure is one secure messaging error.
type SMFailure struct {
	SW     uint16
	Reason string
	Index  int // index of the command (0-based count of commands received so far)
}

// Truth is the chip's ground truth: what it did and what state it is in.
type Truth struct {
	Commands       int // commands received
	Resets         int
	InternalErrors []string // panics caught in Process (answered 6F00); always empty unless the random source ran dry

	BacCompleted bool
	BacAttempts  int
	BacFailures  int

	PaceCompleted    bool
	PaceOID          string
	PaceParamID      int
	PacePasswordRef  int
	PaceCamCompleted bool // PACE-CAM finished and the chip authentication data was computed from the configured static key
	PaceAttempts     int
	PaceFailures     int
	PaceSharedSecret []byte // x-coordinate of the last PACE key agreement, field length (leading zeros kept)

	CaCompleted    bool // CA finished and the chip used the configured private key
	CaAnswered     int  // CA exchanges answered with 9000 (genuine or not)
	CaOID          string
	CaKeyID        *int
	CaFailures     int
	CaSharedSecret []byte // x-coordinate of the last genuine CA key agreement, field length (leading zeros kept)

	AaSigned     int
	AaChallenges [][]byte
	AaGenuine    bool // the last AA signature was made with the configured key

	AccessGranted bool // BAC or PACE completed in the current power cycle
	SelectedDF    string
	CurrentEF     uint16

	SM           SMState
	SMFailures   int
	SMFailureLog []SMFailure

	Accepted []PlainCmd
	Reads    []ReadRec
	Selects  []SelectRec
}

type dfID int

const (
	dfMF dfID = iota
	dfLDS1
)

func (d dfID) String() string {
	if d == dfLDS1 {
		return "LDS1"
	}
	return "MF"
}

// Chip is a simulated eMRTD contactless IC.
type Chip struct {
	mu  sync.Mutex
	cfg Config
	rnd io.Reader

	// volatile state (cleared by Reset)
	df        dfID
	ef        uint16 // 0 = no current EF
	access    bool   // BAC or PACE done
	paceDone  bool
	sm        *smSession
	bacRndIC  []byte
	pace      *paceState
	caPending *caSelection
	shortRng  *mrand.Rand

	// resolved keys
	caKeys []*caKey
	camKey *caKey
	aa     *aaSigner
	impAA  *aaSigner // impostor key of the "aa-no-key" personality (made on first use)

	truth Truth
}

// New validates the configuration and returns a powered-up chip.
func New(cfg Config) (*Chip, error) {
	c := &Chip{cfg: cfg}
	c.rnd = cfg.Rand
	if c.rnd == nil {
		c.rnd = rand.Reader
	}
	if cfg.EnableBAC || cfg.EnablePACE {
		if cfg.MRZInfo == "" && cfg.CAN == "" {
			return nil, errors.New("chipsim: access control enabled but neither MRZInfo nor CAN configured")
		}
	}
	if cfg.EnableBAC && cfg.MRZInfo == "" {
		return nil, errors.New("chipsim: BAC needs MRZInfo")
	}
	for _, p := range cfg.Pace {
		if _, _, _, err := paceProtocol(p.OID); err != nil {
			return nil, err
		}
		if _, err := CurveByParamID(p.ParamID); err != nil {
			return nil, err
		}
	}
	if cfg.EnablePACE && len(cfg.Pace) == 0 {
		return nil, errors.New("chipsim: PACE enabled but no PaceSpec configured")
	}
	for i, k := range cfg.CAKeys {
		ck, err := newCAKey(k.OID, k.KeyID, k.ParamID, k.Priv)
		if err != nil {
			return nil, fmt.Errorf("chipsim: CAKeys[%d]: %w", i, err)
		}
		c.caKeys = append(c.caKeys, ck)
	}
	if cfg.CamKey != nil {
		ck, err := newCAKey("", nil, cfg.CamKey.ParamID, cfg.CamKey.Priv)
		if err != nil {
			return nil, fmt.Errorf("chipsim: CamKey: %w", err)
		}
		c.camKey = ck
	}
	if cfg.AA != nil {
		s, err := newAASigner(cfg.AA)
		if err != nil {
			return nil, err
		}
		c.aa = s
	}
	switch cfg.Transport.ShortReturn {
	case "", "full", "half", "one", "random":
	default:
		return nil, fmt.Errorf("chipsim: unknown ShortReturn policy %q", cfg.Transport.ShortReturn)
	}
	c.powerUp()
	return c, nil
}

func (c *Chip) powerUp() {
	c.df = dfMF
	c.ef = 0
	c.access = false
	c.paceDone = false
	c.sm = nil
	c.bacRndIC = nil
	c.pace = nil
	c.caPending = nil
	c.shortRng = mrand.New(mrand.NewSource(c.cfg.Transport.ShortReturnSeed))
}

// Reset power-cycles the chip: the secure messaging session, the selected file, the access
// rights and all protocol state are lost; files, keys and the ground-truth log are kept.
func (c *Chip) Reset() {
	c.mu.Lock()
	defer c.mu.Unlock()
	c.powerUp()
	c.truth.Resets++
}

// InstallSM installs a secure messaging session with the given keys and counter directly (as if
// an access-control protocol had just completed) and grants access. cipher is "3DES" or "AES".
func (c *Chip) InstallSM(cipher string, ksEnc, ksMac, ssc []byte) error {
	c.mu.Lock()
	defer c.mu.Unlock()
	sess, err := newSMSession(CipherAlg(cipher), ksEnc, ksMac, ssc, "INSTALLED")
	if err != nil {
		return err
	}
	c.setSM(sess)
	c.access = true
	return nil
}

// setSM makes sess the current session (nil deletes it).
func (c *Chip) setSM(sess *smSession) {
	if sess != nil {
		sess.do85PI = c.cfg.Transport.DO85PaddingIndicator
	}
	c.sm = sess
}

// ClearTruth empties the ground-truth log (state flags are kept in step with the chip).
func (c *Chip) ClearTruth() {
	c.mu.Lock()
	defer c.mu.Unlock()
	c.truth = Truth{}
}

// Transceive implements gmrtd's iso7816.Transceiver. Only encodedData (the bytes on the wire)
// is looked at.
func (c *Chip) Transceive(cla, ins, p1, p2 int, data []byte, le int, encodedData []byte) []byte {
	return c.Process(encodedData)
}

// Truth returns a deep copy of the ground truth record.
func (c *Chip) Truth() Truth {
	c.mu.Lock()
	defer c.mu.Unlock()
	t := c.truth
	t.AccessGranted = c.access
	t.SelectedDF = c.df.String()
	t.CurrentEF = c.ef
	t.SM = SMState{}
	if c.sm != nil {
		t.SM = SMState{Alive: true, Cipher: string(c.sm.alg), KSenc: clone(c.sm.ksEnc), KSmac: clone(c.sm.ksMac), SSC: clone(c.sm.ssc), Origin: c.sm.origin}
	}
	t.InternalErrors = append([]string(nil), c.truth.InternalErrors...)
	t.PaceSharedSecret = clone(c.truth.PaceSharedSecret)
	t.CaSharedSecret = clone(c.truth.CaSharedSecret)
	t.AaChallenges = make([][]byte, len(c.truth.AaChallenges))
	for i, v := range c.truth.AaChallenges {
		t.AaChallenges[i] = clone(v)
	}
	t.SMFailureLog = append([]SMFailure(nil), c.truth.SMFailureLog...)
	t.Accepted = make([]PlainCmd, len(c.truth.Accepted))
	for i, v := range c.truth.Accepted {
		v.Data = clone(v.Data)
		v.CSSC = clone(v.CSSC)
		t.Accepted[i] = v
	}
	t.Reads = append([]ReadRec(nil), c.truth.Reads...)
	t.Selects = make([]SelectRec, len(c.truth.Selects))
	for i, v := range c.truth.Selects {
		v.Data = clone(v.Data)
		t.Selects[i] = v
	}
	if c.truth.CaKeyID != nil {
		k := *c.truth.CaKeyID
		t.CaKeyID = &k
	}
	return t
}

// response of a command handler
type result struct {
	data []byte
	sw   uint16
	// after installs a new secure messaging state once the response to this command has been
	// produced (and protected with the session that was active when the command arrived).
	after func()
}

func status(swv uint16) result { return result{sw: swv} }

// Process handles one command APDU (wire bytes) and returns the response APDU.
func (c *Chip) Process(raw []byte) (resp []byte) {
	c.mu.Lock()
	defer c.mu.Unlock()
	defer func() {
		// an exhausted caller-supplied random source (or a bug) must not take the harness down
		if r := recover(); r != nil {
			c.truth.InternalErrors = append(c.truth.InternalErrors, fmt.Sprint(r))
			resp = sw(nil, SWUnknown)
		}
	}()
	idx := c.truth.Commands
	c.truth.Commands++

	cmd, err := ParseCommand(raw)
	if err != nil {
		// a malformed APDU is not a secure messaging command the chip could authenticate
		if c.sm != nil {
			c.smFail(idx, SWSMIncorrectDO, "malformed APDU while SM active: "+err.Error())
			return sw(nil, SWSMIncorrectDO)
		}
		return sw(nil, SWWrongLength)
	}
	if cmd.Extended && !c.cfg.Transport.ExtendedLength {
		if c.sm != nil && !c.cfg.Transport.LengthErrorKeepsSession {
			c.smFail(idx, SWWrongLength, "extended length not supported (session deleted)")
		}
		return sw(nil, SWWrongLength)
	}
	if cmd.CLA&0x80 != 0 || cmd.CLA&0x60 != 0 {
		return c.plainError(idx, SWCLANotSupported)
	}
	if cmd.CLA&0x03 != 0 {
		return c.plainError(idx, SWLogicalChannel)
	}
	smBits := cmd.CLA & 0x0C
	if smBits != 0 && smBits != 0x0C {
		// 04/08: secure messaging formats the eMRTD does not use
		return c.plainError(idx, SWSMNotSupported)
	}

	if smBits == 0x0C {
		if c.sm == nil {
			// no session keys: the data objects cannot be verified
			c.truth.SMFailures++
			c.truth.SMFailureLog = append(c.truth.SMFailureLog, SMFailure{SW: SWSMIncorrectDO, Reason: "SM command without session", Index: idx})
			return sw(nil, SWSMIncorrectDO)
		}
		plain, swv, reason := c.sm.unwrap(cmd)
		if plain == nil {
			c.smFail(idx, swv, reason)
			return sw(nil, swv)
		}
		res := c.dispatch(plain)
		rec := PlainCmd{CLA: plain.CLA, INS: plain.INS, P1: plain.P1, P2: plain.P2, Data: clone(plain.Data), Ne: plain.Ne, HasLe: plain.HasLe, Secured: true, Index: idx}
		// does the protected response fit into the response field the terminal asked for?
		res = c.fitSecured(cmd, plain, res)
		out := c.sm.wrap(plain, res.data, res.sw)
		rec.SW, rec.RespLen, rec.CSSC = res.sw, len(res.data), clone(c.sm.ssc)
		c.truth.Accepted = append(c.truth.Accepted, rec)
		if res.after != nil {
			res.after()
		}
		return out
	}

	// plain command
	if c.sm != nil {
		// 9303-11 §9.8: a plain APDU aborts secure messaging; keys are deleted, rights reset
		c.smFail(idx, c.cfg.Transport.PlainInSMStatus, "plain command while SM active")
		if c.cfg.Transport.PlainInSMStatus != 0 {
			return sw(nil, c.cfg.Transport.PlainInSMStatus)
		}
	}
	res := c.dispatch(cmd)
	if !cmd.Extended && len(res.data) > 256 && !c.cfg.Transport.AllowOversizeShortResponse {
		res = status(SWWrongLength)
	}
	c.truth.Accepted = append(c.truth.Accepted, PlainCmd{CLA: cmd.CLA, INS: cmd.INS, P1: cmd.P1, P2: cmd.P2, Data: clone(cmd.Data), Ne: cmd.Ne, HasLe: cmd.HasLe, SW: res.sw, RespLen: len(res.data), Index: idx})
	if res.after != nil {
		res.after()
	}
	return sw(res.data, res.sw)
}

func (c *Chip) plainError(idx int, swv uint16) []byte {
	if c.sm != nil {
		c.smFail(idx, swv, "unsupported class byte while SM active")
	}
	return sw(nil, swv)
}

// smFail deletes the session and resets the access rights (9303-11 §9.8).
func (c *Chip) smFail(idx int, swv uint16, reason string) {
	c.truth.SMFailures++
	c.truth.SMFailureLog = append(c.truth.SMFailureLog, SMFailure{SW: swv, Reason: reason, Index: idx})
	c.sm = nil
	c.access = false
	c.paceDone = false
	c.pace = nil
	c.caPending = nil
	c.bacRndIC = nil
}

// fitSecured makes sure the protected response is no longer than the response field of the
// secured command allows (256 octets for short length). READ BINARY never gets here with too
// much data (it caps itself); anything else is answered with 6700.
func (c *Chip) fitSecured(outer, plain *Command, res result) result {
	if c.cfg.Transport.AllowOversizeShortResponse {
		return res
	}
	limit := 256
	if outer.Extended {
		limit = 65536
	}
	if c.sm.protectedLen(plain, len(res.data)) > limit {
		return status(SWWrongLength)
	}
	return res
}

// dispatch executes a plain command.
func (c *Chip) dispatch(cmd *Command) result {
	if c.cfg.Handler != nil {
		if data, swv, ok := c.cfg.Handler(PlainCmd{CLA: cmd.CLA, INS: cmd.INS, P1: cmd.P1, P2: cmd.P2, Data: clone(cmd.Data), Ne: cmd.Ne, HasLe: cmd.HasLe, Secured: c.sm != nil}); ok {
			return result{data: data, sw: swv}
		}
	}
	chaining := cmd.CLA&0x10 != 0
	if chaining && cmd.INS != 0x86 {
		return status(SWChainingUnsupported)
	}
	if cmd.INS != 0x86 && cmd.INS != 0x22 {
		// any other command interrupts a PACE / CA command sequence
		if c.pace != nil {
			c.pace = nil
		}
	}
	if cmd.INS != 0x82 && cmd.INS != 0x84 {
		// RND.IC is valid for the immediately following EXTERNAL AUTHENTICATE only
		c.bacRndIC = nil
	}
	switch cmd.INS {
	case 0xA4:
		return c.doSelect(cmd)
	case 0xB0, 0xB1:
		return c.doReadBinary(cmd)
	case 0x84:
		return c.doGetChallenge(cmd)
	case 0x82:
		return c.doExternalAuthenticate(cmd)
	case 0x22:
		return c.doMSE(cmd)
	case 0x86:
		res := c.doGeneralAuthenticate(cmd, chaining)
		if c.cfg.Personality.FixedWidthLengths && res.sw == SWOK && len(res.data) > 0 {
			res.data = fixedWidthLengths(res.data)
		}
		return res
	case 0x88:
		return c.doInternalAuthenticate(cmd)
	}
	return status(SWINSNotSupported)
}

func (c *Chip) randBytes(n int) []byte {
	b := make([]byte, n)
	if _, err := io.ReadFull(c.rnd, b); err != nil {
		panic("chipsim: random source failed: " + err.Error())
	}
	return b
}

// scalar picks a chip scalar: the ChooseScalar hook first, the random source otherwise.
func (c *Chip) scalar(phase string, curve *Curve, peerX, peerY *big.Int) *big.Int {
	if c.cfg.ChooseScalar != nil {
		if k := c.cfg.ChooseScalar(phase, curve, peerX, peerY); k != nil && k.Sign() > 0 && k.Cmp(curve.N) < 0 {
			return new(big.Int).Set(k)
		}
	}
	k, err := curve.RandomScalar(c.rnd)
	if err != nil {
		panic("chipsim: random source failed: " + err.Error())
	}
	return k
}

// fixedWidthLengths re-encodes the dynamic authentication data (7C { 8x ... }) with two-octet length fields (82 hi lo)
// throughout - legal BER (ISO/IEC 7816-4 lets a card use any of the length forms), written by cards that reserve a fixed
// header.
func fixedWidthLengths(data []byte) []byte {
	tl, err := ParseTLVs(data)
	if err != nil {
		return data
	}
	var out []byte
	for _, t := range tl {
		v := t.Value
		if t.Tag == 0x7C {
			v = fixedWidthLengths(v)
		}
		out = append(out, encodeTag(t.Tag)...)
		out = append(out, 0x82, byte(len(v)>>8), byte(len(v)))
		out = append(out, v...)
	}
	return out
}
