// Package chipsim is an independent simulator of an eMRTD contactless IC: the card side of
// ICAO Doc 9303 parts 10 and 11, written from ICAO 9303, ISO/IEC 7816-4, BSI TR-03110 /
// TR-03111, ISO/IEC 9797-1 and ISO/IEC 9796-2. It exists so that the real gmrtd reader code can
// be run against a responsive chip and its reported outcomes compared with the chip's ground
// truth. It is an oracle: no non-test file imports anything from github.com/gmrtd/gmrtd. The only
// third-party artefact is the table of brainpool curve constants of
// github.com/osanderson/brainpool (constants only; the arithmetic is this package's own, see ec.go).
//
// # API
//
//	chip, err := chipsim.New(cfg)          // personalise and power up
//	resp := chip.Process(commandAPDU)      // one exchange, wire bytes in, wire bytes out
//	resp := chip.Transceive(cla, ins, p1, p2, data, le, encoded) // gmrtd iso7816.Transceiver; only `encoded` is used
//	chip.Reset()                           // power cycle: session, selection, access rights, protocol state lost
//	truth := chip.Truth()                  // deep copy of the ground truth (JSON-serialisable)
//	chip.ClearTruth()
//
// Config (plain data apart from Rand and ChooseScalar):
//
//   - MfFiles / AppFiles: EF contents by file identifier. MF: EF.CardAccess 011C, EF.CardSecurity
//     011D, EF.DIR 2F00, EF.ATR/INFO 2F01 (short EF identifiers 1C, 1D, 1E, 01). LDS1 application
//     (AID A0000002471001): EF.COM 011E, EF.SOD 011D, DGn 0100+n; short EF identifier = low five
//     bits of the file identifier.
//   - MRZInfo, CAN: the passwords. MRZInformation(docNo, dob, doe) builds MRZ_information.
//   - EnableBAC, EnablePACE, RequireAccessControl (application files answer 6982 until BAC or
//     PACE completed and while the session lives; EF.CardSecurity needs PACE; EF.CardAccess, EF.DIR,
//     EF.ATR/INFO are free).
//   - Pace []PaceSpec{OID, ParamID}: PACE-ECDH-GM with 3DES / AES-128/192/256 and PACE-ECDH-CAM
//     with AES-128/192/256 over standardized domain parameters 8..18; PaceNonceLen; CamKey (static
//     key of the chip authentication mapping; default: first CA key on the PACE curve).
//   - CAKeys []CAKey{OID, KeyID, ParamID, Priv}: Chip Authentication v1, ECDH, both command forms.
//   - AA *AAKey: RSA (ISO/IEC 9796-2 scheme 1) or ECDSA (plain or DER).
//   - Transport: MaxRead, RejectLeOver, ShortReturn ("full", "half", "one", "random" + seed),
//     ExtendedLength, HeaderReadShort, WarnEOF (6282), AllowOversizeShortResponse,
//     PlainInSMStatus, SelectRequiresAuth.
//   - Personality (PersonalityByName): "genuine", "ca-no-key" (answers CA with 9000, session keys
//     from a random secret), "ca-no-key-old-session" (keeps the old session), "ca-no-key-no-session"
//     (drops to plain), "aa-no-key" (signs with a fresh key of the same kind), "cam-no-key" (chip
//     authentication data from a random static key).
//   - Rand io.Reader: every random choice of the chip (RND.IC, K.IC, PACE nonce, ephemeral
//     scalars, M1, ECDSA k, impostor keys). ChooseScalar(phase, curve, peerX, peerY): pick the
//     scalar of phase "pace-map", "pace-ka" (curve carries the mapped generator) or "aa-ecdsa-k"
//     (peer nil) after the terminal's public key is known. FindScalarWithLeadingZeroX searches a
//     scalar whose product with the peer point has an x-coordinate with a zero leading octet.
//
// Truth: Commands, Resets; BacCompleted/Attempts/Failures; PaceCompleted, PaceOID, PaceParamID,
// PacePasswordRef, PaceCamCompleted, PaceAttempts/Failures, PaceSharedSecret; CaCompleted (the
// configured private key was really used), CaAnswered, CaOID, CaKeyID, CaFailures, CaSharedSecret;
// AaSigned, AaChallenges, AaGenuine; AccessGranted, SelectedDF, CurrentEF; SM{Alive, Cipher, KSenc,
// KSmac, SSC, Origin}; SMFailures, SMFailureLog; Accepted []PlainCmd (every command executed, as
// plaintext, with Secured, SW, RespLen and the chip SSC after the response; commands that failed
// secure messaging verification never appear); Reads []ReadRec; Selects []SelectRec.
//
// Personalisation helpers (perso.go): BuildCardAccess, PaceInfo, PaceDomainParameterInfo,
// BuildSecurityInfos, CASecurityInfos, ChipAuthenticationInfo, ChipAuthenticationPublicKeyInfo,
// ActiveAuthenticationInfo, TerminalAuthenticationInfo, BuildDG14, BuildDG15, BuildDG1, BuildCOM,
// BuildDIR, ECSubjectPublicKeyInfo (explicit / named / standardized parameters),
// ECExplicitParameters, RSASubjectPublicKeyInfo, AASubjectPublicKeyInfo, GenerateRSAKey (any bit
// length), PublicKey, MRZCheckDigit, MRZInformation. EF.SOD and EF.CardSecurity are taken as bytes.
//
// Primitives (exported for the harness's independent checks): Pad2/Unpad2, RetailMAC, AESCMAC,
// KDF, BACKeys, PacePasswordKey, AdjustParity, ParseCommand, ParseTLVs/EncodeTLV,
// OIDContent/OIDString, Curve (CurveByParamID, CurveByName), ISO9796Sign/ISO9796Capacity, ECDSASign.
//
// # What the chip does
//
// Commands: SELECT (P2 = 0C only; P1 = 00 MF/by id, 02 EF under current DF, 04 DF name), READ
// BINARY B0 (15-bit offset, or P1 b8 = 1: short EF identifier + 8-bit offset; SFI 0 = current EF)
// and B1 (offset DO'54' in, DO'53' out; P1-P2 = 0000 current EF, 0001..001E SFI, else file id),
// GET CHALLENGE, EXTERNAL AUTHENTICATE (BAC), MSE:Set AT (C1A4 PACE, 41A4 CA), MSE:Set KAT (41A6),
// GENERAL AUTHENTICATE (PACE chain with CLA 10 .. 00; CA), INTERNAL AUTHENTICATE (AA). All seven
// ISO/IEC 7816-4 command cases are parsed from the wire bytes. Status words: 6700 malformed or
// unsupported length, 6982 access condition, 6985 wrong order, 6986 no current EF, 6A80 bad data
// field, 6A81/6D00 function not available, 6A82 not found, 6A86 P1-P2, 6A88 key/password reference
// not found, 6B00 offset outside the EF, 6300 authentication failed (BAC cryptogram, PACE token,
// equal ephemeral keys), 6881/6882/6884/6E00 class byte.
//
// Secure messaging: 3DES (retail MAC, SSC 8 octets, IV 0) and AES-128/192/256 (CMAC truncated to
// 8, SSC 16 octets, IV = E(KSenc, SSC)). DOs must come in the order [87|85] [97] 8E; 87 with even
// INS, 85 (no padding indicator) with odd INS. Any secure messaging error - MAC wrong, DO'8E'
// missing (6987), malformed or misplaced DOs, bad padding (6988), a plain or unparseable command
// while a session exists - deletes the session keys and the access rights and is answered without
// protection (9303-11 §9.8). A plain command in a session is by default executed in plain after
// the session was dropped (Transport.PlainInSMStatus makes the chip answer a fixed status
// instead). A secured command without a session gets 6988. Errors of correctly protected commands
// are answered protected and leave the session alone. The session change of BAC, PACE and CA
// happens after the response to the completing command (which is protected with the session
// that carried the command, if any): new keys and SSC (BAC: RND.IC[4..7] || RND.IFD[4..7],
// PACE/CA: 0) apply from the next command on.
//
// Response size: a response never exceeds what the command's length format can carry (256
// octets short, 65536 extended). READ BINARY under secure messaging therefore returns at most 231
// (3DES) or 223 (AES) octets to a short command; other commands whose protected response does
// not fit (e.g. a 256-octet RSA-2048 signature under SM) are answered 6700 - protected - unless
// Transport.AllowOversizeShortResponse is set.
//
// Shared secrets are the x-coordinate as a fixed-length octet string (TR-03111 FE2OS): leading
// zero octets are kept.
//
// ISO/IEC 9796-2 with a modulus whose bit length k is not a multiple of 8: the message
// representative F = 6A || M1 || H || T is given floor(k/8) octets, the largest whole-octet
// string that is always smaller than the modulus, and the signature has ceil(k/8) octets. (The bit
// oriented text of ISO/IEC 9796-2 would place the header at bit k-1; 9303-11 only describes
// k = 0 mod 8. The octet-aligned reading is the one chips and gmrtd use; both coincide for
// k = 0 mod 8.)
//
// Not implemented: PACE with DH or integrated mapping, CA with DH, Terminal Authentication,
// CHAT handling (DO'7F4C' in MSE:Set AT is ignored), SELECT returning FCI/FCP (P2 other than 0C is
// 6A86), logical channels, UPDATE commands, LDS2, retry counters / PACE delay.
//
// # Where gmrtd and the standards disagree
//
// Found while building this; file:line as of the current /repo tree; each item is exercised in
// integration_test.go or deviations_test.go.
//
//  1. pace/pace.go:416 (and :936 VerifyEvidence), chipauth/chip_auth.go:399: the shared secret is
//     big.Int.Bytes() of the x-coordinate, i.e. leading zero octets are dropped. 9303-11 §9.6 /
//     TR-03111 §3.1.3: fixed field length. Example: brainpoolP256r1, x = 00 A1 .. (1 in ~170
//     runs; every second run on P-521, whose x has 66 octets and 521 bits): reader derives
//     KSenc/KSmac from 31 octets, the chip from 32 -> PACE token mismatch (chip answers 6300 to the
//     reader's T_IFD) / CA: reader's first command under the "new" keys gets an unprotected 6988.
//     TestIntegrationPACELeadingZeroSharedSecret forces it.
//  2. iso7816/nfc_session.go:275: READ BINARY P1 = byte(offset/256). From offset 32768 P1 has b8
//     set, which ISO/IEC 7816-4 §11.3.3 defines as "b5..b1 = short EF identifier, P2 = offset".
//     Example: 40 kB DG2, offset 32806 -> 00 B0 80 26: the chip returns 231 octets from offset
//     0x26 of the current EF with 9000 (silently wrong data); at 33024 -> P1 = 81 = SFI 1 = DG1
//     becomes the current EF. Files of 32 kB and more need odd INS B1 (9303-10 §3.6.3.2).
//     TestIntegrationLargeFile.
//  3. iso7816/nfc_session.go:310..334: the 4-octet header read is not repeated and is assumed to
//     have returned 4 octets (totalBytes += 4 - tmpBuf.Len()). A chip answering 2 or 3 octets
//     (Le is a maximum) makes the reader compute a length 1-2 too large and run into 6B00; 1
//     octet is a parse error. iso7816/nfc_session.go:338..388: fileData is only assigned inside
//     "if fileBuf.Len() < totalBytes": a file of at most 4 octets (e.g. 6D 02 AA BB) is returned as
//     nil, nil - the same as "file not found". TestDeviationTinyFile,
//     TestIntegrationBACAndReadFile (short-return transports).
//  4. iso7816/capdu.go:103..109: a case 2E command (no data, Le > 256) is encoded with two Le
//     octets and no leading 00: Le = 65536 -> 00 B0 00 04 00 00 (malformed), Le = 300 ->
//     00 B0 00 04 01 2C, which ISO/IEC 7816-4 reads as case 3S with Lc = 1, data 2C. Only without
//     secure messaging (under SM there always is a data field); masked in ReadFile by the Le
//     fallback to 256. TestDeviationCase2E. (capdu.go:72 Lc high octet "% 0xff" was already
//     repaired in /repo, commit a45bc4a.)
//  5. iso7816/secure_messaging.go:376..383: on an unprotected response the reader decrements its
//     SSC and keeps the session; 9303-11 §9.8 has the chip delete the session on any SM error, so
//     every further protected command is refused (6988). Seen in TestIntegrationSMAbort: the Le
//     fallbacks of ReadFile are all sent to a chip that no longer has keys.
//     secure_messaging.go:311 builds the response MAC input from DO'85', DO'87', DO'99' looked up by
//     tag, not in the order received, and ignores any other data object in the response;
//     secure_messaging.go:222 puts the padding indicator 01 also into DO'85' (odd INS), which
//     ISO/IEC 7816-4 defines without one (not reachable: the reader sends no odd-INS command).
//  6. reader/reader.go:185..187: EF.DIR (2F00, an EF of the MF) is selected with P1 = 02 after the
//     LDS1 application was selected; a conforming chip answers 6A82, so EF.DIR is never read
//     (TestIntegrationReadDocument). EF.CardSecurity is read at the right place.
//  7. activeauth/active_auth.go:345: the hash of an ECDSA AA signature is derived from the key
//     size; 9303-11 §6.1.2.3/§9.2.7 take it from ActiveAuthenticationInfo.signatureAlgorithm in
//     DG14 and allow any of SHA-224..512 not longer than the key. Example: P-384 key, DG14
//     announcing ecdsa-plain-SHA256: genuine signature rejected (TestDeviationAAHashFromKeySize).
//  8. chipauth/chip_auth.go:322, :353: keyId is sent as big.Int.Bytes(); keyId 0 becomes an empty
//     DO'84' (84 00). The chip answers 6A80 (TestDeviationCAKeyIDZero).
//  9. reader flow: INTERNAL AUTHENTICATE is sent with Le = 256 in a short APDU under secure
//     messaging; a 2048-bit RSA signature (256 octets + DO overhead) cannot be returned in a short
//     response, so AA with RSA-2048 under SM needs extended length, which ReadDocument never
//     selects (TestIntegrationActiveAuthRSA2048ShortLengthUnderSM; works after
//     NfcSession.SetMaxLe(65536)).
//  10. Both readings conformant, reader's chosen: chipauth/chip_auth.go:431 uses MSE:Set KAT only
//     when there is no ChipAuthenticationInfo, and MSE:Set AT + GENERAL AUTHENTICATE for an
//     announced 3DES protocol (9303-11 §6.2.4: MAY) - the chip accepts both. pace/pace.go:503
//     accepts as PACE-CAM key only a ChipAuthenticationPublicKeyInfo whose AlgorithmIdentifier is
//     standardizedDomainParameters (0.4.0.127.0.7.1.2); CASecurityInfos(Params: "standardized")
//     produces that form. activeauth/active_auth.go:300 strips leading zero octets before looking
//     for 6A, which is what makes moduli with k mod 8 != 0 work.
package chipsim
