package chipsim_test

// Places where gmrtd and the standards part ways, exercised against the (standard-following)
// simulator. These tests assert only what the CHIP did; what the reader made of it is logged
// ("DEVIATION ..."), because judging the reader is the harness's job. See doc.go for the list.

import (
	"bytes"
	"crypto/rand"
	"testing"

	"github.com/gmrtd/gmrtd/activeauth"
	"github.com/gmrtd/gmrtd/chipauth"
	"github.com/gmrtd/gmrtd/document"
	"github.com/gmrtd/gmrtd/iso7816"

	"verif/harness/chipsim"
)

// A file that fits into the 4-octet header read entirely (nfc_session.go:338..388).
func TestDeviationTinyFile(t *testing.T) {
	files := map[uint16][]byte{0x010D: {0x6D, 0x02, 0xAA, 0xBB}, 0x010C: {0x6C, 0x01, 0xAA}}
	chip, err := chipsim.New(chipsim.Config{AppFiles: files})
	if err != nil {
		t.Fatal(err)
	}
	nfc := iso7816.NewNfcSession(chip)
	nfc.SelectAid(aid)
	for fid, want := range files {
		before := len(chip.Truth().Reads)
		got, err := nfc.ReadFile(fid)
		if first := chip.Truth().Reads[before]; first.SW != 0x9000 || first.Returned != len(want) || first.Le != 4 {
			t.Errorf("chip: %+v", first)
		}
		if err != nil || !bytes.Equal(got, want) {
			t.Logf("DEVIATION ReadFile(%04X) of a %d-octet file: got %X err %v (chip returned the whole file with 9000)", fid, len(want), got, err)
		}
	}
}

// Extended length without secure messaging: case 2E is encoded with two Le octets and no
// leading 00 (capdu.go:103).
func TestDeviationCase2E(t *testing.T) {
	files := baseFiles()
	chip, err := chipsim.New(chipsim.Config{AppFiles: files, Transport: chipsim.Transport{ExtendedLength: true}})
	if err != nil {
		t.Fatal(err)
	}
	nfc := iso7816.NewNfcSession(chip)
	nfc.SelectAid(aid)
	nfc.SetMaxLe(65536)
	got, err := nfc.ReadFile(0x0102)
	if err != nil || !bytes.Equal(got, files[0x0102]) {
		t.Logf("DEVIATION plain extended-length ReadFile: err %v", err)
		for _, a := range chip.Truth().Accepted {
			if a.INS == 0xB0 && a.SW != 0x9000 {
				t.Logf("  chip saw READ BINARY data=%X hasLe=%v ne=%d -> %04X", a.Data, a.HasLe, a.Ne, a.SW)
				break
			}
		}
	}
	// the wire form gmrtd produces for 00 B0 00 04 with Le = 65536 and for Le = 300
	for _, le := range []int{65536, 300} {
		wire := iso7816.NewCApdu(0x00, 0xB0, 0x00, 0x04, nil, le).Encode()
		cmd, perr := chipsim.ParseCommand(wire)
		t.Logf("  gmrtd encodes READ BINARY with Le=%d as %X; ISO 7816-4 parse: %+v %v", le, wire, cmd, perr)
	}
}

// Lc of an extended command with 65280..65535 data octets (capdu.go:72 used "% 0xff" for the
// high octet in the snapshot; fixed in /repo by commit a45bc4a). Kept as a regression probe.
func TestDeviationExtendedLc(t *testing.T) {
	data := make([]byte, 65280)
	wire := iso7816.NewCApdu(0x00, 0xDA, 0x00, 0x00, data, 0).Encode()
	if _, err := chipsim.ParseCommand(wire); err != nil {
		t.Logf("DEVIATION gmrtd encodes Nc=65280 with length field %X: %v", wire[4:7], err)
	}
}

// ECDSA active authentication: the hash is given by ActiveAuthenticationInfo in DG14
// (9303-11 §6.1.2.3, §9.2.7); gmrtd derives it from the key size (active_auth.go:345).
func TestDeviationAAHashFromKeySize(t *testing.T) {
	curve, _ := chipsim.CurveByParamID(15) // P-384
	sk, _ := curve.RandomScalar(rand.Reader)
	key := &chipsim.AAKey{Type: "ecdsa", Hash: "sha256", ParamID: 15, Priv: sk.Bytes()}
	spki, _ := chipsim.AASubjectPublicKeyInfo(key, false)
	dg14, _ := chipsim.BuildDG14(nil, chipsim.ActiveAuthenticationInfo(chipsim.EcdsaPlainOID("sha256")))
	files := baseFiles()
	files[chipsim.FidDG15] = chipsim.BuildDG15(spki)
	files[chipsim.FidDG14] = dg14
	chip, err := chipsim.New(chipsim.Config{AppFiles: files, AA: key})
	if err != nil {
		t.Fatal(err)
	}
	nfc := iso7816.NewNfcSession(chip)
	nfc.SelectAid(aid)
	var doc document.Document
	doc.Mf.Lds1.Dg15, _ = document.NewDG15(files[chipsim.FidDG15])
	if doc.Mf.Lds1.Dg14, err = document.NewDG14(dg14); err != nil || len(doc.Mf.Lds1.Dg14.SecInfos.ActiveAuthInfos) != 1 {
		t.Fatalf("DG14 with ActiveAuthenticationInfo: %v", err)
	}
	res, err := activeauth.NewActiveAuth(nfc, &doc).DoActiveAuth()
	truth := chip.Truth()
	if truth.AaSigned != 1 || !truth.AaGenuine {
		t.Errorf("chip: %+v", truth)
	}
	if err != nil || res == nil || !res.Success {
		t.Logf("DEVIATION genuine P-384 / SHA-256 AA signature (as announced in DG14) rejected: %v", err)
	}
}

// Key identifier 0 is sent as an empty DO'84' (chip_auth.go:322/353: big.Int.Bytes()).
func TestDeviationCAKeyIDZero(t *testing.T) {
	curve, _ := chipsim.CurveByParamID(12)
	sk, _ := curve.RandomScalar(rand.Reader)
	zero := 0
	dg14, _ := chipsim.BuildDG14([]chipsim.CAKeySpec{{OID: chipsim.OIDCaEcdhAes128, ParamID: 12, Priv: sk.Bytes(), KeyID: &zero}})
	files := baseFiles()
	files[chipsim.FidDG14] = dg14
	chip, err := chipsim.New(chipsim.Config{AppFiles: files, MRZInfo: chipsim.MRZInformation(docNo, dob, doe), EnableBAC: true, RequireAccessControl: true,
		CAKeys: []chipsim.CAKey{{OID: chipsim.OIDCaEcdhAes128, ParamID: 12, Priv: sk.Bytes(), KeyID: &zero}}})
	if err != nil {
		t.Fatal(err)
	}
	nfc := doBAC(t, chip)
	var doc document.Document
	doc.Mf.Lds1.Dg14, _ = document.NewDG14(dg14)
	res, err := chipauth.NewChipAuth(nfc, &doc).DoChipAuth()
	if err != nil || res == nil || !res.Success {
		truth := chip.Truth()
		for _, a := range truth.Accepted {
			if a.INS == 0x22 {
				t.Logf("DEVIATION CA with keyId 0: MSE:Set AT data %X -> %04X (%v)", a.Data, a.SW, err)
			}
		}
	}
}
