package chipsim

// PACE with ECDH generic mapping and chip authentication mapping, chip side
// (9303-11 §4.4, BSI TR-03110-3 §B.1/B.2).

import (
	"bytes"
	"crypto/sha1"
	"fmt"
	"math/big"
	"strings"
)

type paceState struct {
	step    int // 0 after MSE:Set AT, 1 nonce sent, 2 mapped, 3 keys agreed
	oid     string
	oidDER  []byte // OID content octets as sent by the terminal
	cam     bool
	alg     CipherAlg
	keyBits int
	curve   *Curve
	paramID int
	pwdRef  byte

	nonce   []byte
	skMap   *big.Int
	pkMapX  *big.Int // chip mapping public key
	pkMapY  *big.Int
	mapped  *Curve   // ephemeral domain parameters
	pkIFDX  *big.Int // terminal ephemeral public key
	pkIFDY  *big.Int
	pkICX   *big.Int
	pkICY   *big.Int
	shared  []byte
	tMapIFD []byte // terminal mapping public key (encoded)
}

// paceProtocol resolves a PACE object identifier.
func paceProtocol(oid string) (alg CipherAlg, keyBits int, cam bool, err error) {
	var last string
	switch {
	case strings.HasPrefix(oid, oidPaceEcdhGmPrefix+"."):
		last = oid[len(oidPaceEcdhGmPrefix)+1:]
	case strings.HasPrefix(oid, oidPaceEcdhCamPrefix+"."):
		last = oid[len(oidPaceEcdhCamPrefix)+1:]
		cam = true
	default:
		return "", 0, false, fmt.Errorf("chipsim: PACE protocol %s not implemented (only ECDH-GM and ECDH-CAM)", oid)
	}
	switch last {
	case "1":
		if cam {
			return "", 0, false, fmt.Errorf("chipsim: PACE-CAM is not defined for 3DES (%s)", oid)
		}
		return Cipher3DES, 112, cam, nil
	case "2":
		return CipherAES, 128, cam, nil
	case "3":
		return CipherAES, 192, cam, nil
	case "4":
		return CipherAES, 256, cam, nil
	}
	return "", 0, false, fmt.Errorf("chipsim: unknown PACE protocol %s", oid)
}

// PacePasswordKey derives K_pi = KDF_pi(f(pi)) (9303-11 §9.7.3): f = SHA-1 for the MRZ
// password, the ISO 8859-1 characters themselves for the CAN.
func PacePasswordKey(pwdRef int, mrzInfo, can string, alg CipherAlg, keyBits int) ([]byte, error) {
	var k []byte
	switch byte(pwdRef) {
	case passwordRefMRZ:
		h := sha1.Sum([]byte(mrzInfo))
		k = h[:]
	case passwordRefCAN:
		k = []byte(can)
	default:
		return nil, fmt.Errorf("chipsim: unknown password reference %d", pwdRef)
	}
	return KDF(k, kdfPace, alg, keyBits)
}

// doMSE handles MANAGE SECURITY ENVIRONMENT.
func (c *Chip) doMSE(cmd *Command) result {
	switch {
	case cmd.P1 == 0xC1 && cmd.P2 == 0xA4:
		return c.mseSetATPace(cmd)
	case cmd.P1 == 0x41 && cmd.P2 == 0xA4:
		return c.mseSetATCA(cmd)
	case cmd.P1 == 0x41 && cmd.P2 == 0xA6:
		return c.mseSetKAT(cmd)
	}
	return status(SWIncorrectP1P2)
}

func (c *Chip) mseSetATPace(cmd *Command) result {
	c.pace = nil
	c.caPending = nil
	if !c.cfg.EnablePACE {
		return status(SWFuncNotSupported)
	}
	dos, err := ParseTLVs(cmd.Data)
	if err != nil {
		return status(SWWrongData)
	}
	d80, d83, d84 := findTLV(dos, 0x80), findTLV(dos, 0x83), findTLV(dos, 0x84)
	if d80 == nil || d83 == nil || len(d83.Value) != 1 {
		return status(SWWrongData)
	}
	oid, err := OIDString(d80.Value)
	if err != nil {
		return status(SWWrongData)
	}
	var candidates []PaceSpec
	for _, p := range c.cfg.Pace {
		if p.OID == oid {
			candidates = append(candidates, p)
		}
	}
	if len(candidates) == 0 {
		return status(SWWrongData)
	}
	var spec *PaceSpec
	if d84 != nil {
		if len(d84.Value) != 1 {
			return status(SWWrongData)
		}
		for i := range candidates {
			if candidates[i].ParamID == int(d84.Value[0]) {
				spec = &candidates[i]
			}
		}
		if spec == nil {
			return status(SWWrongData)
		}
	} else {
		// the reference is only needed when the domain parameters are ambiguous
		if len(candidates) != 1 {
			return status(SWWrongData)
		}
		spec = &candidates[0]
	}
	pwd := d83.Value[0]
	switch pwd {
	case passwordRefMRZ:
		if c.cfg.MRZInfo == "" {
			return status(SWRefDataNotFound)
		}
	case passwordRefCAN:
		if c.cfg.CAN == "" {
			return status(SWRefDataNotFound)
		}
	default:
		return status(SWRefDataNotFound)
	}
	alg, bits, cam, _ := paceProtocol(oid)
	curve, _ := CurveByParamID(spec.ParamID)
	c.pace = &paceState{oid: oid, oidDER: clone(d80.Value), cam: cam, alg: alg, keyBits: bits, curve: curve, paramID: spec.ParamID, pwdRef: pwd}
	return status(SWOK)
}

func (c *Chip) paceAbort(swv uint16) result {
	c.pace = nil
	c.truth.PaceFailures++
	return status(swv)
}

// doGeneralAuthenticate serves the PACE command chain and the CA (MSE:Set AT) variant.
func (c *Chip) doGeneralAuthenticate(cmd *Command, chaining bool) result {
	if cmd.P1 != 0 || cmd.P2 != 0 {
		return status(SWIncorrectP1P2)
	}
	if c.pace == nil {
		if c.caPending != nil {
			if chaining {
				c.caPending = nil
				return status(SWChainingUnsupported)
			}
			return c.caGeneralAuthenticate(cmd)
		}
		return status(SWConditionsOfUse)
	}
	p := c.pace
	dos, err := ParseTLVs(cmd.Data)
	if err != nil || len(dos) != 1 || dos[0].Tag != 0x7C {
		return c.paceAbort(SWWrongData)
	}
	inner, err := ParseTLVs(dos[0].Value)
	if err != nil {
		return c.paceAbort(SWWrongData)
	}
	// all but the last command of the chain carry the chaining bit
	if (p.step < 3) != chaining {
		return c.paceAbort(SWConditionsOfUse)
	}
	switch p.step {
	case 0:
		if len(inner) != 0 {
			return c.paceAbort(SWWrongData)
		}
		c.truth.PaceAttempts++
		n := c.cfg.PaceNonceLen
		if n == 0 {
			n = 16
			if p.keyBits > 128 {
				n = 32
			}
		}
		if n%blockSizeOf(p.alg) != 0 {
			return c.paceAbort(SWUnknown)
		}
		p.nonce = c.randBytes(n)
		kpi, err := PacePasswordKey(int(p.pwdRef), c.cfg.MRZInfo, c.cfg.CAN, p.alg, p.keyBits)
		if err != nil {
			return c.paceAbort(SWUnknown)
		}
		blk, err := newBlock(p.alg, kpi)
		if err != nil {
			return c.paceAbort(SWUnknown)
		}
		z, _ := cbcEncrypt(blk, make([]byte, blk.BlockSize()), p.nonce)
		p.step = 1
		return result{data: EncodeTLV(0x7C, EncodeTLV(0x80, z)), sw: SWOK}
	case 1:
		if len(inner) != 1 || inner[0].Tag != 0x81 {
			return c.paceAbort(SWWrongData)
		}
		x, y, err := p.curve.DecodePoint(inner[0].Value)
		if err != nil {
			return c.paceAbort(SWWrongData)
		}
		p.tMapIFD = clone(inner[0].Value)
		p.skMap = c.scalar("pace-map", p.curve, x, y)
		p.pkMapX, p.pkMapY = p.curve.MulBase(p.skMap)
		if p.pkMapX.Cmp(x) == 0 && p.pkMapY.Cmp(y) == 0 {
			return c.paceAbort(SWAuthFailed)
		}
		// generic mapping: G' = s·G + H, H = SKmap·PKmap,IFD
		hx, hy := p.curve.Mul(x, y, p.skMap)
		sx, sy := p.curve.MulBase(new(big.Int).SetBytes(p.nonce))
		gx, gy := p.curve.Add(sx, sy, hx, hy)
		if gx.Sign() == 0 && gy.Sign() == 0 {
			return c.paceAbort(SWAuthFailed)
		}
		p.mapped = p.curve.WithGenerator(gx, gy)
		p.step = 2
		return result{data: EncodeTLV(0x7C, EncodeTLV(0x82, p.curve.EncodePoint(p.pkMapX, p.pkMapY))), sw: SWOK}
	case 2:
		if len(inner) != 1 || inner[0].Tag != 0x83 {
			return c.paceAbort(SWWrongData)
		}
		x, y, err := p.curve.DecodePoint(inner[0].Value)
		if err != nil {
			return c.paceAbort(SWWrongData)
		}
		sk := c.scalar("pace-ka", p.mapped, x, y)
		p.pkICX, p.pkICY = p.mapped.MulBase(sk)
		if p.pkICX.Cmp(x) == 0 && p.pkICY.Cmp(y) == 0 {
			// 9303-11 §4.4.1 step 3d
			return c.paceAbort(SWAuthFailed)
		}
		kx, ky := p.curve.Mul(x, y, sk)
		if kx.Sign() == 0 && ky.Sign() == 0 {
			return c.paceAbort(SWAuthFailed)
		}
		p.pkIFDX, p.pkIFDY = x, y
		p.shared = p.curve.FE2OS(kx)
		c.truth.PaceSharedSecret = clone(p.shared)
		p.step = 3
		return result{data: EncodeTLV(0x7C, EncodeTLV(0x84, p.curve.EncodePoint(p.pkICX, p.pkICY))), sw: SWOK}
	case 3:
		if len(inner) != 1 || inner[0].Tag != 0x85 {
			return c.paceAbort(SWWrongData)
		}
		ksEnc, err1 := KDF(p.shared, kdfEnc, p.alg, p.keyBits)
		ksMac, err2 := KDF(p.shared, kdfMac, p.alg, p.keyBits)
		if err1 != nil || err2 != nil {
			return c.paceAbort(SWUnknown)
		}
		// T_IFD = MAC(KS_mac, PK_DH,IC), T_IC = MAC(KS_mac, PK_DH,IFD) over the public key
		// data object 7F49 { 06 protocol, 86 point }
		want, _ := authMAC(p.alg, ksMac, pacePublicKeyDO(p.oidDER, p.curve.EncodePoint(p.pkICX, p.pkICY)))
		if !ctEqual(want, inner[0].Value) {
			return c.paceAbort(SWAuthFailed)
		}
		tIC, _ := authMAC(p.alg, ksMac, pacePublicKeyDO(p.oidDER, p.curve.EncodePoint(p.pkIFDX, p.pkIFDY)))
		resp := EncodeTLV(0x86, tIC)
		camGenuine := false
		if p.cam {
			aic, genuine, err := c.camData(p, ksEnc)
			if err != nil {
				return c.paceAbort(SWUnknown)
			}
			camGenuine = genuine
			resp = append(resp, EncodeTLV(0x8A, aic)...)
		}
		c.pace = nil
		oid, paramID, pwd, cam := p.oid, p.paramID, int(p.pwdRef), p.cam
		alg := p.alg
		return result{data: EncodeTLV(0x7C, resp), sw: SWOK, after: func() {
			sess, err := newSMSession(alg, ksEnc, ksMac, nil, "PACE")
			if err != nil {
				panic(err)
			}
			c.setSM(sess)
			c.access = true
			c.paceDone = true
			c.truth.PaceCompleted = true
			c.truth.PaceOID, c.truth.PaceParamID, c.truth.PacePasswordRef = oid, paramID, pwd
			c.truth.PaceCamCompleted = cam && camGenuine
		}}
	}
	return c.paceAbort(SWConditionsOfUse)
}

// pacePublicKeyDO is the public key data object of 9303-11 §9.4 for ephemeral public keys:
// only the object identifier and the public point.
func pacePublicKeyDO(oidContent, point []byte) []byte {
	return EncodeTLV(0x7F49, EncodeTLV(0x06, oidContent), EncodeTLV(0x86, point))
}

// camData computes the encrypted chip authentication data of PACE-CAM (9303-11 §4.4.3.5):
// CA_IC = SK_IC^-1 · SK_Map,IC mod n, A_IC = E(KS_enc, CA_IC) with AES-CBC,
// IV = E(KS_enc, -1) (all bits one), CA_IC as octet string of the order's length, padded with
// method 2.
func (c *Chip) camData(p *paceState, ksEnc []byte) (aic []byte, genuine bool, err error) {
	var sk *big.Int
	genuine = true
	key := c.camKey
	if key == nil {
		for _, k := range c.caKeys {
			if k.curve.ParamID == p.paramID {
				key = k
				break
			}
		}
	}
	if key != nil && key.curve.ParamID != p.paramID {
		key = nil
	}
	if c.cfg.Personality.CAMNoKey || key == nil {
		genuine = false
		sk, err = p.curve.RandomScalar(c.rnd)
		if err != nil {
			return nil, false, err
		}
	} else {
		sk = key.priv
	}
	inv := new(big.Int).ModInverse(sk, p.curve.N)
	if inv == nil {
		return nil, false, fmt.Errorf("chipsim: CAM static key not invertible")
	}
	ca := new(big.Int).Mul(inv, p.skMap)
	ca.Mod(ca, p.curve.N)
	caBytes := make([]byte, p.curve.OrderLen())
	ca.FillBytes(caBytes)
	blk, err := newBlock(p.alg, ksEnc)
	if err != nil {
		return nil, false, err
	}
	iv := make([]byte, 16)
	ones := make([]byte, 16)
	for i := range ones {
		ones[i] = 0xFF
	}
	blk.Encrypt(iv, ones)
	padded := Pad2(caBytes, 16)
	switch c.cfg.Personality.CAMPadding {
	case "marker-junk":
		for i := len(caBytes) + 1; i < len(padded); i++ {
			padded[i] = byte(0x11 + i%0x60) // never 00, never 80
		}
		if len(caBytes)+1 == len(padded) { // the marker is the last octet: a further block of junk
			padded = append(padded, bytes.Repeat([]byte{0x33}, 16)...)
		}
	case "marker-tail":
		if len(caBytes)+1 == len(padded) {
			padded = append(padded, make([]byte, 16)...)
		}
		padded[len(padded)-1] = 0x01
	}
	aic, err = cbcEncrypt(blk, iv, padded)
	return aic, genuine, err
}
