package chipsim

// Active Authentication, chip side (9303-11 §6.1): INTERNAL AUTHENTICATE with an 8-octet
// RND.IFD, answered with
//   - RSA: ISO/IEC 9796-2 digital signature scheme 1 with partial message recovery,
//     F = 6A || M1 || H(M1 || RND.IFD) || T, T = BC (SHA-1) or xx CC (34 SHA-256, 38 SHA-224,
//     36 SHA-384, 35 SHA-512), M1 chosen by the chip and filling the capacity, signature
//     F^d mod n as an octet string of the modulus length;
//   - ECDSA: plain r || s (TR-03111) over RND.IFD with the configured hash.

import (
	"crypto/sha1"
	"crypto/sha256"
	"crypto/sha512"
	"errors"
	"fmt"
	"io"
	"math/big"
)

type aaSigner struct {
	typ  string
	hash string
	// rsa
	n, d *big.Int
	// ecdsa
	curve *Curve
	priv  *big.Int
	der   bool
}

func hashBytes(name string, data []byte) ([]byte, error) {
	switch name {
	case "sha1":
		h := sha1.Sum(data)
		return h[:], nil
	case "sha224":
		h := sha256.Sum224(data)
		return h[:], nil
	case "sha256":
		h := sha256.Sum256(data)
		return h[:], nil
	case "sha384":
		h := sha512.Sum384(data)
		return h[:], nil
	case "sha512":
		h := sha512.Sum512(data)
		return h[:], nil
	}
	return nil, fmt.Errorf("chipsim: unknown hash %q", name)
}

// iso9796Trailer returns the trailer field for a hash (ISO/IEC 9796-2 / ISO/IEC 10118-3
// hash-function identifiers).
func iso9796Trailer(hash string) ([]byte, error) {
	switch hash {
	case "sha1":
		return []byte{0xBC}, nil
	case "sha224":
		return []byte{0x38, 0xCC}, nil
	case "sha256":
		return []byte{0x34, 0xCC}, nil
	case "sha384":
		return []byte{0x36, 0xCC}, nil
	case "sha512":
		return []byte{0x35, 0xCC}, nil
	}
	return nil, fmt.Errorf("chipsim: no ISO 9796-2 trailer for hash %q", hash)
}

func newAASigner(k *AAKey) (*aaSigner, error) {
	s := &aaSigner{typ: k.Type, hash: k.Hash}
	switch k.Type {
	case "rsa":
		s.n, s.d = new(big.Int).SetBytes(k.N), new(big.Int).SetBytes(k.D)
		if s.hash == "" {
			s.hash = "sha1"
		}
		if _, err := iso9796Trailer(s.hash); err != nil {
			return nil, err
		}
		if _, err := ISO9796Capacity(s.n.BitLen(), s.hash); err != nil {
			return nil, err
		}
		if s.d.Sign() == 0 {
			return nil, errors.New("chipsim: AA RSA key without private exponent")
		}
	case "ecdsa":
		c, err := CurveByParamID(k.ParamID)
		if err != nil {
			return nil, err
		}
		s.curve = c
		s.priv = new(big.Int).SetBytes(k.Priv)
		if s.priv.Sign() == 0 || s.priv.Cmp(c.N) >= 0 {
			return nil, errors.New("chipsim: AA ECDSA private key out of range")
		}
		if s.hash == "" {
			s.hash = "sha256"
		}
		if _, err := hashBytes(s.hash, nil); err != nil {
			return nil, err
		}
		switch k.SigFormat {
		case "", "plain":
		case "der":
			s.der = true
		default:
			return nil, fmt.Errorf("chipsim: unknown ECDSA signature format %q", k.SigFormat)
		}
	default:
		return nil, fmt.Errorf("chipsim: unknown AA key type %q", k.Type)
	}
	return s, nil
}

// ISO9796Capacity returns the number of octets of M1 for a modulus of modBits bits: the
// message representative F = 6A || M1 || H || T occupies the largest whole number of octets
// that is guaranteed to be smaller than the modulus, ⌊modBits/8⌋ (for modBits a multiple of 8
// this is the modulus length and M1 has c-4 bits in the notation of 9303-11 §6.1.2.2 /
// appendix F, c = k - Lh - 8t - 4).
func ISO9796Capacity(modBits int, hash string) (int, error) {
	t, err := iso9796Trailer(hash)
	if err != nil {
		return 0, err
	}
	h, _ := hashBytes(hash, nil)
	m1 := modBits/8 - 1 - len(h) - len(t)
	if m1 < 1 {
		return 0, fmt.Errorf("chipsim: RSA modulus of %d bits too small for ISO 9796-2 with %s", modBits, hash)
	}
	return m1, nil
}

// ISO9796Sign produces the ISO/IEC 9796-2 scheme 1 signature with partial recovery over
// M = M1 || m2 with the RSA private key (n, d). M1 must have exactly ISO9796Capacity octets.
// The result has the length of the modulus in octets.
func ISO9796Sign(n, d *big.Int, hash string, m1, m2 []byte) ([]byte, error) {
	want, err := ISO9796Capacity(n.BitLen(), hash)
	if err != nil {
		return nil, err
	}
	if len(m1) != want {
		return nil, fmt.Errorf("chipsim: M1 must be %d octets, got %d", want, len(m1))
	}
	trailer, _ := iso9796Trailer(hash)
	h, _ := hashBytes(hash, append(append([]byte{}, m1...), m2...))
	f := []byte{0x6A}
	f = append(f, m1...)
	f = append(f, h...)
	f = append(f, trailer...)
	fi := new(big.Int).SetBytes(f)
	if fi.Cmp(n) >= 0 {
		return nil, errors.New("chipsim: message representative not smaller than modulus")
	}
	sig := new(big.Int).Exp(fi, d, n)
	out := make([]byte, (n.BitLen()+7)/8)
	sig.FillBytes(out)
	return out, nil
}

// ECDSASign signs digest e = H(msg) with the private scalar d on the curve (own ECDSA per
// TR-03111 §4.2.1) and returns r and s. k comes from pick.
func ECDSASign(curve *Curve, d *big.Int, digest []byte, pick func() *big.Int) (r, s *big.Int, err error) {
	nBits := curve.N.BitLen()
	e := new(big.Int).SetBytes(digest)
	if len(digest)*8 > nBits {
		e.Rsh(e, uint(len(digest)*8-nBits))
	}
	for i := 0; i < 64; i++ {
		k := pick()
		if k == nil || k.Sign() <= 0 || k.Cmp(curve.N) >= 0 {
			continue
		}
		x, _ := curve.MulBase(k)
		r = new(big.Int).Mod(x, curve.N)
		if r.Sign() == 0 {
			continue
		}
		s = new(big.Int).Mul(d, r)
		s.Add(s, e)
		s.Mul(s, new(big.Int).ModInverse(k, curve.N))
		s.Mod(s, curve.N)
		if s.Sign() == 0 {
			continue
		}
		return r, s, nil
	}
	return nil, nil, errors.New("chipsim: ECDSA: no usable k")
}

func (c *Chip) doInternalAuthenticate(cmd *Command) result {
	if cmd.P1 != 0 || cmd.P2 != 0 {
		return status(SWIncorrectP1P2)
	}
	if c.aa == nil {
		return status(SWINSNotSupported)
	}
	if c.cfg.RequireAccessControl && !(c.access && c.sm != nil) {
		return status(SWSecurityStatus)
	}
	if len(cmd.Data) != 8 {
		return status(SWWrongLength)
	}
	signer := c.aa
	genuine := true
	if c.cfg.Personality.AANoKey {
		genuine = false
		imp, err := c.impostorAAKey()
		if err != nil {
			return status(SWUnknown)
		}
		signer = imp
	}
	var sig []byte
	switch signer.typ {
	case "rsa":
		m1len, err := ISO9796Capacity(signer.n.BitLen(), signer.hash)
		if err != nil {
			return status(SWUnknown)
		}
		sig, err = ISO9796Sign(signer.n, signer.d, signer.hash, c.randBytes(m1len), cmd.Data)
		if err != nil {
			return status(SWUnknown)
		}
	case "ecdsa":
		digest, _ := hashBytes(signer.hash, cmd.Data)
		r, s, err := ECDSASign(signer.curve, signer.priv, digest, func() *big.Int {
			return c.scalar("aa-ecdsa-k", signer.curve, nil, nil)
		})
		if err != nil {
			return status(SWUnknown)
		}
		if signer.der {
			sig = derSeq(derInt(r), derInt(s))
		} else {
			l := signer.curve.OrderLen()
			sig = make([]byte, 2*l)
			r.FillBytes(sig[:l])
			s.FillBytes(sig[l:])
		}
	}
	if cmd.HasLe && len(sig) > cmd.Ne {
		return status(SWWrongLength)
	}
	c.truth.AaSigned++
	c.truth.AaChallenges = append(c.truth.AaChallenges, clone(cmd.Data))
	c.truth.AaGenuine = genuine
	return result{data: sig, sw: SWOK}
}

// impostorAAKey makes a fresh key of the same type and size as the configured one.
func (c *Chip) impostorAAKey() (*aaSigner, error) {
	if c.impAA != nil {
		return c.impAA, nil
	}
	s := *c.aa
	switch s.typ {
	case "rsa":
		bits := c.aa.n.BitLen()
		n, d, err := generateRSA(c.rnd, bits)
		if err != nil {
			return nil, err
		}
		s.n, s.d = n, d
	case "ecdsa":
		k, err := s.curve.RandomScalar(c.rnd)
		if err != nil {
			return nil, err
		}
		s.priv = k
	}
	c.impAA = &s
	return &s, nil
}

// generateRSA makes an RSA key (n, d) with a modulus of exactly bits bits and e = 65537.
// crypto/rsa.GenerateKey insists on its own randomness handling and on sizes it likes; the
// simulator needs arbitrary bit lengths and a caller-supplied random source.
func generateRSA(rnd io.Reader, bits int) (n, d *big.Int, err error) {
	n, d, _, err = GenerateRSAKey(rnd, bits)
	return
}

// GenerateRSAKey generates an RSA key with a modulus of exactly bits bits (any bits >= 512,
// not necessarily a multiple of 8) and public exponent 65537, drawing primes from rnd.
func GenerateRSAKey(rnd io.Reader, bits int) (n, d, e *big.Int, err error) {
	if bits < 512 {
		return nil, nil, nil, errors.New("chipsim: RSA modulus too small")
	}
	e = big.NewInt(65537)
	one := big.NewInt(1)
	pBits := (bits + 1) / 2
	qBits := bits - pBits
	for tries := 0; tries < 1000; tries++ {
		p, err := randPrime(rnd, pBits)
		if err != nil {
			return nil, nil, nil, err
		}
		q, err := randPrime(rnd, qBits)
		if err != nil {
			return nil, nil, nil, err
		}
		if p.Cmp(q) == 0 {
			continue
		}
		n = new(big.Int).Mul(p, q)
		if n.BitLen() != bits {
			continue
		}
		phi := new(big.Int).Mul(new(big.Int).Sub(p, one), new(big.Int).Sub(q, one))
		d = new(big.Int).ModInverse(e, phi)
		if d == nil {
			continue
		}
		return n, d, e, nil
	}
	return nil, nil, nil, errors.New("chipsim: RSA key generation failed")
}

// randPrime returns a prime of exactly bits bits with the two top bits set.
func randPrime(rnd io.Reader, bits int) (*big.Int, error) {
	buf := make([]byte, (bits+7)/8)
	for {
		if _, err := io.ReadFull(rnd, buf); err != nil {
			return nil, err
		}
		p := new(big.Int).SetBytes(buf)
		// trim to bits
		if excess := len(buf)*8 - bits; excess > 0 {
			p.Rsh(p, uint(excess))
		}
		p.SetBit(p, bits-1, 1)
		p.SetBit(p, bits-2, 1)
		p.SetBit(p, 0, 1)
		// walk to the next prime candidates cheaply
		for i := 0; i < 4096; i++ {
			if p.BitLen() != bits {
				break
			}
			if p.ProbablyPrime(20) {
				return p, nil
			}
			p.Add(p, big.NewInt(2))
		}
	}
}
