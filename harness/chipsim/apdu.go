package chipsim

// ISO/IEC 7816-4 command APDU parser (all seven cases) and a small BER-TLV reader/writer.

import (
	"errors"
	"fmt"
)

// Status words used by the chip.
const (
	SWOK                  uint16 = 0x9000
	SWEOFWarning          uint16 = 0x6282 // end of file reached before reading Ne bytes
	SWAuthFailed          uint16 = 0x6300 // authentication failed
	SWWrongLength         uint16 = 0x6700
	SWLogicalChannel      uint16 = 0x6881
	SWSMNotSupported      uint16 = 0x6882
	SWChainingUnsupported uint16 = 0x6884
	SWSecurityStatus      uint16 = 0x6982
	SWConditionsOfUse     uint16 = 0x6985
	SWNoCurrentEF         uint16 = 0x6986
	SWSMMissingDO         uint16 = 0x6987
	SWSMIncorrectDO       uint16 = 0x6988
	SWWrongData           uint16 = 0x6A80
	SWFuncNotSupported    uint16 = 0x6A81
	SWFileNotFound        uint16 = 0x6A82
	SWIncorrectP1P2       uint16 = 0x6A86
	SWRefDataNotFound     uint16 = 0x6A88
	SWWrongOffset         uint16 = 0x6B00
	SWINSNotSupported     uint16 = 0x6D00
	SWCLANotSupported     uint16 = 0x6E00
	SWUnknown             uint16 = 0x6F00
)

// Command is a parsed command APDU.
type Command struct {
	CLA, INS, P1, P2 byte
	Data             []byte // Nc octets, nil if no command data field
	Ne               int    // maximum response length; 0 if no Le field
	HasLe            bool
	Extended         bool // extended length fields were used
	Case             string
}

// ParseCommand decodes the bytes of a command APDU per ISO/IEC 7816-4 §5.1:
//
//	case 1   CLA INS P1 P2
//	case 2S  CLA INS P1 P2 Le                 (Le 00 = 256)
//	case 3S  CLA INS P1 P2 Lc data            (Lc 01..FF)
//	case 4S  CLA INS P1 P2 Lc data Le
//	case 2E  CLA INS P1 P2 00 Le1 Le2         (0000 = 65536)
//	case 3E  CLA INS P1 P2 00 Lc1 Lc2 data    (Lc 0001..FFFF)
//	case 4E  CLA INS P1 P2 00 Lc1 Lc2 data Le1 Le2
//
// Anything else is an error (the chip answers 6700).
func ParseCommand(b []byte) (*Command, error) {
	if len(b) < 4 {
		return nil, errors.New("chipsim: command APDU shorter than 4 octets")
	}
	c := &Command{CLA: b[0], INS: b[1], P1: b[2], P2: b[3]}
	body := b[4:]
	switch {
	case len(body) == 0:
		c.Case = "1"
		return c, nil
	case len(body) == 1:
		c.Case = "2S"
		c.HasLe = true
		c.Ne = int(body[0])
		if c.Ne == 0 {
			c.Ne = 256
		}
		return c, nil
	}
	if body[0] != 0 {
		lc := int(body[0])
		switch len(body) {
		case 1 + lc:
			c.Case = "3S"
			c.Data = clone(body[1:])
		case 2 + lc:
			c.Case = "4S"
			c.Data = clone(body[1 : 1+lc])
			c.HasLe = true
			c.Ne = int(body[1+lc])
			if c.Ne == 0 {
				c.Ne = 256
			}
		default:
			return nil, fmt.Errorf("chipsim: short APDU: Lc=%d inconsistent with %d body octets", lc, len(body))
		}
		return c, nil
	}
	// extended
	c.Extended = true
	if len(body) < 3 {
		return nil, errors.New("chipsim: extended APDU: truncated length field")
	}
	v := int(body[1])<<8 | int(body[2])
	if len(body) == 3 {
		c.Case = "2E"
		c.HasLe = true
		c.Ne = v
		if v == 0 {
			c.Ne = 65536
		}
		return c, nil
	}
	if v == 0 {
		return nil, errors.New("chipsim: extended APDU: Lc = 0000")
	}
	switch len(body) {
	case 3 + v:
		c.Case = "3E"
		c.Data = clone(body[3:])
	case 5 + v:
		c.Case = "4E"
		c.Data = clone(body[3 : 3+v])
		c.HasLe = true
		c.Ne = int(body[3+v])<<8 | int(body[4+v])
		if c.Ne == 0 {
			c.Ne = 65536
		}
	default:
		return nil, fmt.Errorf("chipsim: extended APDU: Lc=%d inconsistent with %d body octets", v, len(body))
	}
	return c, nil
}

func sw(data []byte, status uint16) []byte {
	out := make([]byte, len(data)+2)
	copy(out, data)
	out[len(data)] = byte(status >> 8)
	out[len(data)+1] = byte(status)
	return out
}

// ---------------------------------------------------------------------------------------------
// BER-TLV

// TLV is one BER-TLV data object. Raw covers tag, length and value octets as received.
type TLV struct {
	Tag   uint32
	Value []byte
	Raw   []byte
}

// ParseTLVs splits b into a sequence of BER-TLV data objects (definite lengths only, tags of
// up to 3 octets, lengths of up to 3 length octets). Inter-element 00 padding is not allowed.
func ParseTLVs(b []byte) ([]TLV, error) {
	var out []TLV
	for len(b) > 0 {
		start := b
		if len(b) < 2 {
			return nil, errors.New("chipsim: TLV truncated")
		}
		tag := uint32(b[0])
		i := 1
		if b[0]&0x1F == 0x1F {
			for {
				if i >= len(b) || i > 2 {
					return nil, errors.New("chipsim: TLV tag truncated or too long")
				}
				tag = tag<<8 | uint32(b[i])
				i++
				if b[i-1]&0x80 == 0 {
					break
				}
			}
		}
		if i >= len(b) {
			return nil, errors.New("chipsim: TLV length missing")
		}
		l := int(b[i])
		i++
		if l&0x80 != 0 {
			n := l & 0x7F
			if n == 0 || n > 3 || i+n > len(b) {
				return nil, errors.New("chipsim: TLV length form not supported")
			}
			l = 0
			for k := 0; k < n; k++ {
				l = l<<8 | int(b[i+k])
			}
			i += n
		}
		if i+l > len(b) {
			return nil, errors.New("chipsim: TLV value truncated")
		}
		out = append(out, TLV{Tag: tag, Value: b[i : i+l], Raw: start[:i+l]})
		b = b[i+l:]
	}
	return out, nil
}

func encodeLen(n int) []byte {
	switch {
	case n < 0x80:
		return []byte{byte(n)}
	case n < 0x100:
		return []byte{0x81, byte(n)}
	case n < 0x10000:
		return []byte{0x82, byte(n >> 8), byte(n)}
	default:
		return []byte{0x83, byte(n >> 16), byte(n >> 8), byte(n)}
	}
}

func encodeTag(tag uint32) []byte {
	switch {
	case tag <= 0xFF:
		return []byte{byte(tag)}
	case tag <= 0xFFFF:
		return []byte{byte(tag >> 8), byte(tag)}
	default:
		return []byte{byte(tag >> 16), byte(tag >> 8), byte(tag)}
	}
}

// EncodeTLV builds tag || length || value with the shortest definite length form (DER).
func EncodeTLV(tag uint32, value ...[]byte) []byte {
	n := 0
	for _, v := range value {
		n += len(v)
	}
	out := append(encodeTag(tag), encodeLen(n)...)
	for _, v := range value {
		out = append(out, v...)
	}
	return out
}

func findTLV(list []TLV, tag uint32) *TLV {
	for i := range list {
		if list[i].Tag == tag {
			return &list[i]
		}
	}
	return nil
}
