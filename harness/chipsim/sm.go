package chipsim

// Chip side of secure messaging, 9303-11 §9.8 / ISO/IEC 7816-4 §10.
//
//   command:  [DO'87' (even INS) | DO'85' (odd INS)] [DO'97'] DO'8E'
//   response: [DO'87' | DO'85'] DO'99' DO'8E'
//
// 3DES: CBC with IV 0, retail MAC, 8-octet SSC. AES: CBC with IV = E(KSenc, SSC), CMAC
// truncated to 8 octets, 16-octet SSC. The SSC is incremented before a command is verified and
// again before the response is built. MAC input: SSC || pad(CLA INS P1 P2) || DOs (padded), for
// responses SSC || DOs (padded).

import (
	"crypto/cipher"
	"errors"
)

type smSession struct {
	alg    CipherAlg
	ksEnc  []byte
	ksMac  []byte
	ssc    []byte
	origin string
	enc    cipher.Block
	do85PI bool // DO'85' carries the padding-content indicator (Transport.DO85PaddingIndicator)
}

func newSMSession(alg CipherAlg, ksEnc, ksMac, ssc []byte, origin string) (*smSession, error) {
	enc, err := newBlock(alg, ksEnc)
	if err != nil {
		return nil, err
	}
	if _, err := newBlock(alg, ksMac); err != nil {
		return nil, err
	}
	s := &smSession{alg: alg, ksEnc: clone(ksEnc), ksMac: clone(ksMac), origin: origin, enc: enc}
	s.ssc = make([]byte, blockSizeOf(alg))
	if ssc != nil {
		if len(ssc) != len(s.ssc) {
			panic("chipsim: SSC length does not match the cipher")
		}
		copy(s.ssc, ssc)
	}
	return s, nil
}

func (s *smSession) incSSC() {
	for i := len(s.ssc) - 1; i >= 0; i-- {
		s.ssc[i]++
		if s.ssc[i] != 0 {
			return
		}
	}
}

func (s *smSession) iv() []byte {
	iv := make([]byte, s.enc.BlockSize())
	if s.alg == CipherAES {
		s.enc.Encrypt(iv, s.ssc)
	}
	return iv
}

// unwrap verifies and decrypts a secured command. On failure plain is nil and swv/reason say
// why (the caller deletes the session).
func (s *smSession) unwrap(cmd *Command) (plain *Command, swv uint16, reason string) {
	s.incSSC()
	dos, err := ParseTLVs(cmd.Data)
	if err != nil {
		return nil, SWSMIncorrectDO, "SM data field is not BER-TLV: " + err.Error()
	}
	var do8587, do97, do8e *TLV
	stage := 0 // 0: nothing yet, 1: after 87/85, 2: after 97, 3: after 8E
	for i := range dos {
		d := &dos[i]
		switch d.Tag {
		case 0x87, 0x85:
			if stage >= 1 {
				return nil, SWSMIncorrectDO, "DO'87'/'85' repeated or out of order"
			}
			if (d.Tag == 0x87) != (cmd.INS%2 == 0) {
				return nil, SWSMIncorrectDO, "DO'87' with odd INS or DO'85' with even INS"
			}
			do8587, stage = d, 1
		case 0x97:
			if stage >= 2 {
				return nil, SWSMIncorrectDO, "DO'97' repeated or out of order"
			}
			do97, stage = d, 2
		case 0x8E:
			if stage >= 3 {
				return nil, SWSMIncorrectDO, "DO'8E' repeated"
			}
			do8e, stage = d, 3
		default:
			return nil, SWSMIncorrectDO, "unexpected SM data object"
		}
	}
	if do8e == nil {
		return nil, SWSMMissingDO, "DO'8E' missing"
	}
	if len(do8e.Value) != 8 {
		return nil, SWSMIncorrectDO, "DO'8E' is not 8 octets"
	}
	bs := blockSizeOf(s.alg)
	macIn := append([]byte{}, s.ssc...)
	macIn = append(macIn, Pad2([]byte{cmd.CLA, cmd.INS, cmd.P1, cmd.P2}, bs)...)
	if do8587 != nil {
		macIn = append(macIn, do8587.Raw...)
	}
	if do97 != nil {
		macIn = append(macIn, do97.Raw...)
	}
	mac, err := smMAC(s.alg, s.ksMac, macIn)
	if err != nil {
		return nil, SWSMIncorrectDO, err.Error()
	}
	if !ctEqual(mac, do8e.Value) {
		return nil, SWSMIncorrectDO, "MAC verification failed"
	}
	plain = &Command{CLA: cmd.CLA &^ 0x0C, INS: cmd.INS, P1: cmd.P1, P2: cmd.P2, Extended: cmd.Extended, Case: "SM"}
	if do8587 != nil {
		ct := do8587.Value
		if do8587.Tag == 0x87 || s.do85PI {
			// padding-content indicator 01: padded per ISO/IEC 7816-4 (= 9797-1 method 2)
			if len(ct) < 1 || ct[0] != 0x01 {
				return nil, SWSMIncorrectDO, "DO'87' padding indicator is not 01"
			}
			ct = ct[1:]
		}
		pt, err := cbcDecrypt(s.enc, s.iv(), ct)
		if err != nil {
			return nil, SWSMIncorrectDO, "DO'87'/'85' cryptogram length"
		}
		data, err := Unpad2(pt)
		if err != nil {
			return nil, SWSMIncorrectDO, "DO'87'/'85' padding"
		}
		plain.Data = data
	}
	if do97 != nil {
		plain.HasLe = true
		switch len(do97.Value) {
		case 0:
			// empty Le data object: maximum (7816-4 §10.4); 9303 recommends not to use it
			plain.Ne = 256
			if cmd.Extended {
				plain.Ne = 65536
			}
		case 1:
			plain.Ne = int(do97.Value[0])
			if plain.Ne == 0 {
				plain.Ne = 256
			}
		case 2:
			plain.Ne = int(do97.Value[0])<<8 | int(do97.Value[1])
			if plain.Ne == 0 {
				plain.Ne = 65536
			}
		default:
			return nil, SWSMIncorrectDO, "DO'97' longer than 2 octets"
		}
	}
	return plain, SWOK, ""
}

// protectedLen is the length of the response data field that wrap would produce for n octets
// of plain response data.
func (s *smSession) protectedLen(plain *Command, n int) int {
	total := 4 + 10 // DO'99' + DO'8E'
	if n > 0 {
		bs := blockSizeOf(s.alg)
		v := (n/bs + 1) * bs
		if plain.INS%2 == 0 || s.do85PI {
			v++
		}
		total += 1 + len(encodeLen(v)) + v
	}
	return total
}

// maxPlainFor returns the largest number of plain response octets whose protected form fits
// into limit octets.
func (s *smSession) maxPlainFor(plain *Command, limit int) int {
	bs := blockSizeOf(s.alg)
	best := 0
	// candidates are k*bs-1 (largest plain length with k cipher blocks)
	for k := 1; ; k++ {
		n := k*bs - 1
		if s.protectedLen(plain, n) > limit {
			break
		}
		best = n
	}
	return best
}

// wrap builds the protected response APDU.
func (s *smSession) wrap(plain *Command, data []byte, swv uint16) []byte {
	s.incSSC()
	var body []byte
	if len(data) > 0 {
		ct, err := cbcEncrypt(s.enc, s.iv(), Pad2(data, blockSizeOf(s.alg)))
		if err != nil {
			panic(err)
		}
		if plain.INS%2 == 0 {
			body = append(body, EncodeTLV(0x87, []byte{0x01}, ct)...)
		} else if s.do85PI {
			body = append(body, EncodeTLV(0x85, []byte{0x01}, ct)...)
		} else {
			body = append(body, EncodeTLV(0x85, ct)...)
		}
	}
	body = append(body, 0x99, 0x02, byte(swv>>8), byte(swv))
	macIn := append(append([]byte{}, s.ssc...), body...)
	mac, err := smMAC(s.alg, s.ksMac, macIn)
	if err != nil {
		panic(err)
	}
	body = append(body, EncodeTLV(0x8E, mac)...)
	return sw(body, swv)
}

// ProtectResponse builds the protected response APDU a chip holding (ksEnc, ksMac) would produce
// for (data, sw) with the send sequence counter already at ssc (the value used for the MAC and,
// with AES, the IV). oddINS selects DO'85' instead of DO'87'. Exported for the harness: responses
// "of another session" and expected values.
func ProtectResponse(cipher string, ksEnc, ksMac, ssc []byte, oddINS bool, data []byte, swv uint16) ([]byte, error) {
	s, err := newSMSession(CipherAlg(cipher), ksEnc, ksMac, nil, "EXTERNAL")
	if err != nil {
		return nil, err
	}
	if len(ssc) != len(s.ssc) {
		return nil, errors.New("chipsim: SSC length does not match the cipher")
	}
	// wrap increments before use: start one below
	copy(s.ssc, ssc)
	for i := len(s.ssc) - 1; i >= 0; i-- {
		s.ssc[i]--
		if s.ssc[i] != 0xFF {
			break
		}
	}
	ins := byte(0xB0)
	if oddINS {
		ins = 0xB1
	}
	return s.wrap(&Command{INS: ins}, data, swv), nil
}

// AuthenticateRaw returns dos || 8E 08 MAC || SW where the MAC is the session MAC over ssc || dos: whatever data
// objects a chip that HOLDS the session keys chooses to send, well-formed or not. Exported for the harness (a hostile
// but authenticated counterpart: property C12).
func AuthenticateRaw(cipher string, ksMac, ssc, dos []byte, swv uint16) ([]byte, error) {
	macIn := append(append([]byte{}, ssc...), dos...)
	mac, err := smMAC(CipherAlg(cipher), ksMac, macIn)
	if err != nil {
		return nil, err
	}
	out := append(append([]byte{}, dos...), EncodeTLV(0x8E, mac)...)
	return append(out, byte(swv>>8), byte(swv)), nil
}
