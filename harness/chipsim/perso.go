package chipsim

// Personalisation helpers: builders for the LDS files the protocols depend on, written from
// 9303-10 (LDS), 9303-11 §9.2 (SecurityInfos), BSI TR-03110-3 §A.1 and X9.62/RFC 3279/5480
// (SubjectPublicKeyInfo). EF.SOD and EF.CardSecurity (CMS) are produced elsewhere.

import (
	"fmt"
	"math/big"
)

// PaceInfoSpec describes one PACEInfo (and optionally a PACEDomainParameterInfo).
type PaceInfoSpec struct {
	OID         string // id-PACE-* protocol
	Version     int    // 0 means 2
	ParamID     int    // standardized domain parameter id
	NoParamID   bool   // omit the optional parameterId
	DomainParam bool   // additionally emit PACEDomainParameterInfo {id-PACE-ECDH-GM/CAM, standardizedDomainParameters id, parameterId}
}

// CAKeySpec describes one ChipAuthenticationInfo / ChipAuthenticationPublicKeyInfo pair.
type CAKeySpec struct {
	OID      string   // id-CA-ECDH-* for ChipAuthenticationInfo; "" = no ChipAuthenticationInfo
	Version  int      // 0 means 1
	KeyID    *int     // optional keyId, used in both infos
	InfoNoKeyID bool  // keyId only in the public key info (both are OPTIONAL and independent, 9303-11 §9.2.5/9.2.6)
	ParamID  int      // curve of the key
	X, Y     *big.Int // public point; if nil it is computed from Priv
	Priv     []byte   // optional, only used to compute the public point
	Params   string   // "explicit" (default, as real passports do), "named", "standardized" (AlgorithmIdentifier {standardizedDomainParameters, id}; for EF.CardSecurity / PACE-CAM)
	OmitKey  bool     // no ChipAuthenticationPublicKeyInfo
	Cofactor bool     // (explicit only) include the optional cofactor; default true
}

// PaceInfo encodes PACEInfo ::= SEQUENCE { protocol OID, version INTEGER, parameterId INTEGER OPTIONAL }.
func PaceInfo(s PaceInfoSpec) []byte {
	v := s.Version
	if v == 0 {
		v = 2
	}
	elems := [][]byte{derOID(s.OID), derSmallInt(v)}
	if !s.NoParamID {
		elems = append(elems, derSmallInt(s.ParamID))
	}
	return derSeq(elems...)
}

// PaceDomainParameterInfo encodes PACEDomainParameterInfo ::= SEQUENCE { protocol OID
// (id-PACE-ECDH-GM / -CAM / ...), domainParameter AlgorithmIdentifier, parameterId INTEGER
// OPTIONAL } with standardized domain parameters.
func PaceDomainParameterInfo(protocolPrefix string, stdParamID int, parameterID *int) []byte {
	elems := [][]byte{derOID(protocolPrefix), derSeq(derOID(OIDStdDomainParams), derSmallInt(stdParamID))}
	if parameterID != nil {
		elems = append(elems, derSmallInt(*parameterID))
	}
	return derSeq(elems...)
}

// BuildSecurityInfos wraps SecurityInfo elements into SecurityInfos ::= SET OF SecurityInfo.
// The elements are emitted in the order given (BER; chips in the field do not sort either).
func BuildSecurityInfos(infos ...[]byte) []byte { return derSet(infos...) }

// BuildCardAccess builds EF.CardAccess: SecurityInfos with the PACEInfos (9303-11 §9.2.11).
func BuildCardAccess(paceInfos []PaceInfoSpec, extra ...[]byte) []byte {
	var infos [][]byte
	for _, p := range paceInfos {
		infos = append(infos, PaceInfo(p))
		if p.DomainParam {
			prefix := oidPaceEcdhGmPrefix
			if _, _, cam, err := paceProtocol(p.OID); err == nil && cam {
				prefix = oidPaceEcdhCamPrefix
			}
			id := p.ParamID
			infos = append(infos, PaceDomainParameterInfo(prefix, p.ParamID, &id))
		}
	}
	infos = append(infos, extra...)
	return BuildSecurityInfos(infos...)
}

// BuildCardAccessExtraFirst is BuildCardAccess with the extra SecurityInfos written BEFORE the PACE infos.
func BuildCardAccessExtraFirst(paceInfos []PaceInfoSpec, extra ...[]byte) []byte {
	infos := append([][]byte{}, extra...)
	for _, p := range paceInfos {
		infos = append(infos, PaceInfo(p))
	}
	return BuildSecurityInfos(infos...)
}

// ChipAuthenticationInfo ::= SEQUENCE { protocol OID, version INTEGER, keyId INTEGER OPTIONAL }.
func ChipAuthenticationInfo(oid string, version int, keyID *int) []byte {
	if version == 0 {
		version = 1
	}
	elems := [][]byte{derOID(oid), derSmallInt(version)}
	if keyID != nil {
		elems = append(elems, derSmallInt(*keyID))
	}
	return derSeq(elems...)
}

// ChipAuthenticationPublicKeyInfo ::= SEQUENCE { protocol id-PK-ECDH, chipAuthenticationPublicKey
// SubjectPublicKeyInfo, keyId INTEGER OPTIONAL }.
func ChipAuthenticationPublicKeyInfo(spki []byte, keyID *int) []byte {
	elems := [][]byte{derOID(OIDPkEcdh), spki}
	if keyID != nil {
		elems = append(elems, derSmallInt(*keyID))
	}
	return derSeq(elems...)
}

// ActiveAuthenticationInfo ::= SEQUENCE { protocol id-icao-mrtd-security-aaProtocolObject,
// version INTEGER (1), signatureAlgorithm OID } (9303-11 §9.2.7; mandatory for ECDSA keys).
func ActiveAuthenticationInfo(signatureAlgorithmOID string) []byte {
	return derSeq(derOID(OIDAaProtocolObject), derSmallInt(1), derOID(signatureAlgorithmOID))
}

// EcdsaPlainOID returns the ecdsa-plain-signatures OID for a hash name.
func EcdsaPlainOID(hash string) string {
	switch hash {
	case "sha1":
		return OIDEcdsaPlainSHA1
	case "sha224":
		return OIDEcdsaPlainSHA224
	case "sha256":
		return OIDEcdsaPlainSHA256
	case "sha384":
		return OIDEcdsaPlainSHA384
	case "sha512":
		return OIDEcdsaPlainSHA512
	}
	return ""
}

// TerminalAuthenticationInfo ::= SEQUENCE { protocol id-TA, version INTEGER }.
func TerminalAuthenticationInfo(version int) []byte {
	return derSeq(derOID(OIDTerminalAuth), derSmallInt(version))
}

// CASecurityInfos returns the SecurityInfo elements for the CA keys (ChipAuthenticationInfo
// first, then the public key info, per key).
func CASecurityInfos(caKeys []CAKeySpec) ([][]byte, error) {
	var infos [][]byte
	for i, k := range caKeys {
		if k.OID != "" {
			infoID := k.KeyID
			if k.InfoNoKeyID {
				infoID = nil
			}
			infos = append(infos, ChipAuthenticationInfo(k.OID, k.Version, infoID))
		}
		if k.OmitKey {
			continue
		}
		curve, err := CurveByParamID(k.ParamID)
		if err != nil {
			return nil, fmt.Errorf("chipsim: caKeys[%d]: %w", i, err)
		}
		x, y := k.X, k.Y
		if x == nil || y == nil {
			if len(k.Priv) == 0 {
				return nil, fmt.Errorf("chipsim: caKeys[%d]: neither public point nor private key", i)
			}
			x, y = curve.MulBase(new(big.Int).SetBytes(k.Priv))
		}
		var spki []byte
		switch k.Params {
		case "", "explicit":
			spki = ECSubjectPublicKeyInfo(curve, x, y, ECExplicit)
		case "named":
			spki = ECSubjectPublicKeyInfo(curve, x, y, ECNamed)
		case "standardized":
			spki = ECSubjectPublicKeyInfo(curve, x, y, ECStandardized)
		default:
			return nil, fmt.Errorf("chipsim: caKeys[%d]: unknown Params %q", i, k.Params)
		}
		infos = append(infos, ChipAuthenticationPublicKeyInfo(spki, k.KeyID))
	}
	return infos, nil
}

// BuildDG14 builds EF.DG14: tag 6E wrapping SecurityInfos with the chip authentication infos
// and any extra SecurityInfo elements (ActiveAuthenticationInfo, TerminalAuthenticationInfo...).
func BuildDG14(caKeys []CAKeySpec, extra ...[]byte) ([]byte, error) {
	infos, err := CASecurityInfos(caKeys)
	if err != nil {
		return nil, err
	}
	infos = append(infos, extra...)
	return EncodeTLV(0x6E, BuildSecurityInfos(infos...)), nil
}

// BuildDG15 builds EF.DG15: tag 6F wrapping the SubjectPublicKeyInfo of the AA public key.
func BuildDG15(spki []byte) []byte { return EncodeTLV(0x6F, spki) }

// BuildDG1 builds EF.DG1: 61 { 5F1F MRZ } (9303-10 §4.7.1).
func BuildDG1(mrz string) []byte { return EncodeTLV(0x61, EncodeTLV(0x5F1F, []byte(mrz))) }

// BuildCOM builds EF.COM: 60 { 5F01 LDS version (4 chars, e.g. "0107"), 5F36 Unicode version
// (6 chars, e.g. "040000"), 5C tag list } (9303-10 §4.6.1).
func BuildCOM(ldsVersion, unicodeVersion string, tags []byte) []byte {
	return EncodeTLV(0x60, EncodeTLV(0x5F01, []byte(ldsVersion)), EncodeTLV(0x5F36, []byte(unicodeVersion)), EncodeTLV(0x5C, tags))
}

// BuildDIR builds EF.DIR with one application template per AID: 61 { 4F aid }.
func BuildDIR(aids ...[]byte) []byte {
	var out []byte
	for _, a := range aids {
		out = append(out, EncodeTLV(0x61, EncodeTLV(0x4F, a))...)
	}
	return out
}

// ECParamsForm selects how the curve is identified inside a SubjectPublicKeyInfo.
type ECParamsForm int

const (
	ECExplicit     ECParamsForm = iota // id-ecPublicKey with SpecifiedECDomain (version 1, prime field, a, b, base, order, cofactor)
	ECNamed                            // id-ecPublicKey with namedCurve OID
	ECStandardized                     // standardizedDomainParameters (0.4.0.127.0.7.1.2) with INTEGER id (TR-03110-3 §A.2.1.1)
)

// ECSubjectPublicKeyInfo encodes an EC public key.
func ECSubjectPublicKeyInfo(curve *Curve, x, y *big.Int, form ECParamsForm) []byte {
	point := curve.EncodePoint(x, y)
	var alg []byte
	switch form {
	case ECNamed:
		alg = derSeq(derOID(OIDEcPublicKey), derOID(curve.OID))
	case ECStandardized:
		alg = derSeq(derOID(OIDStdDomainParams), derSmallInt(curve.ParamID))
	default:
		alg = derSeq(derOID(OIDEcPublicKey), ECExplicitParameters(curve))
	}
	return derSeq(alg, derBitString(point))
}

// ECExplicitParameters encodes ECParameters / SpecifiedECDomain (X9.62, RFC 3279 §2.3.5):
//
//	SEQUENCE { version 1, fieldID { prime-field, p }, curve { a, b }, base, order, cofactor }
//
// with a, b and the base point as fixed-length field elements (base uncompressed).
func ECExplicitParameters(curve *Curve) []byte {
	return derSeq(
		derSmallInt(1),
		derSeq(derOID(OIDPrimeField), derInt(curve.P)),
		derSeq(derOctets(curve.FE2OS(curve.A)), derOctets(curve.FE2OS(curve.B))),
		derOctets(curve.EncodePoint(curve.Gx, curve.Gy)),
		derInt(curve.N),
		derSmallInt(curve.H),
	)
}

// RSASubjectPublicKeyInfo encodes an RSA public key: rsaEncryption, NULL, RSAPublicKey.
func RSASubjectPublicKeyInfo(n, e *big.Int) []byte {
	return derSeq(derSeq(derOID(OIDRsaEncryption), derNull()), derBitString(derSeq(derInt(n), derInt(e))))
}

// AASubjectPublicKeyInfo returns the SubjectPublicKeyInfo matching an AA private key
// (explicit parameters for EC keys unless named is set).
func AASubjectPublicKeyInfo(k *AAKey, named bool) ([]byte, error) {
	switch k.Type {
	case "rsa":
		return RSASubjectPublicKeyInfo(new(big.Int).SetBytes(k.N), new(big.Int).SetBytes(k.E)), nil
	case "ecdsa":
		curve, err := CurveByParamID(k.ParamID)
		if err != nil {
			return nil, err
		}
		x, y := curve.MulBase(new(big.Int).SetBytes(k.Priv))
		form := ECExplicit
		if named {
			form = ECNamed
		}
		return ECSubjectPublicKeyInfo(curve, x, y, form), nil
	}
	return nil, fmt.Errorf("chipsim: unknown AA key type %q", k.Type)
}

// MRZCheckDigit computes the 7-3-1 check digit of 9303-3 §4.9 over s ('<' = 0, A..Z = 10..35).
func MRZCheckDigit(s string) byte {
	w := [3]int{7, 3, 1}
	sum := 0
	for i := 0; i < len(s); i++ {
		ch := s[i]
		v := 0
		switch {
		case ch >= '0' && ch <= '9':
			v = int(ch - '0')
		case ch >= 'A' && ch <= 'Z':
			v = int(ch-'A') + 10
		}
		sum += v * w[i%3]
	}
	return byte('0' + sum%10)
}

// MRZInformation builds MRZ_information (9303-11 §4.3.2): document number (padded with '<' to
// at least 9 characters), date of birth and date of expiry (YYMMDD), each followed by its
// check digit.
func MRZInformation(documentNumber, dateOfBirth, dateOfExpiry string) string {
	for len(documentNumber) < 9 {
		documentNumber += "<"
	}
	return documentNumber + string(MRZCheckDigit(documentNumber)) +
		dateOfBirth + string(MRZCheckDigit(dateOfBirth)) +
		dateOfExpiry + string(MRZCheckDigit(dateOfExpiry))
}
