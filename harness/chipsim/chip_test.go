package chipsim

// Chip-level behaviour tests with an independent terminal-side secure messaging helper built
// from the primitives of this package (themselves checked against the ICAO worked examples).

import (
	"bytes"
	"crypto/rand"
	"encoding/json"
	"testing"
)

// term is a minimal terminal: it can run BAC and wrap/unwrap commands.
type term struct {
	t    *testing.T
	chip *Chip
	alg  CipherAlg
	enc  []byte
	mac  []byte
	ssc  []byte
}

func (tm *term) inc() {
	for i := len(tm.ssc) - 1; i >= 0; i-- {
		tm.ssc[i]++
		if tm.ssc[i] != 0 {
			return
		}
	}
}

func (tm *term) iv() []byte {
	b, _ := newBlock(tm.alg, tm.enc)
	iv := make([]byte, b.BlockSize())
	if tm.alg == CipherAES {
		b.Encrypt(iv, tm.ssc)
	}
	return iv
}

// wrap protects a command; mutate lets a test damage it.
func (tm *term) wrap(cla, ins, p1, p2 byte, data []byte, le []byte, extended bool) []byte {
	tm.inc()
	bs := blockSizeOf(tm.alg)
	var dos []byte
	if len(data) > 0 {
		b, _ := newBlock(tm.alg, tm.enc)
		ct, _ := cbcEncrypt(b, tm.iv(), Pad2(data, bs))
		if ins%2 == 0 {
			dos = append(dos, EncodeTLV(0x87, []byte{1}, ct)...)
		} else {
			dos = append(dos, EncodeTLV(0x85, ct)...)
		}
	}
	if le != nil {
		dos = append(dos, EncodeTLV(0x97, le)...)
	}
	hdr := []byte{cla | 0x0C, ins, p1, p2}
	in := append(append(clone(tm.ssc), Pad2(hdr, bs)...), dos...)
	m, _ := smMAC(tm.alg, tm.mac, in)
	dos = append(dos, EncodeTLV(0x8E, m)...)
	out := clone(hdr)
	if extended || len(dos) > 255 {
		out = append(out, 0, byte(len(dos)>>8), byte(len(dos)))
		out = append(out, dos...)
		out = append(out, 0, 0)
	} else {
		out = append(out, byte(len(dos)))
		out = append(out, dos...)
		out = append(out, 0)
	}
	return out
}

// unwrap verifies a protected response and returns plain data and status.
func (tm *term) unwrap(resp []byte, odd bool) ([]byte, uint16) {
	tm.t.Helper()
	if len(resp) < 2 {
		tm.t.Fatalf("response too short: %X", resp)
	}
	body := resp[:len(resp)-2]
	if len(body) == 0 {
		tm.t.Fatalf("unprotected response %X", resp)
	}
	tm.inc()
	dos, err := ParseTLVs(body)
	if err != nil {
		tm.t.Fatalf("response TLV: %v", err)
	}
	var macIn []byte = clone(tm.ssc)
	var data []byte
	var status uint16
	for _, d := range dos {
		switch d.Tag {
		case 0x87, 0x85:
			if (d.Tag == 0x85) != odd {
				tm.t.Fatalf("wrong cryptogram DO %02X", d.Tag)
			}
			macIn = append(macIn, d.Raw...)
			ct := d.Value
			if d.Tag == 0x87 {
				if ct[0] != 1 {
					tm.t.Fatal("padding indicator")
				}
				ct = ct[1:]
			}
			b, _ := newBlock(tm.alg, tm.enc)
			pt, err := cbcDecrypt(b, tm.iv(), ct)
			if err != nil {
				tm.t.Fatal(err)
			}
			if data, err = Unpad2(pt); err != nil {
				tm.t.Fatal(err)
			}
		case 0x99:
			macIn = append(macIn, d.Raw...)
			status = uint16(d.Value[0])<<8 | uint16(d.Value[1])
		case 0x8E:
			m, _ := smMAC(tm.alg, tm.mac, macIn)
			if !bytes.Equal(m, d.Value) {
				tm.t.Fatalf("response MAC wrong")
			}
		default:
			tm.t.Fatalf("unexpected DO %02X", d.Tag)
		}
	}
	if got := uint16(resp[len(resp)-2])<<8 | uint16(resp[len(resp)-1]); got != status {
		tm.t.Fatalf("SW %04X differs from DO'99' %04X", got, status)
	}
	return data, status
}

func (tm *term) do(cla, ins, p1, p2 byte, data, le []byte) ([]byte, uint16) {
	tm.t.Helper()
	return tm.unwrap(tm.chip.Process(tm.wrap(cla, ins, p1, p2, data, le, false)), ins%2 == 1)
}

// bacTerm runs BAC against the chip with the given MRZ information.
func bacTerm(t *testing.T, chip *Chip, mrzInfo string) (*term, uint16) {
	t.Helper()
	if r := chip.Process(hx("00A4040C07A0000002471001")); !bytes.Equal(r, hx("9000")) {
		t.Fatalf("select application: %X", r)
	}
	r := chip.Process(hx("0084000008"))
	if len(r) != 10 {
		t.Fatalf("GET CHALLENGE: %X", r)
	}
	rndIC := r[:8]
	rndIFD, kIFD := make([]byte, 8), make([]byte, 16)
	rand.Read(rndIFD)
	rand.Read(kIFD)
	kEnc, kMac := BACKeys(mrzInfo)
	b, _ := newBlock(Cipher3DES, kEnc)
	s := append(append(clone(rndIFD), rndIC...), kIFD...)
	e, _ := cbcEncrypt(b, make([]byte, 8), s)
	m, _ := RetailMAC(kMac, e)
	cmd := append(append(append(hx("0082000028"), e...), m...), 0x28)
	r = chip.Process(cmd)
	if len(r) == 2 {
		return nil, uint16(r[0])<<8 | uint16(r[1])
	}
	if len(r) != 42 {
		t.Fatalf("EXTERNAL AUTHENTICATE: %X", r)
	}
	m2, _ := RetailMAC(kMac, r[:32])
	if !bytes.Equal(m2, r[32:40]) {
		t.Fatal("M_IC wrong")
	}
	pt, _ := cbcDecrypt(b, make([]byte, 8), r[:32])
	if !bytes.Equal(pt[:8], rndIC) || !bytes.Equal(pt[8:16], rndIFD) {
		t.Fatal("R does not echo the challenges")
	}
	seed := xorBytes(kIFD, pt[16:32])
	ke, _ := KDF(seed, 1, Cipher3DES, 112)
	km, _ := KDF(seed, 2, Cipher3DES, 112)
	return &term{t: t, chip: chip, alg: Cipher3DES, enc: ke, mac: km, ssc: append(clone(rndIC[4:]), rndIFD[4:]...)}, 0x9000
}

const testMRZ = "L898902C<369080619406236"

func testFiles() map[uint16][]byte {
	dg2 := make([]byte, 1000)
	for i := range dg2 {
		dg2[i] = byte(i * 7)
	}
	return map[uint16][]byte{
		FidCOM: hx("60145F0104303130365F36063034303030305C026175"),
		FidDG1: BuildDG1("P<UTOERIKSSON<<ANNA<MARIA<<<<<<<<<<<<<<<<<<<L898902C<3UTO6908061F9406236ZE184226B<<<<<14"),
		0x0102: EncodeTLV(0x75, dg2),
	}
}

func newBACChip(t *testing.T, tr Transport) *Chip {
	t.Helper()
	c, err := New(Config{
		MfFiles:  map[uint16][]byte{FidCardAccess: hx("31143012060A04007F0007020204020202010202010D"), FidDIR: BuildDIR(AIDLDS1), FidATRInfo: hx("0102")},
		AppFiles: testFiles(), MRZInfo: testMRZ, EnableBAC: true, RequireAccessControl: true, Transport: tr,
	})
	if err != nil {
		t.Fatal(err)
	}
	return c
}

func TestBACWrongMRZ(t *testing.T) {
	chip := newBACChip(t, Transport{})
	tm, swv := bacTerm(t, chip, "L898902C<369080619406237")
	if tm != nil || swv != 0x6300 {
		t.Fatalf("BAC with a wrong MRZ: sw %04X", swv)
	}
	tr := chip.Truth()
	if tr.BacCompleted || tr.SM.Alive || tr.BacFailures != 1 || tr.AccessGranted {
		t.Errorf("truth: %+v", tr)
	}
	// still locked
	chip.Process(hx("00A4020C02011E"))
	if r := chip.Process(hx("00B0000004")); !bytes.Equal(r, hx("6982")) {
		t.Errorf("read after failed BAC: %X", r)
	}
	// EXTERNAL AUTHENTICATE without a fresh challenge
	if r := chip.Process(append(append(hx("0082000028"), make([]byte, 40)...), 0x28)); !bytes.Equal(r, hx("6985")) {
		t.Errorf("EXTERNAL AUTHENTICATE without challenge: %X", r)
	}
	// and the right MRZ still works afterwards
	if tm, swv = bacTerm(t, chip, testMRZ); tm == nil {
		t.Fatalf("BAC with the right MRZ: %04X", swv)
	}
}

func TestSMTamperedMACDeletesSession(t *testing.T) {
	chip := newBACChip(t, Transport{})
	tm, _ := bacTerm(t, chip, testMRZ)
	if _, swv := tm.do(0, 0xA4, 2, 0x0C, []byte{0x01, 0x1E}, nil); swv != 0x9000 {
		t.Fatalf("select: %04X", swv)
	}
	cmd := tm.wrap(0, 0xB0, 0, 0, nil, []byte{4}, false)
	cmd[len(cmd)-2] ^= 0x01 // last octet of the MAC
	if r := chip.Process(cmd); !bytes.Equal(r, hx("6988")) {
		t.Fatalf("tampered MAC: %X", r)
	}
	tr := chip.Truth()
	if tr.SM.Alive || tr.SMFailures != 1 || tr.AccessGranted {
		t.Errorf("truth: %+v", tr.SM)
	}
	// the untampered command is no longer accepted either: the keys are gone
	tm.ssc[7]-- // terminal view: resend with the same counter
	if r := chip.Process(tm.wrap(0, 0xB0, 0, 0, nil, []byte{4}, false)); !bytes.Equal(r, hx("6988")) {
		t.Errorf("SM command after session deletion: %X", r)
	}
	// and plain reading is refused
	if r := chip.Process(hx("00B0000004")); !bytes.Equal(r, hx("6982")) {
		t.Errorf("plain read after session deletion: %X", r)
	}
	n := len(tr.Accepted)
	if tr.Accepted[n-1].INS != 0xA4 {
		t.Errorf("the tampered command must not be in Accepted: %+v", tr.Accepted[n-1])
	}
}

func TestSMErrors(t *testing.T) {
	for _, c := range []struct {
		name   string
		mutate func(tm *term) []byte
		want   string
	}{
		{"missing DO8E", func(tm *term) []byte {
			cmd := tm.wrap(0, 0xB0, 0, 0, nil, []byte{4}, false)
			// 0C B0 00 00 0D | 97 01 04 | 8E 08 .. | 00  ->  keep only DO'97'
			return append(append(clone(cmd[:4]), 0x03), append(clone(cmd[5:8]), 0x00)...)
		}, "6987"},
		{"wrong SSC (replay)", func(tm *term) []byte {
			cmd := tm.wrap(0, 0xB0, 0, 0, nil, []byte{4}, false)
			tm.chip.Process(cmd)
			return cmd
		}, "6988"},
		{"DO87 with bad padding indicator", func(tm *term) []byte {
			tm.inc()
			b, _ := newBlock(tm.alg, tm.enc)
			ct, _ := cbcEncrypt(b, tm.iv(), Pad2([]byte{0x01, 0x1E}, 8))
			dos := EncodeTLV(0x87, []byte{2}, ct)
			hdr := []byte{0x0C, 0xA4, 0x02, 0x0C}
			m, _ := smMAC(tm.alg, tm.mac, append(append(clone(tm.ssc), Pad2(hdr, 8)...), dos...))
			dos = append(dos, EncodeTLV(0x8E, m)...)
			return append(append(append(hdr, byte(len(dos))), dos...), 0)
		}, "6988"},
		{"DO85 with even INS", func(tm *term) []byte {
			tm.inc()
			b, _ := newBlock(tm.alg, tm.enc)
			ct, _ := cbcEncrypt(b, tm.iv(), Pad2([]byte{0x01, 0x1E}, 8))
			dos := EncodeTLV(0x85, ct)
			hdr := []byte{0x0C, 0xA4, 0x02, 0x0C}
			m, _ := smMAC(tm.alg, tm.mac, append(append(clone(tm.ssc), Pad2(hdr, 8)...), dos...))
			dos = append(dos, EncodeTLV(0x8E, m)...)
			return append(append(append(hdr, byte(len(dos))), dos...), 0)
		}, "6988"},
		{"garbage data field", func(tm *term) []byte { return hx("0CB0000003FFFFFF00") }, "6988"},
		{"plain command", func(tm *term) []byte { return hx("00A4020C02011E") }, "9000"},
	} {
		t.Run(c.name, func(t *testing.T) {
			chip := newBACChip(t, Transport{})
			tm, _ := bacTerm(t, chip, testMRZ)
			tm.do(0, 0xA4, 2, 0x0C, []byte{0x01, 0x1E}, nil)
			if r := chip.Process(c.mutate(tm)); !bytes.Equal(r, hx(c.want)) {
				t.Fatalf("answer %X, want %s", r, c.want)
			}
			tr := chip.Truth()
			if tr.SM.Alive || tr.SMFailures != 1 || tr.AccessGranted {
				t.Errorf("session must be deleted: %+v failures %d", tr.SM, tr.SMFailures)
			}
			if r := chip.Process(hx("00B0000004")); !bytes.Equal(r, hx("6982")) {
				t.Errorf("read after SM abort: %X", r)
			}
		})
	}
	t.Run("plain command with configured status", func(t *testing.T) {
		chip := newBACChip(t, Transport{PlainInSMStatus: 0x6987})
		bacTerm(t, chip, testMRZ)
		if r := chip.Process(hx("00A4020C02011E")); !bytes.Equal(r, hx("6987")) {
			t.Fatalf("%X", r)
		}
		if chip.Truth().SM.Alive {
			t.Error("session alive")
		}
	})
	t.Run("protected error keeps the session", func(t *testing.T) {
		chip := newBACChip(t, Transport{})
		tm, _ := bacTerm(t, chip, testMRZ)
		if _, swv := tm.do(0, 0xA4, 2, 0x0C, []byte{0x01, 0x03}, nil); swv != 0x6A82 {
			t.Fatalf("%04X", swv)
		}
		if _, swv := tm.do(0, 0xA4, 2, 0x0C, []byte{0x01, 0x01}, nil); swv != 0x9000 {
			t.Fatalf("%04X", swv)
		}
		if _, swv := tm.do(0, 0xB0, 0x7F, 0xFF, nil, []byte{1}); swv != 0x6B00 {
			t.Fatalf("%04X", swv)
		}
		if tr := chip.Truth(); !tr.SM.Alive || tr.SMFailures != 0 {
			t.Errorf("%+v", tr.SM)
		}
	})
}

func TestReadBinaryVariants(t *testing.T) {
	chip := newBACChip(t, Transport{})
	// MF level, no access control needed for EF.CardAccess, EF.DIR, EF.ATR/INFO
	expectResp(t, chip, "00A4000C", "9000")
	expectResp(t, chip, "00B0000004", "6986") // no current EF
	expectResp(t, chip, "00B09C0002", "31149000")
	expectResp(t, chip, "00B0000200", "3012060A04007F0007020204020202010202010D9000") // current EF now CardAccess, Le=00 -> rest
	expectResp(t, chip, "00B09E0000", "6109 4F07A0000002471001 9000")                 // EF.DIR by SFI 1E
	expectResp(t, chip, "00B0810000", "01029000")                                     // EF.ATR/INFO by SFI 01
	expectResp(t, chip, "00B09D0000", "6A82")                                         // no EF.CardSecurity
	expectResp(t, chip, "00B09F0000", "6A86")                                         // SFI 31 is RFU
	expectResp(t, chip, "00B0C10000", "6A86")                                         // b7/b6 must be 0
	expectResp(t, chip, "00A4000C023F00", "9000")
	expectResp(t, chip, "00A4020C022F00", "9000")
	expectResp(t, chip, "00B0000B01", "6B00") // offset = length
	expectResp(t, chip, "00B0000A01", "019000")
	expectResp(t, chip, "00B00000", "6700")       // no Le
	expectResp(t, chip, "00B000000000FF", "6700") // extended length not enabled
	expectResp(t, chip, "00A4020C02011E", "6A82") // EF.COM is not under the MF
	expectResp(t, chip, "00A4040C07A0000002471002", "6A82")
	expectResp(t, chip, "00A4040C07A0000002471001", "9000")
	expectResp(t, chip, "00A4020C022F00", "6A82") // EF.DIR is not under the application DF
	expectResp(t, chip, "00A402000201 1E", "6A86")
	expectResp(t, chip, "00A4020C02011E", "9000")
	expectResp(t, chip, "00B0000004", "6982")
	expectResp(t, chip, "00B09E0004", "6982")
	expectResp(t, chip, "01B0000004", "6881")
	expectResp(t, chip, "80B0000004", "6E00")
	expectResp(t, chip, "04B0000004", "6882")
	expectResp(t, chip, "00CA000000", "6D00")
	expectResp(t, chip, "10B0000004", "6884")

	tm, _ := bacTerm(t, chip, testMRZ)
	// SFI read makes the file current
	data, swv := tm.do(0, 0xB0, 0x81, 0x00, nil, []byte{4})
	if swv != 0x9000 || !bytes.Equal(data, testFiles()[FidDG1][:4]) {
		t.Fatalf("SFI read: %X %04X", data, swv)
	}
	data, swv = tm.do(0, 0xB0, 0x00, 0x04, nil, []byte{0})
	if swv != 0x9000 || !bytes.Equal(data, testFiles()[FidDG1][4:]) {
		t.Fatalf("follow-up read: %X %04X", data, swv)
	}
	// Le = 00 under 3DES SM in a short APDU: at most 231 octets fit
	tm.do(0, 0xA4, 2, 0x0C, []byte{0x01, 0x02}, nil)
	data, swv = tm.do(0, 0xB0, 0, 0, nil, []byte{0})
	if swv != 0x9000 || len(data) != 231 {
		t.Fatalf("Le=00 under SM: %d octets %04X", len(data), swv)
	}
	// odd INS with offset data object
	data, swv = tm.do(0, 0xB1, 0, 0, hx("540103"), []byte{0x10})
	want := EncodeTLV(0x53, testFiles()[0x0102][3:3+14])
	if swv != 0x9000 || !bytes.Equal(data, want) {
		t.Fatalf("B1: %X %04X want %X", data, swv, want)
	}
	data, swv = tm.do(0, 0xB1, 0x01, 0x1E, hx("54020004"), []byte{0})
	if swv != 0x9000 || !bytes.Equal(data, EncodeTLV(0x53, testFiles()[FidCOM][4:])) {
		t.Fatalf("B1 by file id: %X %04X", data, swv)
	}
	data, swv = tm.do(0, 0xB1, 0x00, 0x01, hx("540100"), []byte{6})
	if swv != 0x9000 || !bytes.Equal(data, EncodeTLV(0x53, testFiles()[FidDG1][:4])) {
		t.Fatalf("B1 by SFI: %X %04X", data, swv)
	}
	if _, swv = tm.do(0, 0xB1, 0, 0, hx("5501 00"), []byte{6}); swv != 0x6A80 {
		t.Fatalf("B1 without DO'54': %04X", swv)
	}
	tr := chip.Truth()
	last := tr.Reads[len(tr.Reads)-2]
	if last.FileID != FidDG1 || last.INS != 0xB1 || last.Returned != 4 || !last.Secured || last.DF != "LDS1" {
		t.Errorf("read record: %+v", last)
	}
}

func TestTransportPolicies(t *testing.T) {
	read := func(tr Transport, le byte) ([]byte, uint16, *Chip) {
		chip := newBACChip(t, tr)
		tm, _ := bacTerm(t, chip, testMRZ)
		tm.do(0, 0xA4, 2, 0x0C, []byte{0x01, 0x1E}, nil)
		d, s := tm.do(0, 0xB0, 0, 0, nil, []byte{le})
		return d, s, chip
	}
	if d, s, _ := read(Transport{WarnEOF: true}, 0x20); s != 0x6282 || len(d) != 22 {
		t.Errorf("WarnEOF: %d %04X", len(d), s)
	}
	if d, s, _ := read(Transport{WarnEOF: true}, 22); s != 0x9000 || len(d) != 22 {
		t.Errorf("WarnEOF exact: %d %04X", len(d), s)
	}
	if d, s, _ := read(Transport{}, 0x20); s != 0x9000 || len(d) != 22 {
		t.Errorf("default: %d %04X", len(d), s)
	}
	if d, s, _ := read(Transport{MaxRead: 5}, 0x20); s != 0x9000 || len(d) != 5 {
		t.Errorf("MaxRead: %d %04X", len(d), s)
	}
	if d, s, _ := read(Transport{RejectLeOver: 16}, 0x20); s != 0x6700 || len(d) != 0 {
		t.Errorf("RejectLeOver: %d %04X", len(d), s)
	}
	if d, s, _ := read(Transport{RejectLeOver: 32}, 0x20); s != 0x9000 || len(d) != 22 {
		t.Errorf("RejectLeOver at limit: %d %04X", len(d), s)
	}
	if d, s, _ := read(Transport{ShortReturn: "half"}, 0x10); s != 0x9000 || len(d) != 8 {
		t.Errorf("half: %d %04X", len(d), s)
	}
	if d, s, _ := read(Transport{ShortReturn: "one"}, 0x10); s != 0x9000 || len(d) != 1 {
		t.Errorf("one: %d %04X", len(d), s)
	}
	if d, s, _ := read(Transport{HeaderReadShort: 3}, 4); s != 0x9000 || len(d) != 3 {
		t.Errorf("HeaderReadShort: %d %04X", len(d), s)
	}
	if d, s, _ := read(Transport{HeaderReadShort: 3}, 5); s != 0x9000 || len(d) != 5 {
		t.Errorf("HeaderReadShort with Le 5: %d %04X", len(d), s)
	}
	a, _, _ := read(Transport{ShortReturn: "random", ShortReturnSeed: 3}, 0x10)
	b, _, _ := read(Transport{ShortReturn: "random", ShortReturnSeed: 3}, 0x10)
	if len(a) != len(b) || len(a) < 1 || len(a) > 16 {
		t.Errorf("random not reproducible: %d %d", len(a), len(b))
	}
}

func TestExtendedLengthUnderSM(t *testing.T) {
	chip := newBACChip(t, Transport{ExtendedLength: true})
	tm, _ := bacTerm(t, chip, testMRZ)
	tm.do(0, 0xA4, 2, 0x0C, []byte{0x01, 0x02}, nil)
	resp := chip.Process(tm.wrap(0, 0xB0, 0, 0, nil, []byte{0, 0}, true))
	data, swv := tm.unwrap(resp, false)
	if swv != 0x9000 || !bytes.Equal(data, testFiles()[0x0102]) {
		t.Fatalf("extended read: %d octets %04X", len(data), swv)
	}
}

func TestResetAndTruthJSON(t *testing.T) {
	chip := newBACChip(t, Transport{})
	tm, _ := bacTerm(t, chip, testMRZ)
	tm.do(0, 0xA4, 2, 0x0C, []byte{0x01, 0x1E}, nil)
	chip.Reset()
	tr := chip.Truth()
	if tr.SM.Alive || tr.AccessGranted || tr.SelectedDF != "MF" || tr.CurrentEF != 0 || tr.Resets != 1 || !tr.BacCompleted {
		t.Errorf("after reset: %+v", tr)
	}
	if r := chip.Process(tm.wrap(0, 0xB0, 0, 0, nil, []byte{4}, false)); !bytes.Equal(r, hx("6988")) {
		t.Errorf("SM command after reset: %X", r)
	}
	if tm2, _ := bacTerm(t, chip, testMRZ); tm2 == nil {
		t.Fatal("BAC after reset")
	}
	js, err := json.Marshal(chip.Truth())
	if err != nil {
		t.Fatal(err)
	}
	var back Truth
	if err := json.Unmarshal(js, &back); err != nil || !back.BacCompleted || len(back.Accepted) == 0 {
		t.Errorf("JSON roundtrip: %v", err)
	}
	// the configuration is plain data too
	cfg := Config{MRZInfo: testMRZ, EnableBAC: true, AppFiles: testFiles(), Transport: Transport{MaxRead: 9}, Personality: PersonalityByName("ca-no-key")}
	js, err = json.Marshal(cfg)
	if err != nil {
		t.Fatal(err)
	}
	var cfg2 Config
	if err := json.Unmarshal(js, &cfg2); err != nil || cfg2.Transport.MaxRead != 9 || !cfg2.Personality.CANoKey || !bytes.Equal(cfg2.AppFiles[FidCOM], cfg.AppFiles[FidCOM]) {
		t.Errorf("config JSON roundtrip: %v", err)
	}
}

func TestNoAccessControlChip(t *testing.T) {
	chip, err := New(Config{AppFiles: testFiles()})
	if err != nil {
		t.Fatal(err)
	}
	expectResp(t, chip, "00A4040C07A0000002471001", "9000")
	expectResp(t, chip, "00A4020C02011E", "9000")
	expectResp(t, chip, "00B0000004", "60145F019000")
	expectResp(t, chip, "0084000008", "6D00")
	expectResp(t, chip, "0022C1A40F800A04007F00070202040202830101", "6A81")
	expectResp(t, chip, "0088000008010203040506070800", "6D00")
}

// Files of 32768 octets and more need READ BINARY with odd INS (9303-10 §3.6.3.2): with even
// INS an offset cannot exceed 15 bits, P1 b8 = 1 means "short EF identifier".
func TestLargeFileNeedsOddINS(t *testing.T) {
	big := make([]byte, 40000)
	for i := range big {
		big[i] = byte(i>>8) ^ byte(i*13)
	}
	files := testFiles()
	files[0x0102] = EncodeTLV(0x75, big)
	chip, err := New(Config{AppFiles: files, MRZInfo: testMRZ, EnableBAC: true, RequireAccessControl: true})
	if err != nil {
		t.Fatal(err)
	}
	tm, _ := bacTerm(t, chip, testMRZ)
	tm.do(0, 0xA4, 2, 0x0C, []byte{0x01, 0x02}, nil)
	want := files[0x0102]
	var got []byte
	for len(got) < len(want) {
		off := len(got)
		var data []byte
		var swv uint16
		if off < 0x8000 {
			data, swv = tm.do(0, 0xB0, byte(off>>8), byte(off), nil, []byte{0})
		} else {
			d, s := tm.do(0, 0xB1, 0, 0, EncodeTLV(0x54, []byte{byte(off >> 16), byte(off >> 8), byte(off)}), []byte{0})
			dos, err := ParseTLVs(d)
			if err != nil || len(dos) != 1 || dos[0].Tag != 0x53 {
				t.Fatalf("B1 response: %X", d)
			}
			data, swv = dos[0].Value, s
		}
		if swv != 0x9000 || len(data) == 0 {
			t.Fatalf("offset %d: %04X", off, swv)
		}
		got = append(got, data...)
	}
	if !bytes.Equal(got, want) {
		t.Fatal("large file differs")
	}
	// even INS with P1 = 80: short EF identifier 0 = current EF, offset P2
	data, swv := tm.do(0, 0xB0, 0x80, 0x05, nil, []byte{4})
	if swv != 0x9000 || !bytes.Equal(data, want[5:9]) {
		t.Errorf("P1=80: %X %04X", data, swv)
	}
}

func TestRandomSourceExhausted(t *testing.T) {
	chip, err := New(Config{AppFiles: testFiles(), MRZInfo: testMRZ, EnableBAC: true, Rand: bytes.NewReader([]byte{1, 2, 3})})
	if err != nil {
		t.Fatal(err)
	}
	expectResp(t, chip, "00A4040C07A0000002471001", "9000")
	expectResp(t, chip, "0084000008", "6F00")
	if tr := chip.Truth(); len(tr.InternalErrors) != 1 {
		t.Errorf("%+v", tr.InternalErrors)
	}
}
