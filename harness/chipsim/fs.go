package chipsim

// File system: MF with EF.CardAccess / EF.CardSecurity / EF.DIR / EF.ATR/INFO and the LDS1
// application DF with EF.COM, EF.SOD and the data groups (9303-10 §3, ISO/IEC 7816-4 §7/§11).

import "bytes"

// short EF identifiers at the MF (9303-10 table of MF files)
var mfSFI = map[uint16]byte{FidCardAccess: 0x1C, FidCardSecurity: 0x1D, FidDIR: 0x1E, FidATRInfo: 0x01}

func (c *Chip) files(df dfID) map[uint16][]byte {
	if df == dfLDS1 {
		return c.cfg.AppFiles
	}
	return c.cfg.MfFiles
}

// sfiOf returns the short EF identifier of a file in a DF: in the LDS1 application the five
// least significant bits of the file identifier (9303-10 §3.5), at the MF the table above.
func sfiOf(df dfID, fid uint16) byte {
	if df == dfLDS1 {
		return byte(fid & 0x1F)
	}
	if s, ok := mfSFI[fid]; ok {
		return s
	}
	return byte(fid & 0x1F)
}

func (c *Chip) efBySFI(df dfID, sfi byte) (uint16, bool) {
	for fid := range c.files(df) {
		if sfiOf(df, fid) == sfi {
			return fid, true
		}
	}
	return 0, false
}

// readable applies the access conditions.
func (c *Chip) readable(df dfID, fid uint16) bool {
	if !c.cfg.RequireAccessControl {
		return true
	}
	if df == dfLDS1 {
		return c.access && c.sm != nil
	}
	if fid == FidCardSecurity {
		return c.paceDone && c.sm != nil
	}
	return true
}

func (c *Chip) doSelect(cmd *Command) (res result) {
	defer func() {
		c.truth.Selects = append(c.truth.Selects, SelectRec{P1: cmd.P1, P2: cmd.P2, Data: clone(cmd.Data), SW: res.sw, DF: c.df.String(), EF: c.ef})
	}()
	// only "no response data" (P2 = 0C) is implemented, which is what 9303-10 §3.6 specifies
	if cmd.P2 != 0x0C {
		return status(SWIncorrectP1P2)
	}
	switch cmd.P1 {
	case 0x00:
		// select MF / DF / EF by file identifier
		if len(cmd.Data) == 0 || bytes.Equal(cmd.Data, []byte{0x3F, 0x00}) {
			c.df, c.ef = dfMF, 0
			return status(SWOK)
		}
		if len(cmd.Data) != 2 {
			return status(SWWrongLength)
		}
		return c.selectEF(uint16(cmd.Data[0])<<8 | uint16(cmd.Data[1]))
	case 0x02:
		// select EF under the current DF
		if len(cmd.Data) != 2 {
			return status(SWWrongLength)
		}
		return c.selectEF(uint16(cmd.Data[0])<<8 | uint16(cmd.Data[1]))
	case 0x04:
		// select by DF name
		if len(cmd.Data) == 0 || len(cmd.Data) > 16 {
			return status(SWWrongLength)
		}
		if len(cmd.Data) <= len(AIDLDS1) && bytes.Equal(cmd.Data, AIDLDS1[:len(cmd.Data)]) && c.cfg.AppFiles != nil {
			c.df, c.ef = dfLDS1, 0
			return status(SWOK)
		}
		return status(SWFileNotFound)
	}
	return status(SWIncorrectP1P2)
}

func (c *Chip) selectEF(fid uint16) result {
	if _, ok := c.files(c.df)[fid]; !ok {
		return status(SWFileNotFound)
	}
	if c.cfg.Transport.SelectRequiresAuth && !c.readable(c.df, fid) {
		return status(SWSecurityStatus)
	}
	c.ef = fid
	return status(SWOK)
}

func (c *Chip) doReadBinary(cmd *Command) (res result) {
	rec := ReadRec{INS: cmd.INS, P1: cmd.P1, P2: cmd.P2, Le: cmd.Ne, Secured: cmd.Case == "SM"}
	defer func() {
		rec.DF = c.df.String()
		rec.SW = res.sw
		c.truth.Reads = append(c.truth.Reads, rec)
	}()

	var fid uint16
	var offset int
	overhead := 0 // octets of DO'53' header for odd INS
	if cmd.INS == 0xB0 {
		if len(cmd.Data) != 0 {
			return status(SWWrongLength)
		}
		if cmd.P1&0x80 != 0 {
			// b8 = 1: b7,b6 = 00, b5..b1 short EF identifier, P2 = offset (7816-4 §11.3.3)
			if cmd.P1&0x60 != 0 {
				return status(SWIncorrectP1P2)
			}
			sfi := cmd.P1 & 0x1F
			switch sfi {
			case 0x1F:
				return status(SWIncorrectP1P2)
			case 0:
				if c.ef == 0 {
					return status(SWNoCurrentEF)
				}
				fid = c.ef
			default:
				f, ok := c.efBySFI(c.df, sfi)
				if !ok {
					return status(SWFileNotFound)
				}
				fid = f
				c.ef = f
			}
			offset = int(cmd.P2)
		} else {
			if c.ef == 0 {
				return status(SWNoCurrentEF)
			}
			fid = c.ef
			offset = int(cmd.P1)<<8 | int(cmd.P2)
		}
	} else {
		// odd INS: offset data object '54' in the command data field, DO'53' in the response
		p := uint16(cmd.P1)<<8 | uint16(cmd.P2)
		switch {
		case p == 0:
			if c.ef == 0 {
				return status(SWNoCurrentEF)
			}
			fid = c.ef
		case p&0xFFE0 == 0 && p&0x1F != 0x1F:
			f, ok := c.efBySFI(c.df, byte(p&0x1F))
			if !ok {
				return status(SWFileNotFound)
			}
			fid, c.ef = f, f
		default:
			if _, ok := c.files(c.df)[p]; !ok {
				return status(SWFileNotFound)
			}
			fid, c.ef = p, p
		}
		dos, err := ParseTLVs(cmd.Data)
		if err != nil || len(dos) != 1 || dos[0].Tag != 0x54 || len(dos[0].Value) == 0 || len(dos[0].Value) > 3 {
			return status(SWWrongData)
		}
		for _, b := range dos[0].Value {
			offset = offset<<8 | int(b)
		}
	}
	rec.FileID, rec.Offset = fid, offset

	if !c.readable(c.df, fid) {
		return status(SWSecurityStatus)
	}
	if !cmd.HasLe {
		return status(SWWrongLength)
	}
	t := c.cfg.Transport
	if t.RejectLeOver > 0 && cmd.Ne > t.RejectLeOver {
		return status(SWWrongLength)
	}
	content := c.files(c.df)[fid]
	if offset >= len(content) {
		return status(SWWrongOffset)
	}
	remaining := len(content) - offset
	ne := cmd.Ne
	if cmd.INS == 0xB1 {
		// Ne counts the whole response data field, i.e. including the DO'53' header
		overhead = 1 + len(encodeLen(min(ne, remaining)))
		if ne <= overhead {
			return status(SWWrongLength)
		}
		ne -= overhead
	}
	n := min(ne, remaining)
	if t.MaxRead > 0 {
		n = min(n, t.MaxRead)
	}
	if t.HeaderReadShort > 0 && offset == 0 && cmd.Ne == 4 {
		n = min(n, t.HeaderReadShort)
	}
	// what fits into the response field of this exchange
	if !t.AllowOversizeShortResponse {
		limit := 65536
		if !cmd.Extended {
			limit = 256
		}
		if cmd.Case == "SM" && c.sm != nil {
			n = min(n, c.sm.maxPlainFor(cmd, limit)-overhead)
		} else {
			n = min(n, limit-overhead)
		}
	}
	switch t.ShortReturn {
	case "half":
		n = max(1, n/2)
	case "one":
		n = 1
	case "random":
		n = 1 + c.shortRng.Intn(n)
	}
	if n < 1 {
		return status(SWWrongLength)
	}
	data := content[offset : offset+n]
	rec.Returned = n
	swv := SWOK
	if t.WarnEOF && remaining < cmd.Ne-overhead {
		swv = SWEOFWarning
	}
	if cmd.INS == 0xB1 {
		return result{data: EncodeTLV(0x53, data), sw: swv}
	}
	return result{data: clone(data), sw: swv}
}
