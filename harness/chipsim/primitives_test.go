package chipsim

import (
	"bytes"
	"crypto/elliptic"
	"crypto/rand"
	"encoding/hex"
	"math/big"
	"strings"
	"testing"

	"github.com/osanderson/brainpool"
)

func hx(s string) []byte {
	b, err := hex.DecodeString(strings.ReplaceAll(s, " ", ""))
	if err != nil {
		panic(err)
	}
	return b
}

func TestPad2(t *testing.T) {
	for _, c := range []struct{ in, out string }{
		{"", "8000000000000000"},
		{"01", "0180000000000000"},
		{"01020304050607", "0102030405060780"},
		{"0102030405060708", "01020304050607088000000000000000"},
	} {
		got := Pad2(hx(c.in), 8)
		if !bytes.Equal(got, hx(c.out)) {
			t.Errorf("Pad2(%s) = %x, want %s", c.in, got, c.out)
		}
		back, err := Unpad2(got)
		if err != nil || !bytes.Equal(back, hx(c.in)) {
			t.Errorf("Unpad2(%x) = %x, %v", got, back, err)
		}
	}
	if got := Pad2(hx("00112233445566778899aabbccddeeff"), 16); len(got) != 32 || got[16] != 0x80 {
		t.Errorf("Pad2 block 16: %x", got)
	}
	for _, bad := range []string{"", "0000", "0102", "018001"} {
		if _, err := Unpad2(hx(bad)); err == nil {
			t.Errorf("Unpad2(%s) accepted", bad)
		}
	}
}

// RFC 4493 §4 test vectors.
func TestAESCMAC_RFC4493(t *testing.T) {
	key := hx("2b7e151628aed2a6abf7158809cf4f3c")
	msg := hx("6bc1bee22e409f96e93d7e117393172a ae2d8a571e03ac9c9eb76fac45af8e51 30c81c46a35ce411e5fbc1191a0a52ef f69f2445df4f9b17ad2b417be66c3710")
	for _, c := range []struct {
		n   int
		mac string
	}{
		{0, "bb1d6929e95937287fa37d129b756746"},
		{16, "070a16b46b4d4144f79bdd9dd04a287c"},
		{40, "dfa66747de9ae63030ca32611497c827"},
		{64, "51f0bebf7e3b9d92fc49741779363cfe"},
	} {
		got, err := AESCMAC(key, msg[:c.n])
		if err != nil || !bytes.Equal(got, hx(c.mac)) {
			t.Errorf("CMAC len %d = %x, %v; want %s", c.n, got, err, c.mac)
		}
	}
}

// 9303-11 appendix D.2: derivation of the document basic access keys.
func TestBACKeys_AppendixD(t *testing.T) {
	kEnc, kMac := BACKeys("L898902C<369080619406236")
	if !bytes.Equal(kEnc, hx("AB94FDECF2674FDFB9B391F85D7F76F2")) {
		t.Errorf("K_enc = %X", kEnc)
	}
	if !bytes.Equal(kMac, hx("7962D9ECE03D1ACD4C76089DCE131543")) {
		t.Errorf("K_mac = %X", kMac)
	}
}

// 9303-11 appendix D.3: MAC over E_IFD and session key derivation.
func TestRetailMACAndKDF_AppendixD(t *testing.T) {
	mac, err := RetailMAC(hx("7962D9ECE03D1ACD4C76089DCE131543"), hx("72C29C2371CC9BDB65B779B8E8D37B29ECC154AA56A8799FAE2F498F76ED92F2"))
	if err != nil || !bytes.Equal(mac, hx("5F1448EEA8AD90A7")) {
		t.Errorf("M_IFD = %X, %v", mac, err)
	}
	seed := hx("0036D272F5C350ACAC50C3F572D23600")
	ke, _ := KDF(seed, 1, Cipher3DES, 112)
	km, _ := KDF(seed, 2, Cipher3DES, 112)
	if !bytes.Equal(ke, hx("979EC13B1CBFE9DCD01AB0FED307EAE5")) || !bytes.Equal(km, hx("F1CB1F1FB5ADF208806B89DC579DC1F8")) {
		t.Errorf("KS_enc = %X KS_mac = %X", ke, km)
	}
}

func TestKDFLengths(t *testing.T) {
	for _, c := range []struct {
		alg  CipherAlg
		bits int
		n    int
	}{{Cipher3DES, 112, 16}, {CipherAES, 128, 16}, {CipherAES, 192, 24}, {CipherAES, 256, 32}} {
		k, err := KDF([]byte("secret"), 1, c.alg, c.bits)
		if err != nil || len(k) != c.n {
			t.Errorf("KDF %s/%d: %d octets, %v", c.alg, c.bits, len(k), err)
		}
	}
	if _, err := KDF(nil, 1, CipherAES, 64); err == nil {
		t.Error("KDF accepted AES-64")
	}
}

func TestParseCommandCases(t *testing.T) {
	long := bytes.Repeat([]byte{0xAB}, 300)
	for _, c := range []struct {
		name, apdu string
		kase       string
		nc, ne     int
		ok         bool
	}{
		{"1", "00A4000C", "1", 0, 0, true},
		{"2S", "00B0000004", "2S", 0, 4, true},
		{"2S-256", "00B0000000", "2S", 0, 256, true},
		{"3S", "00A4020C02011E", "3S", 2, 0, true},
		{"4S", "00A4040007A000000247100100", "4S", 7, 256, true},
		{"2E", "00B00000000100", "2E", 0, 256, true},
		{"2E-max", "00B00000000000", "2E", 0, 65536, true},
		{"3E", "00DA0000" + "00012C" + hex.EncodeToString(long), "3E", 300, 0, true},
		{"4E", "00DA0000" + "00012C" + hex.EncodeToString(long) + "0000", "4E", 300, 65536, true},
		{"4E-short-data", "0088000000000801020304050607080100", "4E", 8, 256, true},
		{"too short", "00A400", "", 0, 0, false},
		{"lc mismatch", "00A4020C03011E", "", 0, 0, false},
		{"ext lc zero", "00A4020C0000000000", "", 0, 0, false},
		{"ext truncated", "00B000000000", "", 0, 0, false}, // gmrtd's encoding of case 2E (two Le octets, no leading 00... i.e. 00 00)
		{"ext lc mismatch", "00DA000000000301", "", 0, 0, false},
	} {
		cmd, err := ParseCommand(hx(c.apdu))
		if (err == nil) != c.ok {
			t.Errorf("%s: err = %v", c.name, err)
			continue
		}
		if !c.ok {
			continue
		}
		if cmd.Case != c.kase || len(cmd.Data) != c.nc || cmd.Ne != c.ne {
			t.Errorf("%s: case %s nc %d ne %d", c.name, cmd.Case, len(cmd.Data), cmd.Ne)
		}
	}
}

func TestTLV(t *testing.T) {
	in := hx("8709016375432908C044F6 970100 8E08BF8B92D635FF24F8")
	dos, err := ParseTLVs(in)
	if err != nil || len(dos) != 3 || dos[0].Tag != 0x87 || dos[1].Tag != 0x97 || dos[2].Tag != 0x8E || len(dos[2].Value) != 8 {
		t.Fatalf("ParseTLVs: %+v %v", dos, err)
	}
	v := bytes.Repeat([]byte{1}, 200)
	enc := EncodeTLV(0x7F49, v)
	if !bytes.Equal(enc[:4], hx("7F4981C8")) {
		t.Errorf("EncodeTLV header %x", enc[:4])
	}
	back, err := ParseTLVs(enc)
	if err != nil || len(back) != 1 || back[0].Tag != 0x7F49 || !bytes.Equal(back[0].Value, v) {
		t.Errorf("roundtrip: %v", err)
	}
	for _, bad := range []string{"87", "8705010203", "8780", "1F", "878400000001AA"} {
		if _, err := ParseTLVs(hx(bad)); err == nil {
			t.Errorf("ParseTLVs(%s) accepted", bad)
		}
	}
}

func TestOID(t *testing.T) {
	c, err := OIDContent(OIDPaceEcdhGmAes128)
	if err != nil || !bytes.Equal(c, hx("04007F00070202040202")) {
		t.Errorf("OIDContent = %x %v", c, err)
	}
	s, err := OIDString(hx("04007F00070202040202"))
	if err != nil || s != OIDPaceEcdhGmAes128 {
		t.Errorf("OIDString = %s %v", s, err)
	}
	for _, o := range []string{"1.2.840.10045.3.1.7", "2.23.136.1.1.5", "1.3.36.3.3.2.8.1.1.13", "1.2.840.113549.1.1.1"} {
		c, _ := OIDContent(o)
		if s, _ := OIDString(c); s != o {
			t.Errorf("OID roundtrip %s -> %x -> %s", o, c, s)
		}
	}
}

// RFC 5639 §3.4 constants of brainpoolP256r1, to check the reconstruction of a and b.
func TestBrainpoolP256r1Coefficients(t *testing.T) {
	c, err := CurveByParamID(13)
	if err != nil {
		t.Fatal(err)
	}
	if c.A.Cmp(hexInt("7D5A0975FC2C3057EEF67530417AFFE7FB8055C126DC5C6CE94A4B44F330B5D9")) != 0 {
		t.Errorf("A = %X", c.A)
	}
	if c.B.Cmp(hexInt("26DC5C6CE94A4B44F330B5D9BBD77CBF958416295CF7E1CE6BCCDC18FF8C07B6")) != 0 {
		t.Errorf("B = %X", c.B)
	}
}

// own arithmetic against the standard library (NIST curves) and the brainpool module.
func TestCurveArithmeticAgainstReferences(t *testing.T) {
	refs := map[int]elliptic.Curve{
		9: brainpool.P192r1(), 10: elliptic.P224(), 11: brainpool.P224r1(), 12: elliptic.P256(), 13: brainpool.P256r1(),
		14: brainpool.P320r1(), 15: elliptic.P384(), 16: brainpool.P384r1(), 17: brainpool.P512r1(), 18: elliptic.P521(),
	}
	for _, id := range AllParamIDs() {
		c, err := CurveByParamID(id)
		if err != nil {
			t.Fatalf("curve %d: %v", id, err)
		}
		k1, _ := c.RandomScalar(rand.Reader)
		k2, _ := c.RandomScalar(rand.Reader)
		x1, y1 := c.MulBase(k1)
		if !c.IsOnCurve(x1, y1) {
			t.Errorf("%s: k·G not on curve", c.Name)
		}
		// commutativity of ECDH
		ax, ay := c.Mul(x1, y1, k2)
		x2, y2 := c.MulBase(k2)
		bx, by := c.Mul(x2, y2, k1)
		if ax.Cmp(bx) != 0 || ay.Cmp(by) != 0 {
			t.Errorf("%s: ECDH not commutative", c.Name)
		}
		// (k1+k2)·G = k1·G + k2·G
		sx, sy := c.Add(x1, y1, x2, y2)
		ks := new(big.Int).Add(k1, k2)
		tx, ty := c.MulBase(ks)
		if sx.Cmp(tx) != 0 || sy.Cmp(ty) != 0 {
			t.Errorf("%s: addition law broken", c.Name)
		}
		dx, dy := c.Double(x1, y1)
		ex, ey := c.Add(x1, y1, x1, y1)
		if dx.Cmp(ex) != 0 || dy.Cmp(ey) != 0 {
			t.Errorf("%s: P+P != 2P", c.Name)
		}
		// P + (-P) = O
		ny := new(big.Int).Sub(c.P, y1)
		if ox, oy := c.Add(x1, y1, x1, ny); ox.Sign() != 0 || oy.Sign() != 0 {
			t.Errorf("%s: P + (-P) != O", c.Name)
		}
		pt := c.EncodePoint(x1, y1)
		if px, py, err := c.DecodePoint(pt); err != nil || px.Cmp(x1) != 0 || py.Cmp(y1) != 0 {
			t.Errorf("%s: point codec: %v", c.Name, err)
		}
		bad := clone(pt)
		bad[len(bad)-1] ^= 1
		if _, _, err := c.DecodePoint(bad); err == nil {
			t.Errorf("%s: off-curve point accepted", c.Name)
		}
		ref, ok := refs[id]
		if !ok {
			continue
		}
		rx, ry := ref.ScalarBaseMult(k1.Bytes())
		if rx.Cmp(x1) != 0 || ry.Cmp(y1) != 0 {
			t.Errorf("%s: k·G differs from reference implementation", c.Name)
		}
		rx, ry = ref.ScalarMult(x1, y1, k2.Bytes())
		if rx.Cmp(ax) != 0 || ry.Cmp(ay) != 0 {
			t.Errorf("%s: k·P differs from reference implementation", c.Name)
		}
	}
}

func TestFindScalarWithLeadingZeroX(t *testing.T) {
	for _, id := range []int{12, 13, 18} {
		c, _ := CurveByParamID(id)
		k0, _ := c.RandomScalar(rand.Reader)
		px, py := c.MulBase(k0)
		k := FindScalarWithLeadingZeroX(c, px, py, rand.Reader)
		if k == nil {
			t.Fatalf("%s: nothing found", c.Name)
		}
		x, _ := c.Mul(px, py, k)
		if c.FE2OS(x)[0] != 0 {
			t.Errorf("%s: x = %X does not start with 00", c.Name, c.FE2OS(x))
		}
	}
	// also with a foreign elliptic.Curve implementation
	ref := elliptic.P256()
	_, px, py, _ := elliptic.GenerateKey(ref, rand.Reader)
	k := FindScalarWithLeadingZeroX(ref, px, py, rand.Reader)
	x, _ := ref.ScalarMult(px, py, k.Bytes())
	if len(x.Bytes()) > 31 {
		t.Errorf("P-256 (stdlib): x = %X", x)
	}
}

func TestISO9796Sign(t *testing.T) {
	for _, bits := range []int{1024, 1021, 1028, 1031} {
		n, d, e, err := GenerateRSAKey(rand.Reader, bits)
		if err != nil || n.BitLen() != bits {
			t.Fatalf("GenerateRSAKey(%d): %v", bits, err)
		}
		for _, h := range []string{"sha1", "sha224", "sha256", "sha384", "sha512"} {
			m1len, err := ISO9796Capacity(bits, h)
			if err != nil {
				t.Fatal(err)
			}
			m1 := make([]byte, m1len)
			rand.Read(m1)
			m2 := hx("0102030405060708")
			sig, err := ISO9796Sign(n, d, h, m1, m2)
			if err != nil {
				t.Fatalf("%d/%s: %v", bits, h, err)
			}
			if len(sig) != (bits+7)/8 {
				t.Errorf("%d/%s: signature length %d", bits, h, len(sig))
			}
			// recover F with the public key
			f := new(big.Int).Exp(new(big.Int).SetBytes(sig), e, n).Bytes()
			tr, _ := iso9796Trailer(h)
			hv, _ := hashBytes(h, append(clone(m1), m2...))
			want := append(append(append([]byte{0x6A}, m1...), hv...), tr...)
			if !bytes.Equal(f, want) {
				t.Errorf("%d/%s: recovered F differs", bits, h)
			}
			if len(f) != bits/8 {
				t.Errorf("%d/%s: F has %d octets", bits, h, len(f))
			}
		}
	}
}
