package chipsim

// Minimal DER building blocks (own encoder; encoding/asn1 is not needed for these few types).

import (
	"fmt"
	"math/big"
	"strconv"
	"strings"
)

// OIDContent returns the content octets (without tag and length) of the DER encoding of a
// dotted object identifier.
func OIDContent(dotted string) ([]byte, error) {
	parts := strings.Split(dotted, ".")
	if len(parts) < 2 {
		return nil, fmt.Errorf("chipsim: bad OID %q", dotted)
	}
	arcs := make([]uint64, len(parts))
	for i, p := range parts {
		v, err := strconv.ParseUint(p, 10, 63)
		if err != nil {
			return nil, fmt.Errorf("chipsim: bad OID %q", dotted)
		}
		arcs[i] = v
	}
	if arcs[0] > 2 || (arcs[0] < 2 && arcs[1] > 39) {
		return nil, fmt.Errorf("chipsim: bad OID %q", dotted)
	}
	var out []byte
	b128 := func(v uint64) {
		var tmp []byte
		tmp = append(tmp, byte(v&0x7F))
		for v >>= 7; v > 0; v >>= 7 {
			tmp = append(tmp, byte(v&0x7F)|0x80)
		}
		for i := len(tmp) - 1; i >= 0; i-- {
			out = append(out, tmp[i])
		}
	}
	b128(arcs[0]*40 + arcs[1])
	for _, a := range arcs[2:] {
		b128(a)
	}
	return out, nil
}

func mustOID(dotted string) []byte {
	b, err := OIDContent(dotted)
	if err != nil {
		panic(err)
	}
	return b
}

// OIDString decodes OID content octets to dotted form.
func OIDString(content []byte) (string, error) {
	if len(content) == 0 || content[len(content)-1]&0x80 != 0 {
		return "", fmt.Errorf("chipsim: bad OID encoding %x", content)
	}
	var arcs []uint64
	var v uint64
	for _, b := range content {
		if v == 0 && b == 0x80 {
			return "", fmt.Errorf("chipsim: bad OID encoding %x (non-minimal arc)", content)
		}
		if v > (1<<56)-1 {
			return "", fmt.Errorf("chipsim: OID arc too large")
		}
		v = v<<7 | uint64(b&0x7F)
		if b&0x80 == 0 {
			if len(arcs) == 0 {
				switch {
				case v < 40:
					arcs = append(arcs, 0, v)
				case v < 80:
					arcs = append(arcs, 1, v-40)
				default:
					arcs = append(arcs, 2, v-80)
				}
			} else {
				arcs = append(arcs, v)
			}
			v = 0
		}
	}
	s := make([]string, len(arcs))
	for i, a := range arcs {
		s[i] = strconv.FormatUint(a, 10)
	}
	return strings.Join(s, "."), nil
}

func derOID(dotted string) []byte { return EncodeTLV(0x06, mustOID(dotted)) }

func derSeq(elems ...[]byte) []byte { return EncodeTLV(0x30, elems...) }

func derSet(elems ...[]byte) []byte { return EncodeTLV(0x31, elems...) }

// derInt encodes a non-negative INTEGER.
func derInt(v *big.Int) []byte {
	b := v.Bytes()
	if len(b) == 0 {
		b = []byte{0}
	}
	if b[0]&0x80 != 0 {
		b = append([]byte{0}, b...)
	}
	return EncodeTLV(0x02, b)
}

func derSmallInt(v int) []byte { return derInt(big.NewInt(int64(v))) }

func derOctets(b []byte) []byte { return EncodeTLV(0x04, b) }

func derBitString(b []byte) []byte { return EncodeTLV(0x03, []byte{0}, b) }

func derNull() []byte { return []byte{0x05, 0x00} }

func derPrintable(s string) []byte { return EncodeTLV(0x13, []byte(s)) }
