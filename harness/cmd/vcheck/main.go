// vcheck is the single driver behind every MANIFEST command:
//   vcheck <ID> <quick|thorough> [--replay <path>]
package main

import (
	"fmt"
	"io"
	"log/slog"
	"os"

	"verif/harness/checks"
	"verif/harness/core"
)

func main() {
	if len(os.Args) < 3 {
		fmt.Fprintln(os.Stderr, "usage: vcheck <ID> <quick|thorough> [--replay <path>]")
		os.Exit(2)
	}
	id, tier := os.Args[1], os.Args[2]
	if tier != "quick" && tier != "thorough" {
		core.Infra("unknown tier %q", tier)
	}
	replay := ""
	for i := 3; i+1 < len(os.Args); i++ {
		if os.Args[i] == "--replay" {
			replay = os.Args[i+1]
		}
	}
	f, ok := checks.Registry[id]
	if !ok {
		core.Infra("no check registered for %s", id)
	}
	// gmrtd logs through slog; the drivers run it hundreds of thousands of times
	slog.SetDefault(slog.New(slog.NewTextHandler(io.Discard, nil)))
	c := core.New(id, tier)
	c.Replay = replay
	defer func() {
		if r := recover(); r != nil {
			// a panic in the harness itself is an infrastructure problem, never a verdict
			core.Infra("harness panic: %v", r)
		}
	}()
	f(c)
	c.Finish()
}
