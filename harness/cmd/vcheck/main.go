// vcheck is the single driver behind every MANIFEST command:
//   vcheck <ID> <quick|thorough> [--replay <path>]
package main

import (
	"time"
	"strconv"
	"fmt"
	"io"
	"log/slog"
	"os"

	"verif/harness/checks"
	"verif/harness/core"
)

func main() {
	if len(os.Args) < 3 {
		fmt.Fprintln(os.Stderr, "usage: vcheck <ID> <quick|thorough> [--replay <path>]")
		os.Exit(2)
	}
	id, tier := os.Args[1], os.Args[2]
	if tier != "quick" && tier != "thorough" {
		core.Infra("unknown tier %q", tier)
	}
	replay := ""
	for i := 3; i+1 < len(os.Args); i++ {
		if os.Args[i] == "--replay" {
			replay = os.Args[i+1]
		}
	}
	f, ok := checks.Registry[id]
	if !ok {
		core.Infra("no check registered for %s", id)
	}
	// gmrtd logs through slog; the drivers run it hundreds of thousands of times
	slog.SetDefault(slog.New(slog.NewTextHandler(io.Discard, nil)))
	c := core.New(id, tier)
	c.Replay = replay
	// watchdog: a check that does not come back (a change to the library that loops where the drivers have no time-out of
	// their own) ends as an infrastructure failure - exit 2 - instead of running for ever. Budgets are several times the
	// measured duration of the slowest check of the tier under load; VERIF_WATCHDOG_MIN overrides.
	budget := 60 * time.Minute
	if tier == "thorough" {
		budget = 6 * time.Hour
	}
	if v, err := strconv.Atoi(os.Getenv("VERIF_WATCHDOG_MIN")); err == nil && v > 0 {
		budget = time.Duration(v) * time.Minute
	}
	time.AfterFunc(budget, func() {
		fmt.Fprintf(os.Stderr, "INFRA: %s %s did not finish within %s\n", id, tier, budget)
		os.Exit(2)
	})
	defer func() {
		if r := recover(); r != nil {
			// a panic in the harness itself is an infrastructure problem, never a verdict
			core.Infra("harness panic: %v", r)
		}
	}()
	f(c)
	c.Finish()
}
