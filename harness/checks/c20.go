package checks

import (
	"bytes"
	"fmt"
	"math/rand"
	"os"
	"os/exec"
	"path/filepath"
	"runtime"
	"strconv"
	"strings"
	"sync"
	"time"

	"github.com/gmrtd/gmrtd/cms"
	"github.com/gmrtd/gmrtd/document"
	"github.com/gmrtd/gmrtd/iso7816"
	"github.com/gmrtd/gmrtd/mobile"
	"github.com/gmrtd/gmrtd/passiveauth"
	"github.com/gmrtd/gmrtd/password"
	"github.com/gmrtd/gmrtd/reader"
	"github.com/gmrtd/gmrtd/verifhook"
	"github.com/gmrtd/gmrtd/verifier"

	"verif/harness/chipsim"
	"verif/harness/core"
	"verif/harness/perso"
	"verif/harness/sim"
	"verif/harness/pki"
)

func init() { Registry["C20"] = C20; Registry["C20race"] = C20race; Registry["C20cold"] = C20cold }

// goid: the id of the calling goroutine (the library calls the transceiver / the certificate pool on the
// goroutine of the caller of ReadDocument / Verify, which is how an exchange is attributed to a call).
func goid() int64 {
	var buf [64]byte
	n := runtime.Stack(buf[:], false)
	f := strings.Fields(string(buf[:n]))
	if len(f) < 2 {
		return -1
	}
	id, _ := strconv.ParseInt(f[1], 10, 64)
	return id
}

// ---- gates -------------------------------------------------------------------------------------------------
// A gate stops a long call INSIDE its critical section (in Transceive / in a certificate pool lookup) until the
// controller opens it: that is how a schedule of Concurrency.tla is forced on the real objects.

type gateEvent struct {
	g string
	n int
}

type gates struct {
	mu     sync.Mutex
	names  map[int64]string // goroutine id -> goroutine name of the schedule
	count  map[string]int   // points passed in the current call of g
	stopAt map[int]bool     // point indices (0-based within the call) at which to stop; nil = never
	arrive chan gateEvent
	open   map[string]chan struct{}
	xmu    sync.Mutex
	xlog   []string // who performed each exchange, in the order the chip / pool saw them
}

func newGates(stopAt ...int) *gates {
	g := &gates{names: map[int64]string{}, count: map[string]int{}, arrive: make(chan gateEvent, 64), open: map[string]chan struct{}{}}
	if len(stopAt) > 0 {
		g.stopAt = map[int]bool{}
		for _, s := range stopAt {
			g.stopAt[s] = true
		}
	}
	return g
}

func (g *gates) register(name string) { g.mu.Lock(); g.names[goid()] = name; g.mu.Unlock() }
func (g *gates) newCall(name string)  { g.mu.Lock(); g.count[name] = 0; g.mu.Unlock() }

// point is called by the wrapped transceiver / pool; it returns the caller's name and the index of the point.
func (g *gates) point() (string, int) {
	g.mu.Lock()
	name, ok := g.names[goid()]
	if !ok {
		name = "?"
	}
	n := g.count[name]
	g.count[name]++
	var ch chan struct{}
	if g.stopAt[n] {
		ch = make(chan struct{})
		g.open[name] = ch
	}
	g.mu.Unlock()
	if ch != nil {
		g.arrive <- gateEvent{name, n}
		<-ch
	}
	return name, n
}

func (g *gates) release(name string) bool {
	g.mu.Lock()
	ch := g.open[name]
	delete(g.open, name)
	g.mu.Unlock()
	if ch == nil {
		return false
	}
	close(ch)
	return true
}

func (g *gates) releaseAll() {
	g.mu.Lock()
	for k, ch := range g.open {
		close(ch)
		delete(g.open, k)
	}
	g.stopAt = nil
	g.mu.Unlock()
}

// gateTx: the chip behind gates. The first command of a call power-cycles the chip (every read starts with
// the activation of the card).
type gateTx struct {
	g    *gates
	chip *chipsim.Chip
	t0   sync.Map // goroutine name -> chipsim.Truth at the first exchange of its current call
}

// truth0 is the chip's record at the moment g's current call performed its first exchange (fallback: now).
func (t *gateTx) truth0(fallback chipsim.Truth) chipsim.Truth {
	t.g.mu.Lock()
	name := t.g.names[goid()]
	t.g.mu.Unlock()
	if v, ok := t.t0.LoadAndDelete(name); ok {
		return v.(chipsim.Truth)
	}
	return fallback
}

func (t *gateTx) Transceive(cla, ins, p1, p2 int, data []byte, le int, enc []byte) []byte {
	name, n := t.g.point()
	t.g.xmu.Lock()
	defer t.g.xmu.Unlock()
	if n == 0 {
		t.t0.Store(name, t.chip.Truth())
		t.chip.Reset()
	}
	t.g.xlog = append(t.g.xlog, name)
	return t.chip.Process(enc)
}

// gatePool: a certificate pool behind gates (read-only lookups).
type gatePool struct {
	g     *gates
	inner cms.CertPool
}

func (p *gatePool) hit() {
	name, _ := p.g.point()
	p.g.xmu.Lock()
	p.g.xlog = append(p.g.xlog, name)
	p.g.xmu.Unlock()
}
func (p *gatePool) BySKI(ski []byte) []cms.Certificate { p.hit(); return p.inner.BySKI(ski) }
func (p *gatePool) ByIssuerAndSerial(raw []byte) ([]cms.Certificate, error) {
	return p.inner.ByIssuerAndSerial(raw)
}
func (p *gatePool) ByIssuerCountry(c string) []cms.Certificate { p.hit(); return p.inner.ByIssuerCountry(c) }
func (p *gatePool) All() []cms.Certificate                     { return p.inner.All() }

// ---- the shared objects --------------------------------------------------------------------------------------

// seenCfg is the configuration a long call used, observed at the chip / in its result.
type seenCfg struct {
	SkipPace   bool
	SkipImages bool
	Challenge  int // 0 none (library generated), 1, 2, 7: the caller's challenge c = 8 octets of value c
	MaxLe      int // 0 default
}

type longResult struct {
	Err   string
	Seen  seenCfg
	Files []int
	Equal bool // every file obtained equals the chip's
}

type sharedObj interface {
	Set(field string, v any) error
	Long() longResult
}

func challengeBytes(c int) []byte { return bytes.Repeat([]byte{byte(c)}, 8) }
func challengeID(b []byte) int {
	for _, c := range []int{1, 2, 7} {
		if bytes.Equal(b, challengeBytes(c)) {
			return c
		}
	}
	return 0
}

// observe derives the configuration a read used from what the chip saw between two truth snapshots.
func observeRead(t0, t1 chipsim.Truth) seenCfg {
	s := seenCfg{SkipPace: t1.PaceAttempts == t0.PaceAttempts, SkipImages: true}
	for _, sel := range t1.Selects[min(len(t0.Selects), len(t1.Selects)):] {
		if sel.EF == 0x0102 {
			s.SkipImages = false
		}
	}
	if len(t1.AaChallenges) > len(t0.AaChallenges) {
		s.Challenge = challengeID(t1.AaChallenges[len(t1.AaChallenges)-1])
	}
	maxLe := 0
	for _, r := range t1.Reads[min(len(t0.Reads), len(t1.Reads)):] {
		if r.Le > maxLe {
			maxLe = r.Le
		}
	}
	if maxLe <= 100 {
		s.MaxLe = 100
	}
	return s
}

func filesOf(d *document.Document, p *perso.Passport) (files []int, equal bool) {
	equal = true
	if d == nil {
		return nil, true
	}
	l := d.Mf.Lds1
	add := func(n int, raw []byte) {
		files = append(files, n)
		if !bytes.Equal(raw, p.AppFiles[0x0100+uint16(n)]) {
			equal = false
		}
	}
	if l.Dg1 != nil {
		add(1, l.Dg1.RawData)
	}
	if l.Dg2 != nil {
		add(2, l.Dg2.RawData)
	}
	if l.Dg14 != nil {
		add(14, l.Dg14.RawData)
	}
	if l.Dg15 != nil {
		add(15, l.Dg15.RawData)
	}
	return
}

type mobileReaderObj struct {
	r    *mobile.Reader
	chip *chipsim.Chip
	p    *perso.Passport
	tx   *gateTx
}

func (o *mobileReaderObj) Set(f string, v any) error {
	switch f {
	case "skipPace":
		o.r.SkipPace()
	case "skipImages":
		o.r.SkipImages()
	case "challenge":
		_, err := o.r.WithAAChallenge(challengeBytes(v.(int)))
		return err
	case "maxLe":
		return o.r.SetApduMaxLe(v.(int))
	}
	return nil
}

func (o *mobileReaderObj) Long() (res longResult) {
	pw, err := mobile.NewPasswordMrz(o.p.MRZ)
	if err != nil {
		core.Infra("C20: NewPasswordMrz: %v", err)
	}
	t0 := o.chip.Truth()
	doc, err := o.r.ReadDocument(pw, []byte{0x3B, 0x80}, nil)
	t1 := o.chip.Truth()
	res.Seen = observeRead(o.tx.truth0(t0), t1)
	res.Equal = true
	if err != nil {
		res.Err = err.Error()
		return
	}
	blob, err := doc.DocumentExCbor()
	if err != nil {
		res.Err = "DocumentExCbor: " + err.Error()
		return
	}
	d, _, err := document.UnmarshalVerifiableDoc(blob)
	if err != nil {
		res.Err = "UnmarshalVerifiableDoc: " + err.Error()
		return
	}
	res.Files, res.Equal = filesOf(d, o.p)
	return
}

type readerObj struct {
	r    *reader.Reader
	chip *chipsim.Chip
	p    *perso.Passport
	tx   *gateTx
}

func (o *readerObj) Set(f string, v any) error {
	switch f {
	case "skipPace":
		o.r.SkipPace()
	case "skipImages":
		o.r.SkipImages()
	case "challenge":
		_, err := o.r.WithAAChallenge(challengeBytes(v.(int)))
		return err
	}
	return nil
}

func (o *readerObj) Long() (res longResult) {
	pw, _ := password.NewPasswordMrz(o.p.MRZ)
	t0 := o.chip.Truth()
	docEx, _, err := o.r.ReadDocument(pw, []byte{0x3B, 0x80}, nil)
	t1 := o.chip.Truth()
	res.Seen = observeRead(o.tx.truth0(t0), t1)
	res.Equal = true
	if err != nil {
		res.Err = "error" // a Reader is single-session: what matters is that the outcome equals the sequential one
	}
	if docEx != nil {
		res.Files, res.Equal = filesOf(&docEx.Document, o.p)
	}
	return
}

type verifierObj struct {
	v    *verifier.Verifier
	blob []byte
}

func (o *verifierObj) Set(f string, v any) error {
	if f == "challenge" {
		_, err := o.v.WithAAChallenge(challengeBytes(v.(int)))
		return err
	}
	return nil
}

func (o *verifierObj) Long() (res longResult) {
	de, err := o.v.Verify(o.blob)
	res.Equal = true
	// the evidence nonce is challenge 1: Verify hard-fails exactly when the configured challenge is another one
	if err != nil {
		res.Err = "error"
		if strings.Contains(err.Error(), "nonce mismatch") {
			res.Seen.Challenge = 2
		}
		return
	}
	res.Seen.Challenge = 1 // or none: both give no error; the schedule's programs always set a challenge first
	if de != nil && de.Session.PassiveAuthResult != nil && de.Session.PassiveAuthResult.Success {
		res.Files = []int{1}
	}
	return
}

// ---- schedules of Concurrency.tla ------------------------------------------------------------------------------

type c20op struct {
	long  bool
	field string
	val   any
}

type c20behaviour struct {
	labels  [][2]string // (action, goroutine)
	results []struct {
		g    string
		i    int
		seen map[string]any
	}
	xlog [][2]any
	lin  [][2]any
}

var c20programs = map[string]map[string][]c20op{
	"MC_Concurrency_enum.cfg":  {"g1": {{false, "challenge", 1}, {true, "", nil}}, "g2": {{false, "skipImages", true}, {false, "challenge", 2}, {true, "", nil}}},
	"MC_Concurrency_enum2.cfg": {"g1": {{true, "", nil}, {false, "skipPace", true}}, "g2": {{true, "", nil}, {false, "maxLe", 100}, {true, "", nil}}},
	"MC_Concurrency_enum3.cfg": {"g1": {{false, "challenge", 1}, {true, "", nil}}, "g2": {{false, "challenge", 2}, {true, "", nil}, {false, "challenge", 1}}},
}

func c20Behaviours(c *core.Ctx, cfg string) []c20behaviour {
	var out []c20behaviour
	c.MustTLC(core.TLCOpts{Module: "MC_Concurrency", Cfg: cfg, Workers: 4, OnLine: func(line string) {
		if !strings.HasPrefix(line, "<<\"B\"") {
			return
		}
		v, err := core.ParseTLA(line)
		if err != nil {
			core.Infra("C20: %v", err)
		}
		t := v.([]any)
		var b c20behaviour
		for _, l := range t[1].([]any) {
			p := l.([]any)
			b.labels = append(b.labels, [2]string{core.Str(p[0]), core.Str(p[1])})
		}
		for _, r := range t[2].([]any) {
			m := r.(map[string]any)
			b.results = append(b.results, struct {
				g    string
				i    int
				seen map[string]any
			}{core.Str(m["g"]), m["i"].(int), m["seen"].(map[string]any)})
		}
		out = append(out, b)
	}})
	return out
}

type opDone struct {
	g   string
	idx int
	op  c20op
	res longResult
	err error
}

// replayShared forces the controllable steps of one behaviour (start a call / let a call perform its next exchange)
// on a fresh shared object and records what the controller observes, in its order of observation:
// call / gate / open / ret lines for Trace_Concurrency. It also returns a direct finding, if any (a call that
// never returns, a file that differs, exchanges of two calls interleaved at the chip).
func replayShared(b c20behaviour, progs map[string][]c20op, mk func(g *gates) sharedObj, strictCfg bool) (lines []map[string]any, finding string) {
	gt := newGates(0, 12)
	obj := mk(gt)
	starts := map[string]chan c20op{}
	done := make(chan opDone, 16)
	var wg sync.WaitGroup
	for name, prog := range progs {
		ch := make(chan c20op)
		starts[name] = ch
		wg.Add(1)
		go func(name string, n int) {
			defer wg.Done()
			gt.register(name)
			for i := 0; i < n; i++ {
				op, ok := <-ch
				if !ok {
					return
				}
				d := opDone{g: name, idx: i + 1, op: op}
				if op.long {
					gt.newCall(name)
					d.res = obj.Long()
				} else {
					d.err = obj.Set(op.field, op.val)
				}
				done <- d
			}
		}(name, len(prog))
	}
	defer func() {
		gt.releaseAll()
		for _, ch := range starts {
			close(ch)
		}
		wg.Wait()
	}()
	atGate := map[string]bool{}
	inflight := map[string]bool{}
	nDone := 0
	total := 0
	for _, p := range progs {
		total += len(p)
	}
	record := func(d opDone) {
		nDone++
		inflight[d.g] = false
		l := map[string]any{"e": "ret", "g": d.g, "i": d.idx, "long": d.op.long, "cmp": []string{}, "seen": map[string]any{"skipPace": false, "skipImages": false, "challenge": 0, "maxLe": 0}}
		if d.op.long {
			cmp := []string{}
			if strictCfg && d.res.Err == "" {
				cmp = []string{"skipPace", "skipImages", "maxLe", "challenge"}
			} else if d.res.Seen.Challenge != 0 {
				cmp = []string{"challenge"} // an error path reveals only what it got to use
			}
			l["cmp"] = cmp
			l["seen"] = map[string]any{"skipPace": d.res.Seen.SkipPace, "skipImages": d.res.Seen.SkipImages, "challenge": d.res.Seen.Challenge, "maxLe": d.res.Seen.MaxLe}
			if !d.res.Equal {
				finding = fmt.Sprintf("long call %s/%d returned a file that differs from the chip's", d.g, d.idx)
			}
		}
		lines = append(lines, l)
	}
	// collect observations until nothing has happened for a while
	collect := func(quiet time.Duration) {
		t := time.NewTimer(quiet)
		defer t.Stop()
		for {
			select {
			case ev := <-gt.arrive:
				atGate[ev.g] = true
				lines = append(lines, map[string]any{"e": "gate", "g": ev.g})
			case d := <-done:
				record(d)
			case <-t.C:
				return
			}
			if !t.Stop() {
				select {
				case <-t.C:
				default:
				}
			}
			t.Reset(quiet)
		}
	}
	// waitFor: until g shows progress (arrives at a gate or returns), at most d
	waitFor := func(g string, d time.Duration) {
		t := time.After(d)
		for inflight[g] && !atGate[g] {
			select {
			case ev := <-gt.arrive:
				atGate[ev.g] = true
				lines = append(lines, map[string]any{"e": "gate", "g": ev.g})
			case dd := <-done:
				record(dd)
			case <-t:
				return
			}
		}
	}
	next := map[string]int{}
	for _, l := range b.labels {
		act, g := l[0], l[1]
		switch act {
		case "call":
			// the previous operation of g must have returned (and been logged) before its next one is called
			deadline := time.After(5 * time.Minute)
			for inflight[g] {
				select {
				case ev := <-gt.arrive:
					atGate[ev.g] = true
					lines = append(lines, map[string]any{"e": "gate", "g": ev.g})
				case d := <-done:
					record(d)
				case <-deadline:
					return lines, fmt.Sprintf("%s's previous operation never returned", g)
				}
			}
			next[g]++
			inflight[g] = true
			lines = append(lines, map[string]any{"e": "call", "g": g, "i": next[g]})
			starts[g] <- progs[g][next[g]-1]
			waitFor(g, 150*time.Millisecond) // a call that gets the lock shows up at once; silence = blocked
			collect(20 * time.Millisecond)
		case "x":
			waitFor(g, 15*time.Second) // the call is on its way to its next gate (or to its end)
			if atGate[g] {
				atGate[g] = false
				lines = append(lines, map[string]any{"e": "open", "g": g})
				gt.release(g)
				collect(20 * time.Millisecond)
			}
		}
	}
	// let everything run to its end
	deadline := time.After(5 * time.Minute)
	for nDone < total {
		for g, at := range atGate {
			if at {
				atGate[g] = false
				lines = append(lines, map[string]any{"e": "open", "g": g})
				gt.release(g)
			}
		}
		select {
		case ev := <-gt.arrive:
			atGate[ev.g] = true
			lines = append(lines, map[string]any{"e": "gate", "g": ev.g})
		case d := <-done:
			record(d)
		case <-deadline:
			return lines, "an operation never returned (deadlock or lost wake-up)"
		}
	}
	// the chip / pool saw the exchanges of each call as one block
	gt.xmu.Lock()
	x := append([]string{}, gt.xlog...)
	gt.xmu.Unlock()
	blocks := map[string]int{}
	for i, g := range x {
		if i == 0 || x[i-1] != g {
			blocks[g]++
		}
	}
	for g, n := range blocks {
		longs := 0
		for _, o := range progs[g] {
			if o.long {
				longs++
			}
		}
		if n > longs {
			finding = fmt.Sprintf("the exchanges of %s's %d long call(s) reached the chip / trust store in %d separate blocks: calls interleaved", g, longs, n)
		}
	}
	return lines, finding
}

func ctlOnly(labels [][2]string) []string {
	var out []string
	for _, l := range labels {
		if l[0] == "call" || l[0] == "x" {
			out = append(out, l[0]+" "+l[1])
		}
	}
	return out
}

func obsString(lines []map[string]any) string {
	var out []string
	for _, l := range lines {
		s := fmt.Sprintf("%v %v", l["e"], l["g"])
		if l["e"] == "ret" && l["long"] == true {
			s += fmt.Sprintf("%v", l["seen"])
		}
		out = append(out, s)
	}
	return strings.Join(out, ", ")
}

func lens(m map[string][]opDone) map[string]int {
	out := map[string]int{}
	for k, v := range m {
		out[k] = len(v)
	}
	return out
}

// C20 — shared readers, verifiers and trust stores are safe under concurrency.
func C20(c *core.Ctx) {
	c.Rule = "one case per (forced schedule of Concurrency.tla, shared object kind) / (interleaving of independent verifications) / contended random run; non-trivial = all; distinct by schedule + object"
	c.Assume("schedules are forced at the gates the public interfaces offer (Transceiver, CertPool); interleavings inside the Go runtime finer than the gates are sampled by the contended runs under the race detector, not enumerated")

	// ---- design level ----------------------------------------------------------------------------------------
	c.MustTLC(core.TLCOpts{Module: "MC_Concurrency", Cfg: "MC_Concurrency_shared.cfg"})
	c.MustTLC(core.TLCOpts{Module: "MC_Concurrency", Cfg: "MC_Concurrency_indep.cfg", Workers: 2})
	c.MustTLC(core.TLCOpts{Module: "MC_Concurrency", Cfg: "MC_Concurrency_once.cfg", Workers: 2})
	for _, bad := range []string{"MC_Concurrency_snapshot.cfg", "MC_Concurrency_nolock.cfg", "MC_Concurrency_sharedctx.cfg", "MC_Concurrency_notifyafter.cfg"} {
		if r, err := c.TLC(core.TLCOpts{Module: "MC_Concurrency", Cfg: bad, Workers: 2}); err != nil {
			core.Infra("%v", err)
		} else if r.OK {
			core.Infra("%s: expected a counterexample (the design without whole-call locking / without the mutex / with a shared verification context), found none", bad)
		}
	}

	// ---- part 1: forced schedules on shared objects -------------------------------------------------------------
	v := randomVariety(rand.New(rand.NewSource(c.Seed)))
	v.Transport = chipsim.Transport{ExtendedLength: true, AllowOversizeShortResponse: true, LengthErrorKeepsSession: true}
	v.MaxLe, v.AaBits, v.DG13Size = 256, 1024, 0
	p, err := personalise(sessCfg{"pace+bac", []int{2}, "rsa", false, true, "genuine"}, v)
	if err != nil {
		core.Infra("personalise: %v", err)
	}
	if err := mobile.PreloadCscaCertPool(); err != nil {
		core.Infra("PreloadCscaCertPool: %v", err)
	}
	pool := &cms.GenericCertPool{}
	for _, t := range p.Trust {
		_ = pool.Add(t)
	}
	// a blob with AA evidence whose nonce is challenge 1, for the shared verifier
	o1 := runSession(p, sessOpt{false, true, "mrz"}, 256, nil, challengeBytes(1), v.Seed)
	if o1.err != "" || o1.docEx == nil {
		core.Infra("C20: reference read failed: %s", o1.err)
	}
	blob, err := o1.docEx.ToCbor()
	if err != nil {
		core.Infra("C20: ToCbor: %v", err)
	}
	type objKind struct {
		name   string
		cfgs   []string
		strict bool
		mk     func(g *gates) sharedObj
	}
	kinds := []objKind{
		{"mobile.Reader", []string{"MC_Concurrency_enum.cfg", "MC_Concurrency_enum2.cfg"}, true, func(g *gates) sharedObj {
			chip, _ := p.Chip()
			tx := &gateTx{g: g, chip: chip}
			return &mobileReaderObj{r: mobile.NewReader(nil, tx), chip: chip, p: p, tx: tx}
		}},
		{"reader.Reader", []string{"MC_Concurrency_enum.cfg"}, false, func(g *gates) sharedObj {
			chip, _ := p.Chip()
			tx := &gateTx{g: g, chip: chip}
			return &readerObj{r: reader.NewReader(nil, iso7816.NewNfcSession(tx), pool), chip: chip, p: p, tx: tx}
		}},
		{"verifier.Verifier", []string{"MC_Concurrency_enum3.cfg"}, false, func(g *gates) sharedObj {
			return &verifierObj{v: verifier.NewVerifier(&gatePool{g, pool}), blob: blob}
		}},
	}
	behaviours := map[string][]c20behaviour{}
	total := 0
	for _, k := range kinds {
		for _, cfg := range k.cfgs {
			if _, ok := behaviours[cfg]; !ok {
				behaviours[cfg] = c20Behaviours(c, cfg)
				if len(behaviours[cfg]) < 10 {
					core.Infra("C20: %s gave only %d behaviours", cfg, len(behaviours[cfg]))
				}
			}
			bs := behaviours[cfg]
			type rr struct {
				lines   []map[string]any
				finding string
			}
			res := make([]rr, len(bs))
			core.ParallelFor(len(bs), func(i int) {
				res[i].lines, res[i].finding = replayShared(bs[i], c20programs[cfg], k.mk, k.strict)
			})
			var trace, index [][]byte
			for i := range bs {
				from := len(trace) + 1
				for _, l := range res[i].lines {
					trace = append(trace, core.JSONLine(l))
				}
				index = append(index, core.JSONLine(map[string]any{"from": from, "to": len(trace)}))
			}
			accepted := map[int]bool{}
			prog := strings.TrimSuffix(strings.TrimPrefix(cfg, "MC_Concurrency_"), ".cfg")
			tr, err := c.TLC(core.TLCOpts{Module: "Trace_Concurrency", Cfg: "Trace_Concurrency_" + prog + ".cfg", Workers: 4,
				Files: map[string][]byte{"trace.ndjson": bytes.Join(trace, []byte("\n")), "index.ndjson": bytes.Join(index, []byte("\n"))},
				OnLine: func(line string) {
					if strings.HasPrefix(line, "<<\"ACCEPT\"") {
						if v, err := core.ParseTLA(line); err == nil {
							accepted[v.([]any)[1].(int)] = true
						}
					}
				}})
			if err != nil {
				core.Infra("C20: trace validation: %v", err)
			}
			if !tr.OK {
				// an invariant of Concurrency.tla violated on a path that explains a recorded trace
				core.Infra("C20: Trace_Concurrency reported errors:\n%s", strings.Join(tr.Errors, "\n"))
			}
			for i := range bs {
				total++
				c.Case(fmt.Sprintf("shared/%s/%s/%d", k.name, cfg, i), true)
				rp := map[string]any{"object": k.name, "instance": cfg, "schedule": bs[i].labels, "observed": res[i].lines}
				if res[i].finding != "" {
					c.Violation("C20:shared-"+k.name, fmt.Sprintf("%s: %s (forced schedule %v)", k.name, res[i].finding, ctlOnly(bs[i].labels)), rp)
				} else if !accepted[i+1] {
					c.Violation("C20:shared-"+k.name, fmt.Sprintf("%s: the observed execution is not a behaviour of Concurrency.tla (no placement of lock acquisitions explains it): forced schedule %v, observed %s", k.name, ctlOnly(bs[i].labels), obsString(res[i].lines)), rp)
				}
			}
		}
	}
	c.AddTraces(int64(total))
	c.Extra["forced_schedules"] = total

	// ---- status callbacks of a shared reader.Reader: one block per call (Concurrency.tla CallbacksSerial) ----------------
	c20CallbackOrder(c, p, pool)

	// ---- part 2: independent verifications sharing one trust store --------------------------------------------------
	c20Independent(c)

	// ---- part 3: the lazily built trust store -------------------------------------------------------------------------
	c20Once(c)

	// ---- contended random runs under the race detector (separate binary built with -race) -----------------------------
	c20RaceRun(c)
	c.Sample(map[string]any{"object": "mobile.Reader", "schedule": behaviours["MC_Concurrency_enum.cfg"][0].labels})
}

// twoDocs issues two documents of two countries whose chains are valid at disjoint times, and one pool holding both anchors.
type indepDoc struct {
	name string
	doc  *document.Document
}

func c20Docs(c *core.Ctx) ([]indepDoc, *cms.GenericCertPool) {
	pool := &cms.GenericCertPool{}
	var out []indepDoc
	for i, w := range []struct {
		country, a3 string
		nb, na, st   time.Time
	}{
		{"NL", "NLD", time.Date(2018, 1, 1, 0, 0, 0, 0, time.UTC), time.Date(2025, 1, 1, 0, 0, 0, 0, time.UTC), time.Date(2024, 5, 1, 0, 0, 0, 0, time.UTC)},
		{"DE", "D<<", time.Date(2028, 1, 1, 0, 0, 0, 0, time.UTC), time.Date(2036, 1, 1, 0, 0, 0, 0, time.UTC), time.Date(2030, 5, 1, 0, 0, 0, 0, time.UTC)},
	} {
		ks := pki.KeySpec{Kind: "ecdsa", Curve: "P-256", Hash: "sha256"}
		ca, err := pki.NewCA(pki.CertSpec{Rand: rand.New(rand.NewSource(c.Seed + int64(i))), Subject: pki.DN(w.country, "State", "CSCA "+w.country), KeySpec: ks, NotBefore: w.nb, NotAfter: w.na})
		if err != nil {
			core.Infra("C20: NewCA: %v", err)
		}
		ds, err := ca.IssueDS(pki.CertSpec{Subject: pki.DN(w.country, "State", "DS "+w.country), NotBefore: w.nb, NotAfter: w.na})
		if err != nil {
			core.Infra("C20: IssueDS: %v", err)
		}
		dgs := map[int][]byte{1: pki.MakeDG1(pki.MakeTD3MRZ(w.a3, "L898902C3"))}
		sod, err := pki.BuildSOD(pki.NewSODSpec(ds, dgs, w.st))
		if err != nil {
			core.Infra("C20: BuildSOD: %v", err)
		}
		d := &document.Document{}
		if d.Mf.Lds1.Sod, err = document.NewSOD(sod); err != nil {
			core.Infra("C20: NewSOD: %v", err)
		}
		if d.Mf.Lds1.Dg1, err = document.NewDG1(dgs[1]); err != nil {
			core.Infra("C20: NewDG1: %v", err)
		}
		_ = pool.Add(ca.Cert)
		out = append(out, indepDoc{w.country, d})
	}
	return out, pool
}

// c20Independent: every interleaving (at the pool-lookup gates) of independent passive authentications of documents
// whose chains are valid at disjoint times; each must return what it returns alone.
func c20Independent(c *core.Ctx) {
	docs, pool := c20Docs(c)
	for _, d := range docs {
		r, err := passiveauth.PassiveAuth(d.doc, pool)
		if err != nil || r == nil || !r.Success {
			core.Infra("C20: the document of %s does not verify alone: %v", d.name, err)
		}
	}
	// calls: A, B, A2 (second verification of document A); points per call: the pool lookups (2: country pool, BySKI)
	calls := []int{0, 1, 0}
	const points = 2
	// all interleavings of 3 calls x (points+1) steps: step k of a call = pass its k-th gate (the last step = run to the end)
	var scheds [][]int
	var gen func(cur []int, left []int)
	gen = func(cur []int, left []int) {
		doneAll := true
		for ci, l := range left {
			if l > 0 {
				doneAll = false
				nl := append([]int{}, left...)
				nl[ci]--
				gen(append(append([]int{}, cur...), ci), nl)
			}
		}
		if doneAll {
			scheds = append(scheds, cur)
		}
	}
	gen(nil, []int{points, points, points})
	if !c.Thorough() && len(scheds) > 90 {
		scheds = scheds[:90]
	}
	bad := make([]string, len(scheds))
	core.ParallelFor(len(scheds), func(si int) {
		gt := newGates(0, 1)
		gp := &gatePool{gt, pool}
		type res struct {
			ok  bool
			err error
		}
		results := make([]chan res, len(calls))
		for ci, di := range calls {
			results[ci] = make(chan res, 1)
			go func(ci, di int) {
				gt.register(fmt.Sprintf("v%d", ci))
				r, err := passiveauth.PassiveAuth(docs[di].doc, gp)
				results[ci] <- res{err == nil && r != nil && r.Success, err}
			}(ci, di)
		}
		// wait until every call is at its first gate
		at := map[string]bool{}
		timeout := time.After(5 * time.Minute)
		for len(at) < len(calls) {
			select {
			case ev := <-gt.arrive:
				at[ev.g] = true
			case <-timeout:
				bad[si] = "calls did not reach their first trust-store lookup"
				gt.releaseAll()
				return
			}
		}
		for _, ci := range scheds[si] {
			name := fmt.Sprintf("v%d", ci)
			gt.release(name)
			// the call proceeds to its next gate or returns
			select {
			case <-gt.arrive:
			case r := <-results[ci]:
				results[ci] <- r
			case <-time.After(5 * time.Minute):
				bad[si] = "a verification made no progress"
				gt.releaseAll()
				return
			}
		}
		gt.releaseAll()
		for ci := range calls {
			select {
			case r := <-results[ci]:
				if !r.ok {
					bad[si] = fmt.Sprintf("verification %d (document %s) failed in schedule %v although it succeeds alone: %v", ci, docs[calls[ci]].name, scheds[si], r.err)
				}
			case <-time.After(5 * time.Minute):
				bad[si] = "a verification did not return"
			}
		}
	})
	for si := range scheds {
		c.Case(fmt.Sprintf("indep/%v", scheds[si]), true)
		if bad[si] != "" {
			c.Violation("C20:independent-verifications", bad[si], map[string]any{"schedule": scheds[si]})
		}
	}
	c.AddTraces(int64(len(scheds)))
	c.Extra["independent_interleavings"] = len(scheds)
}

var c20InitCount int64
var c20InitMu sync.Mutex

// c20Once: the process-wide trust store is built once however many callers race for it.
func c20Once(c *core.Ctx) {
	// the hook fires inside the sync.Once body; by now the pool was preloaded once in this process
	c20InitMu.Lock()
	n0 := c20InitCount
	c20InitMu.Unlock()
	var wg sync.WaitGroup
	errs := make(chan error, 64)
	for i := 0; i < 32; i++ {
		wg.Add(1)
		go func() {
			defer wg.Done()
			errs <- mobile.PreloadCscaCertPool()
		}()
	}
	wg.Wait()
	close(errs)
	for e := range errs {
		if e != nil {
			c.Violation("C20:once", fmt.Sprintf("PreloadCscaCertPool returned %v", e), nil)
		}
	}
	c20InitMu.Lock()
	n1 := c20InitCount
	c20InitMu.Unlock()
	c.Case("once/32-callers", true)
	if n1 != 1 || n0 != 1 {
		c.Violation("C20:once", fmt.Sprintf("the built-in trust store was initialised %d times (before the contended calls: %d)", n1, n0), nil)
	}
	c.Extra["csca_init_events"] = n1
}

func init() {
	verifhook.SetEvent(func(name string) {
		if name == "csca.init" {
			c20InitMu.Lock()
			c20InitCount++
			c20InitMu.Unlock()
		}
	})
}

// c20RaceRun builds the driver with the race detector and runs the contended workload in it.
func c20RaceRun(c *core.Ctx) {
	bin := filepath.Join(c.Root, ".build", "vcheck-race")
	if c.Repo != "/repo" {
		bin += "-" + filepath.Base(c.Repo)
	}
	args := []string{"build", "-race", "-tags", "verif", "-o", bin}
	if c.Repo != "/repo" {
		// same private modfile as bin/build uses for a scratch worktree
		m, _ := filepath.Glob(filepath.Join(c.Root, ".build", "alt-*.mod"))
		for _, f := range m {
			if b, err := os.ReadFile(f); err == nil && strings.Contains(string(b), "=> "+c.Repo+"\n") {
				args = append(args, "-modfile="+f)
			}
		}
	}
	args = append(args, "./cmd/vcheck")
	cmd := exec.Command("go", args...)
	cmd.Dir = filepath.Join(c.Root, "harness")
	cmd.Env = append(os.Environ(), "CGO_ENABLED=1")
	if out, err := cmd.CombinedOutput(); err != nil {
		core.Infra("C20: building the race-detector driver failed: %v\n%s", err, out)
	}
	c20RaceExec(c, bin, "C20race", "contended", nil)
	// cold starts: a fresh process whose FIRST use of the library is already parallel (lazily built tables are
	// initialised under contention only then); inputs are prepared here, in the warm parent
	dir := filepath.Join(c.Work, "cold")
	_ = os.MkdirAll(dir, 0o755)
	v := randomVariety(rand.New(rand.NewSource(c.Seed)))
	v.Transport = chipsim.Transport{ExtendedLength: true, AllowOversizeShortResponse: true, LengthErrorKeepsSession: true}
	v.MaxLe, v.AaBits, v.DG13Size = 256, 1024, 0
	p, err := personalise(sessCfg{"bac", []int{2}, "rsa", false, true, "genuine"}, v)
	if err != nil {
		core.Infra("personalise: %v", err)
	}
	o1 := runSession(p, sessOpt{false, false, "mrz"}, 256, nil, challengeBytes(1), v.Seed)
	if o1.err != "" || o1.docEx == nil {
		core.Infra("C20: reference read failed: %s", o1.err)
	}
	blob, _ := o1.docEx.ToCbor()
	_ = os.WriteFile(filepath.Join(dir, "blob.cbor"), blob, 0o644)
	for i, t := range p.Trust {
		_ = os.WriteFile(filepath.Join(dir, fmt.Sprintf("trust-%d.der", i)), t, 0o644)
	}
	for k := 0; k < core.Pick(c, 3, 10); k++ {
		mode := []string{"verify", "read", "verify-mobile"}[k%3]
		c20RaceExec(c, bin, "C20cold", fmt.Sprintf("cold-start/%s/%d", mode, k), []string{"VERIF_C20_COLD=" + dir, "VERIF_C20_COLD_MODE=" + mode, fmt.Sprintf("VERIF_C20_COLD_RUN=%d", k)})
	}
}

// c20RaceExec runs one entry of the race-detector build and turns reports / differing results into violations.
func c20RaceExec(c *core.Ctx, bin, entry, label string, env []string) {
	logBase := filepath.Join(c.Work, "race-"+strings.ReplaceAll(label, "/", "-"))
	run := exec.Command(bin, entry, c.Tier)
	run.Env = append(append(os.Environ(), "GORACE=halt_on_error=0 log_path="+logBase, "VERIF_EVIDENCE_DIR="+filepath.Join(c.Work, "race-evidence"), fmt.Sprintf("VERIF_SEED=%d", c.Seed)), env...)
	out, err := run.CombinedOutput()
	reports, _ := filepath.Glob(logBase + ".*")
	n := 0
	var first string
	for _, f := range reports {
		b, _ := os.ReadFile(f)
		n += strings.Count(string(b), "WARNING: DATA RACE")
		if first == "" && len(b) > 0 {
			first = string(b)
			if len(first) > 3000 {
				first = first[:3000]
			}
		}
	}
	c.Case("race-detector/"+label, true)
	if prev, ok := c.Extra["race_reports"].(int); ok {
		c.Extra["race_reports"] = prev + n
	} else {
		c.Extra["race_reports"] = n
	}
	kind := strings.SplitN(label, "/", 2)[0]
	if n > 0 {
		c.Violation("C20:data-race", fmt.Sprintf("the race detector reported %d data race(s) in %s use of shared readers / verifiers / trust store", n, kind), map[string]any{"report": first, "run": label})
	}
	if strings.Contains(string(out), "fatal error: concurrent map") || strings.Contains(string(out), "WARNING: DATA RACE") {
		// the Go runtime itself stopped the workload (unsynchronised map access), or the report went to stderr
		c.Violation("C20:data-race", "the "+kind+" workload was stopped by the runtime / reported a data race: "+firstMatchLine(string(out), "fatal error", "DATA RACE"), map[string]any{"output": tailStr(string(out), 3000), "run": label})
	} else if err != nil {
		if ee, ok := err.(*exec.ExitError); ok && ee.ExitCode() == 1 {
			// the workload itself found results that differ from the sequential ones
			c.Violation("C20:contended-results", kind+" run: a concurrent call returned another result than the same call alone", map[string]any{"output": tailStr(string(out), 2000), "run": label})
		} else if n == 0 {
			core.Infra("C20: race-detector run %s failed: %v\n%s", label, err, tailStr(string(out), 2000))
		}
	}
}

// C20cold (run inside the -race build, fresh process): the first library calls of the process are made from many
// goroutines at once - independent verifiers sharing one trust store / independent readers / the mobile verifiers.
func C20cold(c *core.Ctx) {
	c.Rule = "cold-start workload under the race detector"
	dir, mode := os.Getenv("VERIF_C20_COLD"), os.Getenv("VERIF_C20_COLD_MODE")
	var mu sync.Mutex
	fail := func(key, msg string) {
		mu.Lock()
		c.Violation(key, msg, nil)
		mu.Unlock()
	}
	start := make(chan struct{})
	var wg sync.WaitGroup
	switch mode {
	case "verify", "verify-mobile":
		blob, err := os.ReadFile(filepath.Join(dir, "blob.cbor"))
		if err != nil {
			core.Infra("C20cold: %v", err)
		}
		pool := &cms.GenericCertPool{}
		if mode == "verify" {
			files, _ := filepath.Glob(filepath.Join(dir, "trust-*.der"))
			for _, f := range files {
				b, _ := os.ReadFile(f)
				_ = pool.Add(b)
			}
		}
		for g := 0; g < 16; g++ {
			wg.Add(1)
			go func(g int) {
				defer wg.Done()
				<-start
				if mode == "verify-mobile" {
					// the built-in trust store does not hold the test issuer: the call has to complete, that is all
					if _, err := mobile.NewVerifier().Verify(blob); err != nil {
						fail("C20:contended-results", fmt.Sprintf("cold start: mobile verifier failed: %v", err))
					}
					return
				}
				de, err := verifier.NewVerifier(pool).Verify(blob)
				if err != nil || de == nil || de.Session.PassiveAuthResult == nil || !de.Session.PassiveAuthResult.Success {
					var pe error
					if de != nil {
						pe = de.Session.PassiveAuthErr
					}
					fail("C20:contended-results", fmt.Sprintf("cold start: independent verifier %d over the shared trust store did not reproduce the lone result (success): %v %v", g, err, pe))
				}
			}(g)
		}
	case "read":
		type job struct {
			p *perso.Passport
			v sessVariety
		}
		var jobs []job
		rnd := rand.New(rand.NewSource(c.Seed + 77))
		for g := 0; g < 6; g++ {
			v := randomVariety(rnd)
			v.Transport = chipsim.Transport{ExtendedLength: true, AllowOversizeShortResponse: true, LengthErrorKeepsSession: true}
			v.MaxLe, v.AaBits, v.DG13Size = 256, 1024, 0
			cfg := []sessCfg{{"bac", []int{2}, "rsa", false, true, "genuine"}, {"pace", []int{}, "none", true, true, "genuine"}, {"cam+bac", []int{11}, "none", true, true, "genuine"}}[g%3]
			p, err := personalise(cfg, v)
			if err != nil {
				core.Infra("personalise: %v", err)
			}
			jobs = append(jobs, job{p, v})
		}
		for g, j := range jobs {
			wg.Add(1)
			go func(g int, j job) {
				defer wg.Done()
				<-start
				o := runSession(j.p, sessOpt{false, false, "mrz"}, 256, nil, nil, j.v.Seed)
				if o.err != "" || o.docEx == nil || o.docEx.Session.PassiveAuthResult == nil || !o.docEx.Session.PassiveAuthResult.Success {
					fail("C20:contended-results", fmt.Sprintf("cold start: independent reader %d did not reproduce the lone result: %s", g, o.err))
				}
			}(g, j)
		}
	default:
		core.Infra("C20cold: unknown mode %q", mode)
	}
	close(start)
	wg.Wait()
	c.Case("cold/"+mode, true)
}

func firstMatchLine(s string, subs ...string) string {
	for _, l := range strings.Split(s, "\n") {
		for _, sub := range subs {
			if strings.Contains(l, sub) {
				return strings.TrimSpace(l)
			}
		}
	}
	return ""
}

func tailStr(s string, n int) string {
	if len(s) > n {
		return s[len(s)-n:]
	}
	return s
}

// C20race is the contended workload (run inside the -race build): shared and independent objects used from many
// goroutines without gates; every result is compared with the sequential one.
func C20race(c *core.Ctx) {
	c.Rule = "contended random workload under the race detector"
	v := randomVariety(rand.New(rand.NewSource(c.Seed)))
	v.Transport = chipsim.Transport{ExtendedLength: true, AllowOversizeShortResponse: true, LengthErrorKeepsSession: true}
	v.MaxLe, v.AaBits, v.DG13Size = 256, 1024, 0
	p, err := personalise(sessCfg{"bac", []int{2}, "rsa", false, true, "genuine"}, v)
	if err != nil {
		core.Infra("personalise: %v", err)
	}
	pool := &cms.GenericCertPool{}
	for _, t := range p.Trust {
		_ = pool.Add(t)
	}
	o1 := runSession(p, sessOpt{false, false, "mrz"}, 256, nil, challengeBytes(1), v.Seed)
	if o1.err != "" || o1.docEx == nil {
		core.Infra("C20race: reference read failed: %s", o1.err)
	}
	blob, _ := o1.docEx.ToCbor()
	rounds := core.Pick(c, 3, 12)
	var wg sync.WaitGroup
	var mu sync.Mutex
	fail := func(key, msg string) {
		mu.Lock()
		c.Violation(key, msg, nil)
		mu.Unlock()
	}
	// (a) one shared verifier, many goroutines: setters and Verify
	sv := verifier.NewVerifier(pool)
	for g := 0; g < 8; g++ {
		wg.Add(1)
		go func(g int) {
			defer wg.Done()
			for r := 0; r < rounds; r++ {
				if g%2 == 0 {
					_, _ = sv.WithAAChallenge(challengeBytes(1))
				}
				de, err := sv.Verify(blob)
				if err != nil || de == nil || de.Session.PassiveAuthResult == nil || !de.Session.PassiveAuthResult.Success {
					fail("C20:contended-results", fmt.Sprintf("shared verifier: Verify failed under contention: %v", err))
				}
			}
		}(g)
	}
	// (b) independent verifiers sharing the pool, documents valid at disjoint times
	docs, pool2 := c20Docs(c)
	for g := 0; g < 8; g++ {
		wg.Add(1)
		go func(g int) {
			defer wg.Done()
			for r := 0; r < rounds*20; r++ {
				d := docs[(g+r)%len(docs)]
				res, err := passiveauth.PassiveAuth(d.doc, pool2)
				if err != nil || res == nil || !res.Success {
					fail("C20:contended-results", fmt.Sprintf("independent verification of the document of %s failed under contention: %v", d.name, err))
				}
			}
		}(g)
	}
	// (c) one shared mobile.Reader: setters and reads from several goroutines (each read power-cycles the chip)
	chip, _ := p.Chip()
	gt := newGates()
	mr := mobile.NewReader(nil, &gateTx{g: gt, chip: chip})
	for g := 0; g < 4; g++ {
		wg.Add(1)
		go func(g int) {
			defer wg.Done()
			gt.register(fmt.Sprintf("m%d", g))
			pw, _ := mobile.NewPasswordMrz(p.MRZ)
			for r := 0; r < rounds; r++ {
				if g == 1 {
					mr.SkipImages()
				}
				if g == 2 {
					_, _ = mr.WithAAChallenge(challengeBytes(2))
				}
				gt.newCall(fmt.Sprintf("m%d", g))
				doc, err := mr.ReadDocument(pw, []byte{0x3B, 0x80}, nil)
				if err != nil || doc == nil {
					fail("C20:contended-results", fmt.Sprintf("shared mobile.Reader: ReadDocument failed under contention: %v", err))
				}
			}
		}(g)
	}
	// (d) the lazily built trust store and independent mobile verifiers
	for g := 0; g < 4; g++ {
		wg.Add(1)
		go func() {
			defer wg.Done()
			for r := 0; r < rounds; r++ {
				if err := mobile.PreloadCscaCertPool(); err != nil {
					fail("C20:once", err.Error())
				}
				_, _ = mobile.NewVerifier().Verify(blob)
			}
		}()
	}
	// (e) independent sessions whose chips refuse the first read size: every one of them walks the fall-back ladder at
	// the same time (package-level tables must be read-only), and reads what a lone session reads
	for g := 0; g < 8; g++ {
		wg.Add(1)
		go func(g int) {
			defer wg.Done()
			rnd := rand.New(rand.NewSource(c.Seed + int64(g)))
			for r := 0; r < rounds*4; r++ {
				obj := buildTLV(4, 600+g, false, rnd)
				chipE, err := chipsim.New(chipsim.Config{MfFiles: map[uint16][]byte{testFid: obj}, Transport: chipsim.Transport{ExtendedLength: true, RejectLeOver: []int{200, 150, 256}[(g+r)%3]}})
				if err != nil {
					continue
				}
				s := sim.NewPlain(chipE)
				if g%2 == 1 {
					_ = s.InstallSM(sim.Suites[g%len(sim.Suites)], rnd, nil)
					s.Nfc.SetMaxLe(4096)
				}
				data, err := s.Nfc.ReadFile(testFid)
				if err != nil || !bytes.Equal(data, obj) {
					fail("C20:contended-results", fmt.Sprintf("independent session %d: ReadFile from a chip refusing large reads failed under contention: %v", g, err))
				}
				// the lone result: the same chip kind read alone uses the ladder value 256 when the chip accepts it
				if g%2 == 1 && (g+r)%3 == 2 {
					big := 0
					for _, rd := range chipE.Truth().Reads {
						if rd.Le > big && rd.SW == 0x9000 {
							big = rd.Le
						}
					}
					if big != 256 {
						fail("C20:contended-results", fmt.Sprintf("independent session %d: a chip accepting reads of 256 octets was read with at most %d (a lone session uses 256)", g, big))
					}
				}
			}
		}(g)
	}
	wg.Wait()
	c.Case("contended", true)
}

// overlapStatus is a host status handler that (a) notices when it is entered while another invocation is still running
// and (b) holds the LAST callback of a call (FINISHED) for a moment: a blocking hook doubles as a scheduler gate - while
// it blocks, a call that (wrongly) already owns the reader would deliver its first callback.
type overlapStatus struct {
	mu       sync.Mutex
	inside   int
	overlaps int
	stream   []string
	finished int
}

func (o *overlapStatus) Status(s reader.Status) {
	o.mu.Lock()
	o.inside++
	if o.inside > 1 {
		o.overlaps++
	}
	o.stream = append(o.stream, fmt.Sprintf("%v", s.Phase))
	fin := s.Phase == reader.STATUS_PHASE_FINISHED
	if fin {
		o.finished++
	}
	o.mu.Unlock()
	if fin {
		time.Sleep(150 * time.Millisecond)
	}
	o.mu.Lock()
	o.inside--
	if fin {
		o.stream = append(o.stream, "finished-returned")
	}
	o.mu.Unlock()
}

// c20CallbackOrder: two goroutines read through ONE reader.Reader; the host's status handler must see the callbacks of
// one call as one block (as if the calls had been made one after the other): nothing between FINISHED and its return.
func c20CallbackOrder(c *core.Ctx, p *perso.Passport, pool cms.CertPool) {
	rounds := core.Pick(c, 3, 10)
	for r := 0; r < rounds; r++ {
		chip, _ := p.Chip()
		gt := newGates()
		tx := &gateTx{g: gt, chip: chip}
		st := &overlapStatus{}
		rd := reader.NewReader(st, iso7816.NewNfcSession(tx), pool)
		var wg sync.WaitGroup
		for g := 0; g < 2; g++ {
			wg.Add(1)
			go func(g int) {
				defer wg.Done()
				name := fmt.Sprintf("cb%d", g)
				gt.register(name)
				gt.newCall(name)
				pw, _ := password.NewPasswordMrz(p.MRZ)
				_, _, _ = rd.ReadDocument(pw, []byte{0x3B, 0x80}, nil)
			}(g)
		}
		wg.Wait()
		c.Case(fmt.Sprintf("callback-order/%d", r), true)
		if st.finished == 0 {
			core.Infra("C20: callback order: no read on the shared reader.Reader finished (stream %v)", st.stream)
		}
		bad := st.overlaps > 0
		for i, e := range st.stream {
			if e == fmt.Sprintf("%v", reader.STATUS_PHASE_FINISHED) && (i+1 >= len(st.stream) || st.stream[i+1] != "finished-returned") {
				bad = true
			}
		}
		if bad {
			c.Violation("C20:status-callbacks-of-two-calls-interleave", fmt.Sprintf("two ReadDocument calls on one reader.Reader: the status handler was entered %d time(s) while another callback was still running; stream %v", st.overlaps, st.stream), map[string]any{"stream": st.stream})
			return
		}
	}
}
