package checks

import (
	"bytes"
	"fmt"
	"math/rand"
	"sort"
	"strings"
	"sync"
	"sync/atomic"
	"time"

	"github.com/gmrtd/gmrtd/cms"
	"github.com/gmrtd/gmrtd/document"
	"github.com/gmrtd/gmrtd/iso7816"
	"github.com/gmrtd/gmrtd/password"
	"github.com/gmrtd/gmrtd/reader"

	"verif/harness/chipsim"
	"verif/harness/core"
	"verif/harness/link"
	"verif/harness/perso"
	"verif/harness/pki"
)

func init() { Registry["C08"] = C08; Registry["C11"] = C11; c02EndToEnd = c02E2E }

// ---- configurations of Session.tla ------------------------------------------------------------

type sessCfg struct {
	Access  string
	Dgs     []int
	Aa      string
	Ca      bool
	Trusted bool
	Kind    string
}
type sessOpt struct {
	SkipPace, SkipImages bool
	Pw                   string
}
type sessExp struct {
	Access               bool
	Obtained             []int
	Pace, Cam, Bac, Aa, Ca string
	Complete, Pa, Trusted  bool
	ChipAuth               string
	PhasesBefore, PhasesAfter, DgPhases []int
}

func (c sessCfg) String() string {
	return fmt.Sprintf("%s dgs=%v aa=%s ca=%v trusted=%v kind=%s", c.Access, c.Dgs, c.Aa, c.Ca, c.Trusted, c.Kind)
}
func (o sessOpt) String() string {
	return fmt.Sprintf("skipPace=%v skipImages=%v pw=%s", o.SkipPace, o.SkipImages, o.Pw)
}

func setInts(v any) []int {
	var out []int
	switch x := v.(type) {
	case core.Set:
		for _, e := range x {
			out = append(out, e.(int))
		}
	case []any:
		for _, e := range x {
			out = append(out, e.(int))
		}
	}
	sort.Ints(out)
	return out
}

func parseSessRow(t []any) (sessCfg, sessOpt, sessExp) {
	c, o, e := t[1].(map[string]any), t[2].(map[string]any), t[3].(map[string]any)
	return sessCfg{core.Str(c["access"]), setInts(c["dgs"]), core.Str(c["aa"]), c["ca"].(bool), c["trusted"].(bool), core.Str(c["kind"])},
		sessOpt{o["skipPace"].(bool), o["skipImages"].(bool), core.Str(o["pw"])},
		sessExp{e["access"].(bool), setInts(e["obtained"]), core.Str(e["pace"]), core.Str(e["cam"]), core.Str(e["bac"]), core.Str(e["aa"]), core.Str(e["ca"]),
			e["complete"].(bool), e["pa"].(bool), e["trusted"].(bool), core.Str(e["chipAuth"]), core.Ints(e["phasesBefore"]), core.Ints(e["phasesAfter"]), setInts(e["dgPhases"])}
}

// sessVariety are the concrete dimensions the abstract configuration leaves open.
type sessVariety struct {
	PaceOID   string
	PaceParam int
	CaOID     string
	CaParam   int
	AaBits    int
	AaParam   int
	AaHash    string
	KeySpec   pki.KeySpec
	Transport chipsim.Transport
	MaxLe     int
	DG13Size  int
	SodOrder  string // "" = by seed (ascending / descending / shuffled) | swap-last-two | stripped-last | stripped-first
	Seed      int64
}

func randomVariety(rnd *rand.Rand) sessVariety {
	ids := []int{8, 9, 10, 11, 12, 13, 14, 15, 16, 17, 18}
	v := sessVariety{Seed: rnd.Int63()}
	v.PaceOID = paceGmOIDs[rnd.Intn(len(paceGmOIDs))]
	v.PaceParam = ids[rnd.Intn(len(ids))]
	v.CaOID = append([]string{""}, caOIDs...)[rnd.Intn(5)]
	v.CaParam = ids[rnd.Intn(len(ids))]
	v.AaBits = []int{1024, 1024, 1280, 2048}[rnd.Intn(4)]
	v.AaParam = ids[rnd.Intn(len(ids))]
	v.AaHash = []string{"sha1", "sha256", "sha224", "sha512"}[rnd.Intn(4)]
	ks := pki.CoveringKeySpecs()
	v.KeySpec = ks[rnd.Intn(len(ks))]
	if v.KeySpec.Kind != "ecdsa" && v.KeySpec.Bits > 2048 {
		v.KeySpec.Bits = 2048
	}
	// transports the property's success clause covers: the chip accepts the configured read size, or
	// rejects larger Le and accepts a ladder value; any cap / short return policy
	tr := chipsim.Transport{ExtendedLength: rnd.Intn(2) == 0, AllowOversizeShortResponse: true, LengthErrorKeepsSession: true}
	switch rnd.Intn(6) {
	case 0:
		tr.MaxRead = 4 + rnd.Intn(64)*4
	case 1:
		tr.MaxRead = []int{100, 223, 224, 231, 232, 255, 256}[rnd.Intn(7)]
	case 2:
		tr.RejectLeOver = []int{128, 192, 255, 256}[rnd.Intn(4)]
	}
	v.Transport = tr
	v.MaxLe = []int{256, 256, 224, 100, 255, 1000, 65536}[rnd.Intn(7)]
	if !tr.ExtendedLength && v.MaxLe > 256 {
		v.MaxLe = 256 // premise: the caller does not ask a chip without extended length for more than 256
	}
	// (30000: a large file after small ones - the read size a session works with must not shrink with the files it has read)
	v.DG13Size = []int{0, 5, 127, 128, 129, 231, 232, 255, 256, 257, 258, 700, 4093, 30000}[rnd.Intn(14)]
	// premise of the success clause: the file fits into the library's limit of 1000 reads at the chip's response cap
	if v.Transport.MaxRead > 0 && v.DG13Size/v.Transport.MaxRead > 900 {
		v.Transport.MaxRead = v.DG13Size/900 + 1
	}
	if v.MaxLe > 0 && v.DG13Size/v.MaxLe > 900 {
		v.MaxLe = 256
	}
	return v
}

// personalise builds the passport for an abstract configuration + variety.
func personalise(c sessCfg, v sessVariety) (*perso.Passport, error) {
	// premise of C08's success clause: every file fits into the library's 1000 reads at the chip's response cap
	// (the sample face / signature images are up to ~20 KiB)
	for _, n := range c.Dgs {
		if (n == 2 || n == 7) && v.Transport.MaxRead > 0 && v.Transport.MaxRead < 24 {
			v.Transport.MaxRead = 24
		}
	}
	o := perso.Options{Seed: v.Seed, IssuerTrusted: c.Trusted, KeySpec: v.KeySpec, Transport: v.Transport, CAN: "123456", DG13Size: v.DG13Size}
	// content-preserving freedoms of the issuer: the outer length of DG13 in a longer form than the shortest, the
	// hash list of EF.SOD (a SEQUENCE OF) in ascending / descending / arbitrary order of data group numbers
	o.DG13LongLength = v.Seed%4 == 1
	o.SodVariant = func(s *pki.SODSpec) {
		var order []int
		for n := range s.DGs {
			order = append(order, n)
		}
		sort.Ints(order)
		special := 14
		if c.Kind == "strip15" {
			special = 15
		}
		move := func(front bool) {
			var rest []int
			found := false
			for _, n := range order {
				if n == special {
					found = true
				} else {
					rest = append(rest, n)
				}
			}
			if found && front {
				order = append([]int{special}, rest...)
			} else if found {
				order = append(rest, special)
			}
		}
		switch {
		case v.SodOrder == "swap-last-two":
			if n := len(order); n >= 2 {
				order[n-1], order[n-2] = order[n-2], order[n-1]
			}
		case v.SodOrder == "stripped-last":
			// ascending but for ONE entry: every other data group is where a search of an ordered list looks for it
			move(false)
		case v.SodOrder == "stripped-first":
			move(true)
		case v.Seed%3 == 1:
			sort.Sort(sort.Reverse(sort.IntSlice(order)))
		case v.Seed%3 == 2:
			rand.New(rand.NewSource(v.Seed)).Shuffle(len(order), func(i, j int) { order[i], order[j] = order[j], order[i] })
		}
		s.DGOrder = order
	}
	o.BAC = strings.Contains(c.Access, "bac")
	cam := strings.HasPrefix(c.Access, "cam")
	if strings.HasPrefix(c.Access, "pace") {
		o.Pace = []chipsim.PaceSpec{{OID: v.PaceOID, ParamID: v.PaceParam}}
	}
	if cam {
		camOID := paceCamOIDs[int(v.Seed%3+3)%3]
		o.Pace = []chipsim.PaceSpec{{OID: camOID, ParamID: v.CaParam}}
	}
	if c.Ca {
		oid := v.CaOID
		if cam && oid == "" {
			oid = chipsim.OIDCaEcdhAes128
		}
		o.CA = []perso.CASpec{{OID: oid, ParamID: v.CaParam}}
	}
	switch c.Aa {
	case "rsa":
		o.AA = &perso.AASpec{Type: "rsa", Bits: v.AaBits, Hash: v.AaHash}
		if v.AaBits < 1100 && v.AaHash == "sha512" {
			o.AA.Hash = "sha256"
		}
	case "ecdsa":
		o.AA = &perso.AASpec{Type: "ecdsa", ParamID: v.AaParam, Hash: ecHashFor(v.AaParam), SigFormat: []string{"plain", "der"}[v.Seed&1]}
	}
	for _, n := range c.Dgs {
		o.DGs = append(o.DGs, n)
	}
	switch c.Kind {
	case "clone-copy":
		o.Personality = chipsim.Personality{Name: "clone-copy", CANoKey: true, AANoKey: true, CAMNoKey: true}
	case "clone-own-keys":
		o.CloneOwnKeys = true
	case "strip14":
		o.StripFromChip = []int{14}
	case "strip15":
		o.StripFromChip = []int{15}
	case "downgrade":
		// EF.CardAccess advertises one more PACE info than DG14 confirms: another protocol, or (every third case) the SAME
		// protocol with other parameters; written behind or in front of the genuine one
		extra := chipsim.PaceInfoSpec{OID: chipsim.OIDPaceEcdhGm3Des, ParamID: o.Pace[0].ParamID}
		if v.Seed%2 == 0 {
			extra.OID = o.Pace[0].OID
		}
		o.CardAccessExtraFirst = v.Seed%4 < 3
		if o.Pace[0].OID == extra.OID {
			extra.ParamID = map[int]int{13: 12, 12: 13}[extra.ParamID]
			if extra.ParamID == 0 {
				extra.ParamID = 13
			}
		}
		o.CardAccessExtra = [][]byte{chipsim.PaceInfo(extra)}
	}
	return perso.New(o)
}

func ecHashFor(id int) string {
	curve, _ := chipsim.CurveByParamID(id)
	n := curve.Params().N.BitLen()
	switch {
	case n >= 512:
		return "sha512"
	case n >= 384:
		return "sha384"
	case n >= 256:
		return "sha256"
	}
	return "sha224"
}

type phaseRec struct {
	mu     sync.Mutex
	phases []reader.Status
	atEx   []int
	l      *link.Link
}

func (p *phaseRec) Status(s reader.Status) {
	p.mu.Lock()
	p.phases = append(p.phases, s)
	p.atEx = append(p.atEx, len(p.l.Exchanges()))
	p.mu.Unlock()
}

type sessOutcome struct {
	err                      string
	panicked                 bool
	dur                      time.Duration
	obtained                 []int
	filesEqual               bool
	badFile                  string
	pace, cam, bac, aa, ca   string
	complete, pa             bool
	trusted                  bool
	chipAuth                 string
	truth                    chipsim.Truth
	exchanges                int
	plainData                []int // per exchange: octets of response data if the exchange was unprotected, else 0
	unauthenticatedFlip      bool  // set by C11: a bit of an unprotected response was flipped under an unchanged status
	logWire, logPlain        string // fault-free reads: first difference between the library's own APDU log and the link record (wire level) / the chip's record of what it executed (plain level); "" = none
	phases                   []reader.Status
	phaseAt                  []int
	docEx                    *document.DocumentEx
	aaChallengeOK            bool
}

func tri(present, ok bool) string {
	switch {
	case !present:
		return "absent"
	case ok:
		return "ok"
	}
	return "failed"
}

type faultSpec struct {
	At   int    // exchange index
	Kind string // empty | one | truncated | garbled | oversized | status | naked | notfound | invalidated | flip
	Pos  int    // flip: octet of the response data whose bit is flipped (modulo the data length)
}

func applyFault(kind string, g []byte, rnd *rand.Rand) []byte {
	switch kind {
	case "empty":
		return []byte{}
	case "one":
		return []byte{0x90}
	case "truncated":
		if len(g) <= 2 {
			return []byte{}
		}
		return append(append([]byte{}, g[:rnd.Intn(len(g)-2)]...), g[len(g)-2:]...)
	case "garbled":
		out := make([]byte, len(g))
		rnd.Read(out)
		if bytes.Equal(out, g) && len(out) > 0 {
			out[0] ^= 1
		}
		return out
	case "oversized":
		extra := make([]byte, 300+rnd.Intn(300))
		rnd.Read(extra)
		if len(g) < 2 {
			return extra
		}
		return append(append(append([]byte{}, g[:len(g)-2]...), extra...), g[len(g)-2:]...)
	case "status":
		return []byte{[]byte{0x69, 0x6A, 0x67, 0x6F}[rnd.Intn(4)], []byte{0x82, 0x82, 0x00, 0x00}[rnd.Intn(4)]}
	case "naked":
		return []byte{0x90, 0x00}
	case "notfound": // the status with a meaning of its own for SELECT ("file not found")
		return []byte{0x6A, 0x82}
	case "invalidated": // treated like not-found by SelectEF (documented accommodation)
		return []byte{0x62, 0x83}
	}
	return g
}

// runSession performs one real Reader.ReadDocument against a freshly personalised chip.
func runSession(p *perso.Passport, o sessOpt, maxLe int, faults []faultSpec, aaChallenge []byte, seed int64) (out sessOutcome) {
	if sessionHangs.Load() >= 3 {
		// three reads did not come back even when repeated alone (each reported): the remaining ones are skipped so that
		// the check itself ends
		return sessOutcome{err: "skipped: earlier reads did not return", filesEqual: true}
	}
	out = runSessionOnce(p, o, maxLe, faults, aaChallenge, seed)
	if out.dur > 15*time.Second || strings.Contains(out.err, "did not return") {
		// a wall-clock observation: measured again, alone, before anything is concluded from it
		core.Calm(func() {
			if sessionHangs.Load() < 3 {
				out = runSessionOnce(p, o, maxLe, faults, aaChallenge, seed)
			}
		})
		if strings.Contains(out.err, "did not return") {
			sessionHangs.Add(1)
		}
	}
	return out
}

var sessionHangs atomic.Int32

func runSessionOnce(p *perso.Passport, o sessOpt, maxLe int, faults []faultSpec, aaChallenge []byte, seed int64) (out sessOutcome) {
	rnd := rand.New(rand.NewSource(seed))
	chip, err := p.Chip()
	if err != nil {
		core.Infra("chip: %v", err)
	}
	l := link.New(chip)
	if len(faults) > 0 {
		l.Script = func(idx int, cmd []byte, ll *link.Link) link.Action {
			for _, f := range faults {
				if f.At == idx {
					kind, pos := f.Kind, f.Pos
					if kind == "flip" {
						// one bit of the response DATA changes, length and status stay (a transmission error the link's CRC missed)
						return link.Action{Name: "fault:flip", Respond: func(g []byte, ll *link.Link) []byte {
							if len(g) <= 2 {
								return g
							}
							out := append([]byte{}, g...)
							out[pos%(len(g)-2)] ^= 1 << uint(rnd.Intn(8))
							return out
						}}
					}
					return link.Action{Name: "fault:" + kind, Respond: func(g []byte, ll *link.Link) []byte { return applyFault(kind, g, rnd) }}
				}
			}
			return link.Pass
		}
	}
	nfc := iso7816.NewNfcSession(l)
	nfc.SetMaxLe(maxLe)
	pool := &cms.GenericCertPool{}
	for _, t := range p.Trust {
		if err := pool.Add(t); err != nil {
			core.Infra("trust store: %v", err)
		}
	}
	ph := &phaseRec{l: l}
	rd := reader.NewReader(ph, nfc, pool)
	if o.SkipPace {
		rd.SkipPace()
	}
	if o.SkipImages {
		rd.SkipImages()
	}
	if aaChallenge != nil {
		if _, err := rd.WithAAChallenge(aaChallenge); err != nil {
			core.Infra("WithAAChallenge: %v", err)
		}
	}
	var pass *password.Password
	if o.Pw == "can" {
		pass = password.NewPasswordCan("123456")
	} else {
		pass, _ = password.NewPasswordMrz(p.MRZ)
	}
	var docEx *document.DocumentEx
	var apduLog *iso7816.ApduLog
	done := make(chan struct{})
	t0 := time.Now()
	go func() {
		defer close(done)
		defer func() {
			if r := recover(); r != nil {
				out.panicked = true
				out.err = fmt.Sprintf("panic escaped ReadDocument: %v", r)
			}
		}()
		var err error
		docEx, apduLog, err = rd.ReadDocument(pass, []byte{0x3B, 0x80}, nil)
		if err != nil {
			out.err = err.Error()
		}
	}()
	select {
	case <-done:
	case <-time.After(60 * time.Second):
		out.err = "ReadDocument did not return within 60 s"
		out.dur = time.Since(t0)
		return out
	}
	out.dur = time.Since(t0)
	out.truth = chip.Truth()
	out.exchanges = len(l.Exchanges())
	for _, ex := range l.Exchanges() {
		n := 0
		if len(ex.Cmd) > 0 && ex.Cmd[0]&0x0C == 0 && len(ex.Resp) > 2 {
			n = len(ex.Resp) - 2 // unprotected exchange carrying data
		}
		out.plainData = append(out.plainData, n)
	}
	out.phases, out.phaseAt = ph.phases, ph.atEx
	out.docEx = docEx
	if len(faults) == 0 && apduLog != nil {
		out.logWire, out.logPlain = logFidelity(apduLog, l, out.truth)
	}
	out.filesEqual = true
	if docEx == nil {
		return out
	}
	d := &docEx.Document
	check := func(name string, raw []byte, want []byte) {
		if raw == nil {
			return
		}
		if !bytes.Equal(raw, want) {
			out.filesEqual = false
			out.badFile = name
		}
	}
	lds := d.Mf.Lds1
	type rawer interface{ GetRawData() []byte }
	dgs := map[int]rawer{}
	if lds.Dg1 != nil {
		dgs[1] = lds.Dg1
	}
	if lds.Dg2 != nil {
		dgs[2] = lds.Dg2
	}
	if lds.Dg7 != nil {
		dgs[7] = lds.Dg7
	}
	if lds.Dg11 != nil {
		dgs[11] = lds.Dg11
	}
	if lds.Dg12 != nil {
		dgs[12] = lds.Dg12
	}
	if lds.Dg13 != nil {
		dgs[13] = lds.Dg13
	}
	if lds.Dg14 != nil {
		dgs[14] = lds.Dg14
	}
	if lds.Dg15 != nil {
		dgs[15] = lds.Dg15
	}
	if lds.Dg16 != nil {
		dgs[16] = lds.Dg16
	}
	for n, f := range dgs {
		out.obtained = append(out.obtained, n)
		check(fmt.Sprintf("DG%d", n), f.GetRawData(), p.AppFiles[0x0100+uint16(n)])
	}
	sort.Ints(out.obtained)
	if lds.Sod != nil {
		check("EF.SOD", lds.Sod.RawData, p.AppFiles[chipsim.FidSOD])
	}
	if lds.Com != nil {
		check("EF.COM", lds.Com.RawData, p.AppFiles[chipsim.FidCOM])
	}
	if d.Mf.CardAccess != nil {
		check("EF.CardAccess", d.Mf.CardAccess.RawData, p.MfFiles[chipsim.FidCardAccess])
	}
	if d.Mf.CardSecurity != nil {
		check("EF.CardSecurity", d.Mf.CardSecurity.RawData, p.MfFiles[chipsim.FidCardSecurity])
	}
	s := docEx.Session
	out.pace = tri(s.PaceResult != nil, s.PaceResult != nil && s.PaceResult.Success)
	out.cam = tri(s.PaceCamResult != nil, s.PaceCamResult != nil && s.PaceCamResult.Success)
	out.bac = tri(s.BacResult != nil, s.BacResult != nil && s.BacResult.Success)
	out.aa = tri(s.ActiveAuthResult != nil || s.ActiveAuthErr != nil, s.ActiveAuthResult != nil && s.ActiveAuthResult.Success)
	out.ca = tri(s.ChipAuthResult != nil || s.ChipAuthErr != nil, s.ChipAuthResult != nil && s.ChipAuthResult.Success)
	out.complete = s.DocumentVerifyErr == nil
	out.pa = s.PassiveAuthResult != nil && s.PassiveAuthResult.Success
	sum := docEx.Summary()
	out.trusted = sum.DataTrusted
	out.chipAuth = statusName(sum.ChipAuthenticity)
	if aaChallenge != nil && s.ActiveAuthResult != nil && s.ActiveAuthResult.Evidence != nil {
		n := len(out.truth.AaChallenges)
		out.aaChallengeOK = n > 0 && bytes.Equal(out.truth.AaChallenges[n-1], aaChallenge) && bytes.Equal(s.ActiveAuthResult.Evidence.Nonce, aaChallenge)
	}
	return out
}

// logFidelity compares the library's own APDU log of a fault-free read with (wire level) the link's record of every
// exchange, in order and byte for byte, and (plain level) with the chip's record of the commands it executed after
// removing secure messaging: the logged plain command IS what the chip decrypted, the logged plain response what it
// answered. The log is a trace the implementation records itself; the chip-side record is the ground truth.
func logFidelity(log *iso7816.ApduLog, l *link.Link, truth chipsim.Truth) (wire, plain string) {
	ex := l.Exchanges()
	entries := log.AllEntries()
	if len(entries) != len(ex) {
		wire = fmt.Sprintf("%d log entries for %d exchanges on the link", len(entries), len(ex))
	}
	byIdx := map[int]chipsim.PlainCmd{}
	for _, a := range truth.Accepted {
		byIdx[a.Index] = a
	}
	for i := 0; i < len(entries) && i < len(ex); i++ {
		e := entries[i]
		tx, rx := e.Tx, e.Rx
		if e.Child != nil {
			tx, rx = e.Child.Tx, e.Child.Rx
		}
		if wire == "" && (!bytes.Equal(tx, ex[i].Cmd) || !bytes.Equal(rx, ex[i].Resp)) {
			wire = fmt.Sprintf("entry %d (%s): logged %x / %x, on the link %x / %x", i, e.Desc, tx, rx, ex[i].Cmd, ex[i].Resp)
		}
		a, ok := byIdx[i]
		if !ok || plain != "" || len(e.Tx) < 4 {
			continue // the chip refused the command before executing it (or malformed): no plain-level record
		}
		if e.Tx[1] != a.INS || e.Tx[2] != a.P1 || e.Tx[3] != a.P2 {
			plain = fmt.Sprintf("entry %d (%s): logged command %x, the chip executed %02X %02X %02X", i, e.Desc, e.Tx[:4], a.INS, a.P1, a.P2)
			continue
		}
		// (a logged plain command without data and Ne > 256 is the case 2E form of known finding C17 - two Le octets
		// without the leading 00 - which no ISO 7816-4 parser splits correctly: header only)
		if cmd, err := chipsim.ParseCommand(e.Tx); err == nil && !(len(a.Data) == 0 && a.Ne > 256) && !bytes.Equal(cmd.Data, a.Data) {
			plain = fmt.Sprintf("entry %d (%s): logged command data %x, the chip decrypted %x", i, e.Desc, cmd.Data, a.Data)
			continue
		}
		if n := len(e.Rx); n >= 2 && (uint16(e.Rx[n-2])<<8|uint16(e.Rx[n-1]) != a.SW || n-2 != a.RespLen) {
			plain = fmt.Sprintf("entry %d (%s): logged response of %d octets status %x, the chip answered %d octets status %04X", i, e.Desc, n-2, e.Rx[n-2:], a.RespLen, a.SW)
		}
	}
	return wire, plain
}

func eqIntSlice(a, b []int) bool {
	if len(a) != len(b) {
		return false
	}
	for i := range a {
		if a[i] != b[i] {
			return false
		}
	}
	return true
}

// safetyViolations evaluates the predicates that must hold for EVERY read, faulty link or not,
// against the chip's ground truth. prefix is the property id.
func safetyViolations(c *core.Ctx, prefix, caseName string, p *perso.Passport, o sessOutcome, rp map[string]any) {
	if o.panicked {
		c.Violation(prefix+":panic-escapes-ReadDocument", fmt.Sprintf("%s: %s", caseName, o.err), rp)
		return
	}
	if strings.Contains(o.err, "did not return") {
		c.Violation(prefix+":read-does-not-terminate", fmt.Sprintf("%s: %s", caseName, o.err), rp)
		return
	}
	if !o.filesEqual && !(o.unauthenticatedFlip && o.badFile == "EF.CardAccess") {
		c.Violation(prefix+":file-differs-from-chip:"+o.badFile, fmt.Sprintf("%s: %s in the returned document differs from the chip's file", caseName, o.badFile), rp)
	}
	t := o.truth
	if o.bac == "ok" && !t.BacCompleted {
		c.Violation(prefix+":bac-success-not-completed-by-chip", caseName, rp)
	}
	if o.pace == "ok" && !t.PaceCompleted {
		c.Violation(prefix+":pace-success-not-completed-by-chip", caseName, rp)
	}
	if o.cam == "ok" && !t.PaceCamCompleted {
		c.Violation(prefix+":cam-success-not-completed-by-chip", caseName, rp)
	}
	if o.ca == "ok" && !t.CaCompleted {
		c.Violation(prefix+":ca-success-not-completed-by-chip", caseName, rp)
	}
	if o.aa == "ok" && !(t.AaSigned > 0 && t.AaGenuine) {
		c.Violation(prefix+":aa-success-without-genuine-signature", caseName, rp)
	}
	if o.trusted && !(o.pa && o.complete) {
		c.Violation(prefix+":trusted-without-pa", caseName, rp)
	}
	if o.trusted && o.docEx != nil {
		// the files actually obtained must pass passive authentication (independently recomputed)
		it := paItem{Name: caseName, SOD: p.AppFiles[chipsim.FidSOD], DGs: map[int][]byte{}, Trust: p.Trust}
		for _, n := range o.obtained {
			it.DGs[n] = p.AppFiles[0x0100+uint16(n)]
		}
		if o.docEx.Document.Mf.Lds1.Sod == nil || !o.filesEqual {
			c.Violation(prefix+":trusted-although-files-not-genuine", caseName, rp)
		}
	}
}

func loadSessionRows(c *core.Ctx) (cfgs []sessCfg, opts []sessOpt, exps []sessExp) {
	r := c.MustTLC(core.TLCOpts{Module: "MC_Session", Cfg: "MC_Session.cfg"})
	for _, line := range r.Lines {
		if !strings.HasPrefix(line, "<<\"T\"") {
			continue
		}
		v, err := core.ParseTLA(line)
		if err != nil {
			core.Infra("session table: %v", err)
		}
		cc, oo, ee := parseSessRow(v.([]any))
		cfgs, opts, exps = append(cfgs, cc), append(opts, oo), append(exps, ee)
	}
	if int64(len(cfgs)) != r.Distinct || len(cfgs) == 0 {
		core.Infra("session table has %d rows, TLC found %d states", len(cfgs), r.Distinct)
	}
	return
}

// C08 — an end-to-end read returns the chip's files and correct step outcomes.
func C08(c *core.Ctx) {
	c.Rule = "one case per (chip configuration of Session.tla, reader options, concrete variety: curves, suites, key types, file sizes, transport behaviour, read size); non-trivial = all; distinct by configuration + options + variety seed"
	c.Assume("'any per-read size the chip tolerates': any configured read size 1..65536 on a chip with extended length, any size up to 256 on a chip without; the chip may cap every response (>= 4 octets, so that the first read returns the complete TLV header) or reject Le above a limit and accept a ladder value 256/192/128; chips that return fewer octets than available at random are covered by C13 (exact or error) only")
	c.Assume("as built, CA is run only when neither AA nor PACE-CAM completed; for a chip offering AA and CA the check requires AA (documented ranking), not both")
	c.Assume("RSA-2048 Active Authentication under secure messaging needs a chip that answers a short-length command with more than 256 response octets (chipsim option), as real chips do")

	cfgs, opts, exps := loadSessionRows(c)
	type job struct {
		i int
		v sessVariety
	}
	var jobs []job
	for i, cc := range cfgs {
		if cc.Kind != "genuine" || !exps[i].Access {
			continue
		}
		if !c.Thorough() && c.Rand.Intn(6) != 0 {
			continue
		}
		reps := core.Pick(c, 1, 3)
		for k := 0; k < reps; k++ {
			jobs = append(jobs, job{i, randomVariety(c.Rand)})
		}
	}
	wires := make([]wireRead, len(jobs))
	var logNotes atomic.Int64 // reads whose own APDU log differs from the link / chip record (beyond the listed clauses: a note)
	core.ParallelFor(len(jobs), func(ji int) {
		j := jobs[ji]
		cc, oo, ee := cfgs[j.i], opts[j.i], exps[j.i]
		p, err := personalise(cc, j.v)
		if err != nil {
			core.Infra("personalise(%v): %v", cc, err)
		}
		defer func() { wires[ji].name = fmt.Sprintf("%s | %s", cc, oo) }()
		name := fmt.Sprintf("%s | %s | pace=%s/%d ca=%s/%d aa=%d/%d ks=%s maxLe=%d tr=%+v dg13=%d", cc, oo, paceOidName(j.v.PaceOID), j.v.PaceParam, caOidName(j.v.CaOID), j.v.CaParam, j.v.AaBits, j.v.AaParam, j.v.KeySpec, j.v.MaxLe, j.v.Transport, j.v.DG13Size)
		o := runSession(p, oo, j.v.MaxLe, nil, nil, j.v.Seed)
		c.Case(name, true)
		rp := map[string]any{"config": cc, "options": oo, "variety": fmt.Sprintf("%+v", j.v), "expected": ee,
			"real": fmt.Sprintf("err=%q obtained=%v pace=%s cam=%s bac=%s aa=%s ca=%s complete=%v pa=%v trusted=%v chipAuth=%s", o.err, o.obtained, o.pace, o.cam, o.bac, o.aa, o.ca, o.complete, o.pa, o.trusted, o.chipAuth)}
		safetyViolations(c, "C08", name, p, o, rp)
		if o.err == "" {
			wires[ji] = wireOf(o, cc, oo, p)
		}
		if o.logWire != "" || o.logPlain != "" {
			logNotes.Add(1)
			if logNotes.Load() <= 3 {
				fmt.Printf("NOTE: C08: the library's APDU log differs from the link / chip record (%s): %s %s\n", name, o.logWire, o.logPlain)
			}
		}
		if o.err != "" {
			c.Violation("C08:read-fails:"+sessErrClass(o.err), fmt.Sprintf("reading a conforming chip failed (%s): %s", name, o.err), rp)
			return
		}
		if !eqIntSlice(o.obtained, ee.Obtained) {
			c.Violation("C08:data-groups-read", fmt.Sprintf("data groups obtained %v, expected %v (%s)", o.obtained, ee.Obtained, name), rp)
		}
		for _, m := range [][3]string{{"pace", o.pace, ee.Pace}, {"cam", o.cam, ee.Cam}, {"bac", o.bac, ee.Bac}, {"aa", o.aa, ee.Aa}, {"ca", o.ca, ee.Ca}} {
			if m[1] != m[2] {
				c.Violation("C08:step-outcome:"+m[0], fmt.Sprintf("%s recorded %s, expected %s (%s)", m[0], m[1], m[2], name), rp)
			}
		}
		// progress reports: the phase sequence Session.tla specifies, data groups in the order of the hash list
		var wantPh []string
		for _, ph := range ee.PhasesBefore {
			wantPh = append(wantPh, fmt.Sprint(ph))
		}
		for _, n := range p.SODOrder {
			for _, w := range ee.DgPhases {
				if w == n {
					wantPh = append(wantPh, fmt.Sprintf("8/%d", n))
				}
			}
		}
		for _, ph := range ee.PhasesAfter {
			wantPh = append(wantPh, fmt.Sprint(ph))
		}
		var gotPh []string
		for _, st := range o.phases {
			if st.Phase == reader.STATUS_PHASE_READING_DATA_GROUP {
				gotPh = append(gotPh, fmt.Sprintf("8/%d", st.DataGroup))
			} else {
				gotPh = append(gotPh, fmt.Sprint(int(st.Phase)))
			}
		}
		if strings.Join(gotPh, " ") != strings.Join(wantPh, " ") {
			c.Violation("C08:phases", fmt.Sprintf("progress phases reported %v, Session.tla specifies %v (%s)", gotPh, wantPh, name), rp)
		}
		if o.pa != ee.Pa {
			c.Violation("C08:passive-authentication", fmt.Sprintf("passive authentication %v, issuer trusted %v (%s)", o.pa, cc.Trusted, name), rp)
		}
		if o.complete != ee.Complete || o.trusted != ee.Trusted || o.chipAuth != ee.ChipAuth {
			c.Violation("C08:verdicts", fmt.Sprintf("complete=%v trusted=%v chipAuth=%s, expected %v %v %s (%s)", o.complete, o.trusted, o.chipAuth, ee.Complete, ee.Trusted, ee.ChipAuth, name), rp)
		}
	})
	c.AddTraces(int64(len(jobs)))
	c.Extra["configurations_in_model"] = len(cfgs)
	c.Extra["reads"] = len(jobs)
	// the chip-side command record of every completed read against the command language of Wire.tla
	// (beyond the listed clauses of C08: a divergence is reported as a NOTE and counted, not a verdict)
	wireValidate(c, wires)
	c.Extra["reads_whose_apdu_log_differs_from_link_or_chip_record"] = logNotes.Load()
	// "any per-read size the chip tolerates", along a SESSION: every file is read whatever files came before it
	// on the same NfcSession (ReadSession.tla: the working Le is session state, nothing else is)
	readSessionReplay(c, "C08")
	if len(jobs) > 0 {
		c.Sample(map[string]any{"config": cfgs[jobs[0].i].String(), "options": opts[jobs[0].i].String(), "expected": exps[jobs[0].i]})
		c.Sample(map[string]any{"config": cfgs[jobs[len(jobs)-1].i].String(), "options": opts[jobs[len(jobs)-1].i].String(), "expected": exps[jobs[len(jobs)-1].i]})
	}
}

func sessErrClass(e string) string {
	for _, k := range []string{"readEfCardAccess", "selectMrtdApplication", "readEfDir", "readEfSod", "readEfCom", "readLDS1dgs", "performChipAuthentication"} {
		if strings.Contains(e, k) {
			return k
		}
	}
	return "other"
}

// c02E2E: hostile chips in full reads (end-to-end half of C02).
func c02E2E(c *core.Ctx) {
	cfgs, opts, exps := loadSessionRows(c)
	type job struct {
		i int
		v sessVariety
	}
	var jobs []job
	for i, cc := range cfgs {
		if cc.Kind == "genuine" {
			continue
		}
		if !c.Thorough() && c.Rand.Intn(12) != 0 {
			continue
		}
		v := randomVariety(c.Rand)
		v.Transport = chipsim.Transport{ExtendedLength: true, AllowOversizeShortResponse: true, LengthErrorKeepsSession: true}
		v.MaxLe = 256
		jobs = append(jobs, job{i, v})
	}
	// a withheld data group whose hash-list entry is the ONLY one out of ascending order (first, last, swapped with its
	// neighbour): every other entry is found by whatever search, the withheld one must be found too
	nStrip := 0
	for i, cc := range cfgs {
		if cc.Kind != "strip14" && cc.Kind != "strip15" {
			continue
		}
		nStrip++
		if !c.Thorough() && (nStrip+int(c.Seed))%9 != 0 {
			continue
		}
		for _, ord := range []string{"swap-last-two", "stripped-last", "stripped-first"} {
			v := randomVariety(c.Rand)
			v.Transport = chipsim.Transport{ExtendedLength: true, AllowOversizeShortResponse: true, LengthErrorKeepsSession: true}
			v.MaxLe, v.SodOrder = 256, ord
			jobs = append(jobs, job{i, v})
		}
	}
	core.ParallelFor(len(jobs), func(ji int) {
		j := jobs[ji]
		cc, oo, ee := cfgs[j.i], opts[j.i], exps[j.i]
		p, err := personalise(cc, j.v)
		if err != nil {
			core.Infra("personalise(%v): %v", cc, err)
		}
		name := fmt.Sprintf("e2e %s | %s | sod-order=%s", cc, oo, j.v.SodOrder)
		o := runSession(p, oo, j.v.MaxLe, nil, nil, j.v.Seed)
		c.Case(name+fmt.Sprint(j.v.Seed), true)
		rp := map[string]any{"config": cc, "options": oo, "expected": ee,
			"real": fmt.Sprintf("err=%q obtained=%v pace=%s cam=%s bac=%s aa=%s ca=%s complete=%v pa=%v trusted=%v chipAuth=%s", o.err, o.obtained, o.pace, o.cam, o.bac, o.aa, o.ca, o.complete, o.pa, o.trusted, o.chipAuth)}
		safetyViolations(c, "C02", name, p, o, rp)
		has := func(n int) bool {
			for _, x := range o.obtained {
				if x == n {
					return true
				}
			}
			return false
		}
		switch cc.Kind {
		case "clone-copy", "clone-own-keys":
			if o.chipAuth != "NONE" {
				c.Violation("C02:clone-reported-chip-authentic", fmt.Sprintf("a chip without the certified private keys got ChipAuthenticity %s (%s)", o.chipAuth, name), rp)
			}
			if cc.Kind == "clone-own-keys" && (has(14) || has(15)) && o.trusted {
				c.Violation("C02:substituted-keys-trusted", fmt.Sprintf("a chip storing its own DG14/DG15 keys got DataTrusted (%s)", name), rp)
			}
		case "strip14", "strip15":
			if o.trusted {
				c.Violation("C02:stripped-file-trusted", fmt.Sprintf("a chip withholding a data group the security object lists got DataTrusted (%s)", name), rp)
			}
		case "downgrade":
			if o.trusted && has(14) {
				c.Violation("C02:downgraded-cardaccess-trusted", fmt.Sprintf("CardAccess infos not contained in DG14, yet DataTrusted (%s)", name), rp)
			}
		}
		// offline verification of the exported result must not be more positive than that
		if o.docEx != nil {
			if blob, err := o.docEx.ToCbor(); err == nil {
				off := offlineVerify(blob, p.Trust, nil)
				if off.err == "" && off.docEx != nil {
					sum := off.docEx.Summary()
					if (sum.DataTrusted && !o.trusted) || (statusName(sum.ChipAuthenticity) != "NONE" && o.chipAuth == "NONE") {
						c.Violation("C02:offline-more-positive-than-live", fmt.Sprintf("offline verdict trusted=%v chipAuth=%s, live trusted=%v chipAuth=%s (%s)", sum.DataTrusted, statusName(sum.ChipAuthenticity), o.trusted, o.chipAuth, name), rp)
					}
				}
			}
		}
	})
	c.AddTraces(int64(len(jobs)))
	c.Extra["hostile_chip_reads"] = len(jobs)
}

// C11 — link faults at any point of a session fail safe.
func C11(c *core.Ctx) {
	c.Level = "fault_enumeration"
	c.Rule = "one case per (chip configuration, exchange index k of the fault-free read, fault kind) - every k and every kind - plus seeded multi-fault scripts; non-trivial = all; distinct by configuration + k + kind"
	c.Assume("'garbled' replaces the whole response including its status bytes; 'flip' changes one bit of the data under an unchanged status. On the UNPROTECTED read of EF.CardAccess a flipped bit cannot be noticed when it happens; asserted for it (chips with DG14): the document is never marked trusted while its CardAccess differs from the chip's (comparison with DG14)")
	c.MustTLC(core.TLCOpts{Module: "MC_Session", Cfg: "MC_Session.cfg"})

	kinds := []string{"empty", "one", "truncated", "garbled", "oversized", "status", "naked", "notfound", "invalidated"}
	// (+ "flip", generated separately below with its position)
	base := []struct {
		cfg sessCfg
		opt sessOpt
	}{
		{sessCfg{"bac", []int{11, 13}, "rsa", true, true, "genuine"}, sessOpt{false, false, "mrz"}},
		{sessCfg{"cam+bac", []int{2}, "ecdsa", true, true, "genuine"}, sessOpt{false, false, "can"}},
		// no chip authentication after the data groups: the last exchanges of the session are file reads
		{sessCfg{"bac", []int{11, 13}, "none", false, true, "genuine"}, sessOpt{false, false, "mrz"}},
		// PACE with BAC as fall-back, MRZ password, DG14: a changed EF.CardAccess can end in a COMPLETED read over BAC
		{sessCfg{"pace+bac", []int{11}, "none", true, true, "genuine"}, sessOpt{false, false, "mrz"}},
	}
	if c.Thorough() {
		base = append(base, []struct {
			cfg sessCfg
			opt sessOpt
		}{
			{sessCfg{"pace+bac", []int{2, 7, 11, 12, 13, 16}, "none", true, true, "genuine"}, sessOpt{false, false, "mrz"}},
			{sessCfg{"pace", []int{11, 13}, "ecdsa", false, false, "genuine"}, sessOpt{false, true, "mrz"}},
			{sessCfg{"bac", []int{}, "none", false, true, "genuine"}, sessOpt{true, false, "mrz"}},
			{sessCfg{"cam", []int{11, 13}, "rsa", true, true, "genuine"}, sessOpt{false, false, "mrz"}},
		}...)
	}
	type job struct {
		b      int
		faults []faultSpec
		seed   int64
	}
	var jobs []job
	var passports []*perso.Passport
	var varieties []sessVariety
	var counts []int
	var refs []sessOutcome
	for bi, b := range base {
		v := randomVariety(rand.New(rand.NewSource(c.Seed + int64(bi))))
		v.Transport = chipsim.Transport{ExtendedLength: true, AllowOversizeShortResponse: true, LengthErrorKeepsSession: true}
		v.MaxLe = 256
		v.AaBits = 1024
		v.DG13Size = 300
		p, err := personalise(b.cfg, v)
		if err != nil {
			core.Infra("personalise: %v", err)
		}
		passports = append(passports, p)
		varieties = append(varieties, v)
		ff := runSession(p, b.opt, v.MaxLe, nil, nil, v.Seed)
		if ff.err != "" {
			core.Infra("C11: fault-free reference read failed for %v: %s", b.cfg, ff.err)
		}
		counts = append(counts, ff.exchanges)
		refs = append(refs, ff)
		for k := 0; k < ff.exchanges; k++ {
			for _, kind := range kinds {
				jobs = append(jobs, job{bi, []faultSpec{{k, kind, 0}}, c.Rand.Int63()})
			}
		}
		// one flipped bit: every exchange once, and EVERY octet of the unprotected data-bearing ones (EF.CardAccess is read
		// before any session exists: only the comparison with DG14 stands between a changed byte and the verdict)
		for k := 0; k < ff.exchanges; k++ {
			jobs = append(jobs, job{bi, []faultSpec{{k, "flip", c.Rand.Intn(4096)}}, c.Rand.Int63()})
			if b.cfg.Ca && k < len(ff.plainData) {
				for pos := 0; pos < ff.plainData[k]; pos++ {
					jobs = append(jobs, job{bi, []faultSpec{{k, "flip", pos}}, c.Rand.Int63()})
				}
			}
		}
		for m := 0; m < core.Pick(c, 150, 2000); m++ {
			nf := 2 + c.Rand.Intn(3)
			var fs []faultSpec
			for q := 0; q < nf; q++ {
				fs = append(fs, faultSpec{c.Rand.Intn(ff.exchanges), kinds[c.Rand.Intn(len(kinds))], 0})
			}
			jobs = append(jobs, job{bi, fs, c.Rand.Int63()})
		}
	}
	var mu sync.Mutex
	cont := map[string]int{}
	core.ParallelFor(len(jobs), func(ji int) {
		j := jobs[ji]
		b := base[j.b]
		o := runSession(passports[j.b], b.opt, varieties[j.b].MaxLe, j.faults, nil, j.seed)
		for _, f := range j.faults {
			if f.Kind == "flip" {
				// EF.CardAccess itself cannot be authenticated when it is read; what is asserted for it is the verdict:
				// a document holding a CardAccess that differs from the chip's is never marked trusted (safetyViolations)
				o.unauthenticatedFlip = true
			}
		}
		name := fmt.Sprintf("%s | %s | faults=%v", b.cfg, b.opt, j.faults)
		c.Case(name, true)
		rp := map[string]any{"config": b.cfg, "options": b.opt, "faults": j.faults, "seed": j.seed,
			"real": fmt.Sprintf("err=%q obtained=%v pace=%s cam=%s bac=%s aa=%s ca=%s complete=%v pa=%v trusted=%v chipAuth=%s", o.err, o.obtained, o.pace, o.cam, o.bac, o.aa, o.ca, o.complete, o.pa, o.trusted, o.chipAuth)}
		safetyViolations(c, "C11", name, passports[j.b], o, rp)
		if o.dur > core.Stretch(30*time.Second) {
			c.Violation("C11:slow", fmt.Sprintf("read took %s (%s)", o.dur, name), rp)
		}
		// first clause (Session.tla NoSilentLoss): no error and no step outcome changed => no file was lost
		if ff := refs[j.b]; o.err == "" && !o.panicked {
			// (data group reads have no "recorded as failed" outcome of their own: they abort. A data group missing
			// from a read that returned no error is therefore a swallowed fault whatever happened to later steps.)
			if len(o.obtained) < len(ff.obtained) {
				c.Violation("C11:fault-swallowed-file-missing", fmt.Sprintf("the read returned no error and recorded no step as failed, yet obtained %v instead of %v (%s)", o.obtained, ff.obtained, name), rp)
			}
		}
		k := "completed"
		if o.err != "" {
			k = "aborted:" + sessErrClass(o.err)
		}
		mu.Lock()
		cont[k]++
		mu.Unlock()
	})
	c.AddTraces(int64(len(jobs)))
	c.Exhaustive = true
	c.Extra["exchanges_per_reference_read"] = counts
	c.Extra["continuations"] = cont
	c.Extra["fault_kinds"] = kinds
	c.Sample(map[string]any{"config": base[0].cfg.String(), "fault": jobs[0].faults})
	c.Sample(map[string]any{"config": base[len(base)-1].cfg.String(), "fault": jobs[len(jobs)-1].faults})
}

type offlineOut struct {
	err   string
	docEx *document.DocumentEx
}

// offlineVerify runs the real verifier on an exported blob.
func offlineVerify(blob []byte, trust [][]byte, aaChallenge []byte) (out offlineOut) {
	defer func() {
		if r := recover(); r != nil {
			out.err = fmt.Sprintf("panic: %v", r)
		}
	}()
	return offlineVerifyImpl(blob, trust, aaChallenge)
}

// offlineVerifyAfter: one Verifier object verifies `first` and then `blob` (the verdict on a bundle does not depend on
// what the same verifier verified before).
func offlineVerifyAfter(first, blob []byte, trust [][]byte) (out offlineOut) {
	defer func() {
		if r := recover(); r != nil {
			out.err = fmt.Sprintf("panic: %v", r)
		}
	}()
	pool := &cms.GenericCertPool{}
	for _, t := range trust {
		if err := pool.Add(t); err != nil {
			out.err = "trust store: " + err.Error()
			return
		}
	}
	v := verifierNew(pool)
	_, _ = v.Verify(first)
	de, err := v.Verify(blob)
	if err != nil {
		out.err = err.Error()
	}
	out.docEx = de
	return
}

func offlineVerifyImpl(blob []byte, trust [][]byte, aaChallenge []byte) (out offlineOut) {
	pool := &cms.GenericCertPool{}
	for _, t := range trust {
		if err := pool.Add(t); err != nil {
			out.err = "trust store: " + err.Error()
			return
		}
	}
	v := verifierNew(pool)
	if aaChallenge != nil {
		var err error
		if v, err = v.WithAAChallenge(aaChallenge); err != nil {
			out.err = err.Error()
			return
		}
	}
	de, err := v.Verify(blob)
	if err != nil {
		out.err = err.Error()
	}
	out.docEx = de
	return
}

// ---- Wire.tla binding ------------------------------------------------------------------------------------------

type wireRead struct {
	name   string
	rd     map[string]any
	events []map[string]any
}

func wireOf(o sessOutcome, cc sessCfg, oo sessOpt, p *perso.Passport) wireRead {
	w := wireRead{rd: map[string]any{"skipPace": oo.SkipPace, "skipImages": oo.SkipImages, "pw": oo.Pw, "order": p.SODOrder,
		"cam": strings.HasPrefix(cc.Access, "cam"), "ca": cc.Ca}}
	for _, a := range o.truth.Accepted {
		tags := []int{}
		if tl, err := chipsim.ParseTLVs(a.Data); err == nil && (a.INS == 0x22 || a.INS == 0x86) {
			for _, t := range tl {
				if t.Tag == 0x7C {
					if in, err := chipsim.ParseTLVs(t.Value); err == nil {
						for _, x := range in {
							tags = append(tags, int(x.Tag))
						}
					}
				} else {
					tags = append(tags, int(t.Tag))
				}
			}
		}
		fid := 0
		if a.INS == 0xA4 && a.P1 == 0x02 && len(a.Data) == 2 {
			fid = int(a.Data[0])<<8 | int(a.Data[1])
		}
		w.events = append(w.events, map[string]any{"ins": int(a.INS), "p1": int(a.P1), "p2": int(a.P2), "chain": a.CLA&0x10 != 0, "sec": a.Secured,
			"nc": len(a.Data), "ne": a.Ne, "tags": tags, "fid": fid, "sw": int(a.SW)})
	}
	return w
}

func wireValidate(c *core.Ctx, wires []wireRead) {
	var trace, index [][]byte
	var names []string
	for _, w := range wires {
		if len(w.events) == 0 {
			continue
		}
		from := len(trace) + 1
		for _, e := range w.events {
			trace = append(trace, core.JSONLine(e))
		}
		index = append(index, core.JSONLine(map[string]any{"from": from, "to": len(trace), "rd": w.rd}))
		names = append(names, w.name)
	}
	if len(index) == 0 {
		return
	}
	accepted := map[int]bool{}
	reached := map[int]int{}
	files := map[string][]byte{"trace.ndjson": bytes.Join(trace, []byte("\n")), "index.ndjson": bytes.Join(index, []byte("\n"))}
	run := func(cfg string) {
		r, err := c.TLC(core.TLCOpts{Module: "Trace_Wire", Cfg: cfg, Workers: 8, Timeout: 20 * time.Minute, Files: files,
			OnLine: func(line string) {
				if strings.HasPrefix(line, "<<\"ACCEPT\"") || strings.HasPrefix(line, "<<\"AT\"") {
					if v, err := core.ParseTLA(line); err == nil {
						t := v.([]any)
						if core.Str(t[0]) == "ACCEPT" {
							accepted[t[1].(int)] = true
						} else if t[2].(int) > reached[t[1].(int)] {
							reached[t[1].(int)] = t[2].(int)
						}
					}
				}
			}})
		if err != nil {
			core.Infra("C08: Trace_Wire: %v", err)
		}
		if !r.OK {
			core.Infra("C08: Trace_Wire reported errors:\n%s", strings.Join(r.Errors, "\n"))
		}
	}
	run("Trace_Wire.cfg")
	if len(accepted) < len(index) {
		run("Trace_Wire_diag.cfg") // second pass: how far did the reads that were not accepted get
	}
	rejected := 0
	for i := range index {
		if !accepted[i+1] {
			rejected++
			if rejected <= 5 {
				var last string
				if l := reached[i+1]; l > 0 && l < len(trace) {
					last = string(trace[l]) // the line after the last one consumed
				}
				fmt.Printf("NOTE: C08: the command sequence of a read is not in the language of Wire.tla (%s): stopped before %s\n", names[i], last)
			}
		}
	}
	c.Extra["wire_traces_validated"] = len(index)
	c.Extra["wire_traces_rejected"] = rejected
	c.Extra["wire_commands"] = len(trace)
}
