package checks

import (
	"sort"
	"bytes"
	"encoding/asn1"
	"fmt"
	"math/big"
	"math/rand"
	"strings"

	"github.com/gmrtd/gmrtd/document"

	"verif/harness/chipsim"
	"verif/harness/core"
	"verif/harness/perso"
)

func init() { Registry["C14"] = C14 }

type verdictVec5 struct{ Pa, Complete, Aa, Cam, Ca string }

func vecOf(s *document.Session) verdictVec5 {
	return verdictVec5{
		Pa:       tri(s.PassiveAuthResult != nil || s.PassiveAuthErr != nil, s.PassiveAuthResult != nil && s.PassiveAuthResult.Success),
		Complete: tri(true, s.DocumentVerifyErr == nil),
		Aa:       tri(s.ActiveAuthResult != nil || s.ActiveAuthErr != nil, s.ActiveAuthResult != nil && s.ActiveAuthResult.Success),
		Cam:      tri(s.PaceCamResult != nil, s.PaceCamResult != nil && s.PaceCamResult.Success),
		Ca:       tri(s.ChipAuthResult != nil || s.ChipAuthErr != nil, s.ChipAuthResult != nil && s.ChipAuthResult.Success),
	}
}

// mutate returns value-changing variants of an evidence field; other is the same field captured
// in another genuine session of the same passport (another valid value).
func mutateField(v, other []byte, rnd *rand.Rand) map[string][]byte {
	out := map[string][]byte{}
	if len(v) > 0 {
		b := append([]byte{}, v...)
		// flip a bit that changes the value (not a leading zero octet being set... any bit changes the value of an octet string)
		b[rnd.Intn(len(b))] ^= 1 << uint(rnd.Intn(8))
		out["bitflip"] = b
		if len(v) > 1 {
			out["shorter"] = append([]byte{}, v[:len(v)-1]...)
		}
		out["longer"] = append(append([]byte{}, v...), byte(1+rnd.Intn(255)))
	}
	out["empty"] = []byte{}
	big := make([]byte, 2000)
	rnd.Read(big)
	out["oversized"] = big
	if other != nil && !bytes.Equal(other, v) {
		out["other-session"] = append([]byte{}, other...)
	}
	return out
}

func cloneSession(s document.Session) document.Session {
	c := s
	if s.PaceCamResult != nil {
		r := *s.PaceCamResult
		if r.Evidence != nil {
			e := *r.Evidence
			r.Evidence = &e
		}
		c.PaceCamResult = &r
	}
	if s.ChipAuthResult != nil {
		r := *s.ChipAuthResult
		if r.Evidence != nil {
			e := *r.Evidence
			r.Evidence = &e
		}
		c.ChipAuthResult = &r
	}
	if s.ActiveAuthResult != nil {
		r := *s.ActiveAuthResult
		if r.Evidence != nil {
			e := *r.Evidence
			r.Evidence = &e
		}
		c.ActiveAuthResult = &r
	}
	return c
}

// C14 — offline verification reproduces live verdicts and detects evidence tampering.
func C14(c *core.Ctx) {
	c.Rule = "one case per (live session over a mechanism/curve/suite configuration, evidence field or document file, value-changing mutation) plus one untampered export per session; non-trivial = all; distinct by configuration + field + mutation + seed"
	c.Assume("value-preserving changes are outside: leading zero octets of a scalar, and an emptied SmSsc when the captured counter is 2 (documented legacy default)")
	c.Assume("byte changes in EF.SOD / EF.CardSecurity are judged by C01 (facts-based); here data groups and the files with an attached verdict are mutated")

	// expected offline verdict vector of every (live evidence set, live PA verdict, tamper) of Evidence.tla's state machine
	type expVec struct{ pa, aa, cam, ca string }
	expect := map[string]expVec{}
	setKey := func(ms []string) string { sort.Strings(ms); return strings.Join(ms, "+") }
	c.MustTLC(core.TLCOpts{Module: "MC_Evidence", Cfg: "MC_Evidence.cfg", Workers: 2, OnLine: func(line string) {
		if !strings.HasPrefix(line, "<<\"V\"") {
			return
		}
		v, err := core.ParseTLA(line)
		if err != nil {
			core.Infra("C14: %v", err)
		}
		t := v.([]any)
		var ms []string
		for _, m := range t[1].(core.Set) {
			ms = append(ms, core.Str(m))
		}
		var tk []string
		for _, x := range t[3].([]any) {
			tk = append(tk, core.Str(x))
		}
		o := t[4].(map[string]any)
		expect[setKey(ms)+"|"+core.Str(t[2])+"|"+strings.Join(tk, "/")] = expVec{core.Str(o["pa"]), core.Str(o["aa"]), core.Str(o["cam"]), core.Str(o["ca"])}
	}})
	if len(expect) < 100 {
		core.Infra("C14: only %d rows in the Evidence.tla table", len(expect))
	}

	type mech struct {
		name string
		cfg  sessCfg
		opt  sessOpt
	}
	mechs := []mech{
		{"CA-after-BAC", sessCfg{"bac", []int{11, 13}, "none", true, true, "genuine"}, sessOpt{false, false, "mrz"}},
		{"CA-after-PACE", sessCfg{"pace", []int{}, "none", true, true, "genuine"}, sessOpt{false, false, "can"}},
		{"PACE-CAM", sessCfg{"cam+bac", []int{11}, "none", true, true, "genuine"}, sessOpt{false, false, "mrz"}},
		{"AA-RSA", sessCfg{"bac", []int{2}, "rsa", false, true, "genuine"}, sessOpt{false, false, "mrz"}},
		{"AA-ECDSA", sessCfg{"pace+bac", []int{13}, "ecdsa", false, true, "genuine"}, sessOpt{false, false, "mrz"}},
		{"AA+CAM-untrusted-issuer", sessCfg{"cam", []int{}, "ecdsa", true, false, "genuine"}, sessOpt{false, false, "can"}},
		// signatures longer than 256 octets: needs an extended-length response live, and evidence fields above 256 octets offline
		{"AA-RSA-large", sessCfg{"bac", []int{}, "rsa", false, true, "genuine"}, sessOpt{false, false, "mrz"}},
	}
	reps := core.Pick(c, 2, 12)
	type live struct {
		m     mech
		v     sessVariety
		a, b  sessOutcome // two genuine sessions of the same passport
		trust [][]byte
		files map[uint16][]byte
		p     *perso.Passport
		blob  []byte        // the untampered export of session a
		only1 bool          // genuine-evidence matrix: export / offline comparison only
		extra []sessOutcome // further genuine sessions (RSA: one whose signature plus the modulus keeps its length)
	}
	var lives []live
	// (0) "evidence captured from a genuine session always verifies ... all curves and suites": every PACE-CAM curve
	// and every CA curve at least twice (the shared secret's leading octets differ between sessions; P-521 more often)
	for _, id := range []int{8, 9, 10, 11, 12, 13, 14, 15, 16, 17, 18} {
		n := core.Pick(c, 2, 6)
		if id == 18 {
			n = core.Pick(c, 6, 16)
		}
		for k := 0; k < n; k++ {
			v := randomVariety(c.Rand)
			v.Transport = chipsim.Transport{ExtendedLength: true, AllowOversizeShortResponse: true, LengthErrorKeepsSession: true}
			v.MaxLe, v.PaceParam, v.CaParam = 256, id, id
			if k%2 == 0 {
				lives = append(lives, live{m: mech{"PACE-CAM/matrix", sessCfg{"cam+bac", []int{}, "none", true, true, "genuine"}, sessOpt{false, false, []string{"mrz", "can"}[k/2%2]}}, v: v, only1: true})
			} else {
				v.CaOID = append([]string{""}, caOIDs...)[(id+k/2)%5]
				lives = append(lives, live{m: mech{"CA/matrix", sessCfg{"bac", []int{}, "none", true, true, "genuine"}, sessOpt{false, false, "mrz"}}, v: v, only1: true})
			}
		}
	}
	for _, m := range mechs {
		for k := 0; k < reps; k++ {
			v := randomVariety(c.Rand)
			v.Transport = chipsim.Transport{ExtendedLength: true, AllowOversizeShortResponse: true, LengthErrorKeepsSession: true}
			v.MaxLe = 256
			if m.name == "AA-RSA-large" {
				if k > 0 && !c.Thorough() {
					continue
				}
				v.AaBits, v.MaxLe = []int{3072, 4096, 2560}[k%3], 65536
				if v.AaHash == "sha512" {
					v.AaHash = "sha256"
				}
			}
			lives = append(lives, live{m: m, v: v})
		}
	}
	core.ParallelFor(len(lives), func(i int) {
		l := &lives[i]
		p, err := personalise(l.m.cfg, l.v)
		if err != nil {
			core.Infra("personalise: %v", err)
		}
		l.a = runSession(p, l.m.opt, l.v.MaxLe, nil, nil, l.v.Seed)
		l.b = runSession(p, l.m.opt, l.v.MaxLe, nil, nil, l.v.Seed+1)
		l.trust = p.Trust
		l.files = p.AppFiles
		l.p = p
		if p.AAKey != nil && p.AAKey.Type == "rsa" && !l.only1 {
			for k := int64(2); k < 14 && len(l.extra) == 0; k++ {
				x := runSession(p, l.m.opt, l.v.MaxLe, nil, nil, l.v.Seed+k)
				if x.err == "" && x.docEx != nil && x.docEx.Session.ActiveAuthResult != nil && x.docEx.Session.ActiveAuthResult.Evidence != nil {
					sig := x.docEx.Session.ActiveAuthResult.Evidence.Signature
					sum := new(big.Int).Add(new(big.Int).SetBytes(sig), new(big.Int).SetBytes(p.AAKey.N))
					if len(sum.Bytes()) <= len(sig) {
						l.extra = append(l.extra, x)
					}
				}
			}
		}
	})
	type tcase struct {
		li          int
		mechanism   string // which verdict must fail: aa | cam | ca | pa | complete
		field, kind string
		build       func() (*document.DocumentEx, error)
	}
	var cases []tcase
	rsaPlusN, rsaPlusNMissing := 0, 0
	for li := range lives {
		l := &lives[li]
		name := fmt.Sprintf("%s [%s]", l.m.name, l.m.cfg)
		if l.a.err != "" || l.b.err != "" || l.a.docEx == nil || l.b.docEx == nil {
			c.Violation("C14:live-session-failed", fmt.Sprintf("live session failed (%s): %s %s", name, l.a.err, l.b.err), map[string]any{"config": l.m.cfg})
			continue
		}
		// (1) untampered export reproduces the live verdicts
		c.Case("untampered/"+name+fmt.Sprint(l.v.Seed), true)
		blob, err := l.a.docEx.ToCbor()
		if err != nil {
			c.Violation("C14:export-fails", fmt.Sprintf("ToCbor failed (%s): %v", name, err), nil)
			continue
		}
		l.blob = blob
		off := offlineVerify(blob, l.trust, nil)
		if off.err != "" || off.docEx == nil {
			c.Violation("C14:genuine-evidence-does-not-verify", fmt.Sprintf("offline verification of an untampered export failed (%s): %s", name, off.err), map[string]any{"config": l.m.cfg, "variety": fmt.Sprintf("%+v", l.v)})
			continue
		}
		lv, ov := vecOf(&l.a.docEx.Session), vecOf(&off.docEx.Session)
		if lv != ov {
			c.Violation("C14:offline-differs-from-live", fmt.Sprintf("live verdicts %+v, offline %+v (%s) [errors: aa=%v cam=%v ca=%v pa=%v]", lv, ov, name, off.docEx.Session.ActiveAuthErr, off.docEx.Session.PaceErr, off.docEx.Session.ChipAuthErr, off.docEx.Session.PassiveAuthErr),
				map[string]any{"config": l.m.cfg, "variety": fmt.Sprintf("%+v", l.v)})
		}
		osum, lsum := off.docEx.Summary(), l.a.docEx.Summary()
		if osum.DataTrusted != lsum.DataTrusted || osum.ChipAuthenticity != lsum.ChipAuthenticity {
			c.Violation("C14:offline-summary-differs", fmt.Sprintf("live summary (%v,%s), offline (%v,%s) (%s)", lsum.DataTrusted, statusName(lsum.ChipAuthenticity), osum.DataTrusted, statusName(osum.ChipAuthenticity), name), nil)
		}
		if l.only1 {
			continue
		}
		// (2) evidence fields
		sa, sb := l.a.docEx.Session, l.b.docEx.Session
		addField := func(mechanism, field string, get func(s *document.Session) *[]byte) {
			cur := get(&sa)
			if cur == nil {
				return
			}
			var other []byte
			if o := get(&sb); o != nil {
				other = *o
			}
			muts := mutateField(*cur, other, c.Rand)
			// every octet position of a short field (counters, scalars), three positions of a long one
			var positions []int
			if n := len(*cur); n > 0 && n <= 24 {
				for p := 0; p < n; p++ {
					positions = append(positions, p)
				}
			} else if n > 24 {
				positions = []int{0, n / 2, n - 1}
			}
			for _, p := range positions {
				b := append([]byte{}, (*cur)...)
				b[p] ^= 1 << uint(c.Rand.Intn(8))
				muts[fmt.Sprintf("bitflip@%d", p)] = b
			}
			for kind, val := range muts {
				if field == "smSsc" && kind == "empty" {
					continue // documented legacy default (counter 2)
				}
				if mechanism == "aa" && field == "signature" && kind == "longer" && len(*cur) > 0 && (*cur)[0] == 0x30 {
					continue // octets after a DER signature: value-preserving re-encoding (see C07)
				}
				v := val
				cases = append(cases, tcase{li, mechanism, field, kind, func() (*document.DocumentEx, error) {
					d := &document.DocumentEx{Document: l.a.docEx.Document, Session: cloneSession(sa)}
					*get(&d.Session) = v
					return d, nil
				}})
			}
		}
		if sa.PaceCamResult != nil && sa.PaceCamResult.Evidence != nil {
			ev := func(s *document.Session) *document.PaceCamEvidence {
				if s.PaceCamResult == nil {
					return nil
				}
				return s.PaceCamResult.Evidence
			}
			for f, g := range map[string]func(e *document.PaceCamEvidence) *[]byte{
				"nonce": func(e *document.PaceCamEvidence) *[]byte { return &e.Nonce }, "termMapPri": func(e *document.PaceCamEvidence) *[]byte { return &e.TermMapPri },
				"termMapPub": func(e *document.PaceCamEvidence) *[]byte { return &e.TermMapPub }, "chipMapPub": func(e *document.PaceCamEvidence) *[]byte { return &e.ChipMapPub },
				"termKaPri": func(e *document.PaceCamEvidence) *[]byte { return &e.TermKaPri }, "termKaPub": func(e *document.PaceCamEvidence) *[]byte { return &e.TermKaPub },
				"chipKaPub": func(e *document.PaceCamEvidence) *[]byte { return &e.ChipKaPub }, "ecadIC": func(e *document.PaceCamEvidence) *[]byte { return &e.EcadIC }} {
				gg := g
				addField("cam", f, func(s *document.Session) *[]byte {
					if e := ev(s); e != nil {
						return gg(e)
					}
					return nil
				})
			}
			// parameter id and protocol OID: every other value
			for _, id := range []int{8, 12, 13, 14, 17, 0, 3, 99, -1} {
				if id == sa.PaceCamResult.Evidence.ParameterId {
					continue
				}
				idv := id
				cases = append(cases, tcase{li, "cam", "parameterId", fmt.Sprint(id), func() (*document.DocumentEx, error) {
					d := &document.DocumentEx{Document: l.a.docEx.Document, Session: cloneSession(sa)}
					d.Session.PaceCamResult.Evidence.ParameterId = idv
					return d, nil
				}})
			}
			for _, oid := range [][]int{{0, 4, 0, 127, 0, 7, 2, 2, 4, 6, 2}, {0, 4, 0, 127, 0, 7, 2, 2, 4, 6, 3}, {0, 4, 0, 127, 0, 7, 2, 2, 4, 6, 4}, {0, 4, 0, 127, 0, 7, 2, 2, 4, 2, 2}, {1, 2, 3}} {
				if asn1.ObjectIdentifier(oid).Equal(sa.PaceCamResult.Evidence.PaceOid) {
					continue
				}
				ov := oid
				cases = append(cases, tcase{li, "cam", "paceOid", fmt.Sprint(oid), func() (*document.DocumentEx, error) {
					d := &document.DocumentEx{Document: l.a.docEx.Document, Session: cloneSession(sa)}
					d.Session.PaceCamResult.Evidence.PaceOid = asn1.ObjectIdentifier(ov)
					return d, nil
				}})
			}
		}
		if sa.ChipAuthResult != nil && sa.ChipAuthResult.Evidence != nil {
			for f, g := range map[string]func(e *document.ChipAuthEvidence) *[]byte{
				"termPri": func(e *document.ChipAuthEvidence) *[]byte { return &e.TermPri }, "termPubKey": func(e *document.ChipAuthEvidence) *[]byte { return &e.TermPubKey },
				"smRapdu": func(e *document.ChipAuthEvidence) *[]byte { return &e.SmRapdu }, "smSsc": func(e *document.ChipAuthEvidence) *[]byte { return &e.SmSsc }} {
				gg := g
				addField("ca", f, func(s *document.Session) *[]byte {
					if s.ChipAuthResult == nil || s.ChipAuthResult.Evidence == nil {
						return nil
					}
					return gg(s.ChipAuthResult.Evidence)
				})
			}
		}
		if sa.ActiveAuthResult != nil && sa.ActiveAuthResult.Evidence != nil {
			for f, g := range map[string]func(e *document.ActiveAuthEvidence) *[]byte{
				"nonce": func(e *document.ActiveAuthEvidence) *[]byte { return &e.Nonce }, "signature": func(e *document.ActiveAuthEvidence) *[]byte { return &e.Signature }} {
				gg := g
				addField("aa", f, func(s *document.Session) *[]byte {
					if s.ActiveAuthResult == nil || s.ActiveAuthResult.Evidence == nil {
						return nil
					}
					return gg(s.ActiveAuthResult.Evidence)
				})
			}
			// value-changing mutations that are congruent for the arithmetic of the scheme
			if k := l.p.AAKey; k != nil && k.Type == "rsa" {
				// S + N: the same residue, another value (RFC 8017 8.2.2 step 1 / 5.2.2: "signature representative out of range")
				for _, x := range l.extra {
					xs := x.docEx.Session
					sig := xs.ActiveAuthResult.Evidence.Signature
					sum := new(big.Int).Add(new(big.Int).SetBytes(sig), new(big.Int).SetBytes(k.N))
					val := sum.FillBytes(make([]byte, len(sig)))
					doc := x.docEx.Document
					cases = append(cases, tcase{li, "aa", "signature", "rsa-plus-modulus", func() (*document.DocumentEx, error) {
						d := &document.DocumentEx{Document: doc, Session: cloneSession(xs)}
						d.Session.ActiveAuthResult.Evidence.Signature = val
						return d, nil
					}})
				}
				rsaPlusN++
				if len(l.extra) == 0 {
					rsaPlusNMissing++
				}
			} else if k != nil && k.Type == "ecdsa" {
				sig := sa.ActiveAuthResult.Evidence.Signature
				if curve, err := chipsim.CurveByParamID(k.ParamID); err == nil && len(sig)%2 == 0 && len(sig) > 0 && sig[0] != 0x30 {
					h := len(sig) / 2
					r, sv := new(big.Int).SetBytes(sig[:h]), new(big.Int).SetBytes(sig[h:])
					// (r, n - s): the well-known second signature of the same message
					neg := append(append([]byte{}, sig[:h]...), new(big.Int).Sub(curve.N, sv).FillBytes(make([]byte, h))...)
					cases = append(cases, tcase{li, "aa", "signature", "ecdsa-negated-s", func() (*document.DocumentEx, error) {
						d := &document.DocumentEx{Document: l.a.docEx.Document, Session: cloneSession(sa)}
						d.Session.ActiveAuthResult.Evidence.Signature = neg
						return d, nil
					}})
					// r + n, s + n where they keep their length: congruent, out of range
					for which, x := range map[string]*big.Int{"r": r, "s": sv} {
						y := new(big.Int).Add(x, curve.N)
						if len(y.Bytes()) > h {
							continue
						}
						val := append([]byte{}, sig...)
						if which == "r" {
							copy(val[:h], y.FillBytes(make([]byte, h)))
						} else {
							copy(val[h:], y.FillBytes(make([]byte, h)))
						}
						vv := val
						cases = append(cases, tcase{li, "aa", "signature", "ecdsa-" + which + "-plus-order", func() (*document.DocumentEx, error) {
							d := &document.DocumentEx{Document: l.a.docEx.Document, Session: cloneSession(sa)}
							d.Session.ActiveAuthResult.Evidence.Signature = vv
							return d, nil
						}})
					}
				}
			}
			for _, oid := range [][]int{{1, 2, 840, 113549, 1, 1, 1}, {1, 2, 840, 10045, 2, 1}, {1, 2, 3, 4}} {
				if asn1.ObjectIdentifier(oid).Equal(sa.ActiveAuthResult.Evidence.Algorithm) {
					continue
				}
				ov := oid
				cases = append(cases, tcase{li, "aa", "algorithm", fmt.Sprint(oid), func() (*document.DocumentEx, error) {
					d := &document.DocumentEx{Document: l.a.docEx.Document, Session: cloneSession(sa)}
					d.Session.ActiveAuthResult.Evidence.Algorithm = asn1.ObjectIdentifier(ov)
					return d, nil
				}})
			}
		}
		// (3) document files with a verdict attached: every data group obtained -> passive authentication
		for _, n := range l.a.obtained {
			raw := l.files[0x0100+uint16(n)]
			for k := 0; k < core.Pick(c, 2, 8); k++ {
				pos, bit := c.Rand.Intn(len(raw)), byte(1<<uint(c.Rand.Intn(8)))
				nn := n
				cases = append(cases, tcase{li, "pa", fmt.Sprintf("DG%d", n), fmt.Sprintf("byte%d^%02x", pos, bit), func() (*document.DocumentEx, error) {
					m := append([]byte{}, raw...)
					m[pos] ^= bit
					d := &document.DocumentEx{Document: l.a.docEx.Document, Session: cloneSession(sa)}
					// the file is replaced at the raw level: rebuild the document from raw bytes
					doc2 := d.Document
					if err := replaceDG(&doc2, nn, m); err != nil {
						return nil, err
					}
					d.Document = doc2
					return d, nil
				}})
			}
		}
	}
	type tres struct {
		skip    string
		verdict string
		err     string
		vec     verdictVec5
		whole   bool // the export was rejected as a whole (no vector)
	}
	results := make([]tres, len(cases))
	core.ParallelFor(len(cases), func(i int) {
		tc := cases[i]
		l := &lives[tc.li]
		d, err := tc.build()
		if err != nil {
			results[i].skip = "mutant not representable: " + err.Error()
			return
		}
		blob, err := d.ToCbor()
		if err != nil {
			results[i].skip = "export refused: " + err.Error()
			return
		}
		// every second case on a Verifier that has verified the untampered export of the same session just before
		var off offlineOut
		if i%2 == 0 && l.blob != nil {
			off = offlineVerifyAfter(l.blob, blob, l.trust)
		} else {
			off = offlineVerify(blob, l.trust, nil)
		}
		if off.err != "" || off.docEx == nil {
			results[i].verdict, results[i].err = "failed", off.err // rejected as a whole
			results[i].whole = true
			return
		}
		v := vecOf(&off.docEx.Session)
		results[i].vec = v
		switch tc.mechanism {
		case "aa":
			results[i].verdict = v.Aa
		case "cam":
			results[i].verdict = v.Cam
		case "ca":
			results[i].verdict = v.Ca
		case "pa":
			results[i].verdict = v.Pa
		}
	})
	skipped := 0
	for i, tc := range cases {
		l := &lives[tc.li]
		r := results[i]
		c.Case(fmt.Sprintf("%s/%s/%s/%s/%d", l.m.name, tc.mechanism, tc.field, tc.kind, l.v.Seed), true)
		if r.skip != "" {
			skipped++
			continue
		}
		// the whole vector against Evidence.tla: a changed field of one mechanism leaves every OTHER verdict as it was live
		if !r.whole && tc.mechanism != "pa" {
			lv := vecOf(&l.a.docEx.Session)
			var ms []string
			for m, vd := range map[string]string{"aa": lv.Aa, "cam": lv.Cam, "ca": lv.Ca} {
				if vd == "ok" {
					ms = append(ms, m)
				}
			}
			livePa := "failed"
			if lv.Pa == "ok" {
				livePa = "ok"
			}
			if e, ok := expect[setKey(ms)+"|"+livePa+"|field/"+tc.mechanism+"/"+tc.field]; !ok {
				core.Infra("C14: Evidence.tla has no row for live=%v pa=%s field %s.%s", ms, livePa, tc.mechanism, tc.field)
			} else {
				got := expVec{r.vec.Pa, r.vec.Aa, r.vec.Cam, r.vec.Ca}
				if got.pa != "ok" {
					got.pa = "failed"
				}
				// the tampered mechanism itself is judged below (a rejected record may also read "absent")
				switch tc.mechanism {
				case "aa":
					got.aa, e.aa = "", ""
				case "cam":
					got.cam, e.cam = "", ""
				case "ca":
					got.ca, e.ca = "", ""
				}
				if got != e {
					c.Violation(fmt.Sprintf("C14:%s-%s-tamper-changes-other-verdicts", tc.mechanism, tc.field), fmt.Sprintf("changing %s.%s (%s) changed verdicts of other steps: offline %+v, Evidence.tla expects %+v (%s)", tc.mechanism, tc.field, tc.kind, got, e, l.m.name),
						map[string]any{"mechanism": tc.mechanism, "field": tc.field, "kind": tc.kind, "config": l.m.cfg})
				}
			}
		}
		if r.verdict == "ok" && tc.kind == "ecdsa-negated-s" {
			c.Violation("C14:aa-ecdsa-signature-negated-s-verifies", fmt.Sprintf("replacing the ECDSA Active Authentication signature (r, s) by (r, n - s) left the aa verdict positive (%s)", l.m.name),
				map[string]any{"mechanism": tc.mechanism, "field": tc.field, "kind": tc.kind, "config": l.m.cfg})
		} else if r.verdict == "ok" {
			c.Violation(fmt.Sprintf("C14:%s-%s-tamper-undetected", tc.mechanism, tc.field), fmt.Sprintf("changing %s.%s (%s) left the %s verdict positive (%s)", tc.mechanism, tc.field, tc.kind, tc.mechanism, l.m.name),
				map[string]any{"mechanism": tc.mechanism, "field": tc.field, "kind": tc.kind, "config": l.m.cfg, "variety": fmt.Sprintf("%+v", l.v)})
		}
	}
	c.AddTraces(int64(len(lives)))
	c.Extra["live_sessions"] = len(lives)
	c.Extra["tamper_cases"] = len(cases)
	c.Extra["tamper_cases_not_representable"] = skipped
	c.Extra["rsa_sessions_wanting_signature_plus_modulus"] = rsaPlusN
	c.Extra["rsa_sessions_without_a_fitting_signature"] = rsaPlusNMissing
	c.Sample(map[string]any{"mechanism": cases[0].mechanism, "field": cases[0].field, "mutation": cases[0].kind, "offline_verdict": results[0].verdict})
	c.Sample(map[string]any{"mechanism": cases[len(cases)-1].mechanism, "field": cases[len(cases)-1].field, "mutation": cases[len(cases)-1].kind, "offline_verdict": results[len(cases)-1].verdict})
}

// replaceDG swaps the raw bytes of one data group in a parsed document (the parsed view is
// irrelevant for export: ToCbor serialises RawData only).
func replaceDG(doc *document.Document, n int, raw []byte) error {
	l := &doc.Mf.Lds1
	switch n {
	case 1:
		c := *l.Dg1
		c.RawData = raw
		l.Dg1 = &c
	case 2:
		c := *l.Dg2
		c.RawData = raw
		l.Dg2 = &c
	case 7:
		c := *l.Dg7
		c.RawData = raw
		l.Dg7 = &c
	case 11:
		c := *l.Dg11
		c.RawData = raw
		l.Dg11 = &c
	case 12:
		c := *l.Dg12
		c.RawData = raw
		l.Dg12 = &c
	case 13:
		c := *l.Dg13
		c.RawData = raw
		l.Dg13 = &c
	case 14:
		c := *l.Dg14
		c.RawData = raw
		l.Dg14 = &c
	case 15:
		c := *l.Dg15
		c.RawData = raw
		l.Dg15 = &c
	case 16:
		c := *l.Dg16
		c.RawData = raw
		l.Dg16 = &c
	default:
		return fmt.Errorf("DG%d", n)
	}
	return nil
}

var _ = strings.Contains
