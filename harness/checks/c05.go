package checks

import (
	"bytes"
	"crypto/cipher"
	"crypto/des"
	"fmt"
	"math/rand"
	"strings"
	"sync"

	"github.com/gmrtd/gmrtd/bac"
	"github.com/gmrtd/gmrtd/document"
	"github.com/gmrtd/gmrtd/password"
	"github.com/gmrtd/gmrtd/verifhook"

	"verif/harness/chipsim"
	"verif/harness/core"
	"verif/harness/link"
	"verif/harness/sim"
)

func init() { Registry["C05"] = C05 }

func tdesCBC(key16 []byte, data []byte, encrypt bool) []byte {
	k := append(append([]byte{}, key16...), key16[:8]...)
	b, err := des.NewTripleDESCipher(k)
	if err != nil {
		core.Infra("3DES: %v", err)
	}
	out := make([]byte, len(data))
	iv := make([]byte, 8)
	if encrypt {
		cipher.NewCBCEncrypter(b, iv).CryptBlocks(out, data)
	} else {
		cipher.NewCBCDecrypter(b, iv).CryptBlocks(out, data)
	}
	return out
}

func bacCryptogram(kEnc, kMac, a, b, k []byte) []byte {
	e := tdesCBC(kEnc, append(append(append([]byte{}, a...), b...), k...), true)
	m, err := chipsim.RetailMAC(kMac, e)
	if err != nil {
		core.Infra("RetailMAC: %v", err)
	}
	return append(e, m...)
}

type bacOutcome struct {
	success      bool
	smInstalled  bool
	keysEqual    bool
	sscEqual     bool
	chipDone     bool
	nextExchange bool // first protected exchange accepted by the chip and delivered
	err          string
}

// hookMu serialises runs that install process-global verifhook functions.
var hookMu sync.Mutex

// runBac performs one real DoBAC of a terminal knowing termInfo against a chip personalised with
// chipInfo, the answer to EXTERNAL AUTHENTICATE taken from `source` (Bac.tla).
func runBac(termInfo, chipInfo, otherInfo, source string, seed int64, termRand func(n int) []byte) bacOutcome {
	rnd := rand.New(rand.NewSource(seed))
	newChip := func() *chipsim.Chip {
		dg1 := chipsim.BuildDG1("X")
		chip, err := chipsim.New(chipsim.Config{AppFiles: map[uint16][]byte{0x0101: dg1, 0x011E: chipsim.BuildCOM("0107", "040000", []byte{0x61})},
			MfFiles: map[uint16][]byte{0x011C: append([]byte{0x31, 0x4E}, bytes.Repeat([]byte{0x30, 0x0B, 0x06, 0x09, 0x04, 0x00, 0x7F, 0x00, 0x07, 0x02, 0x02, 0x02, 0x63}, 6)...)},
			MRZInfo: chipInfo, EnableBAC: true, RequireAccessControl: true, Transport: chipsim.Transport{ExtendedLength: true}, Rand: rnd})
		if err != nil {
			core.Infra("chipsim.New: %v", err)
		}
		return chip
	}
	pass := &password.Password{PasswordType: password.PASSWORD_TYPE_MRZi, Password: termInfo}
	var old []byte
	if source == "replay" {
		// an earlier genuine run of the same chip, recorded on the link
		c0 := newChip()
		s0 := sim.NewPlain(c0)
		s0.Nfc.SelectAid(chipsim.AIDLDS1)
		p0 := &password.Password{PasswordType: password.PASSWORD_TYPE_MRZi, Password: chipInfo}
		if res, err := bac.NewBAC(s0.Nfc, &document.Document{}, p0).DoBAC(); err != nil || !res.Success {
			core.Infra("C05: recording run failed: %v", err)
		}
		for _, ex := range s0.Link.Exchanges() {
			if ex.Ins == 0x82 {
				old = ex.Resp
			}
		}
	}
	chip := newChip()
	s := sim.NewPlain(chip)
	if seed%2 == 0 {
		// history before BAC: a plain read of EF.CardAccess on the same session, as a reader does (the answers of
		// earlier exchanges are longer than anything BAC receives)
		if data, err := s.Nfc.ReadFile(0x011C); err != nil || len(data) != 80 {
			core.Infra("C05: plain read of EF.CardAccess before BAC failed: %v (%d octets)", err, len(data))
		}
	}
	if ok, err := s.Nfc.SelectAid(chipsim.AIDLDS1); err != nil || !ok {
		core.Infra("C05: SELECT application failed: %v", err)
	}
	// the configured READ size is a property of file reads: BAC's own commands do not depend on it
	s.Nfc.SetMaxLe([]int{256, 1, 8, 16, 39, 40, 224, 65536}[int(uint64(seed)>>1)%8])
	var rndIc []byte
	kEncC, kMacC := chipsim.BACKeys(chipInfo)
	kEncO, kMacO := chipsim.BACKeys(otherInfo)
	s.Link.Script = func(idx int, cmd []byte, l *link.Link) link.Action {
		if len(cmd) < 2 {
			return link.Pass
		}
		switch cmd[1] {
		case 0x84:
			return link.Action{Name: "observe", Respond: func(g []byte, l *link.Link) []byte {
				if len(g) == 10 {
					rndIc = append([]byte{}, g[:8]...)
				}
				return g
			}}
		case 0x82:
			return link.Action{Name: source, Respond: func(g []byte, l *link.Link) []byte {
				genuine := len(g) == 42
				switch source {
				case "chip":
					return g
				case "replay":
					return old
				case "forged":
					guess := make([]byte, 8)
					kadv := make([]byte, 16)
					rnd.Read(guess)
					rnd.Read(kadv)
					return append(bacCryptogram(kEncO, kMacO, rndIc, guess, kadv), 0x90, 0x00)
				case "mutated":
					if !genuine {
						g = append(bacCryptogram(kEncC, kMacC, rndIc, make([]byte, 8), make([]byte, 16)), 0x90, 0x00)
					}
					// value-changing mutations of E_IC || M_IC: one bit; the same bit in two octets of one half (cancels
					// under an XOR-folded comparison); two different octets exchanged; two bits of one octet
					lo, n := 0, 32 // half: cryptogram or MAC
					if rnd.Intn(2) == 0 {
						lo, n = 32, 8
					}
					switch rnd.Intn(4) {
					case 0:
						g[rnd.Intn(40)] ^= 1 << uint(rnd.Intn(8))
					case 1:
						i := lo + rnd.Intn(n)
						j := lo + (i-lo+1+rnd.Intn(n-1))%n
						bit := byte(1) << uint(rnd.Intn(8))
						g[i] ^= bit
						g[j] ^= bit
					case 2:
						i := lo + rnd.Intn(n)
						for k := 1; k < n; k++ {
							j := lo + (i-lo+k)%n
							if g[i] != g[j] {
								g[i], g[j] = g[j], g[i]
								break
							}
						}
					case 3:
						g[lo+rnd.Intn(n)] ^= 0x81
					}
					return g
				case "reflect":
					// the terminal's own command data (E_IFD || M_IFD), as it went over the link, comes back
					ex := l.Exchanges()
					cmd := ex[len(ex)-1].Cmd
					if len(cmd) >= 5+40 {
						return append(append([]byte{}, cmd[5:45]...), 0x90, 0x00)
					}
					return g
				case "wrongifd", "wrongic":
					// a holder of the chip's keys that does not echo one of the challenges
					var pt []byte
					if genuine {
						pt = tdesCBC(kEncC, g[:32], false)
					} else {
						pt = append(append(append([]byte{}, rndIc...), make([]byte, 8)...), make([]byte, 16)...)
					}
					off := 8
					if source == "wrongic" {
						off = 0
					}
					pt[off+rnd.Intn(8)] ^= 1 << uint(rnd.Intn(8))
					return append(bacCryptogram(kEncC, kMacC, pt[:8], pt[8:16], pt[16:32]), 0x90, 0x00)
				case "short":
					if !genuine {
						return []byte{0x90, 0x00}
					}
					return append(append([]byte{}, g[:39]...), 0x90, 0x00)
				case "long":
					if !genuine {
						g = append(make([]byte, 40), 0x90, 0x00)
					}
					return append(append(append([]byte{}, g[:40]...), 0x00), 0x90, 0x00)
				case "status":
					return []byte{0x63, 0x00}
				}
				return g
			}}
		}
		return link.Pass
	}
	if termRand != nil {
		hookMu.Lock()
		verifhook.SetRandom(termRand)
		defer func() { verifhook.SetRandom(nil); hookMu.Unlock() }()
	}
	var out bacOutcome
	func() {
		defer func() {
			if p := recover(); p != nil {
				out.err = fmt.Sprintf("panic: %v", p)
			}
		}()
		res, err := bac.NewBAC(s.Nfc, &document.Document{}, pass).DoBAC()
		if err != nil {
			out.err = err.Error()
		}
		out.success = err == nil && res != nil && res.Success
	}()
	s.Link.Script = nil
	tr := chip.Truth()
	out.chipDone = tr.BacCompleted
	sm := s.Nfc.SM()
	out.smInstalled = sm != nil
	if sm != nil && tr.SM.Alive {
		out.keysEqual = bytes.Equal(sm.KsEnc(), tr.SM.KSenc)
		out.sscEqual = bytes.Equal(sm.SSC(), tr.SM.SSC)
		// first protected exchange: read DG1 under the new session
		before := len(tr.Accepted)
		data, err := s.Nfc.ReadFile(0x0101)
		out.nextExchange = err == nil && data != nil && len(chip.Truth().Accepted) > before && chip.Truth().SM.Alive
	}
	return out
}

// C05 — BAC derives the ICAO keys and authenticates mutually.
func C05(c *core.Ctx) {
	c.Rule = "one case per (terminal MRZ, chip MRZ, answer source of Bac.tla, randoms) or per generated MRZ; non-trivial = everything except the trivially short/long answers; distinct by MRZs+source+seed"
	c.Assume("symbolic 3DES / retail MAC in Bac.tla; the chip side and the key derivation are harness/chipsim's independent implementation (checked against 9303-11 Appendix D)")

	type row struct{ term, chip, source, result string }
	var rows []row
	r := c.MustTLC(core.TLCOpts{Module: "MC_Bac", Cfg: "MC_Bac.cfg", Workers: 4})
	for _, line := range r.Lines {
		if !strings.HasPrefix(line, "<<\"T\"") {
			continue
		}
		v, err := core.ParseTLA(line)
		if err != nil {
			core.Infra("C05: %v", err)
		}
		t := v.([]any)
		rows = append(rows, row{core.Str(t[1]), core.Str(t[2]), core.Str(t[3]), core.Str(t[4])})
	}
	if r2, err := c.TLC(core.TLCOpts{Module: "MC_Bac", Cfg: "MC_Bac_anyorder.cfg", Workers: 1}); err != nil {
		core.Infra("%v", err)
	} else if r2.OK {
		core.Infra("MC_Bac_anyorder: expected the reflected cryptogram to violate Soundness, found no counterexample")
	}
	if len(rows) != 40 {
		core.Infra("C05: expected 40 scenarios, got %d", len(rows))
	}
	c.Exhaustive = true
	infos := map[string]string{"m1": "L898902C<369080619406236", "m2": chipsim.MRZInformation("D23145890734", "340712", "950712")}
	reps := core.Pick(c, 12, 200)
	type job struct {
		rw   row
		seed int64
	}
	var jobs []job
	for _, rw := range rows {
		for k := 0; k < reps; k++ {
			jobs = append(jobs, job{rw, c.Rand.Int63()})
		}
	}
	core.ParallelFor(len(jobs), func(i int) {
		j := jobs[i]
		o := runBac(infos[j.rw.term], infos[j.rw.chip], infos["m2"], j.rw.source, j.seed, nil)
		bacJudge(c, fmt.Sprintf("%s/%s/%s", j.rw.term, j.rw.chip, j.rw.source), j.rw.result == "success", o, map[string]any{"termMrz": infos[j.rw.term], "chipMrz": infos[j.rw.chip], "source": j.rw.source, "seed": j.seed})
	})
	c.AddTraces(int64(len(jobs)))
	c.Sample(map[string]any{"scenario": rows[0], "repetitions": reps})

	// edge randoms on the terminal side (through the randomness hook): all-zero, all-FF, K.IFD = K.IC-like patterns
	patterns := []func(n int) []byte{
		func(n int) []byte { return make([]byte, n) },
		func(n int) []byte { return bytes.Repeat([]byte{0xFF}, n) },
		func(n int) []byte { b := make([]byte, n); b[n-1] = 1; return b },
		func(n int) []byte { b := bytes.Repeat([]byte{0xFF}, n); b[0] = 0x7F; return b },
	}
	for pi, p := range patterns {
		for _, src := range []string{"chip", "replay", "wrongifd"} {
			o := runBac(infos["m1"], infos["m1"], infos["m2"], src, c.Rand.Int63(), p)
			bacJudge(c, fmt.Sprintf("edge-random-%d/%s", pi, src), src == "chip", o, map[string]any{"pattern": pi, "source": src})
		}
	}

	// key derivation for every MRZ shape: zones generated by Mrz.tla (all layouts, short / extended
	// numbers, fillers) -- the chip is personalised with the SPECIFICATION's MRZ information, the
	// terminal gets the full zone
	var zones []struct {
		zone string
		seed string
	}
	mr := c.MustTLC(core.TLCOpts{Module: "MC_Mrz", Cfg: core.Pick(c, "MC_Mrz_quick.cfg", "MC_Mrz_full.cfg"), Timeout: 0})
	for _, line := range mr.Lines {
		if !strings.HasPrefix(line, "<<\"T\"") {
			continue
		}
		v, err := core.ParseTLA(line)
		if err != nil {
			core.Infra("C05: %v", err)
		}
		t := v.([]any)
		if core.Str(t[2]) == "acc" {
			zones = append(zones, struct{ zone, seed string }{mrzStr(core.Ints(t[1])), mrzStr(core.Ints(t[4]))})
		}
	}
	if len(zones) == 0 {
		core.Infra("C05: no well-formed zones from MC_Mrz")
	}
	if !c.Thorough() && len(zones) > 400 {
		c.Rand.Shuffle(len(zones), func(i, j int) { zones[i], zones[j] = zones[j], zones[i] })
		zones = zones[:400]
	}
	for i := 0; i < core.Pick(c, 200, 3000); i++ {
		z := genZone(c.Rand)
		if d, err := runMrzValid(z); err == nil {
			zones = append(zones, struct{ zone, seed string }{z, d})
		}
	}
	core.ParallelFor(len(zones), func(i int) {
		z := zones[i]
		p, err := password.NewPasswordMrz(z.zone)
		if err != nil {
			c.Case("zone/"+z.zone, true)
			c.Violation("C05:zone-rejected", fmt.Sprintf("NewPasswordMrz rejected the well-formed zone %q: %v", z.zone, err), map[string]any{"zone": z.zone})
			return
		}
		o := runBac(p.Password, z.seed, infos["m2"], "chip", int64(i)+c.Seed, nil)
		bacJudge(c, "zone/"+z.zone, true, o, map[string]any{"zone": z.zone, "spec_mrz_information": z.seed, "terminal_mrz_information": p.Password})
	})
	c.AddTraces(int64(len(zones)))
	c.Extra["mrz_zones"] = len(zones)
	c.Sample(map[string]any{"zone": zones[0].zone, "spec_mrz_information": zones[0].seed})
}

// runMrzValid returns the independent MRZ information of a generated zone if the generator left
// it unmutated and well-formed (decided by the harness' own check digit code, not by gmrtd).
func runMrzValid(z string) (string, error) {
	var num, ncd, dob, dcd, exp, ecd string
	switch len(z) {
	case 90:
		num, ncd, dob, dcd, exp, ecd = z[5:14], z[14:15], z[30:36], z[36:37], z[38:44], z[44:45]
		if ncd == "<" {
			opt := z[15:30]
			i := strings.Index(opt, "<")
			if i < 2 {
				return "", fmt.Errorf("ext")
			}
			num, ncd = num+opt[:i-1], opt[i-1:i]
		}
	case 72:
		num, ncd, dob, dcd, exp, ecd = z[36:45], z[45:46], z[49:55], z[55:56], z[57:63], z[63:64]
		if ncd == "<" {
			opt := z[64:71]
			i := strings.Index(opt, "<")
			if i < 2 {
				return "", fmt.Errorf("ext")
			}
			num, ncd = num+opt[:i-1], opt[i-1:i]
		}
	case 88:
		num, ncd, dob, dcd, exp, ecd = z[44:53], z[53:54], z[57:63], z[63:64], z[65:71], z[71:72]
	default:
		return "", fmt.Errorf("len")
	}
	for _, ch := range z {
		if !(ch == '<' || (ch >= '0' && ch <= '9') || (ch >= 'A' && ch <= 'Z')) {
			return "", fmt.Errorf("alphabet")
		}
	}
	if cd(num) != ncd || cd(dob) != dcd || cd(exp) != ecd || strings.Trim(num, "<") == "" {
		return "", fmt.Errorf("cd")
	}
	for _, ch := range dob + exp {
		if ch < '0' || ch > '9' {
			return "", fmt.Errorf("date")
		}
	}
	return num + ncd + dob + dcd + exp + ecd, nil
}

func bacJudge(c *core.Ctx, key string, wantSuccess bool, o bacOutcome, rp map[string]any) {
	c.Case(key+fmt.Sprint(rp["seed"]), !strings.HasSuffix(key, "short") && !strings.HasSuffix(key, "long"))
	rp["outcome"] = fmt.Sprintf("%+v", o)
	switch {
	case wantSuccess && !(o.success && o.smInstalled && o.chipDone && o.keysEqual && o.sscEqual && o.nextExchange):
		c.Violation("C05:genuine-run-fails", fmt.Sprintf("BAC against the conforming chip with the same MRZ did not complete (%s): %+v", key, o), rp)
	case !wantSuccess && o.success:
		c.Violation("C05:accepts-"+rp["source"].(string), fmt.Sprintf("DoBAC reported success for a non-genuine answer (%s): %+v", key, o), rp)
	case !wantSuccess && o.smInstalled:
		c.Violation("C05:session-installed-after-failure", fmt.Sprintf("DoBAC failed but a secure-messaging session is installed (%s): %+v", key, o), rp)
	}
}
