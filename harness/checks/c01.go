package checks

import (
	"bytes"
	"fmt"
	"math/rand"
	"strings"
	"time"

	"github.com/gmrtd/gmrtd/cms"
	"github.com/gmrtd/gmrtd/document"
	"github.com/gmrtd/gmrtd/passiveauth"

	"verif/harness/core"
	"verif/harness/pki"
)

func init() { Registry["C01"] = C01; Registry["C09"] = C09 }

// paItem is one concrete input of passive authentication.
type paItem struct {
	Name    string
	Class   string // genuine | forgery | probe | mutant
	Known   string // pki.KnownDeviations key, "" if none
	Note    string
	SOD     []byte
	DGs     map[int][]byte
	CardSec []byte
	ML      []byte // master list (then SOD is nil)
	MLCerts [][]byte // the certificates inside the SIGNED certList of the master list
	Trust   [][]byte
	KS      string
	After   *paItem // history: this document is verified first, with the SAME trust store object
}

type paReal struct {
	accept bool
	err    string
	panic  string
	anchor []byte // CertChain[1] of the SOD verification
	rejectedByCombined string // the same trust anchors as a CombinedCertPool of one pool per anchor: error, "" if accepted / not run
	poolExtra string // master list: a certificate in the returned pool that is not in the signed list
}

// paRun runs the REAL passive authentication (or master-list import) on the item.
func paRun(it paItem) (res paReal) {
	defer func() {
		if r := recover(); r != nil {
			res.accept = false
			res.panic = fmt.Sprint(r)
		}
	}()
	if it.ML != nil {
		pool, err := cms.CreateCertPoolFromSignedData(it.ML, bytes.Join(it.Trust, nil))
		if err != nil {
			res.err = err.Error()
			return
		}
		res.accept = pool != nil
		if pool != nil && it.MLCerts != nil {
			for _, pc := range pool.All() {
				found := false
				for _, want := range it.MLCerts {
					if bytes.Equal(pc.Raw, want) {
						found = true
					}
				}
				if !found {
					res.poolExtra = core.Hex(pc.Raw)
				}
			}
		}
		return
	}
	doc := &document.Document{}
	var err error
	if doc.Mf.Lds1.Sod, err = document.NewSOD(it.SOD); err != nil {
		res.err = "NewSOD: " + err.Error()
		return
	}
	if doc.Mf.Lds1.Sod == nil {
		res.err = "NewSOD: empty"
		return
	}
	for n, b := range it.DGs {
		switch n {
		case 1:
			if doc.Mf.Lds1.Dg1, err = document.NewDG1(b); err != nil {
				res.err = "NewDG1: " + err.Error()
				return
			}
		case 2:
			doc.Mf.Lds1.Dg2 = &document.DG2{RawData: b}
		case 7:
			doc.Mf.Lds1.Dg7 = &document.DG7{RawData: b}
		case 11:
			doc.Mf.Lds1.Dg11 = &document.DG11{RawData: b}
		case 12:
			doc.Mf.Lds1.Dg12 = &document.DG12{RawData: b}
		case 13:
			doc.Mf.Lds1.Dg13 = &document.DG13{RawData: b}
		case 14:
			doc.Mf.Lds1.Dg14 = &document.DG14{RawData: b}
		case 15:
			doc.Mf.Lds1.Dg15 = &document.DG15{RawData: b}
		case 16:
			doc.Mf.Lds1.Dg16 = &document.DG16{RawData: b}
		}
	}
	if it.CardSec != nil {
		if doc.Mf.CardSecurity, err = document.NewCardSecurity(it.CardSec); err != nil {
			res.err = "NewCardSecurity: " + err.Error()
			return
		}
	}
	pool := &cms.GenericCertPool{}
	for _, t := range it.Trust {
		if err := pool.Add(t); err != nil {
			res.err = "trust store: " + err.Error()
			return
		}
	}
	if it.After != nil {
		// the verdict on a document does not depend on which documents the same trust store verified before
		first := *it.After
		first.After = nil
		first.Trust = nil
		if d0 := paDocOf(first); d0 != nil {
			_, _ = passiveauth.PassiveAuth(d0, pool)
		}
	}
	r, err := passiveauth.PassiveAuth(doc, pool)
	if err != nil {
		res.err = err.Error()
	}
	res.accept = err == nil && r != nil && r.Success
	if r != nil && r.Sod != nil && len(r.Sod.CertChain) > 1 {
		res.anchor = r.Sod.CertChain[1]
	}
	// the trust store as the production default builds it: a CombinedCertPool (one pool per master list; here one per
	// anchor, in the same order). The verdict belongs to the SET of anchors, not to the container: an acceptance by
	// either counts as an acceptance (C01), a rejection by either as a rejection (C09).
	if it.Class != "mutant" && len(it.Trust) >= 2 {
		comb := &cms.CombinedCertPool{}
		for _, t := range it.Trust {
			one := &cms.GenericCertPool{}
			if err := one.Add(t); err != nil {
				return
			}
			comb.AddCertPool(one)
		}
		r2, err2 := passiveauth.PassiveAuth(doc, comb)
		if err2 == nil && r2 != nil && r2.Success {
			res.accept = true
		} else {
			res.rejectedByCombined = fmt.Sprintf("%v", err2)
			if res.rejectedByCombined == "" || err2 == nil {
				res.rejectedByCombined = "no success"
			}
		}
	}
	return
}

var alpha3to2 = map[string]string{"NLD": "NL", "DEU": "DE", "D<<": "DE", "FRA": "FR", "GBR": "GB", "UTO": ""}

func oneBased(v []int) []int {
	out := make([]int, 0, len(v))
	seen := map[int]bool{}
	for _, x := range v {
		if !seen[x] {
			seen[x] = true
			out = append(out, x+1)
		}
	}
	return out
}

func within(t *time.Time, nb, na time.Time, ok bool) string {
	if t == nil {
		return "in"
	}
	if !ok || t.Before(nb) || t.After(na) {
		return "out"
	}
	return "in"
}

// paObj projects pki facts of one security object onto the object record of PassiveAuth.tla.
func paObj(f *pki.Facts, needLDS bool) map[string]any {
	parse := f != nil && f.Parseable && f.InternalPanic == ""
	if parse && needLDS && !f.LDSParseable {
		parse = false
	}
	o := map[string]any{"parse": parse, "signers": []any{}, "certs": []any{}}
	if f == nil {
		return o
	}
	var signers []any
	// which signer "uses" each certificate (for the validity relative to the stated signing time)
	user := map[int]int{}
	for k, s := range f.Signers {
		for _, i := range append(append([]int{}, s.SigVerifiesUnder...), s.SigVerifiesUnderDigestAlg...) {
			if _, ok := user[i]; !ok {
				user[i] = k
			}
		}
	}
	for _, s := range f.Signers {
		t := "none"
		if s.SigningTime != nil {
			t = "t"
		}
		signers = append(signers, map[string]any{"attrs": s.SignedAttrsPresent, "ctOK": s.ContentTypeOK, "mdOK": s.MessageDigestOK, "time": t,
			"sid": oneBased(append(append([]int{}, s.MatchedEmbeddedCerts...), s.MatchedUnordered...)),
			"sig": oneBased(append(append([]int{}, s.SigVerifiesUnder...), s.SigVerifiesUnderDigestAlg...))})
	}
	var certs []any
	for i, cf := range f.Certs {
		var st *time.Time
		if len(f.Signers) > 0 {
			st = f.Signers[user[i]].SigningTime
		}
		certs = append(certs, map[string]any{"v": within(st, cf.NotBefore, cf.NotAfter, cf.ValidityParseable && cf.Parseable), "unknownCrit": cf.UnknownCriticalExt || !cf.Parseable,
			"hasKU": cf.HasKeyUsage && !cf.KeyUsageMalformed, "digSig": cf.KUDigitalSignature, "ekuOK": true, "hasAKI": cf.AKI != nil,
			"aki": oneBased(cf.AKIMatches), "by": oneBased(append(append([]int{}, cf.ChainsTo...), cf.ChainsToLenient...))})
	}
	if signers != nil {
		o["signers"] = signers
	}
	if certs != nil {
		o["certs"] = certs
	}
	return o
}

// paDoc computes the document record (facts) of an item with the independent verifier.
func paDoc(it paItem) map[string]any {
	d := map[string]any{"dgOK": true, "countryOK": true}
	noObj := map[string]any{"absent": true, "parse": false, "signers": []any{}, "certs": []any{}}
	var f *pki.Facts
	var anchors []pki.AnchorFacts
	if it.ML != nil {
		f, anchors = pki.ComputeFacts(it.ML, nil, it.Trust)
		d["sod"] = paObj(f, false)
		if f != nil && !f.MasterListParseable {
			d["sod"].(map[string]any)["parse"] = false
		}
		d["cardsec"] = noObj
	} else {
		f, anchors = pki.ComputeFacts(it.SOD, it.DGs, it.Trust)
		d["sod"] = paObj(f, true)
		for n, b := range it.DGs {
			if len(b) == 0 {
				continue // an empty file is an absent data group
			}
			if f == nil || !f.DGHashOK[n] {
				d["dgOK"] = false
			}
		}
		if it.CardSec != nil {
			cf, _ := pki.ComputeFacts(it.CardSec, nil, it.Trust)
			d["cardsec"] = paObj(cf, false)
		} else {
			d["cardsec"] = noObj
		}
	}
	// country: all embedded certificates name one issuing country; DG1 (if present) names the same
	country := ""
	if f != nil {
		for i, cf := range f.Certs {
			if i == 0 {
				country = cf.Country
			} else if !strings.EqualFold(cf.Country, country) {
				d["countryOK"] = false
			}
		}
		if len(f.Certs) == 0 {
			d["countryOK"] = false
		}
	}
	if it.ML == nil {
		if dg1, ok := it.DGs[1]; ok && len(dg1) > 0 {
			// 61 L 5F1F L <mrz>: issuing state at MRZ[2:5]
			if i := bytes.Index(dg1, []byte{0x5F, 0x1F}); i >= 0 && len(dg1) >= i+3+5 {
				a2, known := alpha3to2[string(dg1[i+3+2:i+3+5])]
				if !known || a2 == "" || !strings.EqualFold(a2, country) {
					d["countryOK"] = false
				}
			} else {
				d["countryOK"] = false
			}
		}
	}
	var first *time.Time
	if f != nil && len(f.Signers) > 0 {
		first = f.Signers[0].SigningTime
	}
	var as []any
	for _, a := range anchors {
		c := "other"
		if it.ML != nil || strings.EqualFold(a.Country, country) {
			c = "doc"
		}
		ekuBad := a.HasEKU && a.EKUCritical
		for _, e := range a.EKU {
			if e == "2.5.29.37.0" {
				ekuBad = false
			}
		}
		as = append(as, map[string]any{"country": c, "v": within(first, a.NotBefore, a.NotAfter, a.ValidityParseable && a.Parseable), "isCA": a.IsCA && a.Parseable,
			"hasKU": a.HasKeyUsage && !a.KeyUsageMalformed, "certSign": a.KUKeyCertSign, "unknownCrit": a.UnknownCriticalExt, "ekuBad": ekuBad})
	}
	if as == nil {
		as = []any{}
	}
	d["anchors"] = as
	return d
}

// paJudge runs items through the real code and the specification; it returns per item what the
// specification concluded.
type paVerdict struct {
	real                    paReal
	specVerdict             string // ok | unsound | incomplete
	valid, genuine, asbuilt bool
}

func paJudge(c *core.Ctx, items []paItem) []paVerdict {
	out := make([]paVerdict, len(items))
	lines := make([][]byte, len(items))
	core.ParallelFor(len(items), func(i int) {
		out[i].real = paRun(items[i])
		lines[i] = core.JSONLine(map[string]any{"d": paDoc(items[i]), "accept": out[i].real.accept})
	})
	for i := range out {
		out[i].specVerdict = "ok"
	}
	// TLC in chunks (JSON lines are large)
	const chunk = 4000
	for lo := 0; lo < len(lines); lo += chunk {
		hi := min(lo+chunk, len(lines))
		tr := c.ValidateTrace("Trace_PassiveAuth", lines[lo:hi], core.TLCOpts{Timeout: 30 * time.Minute})
		for _, rj := range tr.Rejected {
			out[lo+rj[0].(int)-1].specVerdict = core.Str(rj[1])
		}
		for _, ft := range tr.Tagged["FACTS"] {
			v := &out[lo+ft[0].(int)-1]
			v.valid, v.genuine, v.asbuilt = ft[1].(bool), ft[2].(bool), ft[3].(bool)
		}
	}
	c.AddTraces(int64(len(items)))
	return out
}

// paDocOf builds the document of an item (raw data groups, parsed security objects); nil if it cannot be built.
func paDocOf(it paItem) *document.Document {
	doc := &document.Document{}
	var err error
	if doc.Mf.Lds1.Sod, err = document.NewSOD(it.SOD); err != nil || doc.Mf.Lds1.Sod == nil {
		return nil
	}
	for n, b := range it.DGs {
		if n == 1 {
			if doc.Mf.Lds1.Dg1, err = document.NewDG1(b); err != nil {
				return nil
			}
			continue
		}
		if err := replaceDGRaw(doc, n, b); err != nil {
			return nil
		}
	}
	if it.CardSec != nil {
		if doc.Mf.CardSecurity, err = document.NewCardSecurity(it.CardSec); err != nil {
			return nil
		}
	}
	return doc
}

func replaceDGRaw(doc *document.Document, n int, b []byte) error {
	l := &doc.Mf.Lds1
	switch n {
	case 2:
		l.Dg2 = &document.DG2{RawData: b}
	case 7:
		l.Dg7 = &document.DG7{RawData: b}
	case 11:
		l.Dg11 = &document.DG11{RawData: b}
	case 12:
		l.Dg12 = &document.DG12{RawData: b}
	case 13:
		l.Dg13 = &document.DG13{RawData: b}
	case 14:
		l.Dg14 = &document.DG14{RawData: b}
	case 15:
		l.Dg15 = &document.DG15{RawData: b}
	case 16:
		l.Dg16 = &document.DG16{RawData: b}
	default:
		return fmt.Errorf("DG%d", n)
	}
	return nil
}

func scenarioItems(seed int64, ks pki.KeySpec) []paItem {
	scs, err := pki.Scenarios(seed, ks)
	if err != nil {
		core.Infra("pki.Scenarios(%v): %v", ks, err)
	}
	var items []paItem
	for _, s := range scs {
		items = append(items, paItem{Name: s.Name, Class: s.Class, Known: s.KnownDeviation, Note: s.Note, SOD: s.SOD, DGs: s.DGs, CardSec: s.CardSec, ML: s.MasterList, MLCerts: s.MLExpectCerts, Trust: s.Trust, KS: ks.String()})
	}
	return items
}

// mutants of one genuine item: every byte position of the security object(s), a data group and the
// anchor with a set of substitutions, plus truncations.
func byteMutants(base paItem, rnd *rand.Rand, masks []byte, stride int) []paItem {
	var out []paItem
	mut := func(kind string, src []byte, apply func(m []byte) paItem) {
		for pos := 0; pos < len(src); pos += stride {
			for _, mask := range masks {
				m := append([]byte{}, src...)
				m[pos] ^= mask
				it := apply(m)
				it.Name = fmt.Sprintf("%s/%s-byte%d-xor%02x", base.Name, kind, pos, mask)
				it.Class = "mutant"
				out = append(out, it)
			}
		}
		for k := 0; k < 6 && len(src) > 4; k++ {
			it := apply(append([]byte{}, src[:rnd.Intn(len(src))]...))
			it.Name = fmt.Sprintf("%s/%s-truncated-%d", base.Name, kind, k)
			it.Class = "mutant"
			out = append(out, it)
		}
	}
	mut("sod", base.SOD, func(m []byte) paItem { it := base; it.SOD = m; return it })
	if base.CardSec != nil {
		mut("cardsec", base.CardSec, func(m []byte) paItem { it := base; it.CardSec = m; return it })
	}
	for _, n := range []int{1, 2} {
		if dg, ok := base.DGs[n]; ok {
			nn := n
			mut(fmt.Sprintf("dg%d", n), dg, func(m []byte) paItem {
				it := base
				it.DGs = map[int][]byte{}
				for k, v := range base.DGs {
					it.DGs[k] = v
				}
				it.DGs[nn] = m
				return it
			})
		}
	}
	if len(base.Trust) > 0 {
		mut("anchor", base.Trust[0], func(m []byte) paItem {
			it := base
			it.Trust = append([][]byte{m}, base.Trust[1:]...)
			return it
		})
	}
	return out
}

func paSpecs(c *core.Ctx) []pki.KeySpec {
	if c.Thorough() {
		return pki.CoveringKeySpecs()
	}
	return []pki.KeySpec{
		{Kind: "rsa", Bits: 2048, Hash: "sha256"},
		{Kind: "ecdsa", Curve: "brainpoolP256r1", ExplicitParams: true, Hash: "sha256"},
		{Kind: "rsa-pss", Bits: 2048, Hash: "sha256"},
		{Kind: "ecdsa", Curve: "P-256", Hash: "sha256"},
	}
}

// C01 — passive authentication accepts only CSCA-rooted, hash-consistent documents.
func C01(c *core.Ctx) {
	c.Rule = "one case per concrete (security object, data groups, card security object, trust store): issued scenarios (genuine, forged, probes) for several signature profiles plus byte-level mutants of genuine objects; non-trivial = not the unmodified genuine object; distinct by scenario / mutant name + key spec"
	c.Assume("atomic facts (which key verifies which signature, digests, validity, extensions) are computed by harness/pki on Go's math/big and hash packages; PassiveAuth.tla only says how they combine")
	c.Assume("name chaining (issuer name = CSCA subject name) and extended key usage of the signer are not part of the property statement and are not required by Valid")

	c.MustTLC(core.TLCOpts{Module: "MC_PassiveAuth", Cfg: core.Pick(c, "MC_PassiveAuth_quick.cfg", "MC_PassiveAuth_full.cfg"), Timeout: 30 * time.Minute})
	c.MustTLC(core.TLCOpts{Module: "MC_PassiveAuth", Cfg: "MC_PassiveAuth_twosigners.cfg", Timeout: 30 * time.Minute})

	var items []paItem
	for si, ks := range paSpecs(c) {
		sc := scenarioItems(c.Seed+int64(si), ks)
		items = append(items, sc...)
		// byte mutants of the genuine base document (+ the one with a card security object)
		for _, it := range sc {
			if it.Class == "genuine" && (it.Name == "genuine/base" || it.Name == "genuine/cardsecurity") && it.Known == "" {
				masks := core.Pick(c, []byte{0x01, 0x80}, []byte{0x01, 0x02, 0x10, 0x80, 0xFF})
				stride := core.Pick(c, 3, 1)
				if si > 1 {
					stride *= 2
				}
				bm := byteMutants(it, c.Rand, masks, stride)
				items = append(items, bm...)
				// histories: the genuine document first, then (same trust store object) a document with the same security
				// object and an altered data group / the altered objects themselves
				base := it
				nh := 0
				for k := len(bm) - 1; k >= 0 && nh < core.Pick(c, 6, 40); k -= 1 + len(bm)/core.Pick(c, 12, 80) {
					h := bm[k]
					h.After = &base
					h.Name += "/after-the-genuine-document"
					items = append(items, h)
					nh++
				}
			}
		}
		// ... and the forgeries that keep the genuine security object
		for _, it := range sc {
			if it.Class == "forgery" && it.ML == nil && it.SOD != nil {
				for _, g := range sc {
					if g.Name == "genuine/base" && bytes.Equal(g.SOD, it.SOD) {
						base := g
						h := it
						h.After = &base
						h.Name += "/after-the-genuine-document"
						items = append(items, h)
					}
				}
			}
		}
	}
	vs := paJudge(c, items)
	accMut, outside, probesUnsound := 0, 0, 0
	var unsoundNames []string
	for i, it := range items {
		v := vs[i]
		c.Case(it.KS+"/"+it.Name, it.Name != "genuine/base")
		rp := map[string]any{"name": it.Name, "keyspec": it.KS, "note": it.Note, "real_accept": v.real.accept, "real_error": v.real.err, "valid": v.valid, "sod": core.Hex(it.SOD), "trust": len(it.Trust)}
		if it.Class == "mutant" && v.real.accept {
			accMut++
		}
		if v.real.panic != "" {
			// crash on attacker-supplied input: C12's subject; for C01 it is "not accepted"
			continue
		}
		if v.real.poolExtra != "" {
			// the master-list clause: only certificates covered by the verified signature enter a trust store
			c.Violation("C01:master-list-pool-contains-unsigned-certificate", fmt.Sprintf("[%s] %s: the pool built from the master list contains a certificate that is not in its signed certList", it.KS, it.Name),
				map[string]any{"name": it.Name, "keyspec": it.KS, "master_list": core.Hex(it.ML), "certificate": v.real.poolExtra})
		}
		if v.specVerdict == "unsound" && it.Class == "probe" {
			probesUnsound++ // verdict not fixed by the standard / property (e.g. the ECDSA curve fall-back): informational
			continue
		}
		if v.specVerdict == "unsound" {
			unsoundNames = append(unsoundNames, it.KS+" "+it.Name)
			key := "C01:accepts-invalid:" + it.Name
			if it.Class == "mutant" {
				key = "C01:accepts-invalid-mutant"
			}
			if it.Known != "" {
				key = "C01:" + it.Known
			}
			c.Violation(key, fmt.Sprintf("passive authentication accepted [%s] %s (%s) although the independently computed facts do not satisfy Valid", it.KS, it.Name, it.Note), rp)
		} else if it.Class == "forgery" && v.real.accept {
			outside++ // accepted forgery whose facts satisfy Valid: outside the property statement (e.g. name chaining)
		}
	}
	if len(unsoundNames) > 60 {
		unsoundNames = unsoundNames[:60]
	}
	c.Extra["unsound_items"] = unsoundNames
	c.Extra["items"] = len(items)
	c.Extra["mutants_accepted_by_real_code_and_valid"] = accMut
	c.Extra["accepted_forgeries_outside_the_property_statement"] = outside
	c.Extra["accepted_probes_whose_facts_are_not_valid"] = probesUnsound
	c.Sample(map[string]any{"name": items[0].Name, "keyspec": items[0].KS, "real_accept": vs[0].real.accept, "valid": vs[0].valid})
	c.Sample(map[string]any{"name": items[len(items)-1].Name, "keyspec": items[len(items)-1].KS, "real_accept": vs[len(items)-1].real.accept, "valid": vs[len(items)-1].valid})
}

// C09 — genuine security objects verify for every supported algorithm profile.
func C09(c *core.Ctx) {
	c.Rule = "one case per (issuing key spec, validity-irrelevant variant) of a correctly issued document; non-trivial = all; distinct by key spec + variant"
	c.Assume("the crypto matrix is executed, not modelled; PassiveAuth.tla contributes the Genuine predicate and the Completeness theorem over the fact space")
	c.MustTLC(core.TLCOpts{Module: "MC_PassiveAuth", Cfg: "MC_PassiveAuth_quick.cfg"})

	specs := pki.CoveringKeySpecs()
	if c.Thorough() {
		specs = pki.AllKeySpecs()
	}
	variants := []pki.Variant{{}, {SIDSKI: true}, {LDSv1: true}, {Indefinite: true}, {NoSigningTime: true}, {ExtraCertsBefore: 1}, {ExtraCertsAfter: 2},
		{CrossSignedFirst: true}, {CrossSignedSecond: true}, {RDNOrderPermuted: true}, {NameStringType: "utf8"}, {SigningTimeAtNotBefore: true}, {SigningTimeAtNotAfter: true},
		{WithCardSecurity: true}, {SIDSKI: true, LDSv1: true, Indefinite: true, ExtraCertsAfter: 1, CrossSignedFirst: true, NameStringType: "utf8"},
		{NoSigningTime: true, CrossSignedSecond: true, RDNOrderPermuted: true, WithCardSecurity: true},
		{SIDIssuerReordered: true}, {SIDIssuerReordered: true, RepeatedAttrType: true, ExtraCertsAfter: 2}, {RepeatedAttrType: true, RDNOrderPermuted: true, ExtraCertsBefore: 1},
		{ExpiredSameKeyAnchorFirst: true}, {ExpiredSameKeyAnchorSecond: true}, {ExpiredSameKeyAnchorFirst: true, CrossSignedSecond: true, SIDIssuerReordered: true, RepeatedAttrType: true, ExtraCertsAfter: 1}}
	var items []paItem
	for si, ks := range specs {
		for vi, v := range variants {
			if !c.Thorough() && (si+vi)%3 != 0 && vi != 0 && vi < 16 {
				continue
			}
			sc, err := pki.GenuineScenario(c.Seed+int64(si*100+vi), ks, v)
			if err != nil {
				core.Infra("GenuineScenario(%v,%v): %v", ks, v, err)
			}
			items = append(items, paItem{Name: "genuine/" + v.String(), Class: "genuine", Known: sc.KnownDeviation, Note: sc.Note, SOD: sc.SOD, DGs: sc.DGs, CardSec: sc.CardSec, Trust: sc.Trust, KS: ks.String()})
		}
	}
	// the issued scenario list also contains genuine variants (encodings, cross-signed stores, master lists)
	for si, ks := range paSpecs(c) {
		for _, it := range scenarioItems(c.Seed+1000+int64(si), ks) {
			if it.Class == "genuine" {
				items = append(items, it)
			}
		}
	}
	vs := paJudge(c, items)
	notGenuineFacts := 0
	for i, it := range items {
		v := vs[i]
		c.Case(it.KS+"/"+it.Name, true)
		rp := map[string]any{"name": it.Name, "keyspec": it.KS, "note": it.Note, "real_error": v.real.err, "panic": v.real.panic, "sod": core.Hex(it.SOD)}
		if !v.genuine {
			notGenuineFacts++
		}
		if v.real.accept && v.real.rejectedByCombined != "" && (v.genuine || it.Class == "genuine") {
			c.Violation("C09:rejects-genuine-with-combined-trust-store:"+it.Name, fmt.Sprintf("correctly issued document accepted with the anchors in one GenericCertPool, rejected with the same anchors in a CombinedCertPool [%s] %s: %s", it.KS, it.Name, v.real.rejectedByCombined), rp)
		}
		if !v.real.accept && (v.genuine || it.Class == "genuine") {
			key := "C09:rejects-genuine:" + it.Name
			if it.Known != "" {
				key = "C09:" + it.Known
			} else if strings.Contains(it.KS, "rsa-pss") && strings.Contains(it.KS, "sha1") {
				key = "C09:pss-sha1-der-params"
			}
			c.Violation(key, fmt.Sprintf("correctly issued document rejected [%s] %s: %s %s", it.KS, it.Name, v.real.err, v.real.panic), rp)
		}
	}
	// a long-lived trust store that GROWS between verifications (key roll-over, a new master list): document A is
	// verified, the anchors of document B are added - as DER (Add) or as parsed certificates (AddCerts) - then B
	grown := 0
	for i := 0; i+1 < len(items) && grown < core.Pick(c, 24, 200); i++ {
		a, b := items[i], items[i+1]
		if a.ML != nil || b.ML != nil || !vs[i].real.accept || !vs[i+1].real.accept || len(a.Trust) == 0 || len(b.Trust) == 0 || bytes.Equal(a.Trust[0], b.Trust[0]) {
			continue
		}
		da, db := paDocOf(a), paDocOf(b)
		if da == nil || db == nil {
			continue
		}
		for _, how := range []string{"Add", "AddCerts"} {
			grown++
			pool := &cms.GenericCertPool{}
			for _, t := range a.Trust {
				_ = pool.Add(t)
			}
			_, _ = passiveauth.PassiveAuth(da, pool)
			for _, t := range b.Trust {
				if how == "Add" {
					_ = pool.Add(t)
				} else {
					tmp := &cms.GenericCertPool{}
					_ = tmp.Add(t)
					pool.AddCerts(tmp.All())
				}
			}
			r, err := passiveauth.PassiveAuth(db, pool)
			c.Case(fmt.Sprintf("store-grows/%s/%s/%s+%s", how, b.KS, a.Name, b.Name), true)
			if err != nil || r == nil || !r.Success {
				c.Violation("C09:rejects-genuine-after-the-trust-store-grew:"+how, fmt.Sprintf("correctly issued document [%s] %s rejected by a trust store that had verified another document before its anchors were added with %s: %v", b.KS, b.Name, how, err),
					map[string]any{"first": a.Name, "second": b.Name, "how": how, "keyspec": b.KS})
			}
		}
	}
	c.Extra["trust_store_growth_histories"] = grown
	c.Extra["items"] = len(items)
	c.Extra["issued_genuine_items_whose_facts_are_not_Genuine"] = notGenuineFacts
	c.Sample(map[string]any{"name": items[0].Name, "keyspec": items[0].KS, "real_accept": vs[0].real.accept, "facts_genuine": vs[0].genuine})
	c.Sample(map[string]any{"name": items[len(items)-1].Name, "keyspec": items[len(items)-1].KS, "real_accept": vs[len(items)-1].real.accept})
}
