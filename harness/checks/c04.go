package checks

import (
	"bytes"
	"crypto/elliptic"
	"fmt"
	"math/big"
	"math/rand"
	"strings"

	"github.com/gmrtd/gmrtd/document"
	"github.com/gmrtd/gmrtd/pace"
	"github.com/gmrtd/gmrtd/password"

	"verif/harness/chipsim"
	"verif/harness/core"
	"verif/harness/link"
	"verif/harness/perso"
	"verif/harness/sim"
)

func init() { Registry["C04"] = C04 }

var paceGmOIDs = []string{chipsim.OIDPaceEcdhGm3Des, chipsim.OIDPaceEcdhGmAes128, chipsim.OIDPaceEcdhGmAes192, chipsim.OIDPaceEcdhGmAes256}
var paceCamOIDs = []string{chipsim.OIDPaceEcdhCamAes128, chipsim.OIDPaceEcdhCamAes192, chipsim.OIDPaceEcdhCamAes256}

func paceOidName(o string) string {
	for i, x := range paceGmOIDs {
		if x == o {
			return []string{"GM-3DES", "GM-AES128", "GM-AES192", "GM-AES256"}[i]
		}
	}
	for i, x := range paceCamOIDs {
		if x == o {
			return []string{"CAM-AES128", "CAM-AES192", "CAM-AES256"}[i]
		}
	}
	return o
}

type paceCase struct {
	OID       string
	ParamID   int
	Password  string // "mrz" | "can" | "mrz-extdoc"
	Dev       string // deviation of Pace.tla
	Dev2      string // second deviation of the run ("" = none)
	DevForm   string // concrete form of the altered value
	ForceZero string // "" | "ka" (shared x-coordinate with a leading zero octet) | "map"
	Seed      int64
}

func (k paceCase) String() string {
	return fmt.Sprintf("%s id=%d pw=%s dev=%s+%s/%s zero=%s", paceOidName(k.OID), k.ParamID, k.Password, k.Dev, k.Dev2, k.DevForm, k.ForceZero)
}

type paceOutcome struct {
	success, cam, sm, keysEqual, chipCompleted, chipCam, nextOK bool
	oid                                                  string
	err                                                  string
	forcedZero                                           bool
}

// replace the value of data object `tag` inside the dynamic authentication data 7C of a response
func patch7C(resp []byte, tag byte, f func(v []byte) []byte) []byte {
	if len(resp) < 4 || resp[0] != 0x7C {
		return resp
	}
	sw := resp[len(resp)-2:]
	top, err := chipsim.ParseTLVs(resp[:len(resp)-2])
	if err != nil || len(top) != 1 {
		return resp
	}
	inner, err := chipsim.ParseTLVs(top[0].Value)
	if err != nil {
		return resp
	}
	var body []byte
	for _, t := range inner {
		v := t.Value
		if byte(t.Tag) == tag {
			v = f(append([]byte{}, v...))
		}
		body = append(body, chipsim.EncodeTLV(t.Tag, v)...)
	}
	return append(chipsim.EncodeTLV(0x7C, body), sw...)
}

// drop7C removes the object with the given tag from a 7C template response.
func drop7C(resp []byte, tag byte) []byte {
	if len(resp) < 4 || resp[0] != 0x7C {
		return resp
	}
	sw := resp[len(resp)-2:]
	top, err := chipsim.ParseTLVs(resp[:len(resp)-2])
	if err != nil || len(top) != 1 {
		return resp
	}
	inner, err := chipsim.ParseTLVs(top[0].Value)
	if err != nil {
		return resp
	}
	var body []byte
	for _, t := range inner {
		if byte(t.Tag) != tag {
			body = append(body, chipsim.EncodeTLV(t.Tag, t.Value)...)
		}
	}
	return append(chipsim.EncodeTLV(0x7C, body), sw...)
}

func get7C(data []byte, tag byte) []byte {
	top, err := chipsim.ParseTLVs(data)
	if err != nil || len(top) != 1 {
		return nil
	}
	inner, err := chipsim.ParseTLVs(top[0].Value)
	if err != nil {
		return nil
	}
	for _, t := range inner {
		if byte(t.Tag) == tag {
			return t.Value
		}
	}
	return nil
}

func otherPoint(paramID int, rnd *rand.Rand) []byte {
	curve, err := chipsim.CurveByParamID(paramID)
	if err != nil {
		core.Infra("curve %d: %v", paramID, err)
	}
	k := new(big.Int).SetInt64(int64(2 + rnd.Intn(1<<30)))
	x, y := curve.ScalarBaseMult(k.Bytes())
	return elliptic.Marshal(curve, x, y)
}

func alterPoint(v []byte, form string, paramID int, rnd *rand.Rand) []byte {
	switch form {
	case "otherpoint":
		return otherPoint(paramID, rnd)
	case "bitflip":
		v[1+rnd.Intn(len(v)-1)] ^= 1 << uint(rnd.Intn(8))
		return v
	case "trunc":
		return v[:len(v)-1]
	case "empty":
		return []byte{}
	case "infinity":
		return []byte{0x00}
	}
	return v
}

func runPace(k paceCase) paceOutcome {
	rnd := rand.New(rand.NewSource(k.Seed))
	o := perso.Options{Seed: k.Seed, BAC: true, Pace: []chipsim.PaceSpec{{OID: k.OID, ParamID: k.ParamID}}, IssuerTrusted: true,
		Transport: chipsim.Transport{ExtendedLength: true}, CAN: "123456"}
	if k.Password == "mrz-extdoc" {
		o.DocNumber = "D23145890" // 9 chars in TD3; the extended form lives in TD1/TD2 zones (covered by C18/C05)
	}
	cam := strings.Contains(paceOidName(k.OID), "CAM")
	if cam {
		o.CA = []perso.CASpec{{OID: chipsim.OIDCaEcdhAes128, ParamID: k.ParamID}}
	}
	if k.Dev == "cardsec-key" || k.Dev2 == "cardsec-key" {
		o.Personality = chipsim.PersonalityByName("cam-no-key")
	}
	if (k.Dev == "" || k.Dev == "none") && k.Seed%3 == 0 {
		// a conforming chip is free in its BER length forms: two-octet lengths in every object of the 7C templates
		o.Personality.FixedWidthLengths = true
	}
	if k.Dev == "ecad" && strings.HasPrefix(k.DevForm, "pad-") {
		// the chip itself sends genuine chip authentication data under a malformed padding: an altered ECAD all the same
		o.Personality.CAMPadding = strings.TrimPrefix(k.DevForm, "pad-")
	}
	var out paceOutcome
	if k.ForceZero != "" {
		o.ChooseScalar = func(phase string, curve elliptic.Curve, px, py *big.Int) *big.Int {
			if (k.ForceZero == "ka" && phase == "pace-ka") || (k.ForceZero == "map" && phase == "pace-map") {
				if s := chipsim.FindScalarWithLeadingZeroX(curve, px, py, rnd); s != nil {
					out.forcedZero = true
					return s
				}
			}
			return nil
		}
	}
	p, err := perso.New(o)
	if err != nil {
		core.Infra("perso: %v", err)
	}
	chip, err := p.Chip()
	if err != nil {
		core.Infra("chip: %v", err)
	}
	s := sim.NewPlain(chip)
	doc := &document.Document{}
	ca, err := s.Nfc.ReadFile(chipsim.FidCardAccess)
	if err != nil || ca == nil {
		core.Infra("C04: EF.CardAccess not readable: %v", err)
	}
	if doc.Mf.CardAccess, err = document.NewCardAccess(ca); err != nil {
		core.Infra("C04: NewCardAccess: %v", err)
	}
	var pass *password.Password
	switch k.Password {
	case "can":
		pass = password.NewPasswordCan("123456")
	default:
		if pass, err = password.NewPasswordMrz(p.MRZ); err != nil {
			core.Infra("C04: NewPasswordMrz: %v", err)
		}
	}
	has := func(d string) bool {
		return k.Dev == d || k.Dev2 == d || (d == "kakey-echo" || d == "token-echo") && (k.Dev == "reflect" || k.Dev2 == "reflect")
	}
	if has("password") {
		if k.Password == "can" {
			pass = password.NewPasswordCan("123457")
		} else {
			pass = &password.Password{PasswordType: password.PASSWORD_TYPE_MRZi, Password: chipsim.MRZInformation("L898902C4", "740812", "120415")}
		}
	}
	ga := 0
	var termKey, termToken []byte
	s.Link.Script = func(idx int, cmd []byte, l *link.Link) link.Action {
		if len(cmd) < 5 {
			return link.Pass
		}
		ins := cmd[1]
		step := ""
		switch ins {
		case 0x22:
			step = "mse"
		case 0x86:
			ga++
			step = []string{"", "nonce", "map", "ka", "token"}[min(ga, 4)]
			if pc, err := chipsim.ParseCommand(cmd); err == nil {
				if v := get7C(pc.Data, 0x81); v != nil {
					termKey = v
				}
				if v := get7C(pc.Data, 0x83); v != nil {
					termKey = v
				}
				if v := get7C(pc.Data, 0x85); v != nil {
					termToken = v
				}
			}
		default:
			return link.Pass
		}
		tk := append([]byte{}, termKey...)
		tt := append([]byte{}, termToken...)
		return link.Action{Name: k.Dev + "+" + k.Dev2 + "@" + step, Respond: func(g []byte, l *link.Link) []byte {
			if has("sw-" + step) {
				return []byte{0x63, 0x00}
			}
			if has("nonce") && step == "nonce" {
				g = patch7C(g, 0x80, func(v []byte) []byte { v[rnd.Intn(len(v))] ^= 1 << uint(rnd.Intn(8)); return v })
			}
			if has("mapkey") && step == "map" {
				g = patch7C(g, 0x82, func(v []byte) []byte { return alterPoint(v, k.DevForm, k.ParamID, rnd) })
			}
			if has("mapkey-echo") && step == "map" {
				g = patch7C(g, 0x82, func(v []byte) []byte { return tk })
			}
			if has("kakey") && step == "ka" {
				g = patch7C(g, 0x84, func(v []byte) []byte { return alterPoint(v, k.DevForm, k.ParamID, rnd) })
			}
			if has("kakey-echo") && step == "ka" {
				g = patch7C(g, 0x84, func(v []byte) []byte { return tk })
			}
			if has("token-echo") && step == "token" {
				// whatever the chip said (6300): the terminal's own token comes back as T_IC with 9000
				return append(chipsim.EncodeTLV(0x7C, chipsim.EncodeTLV(0x86, tt)), 0x90, 0x00)
			}
			if has("token") && step == "token" {
				g = patch7C(g, 0x86, func(v []byte) []byte { v[rnd.Intn(len(v))] ^= 1 << uint(rnd.Intn(8)); return v })
			}
			if has("ecad-absent") && step == "token" {
				g = drop7C(g, 0x8A)
			}
			if has("ecad") && step == "token" && strings.HasPrefix(k.DevForm, "lastbyte:") {
				var pos, x int
				fmt.Sscanf(k.DevForm, "lastbyte:%d:%d", &pos, &x)
				g = patch7C(g, 0x8A, func(v []byte) []byte { v[len(v)-16+pos] ^= byte(x); return v })
			} else if has("ecad") && step == "token" && !strings.HasPrefix(k.DevForm, "pad-") {
				g = patch7C(g, 0x8A, func(v []byte) []byte { v[rnd.Intn(len(v))] ^= 1 << uint(rnd.Intn(8)); return v })
			}
			return g
		}}
	}
	func() {
		defer func() {
			if r := recover(); r != nil {
				out.err = fmt.Sprintf("panic: %v", r)
			}
		}()
		res, camRes, err := pace.NewPace(s.Nfc, doc, pass).DoPACE()
		if err != nil {
			out.err = err.Error()
		}
		out.success = err == nil && res != nil && res.Success
		out.cam = camRes != nil && camRes.Success
		if res != nil {
			out.oid = res.Oid.String()
		}
	}()
	s.Link.Script = nil
	tr := chip.Truth()
	out.chipCompleted, out.chipCam = tr.PaceCompleted, tr.PaceCamCompleted
	if sm := s.Nfc.SM(); sm != nil {
		out.sm = true
		if tr.SM.Alive {
			out.keysEqual = bytes.Equal(sm.KsEnc(), tr.SM.KSenc) && bytes.Equal(sm.SSC(), tr.SM.SSC)
			before := len(tr.Accepted)
			if ok, err := s.Nfc.SelectAid(chipsim.AIDLDS1); err == nil && ok {
				data, err := s.Nfc.ReadFile(0x0101)
				out.nextOK = err == nil && bytes.Equal(data, p.DGBytes[1]) && len(chip.Truth().Accepted) > before
			}
		}
	}
	return out
}

// C04 — PACE succeeds with every conforming chip and fails closed otherwise.
func C04(c *core.Ctx) {
	c.Rule = "one case per (protocol OID, parameter id, password kind, deviation of Pace.tla with its concrete form, forced edge slice); non-trivial = all; distinct by the case tuple + seed"
	c.Assume("symbolic Diffie-Hellman / MAC in Pace.tla; the chip side is harness/chipsim (PACE-ECDH-GM/CAM, checked against the 9303-11 Appendix G worked example)")
	c.Assume("a PACEInfo with a supported OID but an RFU or absent parameter id is outside the selection clause")

	type row struct {
		mapping, dev, dev2, res, cam string
		sm, chip                      bool
	}
	var rows []row
	r := c.MustTLC(core.TLCOpts{Module: "MC_Pace", Cfg: "MC_Pace.cfg", Workers: 4})
	for _, line := range r.Lines {
		if !strings.HasPrefix(line, "<<\"T\"") {
			continue
		}
		v, err := core.ParseTLA(line)
		if err != nil {
			core.Infra("C04: %v", err)
		}
		t := v.([]any)
		rows = append(rows, row{core.Str(t[1]), core.Str(t[2]), core.Str(t[3]), core.Str(t[4]), core.Str(t[5]), t[6].(bool), t[7].(bool)})
	}
	if len(rows) != 224 {
		core.Infra("C04: expected 224 scenarios (single deviations and pairs), got %d", len(rows))
	}
	// the design without the comparison of the two key agreement keys must show the reflection counterexample
	if r2, err := c.TLC(core.TLCOpts{Module: "MC_Pace", Cfg: "MC_Pace_noecho.cfg", Workers: 2}); err != nil {
		core.Infra("%v", err)
	} else if r2.OK {
		core.Infra("MC_Pace_noecho: expected the reflection counterexample to FailClosed, found none")
	}
	// the selection loop keeping the domain parameters of the last usable entry must violate Coupled
	if r3, err := c.TLC(core.TLCOpts{Module: "MC_Pace", Cfg: "MC_Pace_paramsoflast.cfg", Workers: 2}); err != nil {
		core.Infra("%v", err)
	} else if r3.OK {
		core.Infra("MC_Pace_paramsoflast: expected CoupledInv to be violated (protocol of one entry, parameter id of another), found no error")
	}
	spec := map[string]row{}
	for _, rw := range rows {
		spec[rw.mapping+"/"+rw.dev+"/"+rw.dev2] = rw
	}

	ids := []int{8, 9, 10, 11, 12, 13, 14, 15, 16, 17, 18}
	var cases []paceCase
	add := func(k paceCase) { k.Seed = c.Rand.Int63(); cases = append(cases, k) }
	// (1) conforming runs over the full matrix (quick: covering subset)
	for ii, id := range ids {
		for oi, oid := range append(append([]string{}, paceGmOIDs...), paceCamOIDs...) {
			for pi, pw := range []string{"mrz", "can", "mrz-extdoc"} {
				if !c.Thorough() && (ii+oi+pi)%3 != 0 {
					continue
				}
				add(paceCase{OID: oid, ParamID: id, Password: pw, Dev: "none"})
			}
			// forced edge slices
			if c.Thorough() || (ii+oi)%4 == 0 {
				add(paceCase{OID: oid, ParamID: id, Password: "mrz", Dev: "none", ForceZero: "ka"})
			}
			if c.Thorough() && oi%3 == 0 {
				add(paceCase{OID: oid, ParamID: id, Password: "can", Dev: "none", ForceZero: "map"})
			}
		}
	}
	// (2) deviations
	forms := map[string][]string{"ecad": {"bitflip", "pad-marker-junk", "pad-marker-tail"}, "mapkey": {"otherpoint", "bitflip", "trunc", "empty", "infinity"}, "kakey": {"otherpoint", "bitflip", "trunc", "empty", "infinity"}}
	di := 0
	for _, rw := range rows {
		if rw.dev == "none" {
			continue
		}
		if rw.dev2 != "none" {
			// a pair of deviations: one run (three in the thorough tier)
			oids := paceGmOIDs
			if rw.mapping == "CAM" {
				oids = paceCamOIDs
			}
			for k := 0; k < core.Pick(c, 1, 3); k++ {
				di++
				add(paceCase{OID: oids[di%len(oids)], ParamID: ids[(di*7)%len(ids)], Password: []string{"mrz", "can"}[di%2], Dev: rw.dev, Dev2: rw.dev2, DevForm: "otherpoint"})
			}
			continue
		}
		oids := paceGmOIDs
		if rw.mapping == "CAM" {
			oids = paceCamOIDs
		}
		fs := forms[rw.dev]
		if fs == nil {
			fs = []string{"-"}
		}
		for _, f := range fs {
			reps := core.Pick(c, 3, 12)
			for k := 0; k < reps; k++ {
				di++
				add(paceCase{OID: oids[di%len(oids)], ParamID: ids[(di*7)%len(ids)], Password: []string{"mrz", "can"}[di%2], Dev: rw.dev, DevForm: f})
			}
		}
	}
	// "all single-value alterations": every single-octet alteration of the last ECAD block (pure padding on a 256-bit
	// curve), thorough tier: one curve completely; quick: a seeded slice
	for pos := 0; pos < 16; pos++ {
		for x := 1; x < 256; x++ {
			if c.Thorough() || (pos*255+x+int(c.Seed))%40 == 0 {
				add(paceCase{OID: paceCamOIDs[(pos+x)%len(paceCamOIDs)], ParamID: []int{12, 13}[x%2], Password: "mrz", Dev: "ecad", DevForm: fmt.Sprintf("lastbyte:%d:%d", pos, x)})
			}
		}
	}
	outs := make([]paceOutcome, len(cases))
	core.ParallelFor(len(cases), func(i int) { outs[i] = runPace(cases[i]) })
	forced := 0
	for i, k := range cases {
		o := outs[i]
		mapping := "GM"
		if strings.Contains(paceOidName(k.OID), "CAM") {
			mapping = "CAM"
		}
		d2 := k.Dev2
		if d2 == "" {
			d2 = "none"
		}
		sp := spec[mapping+"/"+k.Dev+"/"+d2]
		c.Case(k.String()+fmt.Sprint(k.Seed), true)
		rp := map[string]any{"case": k, "outcome": fmt.Sprintf("%+v", o), "spec": fmt.Sprintf("%+v", sp)}
		if o.forcedZero {
			forced++
		}
		switch {
		case k.Dev == "none":
			if !(o.success && o.sm && o.keysEqual && o.chipCompleted && o.nextOK && (mapping != "CAM" || (o.cam && o.chipCam))) {
				key := "C04:conforming-run-fails"
				if o.forcedZero {
					key = "C04:shared-secret-with-leading-zero-octet"
				}
				c.Violation(key, fmt.Sprintf("PACE with the right password against the conforming chip did not complete (%s): %+v", k, o), rp)
			}
		case k.Dev2 != "":
			// pairs: what Pace.tla says about this pair (failure without session, or at least no chip authentication)
			if sp.res == "failure" && (o.success || o.cam) {
				c.Violation("C04:success-under-"+k.Dev+"+"+k.Dev2, fmt.Sprintf("PACE reported success under two coordinated deviations (%s): %+v", k, o), rp)
			} else if !sp.sm && o.sm {
				c.Violation("C04:session-installed-under-"+k.Dev+"+"+k.Dev2, fmt.Sprintf("PACE failed but a secure-messaging session is installed (%s): %+v", k, o), rp)
			} else if sp.cam != "success" && o.cam {
				c.Violation("C04:cam-success-with-"+k.Dev+"+"+k.Dev2, fmt.Sprintf("chip authentication mapping reported successful (%s): %+v", k, o), rp)
			}
		case k.Dev == "ecad" || k.Dev == "ecad-absent" || k.Dev == "cardsec-key":
			if o.cam {
				c.Violation("C04:cam-success-with-"+k.Dev, fmt.Sprintf("chip authentication mapping reported successful (%s): %+v", k, o), rp)
			}
		default:
			if o.success || o.cam {
				c.Violation("C04:success-under-"+k.Dev, fmt.Sprintf("PACE reported success under deviation (%s): %+v", k, o), rp)
			} else if o.sm {
				c.Violation("C04:session-installed-under-"+k.Dev, fmt.Sprintf("PACE failed but a secure-messaging session is installed (%s): %+v", k, o), rp)
			}
		}
	}
	c.AddTraces(int64(len(cases)))
	c.Extra["runs_with_forced_leading_zero_secret"] = forced
	c.Sample(map[string]any{"case": cases[0].String(), "outcome": fmt.Sprintf("%+v", outs[0])})
	c.Sample(map[string]any{"case": cases[len(cases)-1].String(), "outcome": fmt.Sprintf("%+v", outs[len(cases)-1])})

	// (3) selection among several advertised PACEInfos
	c04Selection(c)
}

func c04Selection(c *core.Ctx) {
	type entry struct {
		name      string
		info      chipsim.PaceInfoSpec
		supported bool
	}
	universe := []entry{
		{"ecdh-gm-3des", chipsim.PaceInfoSpec{OID: chipsim.OIDPaceEcdhGm3Des, ParamID: 13}, true},
		{"ecdh-gm-aes256", chipsim.PaceInfoSpec{OID: chipsim.OIDPaceEcdhGmAes256, ParamID: 13}, true},
		// supported entries on OTHER curves: protocol and domain parameters must come from one and the same entry
		{"ecdh-gm-aes128-p12", chipsim.PaceInfoSpec{OID: chipsim.OIDPaceEcdhGmAes128, ParamID: 12}, true},
		{"ecdh-gm-aes192-p16", chipsim.PaceInfoSpec{OID: chipsim.OIDPaceEcdhGmAes192, ParamID: 16}, true},
		{"dh-gm-aes256", chipsim.PaceInfoSpec{OID: "0.4.0.127.0.7.2.2.4.1.4", ParamID: 0}, false},
		{"dh-im-aes128", chipsim.PaceInfoSpec{OID: "0.4.0.127.0.7.2.2.4.3.2", ParamID: 1}, false},
		{"ecdh-im-aes256", chipsim.PaceInfoSpec{OID: "0.4.0.127.0.7.2.2.4.4.4", ParamID: 15}, false},
		{"unknown-oid", chipsim.PaceInfoSpec{OID: "0.4.0.127.0.7.2.2.4.9.9", ParamID: 17}, false},
		{"dh-gm-aes128-modp", chipsim.PaceInfoSpec{OID: "0.4.0.127.0.7.2.2.4.1.2", ParamID: 1}, false},
	}
	for mask := 1; mask < 1<<len(universe); mask++ {
		var sup []chipsim.PaceSpec
		var extra []chipsim.PaceInfoSpec
		names := []string{}
		for i, e := range universe {
			if mask>>uint(i)&1 == 0 {
				continue
			}
			names = append(names, e.name)
			if e.supported {
				sup = append(sup, chipsim.PaceSpec{OID: e.info.OID, ParamID: e.info.ParamID})
			} else {
				extra = append(extra, e.info)
			}
		}
		if len(sup) == 0 {
			continue // nothing supported advertised: failure is allowed
		}
		if !c.Thorough() && mask%5 != int(c.Seed)%5 {
			continue
		}
		// EF.CardAccess is a SET: supported entries first (0), unsupported ones first (1), shuffled (seed)
		for _, order := range []int64{0, 1, int64(1000 + mask)} {
		p, err := perso.New(perso.Options{Seed: int64(mask), BAC: true, Pace: sup, ExtraPaceInfos: extra, PaceInfoOrder: order, IssuerTrusted: true, Transport: chipsim.Transport{ExtendedLength: true}, CAN: "123456"})
		if err != nil {
			core.Infra("perso: %v", err)
		}
		chip, _ := p.Chip()
		s := sim.NewPlain(chip)
		doc := &document.Document{}
		ca, err := s.Nfc.ReadFile(chipsim.FidCardAccess)
		if err != nil {
			core.Infra("C04: EF.CardAccess: %v", err)
		}
		key := fmt.Sprintf("select/%s/order%d", strings.Join(names, "+"), order)
		c.Case(key, len(names) > 1)
		rp := map[string]any{"advertised": names, "order": order}
		if doc.Mf.CardAccess, err = document.NewCardAccess(ca); err != nil {
			c.Violation("C04:cardaccess-with-unsupported-entries-rejected", fmt.Sprintf("EF.CardAccess advertising %v is not parsed: %v", names, err), rp)
			continue
		}
		res, _, err := pace.NewPace(s.Nfc, doc, password.NewPasswordCan("123456")).DoPACE()
		if err != nil || res == nil || !res.Success || !chip.Truth().PaceCompleted {
			c.Violation("C04:selection-fails-although-supported-entry-advertised", fmt.Sprintf("PACE failed with advertised infos %v (order %d): %v", names, order, err), rp)
		}
		}
	}
}
