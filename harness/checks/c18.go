package checks

import (
	"bytes"
	"crypto/sha1"
	"fmt"
	"math/rand"
	"strings"

	"github.com/gmrtd/gmrtd/mrz"
	"github.com/gmrtd/gmrtd/password"

	"verif/harness/core"
)

func init() { Registry["C18"] = C18 }

// character coding of Mrz.tla: 0..9 digits, 10..35 letters, 36 '<', 37 ' ' (decoded values), 99 other
func mrzStr(codes []int) string {
	var b strings.Builder
	for _, c := range codes {
		switch {
		case c >= 0 && c <= 9:
			b.WriteByte(byte('0' + c))
		case c >= 10 && c <= 35:
			b.WriteByte(byte('A' + c - 10))
		case c == 36:
			b.WriteByte('<')
		case c == 37:
			b.WriteByte(' ')
		default:
			b.WriteByte('?')
		}
	}
	return b.String()
}

func mrzCodes(s string) []int {
	out := make([]int, len(s))
	for i := 0; i < len(s); i++ {
		ch := s[i]
		switch {
		case ch >= '0' && ch <= '9':
			out[i] = int(ch - '0')
		case ch >= 'A' && ch <= 'Z':
			out[i] = int(ch-'A') + 10
		case ch == '<':
			out[i] = 36
		case ch == ' ':
			out[i] = 37
		default:
			out[i] = 99
		}
	}
	return out
}

type mrzReal struct {
	ok                 bool
	f                  map[string][]int
	r1ok, r2ok, r3ok   bool
	r1, r2, r3         []int
	k1, k2             string
	panicked           any
}

func runMrz(zone string) (res mrzReal) {
	defer func() {
		if r := recover(); r != nil {
			res.panicked = r
		}
	}()
	res.f = map[string][]int{}
	for _, k := range []string{"code", "state", "num", "nat", "dob", "sex", "exp", "opt", "opt2", "primary", "secondary"} {
		res.f[k] = []int{}
	}
	res.r1, res.r2, res.r3 = []int{}, []int{}, []int{}
	d, err := mrz.MrzDecode(zone)
	if err == nil && d != nil {
		res.ok = true
		res.f["code"] = mrzCodes(d.DocumentCode)
		res.f["state"] = mrzCodes(d.IssuingState)
		res.f["num"] = mrzCodes(d.DocumentNumber)
		res.f["nat"] = mrzCodes(d.Nationality)
		res.f["dob"] = mrzCodes(d.DateOfBirth)
		res.f["sex"] = mrzCodes(d.Sex)
		res.f["exp"] = mrzCodes(d.DateOfExpiry)
		res.f["opt"] = mrzCodes(d.OptionalData)
		res.f["opt2"] = mrzCodes(d.OptionalData2)
		if d.NameOfHolder != nil {
			res.f["primary"] = mrzCodes(d.NameOfHolder.Primary)
			res.f["secondary"] = mrzCodes(d.NameOfHolder.Secondary)
		}
		if p, err := password.NewPasswordMrzi(d.DocumentNumber, d.DateOfBirth, d.DateOfExpiry); err == nil {
			res.r2ok, res.r2 = true, mrzCodes(p.Password)
			if k, err := p.Key(); err == nil {
				res.k2 = core.Hex(k)
				wipe(k) // the caller owns the key it was handed: wiping it after use must not reach any later key
			}
		}
		if s, err := d.EncodeMrzi(); err == nil {
			res.r3ok, res.r3 = true, mrzCodes(s)
		}
	}
	if p, err := password.NewPasswordMrz(zone); err == nil {
		res.r1ok, res.r1 = true, mrzCodes(p.Password)
		if k, err := p.Key(); err == nil {
			res.k1 = core.Hex(k)
			wipe(k)
		}
	}
	return
}

func wipe(b []byte) {
	for i := range b {
		b[i] = 0
	}
}

// c18KeyIsAValue: the key seed handed to a caller is the caller's: wiping it, or deriving session keys in place
// (append(k[:16], 0, 0, 0, 1)), leaves every later key of the same or another document what SHA-1 of its MRZ
// information says - whatever route it is obtained by, in one sequential history of calls.
func c18KeyIsAValue(c *core.Ctx) {
	infos := []string{"L898902C<369080619406236", "D23145890734<3408125120415", "AB<12345<<7740812<1204159", "L898902C<369080619406236"}
	zone := "P<UTOERIKSSON<<ANNA<MARIA<<<<<<<<<<<<<<<<<<<L898902C36UTO7408122F1204159ZE184226B<<<<<10"
	n := 0
	check := func(step string, k []byte, info string) {
		n++
		want := sha1.Sum([]byte(info))
		c.Case("key-value/"+step, true)
		if !bytes.Equal(k, want[:16]) && !bytes.Equal(k, want[:]) {
			c.Violation("C18:key-depends-on-earlier-callers", fmt.Sprintf("after an earlier caller wiped / re-used the key it had been handed, Key() for MRZ information %q is %x, SHA-1 gives %x (%s)", info, k, want, step), map[string]any{"step": step, "mrzi": info})
		}
	}
	for round := 0; round < 3; round++ {
		for i, info := range infos {
			p := &password.Password{PasswordType: password.PASSWORD_TYPE_MRZi, Password: info}
			k, err := p.Key()
			if err != nil {
				continue
			}
			check(fmt.Sprintf("mrzi/%d/%d", round, i), k, info)
			switch (round + i) % 3 {
			case 0:
				wipe(k)
			case 1:
				if len(k) >= 16 {
					_ = append(k[:16], 0, 0, 0, 1) // in-place key derivation input
				}
			}
		}
		if p, err := password.NewPasswordMrz(zone); err == nil {
			if k, err := p.Key(); err == nil {
				check(fmt.Sprintf("zone/%d", round), k, "L898902C3674081221204159")
				wipe(k)
			}
		}
	}
	c.Extra["key_value_history_steps"] = n
}

func eqInts(a, b []int) bool {
	if len(a) != len(b) {
		return false
	}
	for i := range a {
		if a[i] != b[i] {
			return false
		}
	}
	return true
}

// C18 — MRZ decoding enforces ICAO check digits; key material is layout-independent.
func C18(c *core.Ctx) {
	c.Rule = "one case per zone string; non-trivial = the specification gives a verdict for it (must reject / well-formed); distinct by string"
	c.Assume("Mrz.tla transcribes Doc 9303-3 4.9 (check digits) and the TD1/TD2/TD3 field positions; zones that are neither must-reject nor well-formed (e.g. digits in a name, empty date with '<' check digit) are grey: no verdict")

	type row struct {
		zone    []int
		outcome string
		fields  map[string]any
		seed    []int
	}
	var rows []row
	r := c.MustTLC(core.TLCOpts{Module: "MC_Mrz", Cfg: core.Pick(c, "MC_Mrz_quick.cfg", "MC_Mrz_full.cfg"), Timeout: 0})
	for _, line := range r.Lines {
		if !strings.HasPrefix(line, "<<\"T\"") {
			continue
		}
		v, err := core.ParseTLA(line)
		if err != nil {
			core.Infra("C18: %v", err)
		}
		t := v.([]any)
		rw := row{zone: core.Ints(t[1]), outcome: core.Str(t[2])}
		if m, ok := t[3].(map[string]any); ok {
			rw.fields = m
			rw.seed = core.Ints(t[4])
		}
		rows = append(rows, rw)
	}
	if int64(len(rows)) != r.Distinct || len(rows) == 0 {
		core.Infra("C18: table has %d rows, TLC found %d states", len(rows), r.Distinct)
	}
	c.Exhaustive = true
	counts := map[string]int{}
	core.ParallelFor(len(rows), func(i int) {
		rw := rows[i]
		zone := mrzStr(rw.zone)
		res := runMrz(zone)
		c.Case(zone, rw.outcome != "grey")
		rp := map[string]any{"zone": zone, "spec": rw.outcome}
		switch rw.outcome {
		case "rej":
			if res.ok {
				c.Violation("C18:accepts-bad-check-digit", fmt.Sprintf("MrzDecode accepted %q although a non-empty checked field or the composite disagrees with its check digit", zone), rp)
			}
		case "acc":
			if !res.ok {
				c.Violation("C18:rejects-well-formed", fmt.Sprintf("MrzDecode rejected the well-formed zone %q", zone), rp)
				return
			}
			for k, v := range rw.fields {
				if !eqInts(res.f[k], core.Ints(v)) {
					c.Violation("C18:field-"+k, fmt.Sprintf("zone %q: field %s decoded to %q, specification %q", zone, k, mrzStr(res.f[k]), mrzStr(core.Ints(v))), rp)
				}
			}
			if !res.r1ok || !res.r2ok || !res.r3ok || !eqInts(res.r1, rw.seed) || !eqInts(res.r2, rw.seed) || !eqInts(res.r3, rw.seed) || res.k1 != res.k2 {
				c.Violation("C18:key-seed-routes", fmt.Sprintf("zone %q: key seed from zone=%q(%v) from fields=%q(%v) re-encoded=%q(%v); specification %q", zone,
					mrzStr(res.r1), res.r1ok, mrzStr(res.r2), res.r2ok, mrzStr(res.r3), res.r3ok, mrzStr(rw.seed)), rp)
			}
		}
	})
	for _, rw := range rows {
		counts[rw.outcome]++
	}
	c.Extra["table_outcomes"] = counts
	c.AddTraces(int64(len(rows)))
	for _, i := range []int{0, len(rows) / 2, len(rows) - 1} {
		c.Sample(map[string]any{"zone": mrzStr(rows[i].zone), "spec_outcome": rows[i].outcome})
	}

	// ---- C->S: full-alphabet generated zones and arbitrary strings --------------------------
	n := core.Pick(c, 1500, 20000)
	zones := make([]string, n)
	for i := range zones {
		zones[i] = genZone(c.Rand)
	}
	lines := make([][]byte, n)
	results := make([]mrzReal, n)
	core.ParallelFor(n, func(i int) {
		res := runMrz(zones[i])
		results[i] = res
		lines[i] = core.JSONLine(map[string]any{"in": mrzCodes(zones[i]), "ok": res.ok, "f": res.f,
			"r1ok": res.r1ok, "r1": res.r1, "r2ok": res.r2ok, "r2": res.r2, "r3ok": res.r3ok, "r3": res.r3})
	})
	tr := c.ValidateTrace("Trace_Mrz", lines, core.TLCOpts{})
	acc := 0
	for i := range zones {
		c.Case(zones[i], true)
		if results[i].ok {
			acc++
		}
	}
	c.Extra["generated_zones"] = n
	c.Extra["generated_zones_accepted_by_real_decoder"] = acc
	c.AddTraces(int64(n))
	c18KeyIsAValue(c)
	for _, rj := range tr.Rejected {
		i := rj[0].(int) - 1
		why := core.Str(rj[1])
		c.Violation("C18:"+why, fmt.Sprintf("recorded line for zone %q rejected by Trace_Mrz (%s): %s", zones[i], why, lines[i]), map[string]any{"zone": zones[i]})
	}
	c.Sample(map[string]any{"generated_zone": zones[0], "real_accepted": results[0].ok})
	c.Sample(map[string]any{"generated_zone": zones[1], "real_accepted": results[1].ok})
}

// ---- generator: valid zones over the full alphabet, then optional mutation -----------------------

const alnum = "0123456789ABCDEFGHIJKLMNOPQRSTUVWXYZ"
const letters = "ABCDEFGHIJKLMNOPQRSTUVWXYZ"

func cd(s string) string {
	w := []int{7, 3, 1}
	sum := 0
	for i := 0; i < len(s); i++ {
		ch := s[i]
		v := 0
		switch {
		case ch >= '0' && ch <= '9':
			v = int(ch - '0')
		case ch >= 'A' && ch <= 'Z':
			v = int(ch-'A') + 10
		}
		sum += v * w[i%3]
	}
	return string(rune('0' + sum%10))
}

func rstr(r *rand.Rand, set string, n int) string {
	b := make([]byte, n)
	for i := range b {
		b[i] = set[r.Intn(len(set))]
	}
	return string(b)
}

func pad(s string, n int) string {
	if len(s) >= n {
		return s[:n]
	}
	return s + strings.Repeat("<", n-len(s))
}

func genName(r *rand.Rand, width int) string {
	comp := func(max int) string {
		k := 1 + r.Intn(3)
		var parts []string
		for i := 0; i < k; i++ {
			parts = append(parts, rstr(r, letters, 1+r.Intn(max)))
		}
		return strings.Join(parts, "<")
	}
	s := comp(6)
	if r.Intn(4) != 0 {
		s += "<<" + comp(5)
	}
	if len(s) > width {
		s = strings.TrimRight(s[:width], "<")
		// cutting may leave a dangling "<<" structure; keep it simple
		if strings.Count(s, "<<") > 1 || strings.HasSuffix(s, "<") {
			s = rstr(r, letters, 5)
		}
	}
	return pad(s, width)
}

func genZone(r *rand.Rand) string {
	lay := r.Intn(3)
	numLen := 1 + r.Intn(9)
	if lay != 2 && r.Intn(3) == 0 {
		numLen = 10 + r.Intn(4) // extended
	}
	num := rstr(r, alnum, numLen)
	dob := fmt.Sprintf("%02d%02d%02d", r.Intn(100), 1+r.Intn(12), 1+r.Intn(28))
	exp := fmt.Sprintf("%02d%02d%02d", r.Intn(100), 1+r.Intn(12), 1+r.Intn(28))
	state := pad(rstr(r, letters, 1+r.Intn(3)), 3)
	nat := pad(rstr(r, letters, 1+r.Intn(3)), 3)
	sex := string("MF<"[r.Intn(3)])
	code := string(letters[r.Intn(26)]) + string((letters + "<")[r.Intn(27)])
	numOpt := func(w int) string {
		opt := ""
		if r.Intn(2) == 0 {
			opt = rstr(r, alnum+"<", r.Intn(w))
		}
		if len(num) <= 9 {
			n9 := pad(num, 9)
			return n9 + cd(n9) + pad(opt, w)
		}
		return num[:9] + "<" + pad(num[9:]+cd(num)+"<"+opt, w)
	}
	var z string
	switch lay {
	case 0: // TD1
		a := numOpt(15)
		d := dob + cd(dob)
		e := exp + cd(exp)
		o2 := pad(rstr(r, alnum, r.Intn(12)), 11)
		z = code + state + a + d + sex + e + nat + o2 + cd(a+d+e+o2) + genName(r, 30)
	case 1: // TD2
		a := numOpt(7)
		d := dob + cd(dob)
		e := exp + cd(exp)
		z = code + state + genName(r, 31) + a[:10] + nat + d + sex + e + a[10:] + cd(a[:10]+d+e+a[10:])
	default: // TD3
		n9 := pad(num, 9)
		n10 := n9 + cd(n9)
		d := dob + cd(dob)
		e := exp + cd(exp)
		opt := pad("", 14)
		ocd := "<"
		switch r.Intn(3) {
		case 0:
			opt = pad(rstr(r, alnum, 1+r.Intn(14)), 14)
			ocd = cd(opt)
		case 1:
			ocd = "0"
		}
		z = code + state + genName(r, 39) + n10 + nat + d + sex + e + opt + ocd + cd(n10+d+e+opt+ocd)
	}
	// mutate two thirds of the time
	b := []byte(z)
	switch r.Intn(9) {
	case 0, 1, 2:
		p := r.Intn(len(b))
		b[p] = (alnum + "<")[r.Intn(37)]
	case 3:
		p := r.Intn(len(b) - 1)
		b[p], b[p+1] = b[p+1], b[p]
	case 4:
		p := r.Intn(len(b))
		b = append(b[:p], b[p+1:]...)
	case 5:
		b[r.Intn(len(b))] = "abz -*\x00\xff"[r.Intn(8)]
	case 6: // arbitrary string of a supported length
		b = []byte(rstr(r, alnum+"<<<<<<", []int{90, 72, 88}[r.Intn(3)]))
	}
	return string(b)
}
