package checks

import (
	"bytes"
	"fmt"
	"math/rand"
	"os"
	"sort"
	"strings"
	"time"

	"verif/harness/chipsim"
	"verif/harness/core"
	"verif/harness/link"
	"verif/harness/sim"
)

// Session histories of file reads (ReadSession.tla): TLC enumerates every session of MaxReads reads over the file set,
// the chip / terminal read-size settings and up to MaxFaults link faults; each finished behaviour is replayed into the
// real NfcSession (one session, several ReadFile calls, faults injected on the link at the request the model names) and
// every read is compared with the bytes stored on the chip and with the result the specification gives.
//
//	prop "C13": no read of any history returns other bytes than the file's object, or "not found" for a present file
//	prop "C08": every read the specification completes ("exact") is completed by the real code
type rsEvent struct {
	Kind    string // file | fault
	H, V    int
	Present bool
	Off, Le int
}

type rsHist struct {
	MaxLe, RejectOver, Cap int
	Script                 []rsEvent
	Results                []string
	Mode                   string
}

func (h rsHist) String() string {
	var p []string
	for _, e := range h.Script {
		if e.Kind == "file" {
			p = append(p, fmt.Sprintf("file(h=%d,v=%d,present=%v)", e.H, e.V, e.Present))
		} else {
			p = append(p, fmt.Sprintf("fault(off=%d,le=%d)", e.Off, e.Le))
		}
	}
	return fmt.Sprintf("maxLe=%d rejectOver=%d cap=%d %s: %s -> %v", h.MaxLe, h.RejectOver, h.Cap, h.Mode, strings.Join(p, " "), h.Results)
}

func readSessionHistories(c *core.Ctx) []rsHist {
	r := c.MustTLC(core.TLCOpts{Module: "MC_ReadSession", Cfg: "MC_ReadSession.cfg", Workers: 8, Timeout: 20 * time.Minute})
	var out []rsHist
	for _, line := range r.Lines {
		if !strings.HasPrefix(line, "<<\"H\"") {
			continue
		}
		v, err := core.ParseTLA(line)
		if err != nil {
			core.Infra("ReadSession: %v", err)
		}
		t := v.([]any)
		h := rsHist{MaxLe: t[1].(int), RejectOver: t[2].(int), Cap: t[3].(int)}
		for _, e := range t[4].([]any) {
			f := e.([]any)
			switch core.Str(f[0]) {
			case "file":
				h.Script = append(h.Script, rsEvent{Kind: "file", H: f[1].(int), V: f[2].(int), Present: f[3].(bool)})
			case "fault":
				h.Script = append(h.Script, rsEvent{Kind: "fault", Off: f[1].(int), Le: f[2].(int)})
			}
		}
		for _, x := range t[5].([]any) {
			h.Results = append(h.Results, core.Str(x))
		}
		out = append(out, h)
	}
	if len(out) < 1000 {
		core.Infra("ReadSession: only %d finished sessions emitted by MC_ReadSession", len(out))
	}
	// the two designs the specification is there to exclude must show their counterexamples
	for cfg, what := range map[string]string{"MC_ReadSession_keepbuf.cfg": "assembly buffer kept across reads must violate ExactEach",
		"MC_ReadSession_probeonce.cfg": "fall-back ladder only for the first file must violate ReadableEach"} {
		if r2, err := c.TLC(core.TLCOpts{Module: "MC_ReadSession", Cfg: cfg, Workers: 4}); err != nil {
			core.Infra("%v", err)
		} else if r2.OK {
			core.Infra("%s: %s, found no counterexample", cfg, what)
		}
	}
	sort.Slice(out, func(i, j int) bool { return out[i].String() < out[j].String() })
	return out
}

// runReadSession replays one history; returns the class of every read (exact | err | notfound | WRONG).
func runReadSession(h rsHist, seed int64) (classes []string, detail string) {
	rnd := rand.New(rand.NewSource(seed))
	mf := map[uint16][]byte{}
	var objs [][]byte
	var fids []uint16
	n := 0
	for _, e := range h.Script {
		if e.Kind != "file" {
			continue
		}
		fid := uint16(0x0130 + n)
		n++
		obj := buildTLV(e.H, e.V, false, rnd)
		if e.Present {
			mf[fid] = obj
		}
		objs = append(objs, obj)
		fids = append(fids, fid)
	}
	chip, err := chipsim.New(chipsim.Config{MfFiles: mf, Transport: chipsim.Transport{ExtendedLength: true, RejectLeOver: h.RejectOver, MaxRead: h.Cap}, Rand: rnd})
	if err != nil {
		core.Infra("ReadSession: chipsim.New: %v", err)
	}
	s := sim.NewPlain(chip)
	if h.Mode != "plain" {
		if err := s.InstallSM(sim.SuiteByName(h.Mode), rnd, nil); err != nil {
			core.Infra("ReadSession: InstallSM: %v", err)
		}
	}
	s.Nfc.SetMaxLe(h.MaxLe)
	// faults per read
	faults := map[int][]rsEvent{}
	cur := -1
	for _, e := range h.Script {
		if e.Kind == "file" {
			cur++
		} else {
			faults[cur] = append(faults[cur], e)
		}
	}
	reading := 0
	used := map[[2]int]bool{} // (read, index of the fault within that read)
	s.Link.Script = func(idx int, cmd []byte, l *link.Link) link.Action {
		if len(cmd) < 5 || cmd[1] != 0xB0 {
			return link.Pass
		}
		off := int(cmd[2])<<8 | int(cmd[3])
		le := int(cmd[4])
		if len(cmd) == 5 && le == 0 {
			le = 256
		} else if len(cmd) == 7 {
			le = int(cmd[5])<<8 | int(cmd[6])
			if le == 0 {
				le = 65536
			}
		}
		for fi, f := range faults[reading] {
			k := [2]int{reading, fi}
			if f.Off == off && f.Le == le && !used[k] {
				used[k] = true
				return link.Action{Name: "link-fault", Respond: func(g []byte, l *link.Link) []byte { return []byte{0x6F, 0x00} }}
			}
		}
		return link.Pass
	}
	for i := range fids {
		reading = i
		var data []byte
		var rerr error
		func() {
			defer func() {
				if r := recover(); r != nil {
					rerr = fmt.Errorf("panic: %v", r)
				}
			}()
			data, rerr = s.Nfc.ReadFile(fids[i])
		}()
		switch {
		case rerr != nil:
			classes = append(classes, "err")
		case data == nil:
			classes = append(classes, "notfound")
		case bytes.Equal(data, objs[i]):
			classes = append(classes, "exact")
		default:
			classes = append(classes, "WRONG")
			detail += fmt.Sprintf("read %d returned %d octets, the file's object has %d, first difference at %d; ", i+1, len(data), len(objs[i]), firstDiff(data, objs[i]))
		}
	}
	for k, fs := range faults {
		for fi, f := range fs {
			if !used[[2]int{k, fi}] {
				detail += fmt.Sprintf("fault(off=%d,le=%d) of read %d never matched a request; ", f.Off, f.Le, k+1)
			}
		}
	}
	return classes, detail
}

func readSessionReplay(c *core.Ctx, prop string) {
	hists := readSessionHistories(c)
	// quick: a seeded sample stratified over the settings; every history with a fault before a later read is kept in both tiers
	var sel []rsHist
	per := map[string]int{}
	for i, h := range hists {
		faulty := false
		for k, e := range h.Script {
			if e.Kind == "fault" && k < len(h.Script)-1 {
				faulty = true
			}
		}
		key := fmt.Sprintf("%d/%d/%d/%v", h.MaxLe, h.RejectOver, h.Cap, faulty)
		per[key]++
		faultFree := !strings.Contains(h.String(), "fault(")
		// a plain READ BINARY with Le > 256 is the malformed case 2E command of known finding C17 (the chip refuses it and
		// the ladder takes over): sessions with a larger read size run under secure messaging, where Le travels in DO'97'.
		// A link fault under secure messaging desynchronises the counters (SM.tla's subject), so those run fault-free only.
		if h.MaxLe <= 256 && (c.Thorough() || (per[key]+int(c.Seed))%12 == 0 || (faulty && (i+int(c.Seed))%4 == 0)) {
			h.Mode = "plain"
			sel = append(sel, h)
		}
		if faultFree && (h.MaxLe > 256 || (i+int(c.Seed))%core.Pick(c, 40, 4) == 0) && (c.Thorough() || h.MaxLe <= 256 || (i+int(c.Seed))%3 == 0) {
			h.Mode = sim.Suites[i%len(sim.Suites)].Name
			sel = append(sel, h)
		}
	}
	type res struct {
		classes []string
		detail  string
	}
	outs := make([]res, len(sel))
	seeds := make([]int64, len(sel))
	for i := range seeds {
		seeds[i] = c.Rand.Int63()
	}
	core.ParallelFor(len(sel), func(i int) {
		cl, d := runReadSession(sel[i], seeds[i])
		outs[i] = res{cl, d}
	})
	drift := 0
	for i, h := range sel {
		o := outs[i]
		c.Case("session/"+h.String(), len(h.Script) > 3 || h.RejectOver != 0)
		rp := map[string]any{"history": h.String(), "real": o.classes, "specification": h.Results, "seed": seeds[i], "detail": o.detail}
		if strings.Contains(o.detail, "never matched") {
			// the real code did not issue the request the specification's terminal issues at that point
			drift++
			if os.Getenv("VERIF_DEBUG") != "" && drift < 30 {
				fmt.Printf("DEBUG unmatched real=%v: %s  [%s]\n", o.classes, h, o.detail)
			}
		}
		for k, cl := range o.classes {
			want := h.Results[k]
			switch {
			case cl == "WRONG" && prop == "C13":
				c.Violation("C13:session-history-wrong-bytes", fmt.Sprintf("read %d of a session returned bytes that are not the file's object (%s): %s", k+1, o.detail, h), rp)
			case cl == "notfound" && want != "notfound" && prop == "C13":
				c.Violation("C13:session-history-notfound-for-present-file", fmt.Sprintf("read %d of a session reported 'not found' for a file the chip holds: %s", k+1, h), rp)
			case want == "exact" && cl != "exact" && prop == "C08":
				c.Violation("C08:file-not-read-in-session-history", fmt.Sprintf("read %d of a session returned %s where ReadSession.tla (and the chip) deliver the file: %s", k+1, cl, h), rp)
			case cl != want:
				drift++
				if os.Getenv("VERIF_DEBUG") != "" && drift < 30 {
					fmt.Printf("DEBUG drift read %d real=%v: %s  [%s]\n", k+1, o.classes, h, o.detail)
				}
			}
		}
	}
	c.AddTraces(int64(len(sel)))
	c.Extra["read_session_histories_from_tlc"] = len(hists)
	c.Extra["read_session_histories_replayed"] = len(sel)
	c.Extra["read_session_results_differing_from_spec_without_violating_"+prop] = drift
	if drift > 0 {
		fmt.Printf("NOTE: %s: %d session reads ended differently from ReadSession.tla without violating the property\n", prop, drift)
	}
}
