package checks

import (
	"time"
	"sync/atomic"
	"encoding/json"
	"bytes"
	"fmt"
	"math/rand"
	"strings"

	"github.com/gmrtd/gmrtd/tlv"

	"verif/harness/core"
)

func init() { Registry["C16"] = C16 }

// specNode is a node of the specification's tree (Tlv.tla): identifier octets + content or kids.
type specNode struct {
	T    []byte
	V    []byte
	K    []specNode
	Cons bool
}

func specForest(v any) []specNode {
	l := v.([]any)
	out := make([]specNode, 0, len(l))
	for _, x := range l {
		m := x.(map[string]any)
		n := specNode{T: core.Bytes(m["t"])}
		if k, ok := m["k"]; ok {
			n.Cons = true
			n.K = specForest(k)
		} else {
			n.V = core.Bytes(m["v"])
		}
		out = append(out, n)
	}
	return out
}

func tagNum(t []byte) tlv.TlvTag {
	var x uint32
	for _, b := range t {
		x = x<<8 | uint32(b)
	}
	return tlv.TlvTag(x)
}

func tagOctets(t tlv.TlvTag) []int {
	if t == 0 {
		return []int{0}
	}
	var out []int
	for x := uint32(t); x > 0; x >>= 8 {
		out = append([]int{int(x & 0xff)}, out...)
	}
	return out
}

// realTreeJSON projects the real tree to the specification's node shape.
func realTreeJSON(nodes []tlv.TlvNode) []any {
	out := make([]any, 0, len(nodes))
	for _, n := range nodes {
		if n.Tag().IsConstructed() {
			out = append(out, map[string]any{"t": tagOctets(n.Tag()), "k": realTreeJSON(n.Children())})
		} else {
			out = append(out, map[string]any{"t": tagOctets(n.Tag()), "v": ints(n.Value())})
		}
	}
	return out
}

// compareForest returns "" if the real forest equals the specified one.
func compareForest(real []tlv.TlvNode, spec []specNode, path string) string {
	if len(real) != len(spec) {
		return fmt.Sprintf("%s: %d elements, specification has %d", path, len(real), len(spec))
	}
	for i := range spec {
		p := fmt.Sprintf("%s/%d", path, i)
		if real[i].Tag() != tagNum(spec[i].T) {
			return fmt.Sprintf("%s: tag %x, specification %x", p, real[i].Tag(), spec[i].T)
		}
		if spec[i].Cons {
			if _, ok := real[i].(*tlv.TlvConstructedNode); !ok {
				return p + ": not a constructed node"
			}
			if d := compareForest(real[i].Children(), spec[i].K, p); d != "" {
				return d
			}
		} else {
			if _, ok := real[i].(*tlv.TlvSimpleNode); !ok {
				return p + ": not a simple node"
			}
			if !bytes.Equal(real[i].Value(), spec[i].V) {
				return fmt.Sprintf("%s: value %x, specification %x", p, real[i].Value(), spec[i].V)
			}
		}
	}
	return ""
}

// lookups checks NodeByTagOccur at one level against the specification's Lookup (the occ-th
// element with that identifier, else nil).
func checkLookups(byOccur func(tlv.TlvTag, int) tlv.TlvNode, real []tlv.TlvNode, spec []specNode) string {
	seen := map[tlv.TlvTag]int{}
	for i, s := range spec {
		t := tagNum(s.T)
		seen[t]++
		got := byOccur(t, seen[t])
		if !got.IsValidNode() || !bytes.Equal(got.Encode(), real[i].Encode()) {
			return fmt.Sprintf("NodeByTagOccur(%x,%d) does not return element %d", t, seen[t], i)
		}
	}
	for t, n := range seen {
		if byOccur(t, n+1).IsValidNode() {
			return fmt.Sprintf("NodeByTagOccur(%x,%d) returns an element beyond the last occurrence", t, n+1)
		}
	}
	if byOccur(tlv.TlvTag(0x5f7f), 1).IsValidNode() && seen[0x5f7f] == 0 {
		return "NodeByTagOccur returns an element for an absent tag"
	}
	for i, s := range spec {
		if s.Cons {
			if d := checkLookups(real[i].NodeByTagOccur, real[i].Children(), s.K); d != "" {
				return d
			}
		}
	}
	return ""
}

// tlvHang is set when a decode did not return within tlvTimeout: the first one is reported as a violation
// (C16: "refused", i.e. bounded), later calls return at once so that the check itself terminates.
var tlvHang atomic.Pointer[string]

const tlvTimeout = 20 * time.Second

func safeDecode(in []byte) (nodes *tlv.TlvNodes, err error, panicked any) {
	if tlvHang.Load() != nil {
		return nil, fmt.Errorf("skipped: an earlier decode did not terminate"), nil
	}
	type res struct {
		nodes *tlv.TlvNodes
		err   error
		pan   any
	}
	ch := make(chan res, 1)
	go func() {
		var r res
		defer func() {
			if p := recover(); p != nil {
				r.pan = p
			}
			ch <- r
		}()
		r.nodes, r.err = tlv.Decode(in)
	}()
	select {
	case r := <-ch:
		return r.nodes, r.err, r.pan
	case <-time.After(core.Stretch(tlvTimeout)):
		msg := fmt.Sprintf("tlv.Decode(%x) did not return within %s", in[:min(len(in), 64)], tlvTimeout)
		tlvHang.CompareAndSwap(nil, &msg)
		return nil, fmt.Errorf("timeout"), nil
	}
}

func safeUnwrap(in []byte) (tag tlv.TlvTag, val []byte, err error, panicked any) {
	defer func() {
		if r := recover(); r != nil {
			panicked = r
		}
	}()
	tag, val, err = tlv.Unwrap(in)
	return
}

// C16 — TLV decoding is faithful, canonicalising and bounded.
func C16(c *core.Ctx) {
	c.Rule = "one case per input byte string; non-trivial = the specification assigns it a non-empty tree or rejects it for a structural reason after at least one complete identifier+length; distinct by input bytes"
	c.Assume("Tlv.tla transcribes X.690 8.1 with the library's documented limits; identifier octet 00 outside end-of-contents is a grey zone (no verdict)")
	c.Assume("exhaustive enumeration is over a 14-octet alphabet and short strings; longer inputs are grammar-generated samples")

	// 1. laws on the specification with small limits (limit branches reachable)
	c.MustTLC(core.TLCOpts{Module: "MC_Tlv", Cfg: "MC_Tlv_limits.cfg"})

	// 2. exhaustive table, replayed into the real decoder
	type row struct {
		in     []byte
		dec    any
		unwrap any
	}
	var rows []row
	// ... and a second table of longer strings over the nesting alphabet {00, 02, (04,) 30, 80}: definite and indefinite
	// constructed elements inside each other with end-of-contents octets at every position
	for _, cfg := range []string{core.Pick(c, "MC_Tlv_quick.cfg", "MC_Tlv_full.cfg"), core.Pick(c, "MC_Tlv_nestq.cfg", "MC_Tlv_nest.cfg")} {
		r := c.MustTLC(core.TLCOpts{Module: "MC_Tlv", Cfg: cfg, Timeout: 0, Workers: 8})
		n0 := len(rows)
		for _, line := range r.Lines {
			if !strings.HasPrefix(line, "<<\"T\"") {
				continue
			}
			v, err := core.ParseTLA(line)
			if err != nil {
				core.Infra("C16: %v", err)
			}
			t := v.([]any)
			rows = append(rows, row{core.Bytes(t[1]), t[2], t[3]})
		}
		if int64(len(rows)-n0) != r.Distinct || len(rows) == n0 {
			core.Infra("C16: table of %s has %d rows, TLC found %d states", cfg, len(rows)-n0, r.Distinct)
		}
	}
	c.Exhaustive = true
	c.Extra["alphabet"] = "00 01 02 04 1F 30 3F 7F 80 81 82 84 85 FF"
	c.Extra["max_len"] = core.Pick(c, 4, 5)
	c.Extra["nesting_alphabet"] = core.Pick(c, "00 02 30 80", "00 02 04 30 80")
	c.Extra["nesting_max_len"] = 8

	core.ParallelFor(len(rows), func(i int) {
		rw := rows[i]
		in := rw.in
		nodes, err, pan := safeDecode(bytes.Clone(in))
		if tlvHang.Load() != nil {
			return // reported once, at the end
		}
		rp := map[string]any{"input": core.Hex(in)}
		if pan != nil {
			err = fmt.Errorf("panic: %v", pan) // C12's subject; for C16 it is "not accepted"
		}
		switch d := rw.dec.(type) {
		case string:
			c.Case("t/"+core.Hex(in), len(in) >= 2)
			if d != "grey" && err == nil {
				c.Violation("C16:accepts:"+d, fmt.Sprintf("tlv.Decode(%x) accepted (re-encodes to %x) but BER assigns no tree to this input", in, nodes.Encode()), rp)
			}
			if d == "grey" && err == nil {
				// no verdict on acceptance, but whatever is accepted must survive its own re-encoding
				if law := roundTripLaw(nodes); law != "" {
					c.Violation("C16:round-trip", fmt.Sprintf("tlv.Decode(%x) accepted, %s", in, law), rp)
				}
			}
		case []any:
			forest := specForest(d[0])
			canon := core.Bytes(d[1])
			c.Case("t/"+core.Hex(in), len(forest) > 0)
			if err != nil {
				c.Violation("C16:rejects-valid-ber", fmt.Sprintf("tlv.Decode(%x) rejected a valid encoding: %v", in, err), rp)
				return
			}
			if diff := compareForest(nodes.Nodes(), forest, ""); diff != "" {
				c.Violation("C16:tree-differs", fmt.Sprintf("tlv.Decode(%x): %s", in, diff), rp)
				return
			}
			if enc := nodes.Encode(); !bytes.Equal(enc, canon) {
				c.Violation("C16:canonical-form", fmt.Sprintf("Encode(Decode(%x)) = %x, canonical form is %x", in, enc, canon), rp)
			}
			if de, err := tlv.DecodeEncode(bytes.Clone(in)); err != nil || !bytes.Equal(de, canon) {
				c.Violation("C16:decode-encode", fmt.Sprintf("DecodeEncode(%x) = %x, %v; canonical form is %x", in, de, err, canon), rp)
			}
			if law := roundTripLaw(nodes); law != "" {
				c.Violation("C16:round-trip", fmt.Sprintf("tlv.Decode(%x) accepted, %s", in, law), rp)
			}
			if law := ownTreeLaw(in); law != "" {
				c.Violation("C16:tree-shares-memory", fmt.Sprintf("tlv.Decode(%x): %s", in, law), rp)
			}
			if d := checkLookups(nodes.NodeByTagOccur, nodes.Nodes(), forest); d != "" {
				c.Violation("C16:lookup", fmt.Sprintf("input %x: %s", in, d), rp)
			}
		}
		// Unwrap
		tag, val, uerr, upan := safeUnwrap(bytes.Clone(in))
		if upan != nil {
			// a panic is C12's subject (reported there); for C16 it is "not accepted"
			uerr = fmt.Errorf("panic: %v", upan)
		}
		switch u := rw.unwrap.(type) {
		case string:
			if uerr == nil && !(len(in) > 0 && in[0] == 0) {
				c.Violation("C16:unwrap-accepts", fmt.Sprintf("tlv.Unwrap(%x) accepted (tag %x value %x); not a single definite TLV", in, tag, val), rp)
			}
		case []any:
			st, sv := core.Bytes(u[0]), core.Bytes(u[1])
			if uerr != nil {
				c.Violation("C16:unwrap-rejects", fmt.Sprintf("tlv.Unwrap(%x) rejected a single definite TLV: %v", in, uerr), rp)
			} else if tag != tagNum(st) || !bytes.Equal(val, sv) {
				c.Violation("C16:unwrap-differs", fmt.Sprintf("tlv.Unwrap(%x) = (%x,%x), specification (%x,%x)", in, tag, val, st, sv), rp)
			}
		}
	})
	c.AddTraces(int64(len(rows)))
	for _, i := range []int{len(rows) / 3, len(rows) / 2, len(rows) - 1} {
		c.Sample(map[string]any{"input": core.Hex(rows[i].in), "spec_decode": fmt.Sprint(rows[i].dec), "spec_unwrap": fmt.Sprint(rows[i].unwrap)})
	}

	// 3. C->S: grammar-generated inputs, recorded from the real decoder, validated against Trace_Tlv
	n := core.Pick(c, 1500, 12000)
	maxBytes := core.Pick(c, 160, 700)
	type rec struct {
		in   []byte
		line []byte
		ok   bool
	}
	recs := make([]rec, n)
	seeds := make([]int64, n)
	for i := range seeds {
		seeds[i] = c.Rand.Int63()
	}
	core.ParallelFor(n, func(i int) {
		rnd := rand.New(rand.NewSource(seeds[i]))
		in := genTlv(rnd, maxBytes)
		nodes, err, pan := safeDecode(bytes.Clone(in))
		if tlvHang.Load() != nil {
			recs[i] = rec{in, core.JSONLine(map[string]any{"k": "d", "in": ints(in), "ok": false, "tree": []any{}, "canon": []int{}}), false}
			return
		}
		l := map[string]any{"k": "d", "in": ints(in), "ok": err == nil && pan == nil, "tree": []any{}, "canon": []int{}}
		if err == nil && pan == nil {
			l["tree"] = realTreeJSON(nodes.Nodes())
			l["canon"] = ints(nodes.Encode())
		}
		recs[i] = rec{in, core.JSONLine(l), err == nil}
		if err == nil && pan == nil {
			if law := roundTripLaw(nodes); law != "" {
				c.Violation("C16:round-trip", fmt.Sprintf("tlv.Decode(%x) accepted, %s", in, law), map[string]any{"input": core.Hex(in)})
			}
			if law := ownTreeLaw(in); law != "" {
				c.Violation("C16:tree-shares-memory", fmt.Sprintf("tlv.Decode(%x): %s", in, law), map[string]any{"input": core.Hex(in)})
			}
		}
	})
	// "all input bytes are accounted for": a declared length beyond the octets present, for EVERY number of octets present
	// up to a few KiB (primitive, and constructed with complete children) - BER assigns no tree, whatever block sizes a reader uses
	c16Truncated(c)
	// limit lines: nesting 48..53 and element counts 9998..10002, definite and indefinite
	type lim struct {
		depth, nodes int
		indef        bool
		groups       int // > 0: the elements are spread over that many sibling constructed elements (depth 1)
	}
	var lims []lim
	for d := 48; d <= 53; d++ {
		lims = append(lims, lim{d, d, false, 0}, lim{d, d, true, 0}, lim{d, d + 100, false, 0})
	}
	for k := 9998; k <= 10002; k++ {
		lims = append(lims, lim{1, k, false, 0}, lim{3, k, true, 0}, lim{0, k, false, 0})
		// the count is a property of the whole input: the same totals spread over 2 / 5000 sibling elements, both forms
		lims = append(lims, lim{1, k, true, 2}, lim{1, k, true, 4999}, lim{1, k, false, 2}, lim{1, k, false, 4999})
	}
	var lines [][]byte
	for _, r := range recs {
		lines = append(lines, r.line)
	}
	limStart := len(lines)
	for _, lm := range lims {
		in := genLimit(lm.depth, lm.nodes, lm.indef)
		if lm.groups > 0 {
			in = genSpread(lm.groups, lm.nodes, lm.indef)
		}
		_, err, pan := safeDecode(in)
		lines = append(lines, core.JSONLine(map[string]any{"k": "limit", "depth": lm.depth, "nodes": lm.nodes, "ok": err == nil && pan == nil}))
	}
	tr := c.ValidateTrace("Trace_Tlv", lines, core.TLCOpts{})
	accepted := 0
	for _, r := range recs {
		c.Case("g/"+core.Hex(r.in), len(r.in) > 2)
		if r.ok {
			accepted++
		}
	}
	for range lims {
		c.Case(fmt.Sprintf("lim/%d", c.Evaluations), true)
	}
	c.Extra["grammar_inputs"] = n
	c.Extra["grammar_inputs_accepted_by_real_decoder"] = accepted
	c.AddTraces(int64(len(lines)))
	for _, rj := range tr.Rejected {
		ln := rj[0].(int) - 1
		if ln >= limStart {
			lm := lims[ln-limStart]
			c.Violation("C16:limits", fmt.Sprintf("nesting %d / %d elements (indefinite=%v): real decoder outcome differs from the documented limits (50 / 10000): %s", lm.depth, lm.nodes, lm.indef, lines[ln]),
				map[string]any{"depth": lm.depth, "nodes": lm.nodes, "indefinite": lm.indef})
			continue
		}
		rc := recs[ln]
		why := core.Str(rj[1])
		key := "C16:rejects-valid-ber"
		if rc.ok && why == "tree" {
			key = "C16:tree-differs"
		} else if rc.ok {
			key = "C16:accepts:" + why
		}
		c.Violation(key, fmt.Sprintf("recorded tlv.Decode(%x) line rejected by Trace_Tlv (real accepted=%v)", rc.in, rc.ok), map[string]any{"input": core.Hex(rc.in), "line": string(rc.line)})
	}
	if h := tlvHang.Load(); h != nil {
		c.Violation("C16:decode-does-not-terminate", *h, nil)
	}
	c.Sample(map[string]any{"grammar_input": core.Hex(recs[0].in), "real_accepted": recs[0].ok})
	c.Sample(map[string]any{"grammar_input": core.Hex(recs[1].in), "real_accepted": recs[1].ok})
}

// roundTripLaw: the re-encoding of an accepted input decodes again, to the same tree, and is a
// fixed point of decode-encode (holds for every accepted input, whatever the verdict on acceptance).
func roundTripLaw(nodes *tlv.TlvNodes) string {
	enc := nodes.Encode()
	again, err, pan := safeDecode(bytes.Clone(enc))
	if err != nil || pan != nil {
		return fmt.Sprintf("but its re-encoding %x is refused (%v %v)", enc, err, pan)
	}
	a, _ := json.Marshal(realTreeJSON(nodes.Nodes()))
	b, _ := json.Marshal(realTreeJSON(again.Nodes()))
	if !bytes.Equal(a, b) {
		return fmt.Sprintf("but its re-encoding %x decodes to another tree", enc)
	}
	if enc2 := again.Encode(); !bytes.Equal(enc2, enc) {
		return fmt.Sprintf("but its re-encoding %x is not a fixed point (%x)", enc, enc2)
	}
	return ""
}

func c16Truncated(c *core.Ctx) {
	maxAvail := core.Pick(c, 4200, 9000)
	bad := make([]string, maxAvail+1)
	core.ParallelFor(maxAvail+1, func(avail int) {
		body := make([]byte, avail)
		for i := range body {
			body[i] = byte(0x41 + i%23)
		}
		// children for the constructed form: complete OCTET STRINGs of up to 200 octets filling `avail` exactly
		var kids []byte
		for rest := avail; rest > 0; {
			n := rest - 2
			if n > 200 {
				n = 200
			}
			if n < 0 { // one octet left: cannot be a TLV; use the primitive form only
				kids = nil
				break
			}
			if n >= 128 {
				n = min(rest-3, 200)
				kids = append(append(kids, 0x04, 0x81, byte(n)), body[:n]...)
				rest -= n + 3
			} else {
				kids = append(append(kids, 0x04, byte(n)), body[:n]...)
				rest -= n + 2
			}
		}
		for _, extra := range []int{1, 1024, 70} {
			decl := avail + extra
			if decl > 65535 {
				continue
			}
			for _, form := range []struct {
				tag  byte
				cont []byte
			}{{0x04, body}, {0x30, kids}} {
				if form.tag == 0x30 && (kids == nil || len(kids) != avail) {
					continue
				}
				in := append([]byte{form.tag, 0x82, byte(decl >> 8), byte(decl)}, form.cont...)
				if nodes, err, pan := safeDecode(bytes.Clone(in)); err == nil && pan == nil {
					bad[avail] = fmt.Sprintf("tlv.Decode accepted %02X 82 %04X followed by only %d content octets (re-encodes to %d octets)", form.tag, decl, avail, len(nodes.Encode()))
				}
				if form.tag == 0x04 {
					if _, _, err, pan := safeUnwrap(bytes.Clone(in)); err == nil && pan == nil {
						bad[avail] = fmt.Sprintf("tlv.Unwrap accepted 04 82 %04X followed by only %d content octets", decl, avail)
					}
				}
			}
		}
	})
	n := 0
	for avail, b := range bad {
		c.Case(fmt.Sprintf("truncated/%d", avail), true)
		n++
		if b != "" {
			c.Violation("C16:accepts-truncated-element", b, map[string]any{"octets_present": avail})
			return
		}
	}
	c.Extra["truncation_sweep_octets_present"] = n
}

// ownTreeLaw: the tree is a VALUE - "the value bytes BER assigns to that input" stay what they were when the caller
// re-uses its input buffer (a receive buffer) and when it appends to a value it was handed: neither may change what
// the tree re-encodes to, nor a sibling's value.
func ownTreeLaw(in []byte) string {
	buf := bytes.Clone(in)
	nodes, err, pan := safeDecode(buf)
	if err != nil || pan != nil {
		return ""
	}
	before := nodes.Encode()
	tree := func() []byte { b, _ := json.Marshal(realTreeJSON(nodes.Nodes())); return b }
	t0 := tree()
	for i := range buf {
		buf[i] ^= 0xFF
	}
	if after := nodes.Encode(); !bytes.Equal(after, before) || !bytes.Equal(tree(), t0) {
		return fmt.Sprintf("the decoded tree changed when the caller overwrote its input buffer (re-encoding %x, before %x)", after, before)
	}
	var walk func(ns []tlv.TlvNode) string
	walk = func(ns []tlv.TlvNode) string {
		for _, n := range ns {
			if n == nil {
				continue
			}
			if ch := n.Children(); len(ch) > 0 {
				if r := walk(ch); r != "" {
					return r
				}
				continue
			}
			v := n.Value()
			_ = append(v, 0xEE, 0xEE, 0xEE, 0xEE)
			if after := nodes.Encode(); !bytes.Equal(after, before) {
				return fmt.Sprintf("appending to the value of element %x changed the tree (re-encoding %x, before %x)", tagOctets(n.Tag()), after, before)
			}
		}
		return ""
	}
	return walk(nodes.Nodes())
}

// ---- generators ----------------------------------------------------------------------------

func genLimit(depth, nodes int, indef bool) []byte {
	// `depth` nested constructed elements, the innermost holding primitive elements so that the
	// total element count is `nodes` (depth 0: a flat forest of primitives)
	inner := nodes - depth
	if inner < 0 {
		inner = 0
	}
	body := bytes.Repeat([]byte{0x04, 0x00}, inner)
	for i := 0; i < depth; i++ {
		if indef {
			body = append(append([]byte{0x30, 0x80}, body...), 0, 0)
		} else {
			body = append(append([]byte{0x30}, encLenMin(len(body))...), body...)
		}
	}
	return body
}

// genSpread: `nodes` elements in all - `groups` sibling constructed elements with equally many primitive children, the
// remainder as primitives at the top level.
func genSpread(groups, nodes int, indef bool) []byte {
	per := nodes/groups - 1
	if per < 0 {
		per = 0
	}
	var out []byte
	kids := bytes.Repeat([]byte{0x04, 0x00}, per)
	for g := 0; g < groups; g++ {
		if indef {
			out = append(append(append(out, 0x30, 0x80), kids...), 0, 0)
		} else {
			out = append(append(append(out, 0x30), encLenMin(len(kids))...), kids...)
		}
	}
	for rest := nodes - groups*(per+1); rest > 0; rest-- {
		out = append(out, 0x04, 0x00)
	}
	return out
}

func encLenMin(n int) []byte {
	switch {
	case n <= 127:
		return []byte{byte(n)}
	case n <= 255:
		return []byte{0x81, byte(n)}
	case n <= 65535:
		return []byte{0x82, byte(n >> 8), byte(n)}
	case n <= 0xffffff:
		return []byte{0x83, byte(n >> 16), byte(n >> 8), byte(n)}
	}
	return []byte{0x84, byte(n >> 24), byte(n >> 16), byte(n >> 8), byte(n)}
}

// genTlv produces an input from a grammar of BER encodings (1-4 octet identifiers, short / long /
// non-minimal / indefinite lengths, nesting) and then, half of the time, mutates it.
func genTlv(r *rand.Rand, maxBytes int) []byte {
	var gen func(depth, budget int) []byte
	genTag := func(cons bool) []byte {
		cls := byte(r.Intn(4)) << 6
		c := byte(0)
		if cons {
			c = 0x20
		}
		switch r.Intn(6) {
		case 0, 1, 2:
			n := byte(1 + r.Intn(30))
			return []byte{cls | c | n}
		case 3:
			return []byte{cls | c | 0x1f, byte(r.Intn(128))}
		case 4:
			return []byte{cls | c | 0x1f, 0x80 | byte(r.Intn(128)), byte(r.Intn(128))}
		default:
			return []byte{cls | c | 0x1f, 0x80 | byte(r.Intn(128)), 0x80 | byte(r.Intn(128)), byte(r.Intn(128))}
		}
	}
	genLen := func(n int) []byte {
		min := encLenMin(n)
		switch r.Intn(8) {
		case 0: // non-minimal: one extra length octet
			k := len(min)
			if n <= 127 {
				k = 0
			} else {
				k = k - 1
			}
			if k+1 <= 4 {
				out := []byte{0x80 | byte(k+1)}
				for i := k; i >= 0; i-- {
					out = append(out, byte(n>>(8*uint(i))))
				}
				return out
			}
		case 1: // 4 length octets
			return []byte{0x84, byte(n >> 24), byte(n >> 16), byte(n >> 8), byte(n)}
		}
		return min
	}
	gen = func(depth, budget int) []byte {
		var out []byte
		cnt := 1 + r.Intn(4)
		for i := 0; i < cnt && len(out) < budget; i++ {
			if depth < 6 && r.Intn(3) == 0 {
				kids := gen(depth+1, budget/2)
				tag := genTag(true)
				if r.Intn(3) == 0 {
					out = append(out, tag...)
					out = append(out, 0x80)
					out = append(out, kids...)
					out = append(out, 0, 0)
				} else {
					out = append(out, tag...)
					out = append(out, genLen(len(kids))...)
					out = append(out, kids...)
				}
			} else {
				n := r.Intn(6)
				if r.Intn(10) == 0 {
					n = 120 + r.Intn(20)
				}
				if n > budget {
					n = budget
				}
				v := make([]byte, n)
				r.Read(v)
				out = append(out, genTag(false)...)
				out = append(out, genLen(n)...)
				out = append(out, v...)
			}
		}
		return out
	}
	in := gen(0, maxBytes)
	if r.Intn(2) == 0 && len(in) > 0 {
		switch r.Intn(7) {
		case 0:
			in[r.Intn(len(in))] ^= 1 << uint(r.Intn(8))
		case 1:
			in = in[:r.Intn(len(in))]
		case 2:
			in = append(in, 0, 0)
		case 3:
			p := r.Intn(len(in))
			in = append(in[:p:p], append([]byte{0, 0}, in[p:]...)...)
		case 4:
			in = append(in, byte(r.Intn(256)))
		case 5: // drop one 00 00 (turns an indefinite element into an unterminated one)
			if p := bytes.LastIndex(in, []byte{0, 0}); p >= 0 {
				in = append(in[:p:p], in[p+2:]...)
			}
		case 6:
			in[r.Intn(len(in))] = []byte{0x80, 0x00, 0x1f, 0xff, 0x84, 0x30}[r.Intn(6)]
		}
	}
	if len(in) > maxBytes*2 {
		in = in[:maxBytes*2]
	}
	return in
}
