package checks

import (
	"bytes"
	"crypto/elliptic"
	"fmt"
	"math/big"
	"math/rand"
	"strings"

	"github.com/gmrtd/gmrtd/bac"
	"github.com/gmrtd/gmrtd/chipauth"
	"github.com/gmrtd/gmrtd/document"
	"github.com/gmrtd/gmrtd/iso7816"
	"github.com/gmrtd/gmrtd/password"
	"github.com/gmrtd/gmrtd/verifhook"

	"verif/harness/chipsim"
	"verif/harness/core"
	"verif/harness/link"
	"verif/harness/perso"
	"verif/harness/sim"
)

func init() { Registry["C06"] = C06 }

var caOIDs = []string{chipsim.OIDCaEcdh3Des, chipsim.OIDCaEcdhAes128, chipsim.OIDCaEcdhAes192, chipsim.OIDCaEcdhAes256}

func caOidName(o string) string {
	for i, x := range caOIDs {
		if x == o {
			return []string{"3DES", "AES128", "AES192", "AES256"}[i]
		}
	}
	if o == "" {
		return "inferred"
	}
	return o
}

type caCase struct {
	OID       string // "" = no ChipAuthenticationInfo (suite inferred, MSE:Set KAT)
	ParamID   int
	Params    string // explicit | named
	KeyArr    string // "none" | "id1" | "id0" | "two-keys"
	Strategy  string // ChipAuth.tla
	Arr       []arrKey // CaSelect.tla arrangement (overrides KeyArr): the keys in DG14 order
	WantKey   int      // CaSelect.tla: index (1-based) of the key both sides settle on
	WantSuite string   // CaSelect.tla: suite the terminal uses
	ReplayAfter bool   // after a FAILED chip authentication: present every earlier protected response of the session again
	ForceZero bool
	Seed      int64
}

func (k caCase) String() string {
	arr := k.KeyArr
	if k.Arr != nil {
		arr = arrName(k.Arr)
	}
	return fmt.Sprintf("CA-%s id=%d %s keys=%s strategy=%s zero=%v", caOidName(k.OID), k.ParamID, k.Params, arr, k.Strategy, k.ForceZero)
}

type caOutcome struct {
	advertised, success, chipCompleted, keysEqual, sscEqual, nextOK bool
	chipAnswered                                                   int
	err                                                            string
	forced                                                         bool
	chipOID                                                        string
	chipKeyID                                                      int
	replayAccepted                                                 string // ReplayAfter: which earlier response was delivered as the answer to a later command
}

func ip(i int) *int { return &i }

// arrKey is one key of a CaSelect.tla arrangement.
type arrKey struct {
	Kid  int    // key id on the public key info, -1 = absent
	Info string // "none" | "3des" | "aes128" | "aes256"
	Ikid int    // key id on the ChipAuthenticationInfo, -1 = absent
}

// arrName: "key<kid>/<info><ikid>" per key, "-" = absent
func arrName(a []arrKey) string {
	id := func(i int) string {
		if i < 0 {
			return "-"
		}
		return fmt.Sprint(i)
	}
	var parts []string
	for _, k := range a {
		parts = append(parts, "key"+id(k.Kid)+"/"+k.Info+id(k.Ikid))
	}
	return strings.Join(parts, "+")
}

var caSuiteOID = map[string]string{"none": "", "3des": chipsim.OIDCaEcdh3Des, "aes128": chipsim.OIDCaEcdhAes128, "aes256": chipsim.OIDCaEcdhAes256}

func runCA(k caCase) caOutcome {
	rnd := rand.New(rand.NewSource(k.Seed))
	var out caOutcome
	o := perso.Options{Seed: k.Seed, BAC: true, IssuerTrusted: true, Transport: chipsim.Transport{ExtendedLength: true}}
	spec := perso.CASpec{OID: k.OID, ParamID: k.ParamID, Params: k.Params, ForeignDG14: k.Strategy == "other-key"}
	switch {
	case k.Arr != nil:
		for _, a := range k.Arr {
			sp := perso.CASpec{OID: caSuiteOID[a.Info], ParamID: k.ParamID, Params: k.Params}
			if a.Kid >= 0 {
				sp.KeyID = ip(a.Kid)
				sp.InfoNoKeyID = a.Info != "none" && a.Ikid < 0
			}
			o.CA = append(o.CA, sp)
		}
	}
	switch k.KeyArr {
	case "arr":
	case "id1":
		spec.KeyID = ip(1)
		o.CA = []perso.CASpec{spec}
	case "id0":
		spec.KeyID = ip(0)
		o.CA = []perso.CASpec{spec}
	case "key-only-id1", "key-only-id0":
		// keyId is OPTIONAL in both infos independently: a single key that carries one while its info does not
		spec.KeyID = ip(map[string]int{"key-only-id1": 1, "key-only-id0": 0}[k.KeyArr])
		spec.InfoNoKeyID = true
		o.CA = []perso.CASpec{spec}
	case "two-keys":
		first := perso.CASpec{OID: chipsim.OIDCaEcdh3Des, ParamID: k.ParamID, Params: k.Params, KeyID: ip(1)}
		if k.OID == "" || k.OID == chipsim.OIDCaEcdh3Des {
			first.OID = "" // a second key without its own info
		}
		spec.KeyID = ip(2)
		o.CA = []perso.CASpec{first, spec}
	default:
		o.CA = []perso.CASpec{spec}
	}
	if k.Strategy == "genuine" && k.Seed%3 == 0 {
		o.Personality.FixedWidthLengths = true // BER length forms are the chip's choice (7C 82 00 00)
	}
	switch k.Strategy {
	case "random-keys":
		o.Personality = chipsim.PersonalityByName("ca-no-key")
	case "old-session":
		o.Personality = chipsim.PersonalityByName("ca-no-key-old-session")
	case "no-session":
		o.Personality = chipsim.PersonalityByName("ca-no-key-no-session")
	}
	p, err := perso.New(o)
	if err != nil {
		core.Infra("perso: %v", err)
	}
	chip, err := p.Chip()
	if err != nil {
		core.Infra("chip: %v", err)
	}
	s := sim.NewPlain(chip)
	doc := &document.Document{}
	if ok, err := s.Nfc.SelectAid(chipsim.AIDLDS1); err != nil || !ok {
		core.Infra("C06: SELECT application: %v", err)
	}
	pass, _ := password.NewPasswordMrz(p.MRZ)
	if res, err := bac.NewBAC(s.Nfc, doc, pass).DoBAC(); err != nil || !res.Success {
		core.Infra("C06: BAC failed: %v", err)
	}
	dg14, err := s.Nfc.ReadFile(0x010E)
	if err != nil || dg14 == nil {
		core.Infra("C06: DG14 not readable: %v", err)
	}
	if doc.Mf.Lds1.Dg14, err = document.NewDG14(dg14); err != nil {
		out.err = "NewDG14: " + err.Error()
		return out
	}
	// an old protected response (for the replay strategy)
	var oldResp []byte
	for _, ex := range s.Link.Exchanges() {
		if len(ex.Resp) > 12 && len(ex.Cmd) > 0 && ex.Cmd[0] == 0x0C {
			oldResp = ex.Resp
		}
	}
	caSeen := false
	s.Link.Script = func(idx int, cmd []byte, l *link.Link) link.Action {
		if len(cmd) < 4 {
			return link.Pass
		}
		// under BAC every command is protected: the chip tells us what it was
		return link.Action{Name: k.Strategy, Respond: func(g []byte, l *link.Link) []byte {
			acc := chip.Truth().Accepted
			if len(acc) == 0 {
				return g
			}
			last := acc[len(acc)-1]
			isCA := last.INS == 0x86 || (last.INS == 0x22 && last.P1 == 0x41)
			if isCA {
				caSeen = true
				return g
			}
			if caSeen && k.Strategy == "replay" && oldResp != nil {
				caSeen = false
				return oldResp
			}
			return g
		}}
	}
	if k.Strategy == "refuse" {
		// the chip has no CA keys at all although DG14 advertises them
		cfg := p.Cfg
		cfg.CAKeys = nil
		chip2, err := chipsim.New(cfg)
		if err != nil {
			core.Infra("chip: %v", err)
		}
		// redo the session on the key-less chip
		chip = chip2
		s = sim.NewPlain(chip)
		s.Nfc.SelectAid(chipsim.AIDLDS1)
		if res, err := bac.NewBAC(s.Nfc, doc, pass).DoBAC(); err != nil || !res.Success {
			core.Infra("C06: BAC failed: %v", err)
		}
	}
	if k.ForceZero {
		// terminal ephemeral scalar such that the shared secret's x-coordinate has a leading zero octet
		kk := p.CAKeys[len(p.CAKeys)-1]
		curve, _ := chipsim.CurveByParamID(kk.ParamID)
		x, y, _ := chipsim.PublicKey(kk.ParamID, kk.Priv)
		sc := chipsim.FindScalarWithLeadingZeroX(curve, x, y, detRand{rnd})
		if sc != nil {
			out.forced = true
			size := (curve.Params().N.BitLen() + 7) / 8
			hookMu.Lock()
			verifhook.SetEcScalar(func(c elliptic.Curve) []byte { return sc.FillBytes(make([]byte, size)) })
			defer func() { verifhook.SetEcScalar(nil); hookMu.Unlock() }()
		}
	}
	func() {
		defer func() {
			if r := recover(); r != nil {
				out.err = fmt.Sprintf("panic: %v", r)
			}
		}()
		res, err := chipauth.NewChipAuth(s.Nfc, doc).DoChipAuth()
		if err != nil {
			out.err = err.Error()
		}
		out.advertised = res != nil
		out.success = err == nil && res != nil && res.Success
	}()
	s.Link.Script = nil
	if k.ReplayAfter && !out.success {
		// C03 along a history with a failed chip authentication in it: whatever session state the failure leaves behind,
		// no earlier genuine response of the session is accepted as the answer to a later command
		var olds [][]byte
		for _, ex := range s.Link.Exchanges() {
			if len(ex.Cmd) > 0 && ex.Cmd[0]&0x0C == 0x0C && len(ex.ChipResp) > 2 {
				olds = append(olds, ex.ChipResp)
			}
		}
		for i := len(olds) - 1; i >= 0 && out.replayAccepted == ""; i-- {
			old := olds[i]
			s.Link.Script = func(idx int, cmd []byte, l *link.Link) link.Action {
				return link.Action{Name: "replay-after-failed-ca", Respond: func(g []byte, l *link.Link) []byte { return old }}
			}
			func() {
				defer func() { _ = recover() }()
				if ra, err := s.Nfc.DoAPDU(iso7816.NewCApdu(0x00, 0xB0, 0x00, 0x00, nil, 8), "probe"); err == nil && ra != nil {
					out.replayAccepted = fmt.Sprintf("response #%d of the session (%x) delivered as data %x status %04X", i+1, old, ra.Data, ra.Status)
				}
			}()
		}
		s.Link.Script = nil
	}
	tr := chip.Truth()
	out.chipCompleted, out.chipAnswered = tr.CaCompleted, tr.CaAnswered
	out.chipOID = tr.CaOID
	out.chipKeyID = -1
	if tr.CaKeyID != nil {
		out.chipKeyID = *tr.CaKeyID
	}
	if sm := s.Nfc.SM(); sm != nil && tr.SM.Alive {
		out.keysEqual = bytes.Equal(sm.KsEnc(), tr.SM.KSenc) && tr.SM.Origin == "CA"
		out.sscEqual = bytes.Equal(sm.SSC(), tr.SM.SSC)
		if out.success {
			data, err := s.Nfc.ReadFile(0x0101)
			out.nextOK = err == nil && bytes.Equal(data, p.DGBytes[1])
		}
	}
	return out
}

type detRand struct{ r *rand.Rand }

func (d detRand) Read(p []byte) (int, error) { return d.r.Read(p) }

var _ = big.NewInt

// C06 — chip authentication succeeds only with the holder of the certified key.
func C06(c *core.Ctx) {
	c.Rule = "one case per (CA protocol or inferred, curve, parameter form, key-id arrangement, chip strategy of ChipAuth.tla, forced leading-zero secret); non-trivial = all; distinct by case tuple + seed"
	c.Assume("symbolic Diffie-Hellman in ChipAuth.tla; the chip side is harness/chipsim (CA v1 ECDH, MSE:Set KAT and MSE:Set AT + GENERAL AUTHENTICATE)")
	c.Assume("the PACE-CAM half of the property is checked by C04 (deviations ecad / cardsec-key)")

	specRes := map[string]string{}
	r := c.MustTLC(core.TLCOpts{Module: "MC_ChipAuth", Cfg: "MC_ChipAuth.cfg", Workers: 4})
	for _, line := range r.Lines {
		if strings.HasPrefix(line, "<<\"T\"") {
			v, err := core.ParseTLA(line)
			if err != nil {
				core.Infra("C06: %v", err)
			}
			t := v.([]any)
			specRes[core.Str(t[1])] = core.Str(t[2])
		}
	}
	if len(specRes) != 7 {
		core.Infra("C06: expected 7 strategies, got %d", len(specRes))
	}
	ids := []int{8, 9, 10, 11, 12, 13, 14, 15, 16, 17, 18}
	oids := append([]string{""}, caOIDs...)
	var cases []caCase
	add := func(k caCase) { k.Seed = c.Rand.Int63(); cases = append(cases, k) }
	n := 0
	for _, id := range ids {
		for _, oid := range oids {
			for _, params := range []string{"explicit", "named"} {
				for _, arr := range []string{"none", "id1", "id0", "two-keys", "key-only-id1", "key-only-id0"} {
					n++
					if !c.Thorough() && n%5 != 0 {
						continue
					}
					add(caCase{OID: oid, ParamID: id, Params: params, KeyArr: arr, Strategy: "genuine"})
				}
			}
			if c.Thorough() || n%3 == 0 {
				add(caCase{OID: oid, ParamID: id, Params: "explicit", KeyArr: "none", Strategy: "genuine", ForceZero: true})
			}
		}
	}
	// quick: every (protocol or inferred, key-id arrangement) pair at least once, whatever the sampling above picked
	if !c.Thorough() {
		k := 0
		for _, oid := range oids {
			for _, arr := range []string{"none", "id1", "id0", "two-keys", "key-only-id1", "key-only-id0"} {
				k++
				add(caCase{OID: oid, ParamID: ids[(k*3)%len(ids)], Params: []string{"explicit", "named"}[k%2], KeyArr: arr, Strategy: "genuine"})
			}
		}
	}
	// every conforming DG14 arrangement of CaSelect.tla (keys x optional infos x independent key ids)
	arrs := c06Arrangements(c)
	for i, a := range arrs {
		a.ParamID, a.Params = ids[(i*7)%len(ids)], []string{"explicit", "named"}[i%2]
		add(a)
	}
	c.Extra["dg14_arrangements_of_CaSelect"] = len(arrs)
	for st := range specRes {
		if st == "genuine" {
			continue
		}
		for k := 0; k < core.Pick(c, 6, 30); k++ {
			add(caCase{OID: oids[(k+1)%len(oids)], ParamID: ids[(k*5)%len(ids)], Params: []string{"explicit", "named"}[k%2], KeyArr: []string{"none", "id1"}[k%2], Strategy: st})
		}
	}
	outs := make([]caOutcome, len(cases))
	// forced-scalar runs take the global hook: run them first, serially; the rest in parallel
	var par []int
	for i, k := range cases {
		if k.ForceZero {
			outs[i] = runCA(k)
		} else {
			par = append(par, i)
		}
	}
	hookMu.Lock() // no hooked run may overlap the parallel phase
	core.ParallelFor(len(par), func(j int) { outs[par[j]] = runCA(cases[par[j]]) })
	hookMu.Unlock()
	forced := 0
	for i, k := range cases {
		o := outs[i]
		c.Case(k.String()+fmt.Sprint(k.Seed), true)
		rp := map[string]any{"case": k, "outcome": fmt.Sprintf("%+v", o)}
		if o.forced {
			forced++
		}
		want := specRes[k.Strategy] == "success"
		switch {
		case want && !(o.success && o.chipCompleted && o.keysEqual && o.sscEqual && o.nextOK):
			key := "C06:conforming-chip-fails"
			switch {
			case o.forced:
				key = "C06:shared-secret-with-leading-zero-octet"
			case k.KeyArr == "id0":
				key = "C06:key-id-0"
			case strings.HasPrefix(k.KeyArr, "key-only-id"):
				key = "C06:key-id-on-public-key-only"
			case k.Arr != nil:
				key = "C06:arrangement-" + arrName(k.Arr)
			}
			c.Violation(key, fmt.Sprintf("Chip Authentication against the chip holding the certified key did not complete (%s): %+v", k, o), rp)
		case want && k.Arr != nil && (o.chipKeyID != k.Arr[k.WantKey-1].Kid || o.chipOID != caSuiteOID[k.WantSuite]):
			c.Violation("C06:arrangement-other-key-or-suite-"+arrName(k.Arr), fmt.Sprintf("Chip Authentication completed with another key / suite than CaSelect.tla settles on (want key %d suite %s): %+v", k.WantKey, k.WantSuite, o), rp)
		case !want && o.success:
			c.Violation("C06:success-with-"+k.Strategy, fmt.Sprintf("Chip Authentication reported successful although the chip did not prove the certified key (%s): %+v", k, o), rp)
		}
	}
	c.AddTraces(int64(len(cases)))
	c.Extra["runs_with_forced_leading_zero_secret"] = forced
	c.Sample(map[string]any{"case": cases[0].String(), "outcome": fmt.Sprintf("%+v", outs[0])})
	c.Sample(map[string]any{"case": cases[len(cases)-1].String(), "outcome": fmt.Sprintf("%+v", outs[len(cases)-1])})
}

// c06Arrangements: the conforming DG14 arrangements enumerated by TLC from CaSelect.tla, with the key and suite the
// specification says terminal and chip settle on; the "identical ids" design must yield its counterexample.
func c06Arrangements(c *core.Ctx) []caCase {
	r := c.MustTLC(core.TLCOpts{Module: "MC_CaSelect", Cfg: "MC_CaSelect.cfg", Workers: 4})
	var out []caCase
	seen := map[string]bool{}
	for _, line := range r.Lines {
		if !strings.HasPrefix(line, "<<\"A\"") || seen[line] {
			continue
		}
		seen[line] = true
		v, err := core.ParseTLA(line)
		if err != nil {
			core.Infra("C06: %v", err)
		}
		t := v.([]any)
		k := caCase{KeyArr: "arr", Strategy: "genuine", WantSuite: core.Str(t[2]), WantKey: t[4].(int)}
		for _, kr := range t[1].([]any) {
			f := kr.([]any)
			k.Arr = append(k.Arr, arrKey{Kid: f[0].(int), Info: core.Str(f[1]), Ikid: f[2].(int)})
		}
		k.OID = caSuiteOID[k.WantSuite]
		out = append(out, k)
	}
	if len(out) != 121 {
		core.Infra("C06: expected 121 conforming arrangements from MC_CaSelect, got %d", len(out))
	}
	if r2, err := c.TLC(core.TLCOpts{Module: "MC_CaSelect", Cfg: "MC_CaSelect_strict.cfg", Workers: 1}); err != nil {
		core.Infra("%v", err)
	} else if r2.OK {
		core.Infra("MC_CaSelect_strict: the design demanding identical key ids must violate SelectOK, found no counterexample")
	}
	return out
}

// c03AfterFailedCA (called by C03): sessions in which a chip authentication fails at its confirming exchange (impostor
// strategies of ChipAuth.tla), followed by replays of every earlier protected response of the session.
func c03AfterFailedCA(c *core.Ctx) {
	var cases []caCase
	for i, st := range []string{"other-key", "random-keys", "replay", "old-session", "no-session"} {
		for j, oid := range []string{chipsim.OIDCaEcdh3Des, chipsim.OIDCaEcdhAes128, ""} {
			cases = append(cases, caCase{OID: oid, ParamID: []int{12, 13, 10}[(i+j)%3], Params: "explicit", KeyArr: "none", Strategy: st, ReplayAfter: true, Seed: c.Rand.Int63()})
		}
	}
	outs := make([]caOutcome, len(cases))
	core.ParallelFor(len(cases), func(i int) { outs[i] = runCA(cases[i]) })
	for i, k := range cases {
		c.Case("after-failed-ca/"+k.String(), true)
		if outs[i].replayAccepted != "" {
			c.Violation("C03:replay-accepted-after-failed-chip-authentication", fmt.Sprintf("after a chip authentication that failed at its confirming exchange (%s): %s", k, outs[i].replayAccepted), map[string]any{"case": k.String(), "seed": k.Seed})
		}
	}
	c.Extra["histories_with_failed_chip_authentication"] = len(cases)
}
