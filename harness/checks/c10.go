package checks

import (
	"bytes"
	"fmt"
	"math/rand"
	"strings"

	"github.com/gmrtd/gmrtd/iso7816"

	"verif/harness/chipsim"
	"verif/harness/core"
	"verif/harness/link"
	"verif/harness/sim"
)

func init() { Registry["C10"] = C10 }

type smCmdRow struct {
	odd        bool
	nc, ne, bs int
	tag87, v87 int
	has97      bool
	v97        []byte
	ncP, neP   int
	fits       bool
	lc, le     []byte
}

// checkProtectedStructure parses the wire bytes of a protected command and compares them with the
// structure SMCmd.tla specifies.
func checkProtectedStructure(wire []byte, hdr [4]byte, rw smCmdRow) string {
	if len(wire) < 4 {
		return "shorter than a header"
	}
	if wire[0] != 0x0C {
		return fmt.Sprintf("class byte %02X, not 0C", wire[0])
	}
	if wire[1] != hdr[1] || wire[2] != hdr[2] || wire[3] != hdr[3] {
		return "INS/P1/P2 changed"
	}
	rest := wire[4:]
	if !bytes.HasPrefix(rest, rw.lc) {
		return fmt.Sprintf("Lc field %x, specified %x", rest[:min(len(rest), 3)], rw.lc)
	}
	rest = rest[len(rw.lc):]
	if len(rest) != rw.ncP+len(rw.le) {
		return fmt.Sprintf("data+Le length %d, specified %d+%d", len(rest), rw.ncP, len(rw.le))
	}
	body, le := rest[:rw.ncP], rest[rw.ncP:]
	if !bytes.Equal(le, rw.le) {
		return fmt.Sprintf("outer Le field %x, specified %x", le, rw.le)
	}
	dos, err := chipsim.ParseTLVs(body)
	if err != nil {
		return "data field is not BER-TLV: " + err.Error()
	}
	i := 0
	if rw.tag87 != 0 {
		if i >= len(dos) || int(dos[i].Tag) != rw.tag87 {
			return fmt.Sprintf("first data object is not %02X", rw.tag87)
		}
		if len(dos[i].Value) != rw.v87 || dos[i].Value[0] != 0x01 {
			return fmt.Sprintf("DO'%02X' value length %d (specified %d) or padding indicator not 01", rw.tag87, len(dos[i].Value), rw.v87)
		}
		i++
	}
	if rw.has97 {
		if i >= len(dos) || dos[i].Tag != 0x97 || !bytes.Equal(dos[i].Value, rw.v97) {
			return fmt.Sprintf("DO'97' missing or value differs (specified %x)", rw.v97)
		}
		i++
	}
	if i >= len(dos) || dos[i].Tag != 0x8E || len(dos[i].Value) != 8 {
		return "DO'8E' missing or not 8 octets"
	}
	if i != len(dos)-1 {
		return "data objects after DO'8E' or unexpected objects"
	}
	return ""
}

// C10 — protected commands are well-formed and counters stay in lockstep.
func C10(c *core.Ctx) {
	c.Rule = "one case per (command shape, cipher suite, initial counter kind, status sequence) executed through the real DoAPDU against the chip simulator; non-trivial = the command carries data or expects data; distinct by shape+suite+history"
	c.Assume("odd-INS commands use DO'85' WITH the padding-content indicator, as the property statement describes (chipsim option DO85PaddingIndicator); ISO 7816-4's DO'85' has none")
	c.Assume("commands whose protected form does not fit into an extended-length APDU (Nc' > 65535) are outside the quantification")

	// design level: honest-link invariants on SM.tla (intended and as built)
	c.MustTLC(core.TLCOpts{Module: "MC_SM", Cfg: "MC_SM_intended.cfg"})
	c.MustTLC(core.TLCOpts{Module: "MC_SM", Cfg: "MC_SM_asbuilt_c10.cfg"})
	// histories of any length: the counter discipline as an inductive invariant, discharged by Apalache (Lockstep.tla)
	if c.Thorough() {
		obligations := 0
		for _, ob := range []struct {
			args []string
			want string
		}{
			{[]string{"--cinit=CInit", "--init=Init", "--inv=IndInv", "--length=0"}, "ok"},              // initiation
			{[]string{"--cinit=CInit", "--init=IndInv", "--inv=IndInv", "--length=1"}, "ok"},           // consecution
			{[]string{"--cinit=CInit", "--init=IndInv", "--inv=Lockstep", "--length=0"}, "ok"},         // IndInv => Lockstep
			{[]string{"--cinit=CInit", "--init=IndInv", "--next=NextBroken", "--inv=IndInv", "--length=1"}, "violation"}, // not vacuous
		} {
			got, err := c.Apalache("Lockstep", ob.args...)
			if err != nil {
				core.Infra("C10: %v", err)
			}
			if got != ob.want {
				core.Infra("C10: apalache Lockstep %v: %s, expected %s", ob.args, got, ob.want)
			}
			obligations++
		}
		c.Extra["apalache_obligations_discharged"] = obligations
	}

	// structure table
	var rows []smCmdRow
	r := c.MustTLC(core.TLCOpts{Module: "MC_SMCmd", Cfg: "MC_SMCmd.cfg"})
	for _, line := range r.Lines {
		if !strings.HasPrefix(line, "<<\"T\"") {
			continue
		}
		v, err := core.ParseTLA(line)
		if err != nil {
			core.Infra("C10: %v", err)
		}
		t := v.([]any)
		p := t[5].(map[string]any)
		rows = append(rows, smCmdRow{odd: t[1].(bool), nc: t[2].(int), ne: t[3].(int), bs: t[4].(int), tag87: p["tag87"].(int), v87: p["v87"].(int), has97: p["has97"].(bool),
			v97: core.Bytes(p["v97"]), ncP: p["nc"].(int), neP: p["ne"].(int), fits: p["fits"].(bool), lc: core.Bytes(p["lc"]), le: core.Bytes(p["le"])})
	}
	if int64(len(rows)) != r.Distinct || len(rows) == 0 {
		core.Infra("C10: table has %d rows, TLC found %d states", len(rows), r.Distinct)
	}

	statuses := []uint16{0x9000, 0x6A82, 0x6282, 0x6700, 0x6982}
	type job struct {
		row   smCmdRow
		suite sim.Suite
		kind  int
		seed  int64
	}
	var jobs []job
	for i, rw := range rows {
		if !rw.fits {
			continue
		}
		for si, su := range sim.Suites {
			if (su.SscLen == 8) != (rw.bs == 8) {
				continue
			}
			if !c.Thorough() && (i+si)%2 == 0 && rw.nc > 300 {
				continue
			}
			jobs = append(jobs, job{rw, su, i + si, c.Rand.Int63()})
		}
	}
	core.ParallelFor(len(jobs), func(ji int) {
		j := jobs[ji]
		rnd := rand.New(rand.NewSource(j.seed))
		hdr := [4]byte{0x00, byte(rnd.Intn(256)), byte(rnd.Intn(256)), byte(rnd.Intn(256))}
		if j.row.odd {
			hdr[1] |= 1
		} else {
			hdr[1] &^= 1
		}
		var respData []byte
		var respSw uint16
		cfg := chipsim.Config{Transport: chipsim.Transport{ExtendedLength: true, DO85PaddingIndicator: true, AllowOversizeShortResponse: false}, Rand: rnd}
		cfg.Handler = func(cmd chipsim.PlainCmd) ([]byte, uint16, bool) { return respData, respSw, true }
		chip, err := chipsim.New(cfg)
		if err != nil {
			core.Infra("chipsim.New: %v", err)
		}
		s := sim.NewPlain(chip)
		if err := s.InstallSM(j.suite, rnd, wrapSsc0(j.suite.SscLen, j.kind, rnd)); err != nil {
			core.Infra("InstallSM: %v", err)
		}
		// a history of 4 exchanges: the shaped command is sent at a varying position, other
		// exchanges are small commands answered with arbitrary protected statuses
		pos := j.kind % 4
		key := fmt.Sprintf("odd=%v nc=%d ne=%d %s ssc=%d pos=%d", j.row.odd, j.row.nc, j.row.ne, j.suite.Name, j.kind%4, pos)
		c.Case(key, j.row.nc > 0 || j.row.ne > 0)
		for k := 0; k < 4; k++ {
			var capdu *iso7816.CApdu
			var data []byte
			ne := 0
			h := hdr
			if k == pos {
				data = make([]byte, j.row.nc)
				rnd.Read(data)
				ne = j.row.ne
			} else {
				h = [4]byte{0x00, byte(0xA4 + 2*k), byte(k), 0x0C}
				data = []byte{0x01, 0x1E}[:k%3]
				ne = []int{0, 256, 8}[k%3]
			}
			var in []byte
			if len(data) > 0 {
				in = bytes.Clone(data)
			}
			capdu = iso7816.NewCApdu(h[0], h[1], h[2], h[3], in, ne)
			respSw = statuses[rnd.Intn(len(statuses))]
			if rnd.Intn(3) == 0 {
				// "arbitrary protected statuses": any status word ISO 7816-4 knows - '61'..'6F' and '90'..'9F' (proprietary
				// '91xx'..'9Fxx' included) with any second octet
				respSw = uint16([]int{0x61, 0x62, 0x63, 0x64, 0x65, 0x66, 0x67, 0x68, 0x69, 0x6A, 0x6B, 0x6C, 0x6D, 0x6E, 0x6F, 0x91, 0x92, 0x98, 0x9F}[rnd.Intn(19)])<<8 | uint16(rnd.Intn(256))
			}
			respData = nil
			if ne > 0 && respSw == 0x9000 {
				respData = make([]byte, 1+rnd.Intn(min(ne, 200)))
				rnd.Read(respData)
			}
			before := len(chip.Truth().Accepted)
			ra, err := s.Nfc.DoAPDU(capdu, "x")
			exs := s.Link.Exchanges()
			wire := exs[len(exs)-1].Cmd
			rp := map[string]any{"case": key, "exchange": k, "wire_prefix": core.Hex(wire[:min(len(wire), 24)]), "wire_len": len(wire), "seed": j.seed}
			tr := chip.Truth()
			// no command leaves unprotected
			if len(wire) > 0 && wire[0]&0x0C != 0x0C {
				c.Violation("C10:plain-command-during-session", fmt.Sprintf("command with class %02X sent while a session is installed (%s)", wire[0], key), rp)
			}
			if k == pos {
				if d := checkProtectedStructure(wire, h, j.row); d != "" {
					c.Violation("C10:structure", fmt.Sprintf("protected command differs from 9303-11 9.8.4 (%s): %s", key, d), rp)
				}
			}
			// the independent chip authenticates and decrypts it to the intended command
			if len(tr.Accepted) != before+1 {
				reason := ""
				if n := len(tr.SMFailureLog); n > 0 {
					reason = tr.SMFailureLog[n-1].Reason
				}
				c.Violation("C10:chip-rejects-command", fmt.Sprintf("the chip did not accept the protected command of exchange %d (%s): %s", k, key, reason), rp)
				return
			}
			a := tr.Accepted[len(tr.Accepted)-1]
			if a.CLA != h[0] || a.INS != h[1] || a.P1 != h[2] || a.P2 != h[3] || !bytes.Equal(a.Data, data) || a.Ne != ne {
				c.Violation("C10:decrypts-to-other-command", fmt.Sprintf("the chip recovered %02X %02X %02X %02X nc=%d ne=%d, intended %02X %02X %02X %02X nc=%d ne=%d (%s)",
					a.CLA, a.INS, a.P1, a.P2, len(a.Data), a.Ne, h[0], h[1], h[2], h[3], len(data), ne, key), rp)
			}
			// the genuine protected response (any status) is delivered
			if err != nil {
				c.Violation("C10:genuine-response-refused", fmt.Sprintf("exchange %d failed on an honest link: %v (%s, chip status %04X)", k, err, key, a.SW), rp)
				return
			}
			if ra.Status != a.SW || !bytes.Equal(ra.Data, respDataFor(a, respData)) {
				c.Violation("C10:delivery-differs", fmt.Sprintf("exchange %d delivered status %04X / %d octets, chip sent %04X / %d (%s)", k, ra.Status, len(ra.Data), a.SW, a.RespLen, key), rp)
			}
			// lockstep
			if !tr.SM.Alive || !bytes.Equal(s.SM.SSC(), tr.SM.SSC) {
				c.Violation("C10:counters-differ", fmt.Sprintf("after exchange %d terminal SSC %x, chip SSC %x alive=%v (%s)", k, s.SM.SSC(), tr.SM.SSC, tr.SM.Alive, key), rp)
				return
			}
		}
	})
	c.AddTraces(int64(len(jobs)))
	c10EndToEnd(c)
	c.Extra["command_shapes"] = len(rows)
	for _, i := range []int{0, len(jobs) / 2, len(jobs) - 1} {
		c.Sample(map[string]any{"odd": jobs[i].row.odd, "nc": jobs[i].row.nc, "ne": jobs[i].row.ne, "suite": jobs[i].suite.Name, "spec_Nc'": jobs[i].row.ncP, "spec_lc": core.Hex(jobs[i].row.lc), "spec_le": core.Hex(jobs[i].row.le)})
	}

	// long fault-free histories (C->S): recorded and validated against Trace_SM
	smLongHistories(c, false)
}

func respDataFor(a chipsim.PlainCmd, sent []byte) []byte {
	if a.RespLen == 0 {
		return nil
	}
	return sent
}

var _ = link.Pass

// c10EndToEnd: "no command leaves unprotected" through whole reads (the Protection clause of Wire.tla): once the
// chip has seen a protected command of a read, every later command of that read arrives protected - across PACE,
// BAC and the change of session keys by Chip Authentication - and the counters agree at the end.
func c10EndToEnd(c *core.Ctx) {
	cfgs := []struct {
		cfg sessCfg
		opt sessOpt
	}{
		{sessCfg{"bac", []int{11}, "rsa", true, true, "genuine"}, sessOpt{false, false, "mrz"}},
		{sessCfg{"pace+bac", []int{2, 13}, "none", true, true, "genuine"}, sessOpt{false, false, "can"}},
		{sessCfg{"cam+bac", []int{13}, "ecdsa", true, true, "genuine"}, sessOpt{false, true, "mrz"}},
		{sessCfg{"pace+bac", []int{11, 13}, "ecdsa", true, true, "genuine"}, sessOpt{true, false, "mrz"}},
	}
	n := core.Pick(c, 1, 4)
	type job struct {
		k int
		v sessVariety
	}
	var jobs []job
	for k := range cfgs {
		for r := 0; r < n; r++ {
			jobs = append(jobs, job{k, randomVariety(c.Rand)})
		}
	}
	core.ParallelFor(len(jobs), func(i int) {
		j := jobs[i]
		p, err := personalise(cfgs[j.k].cfg, j.v)
		if err != nil {
			core.Infra("C10: personalise: %v", err)
		}
		o := runSession(p, cfgs[j.k].opt, j.v.MaxLe, nil, nil, j.v.Seed)
		name := fmt.Sprintf("e2e %s | %s", cfgs[j.k].cfg, cfgs[j.k].opt)
		c.Case(name+fmt.Sprint(j.v.Seed), true)
		if o.err != "" {
			return // C08's subject
		}
		inSession := false
		for _, a := range o.truth.Accepted {
			if a.Secured {
				inSession = true
			} else if inSession {
				c.Violation("C10:plain-command-in-session-e2e", fmt.Sprintf("command %02X %02X %02X %02X reached the chip unprotected after the session had been installed (%s)", a.CLA, a.INS, a.P1, a.P2, name),
					map[string]any{"config": cfgs[j.k].cfg, "index": a.Index})
				break
			}
		}
		if o.logPlain != "" {
			// the command the chip decrypted is not the command the library meant to send (its own log of it)
			c.Violation("C10:decrypted-command-differs-from-intended-e2e", fmt.Sprintf("%s (%s)", o.logPlain, name), map[string]any{"config": cfgs[j.k].cfg, "seed": j.v.Seed})
		}
		if o.truth.SMFailures > 0 {
			c.Violation("C10:chip-rejected-protected-command-e2e", fmt.Sprintf("the chip refused %d protected command(s) of a fault-free read (%s): %+v", o.truth.SMFailures, name, o.truth.SMFailureLog), map[string]any{"config": cfgs[j.k].cfg})
		}
	})
	c.Extra["end_to_end_reads"] = len(jobs)
}
