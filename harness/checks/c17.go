package checks

import (
	"bytes"
	"fmt"
	"strings"

	"github.com/gmrtd/gmrtd/iso7816"

	"verif/harness/core"
)

func init() { Registry["C17"] = C17 }

// C17 — command and response APDUs follow ISO 7816-4 for every length.
//
// S->C: TLC checks Parse(Encode(x)) = x and minimality on spec/Apdu.tla for every (Nc, Ne) of
// the instance and prints the specified length fields; every row is replayed into the real
// iso7816.NewCApdu(...).Encode().  C->S: seeded random commands (arbitrary header, random
// data) and responses are encoded/parsed by the real code and the recorded lines validated
// against Trace_Apdu.
func C17(c *core.Ctx) {
	c.Rule = "one case per (Nc,Ne) pair replayed into CApdu.Encode plus one per recorded command/response line; non-trivial = has a data or Le field, or a response of >= 2 bytes; distinct by (Nc,Ne) resp. response length"
	c.Assume("data bytes are symbolic in Apdu.tla: the length fields do not depend on data content (checked on the Go side with random data: the data bytes must be copied verbatim)")
	cfg := core.Pick(c, "MC_Apdu_quick.cfg", "MC_Apdu_full.cfg")

	type row struct {
		nc, ne int
		lc, le []byte
	}
	var rows []row
	r := c.MustTLC(core.TLCOpts{Module: "MC_Apdu", Cfg: cfg, OnLine: nil})
	for _, line := range r.Lines {
		if !strings.HasPrefix(line, "<<\"T\"") {
			continue
		}
		v, err := core.ParseTLA(line)
		if err != nil {
			core.Infra("C17: %v", err)
		}
		t := v.([]any)
		rows = append(rows, row{t[1].(int), t[2].(int), core.Bytes(t[3]), core.Bytes(t[4])})
	}
	if int64(len(rows)) != r.Distinct || len(rows) == 0 {
		core.Infra("C17: table has %d rows, TLC found %d states", len(rows), r.Distinct)
	}
	c.Exhaustive = c.Thorough()
	c.Extra["tlc_instance"] = cfg

	hdr := [4]byte{byte(c.Rand.Intn(256)), byte(c.Rand.Intn(256)), byte(c.Rand.Intn(256)), byte(c.Rand.Intn(256))}
	pattern := make([]byte, 65535)
	c.Rand.Read(pattern)

	core.ParallelFor(len(rows), func(i int) {
		rw := rows[i]
		data := pattern[:rw.nc]
		var in []byte
		if rw.nc > 0 {
			in = bytes.Clone(data)
		}
		got := iso7816.NewCApdu(hdr[0], hdr[1], hdr[2], hdr[3], in, rw.ne).Encode()
		want := append(append(append(append([]byte{}, hdr[:]...), rw.lc...), data...), rw.le...)
		c.Case(fmt.Sprintf("c/%d/%d", rw.nc, rw.ne), rw.nc > 0 || rw.ne > 0)
		if !bytes.Equal(got, want) {
			key, what := classifyC17(rw.nc, rw.ne, got, want, len(rw.lc), len(rw.le))
			c.Violation(key, what, map[string]any{"cla": hdr[0], "ins": hdr[1], "p1": hdr[2], "p2": hdr[3], "nc": rw.nc, "ne": rw.ne,
				"spec_lc": core.Hex(rw.lc), "spec_le": core.Hex(rw.le), "real_prefix": core.Hex(got[:min(len(got), 8)]), "real_suffix": core.Hex(got[max(0, len(got)-4):]), "real_len": len(got)})
		}
	})
	c.AddTraces(int64(len(rows)))
	c.Sample(map[string]any{"nc": rows[0].nc, "ne": rows[0].ne, "spec_lc": core.Hex(rows[0].lc), "spec_le": core.Hex(rows[0].le)})
	c.Sample(map[string]any{"nc": rows[len(rows)/2].nc, "ne": rows[len(rows)/2].ne, "spec_lc": core.Hex(rows[len(rows)/2].lc), "spec_le": core.Hex(rows[len(rows)/2].le)})

	// ---- C->S: recorded lines from random commands / responses ---------------------------
	n := core.Pick(c, 3000, 40000)
	var lines [][]byte
	type rec struct {
		line []byte
		key  string
		nc   int
		ne   int
	}
	recs := make([]rec, 0, n)
	lens := []int{0, 1, 2, 7, 8, 254, 255, 256, 257, 65279, 65280, 65281, 65534, 65535}
	nes := []int{0, 1, 2, 255, 256, 257, 258, 65535, 65536}
	for i := 0; i < n; i++ {
		if i%3 != 0 {
			var nc, ne int
			switch c.Rand.Intn(3) {
			case 0:
				nc, ne = lens[c.Rand.Intn(len(lens))], nes[c.Rand.Intn(len(nes))]
			case 1:
				nc, ne = c.Rand.Intn(65536), nes[c.Rand.Intn(len(nes))]
			default:
				nc, ne = lens[c.Rand.Intn(len(lens))], c.Rand.Intn(65537)
			}
			h := []byte{byte(c.Rand.Intn(256)), byte(c.Rand.Intn(256)), byte(c.Rand.Intn(256)), byte(c.Rand.Intn(256))}
			data := make([]byte, nc)
			c.Rand.Read(data)
			var in []byte
			if nc > 0 {
				in = bytes.Clone(data)
			}
			got := iso7816.NewCApdu(h[0], h[1], h[2], h[3], in, ne).Encode()
			// split the real output around the data using the known data length: the octets between
			// header and data are the real Lc field, the octets after the data the real Le field.
			lcLen := 0
			if nc > 0 {
				// find data: the specification allows 1 or 3 octets; take what the real code produced
				// (short data can also match inside a three-octet Lc field - 00 00 01 | 00 -: among the positions where
				// the data matches, prefer the one whose remainder has the width that goes with that Lc width)
				lcLen = -1
				for _, k := range []int{1, 3, 0, 2} {
					if 4+k+nc <= len(got) && bytes.Equal(got[4+k:4+k+nc], data) {
						rest := len(got) - (4 + k + nc)
						fits := (k == 1 && rest <= 1) || (k == 3 && (rest == 0 || rest == 2))
						if lcLen < 0 || fits {
							lcLen = k
						}
						if fits {
							break
						}
					}
				}
			}
			hdrOK := len(got) >= 4 && bytes.Equal(got[:4], h)
			l := map[string]any{"k": "c", "nc": nc, "ne": ne, "total": len(got), "hdr": hdrOK, "data": lcLen >= 0}
			if lcLen >= 0 {
				l["lc"] = ints(got[4 : 4+lcLen])
				l["le"] = ints(got[4+lcLen+nc:])
			} else {
				l["lc"], l["le"] = []int{}, []int{}
			}
			recs = append(recs, rec{core.JSONLine(l), fmt.Sprintf("tc/%d/%d", nc, ne), nc, ne})
		} else {
			rl := c.Rand.Intn(6)
			if c.Rand.Intn(2) == 0 {
				rl = c.Rand.Intn(70000)
			}
			b := make([]byte, rl)
			c.Rand.Read(b)
			in := bytes.Clone(b)
			ra, err := iso7816.ParseRApdu(in)
			// the receive buffer is the transceiver's: it is re-used for the next response (the parsed response is a value)
			for q := range in {
				in[q] ^= 0x5A
			}
			l := map[string]any{"k": "r", "n": rl, "err": err != nil, "ndata": 0, "dataok": false, "swok": false, "reenc": false}
			if err == nil && ra != nil {
				l["ndata"] = len(ra.Data)
				if rl >= 2 {
					l["dataok"] = bytes.Equal(ra.Data, b[:rl-2])
					l["swok"] = ra.Status == uint16(b[rl-2])<<8|uint16(b[rl-1])
				}
				l["reenc"] = bytes.Equal(ra.Encode(), b)
			}
			recs = append(recs, rec{core.JSONLine(l), fmt.Sprintf("tr/%d", rl), -1, rl})
		}
	}
	for _, r := range recs {
		lines = append(lines, r.line)
	}
	tr := c.ValidateTrace("Trace_Apdu", lines, core.TLCOpts{})
	for _, r := range recs {
		c.Case(r.key, r.nc > 0 || r.ne > 0)
	}
	c.AddTraces(int64(len(lines)))
	for _, rj := range tr.Rejected {
		ln := rj[0].(int) - 1
		rc := recs[ln]
		if rc.nc >= 0 {
			key, what := classifyC17(rc.nc, rc.ne, nil, nil, 0, 0)
			c.Violation(key, "recorded CApdu.Encode line rejected by Trace_Apdu: "+what+" "+string(rc.line), map[string]any{"line": string(rc.line)})
		} else {
			c.Violation("C17:rapdu", "recorded ParseRApdu line rejected by Trace_Apdu: "+string(rc.line), map[string]any{"line": string(rc.line)})
		}
	}
	c.Sample(map[string]any{"recorded_line": string(lines[0])})
	c.Sample(map[string]any{"recorded_line": string(lines[1])})
}

// classifyC17 names the failing input class (the key known_findings.json matches on).
func classifyC17(nc, ne int, got, want []byte, lcLen, leLen int) (string, string) {
	switch {
	case nc == 0 && ne > 256:
		return "C17:case2E-le-without-leading-00", fmt.Sprintf("case 2E (Nc=0, Ne=%d): extended Le must be 00 hi lo when no Lc field is present", ne)
	case nc >= 65280:
		return "C17:lc-high-octet", fmt.Sprintf("Nc=%d Ne=%d: Lc field differs from 00 hi lo", nc, ne)
	default:
		return fmt.Sprintf("C17:other-nc%d-ne%d", nc, ne), fmt.Sprintf("Nc=%d Ne=%d: encoding differs from ISO 7816-4", nc, ne)
	}
}

func ints(b []byte) []int {
	out := make([]int, len(b))
	for i, x := range b {
		out[i] = int(x)
	}
	return out
}
