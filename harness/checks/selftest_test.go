package checks

// Binding self-tests (DESIGN.md 4): corrupt one recorded field or drop one event of a genuine execution and the trace
// specification must reject it. Not part of the registered commands: `cd harness && go test -tags verif ./checks/`.

import (
	"math/rand"
	"os"
	"testing"

	"verif/harness/chipsim"
	"verif/harness/core"
)

func selfCtx(t *testing.T) *core.Ctx {
	os.Setenv("VERIF_EVIDENCE_DIR", t.TempDir())
	return core.New("SELFTEST", "quick")
}

func TestWireBinding(t *testing.T) {
	c := selfCtx(t)
	v := randomVariety(rand.New(rand.NewSource(7)))
	v.Transport = chipsim.Transport{ExtendedLength: true, AllowOversizeShortResponse: true, LengthErrorKeepsSession: true}
	v.MaxLe, v.AaBits, v.DG13Size = 256, 1024, 0
	cc, oo := sessCfg{"pace+bac", []int{2, 11}, "rsa", true, true, "genuine"}, sessOpt{false, false, "mrz"}
	p, err := personalise(cc, v)
	if err != nil {
		t.Fatal(err)
	}
	o := runSession(p, oo, 256, nil, nil, v.Seed)
	if o.err != "" {
		t.Fatal(o.err)
	}
	genuine := wireOf(o, cc, oo, p)
	clone := func() wireRead {
		w := wireRead{name: "x", rd: genuine.rd}
		for _, e := range genuine.events {
			m := map[string]any{}
			for k, x := range e {
				m[k] = x
			}
			w.events = append(w.events, m)
		}
		return w
	}
	find := func(w wireRead, ins int, nth int) int {
		for i, e := range w.events {
			if e["ins"] == ins {
				if nth == 0 {
					return i
				}
				nth--
			}
		}
		t.Fatalf("no command %x", ins)
		return -1
	}
	var ws []wireRead
	ws = append(ws, clone()) // 1: genuine: accepted
	w := clone()
	w.events[find(w, 0x86, 2)]["chain"] = false // 2: third GENERAL AUTHENTICATE without command chaining
	ws = append(ws, w)
	w = clone()
	i := find(w, 0x22, 0)
	w.events = append(w.events[:i], w.events[i+1:]...) // 3: MSE:Set AT missing
	ws = append(ws, w)
	w = clone()
	w.events[len(w.events)-1]["sec"] = false // 4: the last command unprotected
	ws = append(ws, w)
	w = clone()
	j, k := find(w, 0xA4, 6), find(w, 0xA4, 7)
	w.events[j]["fid"], w.events[k]["fid"] = w.events[k]["fid"], w.events[j]["fid"] // 5: two files read in the other order
	ws = append(ws, w)
	wireValidate(c, ws)
	if c.Extra["wire_traces_validated"] != 5 || c.Extra["wire_traces_rejected"] != 4 {
		t.Fatalf("validated %v rejected %v, want 5 / 4", c.Extra["wire_traces_validated"], c.Extra["wire_traces_rejected"])
	}
}
