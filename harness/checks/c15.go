package checks

import (
	"bytes"
	"crypto/sha256"
	"encoding/json"
	"fmt"
	"math/rand"
	"reflect"
	"strings"

	"github.com/gmrtd/gmrtd/document"

	"verif/harness/chipsim"
	"verif/harness/core"
)

func init() { Registry["C15"] = C15 }

// ---- minimal CBOR walker (RFC 8949, definite lengths only), independent of the library's decoder ----

type cborItem struct {
	major      byte
	start, end int // whole item
	valStart   int // start of the content (after the head)
	arg        uint64
	kids       []cborItem // map: key, value, key, value...; array: elements
}

func cborParse(b []byte, pos int) (cborItem, error) {
	if pos >= len(b) {
		return cborItem{}, fmt.Errorf("eof")
	}
	ib := b[pos]
	it := cborItem{major: ib >> 5, start: pos}
	ai := ib & 0x1f
	p := pos + 1
	switch {
	case ai < 24:
		it.arg = uint64(ai)
	case ai >= 24 && ai <= 27:
		n := 1 << (ai - 24)
		if p+n > len(b) {
			return it, fmt.Errorf("eof")
		}
		for i := 0; i < n; i++ {
			it.arg = it.arg<<8 | uint64(b[p+i])
		}
		p += n
	default:
		return it, fmt.Errorf("indefinite/reserved")
	}
	it.valStart = p
	switch it.major {
	case 0, 1, 7:
		it.end = p
	case 2, 3:
		if uint64(len(b)-p) < it.arg {
			return it, fmt.Errorf("eof")
		}
		it.end = p + int(it.arg)
	case 4, 5:
		n := int(it.arg)
		if it.major == 5 {
			n *= 2
		}
		for i := 0; i < n; i++ {
			k, err := cborParse(b, p)
			if err != nil {
				return it, err
			}
			it.kids = append(it.kids, k)
			p = k.end
		}
		it.end = p
	case 6:
		k, err := cborParse(b, p)
		if err != nil {
			return it, err
		}
		it.kids = []cborItem{k}
		it.end = k.end
	}
	return it, nil
}

// envelopeRanges locates the components of one envelope inside blob[off:]: returns component -> [start,end)
func envelopeRanges(blob []byte, off int) (map[string][2]int, cborItem, bool) {
	it, err := cborParse(blob, off)
	if err != nil || it.major != 5 {
		return nil, it, false
	}
	out := map[string][2]int{"structure": {it.start, it.valStart}}
	for i := 0; i+1 < len(it.kids); i += 2 {
		k, v := it.kids[i], it.kids[i+1]
		if k.major != 3 {
			return nil, it, false
		}
		name := string(blob[k.valStart:k.end])
		out["key:"+name] = [2]int{k.start, k.end}
		out["head:"+name] = [2]int{v.start, v.valStart}
		out["val:"+name] = [2]int{v.valStart, v.end}
		if v.major == 0 {
			out["val:"+name] = [2]int{v.start, v.end}
		}
	}
	return out, it, true
}

// classify maps a byte position of an exported blob to (level, component class of Envelope.tla).
func classifyPos(blob []byte, pos int) (level, comp string) {
	outer, _, ok := envelopeRanges(blob, 0)
	if !ok {
		return "?", "?"
	}
	in := func(r [2]int) bool { return pos >= r[0] && pos < r[1] }
	classIn := func(rs map[string][2]int) string {
		for name, r := range rs {
			if !in(r) {
				continue
			}
			switch {
			case name == "structure" || strings.HasPrefix(name, "head:"):
				return "structure"
			case strings.HasPrefix(name, "key:"):
				return "map-key"
			case name == "val:magic":
				return "magic"
			case name == "val:version":
				return "version"
			case name == "val:sha256":
				return "sha"
			case name == "val:payload":
				return "payload"
			}
		}
		return "?"
	}
	c := classIn(outer)
	if c != "payload" {
		return "outer", c
	}
	// inside the outer payload: a map {document: bytes, chipAuthEvidence: bytes}
	pr := outer["val:payload"]
	inner, err := cborParse(blob, pr[0])
	if err != nil || inner.major != 5 {
		return "outer", "payload"
	}
	for i := 0; i+1 < len(inner.kids); i += 2 {
		k, v := inner.kids[i], inner.kids[i+1]
		name := string(blob[k.valStart:k.end])
		if pos >= v.valStart && pos < v.end && v.major == 2 {
			lvl := map[string]string{"document": "doc", "chipAuthEvidence": "evidence"}[name]
			rs, _, ok := envelopeRanges(blob, v.valStart)
			if !ok || lvl == "" {
				return "outer", "payload"
			}
			return lvl, classIn(rs)
		}
	}
	return "outer", "payload" // keys / heads of the outer payload map
}

// docContent is the comparable content of an imported blob.
type docContent struct {
	Files    map[string]string
	Views    map[string]string
	Evidence string
}

func contentOf(doc *document.Document, ev *document.ChipAuthEvidenceBundle) docContent {
	c := docContent{Files: map[string]string{}, Views: map[string]string{}}
	put := func(name string, p document.RawDataProvider, view any) {
		if p == nil || reflect.ValueOf(p).IsNil() {
			return
		}
		c.Files[name] = core.Hex(p.GetRawData())
		j, _ := json.Marshal(view)
		h := sha256.Sum256(j)
		c.Views[name] = core.Hex(h[:8])
	}
	mf := doc.Mf
	put("cardAccess", mf.CardAccess, mf.CardAccess)
	put("cardSecurity", mf.CardSecurity, mf.CardSecurity)
	put("dir", mf.Dir, mf.Dir)
	put("com", mf.Lds1.Com, mf.Lds1.Com)
	put("sod", mf.Lds1.Sod, mf.Lds1.Sod)
	put("dg1", mf.Lds1.Dg1, mf.Lds1.Dg1)
	put("dg2", mf.Lds1.Dg2, mf.Lds1.Dg2)
	put("dg7", mf.Lds1.Dg7, mf.Lds1.Dg7)
	put("dg11", mf.Lds1.Dg11, mf.Lds1.Dg11)
	put("dg12", mf.Lds1.Dg12, mf.Lds1.Dg12)
	put("dg13", mf.Lds1.Dg13, mf.Lds1.Dg13)
	put("dg14", mf.Lds1.Dg14, mf.Lds1.Dg14)
	put("dg15", mf.Lds1.Dg15, mf.Lds1.Dg15)
	put("dg16", mf.Lds1.Dg16, mf.Lds1.Dg16)
	if ev != nil {
		j, _ := json.Marshal(struct {
			P *document.PaceCamEvidence
			C *document.ChipAuthEvidence
			A *document.ActiveAuthEvidence
		}{ev.PaceCam, ev.ChipAuth, ev.ActiveAuth})
		c.Evidence = string(j)
	}
	return c
}

func importBlob(blob []byte) (c docContent, err error) {
	defer func() {
		if r := recover(); r != nil {
			err = fmt.Errorf("panic: %v", r)
		}
	}()
	doc, ev, e := document.UnmarshalVerifiableDoc(blob)
	if e != nil {
		return c, e
	}
	return contentOf(doc, ev), nil
}

// C15 — document serialisation round-trips and detects corruption.
func C15(c *core.Ctx) {
	c.Rule = "one case per (exported document, byte position, substitution) / truncation / extension, plus one round trip per document; non-trivial = all; distinct by document + position + substitution"
	c.Assume("the CBOR decoder (fxamacker/cbor) is abstracted as 'well-formed or not' in Envelope.tla; byte positions are classified by the harness' own minimal CBOR walker")

	expect := map[string]string{}
	r := c.MustTLC(core.TLCOpts{Module: "MC_Envelope", Cfg: core.Pick(c, "MC_Envelope_quick.cfg", "MC_Envelope_full.cfg"), Timeout: 0})
	for _, line := range r.Lines {
		if strings.HasPrefix(line, "<<\"T\"") {
			v, err := core.ParseTLA(line)
			if err != nil {
				core.Infra("C15: %v", err)
			}
			t := v.([]any)
			expect[core.Str(t[1])+"/"+core.Str(t[2])] = core.Str(t[3])
		}
	}
	if len(expect) != 27 {
		core.Infra("C15: expected 27 (level, component) rows, got %d", len(expect))
	}

	// documents: live sessions (files + evidence of each mechanism), plus file-subset documents
	type docCase struct {
		name string
		dex  *document.DocumentEx
	}
	var docs []docCase
	mechs := []sessCfg{
		{"bac", []int{11, 13}, "rsa", true, true, "genuine"},
		{"cam+bac", []int{2}, "ecdsa", true, true, "genuine"},
		{"pace", []int{}, "none", true, true, "genuine"},
		{"pace+bac", []int{2, 7, 11, 12, 13, 16}, "none", false, true, "genuine"},
	}
	if !c.Thorough() {
		mechs = mechs[:3]
	}
	for i, cfg := range mechs {
		v := randomVariety(c.Rand)
		v.Transport = chipsim.Transport{ExtendedLength: true, AllowOversizeShortResponse: true, LengthErrorKeepsSession: true}
		v.MaxLe = 256
		v.AaBits = 1024
		p, err := personalise(cfg, v)
		if err != nil {
			core.Infra("personalise: %v", err)
		}
		o := runSession(p, sessOpt{false, false, "mrz"}, 256, nil, nil, v.Seed)
		if o.err != "" || o.docEx == nil {
			core.Infra("C15: live session %d failed: %s", i, o.err)
		}
		docs = append(docs, docCase{fmt.Sprintf("session-%s", cfg.Access), o.docEx})
		// subsets: drop evidence / drop files
		d2 := &document.DocumentEx{Document: o.docEx.Document}
		docs = append(docs, docCase{fmt.Sprintf("session-%s-no-evidence", cfg.Access), d2})
		d3 := &document.DocumentEx{Document: o.docEx.Document, Session: o.docEx.Session}
		d3.Document.Mf.Lds1.Com, d3.Document.Mf.CardAccess, d3.Document.Mf.Lds1.Dg14 = nil, nil, nil
		docs = append(docs, docCase{fmt.Sprintf("session-%s-fewer-files", cfg.Access), d3})
		// the evidence of a mechanism is exported whatever its live verdict was (a failed step is examined offline too)
		d4 := &document.DocumentEx{Document: o.docEx.Document, Session: cloneSession(o.docEx.Session)}
		if r := d4.Session.PaceCamResult; r != nil {
			r.Success = false
		}
		if r := d4.Session.ChipAuthResult; r != nil {
			r.Success = false
		}
		if r := d4.Session.ActiveAuthResult; r != nil {
			r.Success = false
		}
		docs = append(docs, docCase{fmt.Sprintf("session-%s-steps-recorded-as-failed", cfg.Access), d4})
		if i == 0 {
			// EF.DIR as Doc 9303-10 table 31 shows it: several application templates (several top-level data objects)
			dirBytes := chipsim.BuildDIR(chipsim.AIDLDS1, []byte{0xA0, 0x00, 0x00, 0x02, 0x47, 0x20, 0x01}, []byte{0xA0, 0x00, 0x00, 0x02, 0x47, 0x20, 0x02}, []byte{0xA0, 0x00, 0x00, 0x02, 0x47, 0x20, 0x03})
			if dir, err := document.NewEFDIR(dirBytes); err != nil {
				c.Violation("C15:ef-dir-rejected", fmt.Sprintf("EF.DIR with four application templates is not parsed: %v", err), nil)
			} else {
				if !bytes.Equal(dir.GetRawData(), dirBytes) {
					c.Violation("C15:object-does-not-hold-the-file", fmt.Sprintf("NewEFDIR: the object holds %x, the file is %x", dir.GetRawData(), dirBytes), nil)
				}
				d5 := &document.DocumentEx{Document: o.docEx.Document}
				d5.Document.Mf.Dir = dir
				docs = append(docs, docCase{"session-with-ef-dir-of-four-applications", d5})
			}
		}
	}
	docs = append(docs, docCase{"empty", &document.DocumentEx{}})

	// XOR masks; 01 and 03 turn a version number 1 into 0 and 2, 2 into 3 and 1
	subst := core.Pick(c, []byte{0x01, 0x03, 0x80, 0xFF}, []byte{0x01, 0x02, 0x03, 0x04, 0x08, 0x10, 0x20, 0x40, 0x80, 0xFF, 0x55})
	classCount := map[string]int{}
	acceptedSame := map[string]int{}
	for _, dc := range docs {
		blob, err := dc.dex.ToCbor()
		if err != nil {
			c.Violation("C15:export-fails", fmt.Sprintf("ToCbor failed for %s: %v", dc.name, err), nil)
			continue
		}
		orig, err := importBlob(blob)
		c.Case("roundtrip/"+dc.name, true)
		if err != nil {
			c.Violation("C15:round-trip-fails", fmt.Sprintf("import of an unmodified export failed (%s): %v", dc.name, err), map[string]any{"doc": dc.name})
			continue
		}
		// round trip: same files, same views, same evidence as the exported object
		bundle := &document.ChipAuthEvidenceBundle{}
		s := dc.dex.Session
		if s.PaceCamResult != nil {
			bundle.PaceCam = s.PaceCamResult.Evidence
		}
		if s.ChipAuthResult != nil {
			bundle.ChipAuth = s.ChipAuthResult.Evidence
		}
		if s.ActiveAuthResult != nil {
			bundle.ActiveAuth = s.ActiveAuthResult.Evidence
		}
		if want := contentOf(&dc.dex.Document, bundle); !reflect.DeepEqual(want, orig) {
			c.Violation("C15:round-trip-differs", fmt.Sprintf("import(export(d)) differs from d (%s)", dc.name), map[string]any{"doc": dc.name, "want_files": len(want.Files), "got_files": len(orig.Files)})
		}
		// every byte position x substitutions
		type mut struct {
			pos  int
			mask byte
			kind string
		}
		var muts []mut
		stride := 1
		if !c.Thorough() && len(blob) > 3000 {
			stride = len(blob) / 3000
		}
		for pos := 0; pos < len(blob); pos += stride {
			p := pos
			if stride > 1 {
				p = pos + c.Rand.Intn(stride)
				if p >= len(blob) {
					p = len(blob) - 1
				}
			}
			for _, m := range subst {
				muts = append(muts, mut{p, m, "subst"})
			}
		}
		for k := 0; k < core.Pick(c, 60, 400); k++ {
			muts = append(muts, mut{c.Rand.Intn(len(blob)), 0, "truncate"})
			muts = append(muts, mut{1 + c.Rand.Intn(40), byte(c.Rand.Intn(256)), "extend"})
		}
		res := make([]string, len(muts))
		cls := make([]string, len(muts))
		core.ParallelFor(len(muts), func(i int) {
			m := muts[i]
			var b []byte
			switch m.kind {
			case "subst":
				b = append([]byte{}, blob...)
				b[m.pos] ^= m.mask
				lvl, comp := classifyPos(blob, m.pos)
				if comp == "version" {
					if b[m.pos] > blob[m.pos] {
						comp = "version-up"
					} else {
						comp = "version-down"
					}
				}
				cls[i] = lvl + "/" + comp
			case "truncate":
				b = append([]byte{}, blob[:m.pos]...)
				cls[i] = "outer/truncate"
			case "extend":
				b = append(append([]byte{}, blob...), bytes.Repeat([]byte{m.mask}, m.pos)...)
				cls[i] = "outer/extend"
			}
			got, err := importBlob(b)
			switch {
			case err != nil:
				res[i] = "reject"
			case reflect.DeepEqual(got, orig):
				res[i] = "same"
			default:
				res[i] = "different"
			}
		})
		for i, m := range muts {
			c.Case(fmt.Sprintf("%s/%s/%d/%02x", dc.name, m.kind, m.pos, m.mask), true)
			classCount[cls[i]]++
			rp := map[string]any{"doc": dc.name, "mutation": m.kind, "pos": m.pos, "mask": m.mask, "class": cls[i], "blob_len": len(blob)}
			switch res[i] {
			case "different":
				c.Violation("C15:corrupted-blob-imports-different-content", fmt.Sprintf("%s: %s at %d (mask %02x, class %s) imported to DIFFERENT content", dc.name, m.kind, m.pos, m.mask, cls[i]), rp)
			case "same":
				acceptedSame[cls[i]]++
				if exp, ok := expect[cls[i]]; ok && exp == "reject" && (cls[i] == "outer/magic" || cls[i] == "outer/version-up" || cls[i] == "doc/magic" || cls[i] == "evidence/magic") {
					c.Violation("C15:foreign-magic-or-newer-version-accepted", fmt.Sprintf("%s: class %s accepted", dc.name, cls[i]), rp)
				}
			}
		}
	}
	// exports do not share state: every document is exported (twice around), and only then is each blob imported -
	// it must still be its own document (an export that hands out recycled memory passes every single round trip)
	{
		var blobs [][]byte
		var owners []int
		for round := 0; round < 2; round++ {
			for i, dc := range docs {
				b, err := dc.dex.ToCbor()
				if err != nil {
					continue
				}
				blobs = append(blobs, b)
				owners = append(owners, i)
			}
		}
		for k, b := range blobs {
			dc := docs[owners[k]]
			c.Case(fmt.Sprintf("export-sequence/%d/%s", k, dc.name), true)
			got, err := importBlob(b)
			bundle := &document.ChipAuthEvidenceBundle{}
			s := dc.dex.Session
			if s.PaceCamResult != nil {
				bundle.PaceCam = s.PaceCamResult.Evidence
			}
			if s.ChipAuthResult != nil {
				bundle.ChipAuth = s.ChipAuthResult.Evidence
			}
			if s.ActiveAuthResult != nil {
				bundle.ActiveAuth = s.ActiveAuthResult.Evidence
			}
			if err != nil || !reflect.DeepEqual(contentOf(&dc.dex.Document, bundle), got) {
				c.Violation("C15:export-sequence", fmt.Sprintf("after exporting several documents, the blob of %s (export %d of %d) no longer imports to that document: %v", dc.name, k+1, len(blobs), err), map[string]any{"doc": dc.name})
			}
		}
	}
	// foreign magic / newer version, constructed explicitly
	c15Foreign(c)
	c.AddTraces(int64(len(docs)))
	c.Extra["documents"] = len(docs)
	c.Extra["mutations_by_class"] = classCount
	c.Extra["accepted_with_identical_content_by_class"] = acceptedSame
	c.Sample(map[string]any{"document": docs[0].name})
	c.Sample(map[string]any{"classes": len(classCount)})
}

// c15Foreign re-frames a genuine payload under a foreign magic / a newer version with a CORRECT
// checksum (what a byte flip cannot produce): both must be rejected.
func c15Foreign(c *core.Ctx) {
	dex := &document.DocumentEx{}
	blob, err := dex.ToCbor()
	if err != nil {
		return
	}
	rs, _, ok := envelopeRanges(blob, 0)
	if !ok {
		core.Infra("C15: cannot walk an exported blob")
	}
	// same length magic with one character changed; version 1 -> 2
	m := append([]byte{}, blob...)
	mr := rs["val:magic"]
	m[mr[0]] = 'G'
	c.Case("foreign-magic", true)
	if _, err := importBlob(m); err == nil {
		c.Violation("C15:foreign-magic-or-newer-version-accepted", "a blob with a foreign magic was imported", nil)
	}
	v := append([]byte{}, blob...)
	vr := rs["val:version"]
	v[vr[0]] = 0x02
	c.Case("newer-version", true)
	if _, err := importBlob(v); err == nil {
		c.Violation("C15:foreign-magic-or-newer-version-accepted", "a blob with a newer version was imported", nil)
	}
}

var _ = rand.Intn
