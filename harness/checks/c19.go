package checks

import (
	"bytes"
	"encoding/json"
	"fmt"
	"math/rand"
	"regexp"
	"sort"
	"strings"

	"github.com/gmrtd/gmrtd/document"

	"verif/harness/core"
	"verif/harness/lds"
)

func init() { Registry["C19"] = C19 }

// discrepancy classes: the first path element of a Diff line with indices removed
var reIdx = regexp.MustCompile(`\[\d+\]`)

func diffClass(kind, line string) string {
	p := line
	if i := strings.Index(p, ": "); i >= 0 {
		p = p[:i]
	}
	p = reIdx.ReplaceAllString(p, "[]")
	// keep at most three path elements: enough to name the field, short enough to be a class
	el := strings.Split(p, ".")
	if len(el) > 4 {
		el = el[:4]
	}
	return kind + ":" + strings.Join(el, ".")
}

// dropEmptyComponents removes empty components from the '<'-separated lists of a DG11 view and
// from the summary: gmrtd discards them on purpose (splitFieldsFiltered, "seen on French
// passports") and whether "A<<C" has two or three components is not fixed by Doc 9303-10.
func dropEmptyComponents(v lds.View, keys ...string) {
	for _, k := range keys {
		l, ok := v[k].([]any)
		if !ok {
			if ls, ok2 := v[k].([]string); ok2 {
				var out []string
				for _, s := range ls {
					if s != "" {
						out = append(out, s)
					}
				}
				v[k] = out
			}
			continue
		}
		var out []any
		for _, s := range l {
			if s != "" {
				out = append(out, s)
			}
		}
		v[k] = out
	}
}

// notExposed removes from the reference view what the library's structs have no member for.
func notExposed(kind string, ref lds.View) {
	si, ok := ref["securityInfos"].(lds.View)
	if !ok {
		if m, ok2 := ref["securityInfos"].(map[string]any); ok2 {
			si = lds.View(m)
		} else {
			return
		}
	}
	if l, ok := si["terminalAuthenticationInfos"].([]any); ok {
		for _, x := range l {
			switch m := x.(type) {
			case lds.View:
				delete(m, "efCVCA")
			case map[string]any:
				delete(m, "efCVCA")
			}
		}
	}
}

type c19case struct {
	name  string
	kind  string
	spec  lds.FileSpec
	opts  lds.EncodeOpts
	shape func(got lds.View) []string // checks against the TLA+ view; returns discrepancy lines
}

// C19 — parsed document attributes are exactly what the hashed bytes encode.
func C19(c *core.Ctx) {
	c.Rule = "one case per (file shape enumerated by LdsView.tla or drawn at random, encoding choice); non-trivial = all; distinct by shape + encoding"
	c.Assume("the reference decoding (harness/lds) is a second reading of Doc 9303-10, ISO/IEC 19794-5 and 39794-5 by the author of the check; image payloads are opaque")
	c.Assume("not asserted: empty components of '<'-separated lists (dropped on purpose by the library), the efCVCA member of TerminalAuthenticationInfo (not exposed), the OID arc of EFDIRInfo (1.3.27 in the library and its tests, 2.23.136 in the reference)")

	// ---- 1. shapes from the specification ----------------------------------------------------------------
	var cases []c19case
	type wrong struct {
		kind   string
		n      int
		accept bool
	}
	var wrongs []wrong
	type sumCase struct {
		d11    string
		tpls   []lds.TemplateShape
		n7     int
		com    bool
		vi     bool
		d12    string
		expect map[string]any
		img    map[string]any
	}
	var sums []sumCase
	tpl := func(v any) []lds.TemplateShape {
		var out []lds.TemplateShape
		for _, t := range v.([]any) {
			m := t.(map[string]any)
			out = append(out, lds.TemplateShape{Enc: core.Str(m["enc"]), N: m["n"].(int)})
		}
		return out
	}
	seedOf := func(s string) int64 {
		h := int64(1469598103934665603)
		for i := 0; i < len(s); i++ {
			h = (h ^ int64(s[i])) * 1099511628211
		}
		return h ^ c.Seed
	}
	nS := 0
	r := c.MustTLC(core.TLCOpts{Module: "MC_LdsView", Cfg: core.Pick(c, "MC_LdsView_quick.cfg", "MC_LdsView_full.cfg"), Timeout: 0,
		OnLine: func(line string) {
			if !strings.HasPrefix(line, "<<\"S\"") {
				return
			}
			v, err := core.ParseTLA(line)
			if err != nil {
				core.Infra("C19: %v", err)
			}
			t := v.([]any)
			x := t[1].([]any)
			exp := t[2]
			nS++
			rnd := rand.New(rand.NewSource(seedOf(line)))
			switch core.Str(x[0]) {
			case "tagged":
				kind := core.Str(x[1])
				var present []string
				for _, p := range x[2].(core.Set) {
					present = append(present, core.Str(p))
				}
				sort.Strings(present)
				n := x[3].(int)
				e := x[4].(map[string]any)
				spec, err := lds.ShapeTagged(kind, present, n, rnd)
				if err != nil {
					core.Infra("C19: %v", err)
				}
				opts := lds.ShapeOpts(core.Str(e["order"]), e["bcd"].(bool), e["lengthForm"].(int), rnd.Int63())
				em := exp.(map[string]any)
				want := map[string]bool{}
				for _, f := range em["fields"].(core.Set) {
					want[core.Str(f)] = true
				}
				rep := "otherNames"
				if kind == "DG12" {
					rep = "otherPersons"
				}
				nList := len(em["list"].([]any))
				cases = append(cases, c19case{fmt.Sprintf("tagged/%s/%s/%d/%v", kind, strings.Join(present, "+"), n, e), kind, spec, opts, func(got lds.View) []string {
					var out []string
					for k := range want {
						if _, ok := got[k]; !ok {
							out = append(out, k+": present in the file, absent from the view")
						}
					}
					for k := range got {
						if !want[k] && k != rep {
							out = append(out, k+": in the view, absent from the file")
						}
					}
					l, _ := got[rep].([]any)
					if len(l) != nList {
						out = append(out, fmt.Sprintf("%s: %d elements in the file, %d in the view", rep, nList, len(l)))
					}
					return out
				}})
			case "dg2":
				tp := tpl(x[1])
				spec, err := lds.ShapeDG2(tp, rnd)
				if err != nil {
					core.Infra("C19: %v", err)
				}
				em := exp.(map[string]any)
				order := em["images"].([]any) // <<t, i>> in file order
				var wantImgs []string
				for _, ti := range order {
					p := ti.([]any)
					t, i := p[0].(int), p[1].(int)
					b := spec.DG2.Templates[t-1]
					if b.ISO19794 != nil {
						wantImgs = append(wantImgs, lds.Hx(b.ISO19794.Faces[i-1].Image.Bytes()))
					} else {
						wantImgs = append(wantImgs, lds.Hx(b.ISO39794.Representations[i-1].Image.Bytes()))
					}
				}
				cases = append(cases, c19case{fmt.Sprintf("dg2/%v", tp), "DG2", spec, lds.EncodeOpts{LengthForm: int(rnd.Int63() % 3)}, func(got lds.View) []string {
					var out []string
					l, _ := got["images"].([]any)
					if len(l) != len(wantImgs) {
						out = append(out, fmt.Sprintf("images: %d images in the file, %d in the view", len(wantImgs), len(l)))
					}
					for j := 0; j < len(l) && j < len(wantImgs); j++ {
						if l[j] != wantImgs[j] {
							out = append(out, fmt.Sprintf("images[%d]: not the %d-th image of the file", j, j+1))
						}
					}
					tv, _ := got["templates"].([]any)
					if len(tv) != len(tp) {
						out = append(out, fmt.Sprintf("templates: %d in the file, %d in the view", len(tp), len(tv)))
					}
					return out
				}})
			case "repeated":
				kind, n, lf := core.Str(x[1]), x[2].(int), x[3].(int)
				spec, err := lds.ShapeRepeated(kind, n, rnd)
				if err != nil {
					core.Infra("C19: %v", err)
				}
				key := map[string]string{"DG7": "images", "DG16": "personsToNotify"}[kind]
				cases = append(cases, c19case{fmt.Sprintf("repeated/%s/%d/%d", kind, n, lf), kind, spec, lds.EncodeOpts{LengthForm: lf}, func(got lds.View) []string {
					if l, _ := got[key].([]any); len(l) != n {
						return []string{fmt.Sprintf("%s: %d elements in the file, %d in the view", key, n, len(l))}
					}
					return nil
				}})
			case "secinfos":
				kind := core.Str(x[1])
				counts := map[string]int{}
				for k, v := range x[2].(map[string]any) {
					counts[k] = v.(int)
				}
				ids := x[3].(bool)
				spec, err := lds.ShapeSecInfos(kind, counts, ids, rnd)
				if err != nil {
					core.Infra("C19: %v", err)
				}
				opts := lds.EncodeOpts{}
				if core.Str(x[4]) == "permuted" {
					opts.Permute = 1 + rnd.Int63()%1000
				}
				wantCounts := map[string]int{}
				for k, v := range exp.(map[string]any) {
					wantCounts[k] = v.(int)
				}
				cases = append(cases, c19case{fmt.Sprintf("secinfos/%s/%v/%v/%s", kind, counts, ids, core.Str(x[4])), kind, spec, opts, func(got lds.View) []string {
					var out []string
					si := asMap(got["securityInfos"])
					for list, n := range wantCounts {
						l, _ := si[list].([]any)
						if len(l) != n {
							out = append(out, fmt.Sprintf("securityInfos.%s: %d infos of this type in the file, %d in the view", list, n, len(l)))
						}
					}
					return out
				}})
			case "sod":
				ver, nh := x[1].(int), x[2].(int)
				asc := core.Str(x[3]) == "ascending"
				spec, err := lds.ShapeSOD(ver, nh+1, asc, rnd) // nh+1: at least two hashes, so that an order exists
				if err != nil {
					core.Infra("C19: %v", err)
				}
				em := exp.(map[string]any)
				cases = append(cases, c19case{fmt.Sprintf("sod/%d/%d/%v", ver, nh+1, asc), "SOD", spec, lds.EncodeOpts{}, func(got lds.View) []string {
					var out []string
					lso := asMap(got["ldsSecurityObject"])
					h, _ := lso["dataGroupHashValues"].([]any)
					if len(h) != em["hashes"].(int)+1 {
						out = append(out, fmt.Sprintf("ldsSecurityObject.dataGroupHashValues: %d in the file, %d in the view", em["hashes"].(int)+1, len(h)))
					}
					for i := range h { // file order
						if i < len(spec.SOD.Hashes) && fmt.Sprint(asMap(h[i])["dataGroupNumber"]) != fmt.Sprint(spec.SOD.Hashes[i].DG) {
							out = append(out, fmt.Sprintf("ldsSecurityObject.dataGroupHashValues[%d]: not the %d-th entry of the file (the list is a SEQUENCE OF: order is content)", i, i+1))
							break
						}
					}
					if _, has := lso["ldsVersionInfo"]; has != em["versionInfo"].(bool) {
						out = append(out, fmt.Sprintf("ldsSecurityObject.ldsVersionInfo: presence %v, specified %v", has, em["versionInfo"].(bool)))
					}
					return out
				}})
			case "wrongdg":
				wrongs = append(wrongs, wrong{core.Str(x[1]), x[2].(int), exp.(bool)})
			case "summary":
				em := exp.(map[string]any)
				sums = append(sums, sumCase{core.Str(x[1]), tpl(x[2]), x[3].(int), x[4].(bool), x[5].(bool), core.Str(x[6]), em["s"].(map[string]any), em["img"].(map[string]any)})
			}
		}})
	_ = r
	if nS < 1000 {
		core.Infra("C19: only %d shapes emitted by MC_LdsView", nS)
	}
	// encodings of DG1, DG13, DG15, COM are a matter of content, not of shape: enumerated and random specs of the harness
	for _, kind := range []string{"DG1", "DG13", "DG15", "COM"} {
		for i, s := range lds.Enumerate(kind, core.Pick(c, 2, 3)) {
			for j, o := range lds.EnumerateOpts(kind) {
				cases = append(cases, c19case{fmt.Sprintf("enum/%s/%d/%d", kind, i, j), kind, s, o, nil})
			}
		}
	}
	// random content over every kind (values the shapes keep fixed: feature points, 39794 options, MRZ variety, hash algorithms ...)
	nRand := core.Pick(c, 150, 2000)
	for _, kind := range lds.Kinds {
		for i := 0; i < nRand; i++ {
			rnd := rand.New(rand.NewSource(c.Seed*7919 + int64(i)*31 + int64(len(kind))))
			cases = append(cases, c19case{fmt.Sprintf("random/%s/%d/%d", kind, i, c.Seed), kind, lds.RandomSpec(kind, rnd), lds.RandomOpts(rnd), nil})
		}
	}

	type res struct {
		lines []string
		raw   []byte
		infra string
	}
	results := make([]res, len(cases))
	core.ParallelFor(len(cases), func(i int) {
		tc := cases[i]
		raw, err := lds.Encode(tc.spec, tc.opts)
		if err != nil {
			results[i].infra = fmt.Sprintf("encode %s: %v", tc.name, err)
			return
		}
		results[i].raw = raw
		ref, err := lds.Decode(tc.kind, raw)
		if err != nil {
			results[i].infra = fmt.Sprintf("reference decode %s: %v", tc.name, err)
			return
		}
		if exp, err := lds.ExpectedView(tc.spec); err == nil && !lds.Equal(exp, ref) {
			results[i].infra = fmt.Sprintf("the two reference routes disagree on %s: %v", tc.name, lds.Diff(exp, ref))
			return
		}
		got, err := gmrtdView(tc.kind, append([]byte(nil), raw...))
		if err != nil {
			results[i].lines = []string{"(constructor): well-formed file rejected: " + err.Error()}
			return
		}
		// determinism: equal bytes, equal views
		got2, err2 := gmrtdView(tc.kind, append([]byte(nil), raw...))
		if err2 != nil || !lds.Equal(got, got2) {
			results[i].lines = append(results[i].lines, "(determinism): two constructions from equal bytes give different views")
		}
		// the object is built from a PRIVATE copy: overwriting the caller's buffer afterwards changes neither the raw
		// bytes it holds nor anything of its parsed view (every field the library's own JSON rendering shows)
		if msg := ownViewLaw(tc.kind, raw); msg != "" {
			results[i].lines = append(results[i].lines, "(own copy): "+msg)
		}
		notExposed(tc.kind, ref)
		if tc.kind == "DG11" {
			dropEmptyComponents(ref, "placeOfBirth", "address", "otherValidTDNumbers")
			dropEmptyComponents(got, "placeOfBirth", "address", "otherValidTDNumbers")
		}
		lines := lds.Diff(ref, got)
		var keep []string
		for _, l := range lines {
			// EFDIRInfo: which arc is right cannot be settled offline; no verdict on where such an info lands
			if strings.HasPrefix(l, "securityInfos.efDirInfos") || (strings.HasPrefix(l, "securityInfos.unknownInfos") && hasEfDir(tc.spec)) {
				continue
			}
			keep = append(keep, l)
		}
		results[i].lines = append(results[i].lines, keep...)
		if tc.shape != nil {
			for _, l := range tc.shape(lds.Normalize(got).(map[string]any)) {
				results[i].lines = append(results[i].lines, "(shape) "+l)
			}
		}
	})
	for i, tc := range cases {
		c.Case(tc.name, true)
		rs := results[i]
		if rs.infra != "" {
			core.Infra("C19: %s", rs.infra)
		}
		seen := map[string]bool{}
		for _, l := range rs.lines {
			cl := diffClass(tc.kind, strings.TrimPrefix(l, "(shape) "))
			if seen[cl] {
				continue
			}
			seen[cl] = true
			c.Violation("C19:"+cl, fmt.Sprintf("%s: view differs from what the bytes encode: %s", tc.name, l),
				map[string]any{"kind": tc.kind, "file": core.Hex(rs.raw), "spec": tc.spec, "opts": tc.opts, "diff": rs.lines})
		}
	}
	c.AddTraces(int64(len(cases)))
	c.Extra["file_cases"] = len(cases)
	c.Extra["shapes_from_spec"] = nS

	// ---- 2. wrong data group / wrong kind ---------------------------------------------------------------------
	rep := map[string][][]byte{}
	for _, kind := range lds.Kinds {
		for k := 0; k < core.Pick(c, 3, 10); k++ {
			rnd := rand.New(rand.NewSource(c.Seed + int64(k)*17 + int64(len(kind))))
			raw, err := lds.Encode(lds.RandomSpec(kind, rnd), lds.RandomOpts(rnd))
			if err != nil {
				core.Infra("C19: encode %s: %v", kind, err)
			}
			rep[kind] = append(rep[kind], raw)
		}
	}
	supported := map[int]bool{1: true, 2: true, 7: true, 11: true, 12: true, 13: true, 14: true, 15: true, 16: true}
	for _, w := range wrongs {
		for k, raw := range rep[w.kind] {
			c.Case(fmt.Sprintf("wrongdg/%s/as%d/%d", w.kind, w.n, k), true)
			var doc document.Document
			err := doc.NewDG(w.n, append([]byte(nil), raw...))
			if !w.accept && err == nil {
				c.Violation(fmt.Sprintf("C19:wrongdg:%s-accepted-as-DG%d", w.kind, w.n), fmt.Sprintf("a %s file was accepted as data group %d", w.kind, w.n),
					map[string]any{"kind": w.kind, "asDG": w.n, "file": core.Hex(raw)})
			}
			if w.accept && supported[w.n] && err != nil {
				c.Violation(fmt.Sprintf("C19:%s:(constructor)", w.kind), fmt.Sprintf("well-formed %s rejected as data group %d: %v", w.kind, w.n, err), map[string]any{"file": core.Hex(raw)})
			}
		}
	}
	// every constructor refuses the files of every other kind (the outer tag is checked by the constructor, not only by NewDG)
	for _, target := range lds.Kinds {
		for _, kind := range lds.Kinds {
			if kind == target || (lds.KindDG(kind) > 0 && lds.KindDG(target) > 0 && false) {
				continue
			}
			if (kind == "DG14" && target == "CardAccess") || (kind == "CardAccess" && target == "DG14") {
				// different outer tags (6E vs 31): still must be refused
			}
			for k, raw := range rep[kind] {
				c.Case(fmt.Sprintf("wrongkind/%s/as-%s/%d", kind, target, k), true)
				if _, err := gmrtdView(target, append([]byte(nil), raw...)); err == nil {
					c.Violation(fmt.Sprintf("C19:wrongkind:%s-accepted-as-%s", kind, target), fmt.Sprintf("a %s file was accepted by the %s constructor", kind, target),
						map[string]any{"kind": kind, "as": target, "file": core.Hex(raw)})
				}
			}
		}
	}
	// a complete template of another kind in front of the requested one
	for _, p := range lds.ForeignPrefixPairs() {
		c.Case(fmt.Sprintf("foreign-prefix/%s+%s", p.Front, p.AsKind), true)
		if _, err := gmrtdView(p.AsKind, append([]byte(nil), p.Raw...)); err == nil {
			c.Violation(fmt.Sprintf("C19:wrongkind:%s-in-front-of-%s", p.Front, p.AsKind), fmt.Sprintf("%s || %s accepted by the %s constructor (outer tag belongs to %s)", p.Front, p.AsKind, p.AsKind, p.Front),
				map[string]any{"file": core.Hex(p.Raw)})
		}
	}

	// ---- 3. identity summary: precedence rules --------------------------------------------------------------------
	for si, s := range sums {
		rnd := rand.New(rand.NewSource(c.Seed*131 + int64(si)))
		name := fmt.Sprintf("summary/%s/%v/%d/%v/%v/%s", s.d11, s.tpls, s.n7, s.com, s.vi, s.d12)
		c.Case(name, true)
		files := map[string]lds.View{}
		var docEx document.DocumentEx
		l := &docEx.Document.Mf.Lds1
		add := func(kind string, spec lds.FileSpec) {
			raw, err := lds.Encode(spec, lds.RandomOpts(rnd))
			if err != nil {
				core.Infra("C19: encode %s: %v", kind, err)
			}
			v, err := lds.Decode(kind, raw)
			if err != nil {
				core.Infra("C19: reference decode %s: %v", kind, err)
			}
			files[kind] = v
			switch kind {
			case "COM":
				l.Com, err = document.NewCOM(raw)
			case "SOD":
				l.Sod, err = document.NewSOD(raw)
			default:
				err = docEx.Document.NewDG(lds.KindDG(kind), raw)
			}
			if err != nil {
				c.Violation(fmt.Sprintf("C19:%s:(constructor)", kind), fmt.Sprintf("%s: well-formed %s rejected: %v", name, kind, err), map[string]any{"file": core.Hex(raw)})
			}
		}
		add("DG1", lds.ShapeDG1(rnd))
		if s.d11 != "absent" {
			present := []string{"personalNumber", "telephone"}
			if s.d11 == "name" || s.d11 == "both" {
				present = append(present, "nameOfHolder")
			}
			if s.d11 == "dob" || s.d11 == "both" {
				present = append(present, "fullDateOfBirth")
			}
			spec, _ := lds.ShapeTagged("DG11", present, rnd.Intn(3), rnd)
			add("DG11", spec)
		}
		if s.d12 != "absent" {
			present := []string{"issuingAuthority", "dateOfIssue"}
			if s.d12 == "front" || s.d12 == "both" {
				present = append(present, "imageFront")
			}
			if s.d12 == "rear" || s.d12 == "both" {
				present = append(present, "imageRear")
			}
			spec12, _ := lds.ShapeTagged("DG12", present, rnd.Intn(2), rnd)
			if spec12.DG12.ImageFront != nil && spec12.DG12.ImageRear != nil { // two different images of different formats
				spec12.DG12.ImageFront.Format, spec12.DG12.ImageFront.Fill = "jpeg", 11
				spec12.DG12.ImageRear.Format, spec12.DG12.ImageRear.Fill = "jp2", 22
			}
			add("DG12", spec12)
		}
		spec2, _ := lds.ShapeDG2(s.tpls, rnd)
		add("DG2", spec2)
		if s.n7 > 0 {
			spec7, _ := lds.ShapeRepeated("DG7", s.n7, rnd)
			add("DG7", spec7)
		}
		if s.com {
			cs := lds.ShapeCOM([]int{1, 2}, rnd)
			cs.COM.LDSVersion, cs.COM.UnicodeVersion = "0107", "050200"
			add("COM", cs)
		}
		ver := 0
		if s.vi {
			ver = 1
		}
		specS, _ := lds.ShapeSOD(ver, 2, rnd.Intn(2) == 0, rnd)
		add("SOD", specS)
		want := lds.ExpectedSummary(files)
		imageFormats(want)
		for _, k := range []string{"issuingState", "nationality"} {
			if want[k] == "D" { // the library resolves country codes; Doc 9303-3 §5: "D" is Germany
				want[k] = "DEU"
			}
		}
		got := gSummary(docEx.Summary())
		dropEmptyComponents(want, "placeOfBirth", "address")
		dropEmptyComponents(got, "placeOfBirth", "address")
		seen := map[string]bool{}
		for _, line := range lds.Diff(want, got) {
			cl := diffClass("summary", line)
			if !seen[cl] {
				seen[cl] = true
				c.Violation("C19:"+cl, fmt.Sprintf("%s: %s", name, line), map[string]any{"want": want, "got": got})
			}
		}
		// the specification's precedence clauses, stated on the real summary directly
		g := lds.Normalize(got).(map[string]any)
		mrzName := lds.Normalize(files["DG1"]).(map[string]any)["name"]
		chk := func(cond bool, key, what string) {
			if !cond {
				c.Violation("C19:summary:"+key, fmt.Sprintf("%s: %s", name, what), map[string]any{"want": want, "got": got})
			}
		}
		e := s.expect
		if core.Str(e["nameSource"]) == "dg11" {
			chk(jsonEq(g["name"], lds.Normalize(files["DG11"]).(map[string]any)["nameOfHolder"]), "name", "name is not the DG11 name of holder")
		} else {
			chk(jsonEq(g["name"], mrzName), "name", "name is not the MRZ name although DG11 carries none")
		}
		chk(jsonEq(g["nameMrzRaw"], mrzName), "nameMrzRaw", "the MRZ name is not surfaced")
		if core.Str(e["dobSource"]) == "dg11" {
			chk(jsonEq(g["dateOfBirth"], lds.Normalize(files["DG11"]).(map[string]any)["fullDateOfBirth"]), "dateOfBirth", "date of birth is not the DG11 full date of birth")
		}
		for key, field := range map[string]string{"front": "documentImageFront", "rear": "documentImageRear"} {
			_, has := g[field]
			chk(has == s.img[key].(bool), field, fmt.Sprintf("%s: present in the summary %v, in DG12 %v", field, has, s.img[key].(bool)))
			if has {
				chk(jsonEq(g[field], lds.Normalize(files["DG12"]).(map[string]any)[map[string]string{"front": "imageFront", "rear": "imageRear"}[key]]), field, field+" is not the "+key+" image of DG12")
			}
		}
		fl, _ := g["faceImages"].([]any)
		chk(len(fl) == e["faceImages"].(int), "faceImages", fmt.Sprintf("%d face images in DG2, %d in the summary", e["faceImages"].(int), len(fl)))
		sl, _ := g["signatureImages"].([]any)
		chk(len(sl) == e["signatures"].(int), "signatureImages", fmt.Sprintf("%d images in DG7, %d in the summary", e["signatures"].(int), len(sl)))
		switch core.Str(e["versionSource"]) {
		case "sod":
			chk(g["ldsVersion"] == "0108", "ldsVersion", "LDS version not taken from EF.SOD")
		case "com":
			chk(g["ldsVersion"] == "0107", "ldsVersion", "LDS version not taken from EF.COM")
		default:
			chk(g["ldsVersion"] == nil, "ldsVersion", "LDS version without a source")
		}
	}
	c.Extra["summary_cases"] = len(sums)

	// ---- 4. the view is the view of the raw bytes the object holds (life cycle) -------------------------------------
	var hists [][]string
	lr := c.MustTLC(core.TLCOpts{Module: "MC_LdsView", Cfg: "MC_LdsView_life.cfg", Workers: 2, OnLine: func(line string) {
		if !strings.HasPrefix(line, "<<\"L\"") {
			return
		}
		v, err := core.ParseTLA(line)
		if err != nil {
			core.Infra("C19: %v", err)
		}
		var h []string
		for _, a := range v.([]any)[1].([]any) {
			h = append(h, core.Str(a))
		}
		hists = append(hists, h)
	}})
	_ = lr
	if len(hists) < 50 {
		core.Infra("C19: only %d life-cycle behaviours", len(hists))
	}
	nDocs := core.Pick(c, 3, 12)
	for di := 0; di < nDocs; di++ {
		rnd := rand.New(rand.NewSource(c.Seed*977 + int64(di)))
		raws := map[string][]byte{}
		for _, kind := range []string{"DG1", "DG2", "DG7", "DG11", "DG12", "DG13", "DG14", "DG15", "DG16", "COM", "SOD", "CardAccess"} {
			raw, err := lds.Encode(lds.RandomSpec(kind, rnd), lds.RandomOpts(rnd))
			if err != nil {
				core.Infra("C19: encode %s: %v", kind, err)
			}
			raws[kind] = raw
		}
		for _, h := range hists {
			c.Case(fmt.Sprintf("life/%d/%s", di, strings.Join(h, ",")), true)
			if msg := replayLife(h, raws); msg != "" {
				c.Violation("C19:life:"+strings.SplitN(msg, ":", 2)[0], fmt.Sprintf("behaviour %v: %s", h, msg), map[string]any{"behaviour": h, "files": hexMap(raws)})
			}
		}
	}
	c.AddTraces(int64(len(hists) * nDocs))
	c.Extra["life_behaviours"] = len(hists)
	c.Sample(map[string]any{"case": cases[0].name, "file": core.Hex(results[0].raw)})
	c.Sample(map[string]any{"case": cases[len(cases)/2].name, "file": core.Hex(results[len(cases)/2].raw)})
	c.Sample(map[string]any{"life_behaviour": hists[len(hists)-1]})
}

func asMap(x any) map[string]any {
	switch m := x.(type) {
	case lds.View:
		return m
	case map[string]any:
		return m
	}
	return map[string]any{}
}

func hasEfDir(s lds.FileSpec) bool {
	if s.SecurityInfos == nil {
		return false
	}
	for _, x := range s.SecurityInfos.Infos {
		if x.Type == "efDir" {
			return true
		}
	}
	return false
}

func jsonEq(a, b any) bool {
	x, _ := json.Marshal(a)
	y, _ := json.Marshal(b)
	return bytes.Equal(x, y)
}

func hexMap(m map[string][]byte) map[string]string {
	out := map[string]string{}
	for k, v := range m {
		out[k] = core.Hex(v)
	}
	return out
}

func buildDoc(bufs map[string][]byte) (*document.Document, error) {
	doc := &document.Document{}
	var err error
	for kind, b := range bufs {
		switch kind {
		case "COM":
			doc.Mf.Lds1.Com, err = document.NewCOM(b)
		case "SOD":
			doc.Mf.Lds1.Sod, err = document.NewSOD(b)
		case "CardAccess":
			doc.Mf.CardAccess, err = document.NewCardAccess(b)
		default:
			err = doc.NewDG(lds.KindDG(kind), b)
		}
		if err != nil {
			return nil, fmt.Errorf("%s: %w", kind, err)
		}
	}
	return doc, nil
}

// ownViewLaw: see the call site.
func ownViewLaw(kind string, raw []byte) string {
	buf := append([]byte(nil), raw...)
	var doc *document.Document
	var err error
	if kind == "CardSecurity" {
		doc = &document.Document{}
		doc.Mf.CardSecurity, err = document.NewCardSecurity(buf)
	} else {
		doc, err = buildDoc(map[string][]byte{kind: buf})
	}
	if err != nil {
		return ""
	}
	j0 := docJSON(doc)
	for i := range buf {
		buf[i] ^= 0xA5
	}
	if j1 := docJSON(doc); j1 != j0 {
		return "the parsed view changed when the caller overwrote the buffer it had passed to the constructor"
	}
	return ""
}

func docJSON(d *document.Document) string {
	b, err := json.Marshal(d)
	if err != nil {
		return "marshal error: " + err.Error()
	}
	ex := document.DocumentEx{Document: *d}
	s, _ := json.Marshal(gSummary(ex.Summary()))
	return string(b) + string(s)
}

func docRaws(d *document.Document) map[string][]byte {
	out := map[string][]byte{}
	l := &d.Mf.Lds1
	if l.Dg1 != nil {
		out["DG1"] = l.Dg1.RawData
	}
	if l.Dg2 != nil {
		out["DG2"] = l.Dg2.RawData
	}
	if l.Dg7 != nil {
		out["DG7"] = l.Dg7.RawData
	}
	if l.Dg11 != nil {
		out["DG11"] = l.Dg11.RawData
	}
	if l.Dg12 != nil {
		out["DG12"] = l.Dg12.RawData
	}
	if l.Dg13 != nil {
		out["DG13"] = l.Dg13.RawData
	}
	if l.Dg14 != nil {
		out["DG14"] = l.Dg14.RawData
	}
	if l.Dg15 != nil {
		out["DG15"] = l.Dg15.RawData
	}
	if l.Dg16 != nil {
		out["DG16"] = l.Dg16.RawData
	}
	if l.Com != nil {
		out["COM"] = l.Com.RawData
	}
	if l.Sod != nil {
		out["SOD"] = l.Sod.RawData
	}
	if d.Mf.CardAccess != nil {
		out["CardAccess"] = d.Mf.CardAccess.RawData
	}
	return out
}

// replayLife steps the real objects through one behaviour of LdsView.tla's life cycle and
// compares, after every action, the projection of the real state with the specification's:
// objRaw = "r0" (the object's raw bytes are the file), viewOf = objRaw (the view is the view of
// those bytes unless the caller edited its struct), import recomputes the view from the bytes.
func replayLife(h []string, raws map[string][]byte) string {
	bufs := map[string][]byte{}
	for k, v := range raws {
		bufs[k] = append([]byte(nil), v...)
	}
	var doc *document.Document
	var view0 string
	var blob []byte
	edited := false
	rawsOK := func(d *document.Document) string {
		got := docRaws(d)
		for k, v := range raws {
			if !bytes.Equal(got[k], v) {
				return k
			}
		}
		return ""
	}
	for _, a := range h {
		switch a {
		case "construct":
			d, err := buildDoc(bufs)
			if err != nil {
				return "construct: well-formed file rejected: " + err.Error()
			}
			doc = d
			view0 = docJSON(doc)
			// reference view of the same bytes, built from untouched copies
			ref, err := buildDoc(cloneBufs(raws))
			if err != nil || docJSON(ref) != view0 {
				return "construct: two constructions from equal bytes give different views"
			}
		case "scribble":
			for _, b := range bufs {
				for i := range b {
					b[i] ^= 0xA5
				}
			}
			if k := rawsOK(doc); k != "" {
				return "scribble: the raw bytes held by the " + k + " object changed when the caller overwrote its buffer"
			}
			if !edited && docJSON(doc) != view0 {
				return "scribble: the parsed view changed when the caller overwrote its buffer"
			}
		case "edit":
			edited = true
			l := &doc.Mf.Lds1
			l.Dg1.Mrz.DocumentNumber = "EDITED"
			if l.Dg11.Details.NameOfHolder != nil {
				l.Dg11.Details.NameOfHolder.Primary = "EDITED"
			}
			l.Dg11.Details.PersonalNumber = "EDITED"
			l.Dg2.Images = nil
			l.Dg12.Details.IssuingAuthority = "EDITED"
			if k := rawsOK(doc); k != "" {
				return "edit: raw bytes of " + k + " changed"
			}
		case "reconstruct":
			d, err := buildDoc(cloneBufs(docRaws(doc)))
			if err != nil {
				return "reconstruct: " + err.Error()
			}
			if docJSON(d) != view0 {
				return "reconstruct: construction from the object's raw bytes gives another view"
			}
			doc, edited = d, false
		case "export":
			ex := document.DocumentEx{Document: *doc}
			b, err := ex.ToCbor()
			if err != nil {
				return "export: " + err.Error()
			}
			blob = b
		case "import":
			d, _, err := document.UnmarshalVerifiableDoc(blob)
			if err != nil {
				return "import: " + err.Error()
			}
			if k := rawsOK(d); k != "" {
				return "import: raw bytes of " + k + " differ from the file"
			}
			if docJSON(d) != view0 {
				return "import: the imported view is not the view of the raw bytes (edits to the parsed struct survived, or the view was not recomputed)"
			}
			doc, edited = d, false
		default:
			core.Infra("C19: unknown life-cycle action %q", a)
		}
	}
	return ""
}

func cloneBufs(m map[string][]byte) map[string][]byte {
	out := map[string][]byte{}
	for k, v := range m {
		out[k] = append([]byte(nil), v...)
	}
	return out
}
