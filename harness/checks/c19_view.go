package checks

// Projection of gmrtd's parsed structs to the normalised lds.View (C19). The projection copies
// values; it does not decode anything (the one exception is the unused-bit count of a BIT
// STRING, derived from asn1.BitString.BitLength).

import (
	"fmt"
	"strings"
	"math/big"

	"github.com/gmrtd/gmrtd/cms"
	"github.com/gmrtd/gmrtd/document"
	"github.com/gmrtd/gmrtd/mrz"

	"verif/harness/lds"
)

func gName(n *mrz.MrzName) lds.View {
	v := lds.View{"primary": n.Primary}
	if n.Secondary != "" {
		v["secondary"] = n.Secondary
	}
	return v
}

func gNames(ns []mrz.MrzName) []any {
	out := make([]any, len(ns))
	for i := range ns {
		out[i] = gName(&ns[i])
	}
	return out
}

func gStr(v lds.View, key, s string) {
	if s != "" {
		v[key] = s
	}
}

func gList(v lds.View, key string, l []string) {
	if len(l) > 0 {
		lds.Put(v, key, l)
	}
}

func gBig(v lds.View, key string, b *big.Int) {
	if b != nil {
		v[key] = b.Int64()
	}
}

func gAlg(a cms.AlgorithmIdentifier) lds.View {
	v := lds.View{"algorithm": a.Algorithm.String()}
	if len(a.Parameters.FullBytes) > 0 {
		v["parameters"] = lds.Hx(a.Parameters.FullBytes)
	}
	return v
}

func gSecInfos(s *document.SecurityInfos) lds.View {
	out := lds.View{}
	app := func(key string, v lds.View) {
		l, _ := out[key].([]any)
		out[key] = append(l, v)
	}
	for _, x := range s.PaceInfos {
		v := lds.View{"protocol": x.Protocol.String(), "version": x.Version}
		gBig(v, "parameterId", x.ParameterId)
		app("paceInfos", v)
	}
	for _, x := range s.PaceDomainParamInfos {
		v := lds.View{"protocol": x.Protocol.String(), "domainParameter": gAlg(x.DomainParameter)}
		gBig(v, "parameterId", x.ParameterId)
		app("paceDomainParameterInfos", v)
	}
	for _, x := range s.ActiveAuthInfos {
		app("activeAuthenticationInfos", lds.View{"protocol": x.Protocol.String(), "version": x.Version, "signatureAlgorithm": x.SignatureAlgorithm.String()})
	}
	for _, x := range s.ChipAuthInfos {
		v := lds.View{"protocol": x.Protocol.String(), "version": x.Version}
		gBig(v, "keyId", x.KeyId)
		app("chipAuthenticationInfos", v)
	}
	for _, x := range s.ChipAuthPubKeyInfos {
		k := x.ChipAuthenticationPublicKey
		v := lds.View{"protocol": x.Protocol.String(), "chipAuthenticationPublicKey": lds.View{"algorithm": gAlg(k.Algorithm),
			"subjectPublicKey": lds.Hx(k.SubjectPublicKey.Bytes), "unusedBits": len(k.SubjectPublicKey.Bytes)*8 - k.SubjectPublicKey.BitLength}}
		gBig(v, "keyId", x.KeyId)
		app("chipAuthenticationPublicKeyInfos", v)
	}
	for _, x := range s.TermAuthInfos {
		// gmrtd's TerminalAuthenticationInfo has no efCVCA member: nothing to project
		app("terminalAuthenticationInfos", lds.View{"protocol": x.Protocol.String(), "version": x.Version})
	}
	for _, x := range s.EfDirInfos {
		app("efDirInfos", lds.View{"protocol": x.Protocol.String(), "efDir": lds.Hx(x.EFDir)})
	}
	for _, x := range s.UnhandledInfos {
		app("unknownInfos", lds.View{"protocol": x.Protocol.String(), "raw": lds.Hx(x.Raw)})
	}
	return lds.SortSecurityInfoLists(out)
}

func gDG2(d *document.DG2) lds.View {
	imgs := []any{}
	for _, im := range d.Images {
		imgs = append(imgs, lds.Hx(im.Image))
	}
	var tv []any
	for _, b := range d.BITs {
		hv := lds.View{}
		for key, val := range map[string][]byte{"icaoHeaderVersion": b.BHT.IcaoHeaderVersion, "biometricType": b.BHT.BiometricType,
			"biometricSubType": b.BHT.BiometricSubType, "creationDateTime": b.BHT.CreationDateTime, "validityPeriod": b.BHT.ValidityPeriod,
			"pid": b.BHT.PID, "formatOwner": b.BHT.FormatOwner, "formatType": b.BHT.FormatType} {
			if len(val) > 0 { // a missing element reads as an empty value in gmrtd
				hv[key] = lds.Hx(val)
			}
		}
		x := lds.View{"header": hv}
		if f := b.BDB.Iso19794; f != nil {
			var faces []any
			for _, im := range f.Facial.Images {
				fi, ii := im.FacialInformation, im.ImageInformation
				fps := []any{}
				for _, p := range im.Features {
					fps = append(fps, lds.View{"type": p.Type, "majorPoint": p.MajorPoint, "minorPoint": p.MinorPoint, "x": p.X, "y": p.Y})
				}
				faces = append(faces, lds.View{
					"blockLength": fi.Length, "numberOfFeaturePoints": fi.NumberOfPoints, "gender": fi.Gender, "eyeColour": fi.EyeColor,
					"hairColour": fi.HairColor, "featureMask": lds.Hx(fi.Properties[:]), "expression": lds.Hx(fi.Expression[:]), "pose": lds.Hx(fi.Pose[:]),
					"poseUncertainty": lds.Hx(fi.PoseUncertainty[:]), "featurePoints": fps,
					"faceImageType": ii.Type, "imageDataType": ii.DataType, "width": ii.Width, "height": ii.Height, "colourSpace": ii.ColorSpace,
					"sourceType": ii.SourceType, "deviceType": ii.DeviceType, "quality": ii.Quality, "image": lds.Hx(im.Data),
				})
			}
			h := f.Facial.Header
			x["encoding"] = "iso19794"
			x["iso19794"] = lds.View{"formatId": lds.Hx(h.FormatID[:]), "versionId": lds.Hx(h.VersionID[:]), "recordLength": h.RecordLength, "numberOfFaces": h.NumberOfFaces, "faces": faces}
		}
		if f := b.BDB.Iso39794; f != nil {
			var reps []any
			for _, r := range f.FaceImageDataBlock.RepresentationBlocks {
				b2 := r.ImageRepresentation.Base.ImageRepresentation2DBlock
				inf := b2.ImageInformation2DBlock
				rv := lds.View{"representationId": r.RepresentationId, "image": lds.Hx(b2.RepresentationData2D), "imageDataFormat": lds.Hx(inf.ImageDataFormat.Raw),
					"imageSize":       lds.View{"width": inf.ImageSizeBlock.Width, "height": inf.ImageSizeBlock.Height},
					"captureDateTime": lds.View{"year": r.CaptureDateTimeBlock.Year, "month": r.CaptureDateTimeBlock.Month, "day": r.CaptureDateTimeBlock.Day, "hour": r.CaptureDateTimeBlock.Hour, "minute": r.CaptureDateTimeBlock.Minute, "second": r.CaptureDateTimeBlock.Second, "millisecond": r.CaptureDateTimeBlock.Millisecond},
					"sessionId":       r.SessionId, "derivedFrom": r.DerivedFrom}
				if len(inf.FaceImageKind2D.Raw) > 0 {
					rv["faceImageKind2D"] = lds.Hx(inf.FaceImageKind2D.Raw)
				}
				if len(inf.ImageColourSpace.Raw) > 0 {
					rv["imageColourSpace"] = lds.Hx(inf.ImageColourSpace.Raw)
				}
				reps = append(reps, rv)
			}
			x["encoding"] = "iso39794"
			x["iso39794"] = lds.View{"generation": f.FaceImageDataBlock.VersionBlock.Generation, "year": f.FaceImageDataBlock.VersionBlock.Year, "representations": reps}
		}
		tv = append(tv, x)
	}
	return lds.View{"images": imgs, "templates": tv}
}

func gPersons(ps []document.PersonToNotify) []any {
	var out []any
	for _, p := range ps {
		pv := lds.View{"dateRecorded": p.DateRecorded, "telephone": p.Telephone}
		if p.Name != nil {
			pv["name"] = gName(p.Name)
		}
		lds.Put(pv, "address", p.Address)
		out = append(out, pv)
	}
	return out
}

func gmrtdView(kind string, raw []byte) (lds.View, error) {
	switch kind {
	case "DG1":
		d, err := document.NewDG1(raw)
		if err != nil {
			return nil, err
		}
		m := d.Mrz
		v := lds.View{"mrz": d.RawMrz, "format": map[int]string{90: "TD1", 72: "TD2", 88: "TD3"}[len(d.RawMrz)], "documentCode": m.DocumentCode,
			"issuingState": m.IssuingState, "name": gName(m.NameOfHolder), "documentNumber": m.DocumentNumber, "nationality": m.Nationality,
			"dateOfBirth": m.DateOfBirth, "sex": m.Sex, "dateOfExpiry": m.DateOfExpiry, "optionalData": m.OptionalData}
		if len(d.RawMrz) == 90 {
			v["optionalData2"] = m.OptionalData2
		}
		return v, nil
	case "DG2":
		d, err := document.NewDG2(raw)
		if err != nil {
			return nil, err
		}
		return gDG2(d), nil
	case "DG7":
		d, err := document.NewDG7(raw)
		if err != nil {
			return nil, err
		}
		imgs := []any{}
		for _, im := range d.Images {
			imgs = append(imgs, lds.Hx(im.Image))
		}
		return lds.View{"images": imgs}, nil
	case "DG11":
		d, err := document.NewDG11(raw)
		if err != nil {
			return nil, err
		}
		p := d.Details
		v := lds.View{}
		if p.NameOfHolder != nil {
			v["nameOfHolder"] = gName(p.NameOfHolder)
		}
		if len(p.OtherNames) > 0 {
			v["otherNames"] = gNames(p.OtherNames)
		}
		gStr(v, "personalNumber", p.PersonalNumber)
		gStr(v, "fullDateOfBirth", p.FullDateOfBirth)
		gList(v, "placeOfBirth", p.PlaceOfBirth)
		gList(v, "address", p.Address)
		gStr(v, "telephone", p.Telephone)
		gStr(v, "profession", p.Profession)
		gStr(v, "title", p.Title)
		gStr(v, "personalSummary", p.PersonalSummary)
		if len(p.ProofOfCitizenship) > 0 {
			v["proofOfCitizenship"] = lds.Hx(p.ProofOfCitizenship)
		}
		gList(v, "otherValidTDNumbers", p.OtherTravelDocuments)
		gStr(v, "custodyInformation", p.CustodyInformation)
		return v, nil
	case "DG12":
		d, err := document.NewDG12(raw)
		if err != nil {
			return nil, err
		}
		p := d.Details
		v := lds.View{}
		gStr(v, "issuingAuthority", p.IssuingAuthority)
		gStr(v, "dateOfIssue", p.DateOfIssue)
		if len(p.OtherPersons) > 0 {
			v["otherPersons"] = gNames(p.OtherPersons)
		}
		gStr(v, "endorsementsAndObservations", p.EndorsementsAndObservations)
		gStr(v, "taxExitRequirements", p.TaxExitRequirements)
		if len(p.ImageFront) > 0 {
			v["imageFront"] = lds.Hx(p.ImageFront)
		}
		if len(p.ImageRear) > 0 {
			v["imageRear"] = lds.Hx(p.ImageRear)
		}
		gStr(v, "dateTimeOfPersonalization", p.PersoDateTime)
		gStr(v, "personalizationSystemSerialNumber", p.PersoSystemSerialNumber)
		return v, nil
	case "DG13":
		d, err := document.NewDG13(raw)
		if err != nil {
			return nil, err
		}
		return lds.View{"content": lds.Hx(d.Content)}, nil
	case "DG14":
		d, err := document.NewDG14(raw)
		if err != nil {
			return nil, err
		}
		return lds.View{"securityInfos": gSecInfos(d.SecInfos)}, nil
	case "DG15":
		d, err := document.NewDG15(raw)
		if err != nil {
			return nil, err
		}
		return lds.View{"subjectPublicKeyInfo": lds.Hx(d.SubjectPublicKeyInfoBytes)}, nil
	case "DG16":
		d, err := document.NewDG16(raw)
		if err != nil {
			return nil, err
		}
		return lds.View{"personsToNotify": gPersons(d.PersonsToNotify)}, nil
	case "COM":
		d, err := document.NewCOM(raw)
		if err != nil {
			return nil, err
		}
		tl := make([]any, len(d.TagList))
		for i, t := range d.TagList {
			tl[i] = int(t)
		}
		return lds.View{"ldsVersion": d.LdsVersion, "unicodeVersion": d.UnicodeVersion, "tagList": lds.SortedNums(tl)}, nil
	case "SOD":
		d, err := document.NewSOD(raw)
		if err != nil {
			return nil, err
		}
		o := d.LdsSecurityObject
		var hashes []any
		for _, h := range o.DataGroupHashValues {
			hashes = append(hashes, lds.View{"dataGroupNumber": h.DataGroupNumber, "dataGroupHashValue": lds.Hx(h.DataGroupHashValue)})
		}
		lso := lds.View{"version": o.Version, "hashAlgorithm": gAlg(o.HashAlgorithm), "dataGroupHashValues": hashes}
		if o.LdsVersionInfo.LdsVersion != "" || o.LdsVersionInfo.UnicodeVersion != "" {
			lso["ldsVersionInfo"] = lds.View{"ldsVersion": o.LdsVersionInfo.LdsVersion, "unicodeVersion": o.LdsVersionInfo.UnicodeVersion}
		}
		return lds.View{"eContentType": d.SD.Content.EContentType.String(), "ldsSecurityObject": lso}, nil
	case "CardAccess":
		d, err := document.NewCardAccess(raw)
		if err != nil {
			return nil, err
		}
		return lds.View{"securityInfos": gSecInfos(d.SecurityInfos)}, nil
	case "CardSecurity":
		d, err := document.NewCardSecurity(raw)
		if err != nil {
			return nil, err
		}
		return lds.View{"eContentType": d.SD.Content.EContentType.String(), "securityInfos": gSecInfos(d.SecurityInfos)}, nil
	}
	return nil, fmt.Errorf("unknown kind %s", kind)
}

// ---------------------------------------------------------------------------------------
// Known discrepancies between gmrtd's view and the reference reading of the standard. Each
// entry matches lines of Diff(reference, gmrtd) (or a constructor error) for one kind. The
// tests pass while these are the only differences, and log how often each was hit with one
// reproduction. Anything else fails the test.
// ---------------------------------------------------------------------------------------

func gSummary(s *document.DocumentSummary) lds.View {
	a := s.IdentityAttributes
	v := lds.View{}
	gStr(v, "documentCode", a.DocumentCode)
	if a.IssuingState != nil {
		gStr(v, "issuingState", a.IssuingState.Alpha3)
	}
	gStr(v, "documentNumber", a.DocumentNumber)
	if a.Nationality != nil {
		gStr(v, "nationality", a.Nationality.Alpha3)
	}
	gStr(v, "sex", a.Sex)
	if a.Name != nil {
		v["name"] = gName(a.Name)
	}
	if a.NameMrzRaw != nil {
		v["nameMrzRaw"] = gName(a.NameMrzRaw)
	}
	if len(a.OtherNames) > 0 {
		v["otherNames"] = gNames(a.OtherNames)
	}
	gStr(v, "dateOfBirth", a.DateOfBirth)
	gStr(v, "dateOfBirthMrzRaw", a.DateOfBirthMrzRaw)
	gStr(v, "dateOfBirthDg11Raw", a.DateOfBirthDg11Raw)
	gStr(v, "dateOfExpiryMrzRaw", a.DateOfExpiryMrzRaw)
	gList(v, "placeOfBirth", a.PlaceOfBirth)
	gList(v, "address", a.Address)
	gStr(v, "telephone", a.Telephone)
	gStr(v, "profession", a.Profession)
	gStr(v, "title", a.Title)
	gStr(v, "personalNumber", a.PersonalNumber)
	gStr(v, "mrzOptionalData", a.MrzOptionalData)
	gStr(v, "mrzOptionalData2", a.MrzOptionalData2)
	gStr(v, "issuingAuthority", a.IssuingAuthority)
	gStr(v, "dateOfIssue", a.DateOfIssue)
	var faces, sigs, faceF, sigF []any
	for _, im := range a.FaceImages {
		faces = append(faces, lds.Hx(im.Data))
		faceF = append(faceF, string(im.Format))
	}
	for _, im := range a.SignatureImages {
		sigs = append(sigs, lds.Hx(im.Data))
		sigF = append(sigF, string(im.Format))
	}
	if len(faces) > 0 {
		v["faceImages"] = faces
		v["faceImageFormats"] = faceF
	}
	if len(sigs) > 0 {
		v["signatureImages"] = sigs
		v["signatureImageFormats"] = sigF
	}
	if a.DocumentImageFront != nil {
		v["documentImageFront"] = lds.Hx(a.DocumentImageFront.Data)
		v["documentImageFrontFormat"] = string(a.DocumentImageFront.Format)
	}
	if a.DocumentImageRear != nil {
		v["documentImageRear"] = lds.Hx(a.DocumentImageRear.Data)
		v["documentImageRearFormat"] = string(a.DocumentImageRear.Format)
	}
	if len(a.PersonsToNotify) > 0 {
		v["personsToNotify"] = gPersons(a.PersonsToNotify)
	}
	gStr(v, "ldsVersion", s.LdsVersion)
	gStr(v, "unicodeVersion", s.UnicodeVersion)
	return v
}

// imageFormats adds to a reference summary the media type of every image it lists, decided on the image's own first
// octets (ISO/IEC 10918-1 SOI + marker: image/jpeg; ISO/IEC 15444-1 signature box or SOC + SIZ codestream: image/jp2).
func imageFormats(want lds.View) {
	f := func(x any) string {
		h := strings.ToLower(fmt.Sprint(x))
		switch {
		case strings.HasPrefix(h, "ffd8ff"):
			return "image/jpeg"
		case strings.HasPrefix(h, "ff4fff51"), strings.HasPrefix(h, "0000000c6a5020200d0a870a"):
			return "image/jp2"
		}
		return ""
	}
	list := func(key, out string) {
		if l, ok := want[key].([]any); ok && len(l) > 0 {
			var fs []any
			for _, x := range l {
				fs = append(fs, f(x))
			}
			want[out] = fs
		}
	}
	list("faceImages", "faceImageFormats")
	list("signatureImages", "signatureImageFormats")
	for _, k := range []string{"documentImageFront", "documentImageRear"} {
		if x, ok := want[k]; ok && x != nil && fmt.Sprint(x) != "" {
			want[k+"Format"] = f(x)
		}
	}
}
