package checks

import (
	"github.com/gmrtd/gmrtd/cms"
	"github.com/gmrtd/gmrtd/verifier"
)

func verifierNew(pool cms.CertPool) *verifier.Verifier { return verifier.NewVerifier(pool) }
