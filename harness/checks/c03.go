package checks

import (
	"bytes"
	"fmt"
	"math/big"
	"math/rand"
	"strings"

	"github.com/gmrtd/gmrtd/iso7816"

	"verif/harness/chipsim"
	"verif/harness/core"
	"verif/harness/link"
	"verif/harness/sim"
)

func init() { Registry["C03"] = C03 }

// ---- one abstract behaviour of SM.tla (the history variable) ------------------------------------

type smMove struct {
	Name string
	I, X int
}

type smStep struct {
	Ex        int
	CmdMove   string
	ChipAcc   bool
	ChipData  int
	ChipSw    int
	RespMove  smMove
	RetOK     bool
	RetData   int
	RetSw     int
	TSsc      int
	CSsc      int
	CAlive    bool
	Authentic bool
}

func parseSmHist(v any) []smStep {
	var out []smStep
	for _, e := range v.([]any) {
		m := e.(map[string]any)
		chip := m["chip"].(map[string]any)
		rm := m["respMove"].(map[string]any)
		ret := m["ret"].(map[string]any)
		out = append(out, smStep{Ex: m["ex"].(int), CmdMove: core.Str(m["cmdMove"]), ChipAcc: chip["acc"].(bool), ChipData: chip["data"].(int), ChipSw: chip["sw"].(int),
			RespMove: smMove{core.Str(rm["name"]), rm["i"].(int), rm["x"].(int)}, RetOK: ret["ok"].(bool), RetData: ret["data"].(int), RetSw: ret["sw"].(int),
			TSsc: m["tSsc"].(int), CSsc: m["cSsc"].(int), CAlive: m["cAlive"].(bool), Authentic: m["authentic"].(bool)})
	}
	return out
}

func (s smStep) String() string {
	return fmt.Sprintf("ex%d cmd=%s chip=(%v,%d,%04X) resp=%s(%d,%04X) => ok=%v data=%d sw=%04X tSsc=%d", s.Ex, s.CmdMove, s.ChipAcc, s.ChipData, s.ChipSw, s.RespMove.Name, s.RespMove.I, s.RespMove.X, s.RetOK, s.RetData, s.RetSw, s.TSsc)
}

// ---- concrete replay ---------------------------------------------------------------------------

type smReplay struct {
	suite    sim.Suite
	rnd      *rand.Rand
	s        *sim.Session
	dataFor  map[int][]byte
	cur      struct{ data, sw int } // chip choice of the current exchange
	seen     [][]byte               // protected responses the chip produced, in order
	otherEnc []byte
	otherMac []byte
	modBits  int
}

func sscAdd(ssc []byte, n int64) []byte {
	mod := new(big.Int).Lsh(big.NewInt(1), uint(8*len(ssc)))
	v := new(big.Int).SetBytes(ssc)
	v.Add(v, big.NewInt(n))
	v.Mod(v, mod)
	out := make([]byte, len(ssc))
	v.FillBytes(out)
	return out
}

// sscOffset returns (ssc - base) mod 2^n as an int64 if it is small, else -1.
func sscOffset(ssc, base []byte) int64 {
	if len(ssc) != len(base) {
		return -1
	}
	mod := new(big.Int).Lsh(big.NewInt(1), uint(8*len(ssc)))
	v := new(big.Int).Sub(new(big.Int).SetBytes(ssc), new(big.Int).SetBytes(base))
	v.Mod(v, mod)
	if v.BitLen() > 40 {
		return -1
	}
	return v.Int64()
}

func newSmReplay(suite sim.Suite, seed int64, ssc0 []byte) *smReplay {
	r := &smReplay{suite: suite, rnd: rand.New(rand.NewSource(seed)), dataFor: map[int][]byte{}}
	for id, n := range map[int]int{1: 5, 2: 21, 3: 16, 4: 1} {
		b := make([]byte, n)
		r.rnd.Read(b)
		r.dataFor[id] = b
	}
	cfg := chipsim.Config{Transport: chipsim.Transport{ExtendedLength: true, DO85PaddingIndicator: true}, Rand: r.rnd}
	cfg.Handler = func(cmd chipsim.PlainCmd) ([]byte, uint16, bool) {
		return r.dataFor[r.cur.data], uint16(r.cur.sw), true
	}
	chip, err := chipsim.New(cfg)
	if err != nil {
		core.Infra("chipsim.New: %v", err)
	}
	r.s = sim.NewPlain(chip)
	if err := r.s.InstallSM(suite, r.rnd, ssc0); err != nil {
		core.Infra("InstallSM: %v", err)
	}
	r.otherEnc = make([]byte, suite.KeyLen)
	r.otherMac = make([]byte, suite.KeyLen)
	r.rnd.Read(r.otherEnc)
	r.rnd.Read(r.otherMac)
	return r
}

// splitDOs parses the data field of a protected response into raw data objects.
func splitDOs(body []byte) ([][]byte, bool) {
	tl, err := chipsim.ParseTLVs(body)
	if err != nil {
		return nil, false
	}
	var out [][]byte
	for _, t := range tl {
		out = append(out, append([]byte{}, t.Raw...))
	}
	return out, true
}

func joinDOs(dos [][]byte, sw []byte) []byte {
	var out []byte
	for _, d := range dos {
		out = append(out, d...)
	}
	return append(out, sw...)
}

func swBytes(x int) []byte { return []byte{byte(x >> 8), byte(x)} }

// applyMove concretises an abstract response move (DESIGN.md Appendix B).
func (r *smReplay) applyMove(mv smMove, genuine []byte) []byte {
	var body, sw []byte
	var dos [][]byte
	if len(genuine) >= 2 {
		body, sw = genuine[:len(genuine)-2], genuine[len(genuine)-2:]
		dos, _ = splitDOs(body)
	}
	at := func(i int) int { return i - 1 }
	switch mv.Name {
	case "pass":
		return genuine
	case "short":
		if r.rnd.Intn(2) == 0 {
			return []byte{}
		}
		return []byte{0x90}
	case "garbage":
		return []byte{0x87, 0x05, 0x01, 0x90, 0x00}
	case "naked":
		return swBytes(mv.X)
	case "replay":
		return append([]byte{}, r.seen[mv.I-1]...)
	case "cross":
		// a well-formed response of another session at the counter the terminal expects next
		ssc := sscAdd(r.s.SM.SSC(), 1)
		out, err := chipsim.ProtectResponse(r.suite.Cipher, r.otherEnc, r.otherMac, ssc, false, r.dataFor[mv.I], uint16(mv.X))
		if err != nil {
			core.Infra("ProtectResponse: %v", err)
		}
		return out
	case "outersw":
		return append(append([]byte{}, body...), swBytes(mv.X)...)
	case "doval":
		d := append([]byte{}, dos[at(mv.I)]...)
		if d[0] == 0x99 {
			copy(d[2:], swBytes(mv.X))
		} else {
			d[len(d)-1-r.rnd.Intn(len(d)-2)] ^= 1 << uint(r.rnd.Intn(8)) // some bit of the value
		}
		nd := append([][]byte{}, dos...)
		nd[at(mv.I)] = d
		return joinDOs(nd, sw)
	case "both":
		d := append([]byte{}, dos[at(mv.I)]...)
		copy(d[2:], swBytes(mv.X))
		nd := append([][]byte{}, dos...)
		nd[at(mv.I)] = d
		return joinDOs(nd, swBytes(mv.X))
	case "drop":
		nd := append(append([][]byte{}, dos[:at(mv.I)]...), dos[at(mv.I)+1:]...)
		return joinDOs(nd, sw)
	case "dup":
		nd := append([][]byte{}, dos[:at(mv.I)]...)
		nd = append(nd, dos[at(mv.I)], dos[at(mv.I)])
		nd = append(nd, dos[at(mv.I)+1:]...)
		return joinDOs(nd, sw)
	case "swap":
		nd := append([][]byte{}, dos...)
		nd[at(mv.I)], nd[at(mv.I)+1] = nd[at(mv.I)+1], nd[at(mv.I)]
		return joinDOs(nd, sw)
	case "extra":
		nd := append([][]byte{}, dos[:at(mv.I)]...)
		nd = append(nd, []byte{0x80, 0x01, 0xAA})
		nd = append(nd, dos[at(mv.I):]...)
		return joinDOs(nd, sw)
	case "forge87", "forge85":
		// an unauthenticated cryptogram object with junk (I = 0) or with the value of the DO'87' of the earlier response
		// seen[I], in front of the untouched genuine objects (X = 0) or behind them, after DO'8E' (X = 1). For DO'85' the
		// value keeps the padding-content indicator (how the library reads a DO'85'); without it in every third case.
		tag := byte(0x87)
		if mv.Name == "forge85" {
			tag = 0x85
		}
		var val []byte
		if mv.I == 0 {
			val = make([]byte, 1+r.suite.SscLen)
			r.rnd.Read(val)
			val[0] = 0x01
		} else {
			old := r.seen[mv.I-1]
			if len(old) >= 2 {
				if od, ok := splitDOs(old[:len(old)-2]); ok {
					for _, d := range od {
						if d[0] == 0x87 {
							if tl, err := chipsim.ParseTLVs(d); err == nil && len(tl) == 1 && len(tl[0].Value) > 1 {
								val = append([]byte{}, tl[0].Value...)
								if tag == 0x85 && r.rnd.Intn(3) == 0 {
									val = val[1:]
								}
							}
						}
					}
				}
			}
			if val == nil {
				core.Infra("%s: response %d has no DO'87'", mv.Name, mv.I)
			}
		}
		var f []byte
		switch {
		case len(val) < 128:
			f = append([]byte{tag, byte(len(val))}, val...)
		case len(val) < 256:
			f = append([]byte{tag, 0x81, byte(len(val))}, val...)
		default:
			f = append([]byte{tag, 0x82, byte(len(val) >> 8), byte(len(val))}, val...)
		}
		var nd [][]byte
		if mv.X == 0 {
			nd = append([][]byte{f}, dos...)
		} else {
			nd = append(append([][]byte{}, dos...), f)
		}
		return joinDOs(nd, sw)
	}
	core.Infra("unknown move %q", mv.Name)
	return nil
}

type smObserved struct {
	ok       bool
	dataID   int // id of the delivered data, 0 none, -1 unknown bytes
	sw       int
	tOff     int64
	chipProc bool // the chip executed this exchange's command
	chipData int
	chipSw   int
	cOff     int64
	cAlive   bool
	errText  string
	intended *iso7816.CApdu
}

// exchange performs one real DoAPDU under the scripted moves.
func (r *smReplay) exchange(st smStep, capdu *iso7816.CApdu) smObserved {
	r.cur.data, r.cur.sw = st.ChipData, st.ChipSw
	before := len(r.s.Chip.Truth().Accepted)
	r.s.Link.Script = func(idx int, cmd []byte, l *link.Link) link.Action {
		a := link.Action{Name: st.CmdMove + "/" + st.RespMove.Name}
		switch st.CmdMove {
		case "alter":
			a.AlterCmd = func(c []byte) []byte {
				// flip one bit of the MAC (the last 8 octets before the Le field)
				p := len(c) - 2 - r.rnd.Intn(8)
				if p < 5 {
					p = len(c) - 2
				}
				c[p] ^= 0x01
				return c
			}
		case "withhold":
			a.Withhold = true
		}
		a.Respond = func(genuine []byte, l *link.Link) []byte {
			if genuine != nil && len(genuine) > 2 && !a.Withhold {
				// a protected response the chip produced: the adversary has seen it
				if acc := r.s.Chip.Truth().Accepted; len(acc) > before {
					r.seen = append(r.seen, append([]byte{}, genuine...))
				}
			}
			return r.applyMove(st.RespMove, genuine)
		}
		return a
	}
	var ob smObserved
	func() {
		defer func() {
			if p := recover(); p != nil {
				ob.errText = fmt.Sprintf("panic: %v", p)
			}
		}()
		ra, err := r.s.Nfc.DoAPDU(capdu, "x")
		if err != nil {
			ob.errText = err.Error()
			return
		}
		ob.ok = true
		ob.sw = int(ra.Status)
		ob.dataID = -1
		if len(ra.Data) == 0 {
			ob.dataID = 0
		}
		for id, d := range r.dataFor {
			if bytes.Equal(ra.Data, d) {
				ob.dataID = id
			}
		}
	}()
	ob.tOff = sscOffset(r.s.SM.SSC(), r.s.Ssc0)
	tr := r.s.Chip.Truth()
	if len(tr.Accepted) > before {
		a := tr.Accepted[len(tr.Accepted)-1]
		ob.chipProc, ob.chipData, ob.chipSw = true, st.ChipData, int(a.SW)
		if a.RespLen == 0 {
			ob.chipData = 0
		}
	}
	ob.cAlive = tr.SM.Alive
	if tr.SM.Alive {
		ob.cOff = sscOffset(tr.SM.SSC, r.s.Ssc0)
	}
	return ob
}

func wrapSsc0(sscLen int, kind int, rnd *rand.Rand) []byte {
	b := make([]byte, sscLen)
	switch kind % 4 {
	case 1:
		rnd.Read(b)
		if rnd.Intn(3) != 0 {
			// a carry across k low-order octets inside the run (the counter is ONE big-endian number of
			// sscLen octets: 8 for 3DES, 16 for AES), the octet above them not FF so that the carry stops there
			k := 1 + rnd.Intn(sscLen-1)
			for i := sscLen - k; i < sscLen; i++ {
				b[i] = 0xFF
			}
			b[sscLen-1] = 0xFD + byte(rnd.Intn(2))
			if b[sscLen-k-1] == 0xFF {
				b[sscLen-k-1] = 0x7F
			}
		}
	case 2: // wrap inside the run
		for i := range b {
			b[i] = 0xFF
		}
		b[sscLen-1] = 0xFD
	case 3:
		for i := range b {
			b[i] = 0xFF
		}
		b[sscLen-1] = 0xFE
	}
	return b
}

// C03 — secure messaging delivers only authenticated, in-sequence responses.
func C03(c *core.Ctx) {
	c.Rule = "one case per (adversary behaviour of SM.tla, cipher suite, initial counter) replayed exchange by exchange, plus one per recorded random history; non-trivial = contains at least one adversary move; distinct by behaviour + suite + counter kind"
	c.Assume("symbolic MAC/encryption in SM.tla (no collisions, no bit-level malleability); bit-level coverage comes from the byte-level concretisation of each move and the single-bit sweep")
	c.Assume("the chip side is harness/chipsim (9303-11 9.8: unprotected answer + session deletion on any secure-messaging error)")

	// design level
	c.MustTLC(core.TLCOpts{Module: "MC_SM", Cfg: "MC_SM_intended.cfg"})
	if r, err := c.TLC(core.TLCOpts{Module: "MC_SM", Cfg: "MC_SM_asbuilt.cfg"}); err != nil {
		core.Infra("%v", err)
	} else if r.OK {
		core.Infra("MC_SM_asbuilt: expected the roll-back / replay counterexample to Authentic, found none")
	}

	// behaviours of the as-built model, replayed into the real code
	var behaviours [][]smStep
	r := c.MustTLC(core.TLCOpts{Module: "MC_SM", Cfg: core.Pick(c, "MC_SM_enum_quick.cfg", "MC_SM_enum_full.cfg"), Timeout: 0})
	for _, line := range r.Lines {
		if !strings.HasPrefix(line, "<<\"B\"") {
			continue
		}
		v, err := core.ParseTLA(line)
		if err != nil {
			core.Infra("C03: %v", err)
		}
		behaviours = append(behaviours, parseSmHist(v.([]any)[1]))
	}
	if len(behaviours) == 0 {
		core.Infra("C03: no behaviours emitted")
	}
	c.Extra["behaviours_from_tlc"] = len(behaviours)
	suites := sim.Suites
	type job struct {
		b       int
		suite   sim.Suite
		sscKind int
		seed    int64
	}
	var jobs []job
	for i := range behaviours {
		if c.Thorough() {
			for si, su := range suites {
				jobs = append(jobs, job{i, su, i + si, c.Rand.Int63()})
			}
		} else {
			jobs = append(jobs, job{i, suites[i%len(suites)], i / len(suites), c.Rand.Int63()})
		}
	}
	drift := make([]int, len(jobs))
	core.ParallelFor(len(jobs), func(ji int) {
		j := jobs[ji]
		steps := behaviours[j.b]
		rnd := rand.New(rand.NewSource(j.seed))
		rp := newSmReplay(j.suite, j.seed, wrapSsc0(j.suite.SscLen, j.sscKind, rnd))
		adv := false
		nakedBefore := false
		desc := []string{}
		for _, st := range steps {
			desc = append(desc, st.String())
		}
		for k, st := range steps {
			if st.CmdMove != "pass" || st.RespMove.Name != "pass" {
				adv = true
			}
			capdu := iso7816.NewCApdu(0x00, []byte{0xB0, 0xA4, 0xCA, 0x88}[k%4], byte(k), byte(j.seed), []byte{1, 2, 3, 4, 5, 6, 7, 8, 9}[:(k*4)%9], 256)
			ob := rp.exchange(st, capdu)
			replay := map[string]any{"suite": j.suite.Name, "ssc0": core.Hex(rp.s.Ssc0), "behaviour": desc, "at_exchange": st.Ex, "seed": j.seed,
				"real": fmt.Sprintf("ok=%v data=%d sw=%04X tOff=%d chipProcessed=%v err=%s", ob.ok, ob.dataID, ob.sw, ob.tOff, ob.chipProc, ob.errText)}
			// (a) authenticity, decided on the real outcome against the chip's ground truth
			if ob.ok && !(ob.chipProc && ob.dataID == ob.chipData && ob.sw == ob.chipSw) {
				key := "C03:unauthentic-delivery"
				if nakedBefore && st.RespMove.Name == "replay" {
					key = "C03:replay-accepted-after-unprotected-response"
				}
				c.Violation(key, fmt.Sprintf("DoAPDU delivered data id %d status %04X at exchange %d; the chip produced (%v, %d, %04X) for that command [%s, ssc0 %x]: %s",
					ob.dataID, ob.sw, st.Ex, ob.chipProc, ob.chipData, ob.chipSw, j.suite.Name, rp.s.Ssc0, strings.Join(desc, " | ")), replay)
			} else if ob.ok && !st.RetOK {
				// (b) delivered (authentic data) where the specification's Decode must refuse
				c.Violation("C03:accepts-"+st.RespMove.Name, fmt.Sprintf("DoAPDU accepted a response the specification refuses (move %s) at exchange %d [%s]: %s", st.RespMove.Name, st.Ex, j.suite.Name, strings.Join(desc, " | ")), replay)
			} else if !ob.ok && st.RetOK && !adv {
				// (c) honest exchange not delivered (C10's subject, reported there too)
				c.Violation("C03:honest-exchange-fails", fmt.Sprintf("fault-free exchange %d failed: %s [%s]", st.Ex, ob.errText, j.suite.Name), replay)
			}
			if ob.ok != st.RetOK || (ob.tOff >= 0 && int(ob.tOff%16) != st.TSsc) || ob.tOff < 0 {
				drift[ji]++
			}
			if st.RespMove.Name == "naked" {
				nakedBefore = true
			}
		}
		c.Case(fmt.Sprintf("b%d/%s/%d", j.b, j.suite.Name, j.sscKind%4), adv)
	})
	totalDrift := 0
	for ji, d := range drift {
		if d > 0 {
			totalDrift++
			if totalDrift <= 3 {
				fmt.Printf("NOTE: C03: real outcome / counter differs from the as-built SM.tla on behaviour %d (%s) without violating the property\n", jobs[ji].b, jobs[ji].suite.Name)
			}
		}
	}
	c.Extra["replays_diverging_from_asbuilt_model"] = totalDrift
	c.AddTraces(int64(len(jobs)))
	for _, i := range []int{0, len(behaviours) / 2, len(behaviours) - 1} {
		d := []string{}
		for _, st := range behaviours[i] {
			d = append(d, st.String())
		}
		c.Sample(map[string]any{"behaviour": d})
	}

	// single-bit sweep: every bit of a genuine response of each shape must be authenticated
	c03BitSweep(c)
	// histories with a failed chip authentication in the middle (the session is re-keyed / abandoned there)
	c03AfterFailedCA(c)
}

// c03BitSweep flips every single bit of a genuine protected response (with and without data,
// success and error status) for every suite: the real DoAPDU must fail, or deliver exactly the
// genuine data and status.
func c03BitSweep(c *core.Ctx) {
	type shape struct{ data, sw int }
	shapes := []shape{{1, 0x9000}, {2, 0x9000}, {0, 0x9000}, {0, 0x6A82}, {3, 0x6282}}
	flips := 0
	for _, su := range sim.Suites {
		for _, sh := range shapes {
			// learn the response length once
			probe := newSmReplay(su, c.Rand.Int63(), nil)
			ob0 := probe.exchange(smStep{Ex: 1, CmdMove: "pass", ChipData: sh.data, ChipSw: sh.sw, RespMove: smMove{Name: "pass"}}, iso7816.NewCApdu(0, 0xB0, 0, 0, nil, 256))
			if !ob0.ok {
				c.Violation("C03:honest-exchange-fails", fmt.Sprintf("fault-free exchange failed: %s [%s]", ob0.errText, su.Name), map[string]any{"suite": su.Name})
				continue
			}
			n := len(probe.s.Link.Exchanges()[0].Resp)
			seed := c.Rand.Int63()
			stride := 1
			if !c.Thorough() && n*8 > 200 {
				stride = 3
			}
			for bit := 0; bit < n*8; bit += stride {
				rp := newSmReplay(su, seed, nil)
				b := bit
				rp.cur.data, rp.cur.sw = sh.data, sh.sw
				rp.s.Link.Script = func(idx int, cmd []byte, l *link.Link) link.Action {
					return link.Action{Name: "flip", Respond: func(g []byte, l *link.Link) []byte {
						g[b/8] ^= 1 << uint(b%8)
						return g
					}}
				}
				ra, err := rp.s.Nfc.DoAPDU(iso7816.NewCApdu(0, 0xB0, 0, 0, nil, 256), "x")
				flips++
				c.Case(fmt.Sprintf("flip/%s/%d/%04X/%d", su.Name, sh.data, sh.sw, bit), true)
				if err == nil && !(bytes.Equal(ra.Data, rp.dataFor[sh.data]) && int(ra.Status) == sh.sw) {
					c.Violation("C03:bit-flip-changes-delivery", fmt.Sprintf("flipping bit %d of a genuine response (%s, data id %d, status %04X) delivered data %x status %04X", bit, su.Name, sh.data, sh.sw, ra.Data, ra.Status),
						map[string]any{"suite": su.Name, "bit": bit, "data": sh.data, "sw": sh.sw, "seed": seed})
				}
			}
		}
	}
	c.Extra["single_bit_flips"] = flips
	// SM.tla's move "outersw" stands for ANY other outer status: every first status octet (and several second ones)
	// over a genuine protected response must be refused - Decode compares DO'99' with the outer status word.
	sweeps := 0
	for si, su := range sim.Suites {
		for hi, sh := range shapes {
			if !c.Thorough() && (hi+si)%2 == 1 {
				continue
			}
			seed := c.Rand.Int63()
			for sw1 := 0; sw1 < 256; sw1++ {
				for _, sw2 := range []int{sh.sw & 0xFF, 0x10, 0x00, 0xFF}[:core.Pick(c, 2, 4)] {
					osw := sw1<<8 | sw2
					if osw == sh.sw {
						continue
					}
					rp := newSmReplay(su, seed, nil)
					rp.cur.data, rp.cur.sw = sh.data, sh.sw
					rp.s.Link.Script = func(idx int, cmd []byte, l *link.Link) link.Action {
						return link.Action{Name: "outersw", Respond: func(g []byte, l *link.Link) []byte {
							g[len(g)-2], g[len(g)-1] = byte(osw>>8), byte(osw)
							return g
						}}
					}
					ra, err := rp.s.Nfc.DoAPDU(iso7816.NewCApdu(0, 0xB0, 0, 0, nil, 256), "x")
					sweeps++
					c.Case(fmt.Sprintf("outersw/%s/%d/%04X/%04X", su.Name, sh.data, sh.sw, osw), true)
					if err == nil {
						c.Violation("C03:accepts-outersw", fmt.Sprintf("a genuine response (%s, data id %d, protected status %04X) presented under the outer status %04X was delivered: data %x status %04X", su.Name, sh.data, sh.sw, osw, ra.Data, ra.Status),
							map[string]any{"suite": su.Name, "outer_sw": osw, "data": sh.data, "sw": sh.sw, "seed": seed})
					}
				}
			}
		}
	}
	c.Extra["outer_status_sweep"] = sweeps
	// "... and the protected status equals the outer status": a response WITHOUT a protected status has none that could
	// equal anything. Such a response cannot be made from a genuine one (the MAC covers DO'99'); a counterpart holding
	// the session keys can send it, and then the outer status is the link's to choose: must be refused.
	noStatus := 0
	for _, su := range sim.Suites {
		for _, sh := range []shape{{1, 0x9000}, {0, 0x9000}, {2, 0x6A82}} {
			for _, osw := range []int{0x9000, 0x6282, 0x6A82, 0x6300} {
				rp := newSmReplay(su, c.Rand.Int63(), nil)
				rp.cur.data, rp.cur.sw = sh.data, sh.sw
				rp.s.Link.Script = func(idx int, cmd []byte, l *link.Link) link.Action {
					return link.Action{Name: "no-do99", Respond: func(g []byte, l *link.Link) []byte {
						dos, ok := splitDOs(g[:len(g)-2])
						if !ok {
							return g
						}
						var kept []byte
						for _, d := range dos {
							if d[0] != 0x99 && d[0] != 0x8E {
								kept = append(kept, d...)
							}
						}
						tr := rp.s.Chip.Truth()
						out, err := chipsim.AuthenticateRaw(su.Cipher, tr.SM.KSmac, tr.SM.SSC, kept, uint16(osw))
						if err != nil {
							return g
						}
						return out
					}}
				}
				ra, err := rp.s.Nfc.DoAPDU(iso7816.NewCApdu(0, 0xB0, 0, 0, nil, 256), "x")
				noStatus++
				c.Case(fmt.Sprintf("no-do99/%s/%d/%04X/%04X", su.Name, sh.data, sh.sw, osw), true)
				if err == nil {
					c.Violation("C03:accepts-response-without-protected-status", fmt.Sprintf("an authenticated response without DO'99' (%s, data id %d, chip status %04X) under the outer status %04X was delivered: data %x status %04X", su.Name, sh.data, sh.sw, osw, ra.Data, ra.Status),
						map[string]any{"suite": su.Name, "outer_sw": osw, "data": sh.data, "sw": sh.sw})
				}
			}
		}
	}
	c.Extra["responses_without_protected_status"] = noStatus
}

// smLongHistories is filled in by smtrace.go (recorded histories validated against Trace_SM).
var smLongHistories = func(c *core.Ctx, adversarial bool) {}
