package checks

import (
	"crypto/elliptic"
	"crypto/ecdsa"
	"bytes"
	"crypto/sha1"
	"crypto/sha256"
	"crypto/sha512"
	"fmt"
	"math/big"
	"math/rand"
	"strings"

	"github.com/gmrtd/gmrtd/activeauth"
	"github.com/gmrtd/gmrtd/cms"
	"github.com/gmrtd/gmrtd/document"
	"github.com/gmrtd/gmrtd/verifier"

	"verif/harness/chipsim"
	"verif/harness/core"
	"verif/harness/link"
	"verif/harness/perso"
	"verif/harness/sim"
)

func init() { Registry["C07"] = C07 }

func hashByName(name string, data []byte) []byte {
	switch name {
	case "sha1":
		h := sha1.Sum(data)
		return h[:]
	case "sha224":
		h := sha256.Sum224(data)
		return h[:]
	case "sha256":
		h := sha256.Sum256(data)
		return h[:]
	case "sha384":
		h := sha512.Sum384(data)
		return h[:]
	case "sha512":
		h := sha512.Sum512(data)
		return h[:]
	}
	return nil
}

// aaValid is the independent verifier of an Active Authentication response (ISO/IEC 9796-2
// scheme 1 per 9303-11 6.1.2.2; ECDSA per 6.1.2.3 with the hash chosen by key size as the property
// states). It returns (valid, canonical): canonical = false means the response is a value-preserving
// re-encoding of a valid signature (leading zero octets, trailing octets after a DER signature),
// for which no verdict is drawn.
func aaValid(k *chipsim.AAKey, challenge, resp []byte) (valid, canonical bool) {
	switch k.Type {
	case "rsa":
		n := new(big.Int).SetBytes(k.N)
		e := new(big.Int).SetBytes(k.E)
		s := new(big.Int).SetBytes(resp)
		if len(resp) == 0 || s.Cmp(n) >= 0 {
			return false, true
		}
		f := new(big.Int).Exp(s, e, n).Bytes()
		if len(f) < 4 || f[0] != 0x6A {
			return false, true
		}
		var hn string
		tl := 1
		switch f[len(f)-1] {
		case 0xBC:
			hn = "sha1"
		case 0xCC:
			tl = 2
			switch f[len(f)-2] {
			case 0x38:
				hn = "sha224"
			case 0x34:
				hn = "sha256"
			case 0x36:
				hn = "sha384"
			case 0x35:
				hn = "sha512"
			default:
				return false, true
			}
		default:
			return false, true
		}
		hl := len(hashByName(hn, nil))
		body := f[1 : len(f)-tl]
		if len(body) < hl {
			return false, true
		}
		m1, d := body[:len(body)-hl], body[len(body)-hl:]
		ok := bytes.Equal(hashByName(hn, append(append([]byte{}, m1...), challenge...)), d)
		klen := (n.BitLen() + 7) / 8
		return ok, len(resp) == klen
	case "ecdsa":
		curve, err := chipsim.CurveByParamID(k.ParamID)
		if err != nil {
			return false, true
		}
		x, y := curve.MulBase(new(big.Int).SetBytes(k.Priv))
		nbits := curve.Params().N.BitLen()
		hn := "sha224"
		switch {
		case nbits >= 512:
			hn = "sha512"
		case nbits >= 384:
			hn = "sha384"
		case nbits >= 256:
			hn = "sha256"
		}
		digest := hashByName(hn, challenge)
		try := func(r, s *big.Int) bool { return ecdsaVerify(curve, x, y, digest, r, s) }
		size := (nbits + 7) / 8
		if len(resp) > 0 && len(resp)%2 == 0 {
			h := len(resp) / 2
			if try(new(big.Int).SetBytes(resp[:h]), new(big.Int).SetBytes(resp[h:])) {
				return true, h == size
			}
		}
		if len(resp) > 8 && resp[0] == 0x30 {
			if r, s, rest, ok := parseDerSig(resp); ok && try(r, s) {
				return true, rest == 0
			}
		}
		return false, true
	}
	return false, true
}

func parseDerSig(b []byte) (r, s *big.Int, rest int, ok bool) {
	tl, err := chipsim.ParseTLVs(b)
	if err != nil || len(tl) < 1 || tl[0].Tag != 0x30 {
		// trailing garbage may not parse as TLV: take the first element by its own length
		if len(b) < 2 || b[0] != 0x30 {
			return nil, nil, 0, false
		}
		l := int(b[1])
		off := 2
		if b[1] == 0x81 && len(b) > 2 {
			l, off = int(b[2]), 3
		}
		if off+l > len(b) {
			return nil, nil, 0, false
		}
		inner, err := chipsim.ParseTLVs(b[off : off+l])
		if err != nil || len(inner) != 2 {
			return nil, nil, 0, false
		}
		return new(big.Int).SetBytes(inner[0].Value), new(big.Int).SetBytes(inner[1].Value), len(b) - off - l, true
	}
	inner, err := chipsim.ParseTLVs(tl[0].Value)
	if err != nil || len(inner) != 2 || inner[0].Tag != 2 || inner[1].Tag != 2 {
		return nil, nil, 0, false
	}
	rest = 0
	for _, t := range tl[1:] {
		rest += len(t.Raw)
	}
	return new(big.Int).SetBytes(inner[0].Value), new(big.Int).SetBytes(inner[1].Value), rest, true
}

// textbook ECDSA verification over the simulator's curve arithmetic
func ecdsaVerify(curve *chipsim.Curve, qx, qy *big.Int, digest []byte, r, s *big.Int) bool {
	n := curve.Params().N
	if r.Sign() <= 0 || s.Sign() <= 0 || r.Cmp(n) >= 0 || s.Cmp(n) >= 0 {
		return false
	}
	e := new(big.Int).SetBytes(digest)
	if excess := len(digest)*8 - n.BitLen(); excess > 0 {
		e.Rsh(e, uint(excess))
	}
	w := new(big.Int).ModInverse(s, n)
	if w == nil {
		return false
	}
	u1 := new(big.Int).Mul(e, w)
	u1.Mod(u1, n)
	u2 := new(big.Int).Mul(r, w)
	u2.Mod(u2, n)
	x1, y1 := curve.ScalarBaseMult(u1.Bytes())
	x2, y2 := curve.ScalarMult(qx, qy, u2.Bytes())
	x, y := curve.Add(x1, y1, x2, y2)
	if x.Sign() == 0 && y.Sign() == 0 {
		return false
	}
	x.Mod(x, n)
	return x.Cmp(r) == 0
}

type aaCase struct {
	AA       perso.AASpec
	Source   string // caller | generated
	Response string // ActiveAuth.tla response class
	Form     string // concrete form of a non-genuine response
	Offline  string // none | same | different
	UnderSM  bool
	Seed     int64
}

func (k aaCase) String() string {
	key := fmt.Sprintf("rsa-%d-%s", k.AA.Bits, k.AA.Hash)
	if k.AA.Type == "ecdsa" {
		key = fmt.Sprintf("ecdsa-id%d-%s-%s", k.AA.ParamID, k.AA.Hash, k.AA.SigFormat)
	}
	return fmt.Sprintf("%s src=%s resp=%s/%s offline=%s sm=%v", key, k.Source, k.Response, k.Form, k.Offline, k.UnderSM)
}

type aaOutcome struct {
	skipped              bool
	live                 string // success | failure
	wireIsSupplied       bool
	recordedIsWire       bool
	off                  string // success | failure | hard-error | none
	oracleValid, canon   bool
	err                  string
	respLen              int
	attempts             int
}

func runAA(k aaCase) (out aaOutcome) {
	rnd := rand.New(rand.NewSource(k.Seed))
	aa := k.AA
	o := perso.Options{Seed: k.Seed, AA: &aa, IssuerTrusted: true, OpenChip: !k.UnderSM, BAC: true,
		Transport: chipsim.Transport{ExtendedLength: true, AllowOversizeShortResponse: true}}
	if k.Response == "other-key" {
		o.Personality = chipsim.PersonalityByName("aa-no-key")
	}
	p, err := perso.New(o)
	if err != nil {
		core.Infra("perso: %v", err)
	}
	chip, err := p.Chip()
	if err != nil {
		core.Infra("chip: %v", err)
	}
	s := sim.NewPlain(chip)
	if ok, err := s.Nfc.SelectAid(chipsim.AIDLDS1); err != nil || !ok {
		core.Infra("C07: SELECT application: %v", err)
	}
	if k.UnderSM {
		if err := s.InstallSM(sim.SuiteByName("3DES"), rnd, nil); err != nil {
			core.Infra("InstallSM: %v", err)
		}
	}
	doc := &document.Document{}
	dg15, err := s.Nfc.ReadFile(0x010F)
	if err != nil || dg15 == nil {
		core.Infra("C07: DG15 not readable: %v", err)
	}
	if doc.Mf.Lds1.Dg15, err = document.NewDG15(dg15); err != nil {
		out.err = "NewDG15: " + err.Error()
		out.skipped = true
		return
	}
	if k.AA.Type == "rsa" && k.AA.Bits > 2048 {
		// a signature of more than 256 octets needs an extended-length response: the caller configures the read size for it
		// (after DG15 was read: an unprotected READ BINARY with Le > 256 is case 2E, see known finding C17, and its
		// fall-back would leave the session with a read size of 256)
		s.Nfc.SetMaxLe(65536)
	}
	supplied := make([]byte, 8)
	rnd.Read(supplied)
	otherChallenge := make([]byte, 8)
	rnd.Read(otherChallenge)
	a := activeauth.NewActiveAuth(s.Nfc, doc)
	if k.Source == "caller" {
		if a, err = a.WithChallenge(supplied); err != nil {
			core.Infra("WithChallenge: %v", err)
		}
	}
	// a genuine signature of the chip over ANOTHER challenge (recorded earlier by the adversary)
	var replayed []byte
	if k.Response == "other-challenge" {
		c2, _ := p.Chip()
		r := c2.Process(append(append([]byte{0x00, 0xA4, 0x04, 0x0C, 0x07}, chipsim.AIDLDS1...)))
		_ = r
		// extended-length form: signatures of keys above 2048 bits do not fit a short response
		resp := c2.Process(append(append([]byte{0x00, 0x88, 0x00, 0x00, 0x00, 0x00, 0x08}, otherChallenge...), 0x00, 0x00))
		if len(resp) < 10 {
			core.Infra("C07: could not record a signature over another challenge: %x", resp)
		}
		replayed = resp[:len(resp)-2]
	}
	var wire []byte
	var wires [][]byte // the challenge of EVERY INTERNAL AUTHENTICATE of the call
	var finalResp []byte
	before := 0
	s.Link.Script = func(idx int, cmd []byte, l *link.Link) link.Action {
		before = len(chip.Truth().AaChallenges)
		return link.Action{Name: k.Response, Respond: func(g []byte, l *link.Link) []byte {
			tr := chip.Truth()
			if len(tr.AaChallenges) == before {
				return g // not the INTERNAL AUTHENTICATE
			}
			wire = tr.AaChallenges[len(tr.AaChallenges)-1]
			wires = append(wires, wire)
			if k.Response == "error-first" {
				if len(wires) == 1 {
					return []byte{0x6F, 0x00} // a transient fault: the chip's answer is lost, the terminal sees an error status
				}
				if !k.UnderSM && len(g) >= 3 {
					finalResp = append([]byte{}, g[:len(g)-2]...)
				}
				return g
			}
			if k.UnderSM {
				// the response is protected: re-protecting would need the session keys; SM runs use genuine / other-key only
				return g
			}
			if len(g) < 3 {
				return g
			}
			sig, sw := g[:len(g)-2], g[len(g)-2:]
			switch k.Response {
			case "other-challenge":
				sig = replayed
			case "invalid":
				sig = mutateAASig(sig, k.Form, p.AAKey, rnd)
			}
			finalResp = append([]byte{}, sig...)
			return append(append([]byte{}, sig...), sw...)
		}}
	}
	var res *document.ActiveAuthResult
	func() {
		defer func() {
			if r := recover(); r != nil {
				out.err = fmt.Sprintf("panic: %v", r)
			}
		}()
		var err error
		res, err = a.DoActiveAuth()
		if err != nil {
			out.err = err.Error()
		}
	}()
	out.live = "failure"
	if res != nil && res.Success && out.err == "" {
		out.live = "success"
	}
	out.wireIsSupplied = len(wires) > 0
	for _, w := range wires {
		if !bytes.Equal(w, supplied) {
			out.wireIsSupplied = false
		}
	}
	out.attempts = len(wires)
	if res != nil && res.Evidence != nil {
		out.recordedIsWire = bytes.Equal(res.Evidence.Nonce, wire)
		if finalResp == nil {
			finalResp = res.Evidence.Signature
		}
	}
	out.respLen = len(finalResp)
	key := p.AAKey
	if k.Response == "other-key" {
		// oracle: the response must NOT be valid under the DG15 key
		out.oracleValid, out.canon = aaValid(key, wire, finalResp)
	} else {
		out.oracleValid, out.canon = aaValid(key, wire, finalResp)
	}
	// offline verification of the exported result
	out.off = "none"
	if res != nil && res.Evidence != nil {
		dex := &document.DocumentEx{Document: *doc}
		dex.Session.ActiveAuthResult = res
		blob, err := dex.ToCbor()
		if err != nil {
			out.off = "export-error: " + err.Error()
			return
		}
		v := verifier.NewVerifier(&cms.GenericCertPool{})
		// WithAAChallenge "sets" the challenge on the verifier it is called on and returns it: both ways of using it -
		// chained, or as a statement on an existing verifier (also after an earlier challenge) - bind the challenge
		switch k.Offline {
		case "same":
			if k.Seed%2 == 0 {
				_, _ = v.WithAAChallenge(otherChallenge)
				_, _ = v.WithAAChallenge(wire)
			} else {
				v, _ = v.WithAAChallenge(wire)
			}
		case "different":
			if k.Seed%2 == 0 {
				_, _ = v.WithAAChallenge(otherChallenge)
			} else {
				v, _ = v.WithAAChallenge(otherChallenge)
			}
		}
		func() {
			defer func() {
				if r := recover(); r != nil {
					out.off = fmt.Sprintf("panic: %v", r)
				}
			}()
			de, err := v.Verify(blob)
			switch {
			case err != nil:
				out.off = "hard-error"
			case de.Session.ActiveAuthResult != nil && de.Session.ActiveAuthResult.Success:
				out.off = "success"
			default:
				out.off = "failure"
			}
		}()
	}
	return out
}

func mutateAASig(sig []byte, form string, k *chipsim.AAKey, rnd *rand.Rand) []byte {
	out := append([]byte{}, sig...)
	switch form {
	case "bitflip":
		out[rnd.Intn(len(out))] ^= 1 << uint(rnd.Intn(8))
	case "truncated":
		out = out[:len(out)-1-rnd.Intn(min(4, len(out)-1))]
	case "zero":
		out = make([]byte, len(out))
	case "empty":
		out = []byte{}
	case "plus-n":
		if k.Type == "rsa" {
			n := new(big.Int).SetBytes(k.N)
			v := new(big.Int).Add(new(big.Int).SetBytes(sig), n)
			out = v.Bytes()
		} else {
			curve, _ := chipsim.CurveByParamID(k.ParamID)
			h := len(sig) / 2
			r := new(big.Int).Add(new(big.Int).SetBytes(sig[:h]), curve.Params().N)
			rb := r.Bytes()
			if len(rb) > h {
				out[0] ^= 0x80
			} else {
				copy(out[:h], r.FillBytes(make([]byte, h)))
			}
		}
	case "wrong-trailer":
		if k.Type == "rsa" {
			// a well-formed 9796-2 signature by the right key whose digest was computed with another hash than its trailer says
			n := new(big.Int).SetBytes(k.N)
			d := new(big.Int).SetBytes(k.D)
			e := new(big.Int).SetBytes(k.E)
			f := new(big.Int).Exp(new(big.Int).SetBytes(sig), e, n).Bytes()
			if f[len(f)-1] == 0xBC {
				f[len(f)-2] ^= 0x01 // last digest octet
			} else {
				f[len(f)-2] = map[byte]byte{0x34: 0x36, 0x36: 0x34, 0x38: 0x35, 0x35: 0x38}[f[len(f)-2]]
			}
			s2 := new(big.Int).Exp(new(big.Int).SetBytes(f), d, n)
			out = s2.FillBytes(make([]byte, len(sig)))
		} else {
			out[len(out)-1] ^= 0x01
		}
	}
	return out
}

// C07 — active authentication accepts exactly valid signatures over the challenge.
func C07(c *core.Ctx) {
	c.Rule = "one case per (DG15 key type/size/hash/format, challenge source, response class of ActiveAuth.tla with its concrete form, offline challenge); non-trivial = all; distinct by case tuple + seed"
	c.Assume("whether bytes are a valid ISO 9796-2 / ECDSA signature is decided by the harness' own verifier (math/big RSA public operation, textbook ECDSA over chipsim's curve arithmetic); ActiveAuth.tla contributes the challenge plumbing and the scenario enumeration")
	c.Assume("value-preserving re-encodings of a valid signature (leading zero octets, octets after a DER signature) get no verdict")

	type row struct{ source, response, offline, live, off string }
	var rows []row
	r := c.MustTLC(core.TLCOpts{Module: "MC_ActiveAuth", Cfg: "MC_ActiveAuth.cfg", Workers: 4})
	for _, line := range r.Lines {
		if strings.HasPrefix(line, "<<\"T\"") {
			v, err := core.ParseTLA(line)
			if err != nil {
				core.Infra("C07: %v", err)
			}
			t := v.([]any)
			rows = append(rows, row{core.Str(t[1]), core.Str(t[2]), core.Str(t[3]), core.Str(t[4]), core.Str(t[5])})
		}
	}
	if len(rows) != 30 {
		core.Infra("C07: expected 30 scenarios, got %d", len(rows))
	}
	// the design that repeats a failed command under a fresh challenge must violate Plumbing
	if r2, err := c.TLC(core.TLCOpts{Module: "MC_ActiveAuth", Cfg: "MC_ActiveAuth_retryfresh.cfg", Workers: 1}); err != nil {
		core.Infra("%v", err)
	} else if r2.OK {
		core.Infra("MC_ActiveAuth_retryfresh: expected a counterexample to Plumbing, found none")
	}
	var keys []perso.AASpec
	rsaBits := core.Pick(c, []int{1024, 1031, 2048}, []int{1024, 1029, 1031, 1280, 1536, 2048, 3072, 4096})
	for _, b := range rsaBits {
		for hi, h := range []string{"sha1", "sha224", "sha256", "sha384", "sha512"} {
			if !c.Thorough() && (b+hi)%2 == 1 {
				continue
			}
			if b < 1100 && h == "sha512" {
				continue // capacity too small for M1
			}
			keys = append(keys, perso.AASpec{Type: "rsa", Bits: b, Hash: h})
		}
	}
	ecHash := func(id int) string {
		curve, _ := chipsim.CurveByParamID(id)
		n := curve.Params().N.BitLen()
		switch {
		case n >= 512:
			return "sha512"
		case n >= 384:
			return "sha384"
		case n >= 256:
			return "sha256"
		}
		return "sha224"
	}
	for i, id := range []int{8, 9, 10, 11, 12, 13, 14, 15, 16, 17, 18} {
		for fi, f := range []string{"plain", "der"} {
			if !c.Thorough() && (i+fi)%2 == 1 {
				continue
			}
			keys = append(keys, perso.AASpec{Type: "ecdsa", ParamID: id, Hash: ecHash(id), SigFormat: f, Named: (i+fi)%3 == 0})
		}
		// every curve also as a NAMED curve (the OID table is a dependency of its own)
		keys = append(keys, perso.AASpec{Type: "ecdsa", ParamID: id, Hash: ecHash(id), SigFormat: []string{"plain", "der"}[i%2], Named: true})
	}
	forms := []string{"bitflip", "truncated", "zero", "empty", "plus-n", "wrong-trailer"}
	var cases []aaCase
	n := 0
	for ki, key := range keys {
		for ri, rw := range rows {
			fs := []string{"-"}
			if rw.response == "invalid" {
				fs = forms
			}
			for _, f := range fs {
				n++
				if !c.Thorough() && (n+ki+ri)%4 != 0 && !(rw.response == "error-first" && rw.source == "caller" && rw.offline == "same" && ki%3 == 0) {
					continue
				}
				cases = append(cases, aaCase{AA: key, Source: rw.source, Response: rw.response, Form: f, Offline: rw.offline, Seed: c.Rand.Int63()})
			}
		}
		// under secure messaging (genuine and impostor)
		if key.Type == "ecdsa" || key.Bits <= 1536 {
			cases = append(cases, aaCase{AA: key, Source: "caller", Response: "genuine", Form: "-", Offline: "same", UnderSM: true, Seed: c.Rand.Int63()})
			cases = append(cases, aaCase{AA: key, Source: "generated", Response: "other-key", Form: "-", Offline: "none", UnderSM: true, Seed: c.Rand.Int63()})
		}
	}
	spec := map[string]row{}
	for _, rw := range rows {
		spec[rw.source+"/"+rw.response+"/"+rw.offline] = rw
	}
	outs := make([]aaOutcome, len(cases))
	core.ParallelFor(len(cases), func(i int) { outs[i] = runAA(cases[i]) })
	grey := 0
	for i, k := range cases {
		o := outs[i]
		c.Case(k.String()+fmt.Sprint(k.Seed), true)
		if o.skipped {
			c.Violation("C07:dg15-rejected", fmt.Sprintf("a well-formed DG15 is not parsed (%s): %s", k, o.err), map[string]any{"case": k})
			continue
		}
		sp := spec[k.Source+"/"+k.Response+"/"+k.Offline]
		rp := map[string]any{"case": k, "outcome": fmt.Sprintf("%+v", o), "spec": fmt.Sprintf("%+v", sp)}
		// plumbing first: it does not depend on what came back
		if k.Source == "caller" && !(o.wireIsSupplied) {
			c.Violation("C07:challenge-on-wire-differs", fmt.Sprintf("an INTERNAL AUTHENTICATE command of the call (%d sent) did not carry the caller-supplied challenge (%s)", o.attempts, k), rp)
		}
		if !o.canon {
			grey++
			continue
		}
		// exactness, decided by the independent verifier on the bytes the library saw
		if o.oracleValid && o.live != "success" {
			c.Violation("C07:rejects-valid-signature", fmt.Sprintf("a valid signature by the DG15 key over the transmitted challenge was rejected (%s): %s", k, o.err), rp)
		}
		if !o.oracleValid && o.live == "success" {
			c.Violation("C07:accepts-"+k.Response+"-"+k.Form, fmt.Sprintf("a response that is not a valid signature over the transmitted challenge was accepted (%s)", k), rp)
		}
		// the specification's verdict for the scenario class agrees with the oracle by construction; check the plumbing
		if o.off != "none" && !o.recordedIsWire {
			c.Violation("C07:recorded-nonce-differs", fmt.Sprintf("the recorded nonce is not the transmitted challenge (%s)", k), rp)
		}
		if k.Offline == "different" && o.off != "none" && o.off != "hard-error" {
			c.Violation("C07:nonce-mismatch-not-a-hard-error", fmt.Sprintf("offline verification with a different challenge returned %q (%s)", o.off, k), rp)
		}
		if k.Offline != "different" && o.off != "none" && o.off != o.live {
			c.Violation("C07:offline-differs-from-live", fmt.Sprintf("offline verification returned %q, live %q (%s)", o.off, o.live, k), rp)
		}
		if (sp.live == "success") != o.oracleValid && k.Response != "invalid" && k.Response != "error-first" {
			core.Infra("C07: scenario %s: oracle says valid=%v but the specification's class expects %s (harness inconsistency)", k, o.oracleValid, sp.live)
		}
	}
	c.AddTraces(int64(len(cases)))
	c07PlainLookalike(c)
	c.Extra["keys"] = len(keys)
	c.Extra["responses_without_verdict_value_preserving_reencoding"] = grey
	c.Sample(map[string]any{"case": cases[0].String(), "outcome": fmt.Sprintf("%+v", outs[0])})
	c.Sample(map[string]any{"case": cases[len(cases)-1].String(), "outcome": fmt.Sprintf("%+v", outs[len(cases)-1])})
}

// c07PlainLookalike: genuine plain r||s signatures whose first octets happen to read like a DER SEQUENCE header
// (30 <len-2>): a 2^-16 event per signature that the chip cannot avoid. They are ground here (P-256, fast arithmetic)
// and must be accepted like every other genuine response.
func c07PlainLookalike(c *core.Ctx) {
	p, err := perso.New(perso.Options{Seed: c.Seed, AA: &perso.AASpec{Type: "ecdsa", ParamID: 12, Hash: "sha256", SigFormat: "plain"}, IssuerTrusted: true, OpenChip: true, BAC: true,
		Transport: chipsim.Transport{ExtendedLength: true}})
	if err != nil {
		core.Infra("C07: perso: %v", err)
	}
	dg15, err := document.NewDG15(p.AppFiles[0x010F])
	if err != nil || dg15 == nil {
		core.Infra("C07: NewDG15: %v", err)
	}
	priv := &ecdsa.PrivateKey{D: new(big.Int).SetBytes(p.AAKey.Priv)}
	priv.Curve = elliptic.P256()
	priv.X, priv.Y = priv.Curve.ScalarBaseMult(p.AAKey.Priv)
	challenge := []byte{0x11, 0x22, 0x33, 0x44, 0x55, 0x66, 0x77, 0x88}
	digest := sha256.Sum256(challenge)
	want := core.Pick(c, 2, 6)
	found := 0
	rnd := rand.New(rand.NewSource(c.Seed))
	for tries := 0; tries < 2000000 && found < want; tries++ {
		r, s, err := ecdsa.Sign(rnd, priv, digest[:])
		if err != nil {
			core.Infra("C07: sign: %v", err)
		}
		sig := append(r.FillBytes(make([]byte, 32)), s.FillBytes(make([]byte, 32))...)
		if sig[0] != 0x30 || sig[1] != 62 {
			continue
		}
		found++
		c.Case(fmt.Sprintf("plain-der-lookalike/%x", sig[:6]), true)
		res, err := activeauth.ValidateActiveAuthSignature(dg15, sig, challenge)
		if err != nil || res == nil || !res.Success {
			c.Violation("C07:genuine-response-rejected:ecdsa-plain-der-lookalike", fmt.Sprintf("a genuine plain r||s signature that starts with 30 3E (reads like a DER header) was rejected: %v", err),
				map[string]any{"dg15": core.Hex(p.AppFiles[0x010F]), "challenge": core.Hex(challenge), "response": core.Hex(sig)})
		}
	}
	if found == 0 {
		core.Infra("C07: no DER-lookalike signature found")
	}
	c.Extra["plain_der_lookalike_signatures"] = found
}
