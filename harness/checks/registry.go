// Package checks holds one driver per property (C01..C20). Each driver runs the TLC instance(s)
// of the property, replays TLC's behaviours into the real code and/or validates traces recorded
// from the real code against the specification, and reports through core.Ctx.
package checks

import "verif/harness/core"

var Registry = map[string]func(*core.Ctx){}
