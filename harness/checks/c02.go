package checks

import (
	"errors"
	"fmt"
	"strings"

	"github.com/gmrtd/gmrtd/document"

	"verif/harness/core"
)

func init() { Registry["C02"] = C02 }

type verdictVec struct {
	Pa       string `json:"pa"`
	CardSec  bool   `json:"cardsec"`
	Aa       string `json:"aa"`
	Cam      string `json:"cam"`
	Ca       string `json:"ca"`
	Complete bool   `json:"complete"`
}

func statusName(s document.ChipAuthStatus) string {
	switch s {
	case document.CHIP_AUTH_STATUS_NONE:
		return "NONE"
	case document.CHIP_AUTH_STATUS_AA:
		return "AA"
	case document.CHIP_AUTH_STATUS_CA:
		return "CA"
	case document.CHIP_AUTH_STATUS_PACE_CAM:
		return "PACE_CAM"
	}
	return fmt.Sprintf("?%d", int(s))
}

// concretise builds a real Session for an abstract outcome vector. variant selects among the
// representations the code allows for the same abstract outcome (error recorded alongside or
// not, evidence attached or not, unrelated BAC/PACE results present or not).
func concretise(v verdictVec, variant int) *document.DocumentEx {
	d := &document.DocumentEx{}
	s := &d.Session
	bit := func(i int) bool { return variant>>uint(i)&1 == 1 }
	e := errors.New("recorded error")
	switch v.Pa {
	case "error":
		s.PassiveAuthErr = e
	case "failed":
		s.PassiveAuthResult = &document.PassiveAuthResult{Success: false}
		if bit(0) {
			s.PassiveAuthErr = e
		}
		if bit(1) { // a chain was found but something later failed
			s.PassiveAuthResult.Sod = document.NewPassiveAuth([][]byte{{1}, {2}})
		}
	case "ok":
		s.PassiveAuthResult = &document.PassiveAuthResult{Success: true, Sod: document.NewPassiveAuth([][]byte{{1}, {2}})}
	}
	if v.CardSec && s.PassiveAuthResult != nil {
		s.PassiveAuthResult.CardSec = document.NewPassiveAuth([][]byte{{3}, {4}})
	}
	switch v.Aa {
	case "failed":
		if bit(2) {
			s.ActiveAuthErr = e
		} else {
			s.ActiveAuthResult = &document.ActiveAuthResult{Success: false}
			s.ActiveAuthErr = e
		}
	case "ok":
		s.ActiveAuthResult = &document.ActiveAuthResult{Success: true}
		if bit(3) {
			s.ActiveAuthResult.Evidence = &document.ActiveAuthEvidence{Nonce: []byte{1, 2, 3, 4, 5, 6, 7, 8}, Signature: []byte{9}}
		}
	}
	switch v.Cam {
	case "failed":
		s.PaceCamResult = &document.PaceCamResult{Success: false}
		if bit(4) {
			s.PaceCamResult.Evidence = &document.PaceCamEvidence{}
		}
	case "ok":
		s.PaceCamResult = &document.PaceCamResult{Success: true}
	}
	if v.Cam != "absent" || bit(5) {
		s.PaceResult = &document.PaceResult{Success: true, ParameterId: 13}
	}
	switch v.Ca {
	case "failed":
		if bit(6) {
			s.ChipAuthErr = e
		} else {
			s.ChipAuthResult = &document.ChipAuthResult{Success: false}
		}
	case "ok":
		s.ChipAuthResult = &document.ChipAuthResult{Success: true}
	}
	if !v.Complete {
		s.DocumentVerifyErr = e
	}
	if bit(7) {
		s.BacResult = &document.BacResult{Success: true}
	}
	return d
}

func succeeded(v verdictVec, mech string) bool {
	switch mech {
	case "AA":
		return v.Aa == "ok"
	case "PACE_CAM":
		return v.Cam == "ok"
	case "CA":
		return v.Ca == "ok"
	}
	return false
}

// C02 — trust verdicts are gated on passive authentication and completeness (product half;
// the end-to-end half with hostile chips is run by c02_e2e.go once registered).
func C02(c *core.Ctx) {
	c.Rule = "one case per (outcome vector, concrete representation); non-trivial = at least one step outcome is not absent; distinct by vector+variant"
	c.Assume("the six step outcomes are represented by the public fields of document.Session exactly as reader.go / verifier.go fill them")
	type row struct {
		v                verdictVec
		trusted          bool
		proto, verified  string
	}
	var rows []row
	r := c.MustTLC(core.TLCOpts{Module: "MC_Verdict", Cfg: "MC_Verdict.cfg"})
	for _, line := range r.Lines {
		if !strings.HasPrefix(line, "<<\"T\"") {
			continue
		}
		val, err := core.ParseTLA(line)
		if err != nil {
			core.Infra("C02: %v", err)
		}
		t := val.([]any)
		m := t[1].(map[string]any)
		rows = append(rows, row{verdictVec{core.Str(m["pa"]), m["cardsec"].(bool), core.Str(m["aa"]), core.Str(m["cam"]), core.Str(m["ca"]), m["complete"].(bool)},
			t[2].(bool), core.Str(t[3]), core.Str(t[4])})
	}
	if len(rows) != 432 || r.Distinct != 432 {
		core.Infra("C02: expected 432 vectors, table has %d rows / %d states", len(rows), r.Distinct)
	}
	c.Exhaustive = true
	variants := core.Pick(c, 16, 256)
	drift := 0
	for _, rw := range rows {
		for k := 0; k < variants; k++ {
			variant := k
			if !c.Thorough() {
				variant = c.Rand.Intn(256)
			}
			d := concretise(rw.v, variant)
			sum := d.Summary()
			verified := statusName(d.Session.VerifiedChipAuthStatus())
			proto := statusName(d.Session.ChipAuthProtocolStatus())
			summ := statusName(sum.ChipAuthenticity)
			nontrivial := rw.v.Pa != "absent" || rw.v.Aa != "absent" || rw.v.Cam != "absent" || rw.v.Ca != "absent"
			c.Case(fmt.Sprintf("%+v/%d", rw.v, variant), nontrivial)
			rp := map[string]any{"vector": rw.v, "variant": variant, "dataTrusted": sum.DataTrusted, "chipAuthenticity": summ, "verified": verified, "protocolStatus": proto}
			// the property's gates, evaluated on the REAL outputs
			if sum.DataTrusted && !(rw.v.Pa == "ok" && rw.v.Complete) {
				c.Violation("C02:trusted-without-pa-or-completeness", fmt.Sprintf("Summary().DataTrusted = true for %+v", rw.v), rp)
			}
			for _, got := range []string{summ, verified} {
				if got != "NONE" && !(succeeded(rw.v, got) && rw.v.Pa == "ok" && (got != "PACE_CAM" || rw.v.CardSec)) {
					c.Violation("C02:chip-authentic-ungated", fmt.Sprintf("chip authenticity %s reported for %+v", got, rw.v), rp)
				}
			}
			if summ != verified {
				c.Violation("C02:summary-differs-from-verified-status", fmt.Sprintf("Summary().ChipAuthenticity=%s but VerifiedChipAuthStatus()=%s for %+v", summ, verified, rw.v), rp)
			}
			if proto != "NONE" && !succeeded(rw.v, proto) {
				c.Violation("C02:protocol-status-names-failed-mechanism", fmt.Sprintf("ChipAuthProtocolStatus()=%s for %+v", proto, rw.v), rp)
			}
			if d.Session.ChipAuthProtocolCompleted() != (proto != "NONE") {
				c.Violation("C02:protocol-completed-inconsistent", fmt.Sprintf("ChipAuthProtocolCompleted()=%v but status %s", d.Session.ChipAuthProtocolCompleted(), proto), rp)
			}
			// as-built function (informational: a safe but different mapping is not a violation)
			if sum.DataTrusted != rw.trusted || verified != rw.verified || proto != rw.proto {
				drift++
			}
		}
	}
	c.AddTraces(int64(len(rows)))
	c.Extra["vectors"] = len(rows)
	c.Extra["representations_per_vector"] = variants
	c.Extra["asbuilt_mapping_drift"] = drift
	if drift > 0 {
		fmt.Printf("NOTE: C02: the real verdict mapping differs from Verdict.tla's as-built operators on %d cases while still satisfying the gates; update the specification\n", drift)
	}
	c.Sample(map[string]any{"vector": rows[0].v, "spec_trusted": rows[0].trusted, "spec_verified": rows[0].verified})
	c.Sample(map[string]any{"vector": rows[431].v, "spec_trusted": rows[431].trusted, "spec_verified": rows[431].verified})
	if e2e := c02EndToEnd; e2e != nil {
		e2e(c)
	}
}

var c02EndToEnd func(*core.Ctx)
