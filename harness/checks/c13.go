package checks

import (
	"bytes"
	"fmt"
	"math/rand"
	"os"
	"time"

	"verif/harness/chipsim"
	"verif/harness/core"
	"verif/harness/link"
	"verif/harness/sim"
)

func init() { Registry["C13"] = C13 }

type rfCase struct {
	H, V, Slack    int
	TwoByteTag     bool
	MaxLe          int
	Transport      chipsim.Transport
	Mode           string // "plain" | suite name
	SelSw          string // "9000" (file present) | "6A82" (absent)
	Indef          bool   // the top-level object uses the indefinite length form (cannot be sized from the header)
	Seed           int64
}

func (k rfCase) String() string {
	return fmt.Sprintf("h=%d v=%d slack=%d maxLe=%d mode=%s maxRead=%d rejectOver=%d short=%s hdrShort=%d ext=%v sel=%s",
		k.H, k.V, k.Slack, k.MaxLe, k.Mode, k.Transport.MaxRead, k.Transport.RejectLeOver, k.Transport.ShortReturn, k.Transport.HeaderReadShort, k.Transport.ExtendedLength, k.SelSw) + fmt.Sprintf(" keep=%v indef=%v", k.Transport.LengthErrorKeepsSession, k.Indef)
}

// buildTLV makes a top-level object with exactly h header octets and v value octets.
func buildTLV(h, v int, twoByteTag bool, rnd *rand.Rand) []byte {
	var tag []byte
	if twoByteTag {
		tag = []byte{0x7F, 0x61}
	} else {
		tag = []byte{[]byte{0x60, 0x61, 0x75, 0x6E, 0x77, 0x31}[rnd.Intn(6)]}
	}
	ll := h - len(tag)
	var lenOct []byte
	switch ll {
	case 1:
		lenOct = []byte{byte(v)}
	case 2:
		lenOct = []byte{0x81, byte(v)}
	case 3:
		lenOct = []byte{0x82, byte(v >> 8), byte(v)}
	default:
		panic("bad header shape")
	}
	val := make([]byte, v)
	rnd.Read(val)
	return append(append(tag, lenOct...), val...)
}

// validShape: can (h, v) be encoded with a 1- or 2-octet tag?
func shapeFor(h, v int) (twoByteTag bool, ok bool) {
	for _, two := range []bool{false, true} {
		tl := 1
		if two {
			tl = 2
		}
		ll := h - tl
		switch {
		case ll == 1 && v <= 127, ll == 2 && v <= 255, ll == 3 && v <= 65535:
			return two, true
		}
	}
	return false, false
}

type rfResult struct {
	class   string // exact | notfound | err | WRONG
	lines   [][]byte
	reads   int
	dur     time.Duration
	detail  string
}

const testFid = 0x011C // an EF of the MF (selectable right after power-up)

// runReadFile runs the real NfcSession.ReadFile for one case against a fresh chip and records the
// trace events of Trace_ReadFile.
func runReadFile(k rfCase) (res rfResult) {
	res = runReadFileOnce(k)
	if res.dur > 10*time.Second {
		core.Calm(func() { res = runReadFileOnce(k) }) // a wall-clock observation is confirmed alone before it counts
	}
	return res
}

func runReadFileOnce(k rfCase) (res rfResult) {
	rnd := rand.New(rand.NewSource(k.Seed))
	tlvBytes := buildTLV(k.H, k.V, k.TwoByteTag, rnd)
	if k.Indef {
		inner := buildTLV(2, k.V%100, false, rnd)
		tlvBytes = append(append([]byte{0x77, 0x80}, inner...), 0x00, 0x00)
	}
	ef := append(append([]byte{}, tlvBytes...), bytes.Repeat([]byte{0xEE}, k.Slack)...)
	mf := map[uint16][]byte{}
	if k.SelSw == "9000" {
		mf[testFid] = ef
	}
	// other EFs with short identifiers, so that P1 b8 = 1 reads hit real data
	other := make([]byte, 300)
	rnd.Read(other)
	mf[0x2F01] = other // SFI 01
	mf[0x011D] = other // SFI 1D
	chip, err := chipsim.New(chipsim.Config{MfFiles: mf, Transport: k.Transport, Rand: rnd})
	if err != nil {
		core.Infra("C13: chipsim.New: %v", err)
	}
	s := sim.NewPlain(chip)
	if k.Mode != "plain" {
		if err := s.InstallSM(sim.SuiteByName(k.Mode), rnd, nil); err != nil {
			core.Infra("C13: InstallSM: %v", err)
		}
	}
	s.Nfc.SetMaxLe(k.MaxLe)
	var data []byte
	var rerr error
	func() {
		defer func() {
			if r := recover(); r != nil {
				rerr = fmt.Errorf("panic: %v", r)
			}
		}()
		t0 := time.Now()
		data, rerr = s.Nfc.ReadFile(testFid)
		res.dur = time.Since(t0)
	}()
	switch {
	case rerr != nil:
		res.class, res.detail = "err", rerr.Error()
	case data == nil:
		res.class = "notfound"
	case bytes.Equal(data, tlvBytes):
		res.class = "exact"
	default:
		res.class = "WRONG"
		res.detail = fmt.Sprintf("returned %d octets, file object has %d; first difference at %d", len(data), len(tlvBytes), firstDiff(data, tlvBytes))
	}
	// ---- events ---------------------------------------------------------------------
	add := func(v any) {
		if !k.Indef { // ReadFile.tla models definite headers only; the outcome of these cases is judged directly
			res.lines = append(res.lines, core.JSONLine(v))
		}
	}
	add(map[string]any{"e": "cfg", "h": k.H, "v": k.V, "ef": len(ef), "maxLe": k.MaxLe, "fresh": true})
	tr := chip.Truth()
	if k.Mode == "plain" {
		// the terminal's intention (structured arguments) + the chip's answer
		for _, ex := range s.Link.Exchanges() {
			sw := "none"
			n := 0
			if len(ex.Resp) >= 2 {
				sw = fmt.Sprintf("%02X%02X", ex.Resp[len(ex.Resp)-2], ex.Resp[len(ex.Resp)-1])
				n = len(ex.Resp) - 2
			}
			switch ex.Ins {
			case 0xA4:
				add(map[string]any{"e": "sel", "sw": sw})
			case 0xB0:
				add(map[string]any{"e": "rb", "p1": ex.P1, "p2": ex.P2, "le": ex.Le, "n": n, "sw": sw})
				res.reads++
			}
		}
	} else {
		acc := map[int]chipsim.PlainCmd{}
		for _, a := range tr.Accepted {
			acc[a.Index] = a
		}
		for _, ex := range s.Link.Exchanges() {
			a, ok := acc[ex.Idx]
			if ok {
				sw := fmt.Sprintf("%04X", a.SW)
				switch a.INS {
				case 0xA4:
					add(map[string]any{"e": "sel", "sw": sw})
				case 0xB0:
					add(map[string]any{"e": "rb", "p1": int(a.P1), "p2": int(a.P2), "le": a.Ne, "n": a.RespLen, "sw": sw})
					res.reads++
				}
				continue
			}
			// refused before / during secure messaging processing: the plain Le is not visible
			sw := "none"
			if len(ex.Resp) >= 2 {
				sw = fmt.Sprintf("%02X%02X", ex.Resp[len(ex.Resp)-2], ex.Resp[len(ex.Resp)-1])
			}
			if ex.Ins == 0xB0 {
				add(map[string]any{"e": "rb", "p1": ex.P1, "p2": ex.P2, "le": -1, "n": 0, "sw": sw})
				res.reads++
			}
		}
	}
	cls := res.class
	if cls == "WRONG" {
		cls = "exact" // what the code claims
	}
	add(map[string]any{"e": "done", "class": cls})
	return res
}

func firstDiff(a, b []byte) int {
	n := min(len(a), len(b))
	for i := 0; i < n; i++ {
		if a[i] != b[i] {
			return i
		}
	}
	return n
}

// C13 — file reads return exactly the stored file or an error.
func C13(c *core.Ctx) {
	c.Rule = "one case per (file shape, slack, max read size, chip transport behaviour, plain/SM suite); non-trivial = the file exists and needs at least one loop read; distinct by the full configuration"
	c.Assume("chipsim is the ISO 7816-4 / 9303-10 chip: P1 bit 8 of READ BINARY selects by short EF identifier; Le is a maximum; offset beyond the EF is 6B00")
	c.Assume("content exactness is decided directly on bytes; the trace specification additionally fixes the request sequence and the outcome class")

	// ---- design level: TLC on ReadFile.tla ------------------------------------------------------
	c.MustTLC(core.TLCOpts{Module: "MC_ReadFile", Cfg: core.Pick(c, "MC_ReadFile_quick.cfg", "MC_ReadFile_full.cfg"), Timeout: 40 * time.Minute})
	c.MustTLC(core.TLCOpts{Module: "MC_ReadFile", Cfg: "MC_ReadFile_live.cfg"})
	// as built (offsets >= 32768 in P1): TLC must find the counterexample the known finding names
	if r, err := c.TLC(core.TLCOpts{Module: "MC_ReadFile", Cfg: "MC_ReadFile_asbuilt.cfg", Timeout: 20 * time.Minute}); err != nil {
		core.Infra("%v", err)
	} else if r.OK {
		core.Infra("MC_ReadFile_asbuilt: expected a counterexample to Exact with SfiOffsets = TRUE, found none (model no longer exhibits the known finding)")
	}

	// ---- every size, every read size, every chunking: the loop's inductive invariant (ReadLoop.tla, Apalache) ---------
	// (TLC checks the same invariant - LoopInv - on ReadFile.tla's reachable states, which ties the two modules)
	if c.Thorough() || os.Getenv("VERIF_SKIP_APALACHE") == "" {
		n := 0
		for _, ob := range []struct {
			args []string
			want string
		}{
			{[]string{"--cinit=CInitIntended", "--init=Init", "--inv=IndInv", "--length=0"}, "ok"},          // initiation
			{[]string{"--cinit=CInitIntended", "--init=IndInv", "--inv=IndInv", "--length=1"}, "ok"},        // consecution
			{[]string{"--cinit=CInitIntended", "--init=IndInv", "--inv=Exact", "--length=0"}, "ok"},         // IndInv => Exact
			{[]string{"--cinit=CInitAsBuilt", "--init=Init", "--inv=Exact", "--length=6"}, "violation"},     // as built: the known finding
			{[]string{"--cinit=CInitAsBuilt", "--init=IndInv", "--inv=IndInv", "--length=1"}, "violation"}, // ... and the invariant is not inductive there
		} {
			got, err := c.Apalache("ReadLoop", ob.args...)
			if err != nil {
				core.Infra("C13: %v", err)
			}
			if got != ob.want {
				core.Infra("C13: apalache ReadLoop %v: %s, expected %s", ob.args, got, ob.want)
			}
			n++
		}
		c.Extra["apalache_obligations_discharged"] = n
	}

	// ---- real code over the grid ------------------------------------------------------------------
	var cases []rfCase
	sizes := [][2]int{{2, 0}, {2, 1}, {2, 2}, {2, 3}, {2, 126}, {2, 127}, {3, 128}, {3, 255}, {3, 0}, {3, 2}, {4, 256}, {4, 257}, {4, 258}, {4, 1000},
		{4, 32763}, {4, 32764}, {4, 32765}, {4, 40000}, {4, 65535}, {5, 300}, {3, 1}, {4, 1}}
	maxLes := []int{1, 2, 3, 4, 5, 127, 128, 129, 223, 224, 231, 232, 255, 256, 257, 4096, 32768, 65535, 65536}
	transports := []chipsim.Transport{
		{ExtendedLength: true},
		{ExtendedLength: false},
		{ExtendedLength: false, LengthErrorKeepsSession: true},
		{ExtendedLength: true, MaxRead: 1},
		{ExtendedLength: true, MaxRead: 5},
		{ExtendedLength: true, MaxRead: 100},
		{ExtendedLength: true, MaxRead: 256},
		{ExtendedLength: true, RejectLeOver: 255},
		{ExtendedLength: true, RejectLeOver: 128},
		{ExtendedLength: true, RejectLeOver: 100},
		{ExtendedLength: true, RejectLeOver: 191},
		{ExtendedLength: true, ShortReturn: "half"},
		{ExtendedLength: true, ShortReturn: "one"},
		{ExtendedLength: true, ShortReturn: "random", ShortReturnSeed: 0},
		{ExtendedLength: true, HeaderReadShort: 1},
		{ExtendedLength: true, HeaderReadShort: 2},
		{ExtendedLength: true, HeaderReadShort: 3},
		{ExtendedLength: true, WarnEOF: true},
	}
	modes := []string{"plain", "3DES", "AES-128", "AES-256"}
	full := c.Thorough()
	for _, hv := range sizes {
		two, ok := shapeFor(hv[0], hv[1])
		if !ok {
			continue
		}
		for _, ml := range maxLes {
			for ti, tp := range transports {
				for _, mode := range modes {
					for _, slack := range []int{0, 7} {
						// quick: a pseudo-random sixth of the product; thorough: everything
						if !full && c.Rand.Intn(12) != 0 {
							continue
						}
						// big files with tiny reads only ever hit the chunk limit: keep a few
						if hv[1] > 2000 && ml*1000 < hv[1] && c.Rand.Intn(6) != 0 {
							continue
						}
						t := tp
						t.ShortReturnSeed = c.Rand.Int63()
						_ = ti
						cases = append(cases, rfCase{H: hv[0], V: hv[1], Slack: slack, TwoByteTag: two, MaxLe: ml, Transport: t, Mode: mode, SelSw: "9000", Seed: c.Rand.Int63()})
					}
				}
			}
		}
	}
	for _, mode := range modes {
		cases = append(cases, rfCase{H: 2, V: 10, MaxLe: 256, Transport: chipsim.Transport{ExtendedLength: true}, Mode: mode, SelSw: "6A82", Seed: c.Rand.Int63()})
	}
	for _, mode := range modes {
		for _, v := range []int{0, 5, 60} {
			cases = append(cases, rfCase{H: 2, V: v, MaxLe: 256, Transport: chipsim.Transport{ExtendedLength: true}, Mode: mode, SelSw: "9000", Indef: true, Seed: c.Rand.Int63()})
		}
	}
	// seeded random shapes
	for i := 0; i < core.Pick(c, 300, 6000); i++ {
		v := c.Rand.Intn(70)
		switch c.Rand.Intn(4) {
		case 1:
			v = c.Rand.Intn(2000)
		case 2:
			v = 30000 + c.Rand.Intn(35535)
		}
		h := 2
		if v > 127 {
			h = 3
		}
		if v > 255 {
			h = 4
		}
		if c.Rand.Intn(5) == 0 && h < 4 {
			h++
		}
		two, ok := shapeFor(h, v)
		if !ok {
			continue
		}
		t := transports[c.Rand.Intn(len(transports))]
		if c.Rand.Intn(3) == 0 {
			t.MaxRead = 1 + c.Rand.Intn(300)
		}
		t.ShortReturnSeed = c.Rand.Int63()
		ml := 1 + c.Rand.Intn(65536)
		if c.Rand.Intn(2) == 0 {
			ml = 1 + c.Rand.Intn(300)
		}
		if v > 2000 && ml*1000 < v && c.Rand.Intn(4) != 0 {
			ml = 200 + c.Rand.Intn(100)
		}
		cases = append(cases, rfCase{H: h, V: v, Slack: c.Rand.Intn(9), TwoByteTag: two, MaxLe: ml, Transport: t, Mode: modes[c.Rand.Intn(len(modes))], SelSw: "9000", Seed: c.Rand.Int63()})
	}

	results := make([]rfResult, len(cases))
	core.ParallelFor(len(cases), func(i int) { results[i] = runReadFile(cases[i]) })

	// one TLC run over all traces
	var lines [][]byte
	owner := []int{}
	for i, r := range results {
		for range r.lines {
			owner = append(owner, i)
		}
		lines = append(lines, r.lines...)
	}
	tr := c.ValidateTrace("Trace_ReadFile", lines, core.TLCOpts{Timeout: 30 * time.Minute})
	rejectedCase := map[int][]any{}
	for _, rj := range tr.Rejected {
		i := owner[rj[0].(int)-1]
		if _, dup := rejectedCase[i]; !dup {
			rejectedCase[i] = rj
		}
	}
	classes := map[string]int{}
	drift, refused := 0, 0
	for i, k := range cases {
		r := results[i]
		classes[r.class]++
		c.Case(k.String(), k.SelSw == "9000" && k.H+k.V > 4)
		rp := map[string]any{"case": k, "outcome": r.class, "detail": r.detail}
		if r.dur > core.Stretch(20*time.Second) {
			c.Violation("C13:slow", fmt.Sprintf("ReadFile took %s for %s", r.dur, k), rp)
		}
		switch r.class {
		case "WRONG":
			key := "C13:wrong-bytes"
			if k.Indef {
				key = "C13:indefinite-length-header-returns-prefix"
			}
			if _, rejected := rejectedCase[i]; k.H+k.V > 32768 && !rejected {
				// the known finding is identified by its read sequence: exactly the requests of the as-built
				// ReadFile.tla (offset/256 in P1, i.e. b8 set from 32768 on). Wrong bytes after any OTHER
				// sequence of requests are a different violation.
				key = "C13:offset>=32768-read-under-sfi-semantics"
			}
			c.Violation(key, fmt.Sprintf("ReadFile returned bytes that are not the file's object (%s) for %s", r.detail, k), rp)
		case "notfound":
			if k.SelSw == "9000" {
				c.Violation("C13:notfound-although-chip-selected-the-file", fmt.Sprintf("ReadFile returned nil, nil (not found) although SELECT answered 9000: %s", k), rp)
			}
		case "exact":
			if r.reads > 1001 {
				c.Violation("C13:chunk-limit", fmt.Sprintf("ReadFile used %d READ BINARY commands (limit 1000 loop reads + header): %s", r.reads, k), rp)
			}
		}
		if rj, bad := rejectedCase[i]; bad {
			switch r.class {
			case "err":
				refused++ // C13 allows an error; whether the chip should have been readable is C08's subject
				if os.Getenv("VERIF_DEBUG") != "" {
					fmt.Printf("DEBUG refused: %s [%v] %s\n", k, rj, r.detail)
				}
			case "exact":
				drift++
				fmt.Printf("NOTE: C13: read sequence differs from ReadFile.tla although the bytes are right: %s  [%v]\n", k, rj)
			}
		}
	}
	c.AddTraces(int64(len(cases)))
	c.Extra["outcome_classes"] = classes
	c.Extra["trace_lines"] = len(lines)
	c.Extra["traces_rejected_with_error_outcome"] = refused
	c.Extra["traces_rejected_with_exact_outcome"] = drift
	for _, i := range []int{0, len(cases) / 2, len(cases) - 1} {
		c.Sample(map[string]any{"case": cases[i].String(), "outcome": results[i].class, "reads": results[i].reads})
	}
	// ---- SELECT status: 'not found' only for the statuses ReadFile.tla's Select maps to it --------------
	c13SelectSweep(c)
	// ---- READ BINARY answered with DATA under a status other than 9000 (ReadFile.tla: any such answer is LoopReject /
	//      HdrReject, whatever octets come with it - 6281 "part of the returned data may be corrupted") -------------
	c13DataUnderOtherStatus(c)
	// ---- sessions of several reads with link faults (ReadSession.tla) ------------------------------------
	readSessionReplay(c, "C13")
}

// c13DataUnderOtherStatus: the k-th READ BINARY of a read is answered with as many (wrong) octets as were asked for and
// a warning / "more data" / error status instead of 9000: ReadFile returns an error or the exact file, never those octets.
func c13DataUnderOtherStatus(c *core.Ctx) {
	rnd := rand.New(rand.NewSource(c.Rand.Int63()))
	obj := buildTLV(4, 600, false, rnd)
	type job struct{ k, sw int }
	var jobs []job
	for _, sw1 := range []int{0x61, 0x62, 0x63, 0x64, 0x65, 0x91, 0x9F} {
		for sw2 := 0; sw2 < 256; sw2++ {
			if !c.Thorough() && sw1 != 0x62 && sw2%8 != int(c.Seed)%8 {
				continue
			}
			for k := 0; k < 4; k++ {
				jobs = append(jobs, job{k, sw1<<8 | sw2})
			}
		}
	}
	bad := make([]string, len(jobs))
	core.ParallelFor(len(jobs), func(i int) {
		j := jobs[i]
		chip, err := chipsim.New(chipsim.Config{MfFiles: map[uint16][]byte{testFid: obj}, Transport: chipsim.Transport{ExtendedLength: true}})
		if err != nil {
			core.Infra("C13: chipsim.New: %v", err)
		}
		s := sim.NewPlain(chip)
		n := 0
		s.Link.Script = func(idx int, cmd []byte, l *link.Link) link.Action {
			if len(cmd) >= 5 && cmd[1] == 0xB0 {
				n++
				if n-1 == j.k {
					return link.Action{Name: "data-under-other-status", Respond: func(g []byte, l *link.Link) []byte {
						out := make([]byte, len(g))
						for q := range out {
							out[q] = 0xA5 ^ byte(q)
						}
						out[len(out)-2], out[len(out)-1] = byte(j.sw>>8), byte(j.sw)
						return out
					}}
				}
			}
			return link.Pass
		}
		data, rerr := s.Nfc.ReadFile(testFid)
		if rerr == nil && data != nil && !bytes.Equal(data, obj) {
			bad[i] = fmt.Sprintf("%d octets, first difference at %d", len(data), firstDiff(data, obj))
		}
	})
	for i, b := range bad {
		c.Case(fmt.Sprintf("data-under-status/%d/%04X", jobs[i].k, jobs[i].sw), true)
		if b != "" {
			c.Violation("C13:octets-under-a-non-9000-status-returned", fmt.Sprintf("READ BINARY #%d of a read was answered with other octets under status %04X and ReadFile returned them (%s)", jobs[i].k+1, jobs[i].sw, b), map[string]any{"read": jobs[i].k, "status": fmt.Sprintf("%04X", jobs[i].sw)})
		}
	}
	c.Extra["data_under_other_status_cases"] = len(jobs)
}

// c13SelectSweep answers the SELECT of a present file with every status word of the classes 61..6F (and 9xxx
// neighbours of 9000): ReadFile may report 'not found' (nil, nil) only for 6A82 and the documented 6283, must
// return the file for 9000 and an error (or the exact file) for everything else.
func c13SelectSweep(c *core.Ctx) {
	rnd := rand.New(rand.NewSource(c.Rand.Int63()))
	obj := buildTLV(3, 200, false, rnd)
	var sws []int
	for sw1 := 0x61; sw1 <= 0x6F; sw1++ {
		for sw2 := 0; sw2 < 256; sw2++ {
			if c.Thorough() || sw1 == 0x6A || sw1 == 0x62 || sw2%16 == int(c.Seed)%16 || sw2 >= 0x80 && sw2 <= 0x8F {
				sws = append(sws, sw1<<8|sw2)
			}
		}
	}
	for sw2 := 1; sw2 < 256; sw2 += core.Pick(c, 5, 1) {
		sws = append(sws, 0x9000|sw2)
	}
	bad := make([]string, len(sws))
	core.ParallelFor(len(sws), func(i int) {
		sw := sws[i]
		chip, err := chipsim.New(chipsim.Config{MfFiles: map[uint16][]byte{testFid: obj}, Transport: chipsim.Transport{ExtendedLength: true}})
		if err != nil {
			core.Infra("C13: chipsim.New: %v", err)
		}
		s := sim.NewPlain(chip)
		s.Link.Script = func(idx int, cmd []byte, l *link.Link) link.Action {
			if len(cmd) >= 4 && cmd[1] == 0xA4 {
				return link.Action{Name: "select-status", Respond: func(g []byte, l *link.Link) []byte { return []byte{byte(sw >> 8), byte(sw)} }}
			}
			return link.Pass
		}
		data, rerr := s.Nfc.ReadFile(testFid)
		switch {
		case rerr != nil:
		case data == nil:
			if sw != 0x6A82 && sw != 0x6283 {
				bad[i] = "notfound"
			}
		case !bytes.Equal(data, obj):
			bad[i] = "WRONG"
		}
	})
	for i, b := range bad {
		c.Case(fmt.Sprintf("select-status/%04X", sws[i]), true)
		switch b {
		case "notfound":
			c.Violation("C13:notfound-although-chip-did-not-say-so", fmt.Sprintf("ReadFile returned nil, nil (file not found) although SELECT EF was answered %04X", sws[i]), map[string]any{"select_status": fmt.Sprintf("%04X", sws[i])})
		case "WRONG":
			c.Violation("C13:wrong-bytes", fmt.Sprintf("ReadFile returned other bytes than the file after SELECT EF was answered %04X", sws[i]), map[string]any{"select_status": fmt.Sprintf("%04X", sws[i])})
		}
	}
	c.Extra["select_status_sweep"] = len(sws)
}
