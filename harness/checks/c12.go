package checks

import (
	"math/big"
	"encoding/asn1"
	"sync/atomic"
	"bytes"
	"encoding/binary"
	"fmt"
	"math/rand"
	"runtime"
	"sort"
	"strings"
	"sync"
	"time"

	"github.com/gmrtd/gmrtd/activeauth"
	"github.com/gmrtd/gmrtd/chipauth"
	"github.com/gmrtd/gmrtd/cms"
	"github.com/gmrtd/gmrtd/cryptoutils"
	"github.com/gmrtd/gmrtd/document"
	"github.com/gmrtd/gmrtd/iso7816"
	"github.com/gmrtd/gmrtd/mobile"
	"github.com/gmrtd/gmrtd/mrz"
	"github.com/gmrtd/gmrtd/pace"
	"github.com/gmrtd/gmrtd/passiveauth"
	"github.com/gmrtd/gmrtd/password"
	"github.com/gmrtd/gmrtd/reader"
	"github.com/gmrtd/gmrtd/tlv"
	"github.com/gmrtd/gmrtd/verifier"

	"verif/harness/chipsim"
	"verif/harness/core"
	"verif/harness/lds"
	"verif/harness/link"
	"verif/harness/sim"
	"verif/harness/perso"
	"verif/harness/pki"
)

func init() { Registry["C12"] = C12 }

// ---- BER walker with offsets (tolerant: stops at the first thing it cannot read) ----------------------------------

type berNode struct {
	tagStart, lenStart, valStart, valEnd int
	depth                                int
	cons                                 bool
	tag0                                 byte
}

func berWalk(b []byte, base, depth int, out *[]berNode) {
	i := 0
	for i < len(b) && depth < 40 && len(*out) < 5000 {
		n := berNode{tagStart: base + i, depth: depth, tag0: b[i], cons: b[i]&0x20 != 0}
		j := i + 1
		if b[i]&0x1f == 0x1f {
			for j < len(b) && b[j]&0x80 != 0 {
				j++
			}
			j++
		}
		if j >= len(b) {
			return
		}
		n.lenStart = base + j
		l := int(b[j])
		j++
		if l == 0x80 {
			return // indefinite: not produced by the generators
		}
		if l > 0x80 {
			k := l & 0x7f
			if k > 4 || j+k > len(b) {
				return
			}
			l = 0
			for q := 0; q < k; q++ {
				l = l<<8 | int(b[j+q])
			}
			j += k
		}
		if l < 0 || j+l > len(b) {
			return
		}
		n.valStart, n.valEnd = base+j, base+j+l
		*out = append(*out, n)
		if n.cons {
			berWalk(b[j:j+l], base+j, depth+1, out)
		}
		i = j + l
	}
}

func berLenEnc(n int) []byte {
	switch {
	case n < 0x80:
		return []byte{byte(n)}
	case n < 0x100:
		return []byte{0x81, byte(n)}
	case n < 0x10000:
		return []byte{0x82, byte(n >> 8), byte(n)}
	case n < 0x1000000:
		return []byte{0x83, byte(n >> 16), byte(n >> 8), byte(n)}
	}
	return []byte{0x84, byte(n >> 24), byte(n >> 16), byte(n >> 8), byte(n)}
}

// replaceNode rebuilds b with node n replaced by tag||len||val and every enclosing length adjusted.
func replaceNode(b []byte, nodes []berNode, idx int, newTL, newVal []byte, fixParents bool) []byte {
	n := nodes[idx]
	repl := append(append([]byte{}, newTL...), newVal...)
	out := append(append(append([]byte{}, b[:n.tagStart]...), repl...), b[n.valEnd:]...)
	if !fixParents {
		return out
	}
	delta := len(repl) - (n.valEnd - n.tagStart)
	if delta == 0 {
		return out
	}
	// adjust ancestors from the innermost outwards (their headers lie before n.tagStart)
	for k := idx - 1; k >= 0; k-- {
		a := nodes[k]
		if a.depth < n.depth && a.valStart <= n.tagStart && a.valEnd >= n.valEnd {
			oldLen := a.valEnd - a.valStart
			hdrOld := out[a.lenStart:a.valStart]
			hdrNew := berLenEnc(oldLen + delta)
			out = append(append(append([]byte{}, out[:a.lenStart]...), hdrNew...), out[a.lenStart+len(hdrOld):]...)
			// (offsets of deeper nodes shift, but we only touch ancestors, which lie in front)
			n.depth = a.depth
			delta += len(hdrNew) - len(hdrOld)
		}
	}
	return out
}

func pickNodes(nodes []berNode, b []byte, target string, rnd *rand.Rand) []int {
	var out []int
	if len(nodes) == 0 {
		return nil
	}
	deepest := 0
	for i, n := range nodes {
		if n.depth > nodes[deepest].depth {
			deepest = i
		}
	}
	switch target {
	case "root":
		return []int{0}
	case "first-child":
		if len(nodes) > 1 {
			return []int{1}
		}
	case "last-child":
		return []int{len(nodes) - 1}
	case "deepest":
		return []int{deepest}
	case "random-node":
		for k := 0; k < 3; k++ {
			out = append(out, rnd.Intn(len(nodes)))
		}
	default:
		for i, n := range nodes {
			ok := false
			switch target {
			case "every-constructed":
				ok = n.cons
			case "every-oid":
				ok = n.tag0 == 0x06
			case "every-integer":
				ok = n.tag0 == 0x02
			case "every-octet-string":
				ok = n.tag0 == 0x04
			}
			if ok {
				out = append(out, i)
			}
		}
		if len(out) > 6 {
			rnd.Shuffle(len(out), func(i, j int) { out[i], out[j] = out[j], out[i] })
			out = out[:6]
		}
	}
	return out
}

func berMutants(b []byte, op, target string, rnd *rand.Rand) [][]byte {
	var nodes []berNode
	berWalk(b, 0, 0, &nodes)
	var out [][]byte
	for _, idx := range pickNodes(nodes, b, target, rnd) {
		n := nodes[idx]
		tagB := b[n.tagStart:n.lenStart]
		val := b[n.valStart:n.valEnd]
		tl := func(t []byte, l []byte) []byte { return append(append([]byte{}, t...), l...) }
		add := func(newTL, newVal []byte, fix bool) { out = append(out, replaceNode(b, nodes, idx, newTL, newVal, fix)) }
		switch op {
		case "len-short":
			if len(val) > 0 {
				add(tl(tagB, berLenEnc(len(val)-1-rnd.Intn(min(len(val), 8)))), val, false)
			}
		case "len-long":
			add(tl(tagB, berLenEnc(len(val)+1+rnd.Intn(300))), val, false)
		case "len-4GiB":
			add(tl(tagB, []byte{0x84, 0xFF, 0xFF, 0xFF, 0xFF}), val, false)
			add(tl(tagB, []byte{0x84, 0xFF, 0xFF, 0xFF, 0xFF}), val, true)
		case "len-2GiB":
			add(tl(tagB, []byte{0x84, 0x7F, 0xFF, 0xFF, 0xFF}), val, false)
			add(tl(tagB, []byte{0x84, 0x80, 0x00, 0x00, 0x00}), val, false)
			add(tl(tagB, []byte{0x83, 0xFF, 0xFF, 0xFF}), val, false)
		case "len-indefinite":
			add(tl(tagB, []byte{0x80}), val, true)
			add(tl(tagB, []byte{0x80}), append(append([]byte{}, val...), 0, 0), true)
		case "len-nonminimal":
			add(tl(tagB, []byte{0x84, byte(len(val) >> 24), byte(len(val) >> 16), byte(len(val) >> 8), byte(len(val))}), val, true)
		case "len-5octets":
			add(tl(tagB, []byte{0x85, 0, 0, 0, 0, byte(len(val))}), val, true)
			add(tl(tagB, []byte{0x88, 0x7F, 0xFF, 0xFF, 0xFF, 0xFF, 0xFF, 0xFF, 0xFF}), val, false)
		case "tag-zero":
			add(tl([]byte{0x00}, berLenEnc(len(val))), val, true)
		case "tag-long":
			add(tl([]byte{tagB[0] | 0x1f, 0x81, 0x82, 0x83, 0x04}, berLenEnc(len(val))), val, true)
			add(tl([]byte{tagB[0] | 0x1f, 0xFF, 0xFF, 0xFF, 0xFF, 0xFF, 0x7F}, berLenEnc(len(val))), val, true)
		case "tag-other-class":
			add(tl(append([]byte{tagB[0] ^ 0x80}, tagB[1:]...), berLenEnc(len(val))), val, false)
			add(tl(append([]byte{tagB[0] ^ 0x20}, tagB[1:]...), berLenEnc(len(val))), val, false)
		case "nest-deep":
			for _, d := range []int{49, 50, 51, 200, 5000} {
				v := append([]byte{}, val...)
				for k := 0; k < d; k++ {
					v = append(append([]byte{0x30}, berLenEnc(len(v))...), v...)
				}
				add(tl(tagB[:1], berLenEnc(len(v))), v, true)
			}
		case "children-many":
			for _, cnt := range []int{9999, 10001, 40000} {
				v := bytes.Repeat([]byte{0x04, 0x00}, cnt)
				add(tl([]byte{tagB[0] | 0x20}, berLenEnc(len(v))), v, true)
			}
		case "drop-node":
			add(nil, nil, true)
		case "dup-node":
			add(nil, append(append([]byte{}, b[n.tagStart:n.valEnd]...), b[n.tagStart:n.valEnd]...), true)
		case "swap-siblings":
			if idx+1 < len(nodes) && nodes[idx+1].depth == n.depth && nodes[idx+1].tagStart == n.valEnd {
				m := nodes[idx+1]
				sw := append(append([]byte{}, b[m.tagStart:m.valEnd]...), b[n.tagStart:n.valEnd]...)
				out = append(out, append(append(append([]byte{}, b[:n.tagStart]...), sw...), b[m.valEnd:]...))
			}
		case "empty-value":
			add(tl(tagB, []byte{0x00}), nil, true)
		case "value-huge":
			v := make([]byte, 70000)
			rnd.Read(v)
			add(tl(tagB, berLenEnc(len(v))), v, true)
		case "oid-malformed":
			for _, v := range [][]byte{{0x80}, {0x2A, 0x80}, {0xFF, 0xFF, 0xFF, 0xFF, 0xFF, 0xFF, 0xFF, 0xFF, 0xFF, 0xFF, 0x7F}, {}, {0x2A, 0x86, 0x48, 0x86}} {
				add(tl(tagB, berLenEnc(len(v))), v, true)
			}
		case "int-negative":
			add(tl(tagB, []byte{0x01}), []byte{0xFF}, true)
			add(tl(tagB, []byte{0x02}), []byte{0x80, 0x00}, true)
		case "int-huge":
			v := bytes.Repeat([]byte{0x7F}, 600)
			add(tl(tagB, berLenEnc(len(v))), v, true)
			add(tl(tagB, []byte{0x09}), []byte{0x00, 0xFF, 0xFF, 0xFF, 0xFF, 0xFF, 0xFF, 0xFF, 0xFF}, true)
		case "string-type-swap":
			add(tl([]byte{0x1E}, berLenEnc(len(val))), val, true) // BMPString with odd length etc.
			add(tl([]byte{0x0C}, berLenEnc(len(val))), bytes.Repeat([]byte{0xFF}, len(val)), true)
		case "bitstring-unused-9":
			if n.tag0 == 0x03 && len(val) > 0 {
				v := append([]byte{}, val...)
				v[0] = 9
				add(tl(tagB, berLenEnc(len(v))), v, true)
			} else {
				add(tl([]byte{0x03}, berLenEnc(len(val)+1)), append([]byte{0x09}, val...), true)
			}
		}
	}
	return out
}

func hostileByteMutants(b []byte, op string, rnd *rand.Rand) [][]byte {
	var out [][]byte
	switch op {
	case "truncate":
		for _, k := range []int{0, 1, 2, 3, len(b) / 2, len(b) - 1} {
			if k >= 0 && k < len(b) {
				out = append(out, append([]byte{}, b[:k]...))
			}
		}
		if len(b) > 4 {
			out = append(out, append([]byte{}, b[:1+rnd.Intn(len(b)-1)]...))
		}
	case "extend":
		out = append(out, append(append([]byte{}, b...), 0x00), append(append([]byte{}, b...), b...), append(append([]byte{}, b...), bytes.Repeat([]byte{0xFF}, 1000)...))
	case "bitflip":
		for k := 0; k < 12 && len(b) > 0; k++ {
			m := append([]byte{}, b...)
			m[rnd.Intn(len(m))] ^= 1 << uint(rnd.Intn(8))
			out = append(out, m)
		}
	case "zero-fill", "ff-fill":
		f := byte(0)
		if op == "ff-fill" {
			f = 0xFF
		}
		if len(b) > 8 {
			m := append([]byte{}, b...)
			s := rnd.Intn(len(m) - 4)
			for i := s; i < len(m) && i < s+1+rnd.Intn(64); i++ {
				m[i] = f
			}
			out = append(out, m, bytes.Repeat([]byte{f}, len(b)))
		}
	case "random-bytes":
		for _, n := range []int{1, 2, 5, 64, 4096} {
			m := make([]byte, n)
			rnd.Read(m)
			out = append(out, m)
		}
	case "empty":
		out = append(out, []byte{}, nil)
	}
	return out
}

// cborMutants damages a CBOR blob at the item classes of Hostile.tla using the independent walker of C15.
func cborMutants(b []byte, op, target string, rnd *rand.Rand) [][]byte {
	root, err := cborParse(b, 0)
	if err != nil {
		return nil
	}
	var items []cborItem
	var walk func(it cborItem, depth int)
	walk = func(it cborItem, depth int) {
		items = append(items, it)
		for _, k := range it.kids {
			walk(k, depth+1)
		}
	}
	walk(root, 0)
	pick := func() []cborItem {
		switch target {
		case "outer-envelope":
			return []cborItem{root}
		case "random-item":
			return []cborItem{items[rnd.Intn(len(items))], items[rnd.Intn(len(items))]}
		}
		var sel []cborItem
		for _, it := range items {
			switch target {
			case "inner-envelope", "payload-map":
				if it.major == 5 && it.start != root.start {
					sel = append(sel, it)
				}
				if it.major == 2 && it.end-it.valStart > 40 { // embedded envelopes travel as byte strings
					sel = append(sel, it)
				}
			case "file-entry", "evidence-field":
				if it.major == 2 {
					sel = append(sel, it)
				}
			}
		}
		if len(sel) > 4 {
			rnd.Shuffle(len(sel), func(i, j int) { sel[i], sel[j] = sel[j], sel[i] })
			sel = sel[:4]
		}
		return sel
	}
	var out [][]byte
	splice := func(it cborItem, repl []byte) { out = append(out, append(append(append([]byte{}, b[:it.start]...), repl...), b[it.end:]...)) }
	for _, it := range pick() {
		body := b[it.valStart:it.end]
		switch op {
		case "head-len-4GiB":
			splice(it, append([]byte{it.major<<5 | 26, 0xFF, 0xFF, 0xFF, 0xFF}, body...))
		case "head-len-2^63":
			splice(it, append([]byte{it.major<<5 | 27, 0x7F, 0xFF, 0xFF, 0xFF, 0xFF, 0xFF, 0xFF, 0xFF}, body...))
			splice(it, append([]byte{it.major<<5 | 27, 0xFF, 0xFF, 0xFF, 0xFF, 0xFF, 0xFF, 0xFF, 0xFF}, body...))
		case "map-key-renamed":
			if it.major == 5 && len(it.kids) > 0 {
				k := it.kids[0]
				m := append([]byte{}, b...)
				if k.end-k.valStart > 0 {
					m[k.valStart] ^= 0x01
				}
				out = append(out, m)
			}
		case "map-key-dropped":
			if it.major == 5 && len(it.kids) >= 2 {
				k, v := it.kids[0], it.kids[1]
				m := append(append([]byte{}, b[:k.start]...), b[v.end:]...)
				// the map header still announces the old count
				out = append(out, m)
			}
		case "value-type-swapped":
			splice(it, []byte{0xF6})                           // null
			splice(it, []byte{0x1B, 0, 0, 0, 1, 0, 0, 0, 0})   // a large integer
			splice(it, []byte{0x80})                           // empty array
			splice(it, append([]byte{0x60 | 5}, "hello"...)) // text
		case "nest-arrays-deep":
			for _, d := range []int{20, 200, 100000} {
				splice(it, append(bytes.Repeat([]byte{0x81}, d), 0x00))
			}
		case "indefinite-unterminated":
			splice(it, append([]byte{0x5F}, b[it.start:it.end]...))
			splice(it, []byte{0x9F, 0x01, 0x02})
			splice(it, []byte{0xBF, 0x61, 0x61})
		case "bytes-instead-of-map":
			splice(it, append([]byte{0x58, byte(min(it.end-it.start, 255))}, b[it.start:it.start+min(it.end-it.start, 255)]...))
		case "tag-wrapped":
			splice(it, append([]byte{0xC2}, b[it.start:it.end]...))
			splice(it, append([]byte{0xD8, 0x18}, b[it.start:it.end]...))
		case "float-instead-of-int":
			splice(it, []byte{0xFB, 0x7F, 0xF8, 0, 0, 0, 0, 0, 0})
		case "duplicate-key":
			if it.major == 5 && len(it.kids) >= 2 {
				k, v := it.kids[0], it.kids[1]
				dup := append(append([]byte{}, b[k.start:v.end]...), b[k.start:v.end]...)
				out = append(out, append(append(append([]byte{}, b[:k.start]...), dup...), b[v.end:]...))
			}
		}
	}
	return out
}

// ---- running an entry point ------------------------------------------------------------------------------------------

type hostileOutcome struct {
	kind string // value | error | panic | timeout
	text string
	dur  time.Duration
}

// hostileHangs counts calls that did not return: each leaves a spinning goroutine behind, so after a handful (each of them
// reported) the remaining calls are skipped - the check has its verdict and must itself come to an end.
var hostileHangs atomic.Int32

const maxHostileHangs = 8

func runHostile(f func() error) (o hostileOutcome) {
	o = runHostileOnce(f)
	if o.kind == "timeout" || o.dur > 2*time.Second {
		// a wall-clock observation: repeated alone before it counts (the first hang is already counted against the budget)
		core.Calm(func() {
			if o2 := runHostileOnce(f); o2.kind != "skipped" {
				o = o2
			}
		})
	}
	return o
}

func runHostileOnce(f func() error) (o hostileOutcome) {
	if hostileHangs.Load() >= maxHostileHangs {
		return hostileOutcome{kind: "skipped"}
	}
	done := make(chan hostileOutcome, 1)
	t0 := time.Now()
	go func() {
		defer func() {
			if r := recover(); r != nil {
				buf := make([]byte, 2048)
				n := runtime.Stack(buf, false)
				done <- hostileOutcome{kind: "panic", text: fmt.Sprintf("%v\n%s", r, buf[:n])}
			}
		}()
		if err := f(); err != nil {
			done <- hostileOutcome{kind: "error", text: err.Error()}
			return
		}
		done <- hostileOutcome{kind: "value"}
	}()
	select {
	case o = <-done:
	case <-time.After(30 * time.Second):
		o = hostileOutcome{kind: "timeout"}
		hostileHangs.Add(1)
	}
	o.dur = time.Since(t0)
	return
}

type c12ctx struct {
	pool   *cms.GenericCertPool
	trust  []byte
	smKeys struct{ enc, mac, ssc []byte }
}

// entry returns the function that feeds in to the named entry point.
func (x *c12ctx) entry(name string, in []byte) func() error {
	b := append([]byte{}, in...)
	switch name {
	case "tlv.Decode":
		return func() error {
			n, err := tlv.Decode(b)
			if err == nil && n != nil {
				_ = n.Encode()
				_ = n.String()
				_ = n.NodeByTag(0x30).NodeByTag(0x06).Value()
			}
			return err
		}
	case "tlv.DecodeEncode":
		return func() error { _, err := tlv.DecodeEncode(b); return err }
	case "tlv.Unwrap":
		return func() error { _, _, err := tlv.Unwrap(b); return err }
	case "Document.NewDG":
		return func() error {
			var last error
			for dg := 0; dg <= 17; dg++ {
				var d document.Document
				last = d.NewDG(dg, b)
			}
			return last
		}
	case "document.NewCardAccess":
		return func() error { _, err := document.NewCardAccess(b); return err }
	case "document.NewCardSecurity":
		return func() error { _, err := document.NewCardSecurity(b); return err }
	case "document.NewSOD":
		return func() error {
			s, err := document.NewSOD(b)
			if err == nil && s != nil {
				_ = s.DgHash(1)
				_ = s.HasDgHash(14)
			}
			return err
		}
	case "document.NewCOM":
		return func() error { _, err := document.NewCOM(b); return err }
	case "cms.ParseSignedData+Verify":
		return func() error {
			sd, err := cms.ParseSignedData(b)
			if err != nil {
				return err
			}
			_, err = sd.Verify(x.pool)
			return err
		}
	case "passiveauth.PassiveAuth":
		return func() error {
			d := &document.Document{}
			var err error
			if d.Mf.Lds1.Sod, err = document.NewSOD(b); err != nil {
				// as a card security object instead
				if d.Mf.CardSecurity, err = document.NewCardSecurity(b); err != nil {
					return err
				}
			}
			_, err = passiveauth.PassiveAuth(d, x.pool)
			return err
		}
	case "cms.CreateCertPoolFromSignedData":
		return func() error { _, err := cms.CreateCertPoolFromSignedData(b, x.trust); return err }
	case "cms.ParseCertificates":
		return func() error { _, err := cms.ParseCertificates(b); return err }
	case "GenericCertPool.Add":
		return func() error {
			p := &cms.GenericCertPool{}
			err := p.Add(b)
			_ = p.ByIssuerCountry("NL")
			_ = p.BySKI([]byte{1, 2})
			return err
		}
	case "document.NewDocumentFromCbor":
		return func() error { _, err := document.NewDocumentFromCbor(b); return err }
	case "document.UnmarshalVerifiableDoc":
		return func() error { _, _, err := document.UnmarshalVerifiableDoc(b); return err }
	case "verifier.Verify":
		return func() error {
			de, err := verifier.NewVerifier(x.pool).Verify(b)
			if err == nil && de != nil {
				_ = de.Summary()
				_, _ = de.ToCbor()
			}
			// ... and with a caller-supplied challenge: the one the bundle records (so that the evidence itself is
			// examined, whatever state it is in) and another one
			if _, ev, e2 := document.UnmarshalVerifiableDoc(b); e2 == nil && ev != nil && ev.ActiveAuth != nil {
				for _, ch := range [][]byte{ev.ActiveAuth.Nonce, {1, 2, 3, 4, 5, 6, 7, 8}} {
					if v, e3 := verifier.NewVerifier(x.pool).WithAAChallenge(ch); e3 == nil && v != nil {
						if d2, e4 := v.Verify(b); e4 == nil && d2 != nil {
							_ = d2.Summary()
						}
					}
					if mv, e3 := mobile.NewVerifier().WithAAChallenge(ch); e3 == nil && mv != nil {
						_, _ = mv.Verify(b)
					}
				}
			}
			return err
		}
	case "mobile.Verifier.Verify":
		return func() error {
			d, err := mobile.NewVerifier().Verify(b)
			if err == nil && d != nil {
				_, _ = d.SummaryJson()
				_, _ = d.DocumentExJson()
			}
			return err
		}
	case "iso7816.ParseRApdu":
		return func() error {
			r, err := iso7816.ParseRApdu(b)
			if err == nil && r != nil {
				_ = r.Encode()
				_ = r.String()
			}
			return err
		}
	case "SecureMessaging.Decode":
		return func() error {
			for _, alg := range []cryptoutils.BlockCipherAlg{cryptoutils.TDES, cryptoutils.AES} {
				sm, err := iso7816.NewSecureMessaging(alg, append([]byte{}, x.smKeys.enc...), append([]byte{}, x.smKeys.mac...))
				if err != nil {
					return err
				}
				n := 8
				if alg == cryptoutils.AES {
					n = 16
				}
				_ = sm.SetSSC(make([]byte, n))
				if _, err := sm.Decode(b); err != nil && alg == cryptoutils.AES {
					return err
				}
			}
			return nil
		}
	case "mrz.MrzDecode":
		return func() error { _, err := mrz.MrzDecode(string(b)); return err }
	case "password.NewPasswordMrz":
		return func() error { _, err := password.NewPasswordMrz(string(b)); return err }
	}
	if strings.HasPrefix(name, "document.NewDG") {
		var n int
		fmt.Sscanf(name, "document.NewDG%d", &n)
		return func() error {
			var d document.Document
			err := d.NewDG(n, b)
			if err == nil {
				ex := document.DocumentEx{Document: d}
				_ = ex.Summary()
			}
			return err
		}
	}
	return nil
}

// C12 — untrusted bytes never crash, hang or exhaust the process.
func C12(c *core.Ctx) {
	c.Level = "exploration"
	c.Rule = "one case per (mutation plan of Hostile.tla, base input, mutant, entry point) call; non-trivial = all; distinct by plan + entry point + mutant bytes"
	c.Assume("exploration, not proof: the deciding power is that of structure-aware generation over the plans of Hostile.tla plus the exhaustive short-string table of Tlv.tla; a specification cannot observe a panic, time or allocation - the harness does")
	c.Assume("resource bounds are generous observations: 30 s per call as time-out, 2 s + n^2 us as time bound, 64 MiB + 4 KiB x input length as allocation bound (Hostile.tla TimeBoundMs / AllocBound)")

	// ---- plans from the specification ----
	type plan struct {
		base, op, target string
		entries          []string
	}
	var plans []plan
	c.MustTLC(core.TLCOpts{Module: "MC_Hostile", Cfg: "MC_Hostile.cfg", Workers: 4, OnLine: func(line string) {
		if !strings.HasPrefix(line, "<<\"P\"") {
			return
		}
		v, err := core.ParseTLA(line)
		if err != nil {
			core.Infra("C12: %v", err)
		}
		t := v.([]any)
		p := plan{base: core.Str(t[1]), op: core.Str(t[2]), target: core.Str(t[3])}
		for _, e := range t[4].(core.Set) {
			p.entries = append(p.entries, core.Str(e))
		}
		sort.Strings(p.entries)
		plans = append(plans, p)
	}})
	if len(plans) < 350 {
		core.Infra("C12: only %d plans", len(plans))
	}
	sort.Slice(plans, func(i, j int) bool {
		return plans[i].base+plans[i].op+plans[i].target < plans[j].base+plans[j].op+plans[j].target
	})

	// ---- base inputs ----
	rnd := rand.New(rand.NewSource(c.Seed))
	bases := map[string][][]byte{}
	nb := core.Pick(c, 2, 6)
	for _, kind := range lds.Kinds {
		if kind == "SOD" || kind == "CardSecurity" {
			continue
		}
		for k := 0; k < nb; k++ {
			raw, err := lds.Encode(lds.RandomSpec(kind, rnd), lds.RandomOpts(rnd))
			if err != nil {
				core.Infra("C12: %v", err)
			}
			bases[kind] = append(bases[kind], raw)
		}
	}
	x := &c12ctx{pool: &cms.GenericCertPool{}}
	for si, ks := range []pki.KeySpec{{Kind: "ecdsa", Curve: "brainpoolP256r1", Hash: "sha256"}, {Kind: "rsa", Bits: 2048, Hash: "sha256"}, {Kind: "ecdsa", Curve: "P-256", Hash: "sha256", ExplicitParams: true}} {
		scs, err := pki.Scenarios(c.Seed+int64(si), ks)
		if err != nil {
			core.Infra("C12: scenarios: %v", err)
		}
		for _, s := range scs {
			switch {
			case s.Name == "genuine/base":
				bases["SOD"] = append(bases["SOD"], s.SOD)
				for _, t := range s.Trust {
					_ = x.pool.Add(t)
					x.trust = t
					bases["Certificates"] = append(bases["Certificates"], t)
				}
			case s.Name == "genuine/cardsecurity":
				bases["CardSecurity"] = append(bases["CardSecurity"], s.CardSec)
			case s.Name == "genuine/master-list":
				bases["MasterList"] = append(bases["MasterList"], s.MasterList)
			}
		}
	}
	// live sessions: exports with evidence of each mechanism
	var lives []sessOutcome
	for i, m := range []struct {
		cfg sessCfg
		opt sessOpt
	}{
		{sessCfg{"bac", []int{2, 11}, "rsa", true, true, "genuine"}, sessOpt{false, false, "mrz"}},
		{sessCfg{"cam+bac", []int{}, "ecdsa", true, true, "genuine"}, sessOpt{false, false, "mrz"}},
		{sessCfg{"bac", []int{}, "none", true, true, "genuine"}, sessOpt{false, false, "mrz"}}, // CA is run (and leaves evidence) only when nothing else authenticated the chip
		{sessCfg{"bac", []int{}, "none", true, true, "genuine"}, sessOpt{false, false, "mrz"}}, // the same with the other counter width (3DES / AES)
	} {
		v := randomVariety(rand.New(rand.NewSource(c.Seed + int64(i))))
		if i == 2 {
			v.CaOID = chipsim.OIDCaEcdh3Des
		}
		if i == 3 {
			v.CaOID = chipsim.OIDCaEcdhAes128
		}
		v.Transport = chipsim.Transport{ExtendedLength: true, AllowOversizeShortResponse: true, LengthErrorKeepsSession: true}
		v.MaxLe, v.AaBits, v.DG13Size = 256, 1024, 0
		p, err := personalise(m.cfg, v)
		if err != nil {
			core.Infra("C12: personalise: %v", err)
		}
		o := runSession(p, m.opt, 256, nil, nil, v.Seed)
		if o.err != "" || o.docEx == nil {
			core.Infra("C12: live session failed: %s", o.err)
		}
		lives = append(lives, o)
		blob, _ := o.docEx.ToCbor()
		bases["VerifiableDoc-CBOR"] = append(bases["VerifiableDoc-CBOR"], blob)
		db, _ := o.docEx.Document.ToCbor()
		bases["Document-CBOR"] = append(bases["Document-CBOR"], db)
		for _, t := range p.Trust {
			_ = x.pool.Add(t)
		}
		if i == 0 {
			bases["MRZ"] = append(bases["MRZ"], []byte(p.MRZ))
		}
	}
	for _, f := range []lds.MRZFields{
		{Format: "TD1", DocumentCode: "I", IssuingState: "UTO", Primary: "ERIKSSON", Secondary: "ANNA MARIA", DocumentNumber: "D23145890734", Nationality: "UTO", DateOfBirth: "740812", Sex: "F", DateOfExpiry: "120415", OptionalData: "AB"},
		{Format: "TD2", DocumentCode: "I", IssuingState: "UTO", Primary: "ERIKSSON", Secondary: "ANNA MARIA", DocumentNumber: "D23145890", Nationality: "UTO", DateOfBirth: "740812", Sex: "F", DateOfExpiry: "120415"},
		{Format: "TD3", DocumentCode: "P", IssuingState: "UTO", Primary: "ERIKSSON", Secondary: "ANNA MARIA", DocumentNumber: "L898902C3", Nationality: "UTO", DateOfBirth: "740812", Sex: "F", DateOfExpiry: "120415", OptionalData: "ZE184226B"},
	} {
		if s, err := lds.BuildMRZ(f); err == nil {
			bases["MRZ"] = append(bases["MRZ"], []byte(s))
		}
	}
	x.smKeys.enc, x.smKeys.mac = bytes.Repeat([]byte{0x11}, 16), bytes.Repeat([]byte{0x22}, 16)
	for _, cipher := range []string{"3DES", "AES"} {
		n := 8
		if cipher == "AES" {
			n = 16
		}
		ssc := make([]byte, n)
		ssc[n-1] = 1
		for _, d := range [][]byte{nil, bytes.Repeat([]byte{0xAB}, 17), bytes.Repeat([]byte{0xCD}, 300)} {
			if r, err := chipsim.ProtectResponse(cipher, x.smKeys.enc, x.smKeys.mac, ssc, false, d, 0x9000); err == nil {
				bases["SM-RAPDU"] = append(bases["SM-RAPDU"], r)
			}
		}
	}
	bases["RAPDU"] = [][]byte{{0x90, 0x00}, append(bytes.Repeat([]byte{0x5A}, 40), 0x62, 0x82)}

	// ---- mutants per plan ----
	type job struct {
		plan   int
		entry  string
		input  []byte
		bi, mi int
	}
	var jobs []job
	mutantsOf := func(p plan, b []byte, r *rand.Rand) [][]byte {
		switch {
		case p.target == "bytes":
			return hostileByteMutants(b, p.op, r)
		case p.target == "biometric-record":
			return recordMutants(b, p.op)
		case p.target == "text":
			s := string(b)
			switch p.op {
			case "truncate":
				return [][]byte{[]byte(s[:len(s)/2]), []byte(s[:len(s)-1]), []byte(s[:1])}
			case "extend":
				return [][]byte{[]byte(s + "<"), []byte(s + s), []byte(strings.Repeat(s, 50))}
			case "non-ascii":
				return [][]byte{[]byte(strings.Replace(s, "E", "É", 1)), []byte(strings.Replace(s, "<", "«", 2)), append([]byte(s[:10]), 0xFF, 0xFE)}
			case "lowercase":
				return [][]byte{[]byte(strings.ToLower(s))}
			case "control-chars":
				return [][]byte{[]byte(strings.Replace(s, "<", "\n", 3)), []byte(strings.Replace(s, "<", "\x00", 3))}
			case "all-fillers":
				return [][]byte{[]byte(strings.Repeat("<", len(s))), []byte(strings.Repeat("0", len(s)))}
			case "empty":
				return [][]byte{{}}
			}
		case lds.KindDG(p.base) > 0 || p.base == "COM" || p.base == "SOD" || p.base == "CardAccess" || p.base == "CardSecurity" || p.base == "MasterList" || p.base == "Certificates" || p.base == "SM-RAPDU":
			if p.base == "SM-RAPDU" && len(b) > 2 {
				var out [][]byte
				for _, m := range berMutants(b[:len(b)-2], p.op, p.target, r) {
					out = append(out, append(m, b[len(b)-2:]...))
				}
				return out
			}
			return berMutants(b, p.op, p.target, r)
		case strings.HasSuffix(p.base, "-CBOR") && p.target != "evidence":
			return cborMutants(b, p.op, p.target, r)
		}
		return nil
	}
	planMutants := map[int]int{}
	for pi, p := range plans {
		if p.target == "evidence" || p.target == "session" {
			continue
		}
		for bi, b := range bases[p.base] {
			r := rand.New(rand.NewSource(c.Seed*1000 + int64(pi*10+bi)))
			ms := mutantsOf(p, b, r)
			planMutants[pi] += len(ms)
			for mi, m := range ms {
				for _, e := range p.entries {
					if x.entry(e, nil) == nil {
						core.Infra("C12: no runner for entry point %q", e)
					}
					jobs = append(jobs, job{pi, e, m, bi, mi})
				}
			}
		}
	}
	vacuous := 0
	for pi, p := range plans {
		if p.target != "evidence" && p.target != "session" && planMutants[pi] == 0 {
			vacuous++
			if c.Thorough() {
				fmt.Printf("NOTE: C12: plan %s/%s/%s produced no mutant on the generated bases\n", p.base, p.op, p.target)
			}
		}
	}
	c.Extra["plans"] = len(plans)
	c.Extra["plans_without_mutant"] = vacuous
	// length-lying and size-inflating plans run one at a time (an entry point that believes a 4 GiB length field
	// would otherwise take the machine down 16 times in parallel), with the allocation measured; the rest in parallel
	heavy := func(p plan) bool {
		return strings.HasPrefix(p.op, "rec-") || strings.HasPrefix(p.op, "len-") || strings.HasPrefix(p.op, "head-len") || p.op == "children-many" || p.op == "nest-deep" || p.op == "nest-arrays-deep" || p.op == "value-huge"
	}
	outs := make([]hostileOutcome, len(jobs))
	allocs := make([]int64, len(jobs))
	var light []int
	var ms runtime.MemStats
	overAlloc := map[string]int{} // (entry point, operator) -> calls that allocated beyond the bound so far
	skippedHeavy := 0
	for i := range jobs {
		if !heavy(plans[jobs[i].plan]) {
			light = append(light, i)
			allocs[i] = -1
			continue
		}
		cls := jobs[i].entry + "/" + plans[jobs[i].plan].op
		if overAlloc[cls] >= 2 {
			// this entry point already showed twice that it believes this kind of length: more of the same only costs time
			allocs[i] = -1
			outs[i] = hostileOutcome{kind: "skipped"}
			skippedHeavy++
			continue
		}
		runtime.ReadMemStats(&ms)
		before := ms.TotalAlloc
		outs[i] = runHostile(x.entry(jobs[i].entry, jobs[i].input))
		runtime.ReadMemStats(&ms)
		allocs[i] = int64(ms.TotalAlloc - before)
		if allocs[i] > 64*1024*1024+4096*int64(len(jobs[i].input)) {
			overAlloc[cls]++
		}
		if allocs[i] > 1<<30 {
			runtime.GC()
		}
	}
	c.Extra["heavy_calls_skipped_after_repeated_findings"] = skippedHeavy
	core.ParallelFor(len(light), func(k int) {
		i := light[k]
		outs[i] = runHostile(x.entry(jobs[i].entry, jobs[i].input))
	})
	counts := map[string]int{}
	report := func(key, what string, in []byte, entry string) {
		c.Violation(key, what, map[string]any{"entry_point": entry, "input": core.Hex(in)})
	}
	for i, j := range jobs {
		p := plans[j.plan]
		o := outs[i]
		counts[o.kind]++
		c.Case(fmt.Sprintf("%s/%s/%s/%s/%x", p.base, p.op, p.target, j.entry, hashBytes(j.input)), true)
		switch o.kind {
		case "panic":
			report("C12:panic:"+j.entry+":"+panicSite(o.text), fmt.Sprintf("%s panicked on a %s mutant (%s at %s): %s", j.entry, p.base, p.op, p.target, firstLine(o.text)), j.input, j.entry)
		case "timeout":
			report("C12:timeout:"+j.entry, fmt.Sprintf("%s did not return within 30 s on a %s mutant (%s at %s, %d octets)", j.entry, p.base, p.op, p.target, len(j.input)), j.input, j.entry)
		default:
			n := int64(len(j.input))
			if o.dur > core.Stretch(time.Duration(2000+n*n/1000000)*time.Millisecond*4) {
				report("C12:slow:"+j.entry, fmt.Sprintf("%s took %s on %d octets (%s at %s)", j.entry, o.dur, n, p.op, p.target), j.input, j.entry)
			}
		}
	}
	c.Extra["outcomes"] = counts
	c.AddTraces(int64(len(jobs)))

	// ---- allocation: measured above for the heavy plans; a sequential sample of the others ----
	var memJobs []int
	for k, i := range light {
		if k%61 == 0 && outs[i].kind != "panic" && outs[i].kind != "timeout" {
			memJobs = append(memJobs, i)
		}
	}
	for _, i := range memJobs {
		runtime.ReadMemStats(&ms)
		before := ms.TotalAlloc
		_ = runHostile(x.entry(jobs[i].entry, jobs[i].input))
		runtime.ReadMemStats(&ms)
		allocs[i] = int64(ms.TotalAlloc - before)
	}
	worst := int64(0)
	measured := 0
	for i, a := range allocs {
		if a < 0 {
			continue
		}
		measured++
		if a > worst {
			worst = a
		}
		j := jobs[i]
		if a > 64*1024*1024+4096*int64(len(j.input)) {
			p := plans[j.plan]
			report("C12:allocation:"+j.entry, fmt.Sprintf("%s allocated %d MiB for an input of %d octets (%s at %s)", j.entry, a>>20, len(j.input), p.op, p.target), j.input, j.entry)
		}
	}
	memJobs = memJobs[:0]
	for i, a := range allocs {
		if a >= 0 {
			memJobs = append(memJobs, i)
		}
	}
	c.Extra["allocation_measurements"] = len(memJobs)
	c.Extra["largest_allocation_bytes"] = worst

	// ---- every short string of Tlv.tla's table: bare and wrapped as the content of every LDS template ----
	c12ShortStrings(c, x)
	// ---- every zone of Mrz.tla's mutant table (substitutions, transpositions, deletions, insertions on valid zones) ----
	c12MrzTable(c, x)
	// ---- evidence bundles with absent / empty / oversized structures ----
	c12Evidence(c, x, lives)
	// ---- hostile chips ----
	c12HostileChip(c)
	c12AuthenticatedHostileChip(c)
	c12CraftedRepresentatives(c)
	// ---- signatures whose scalars lie between the orders of sibling curves (the curve fall-back of cms) ----
	c12SiblingCurves(c)
	if len(jobs) > 0 {
		c.Sample(map[string]any{"plan": fmt.Sprintf("%+v", plans[jobs[0].plan]), "entry": jobs[0].entry, "outcome": outs[0].kind})
		c.Sample(map[string]any{"plan": fmt.Sprintf("%+v", plans[jobs[len(jobs)-1].plan]), "entry": jobs[len(jobs)-1].entry, "outcome": outs[len(jobs)-1].kind})
	}
}

func hashBytes(b []byte) uint64 {
	h := uint64(1469598103934665603)
	for _, c := range b {
		h = (h ^ uint64(c)) * 1099511628211
	}
	return h
}

func firstLine(s string) string {
	if i := strings.Index(s, "\n"); i >= 0 {
		return s[:i]
	}
	return s
}

// panicSite: the first frame inside gmrtd below the panic, as the class of the finding.
func panicSite(stack string) string {
	for _, l := range strings.Split(stack, "\n") {
		l = strings.TrimSpace(l)
		if strings.HasPrefix(l, "github.com/gmrtd/gmrtd/") {
			if i := strings.Index(l, "("); i > 0 {
				l = l[:i]
			}
			return strings.TrimPrefix(l, "github.com/gmrtd/gmrtd/")
		}
	}
	return "unknown"
}

func c12ShortStrings(c *core.Ctx, x *c12ctx) {
	var rows [][]byte
	c.MustTLC(core.TLCOpts{Module: "MC_Tlv", Cfg: core.Pick(c, "MC_Tlv_quick.cfg", "MC_Tlv_full.cfg"), OnLine: func(line string) {
		if strings.HasPrefix(line, "<<\"T\"") {
			if v, err := core.ParseTLA(line); err == nil {
				rows = append(rows, core.Bytes(v.([]any)[1]))
			}
		}
	}})
	if len(rows) < 1000 {
		core.Infra("C12: short-string table has %d rows", len(rows))
	}
	wrappers := []struct {
		tag   []byte
		entry string
	}{{[]byte{0x61}, "document.NewDG1"}, {[]byte{0x75}, "document.NewDG2"}, {[]byte{0x67}, "document.NewDG7"}, {[]byte{0x6B}, "document.NewDG11"}, {[]byte{0x6C}, "document.NewDG12"},
		{[]byte{0x6D}, "document.NewDG13"}, {[]byte{0x6E}, "document.NewDG14"}, {[]byte{0x6F}, "document.NewDG15"}, {[]byte{0x70}, "document.NewDG16"}, {[]byte{0x60}, "document.NewCOM"},
		{[]byte{0x77}, "document.NewSOD"}, {[]byte{0x31}, "document.NewCardAccess"}, {[]byte{0x30}, "document.NewCardSecurity"}}
	type res struct {
		entry string
		in    []byte
		o     hostileOutcome
	}
	var mu sync.Mutex
	var bad []res
	n := 0
	core.ParallelFor(len(rows), func(i int) {
		s := rows[i]
		try := func(entry string, in []byte) {
			// direct call with recover (a goroutine per call would dominate the cost)
			var o hostileOutcome
			func() {
				defer func() {
					if r := recover(); r != nil {
						buf := make([]byte, 2048)
						k := runtime.Stack(buf, false)
						o = hostileOutcome{kind: "panic", text: fmt.Sprintf("%v\n%s", r, buf[:k])}
					}
				}()
				_ = x.entry(entry, in)()
			}()
			if o.kind == "panic" {
				mu.Lock()
				bad = append(bad, res{entry, in, o})
				mu.Unlock()
			}
		}
		// one goroutine per ROW (not per call) so that a call that does not return is noticed: the row gets 30 s
		if hostileHangs.Load() >= maxHostileHangs {
			return
		}
		var at atomic.Pointer[string]
		done := make(chan struct{})
		go func() {
			defer close(done)
			for _, e := range []string{"tlv.Decode", "tlv.DecodeEncode", "tlv.Unwrap", "iso7816.ParseRApdu", "SecureMessaging.Decode"} {
				ee := e
				at.Store(&ee)
				try(e, s)
			}
			for _, w := range wrappers {
				ee := w.entry
				at.Store(&ee)
				try(w.entry, append(append(append([]byte{}, w.tag...), berLenEnc(len(s))...), s...))
			}
		}()
		select {
		case <-done:
		case <-time.After(30 * time.Second):
			hostileHangs.Add(1)
			entry := "?"
			if p := at.Load(); p != nil {
				entry = *p
			}
			mu.Lock()
			bad = append(bad, res{entry, s, hostileOutcome{kind: "timeout"}})
			mu.Unlock()
		}
	})
	n = len(rows) * (5 + len(wrappers))
	for k := 0; k < n; k += 1 {
		// counted in bulk below
		break
	}
	c.Evaluations += int64(n)
	c.Extra["short_string_calls"] = n
	c.AddTraces(int64(len(rows)))
	for _, b := range bad {
		if b.o.kind == "timeout" {
			c.Violation("C12:timeout:"+b.entry, fmt.Sprintf("%s did not return within 30 s on the short string %x (bare or wrapped in its file template)", b.entry, b.in), map[string]any{"entry_point": b.entry, "input": core.Hex(b.in)})
			continue
		}
		c.Violation("C12:panic:"+b.entry+":"+panicSite(b.o.text), fmt.Sprintf("%s panicked on %x: %s", b.entry, b.in, firstLine(b.o.text)), map[string]any{"entry_point": b.entry, "input": core.Hex(b.in)})
	}
}

// c12Evidence: EvidenceOps of Hostile.tla on the decoded bundle of a live session.
func c12Evidence(c *core.Ctx, x *c12ctx, lives []sessOutcome) {
	big := make([]byte, 100000)
	n := 0
	for li, l := range lives {
		base := l.docEx
		type mut struct {
			name string
			f    func(d *document.DocumentEx)
		}
		var muts []mut
		add := func(name string, f func(d *document.DocumentEx)) { muts = append(muts, mut{name, f}) }
		add("record-absent/aa", func(d *document.DocumentEx) { d.Session.ActiveAuthResult = nil })
		add("record-absent/ca", func(d *document.DocumentEx) { d.Session.ChipAuthResult = nil })
		add("record-absent/cam", func(d *document.DocumentEx) { d.Session.PaceCamResult = nil })
		for _, f := range []string{"Dg14", "Dg15", "Dg1", "Sod", "CardAccess", "CardSecurity", "Com"} {
			ff := f
			add("document-file-absent/"+f, func(d *document.DocumentEx) {
				switch ff {
				case "Dg14":
					d.Document.Mf.Lds1.Dg14 = nil
				case "Dg15":
					d.Document.Mf.Lds1.Dg15 = nil
				case "Dg1":
					d.Document.Mf.Lds1.Dg1 = nil
				case "Sod":
					d.Document.Mf.Lds1.Sod = nil
				case "CardAccess":
					d.Document.Mf.CardAccess = nil
				case "CardSecurity":
					d.Document.Mf.CardSecurity = nil
				case "Com":
					d.Document.Mf.Lds1.Com = nil
				}
			})
		}
		fields := func(d *document.DocumentEx) map[string]*[]byte {
			m := map[string]*[]byte{}
			if r := d.Session.ChipAuthResult; r != nil && r.Evidence != nil {
				m["ca.termPri"], m["ca.termPubKey"], m["ca.smRapdu"], m["ca.smSsc"] = &r.Evidence.TermPri, &r.Evidence.TermPubKey, &r.Evidence.SmRapdu, &r.Evidence.SmSsc
			}
			if r := d.Session.ActiveAuthResult; r != nil && r.Evidence != nil {
				m["aa.nonce"], m["aa.signature"] = &r.Evidence.Nonce, &r.Evidence.Signature
			}
			if r := d.Session.PaceCamResult; r != nil && r.Evidence != nil {
				e := r.Evidence
				m["cam.nonce"], m["cam.termMapPri"], m["cam.termMapPub"], m["cam.chipMapPub"] = &e.Nonce, &e.TermMapPri, &e.TermMapPub, &e.ChipMapPub
				m["cam.termKaPri"], m["cam.termKaPub"], m["cam.chipKaPub"], m["cam.ecadIC"] = &e.TermKaPri, &e.TermKaPub, &e.ChipKaPub, &e.EcadIC
			}
			return m
		}
		probe := cloneSession(base.Session)
		pd := &document.DocumentEx{Document: base.Document, Session: probe}
		for name := range fields(pd) {
			nm := name
			add("field-absent/"+nm, func(d *document.DocumentEx) { *fields(d)[nm] = nil })
			add("field-empty/"+nm, func(d *document.DocumentEx) { *fields(d)[nm] = []byte{} })
			add("field-oversized/"+nm, func(d *document.DocumentEx) { *fields(d)[nm] = big })
			for _, n := range []int{9, 12, 16, 17} { // between the 8-octet and the 16-octet counter, and beyond
				nn := n
				add(fmt.Sprintf("counter-oversized-%d/%s", nn, nm), func(d *document.DocumentEx) { *fields(d)[nm] = bytes.Repeat([]byte{0xFF}, nn) })
			}
			add("field-one-octet/"+nm, func(d *document.DocumentEx) { *fields(d)[nm] = []byte{0x00} })
		}
		// ArrangementOps of Hostile.tla: a well-formed DG14 whose infos, keys and key identifiers do not fit together
		for _, arr := range []string{"ca-info-keyid/key-without-keyid", "ca-info-without-keyid/key-with-keyid", "ca-info-keyid/other-key-keyid", "ca-info-without-key",
			"key-without-info", "two-keys-without-info", "dh-key", "pace-info-without-parameter-id", "no-infos"} {
			a := arr
			add("dg14-arrangement/"+a, func(d *document.DocumentEx) {
				counts := map[string]int{"chipAuth": 1, "chipAuthPublicKey": 1, "pace": 1, "activeAuth": 1}
				switch a {
				case "ca-info-without-key":
					counts["chipAuthPublicKey"] = 0
				case "key-without-info":
					counts["chipAuth"] = 0
				case "two-keys-without-info":
					counts["chipAuth"], counts["chipAuthPublicKey"] = 0, 2
				case "no-infos":
					counts = map[string]int{}
				}
				spec, err := lds.ShapeSecInfos("DG14", counts, a == "two-keys-without-info", rand.New(rand.NewSource(int64(len(a)))))
				if err != nil {
					return
				}
				five, six := int64(5), int64(6)
				for i := range spec.SecurityInfos.Infos {
					x := &spec.SecurityInfos.Infos[i]
					switch x.Type {
					case "chipAuth":
						x.OID = "0.4.0.127.0.7.2.2.3.2.2"
						if strings.HasPrefix(a, "ca-info-keyid") {
							x.KeyID = &five
						}
					case "chipAuthPublicKey":
						x.OID = "0.4.0.127.0.7.2.2.1.2"
						if a == "dh-key" {
							x.OID = "0.4.0.127.0.7.2.2.1.1"
						}
						if a == "ca-info-without-keyid/key-with-keyid" || a == "ca-info-keyid/other-key-keyid" {
							x.KeyID = &six
						}
					case "pace":
						if a == "pace-info-without-parameter-id" {
							x.ParameterID = nil
						}
					}
				}
				raw, err := lds.Encode(spec, lds.EncodeOpts{})
				if err != nil {
					return
				}
				if dg14, err := document.NewDG14(raw); err == nil && dg14 != nil {
					d.Document.Mf.Lds1.Dg14 = dg14
				}
			})
		}
		add("oid-empty/aa", func(d *document.DocumentEx) {
			if r := d.Session.ActiveAuthResult; r != nil && r.Evidence != nil {
				r.Evidence.Algorithm = nil
			}
		})
		add("oid-empty/cam", func(d *document.DocumentEx) {
			if r := d.Session.PaceCamResult; r != nil && r.Evidence != nil {
				r.Evidence.PaceOid = nil
				r.Evidence.ParameterId = -1
			}
		})
		for _, m := range muts {
			d := &document.DocumentEx{Document: base.Document, Session: cloneSession(base.Session)}
			m.f(d)
			n++
			c.Case(fmt.Sprintf("evidence/%d/%s", li, m.name), true)
			// (a) through the serialised form and both verifiers
			var blob []byte
			o := runHostile(func() error { var err error; blob, err = d.ToCbor(); return err })
			if o.kind == "panic" {
				c.Violation("C12:panic:DocumentEx.ToCbor:"+panicSite(o.text), fmt.Sprintf("ToCbor panicked on a bundle with %s: %s", m.name, firstLine(o.text)), map[string]any{"mutation": m.name})
				continue
			}
			if blob != nil {
				for _, e := range []string{"verifier.Verify", "mobile.Verifier.Verify", "document.UnmarshalVerifiableDoc"} {
					if o := runHostile(x.entry(e, blob)); o.kind == "panic" || o.kind == "timeout" {
						c.Violation("C12:"+o.kind+":"+e+":"+panicSite(o.text), fmt.Sprintf("%s: %s on an evidence bundle with %s: %s", e, o.kind, m.name, firstLine(o.text)), map[string]any{"mutation": m.name, "input": core.Hex(blob)})
					}
				}
			}
			// (b) the three evidence verifiers directly
			doc := d.Document
			direct := []struct {
				name string
				f    func() error
			}{
				{"activeauth.VerifyEvidence", func() error {
					var ev *document.ActiveAuthEvidence
					if r := d.Session.ActiveAuthResult; r != nil {
						ev = r.Evidence
					}
					_, err := activeauth.VerifyEvidence(&doc, ev)
					return err
				}},
				{"chipauth.VerifyEvidence", func() error {
					var ev *document.ChipAuthEvidence
					if r := d.Session.ChipAuthResult; r != nil {
						ev = r.Evidence
					}
					_, err := chipauth.VerifyEvidence(&doc, ev)
					return err
				}},
				{"pace.VerifyEvidence", func() error {
					var ev *document.PaceCamEvidence
					if r := d.Session.PaceCamResult; r != nil {
						ev = r.Evidence
					}
					_, err := pace.VerifyEvidence(&doc, ev)
					return err
				}},
			}
			for _, dv := range direct {
				if o := runHostile(dv.f); o.kind == "panic" || o.kind == "timeout" {
					c.Violation("C12:"+o.kind+":"+dv.name+":"+panicSite(o.text), fmt.Sprintf("%s: %s with %s: %s", dv.name, o.kind, m.name, firstLine(o.text)), map[string]any{"mutation": m.name})
				}
			}
		}
	}
	c.Extra["evidence_structure_cases"] = n
}

// c12HostileChip: ResponseOps of Hostile.tla: a chip that answers every command after exchange k with hostile bytes.
func c12HostileChip(c *core.Ctx) {
	v := randomVariety(rand.New(rand.NewSource(c.Seed + 77)))
	v.Transport = chipsim.Transport{ExtendedLength: true, AllowOversizeShortResponse: true, LengthErrorKeepsSession: true}
	v.MaxLe, v.AaBits, v.DG13Size = 256, 1024, 0
	p, err := personalise(sessCfg{"pace+bac", []int{2, 11}, "rsa", true, true, "genuine"}, v)
	if err != nil {
		core.Infra("C12: personalise: %v", err)
	}
	ops := []string{"all-empty", "all-garbage", "all-9000-no-data", "huge-responses", "tlv-bombs", "never-ending-file", "status-only-errors"}
	type job struct {
		op   string
		from int
	}
	var jobs []job
	for _, op := range ops {
		for _, from := range []int{0, 1, 2, 3, 5, 8, 13, 21, 34, 55, 89} {
			jobs = append(jobs, job{op, from})
		}
	}
	outs := make([]hostileOutcome, len(jobs))
	core.ParallelFor(len(jobs), func(i int) {
		j := jobs[i]
		rnd := rand.New(rand.NewSource(c.Seed + int64(i)))
		outs[i] = runHostile(func() error {
			chip, _ := p.Chip()
			l := link.New(chip)
			l.Script = func(idx int, cmd []byte, ll *link.Link) link.Action {
				if idx < j.from {
					return link.Pass
				}
				return link.Action{Name: j.op, Respond: func(g []byte, ll *link.Link) []byte {
					switch j.op {
					case "all-empty":
						return []byte{}
					case "all-garbage":
						b := make([]byte, rnd.Intn(300))
						rnd.Read(b)
						return b
					case "all-9000-no-data":
						return []byte{0x90, 0x00}
					case "huge-responses":
						b := make([]byte, 65536+rnd.Intn(1000))
						rnd.Read(b)
						return append(b, 0x90, 0x00)
					case "tlv-bombs":
						return append(append(bytes.Repeat([]byte{0x30, 0x80}, 2000), bytes.Repeat([]byte{0, 0}, 10)...), 0x90, 0x00)
					case "never-ending-file":
						// a header announcing 4 GiB / 65535 octets, then full chunks forever
						if len(cmd) > 1 && cmd[1] == 0xB0 {
							b := make([]byte, 256)
							binary.BigEndian.PutUint32(b[1:], 0x84FFFFFF)
							b[0] = 0x61
							return append(b, 0x90, 0x00)
						}
						return []byte{0x90, 0x00}
					default:
						return []byte{[]byte{0x69, 0x6A, 0x6F, 0x67, 0x62}[rnd.Intn(5)], byte(rnd.Intn(256))}
					}
				}}
			}
			nfc := iso7816.NewNfcSession(l)
			pw, _ := password.NewPasswordMrz(p.MRZ)
			pool := &cms.GenericCertPool{}
			_, _, err := reader.NewReader(nil, nfc, pool).ReadDocument(pw, []byte{0x3B}, nil)
			return err
		})
	})
	for i, j := range jobs {
		c.Case(fmt.Sprintf("hostile-chip/%s/from%d", j.op, j.from), true)
		o := outs[i]
		if o.kind == "panic" || o.kind == "timeout" {
			c.Violation("C12:"+o.kind+":reader.ReadDocument:"+panicSite(o.text), fmt.Sprintf("ReadDocument: %s with a chip answering %s from exchange %d: %s", o.kind, j.op, j.from, firstLine(o.text)), map[string]any{"op": j.op, "from": j.from})
		} else if o.dur > core.Stretch(20*time.Second) {
			c.Violation("C12:slow:reader.ReadDocument", fmt.Sprintf("ReadDocument took %s with a chip answering %s from exchange %d", o.dur, j.op, j.from), map[string]any{"op": j.op, "from": j.from})
		}
	}
	c.Extra["hostile_chip_sessions"] = len(jobs)
}

// c12SiblingCurves: a security object whose ECDSA signature (r, s) is out of range for the curve of the signer's key
// but in range for the curve of the same size of the other family (brainpoolPxxxr1 <-> NIST P-xxx): cms falls back
// to the sibling curve with the SAME public point, which is not a point of that curve.
func c12SiblingCurves(c *core.Ctx) {
	orders := map[string]string{
		"brainpoolP192r1": "C302F41D932A36CDA7A3462F9E9E916B5BE8F1029AC4ACC1", "P-192": "FFFFFFFFFFFFFFFFFFFFFFFF99DEF836146BC9B1B4D22831",
		"brainpoolP224r1": "D7C134AA264366862A18302575D0FB98D116BC4B6DDEBCA3A5A7939F", "P-224": "FFFFFFFFFFFFFFFFFFFFFFFFFFFF16A2E0B8F03E13DD29455C5C2A3D",
		"brainpoolP256r1": "A9FB57DBA1EEA9BC3E660A909D838D718C397AA3B561A6F7901E0E82974856A7", "P-256": "FFFFFFFF00000000FFFFFFFFFFFFFFFFBCE6FAADA7179E84F3B9CAC2FC632551",
		"brainpoolP384r1": "8CB91E82A3386D280F5D6F7E50E641DF152F7109ED5456B31F166E6CAC0425A7CF3AB6AF6B7FC3103B883202E9046565", "P-384": "FFFFFFFFFFFFFFFFFFFFFFFFFFFFFFFFFFFFFFFFFFFFFFFFC7634D81F4372DDF581A0DB248B0A77AECEC196ACCC52973",
	}
	n := 0
	for _, curve := range []string{"brainpoolP192r1", "brainpoolP224r1", "brainpoolP256r1", "brainpoolP384r1"} {
		for _, explicit := range []bool{false, true} {
			ks := pki.KeySpec{Kind: "ecdsa", Curve: curve, Hash: "sha256", ExplicitParams: explicit}
			scs, err := pki.BaseScenarios(c.Seed+int64(n), ks)
			if err != nil || len(scs) == 0 {
				core.Infra("C12: BaseScenarios(%v): %v", ks, err)
			}
			var base *pki.Scenario
			for i := range scs {
				if scs[i].Name == "genuine/base" {
					base = &scs[i]
				}
			}
			if base == nil {
				core.Infra("C12: no genuine/base scenario")
			}
			// r = order of the key's curve + small, s = 1: DER SEQUENCE { INTEGER r, INTEGER s }
			ord := hexBytes(orders[curve])
			for _, delta := range []byte{0, 1, 7} {
				r := append([]byte{}, ord...)
				r[len(r)-1] += delta
				if r[0]&0x80 != 0 {
					r = append([]byte{0}, r...)
				}
				sig := append([]byte{0x02, byte(len(r))}, r...)
				sig = append(sig, 0x02, 0x01, 0x01)
				sig = append([]byte{0x30, byte(len(sig))}, sig...)
				// replace the signature value of the SignerInfo: the last OCTET STRING of the SOD with the old signature's length
				sod := replaceLastOctetString(base.SOD, sig)
				if sod == nil {
					continue
				}
				n++
				c.Case(fmt.Sprintf("sibling-curve/%s/%v/%d", curve, explicit, delta), true)
				pool := &cms.GenericCertPool{}
				for _, t := range base.Trust {
					_ = pool.Add(t)
				}
				o := runHostile(func() error {
					d := &document.Document{}
					var err error
					if d.Mf.Lds1.Sod, err = document.NewSOD(sod); err != nil {
						return err
					}
					_, err = passiveauth.PassiveAuth(d, pool)
					return err
				})
				if o.kind == "panic" || o.kind == "timeout" {
					c.Violation("C12:"+o.kind+":passiveauth.PassiveAuth:"+panicSite(o.text), fmt.Sprintf("PassiveAuth: %s on a security object signed under %s whose signature scalar r lies between the orders of %s and its sibling curve: %s", o.kind, curve, curve, firstLine(o.text)),
						map[string]any{"input": core.Hex(sod), "curve": curve})
				}
			}
		}
	}
	c.Extra["sibling_curve_cases"] = n
}

func hexBytes(s string) []byte {
	out := make([]byte, len(s)/2)
	for i := range out {
		fmt.Sscanf(s[2*i:2*i+2], "%02X", &out[i])
	}
	return out
}

// replaceLastOctetString replaces the content of the last primitive OCTET STRING (the SignerInfo's signature) and
// fixes every enclosing length.
func replaceLastOctetString(b []byte, val []byte) []byte {
	var nodes []berNode
	berWalk(b, 0, 0, &nodes)
	last := -1
	for i, n := range nodes {
		if n.tag0 == 0x04 {
			last = i
		}
	}
	if last < 0 {
		return nil
	}
	return replaceNode(b, nodes, last, append([]byte{0x04}, berLenEnc(len(val))...), val, true)
}

// c12MrzTable feeds every zone of the Mrz.tla table (the structured neighbourhood of valid zones: every single
// character substitution incl. '<' at every position, transpositions, deletions, insertions) to the MRZ entry points,
// bare and as the content of a DG1.
func c12MrzTable(c *core.Ctx, x *c12ctx) {
	var zones []string
	c.MustTLC(core.TLCOpts{Module: "MC_Mrz", Cfg: core.Pick(c, "MC_Mrz_quick.cfg", "MC_Mrz_full.cfg"), Timeout: 30 * time.Minute, OnLine: func(line string) {
		if !strings.HasPrefix(line, "<<\"T\"") {
			return
		}
		v, err := core.ParseTLA(line)
		if err != nil {
			return
		}
		codes := core.Ints(v.([]any)[1])
		b := make([]byte, len(codes))
		for i, k := range codes {
			switch {
			case k < 10:
				b[i] = byte('0' + k)
			case k < 36:
				b[i] = byte('A' + k - 10)
			case k == 36:
				b[i] = '<'
			default:
				b[i] = ' '
			}
		}
		zones = append(zones, string(b))
	}})
	if len(zones) < 1000 {
		core.Infra("C12: MRZ table has %d zones", len(zones))
	}
	type bad struct {
		entry, zone, text string
	}
	var mu sync.Mutex
	var bads []bad
	core.ParallelFor(len(zones), func(i int) {
		z := zones[i]
		dg1 := append([]byte{0x5F, 0x1F, byte(len(z))}, z...)
		dg1 = append(append([]byte{0x61}, berLenEnc(len(dg1))...), dg1...)
		for _, e := range []struct {
			name string
			in   []byte
		}{{"mrz.MrzDecode", []byte(z)}, {"password.NewPasswordMrz", []byte(z)}, {"document.NewDG1", dg1}} {
			func() {
				defer func() {
					if r := recover(); r != nil {
						buf := make([]byte, 2048)
						k := runtime.Stack(buf, false)
						mu.Lock()
						bads = append(bads, bad{e.name, z, fmt.Sprintf("%v\n%s", r, buf[:k])})
						mu.Unlock()
					}
				}()
				_ = x.entry(e.name, e.in)()
			}()
		}
	})
	c.Evaluations += int64(3 * len(zones))
	c.Extra["mrz_table_zones"] = len(zones)
	for _, b := range bads {
		c.Violation("C12:panic:"+b.entry+":"+panicSite(b.text), fmt.Sprintf("%s panicked on the zone %q: %s", b.entry, b.zone, firstLine(b.text)), map[string]any{"entry_point": b.entry, "zone": b.zone})
	}
}

// recordMutants: the ISO/IEC 19794-5 face record of a DG2 ("FAC" 0 "010" 0, record length, number of faces, then per
// face: block length, number of feature points, ... width, height ...) with counts and lengths that lie. The BER
// structure around it stays intact.
func recordMutants(b []byte, op string) [][]byte {
	i := bytes.Index(b, []byte{'F', 'A', 'C', 0})
	if i < 0 || i+14+20+12 > len(b) {
		return nil
	}
	var out [][]byte
	put := func(off int, val []byte) {
		m := append([]byte{}, b...)
		copy(m[off:], val)
		out = append(out, m)
	}
	huge := [][]byte{{0x10, 0, 0, 0}, {0x7F, 0xFF, 0xFF, 0xFF}, {0xFF, 0xFF, 0xFF, 0xFF}, {0, 0, 0, 0}, {0, 0, 0, 1}}
	switch op {
	case "rec-record-length":
		for _, v := range huge {
			put(i+8, v)
		}
	case "rec-block-length":
		for _, v := range huge {
			put(i+14, v)
		}
		// a block length that lies together with a record length that agrees with it
		m := append([]byte{}, b...)
		copy(m[i+8:], []byte{0x10, 0, 0, 0x0E})
		copy(m[i+14:], []byte{0x10, 0, 0, 0})
		out = append(out, m)
	case "rec-face-count":
		put(i+12, []byte{0xFF, 0xFF})
		put(i+12, []byte{0, 0})
		put(i+12, []byte{0, 9})
	case "rec-feature-count":
		put(i+18, []byte{0xFF, 0xFF})
		put(i+18, []byte{0, 33})
		put(i+18, []byte{0x7F, 0xFF})
	case "rec-image-dimensions":
		// image information block follows the 20-octet facial information block (+ 8 per feature point of the genuine record)
		nfp := int(b[i+18])<<8 | int(b[i+19])
		off := i + 14 + 20 + 8*nfp
		if off+12 <= len(b) {
			put(off+2, []byte{0xFF, 0xFF, 0xFF, 0xFF})
			put(off+2, []byte{0, 0, 0, 0})
		}
	}
	return out
}

// c12AuthenticatedHostileChip: "for all chip response sequences" includes the responses of a counterpart that HOLDS
// the session keys (a hostile chip after BAC / PACE, or whoever wrote an evidence bundle): every malformed arrangement
// of the response data objects under a VALID MAC at the expected counter must be refused by DoAPDU without a panic.
func c12AuthenticatedHostileChip(c *core.Ctx) {
	blocks := func(n int, rnd *rand.Rand) []byte { b := make([]byte, n); rnd.Read(b); return b }
	type shape struct {
		name string
		dos  func(bs int, rnd *rand.Rand) []byte
	}
	sw99 := []byte{0x99, 0x02, 0x90, 0x00}
	cat := func(p ...[]byte) []byte { return bytes.Join(p, nil) }
	shapes := []shape{
		{"do87-indicator-only", func(bs int, r *rand.Rand) []byte { return cat([]byte{0x87, 0x01, 0x01}, sw99) }},
		{"do87-empty", func(bs int, r *rand.Rand) []byte { return cat([]byte{0x87, 0x00}, sw99) }},
		{"do87-wrong-indicator", func(bs int, r *rand.Rand) []byte {
			return cat([]byte{0x87, byte(bs + 1), 0x02}, blocks(bs, r), sw99)
		}},
		{"do87-random-block", func(bs int, r *rand.Rand) []byte {
			return cat([]byte{0x87, byte(bs + 1), 0x01}, blocks(bs, r), sw99)
		}},
		{"do87-partial-block", func(bs int, r *rand.Rand) []byte { return cat([]byte{0x87, 0x06, 0x01}, blocks(5, r), sw99) }},
		{"do87-one-octet-cryptogram", func(bs int, r *rand.Rand) []byte { return cat([]byte{0x87, 0x02, 0x01, 0x80}, sw99) }},
		{"do85-empty", func(bs int, r *rand.Rand) []byte { return cat([]byte{0x85, 0x00}, sw99) }},
		{"do85-one-octet", func(bs int, r *rand.Rand) []byte { return cat([]byte{0x85, 0x01, 0x01}, sw99) }},
		{"do85-random-block", func(bs int, r *rand.Rand) []byte { return cat([]byte{0x85, byte(bs)}, blocks(bs, r), sw99) }},
		{"do99-empty", func(bs int, r *rand.Rand) []byte { return []byte{0x99, 0x00} }},
		{"do99-one-octet", func(bs int, r *rand.Rand) []byte { return []byte{0x99, 0x01, 0x90} }},
		{"do99-three-octets", func(bs int, r *rand.Rand) []byte { return []byte{0x99, 0x03, 0x90, 0x00, 0x00} }},
		{"no-do99", func(bs int, r *rand.Rand) []byte { return cat([]byte{0x87, byte(bs + 1), 0x01}, blocks(bs, r)) }},
		{"nothing-but-mac", func(bs int, r *rand.Rand) []byte { return []byte{} }},
		{"do87-twice", func(bs int, r *rand.Rand) []byte {
			return cat([]byte{0x87, 0x01, 0x01}, []byte{0x87, 0x01, 0x01}, sw99)
		}},
		{"do87-long-form-zero", func(bs int, r *rand.Rand) []byte { return cat([]byte{0x87, 0x81, 0x00}, sw99) }},
		{"do87-indefinite", func(bs int, r *rand.Rand) []byte { return cat([]byte{0x87, 0x80, 0x01, 0x00, 0x00}, sw99) }},
		{"do87-huge", func(bs int, r *rand.Rand) []byte {
			return cat([]byte{0x87, 0x83, 0x01, 0x00, 0x01, 0x01}, blocks(65536, r), sw99)
		}},
		{"unknown-objects", func(bs int, r *rand.Rand) []byte { return cat([]byte{0x80, 0x00, 0x9F, 0x7F, 0x00}, sw99) }},
		{"do99-then-do87", func(bs int, r *rand.Rand) []byte { return cat(sw99, []byte{0x87, 0x01, 0x01}) }},
	}
	type job struct {
		su sim.Suite
		sh shape
	}
	var jobs []job
	for _, su := range sim.Suites {
		for _, sh := range shapes {
			jobs = append(jobs, job{su, sh})
		}
	}
	outs := make([]hostileOutcome, len(jobs))
	delivered := make([]bool, len(jobs))
	core.ParallelFor(len(jobs), func(i int) {
		j := jobs[i]
		rnd := rand.New(rand.NewSource(c.Seed + 1000 + int64(i)))
		outs[i] = runHostile(func() error {
			chip, err := chipsim.New(chipsim.Config{MfFiles: map[uint16][]byte{0x011C: {0x31, 0x00}}, Transport: chipsim.Transport{ExtendedLength: true}, Rand: rnd})
			if err != nil {
				return nil
			}
			s := sim.NewPlain(chip)
			if err := s.InstallSM(j.su, rnd, nil); err != nil {
				return nil
			}
			s.Link.Script = func(idx int, cmd []byte, l *link.Link) link.Action {
				return link.Action{Name: j.sh.name, Respond: func(g []byte, l *link.Link) []byte {
					tr := chip.Truth()
					bs := 8
					if j.su.Cipher == "AES" {
						bs = 16
					}
					out, err := chipsim.AuthenticateRaw(j.su.Cipher, tr.SM.KSmac, sscAdd(s.SM.SSC(), 1), j.sh.dos(bs, rnd), 0x9000)
					if err != nil {
						return g
					}
					return out
				}}
			}
			ra, err := s.Nfc.DoAPDU(iso7816.NewCApdu(0, 0xB0, 0, 0, nil, 256), "x")
			if err == nil && ra != nil && len(ra.Data) > 0 {
				delivered[i] = true
			}
			return err
		})
	})
	for i, j := range jobs {
		c.Case(fmt.Sprintf("authenticated-hostile-chip/%s/%s", j.su.Name, j.sh.name), true)
		o := outs[i]
		if o.kind == "panic" || o.kind == "timeout" {
			c.Violation("C12:"+o.kind+":NfcSession.DoAPDU:"+panicSite(o.text), fmt.Sprintf("DoAPDU: %s on an authenticated response with %s (%s): %s", o.kind, j.sh.name, j.su.Name, firstLine(o.text)), map[string]any{"shape": j.sh.name, "suite": j.su.Name})
		} else if o.dur > core.Stretch(20*time.Second) {
			c.Violation("C12:slow:NfcSession.DoAPDU", fmt.Sprintf("DoAPDU took %s on an authenticated response with %s (%s)", o.dur, j.sh.name, j.su.Name), map[string]any{"shape": j.sh.name, "suite": j.su.Name})
		}
	}
	c.Extra["authenticated_hostile_responses"] = len(jobs)
}

// c12CraftedRepresentatives: whoever writes an evidence bundle (or personalises a chip) chooses the DG15 key TOGETHER with
// the signature, so the recovered ISO 9796-2 message representative can be ANY octet string: every short string over the
// octets that steer the decoder (header 6A / 4A, trailers BC / CC, hash identifiers, 00, 01) is "signed" with the private
// key of a harness key and verified; so are representatives just around the minimum sizes.
func c12CraftedRepresentatives(c *core.Ctx) {
	p, err := perso.New(perso.Options{Seed: c.Seed, AA: &perso.AASpec{Type: "rsa", Bits: 1024, Hash: "sha1"}, IssuerTrusted: true, OpenChip: true, BAC: true,
		Transport: chipsim.Transport{ExtendedLength: true}})
	if err != nil || p.AAKey == nil {
		core.Infra("C12: perso (rsa): %v", err)
	}
	dg15, err := document.NewDG15(p.AppFiles[0x010F])
	if err != nil {
		core.Infra("C12: NewDG15: %v", err)
	}
	n, d := new(big.Int).SetBytes(p.AAKey.N), new(big.Int).SetBytes(p.AAKey.D)
	k := len(p.AAKey.N)
	alpha := []byte{0x6A, 0x4A, 0xBC, 0xCC, 0x33, 0x34, 0x38, 0x00, 0x01}
	var reps [][]byte
	var gen func(prefix []byte, left int)
	gen = func(prefix []byte, left int) {
		if len(prefix) > 0 {
			reps = append(reps, append([]byte{}, prefix...))
		}
		if left == 0 {
			return
		}
		for _, a := range alpha {
			gen(append(prefix, a), left-1)
		}
	}
	gen(nil, 3)
	for _, tail := range [][]byte{{0xBC}, {0x34, 0xCC}, {0x38, 0xCC}, {0xCC}} {
		for body := 0; body <= 22; body++ {
			reps = append(reps, append(append([]byte{0x6A}, bytes.Repeat([]byte{0x11}, body)...), tail...))
		}
	}
	challenge := []byte{1, 2, 3, 4, 5, 6, 7, 8}
	outs := make([]hostileOutcome, len(reps))
	core.ParallelFor(len(reps), func(i int) {
		f := new(big.Int).SetBytes(reps[i])
		sig := new(big.Int).Exp(f, d, n).FillBytes(make([]byte, k))
		outs[i] = runHostile(func() error {
			_, err := activeauth.ValidateActiveAuthSignature(dg15, sig, challenge)
			if _, e2 := activeauth.VerifyEvidence(&document.Document{Mf: document.MasterFile{Lds1: document.LDS1{Dg15: dg15}}}, &document.ActiveAuthEvidence{Algorithm: oidRsaEncryption, Nonce: challenge, Signature: sig}); e2 != nil && err == nil {
				err = e2
			}
			return err
		})
	})
	for i, o := range outs {
		c.Case(fmt.Sprintf("crafted-representative/%x", reps[i]), true)
		if o.kind == "panic" || o.kind == "timeout" {
			c.Violation("C12:"+o.kind+":activeauth:"+panicSite(o.text), fmt.Sprintf("Active Authentication verification: %s on a signature whose recovered representative is %x: %s", o.kind, reps[i], firstLine(o.text)), map[string]any{"representative": core.Hex(reps[i])})
			return
		}
	}
	c.Extra["crafted_rsa_representatives"] = len(reps)
}

var oidRsaEncryption = asn1.ObjectIdentifier{1, 2, 840, 113549, 1, 1, 1}
