package core

import (
	"fmt"
	"strconv"
	"strings"
)

// Parser for values as TLC prints them (PrintT output, counterexample states):
//   integers, "strings", TRUE/FALSE, model values / identifiers,
//   <<a, b>> sequences/tuples -> []any, {a, b} sets -> Set, [k |-> v, ...] records -> map[string]any,
//   (k :> v @@ ...) functions -> Fn.

type Set []any
type Fn []FnPair
type FnPair struct{ K, V any }
type Ident string

type tlaParser struct {
	s string
	i int
}

func ParseTLA(s string) (v any, err error) {
	p := &tlaParser{s: s}
	defer func() {
		if r := recover(); r != nil {
			err = fmt.Errorf("ParseTLA: %v at %d in %.80q", r, p.i, s)
		}
	}()
	v = p.value()
	p.ws()
	if p.i != len(p.s) {
		panic("trailing input")
	}
	return v, nil
}

func (p *tlaParser) ws() {
	for p.i < len(p.s) && (p.s[p.i] == ' ' || p.s[p.i] == '\n' || p.s[p.i] == '\t' || p.s[p.i] == '\r') {
		p.i++
	}
}

func (p *tlaParser) has(t string) bool {
	p.ws()
	if strings.HasPrefix(p.s[p.i:], t) {
		p.i += len(t)
		return true
	}
	return false
}

func (p *tlaParser) list(end string) []any {
	var out []any
	if p.has(end) {
		return out
	}
	for {
		out = append(out, p.value())
		if p.has(",") {
			continue
		}
		if p.has(end) {
			return out
		}
		panic("expected , or " + end)
	}
}

func (p *tlaParser) value() any {
	p.ws()
	if p.i >= len(p.s) {
		panic("eof")
	}
	switch {
	case p.has("<<"):
		l := p.list(">>")
		if l == nil {
			l = []any{}
		}
		return l
	case p.has("{"):
		return Set(p.list("}"))
	case p.has("["):
		m := map[string]any{}
		if p.has("]") {
			return m
		}
		for {
			p.ws()
			j := p.i
			for p.i < len(p.s) && (isIdent(p.s[p.i])) {
				p.i++
			}
			k := p.s[j:p.i]
			if !p.has("|->") {
				panic("expected |->")
			}
			m[k] = p.value()
			if p.has(",") {
				continue
			}
			if p.has("]") {
				return m
			}
			panic("expected , or ]")
		}
	case p.has("("):
		var f Fn
		for {
			k := p.value()
			if !p.has(":>") {
				panic("expected :>")
			}
			v := p.value()
			f = append(f, FnPair{k, v})
			if p.has("@@") {
				continue
			}
			if p.has(")") {
				return f
			}
			panic("expected @@ or )")
		}
	case p.s[p.i] == '"':
		j := p.i + 1
		var b strings.Builder
		for j < len(p.s) && p.s[j] != '"' {
			if p.s[j] == '\\' && j+1 < len(p.s) {
				j++
			}
			b.WriteByte(p.s[j])
			j++
		}
		p.i = j + 1
		return b.String()
	case p.s[p.i] == '-' || (p.s[p.i] >= '0' && p.s[p.i] <= '9'):
		j := p.i
		p.i++
		for p.i < len(p.s) && p.s[p.i] >= '0' && p.s[p.i] <= '9' {
			p.i++
		}
		n, err := strconv.Atoi(p.s[j:p.i])
		if err != nil {
			panic(err)
		}
		return n
	default:
		j := p.i
		for p.i < len(p.s) && isIdent(p.s[p.i]) {
			p.i++
		}
		if j == p.i {
			panic("unexpected character")
		}
		id := p.s[j:p.i]
		switch id {
		case "TRUE":
			return true
		case "FALSE":
			return false
		}
		return Ident(id)
	}
}

func isIdent(c byte) bool {
	return c == '_' || (c >= 'a' && c <= 'z') || (c >= 'A' && c <= 'Z') || (c >= '0' && c <= '9')
}

// Ints converts a parsed sequence of integers.
func Ints(v any) []int {
	l, ok := v.([]any)
	if !ok {
		if s, ok := v.(Set); ok {
			l = []any(s)
		} else {
			panic(fmt.Sprintf("Ints: not a sequence: %T", v))
		}
	}
	out := make([]int, len(l))
	for i, x := range l {
		out[i] = x.(int)
	}
	return out
}

// Bytes converts a parsed sequence of integers 0..255.
func Bytes(v any) []byte {
	is := Ints(v)
	out := make([]byte, len(is))
	for i, x := range is {
		out[i] = byte(x)
	}
	return out
}

func Str(v any) string {
	switch x := v.(type) {
	case string:
		return x
	case Ident:
		return string(x)
	}
	return fmt.Sprint(v)
}
